#!/bin/bash
# for each behaviour-preserving rewrite: does an obligation of the generated tie break? (scratch worktree + private lean copy)
set -u
WT=/tmp/wt_bg; PV=/tmp/pf_BG
git -C /repo worktree remove --force $WT 2>/dev/null; git -C /repo worktree add -q --detach $WT HEAD
rm -rf $PV; mkdir -p $PV; rsync -a /verif/lean/ $PV/lean/
cd /verif
for f in benign/b*.diff; do
  id=$(basename $f .diff)
  git -C $WT apply /verif/$f 2>/dev/null || { echo "$id: no apply"; continue; }
  rm -rf /tmp/bga_gen; /verif/.build/go2lean $WT /tmp/bga_gen message eap lib encr integ prf esn dh security . > /tmp/bga_out.txt 2>&1
  cp /tmp/bga_gen/Gen_*.lean $PV/lean/IkeModel/Generated/
  lost=$(python3 - <<'PY'
import json
cur={(r["pkg"],r["name"]):r for r in json.load(open('/tmp/bga_gen/translation.json'))}
base=json.load(open('/verif/baseline/translated.json'))
print(len([1 for r in base if cur.get((r["pkg"],r["name"]),{}).get("status")!="translated"]))
PY
)
  (cd $PV/lean && lake build IkeProofs gendriver 2>&1 | grep -E "^✖" | head -4 | tr '\n' ' ' > /tmp/bga_err.txt)
  if [ -s /tmp/bga_err.txt ] || [ "$lost" != "0" ]; then echo "$id: TIE-BROKEN lost=$lost $(cut -c1-160 /tmp/bga_err.txt)"; else echo "$id: tie intact"; fi
  git -C $WT checkout -q -- . && git -C $WT clean -fdq
done
git -C /repo worktree remove --force $WT; rm -rf $PV /tmp/bga_gen
