import IkeModel
import DriverEap
import DriverOps
import DriverKeys
import DriverReg
import DriverSpec

/-! Model driver: one operation per input line, one result per output line
(`ok <canonical value>` | `err` | `panic`).  Run by the Go harness, which
executes the same operations on the implementation and compares. -/

open Ike

def resStr {α : Type} (f : α → String) : Res α → String
  | .ok a => "ok " ++ f a
  | .err => "err"
  | .fault => "panic"

def payloadKindCode (k : String) : Option UInt8 :=
  match k with
  | "SA" => some Facts.typeSA | "KE" => some Facts.typeKE | "IDi" => some Facts.typeIDi
  | "IDr" => some Facts.typeIDr | "CERT" => some Facts.typeCERT | "CERTREQ" => some Facts.typeCERTreq
  | "AUTH" => some Facts.typeAUTH | "NONCE" => some Facts.typeNiNr | "N" => some Facts.typeN
  | "D" => some Facts.typeD | "V" => some Facts.typeV | "TSi" => some Facts.typeTSi
  | "TSr" => some Facts.typeTSr | "SK" => some Facts.typeSK | "CP" => some Facts.typeCP
  | "EAP" => some Facts.typeEAP
  | _ => none

def decOp (name : String) (b : Bytes) : String :=
  if name == "msg" then resStr (fun m => (sxMsg m).toStr) (decodeMsg b)
  else if name == "hdr" then resStr (fun h => (sxHeaderFull h).toStr) (parseHeader b)
  else if name == "eap" then resStr (fun e => (sxEap e).toStr) (unmarshalEap b)
  else if name.startsWith "pl-" then
    match payloadKindCode (name.drop 3).toString with
    | some t => resStr (fun p => (sxPayload p).toStr) (unmarshalPayload t 0 b)
    | none => "bad-op"
  else if name.startsWith "chain-" then
    match (name.drop 6).toString.toNat? with
    | some t => resStr (fun ps => (sxPayloads ps).toStr) (decodeChain (UInt8.ofNat t) b)
    | none => "bad-op"
  else if name == "eapm-ID" then resStr (fun d => (sxEapData d).toStr) (unmarshalSimple Facts.eapTypeIdentity .identity b)
  else if name == "eapm-NOTIF" then resStr (fun d => (sxEapData d).toStr) (unmarshalSimple Facts.eapTypeNotification .notification b)
  else if name == "eapm-NAK" then resStr (fun d => (sxEapData d).toStr) (unmarshalSimple Facts.eapTypeNak .nak b)
  else if name == "eapm-EXP" then resStr (fun d => (sxEapData d).toStr) (unmarshalExpanded b)
  else if name == "eapm-AKA" then resStr (fun a => (sxEapData (.aka a)).toStr) (unmarshalAka b)
  else "bad-op"

def parseSxFrom (ts : Array String) (i : Nat) : Option Sx :=
  match Sx.parseTokens ts i with
  | some (v, _) => some v
  | none => none

def encMsgOp (ts : Array String) : String :=
  match parseSxFrom ts 2 with
  | some s =>
    match rdMsg s with
    | some m => resStr (fun (r : Bytes × Header) => xhex r.1) (encodeMsg m)
    | none => "bad-msg"
  | none => "bad-sx"

def reencOp (kind : String) (b : Bytes) : String :=
  if kind == "msg" then
    match decodeMsg b with
    | .ok m => resStr (fun (r : Bytes × Header) => xhex r.1) (encodeMsg m)
    | .err => "decode-err"
    | .fault => "decode-panic"
  else if kind == "eap" then
    match unmarshalEap b with
    | .ok e => resStr xhex (marshalEap e)
    | .err => "decode-err"
    | .fault => "decode-panic"
  else "bad-op"

def listGet? {α : Type} : List α → Nat → Option α
  | [], _ => none
  | x :: _, 0 => some x
  | _ :: xs, n + 1 => listGet? xs n

/-- SA object from `<e> <i> <p> <d> <ai> <ar> <ei> <er> <pi> <pr>` at token offset `o` -/
def rdSA (ts : Array String) (o : Nat) : Option SAKey := do
  let e ← (← ts[o]?).toNat?
  let i ← (← ts[o+1]?).toNat?
  let p ← (← ts[o+2]?).toNat?
  let (eid, ekl) ← listGet? Facts.encrTable e
  let (iid, ikl, iol, ih) ← listGet? Facts.integTable i
  let (pid, pkl, pol, ph) ← listGet? Facts.prfTable p
  let d ← parseX (← ts[o+3]?)
  let ai ← parseX (← ts[o+4]?)
  let ar ← parseX (← ts[o+5]?)
  let ei ← parseX (← ts[o+6]?)
  let er ← parseX (← ts[o+7]?)
  let pi ← parseX (← ts[o+8]?)
  let pr ← parseX (← ts[o+9]?)
  pure (SAKey.fresh ⟨eid, ekl⟩ ⟨iid, ikl, iol, ih⟩ ⟨pid, pkl, pol, ph⟩ d ai ar ei er pi pr)

def protectOp (ts : Array String) (spec : Bool) : String :=
  match rdSA ts 1, ts[11]?, (ts[12]?).bind parseX, parseSxFrom ts 13 with
  | some sa, some roleS, some rnd, some sx =>
    match rdMsg sx with
    | some m =>
      let role := roleS == "I"
      if spec then
        match encodeChain m.payloads with
        | .ok inner =>
          let padding := 16 - inner.length % 16
          let stream := cyc rnd 0 (padding + 16)
          let pad := stream.take (padding - 1)
          let iv := stream.drop padding
          let first : UInt8 := match m.payloads with | p :: _ => p.typeCode | [] => Facts.typeNoNext
          let k : Spec.SkParams := if role then ⟨sa.sk_ei, sa.sk_ai, sa.integInfo.hash, sa.integInfo.outLen⟩
                                   else ⟨sa.sk_er, sa.sk_ar, sa.integInfo.hash, sa.integInfo.outLen⟩
          let out := Spec.skMessage Prims.real k m.hdr first inner iv pad
          if out.length - 28 > 0xFFFF then "err" else "ok " ++ xhex out
        | .err => "err"
        | .fault => "panic"
      else
        let (_, _, r) := protect Prims.real sa role { buf := rnd } m
        resStr (fun (x : Bytes × Msg) => xhex x.1) r
    | none => "bad-msg"
  | _, _, _, _ => "bad-args"

def unprotectOp (ts : Array String) : String :=
  match rdSA ts 1, ts[11]?, ts[12]?, (ts[13]?).bind parseX with
  | some sa, some roleS, some hS, some bs =>
    let role := roleS == "I"
    if hS == "1" then
      match parseHeader bs with
      | .ok h => let (_, _, r) := unprotect Prims.real (some sa) role (some h) bs
                 resStr (fun m => (sxMsg m).toStr) r
      | .err => "err"
      | .fault => "panic"
    else
      let (_, _, r) := unprotect Prims.real (some sa) role none bs
      resStr (fun m => (sxMsg m).toStr) r
  | _, _, _, _ => "bad-args"

def cbcDecryptOp (ts : Array String) : String :=
  match (ts[1]?).bind parseX, (ts[2]?).bind parseX with
  | some k, some ct => resStr xhex (cbcDecrypt Prims.real ⟨k⟩ ct)
  | _, _ => "bad-args"

def handle (line : String) : String :=
  let ts := Sx.tokens line
  if h : 0 < ts.size then
    let op := ts[0]
    if let some r := handleEap ts then r
    else if op == "dec" then
      if h3 : ts.size = 3 then
        match parseX ts[2] with
        | some b => decOp ts[1] b
        | none => "bad-hex"
      else "bad-op"
    else if op == "enc" then encMsgOp ts
    else if op == "reenc" then
      if h3 : ts.size = 3 then
        match parseX ts[2] with
        | some b => reencOp ts[1] b
        | none => "bad-hex"
      else "bad-op"
    else if op == "protect" then protectOp ts false
    else if op == "spec-sk" then protectOp ts true
    else if op == "unprotect" then unprotectOp ts
    else if op == "cbc-decrypt" then cbcDecryptOp ts
    else if let some r := handleOps ts then r
    else if let some r := handleKeys ts then r
    else if let some r := handleReg ts then r
    else if let some r := handleSpec ts then r
    else "bad-op"
  else "bad-op"

partial def loop (hin : IO.FS.Stream) (hout : IO.FS.Stream) : IO Unit := do
  let line ← hin.getLine
  if line.isEmpty then return ()
  hout.putStrLn (handle line)
  loop hin hout

def main : IO Unit := do
  let hin ← IO.getStdin
  let hout ← IO.getStdout
  loop hin hout
