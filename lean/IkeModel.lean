import IkeModel.GoSem
