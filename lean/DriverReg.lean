import IkeModel
import IkeModel.Security.Registry
import IkeModel.Message.Build
import IkeModel.Spec.Ts24502

/-! Driver operations of C11 (registries) and C19 (builders, constructors,
TS 24.502 layouts).  `handleReg` returns `none` for an operation that is not
one of these. -/

open Ike

namespace DriverReg

def natAt (ts : Array String) (i : Nat) : Option Nat := (ts[i]?).bind String.toNat?
def bytesAt (ts : Array String) (i : Nat) : Option Bytes := (ts[i]?).bind parseX

def u8At (ts : Array String) (i : Nat) : Option UInt8 := (natAt ts i).map UInt8.ofNat
def u16At (ts : Array String) (i : Nat) : Option UInt16 := (natAt ts i).map UInt16.ofNat
def u32At (ts : Array String) (i : Nat) : Option UInt32 := (natAt ts i).map UInt32.ofNat
def u64At (ts : Array String) (i : Nat) : Option UInt64 := (natAt ts i).map UInt64.ofNat
def boolAt (ts : Array String) (i : Nat) : Option Bool := (natAt ts i).map (· != 0)

/-- `-` = nil pointer, otherwise a number -/
def optU16At (ts : Array String) (i : Nat) : Option (Option UInt16) :=
  match ts[i]? with
  | some "-" => some none
  | some s => (s.toNat?).map (fun n => some (UInt16.ofNat n))
  | none => none

def optNatAt (ts : Array String) (i : Nat) : Option (Option Nat) :=
  match ts[i]? with
  | some "-" => some none
  | some s => (s.toNat?).map some
  | none => none

def listGet? {α : Type} : List α → Nat → Option α
  | [], _ => none
  | x :: _, 0 => some x
  | _ :: xs, n + 1 => listGet? xs n

/-! ### C11 -/

def okAlg (id : UInt16) (k o : Nat) : String := s!"ok {id.toNat} {k} {o}"

/-- `dectr <kind> <ttype> <id> <present> <fmt> <atype> <aval> x<vval>` -/
def dectrOp (ts : Array String) : Option String := do
  let kind ← ts[1]?
  let t : Transform := ⟨← u8At ts 2, ← u16At ts 3, ← boolAt ts 4, ← u8At ts 5, ← u16At ts 6, ← u16At ts 7, ← bytesAt ts 8⟩
  match kind with
  | "encr" => pure (match Registry.decodeEncr t with | some a => okAlg a.tid a.keyLen 0 | none => "none")
  | "encrk" => pure (match Registry.decodeEncrChild t with | some a => okAlg a.tid a.keyLen 0 | none => "none")
  | "integ" => pure (match Registry.decodeInteg t with | some a => okAlg a.tid a.keyLen a.outLen | none => "none")
  | "integk" => pure (match Registry.decodeIntegChild t with | some a => okAlg a.tid a.keyLen 0 | none => "none")
  | "prf" => pure (match Registry.decodePrf t with | some a => okAlg a.tid a.keyLen a.outLen | none => "none")
  | "dh" => pure (match Registry.decodeDh t with | some a => okAlg a.tid a.len 0 | none => "none")
  | "esn" => pure (match Registry.decodeEsn t with | .ok a => okAlg a.tid (if a.needESN then 1 else 0) 0 | _ => "none")
  | _ => none

def trStr (t : Transform) : String := "ok " ++ (sxTransform t).toStr

def resTr : Res Transform → String
  | .ok t => trStr t
  | .err => "err"
  | .fault => "panic"

/-- `totr <kind> <index>` -/
def totrOp (ts : Array String) : Option String := do
  let kind ← ts[1]?
  let i ← natAt ts 2
  match kind with
  | "encr" => pure (resTr (Registry.encrToTransform (← listGet? Registry.advertisedEncr i)))
  | "encrk" => pure (resTr (Registry.encrChildToTransform (← listGet? Registry.advertisedEncrChild i)))
  | "integ" => pure (trStr (Registry.integToTransform (← listGet? Registry.advertisedInteg i)))
  | "integk" => pure (trStr (Registry.integChildToTransform (← listGet? Registry.advertisedIntegChild i)))
  | "prf" => pure (trStr (Registry.prfToTransform (← listGet? Registry.advertisedPrf i)))
  | "dh" => pure (trStr (Registry.dhToTransform (← listGet? Registry.advertisedDh i)))
  | "esn" => pure (trStr (Registry.esnToTransform (← listGet? Registry.advertisedEsn i)))
  | _ => none

def optId (o : Option UInt16) : String :=
  match o with
  | some v => toString v.toNat
  | none => "-"

/-- `selike <nonce length> <P>` -/
def selIkeOp (ts : Array String) : Option String := do
  let n ← natAt ts 1
  let (sx, _) ← Sx.parseTokens ts 2
  let p ← rdProposal sx
  pure (match Registry.newIkeSaKeyAlgs (some p) (zeros n) with
    | .ok s => s!"ok {s.dh.tid.toNat} {s.encr.tid.toNat} {s.encr.keyLen} {s.integ.tid.toNat} {s.prf.tid.toNat}"
    | .err => "err"
    | .fault => "panic")

/-- `selchild <P>` -/
def selChildOp (ts : Array String) : Option String := do
  let (sx, _) ← Sx.parseTokens ts 1
  let p ← rdProposal sx
  pure (match Registry.selectChild (some p) with
    | .ok s => s!"ok {optId (s.dh.map (·.tid))} {s.encr.tid.toNat} {s.encr.keyLen} {optId (s.integ.map (·.tid))} {if s.esn.needESN then 1 else 0}"
    | .err => "err"
    | .fault => "panic")

def resProp : Res Proposal → String
  | .ok p => "ok " ++ (sxProposal p).toStr
  | .err => "err"
  | .fault => "panic"

/-- `toprop ike <d> <e> <i> <p>` | `toprop child <d|-> <e> <i|-> <n>` (indices into the advertised lists) -/
def toPropOp (ts : Array String) : Option String := do
  match ← ts[1]? with
  | "ike" =>
    let d ← listGet? Registry.advertisedDh (← natAt ts 2)
    let e ← listGet? Registry.advertisedEncr (← natAt ts 3)
    let i ← listGet? Registry.advertisedInteg (← natAt ts 4)
    let p ← listGet? Registry.advertisedPrf (← natAt ts 5)
    pure (resProp (Registry.ikeToProposal ⟨d, e, i, p⟩))
  | "child" =>
    let d ← match ← optNatAt ts 2 with
      | some k => (listGet? Registry.advertisedDh k).map some
      | none => some none
    let e ← listGet? Registry.advertisedEncrChild (← natAt ts 3)
    let i ← match ← optNatAt ts 4 with
      | some k => (listGet? Registry.advertisedIntegChild k).map some
      | none => some none
    let n ← listGet? Registry.advertisedEsn (← natAt ts 5)
    pure (resProp (Registry.childToProposal ⟨d, e, i, n⟩))
  | _ => none

/-! ### C19 -/

def okPayloads (ps : List Payload) : String := "ok " ++ (sxPayloads ps).toStr

def resPayloads (before : List Payload) : Res (List Payload) → String
  | .ok ps => okPayloads ps
  | .err => "err " ++ (sxPayloads before).toStr
  | .fault => "panic"

def sxCPAttr (x : CPAttr) : Sx := .list [.atom "A", sN x.atype.toNat, sX x.value]

def rdCPAttr : Sx → Option CPAttr
  | .list [.atom "A", ty, v] => do pure ⟨UInt16.ofNat (← ty.nat?), ← v.bytes?⟩
  | _ => none

def rdU32s (s : Sx) : Option (List UInt32) := do
  (← s.items?).mapM (fun x => do pure (UInt32.ofNat (← x.nat?)))

/-- address argument: `empty` (the empty string) or the octets of `ParseIP(s).To4()` -/
def addrAt (ts : Array String) (i : Nat) : Option (Option Bytes) :=
  match ts[i]? with
  | some "empty" => some none
  | some s => (parseX s).map some
  | none => none

/-- `build <prior container sexpr> <op> <args…>` -/
def buildOp (ts : Array String) : Option String := do
  let (prior, o) ← Sx.parseTokens ts 1
  let op ← ts[o]?
  let a := o + 1
  -- sub-containers first
  if op == "transform" then
    let l ← rdTransforms prior
    let r := Build.buildTransform l (← u8At ts a) (← u16At ts (a+1)) (← optU16At ts (a+2)) (← optU16At ts (a+3)) (← bytesAt ts (a+4))
    pure ("ok " ++ (Sx.list (r.map sxTransform)).toStr)
  else if op == "cpattr" then
    let l ← (← prior.items?).mapM rdCPAttr
    let r := Build.buildConfigurationAttribute l (← u16At ts a) (← bytesAt ts (a+1))
    pure ("ok " ++ (Sx.list (r.map sxCPAttr)).toStr)
  else if op == "tsel" then
    let l ← (← prior.items?).mapM rdTSel
    let r := Build.buildIndividualTrafficSelector l (← u8At ts a) (← u8At ts (a+1)) (← u16At ts (a+2)) (← u16At ts (a+3))
      (← bytesAt ts (a+4)) (← bytesAt ts (a+5))
    pure ("ok " ++ (Sx.list (r.map sxTSel)).toStr)
  else if op == "proposal" then
    let l ← (← prior.items?).mapM rdProposal
    let r := Build.buildProposal l (← u8At ts a) (← u8At ts (a+1)) (← bytesAt ts (a+2))
    pure ("ok " ++ (Sx.list (r.map sxProposal)).toStr)
  else
  let c ← rdPayloads prior
  match op with
  | "notification" => pure (okPayloads (Build.buildNotification c (← u8At ts a) (← u16At ts (a+1)) (← bytesAt ts (a+2)) (← bytesAt ts (a+3))))
  | "certificate" => pure (okPayloads (Build.buildCertificate c (← u8At ts a) (← bytesAt ts (a+1))))
  | "encrypted" => pure (okPayloads (Build.buildEncrypted c (← u8At ts a) (← bytesAt ts (a+1))))
  | "ke" => pure (okPayloads (Build.buildKeyExchange c (← u16At ts a) (← bytesAt ts (a+1))))
  | "idi" => pure (okPayloads (Build.buildIdentificationInitiator c (← u8At ts a) (← bytesAt ts (a+1))))
  | "idr" => pure (okPayloads (Build.buildIdentificationResponder c (← u8At ts a) (← bytesAt ts (a+1))))
  | "auth" => pure (okPayloads (Build.buildAuthentication c (← u8At ts a) (← bytesAt ts (a+1))))
  | "configuration" => pure (okPayloads (Build.buildConfiguration c (← u8At ts a)))
  | "nonce" => pure (okPayloads (Build.buildNonce c (← bytesAt ts a)))
  | "tsi" => pure (okPayloads (Build.buildTrafficSelectorInitiator c))
  | "tsr" => pure (okPayloads (Build.buildTrafficSelectorResponder c))
  | "sa" => pure (okPayloads (Build.buildSecurityAssociation c))
  | "delete" =>
    let (sp, _) ← Sx.parseTokens ts (a+3)
    pure (okPayloads (Build.buildDeletePayload c (← u8At ts a) (← u8At ts (a+1)) (← u16At ts (a+2)) (← rdU32s sp)))
  | "eap" => pure (okPayloads (Build.buildEAP c (← u8At ts a) (← u8At ts (a+1))))
  | "eapsuccess" => pure (okPayloads (Build.buildEAPSuccess c (← u8At ts a)))
  | "eapfailure" => pure (okPayloads (Build.buildEAPfailure c (← u8At ts a)))
  | "eap5gstart" => pure (okPayloads (Build.buildEAP5GStart c (← u8At ts a)))
  | "eap5gnas" => pure (resPayloads c (Build.buildEAP5GNAS c (← u8At ts a) (← bytesAt ts (a+1))))
  | "qos" => pure (resPayloads c (Build.buildNotify5GQosInfo c (← u8At ts a) (← bytesAt ts (a+1)) (← boolAt ts (a+2)) (← boolAt ts (a+3)) (← u8At ts (a+4))))
  | "nasip" => pure (okPayloads (Build.buildNotifyNasIp4Address c (← addrAt ts a)))
  | "upip" => pure (okPayloads (Build.buildNotifyUpIp4Address c (← addrAt ts a)))
  | "tcpport" => pure (okPayloads (Build.buildNotifyNasTcpPort c (← u16At ts a)))
  | "reset" => pure (okPayloads (Build.reset c))
  | _ => none

/-- `newheader <ispi> <rspi> <exch> <resp> <init> <mid>`: header of `NewMessage` (next payload 0, no payload
octets); with two more arguments `<next> x<payload octets>`: `NewHeader` -/
def newHeaderOp (ts : Array String) : Option String := do
  let h ← if ts.size ≥ 9 then
      pure (newHeader (← u64At ts 1) (← u64At ts 2) (← u8At ts 3) (← boolAt ts 4) (← boolAt ts 5) (← u32At ts 6) (← u8At ts 7) (← bytesAt ts 8))
    else
      pure (Build.newMessage (← u64At ts 1) (← u64At ts 2) (← u8At ts 3) (← boolAt ts 4) (← boolAt ts 5) (← u32At ts 6) []).hdr
  pure s!"ok {(sxHeaderFull h).toStr} {if h.isResponse then 1 else 0} {if h.isInitiator then 1 else 0}"

/-- `hdrflags <flags octet>` → `ok <IsResponse> <IsInitiator>` -/
def hdrFlagsOp (ts : Array String) : Option String := do
  let h : Header := { ispi := 0, rspi := 0, major := 2, minor := 0, exch := 0, flags := ← u8At ts 1, mid := 0 }
  pure s!"ok {if h.isResponse then 1 else 0} {if h.isInitiator then 1 else 0}"

/-- `spec3gpp <kind> <args>`: the TS 24.502 octet strings (payload bodies) -/
def spec3gppOp (ts : Array String) : Option String := do
  match ← ts[1]? with
  | "start" => pure ("ok " ++ xhex (Spec.Ts24502.eap5gStart (← u8At ts 2)))
  | "nas" =>
    let nas ← bytesAt ts 3
    if Spec.Ts24502.eap5gNasDefined nas then pure ("ok " ++ xhex (Spec.Ts24502.eap5gNas (← u8At ts 2) nas)) else pure "err"
  | "qos" =>
    let qfis ← bytesAt ts 3
    let dscp : Option UInt8 := (← optNatAt ts 5).map UInt8.ofNat
    if Spec.Ts24502.qosInfoDefined qfis dscp then
      pure ("ok " ++ xhex (Spec.Ts24502.notifyQosInfo (← u8At ts 2) qfis (← boolAt ts 4) dscp))
    else pure "err"
  | "nasip" =>
    match ← bytesAt ts 2 with
    | [a, b, c, d] => pure ("ok " ++ xhex (Spec.Ts24502.notifyNasIp4 a b c d))
    | _ => none
  | "upip" =>
    match ← bytesAt ts 2 with
    | [a, b, c, d] => pure ("ok " ++ xhex (Spec.Ts24502.notifyUpIp4 a b c d))
    | _ => none
  | "tcpport" => pure ("ok " ++ xhex (Spec.Ts24502.notifyNasTcpPort (← natAt ts 2)))
  | _ => none

end DriverReg

def handleReg (ts : Array String) : Option String :=
  match ts[0]? with
  | some "dectr" => some ((DriverReg.dectrOp ts).getD "bad-args")
  | some "totr" => some ((DriverReg.totrOp ts).getD "bad-args")
  | some "selike" => some ((DriverReg.selIkeOp ts).getD "bad-args")
  | some "selchild" => some ((DriverReg.selChildOp ts).getD "bad-args")
  | some "toprop" => some ((DriverReg.toPropOp ts).getD "bad-args")
  | some "build" => some ((DriverReg.buildOp ts).getD "bad-args")
  | some "newheader" => some ((DriverReg.newHeaderOp ts).getD "bad-args")
  | some "hdrflags" => some ((DriverReg.hdrFlagsOp ts).getD "bad-args")
  | some "spec3gpp" => some ((DriverReg.spec3gppOp ts).getD "bad-args")
  | _ => none
