import IkeModel.Security.Keys
import IkeModel.Security.Dh
import IkeModel.EapKeys
import IkeModel.Spec.Keys
import IkeModel.Sexp

/-! Driver operations of the key-derivation properties C07, C08, C09, C16.

    ikekeys   <e> <i> <p> x<nonce> x<secret> <spiI> <spiR>          -> ok x<d> x<ai> x<ar> x<ei> x<er> x<pi> x<pr>
    ikekeys2  <e> <i> <p> x<n1> x<s1> <spiI1> <spiR1> x<n2> x<s2> <spiI2> <spiR2>
                                                                     -> second derivation on the object left by the first
    childkeys <p> x<SK_d> <encrIdx> <integIdx|-1> x<nonce> <k>       -> ok x<ei> x<ai> x<er> x<ar>   (k-th derivation on one object)
    childkeys2 <p> x<SK_d> <encrIdx> <integIdx|-1> x<n1> x<n2>       -> two derivations into ONE ChildSAKey object
    prfplus   <p> x<key> x<seed> <n>                                 -> ok x<stream>
    dhpub     <group 0|1> x<exponent>                                -> ok x<value>
    dhshared  <group 0|1> x<exponent> x<peer>                        -> ok x<value>
    akaprf    x<ik> x<ck> x<identity>                                -> ok x<kencr> x<kaut> x<kre> x<msk> x<emsk> | err
    spec-ikekeys / spec-childkeys / spec-prfplus / spec-akaprf / spec-dhpub / spec-dhshared:
              same arguments, computed by the RFC transcriptions of IkeModel/Spec/Keys.lean -/

open Ike

namespace DriverKeys

def lget? {α : Type} : List α → Nat → Option α
  | [], _ => none
  | x :: _, 0 => some x
  | _ :: xs, n + 1 => lget? xs n

def rs {α : Type} (f : α → String) : Res α → String
  | .ok a => "ok " ++ f a
  | .err => "err"
  | .fault => "panic"

def tokNat (ts : Array String) (i : Nat) : Option Nat := (ts[i]?).bind String.toNat?
def tokX (ts : Array String) (i : Nat) : Option Bytes := (ts[i]?).bind parseX

def rdInfos (ts : Array String) (o : Nat) : Option (EncrInfo × IntegInfo × PrfInfo) := do
  let e ← tokNat ts o
  let i ← tokNat ts (o + 1)
  let p ← tokNat ts (o + 2)
  let (eid, ekl) ← lget? Facts.encrTable e
  let (iid, ikl, iol, ih) ← lget? Facts.integTable i
  let (pid, pkl, pol, ph) ← lget? Facts.prfTable p
  pure (⟨eid, ekl⟩, ⟨iid, ikl, iol, ih⟩, ⟨pid, pkl, pol, ph⟩)

def rdPrf (ts : Array String) (o : Nat) : Option PrfInfo := do
  let p ← tokNat ts o
  let (pid, pkl, pol, ph) ← lget? Facts.prfTable p
  pure ⟨pid, pkl, pol, ph⟩

/-- a not-yet-keyed SA object (`&IKESAKey{EncrInfo:…, IntegInfo:…, PrfInfo:…, DhInfo:…}`) -/
def blankSA (e : EncrInfo) (i : IntegInfo) (p : PrfInfo) : SAKey := SAKey.fresh e i p [] [] [] [] [] [] []

def showKeys (sa : SAKey) : String :=
  " ".intercalate [xhex sa.sk_d, xhex sa.sk_ai, xhex sa.sk_ar, xhex sa.sk_ei, xhex sa.sk_er, xhex sa.sk_pi, xhex sa.sk_pr]

/-- the objects of the SA must be keyed with the SA's keys, buffers empty -/
def objectsKeyed (sa : SAKey) : Bool :=
  sa.prf_d == ⟨sa.prfInfo.hash, sa.sk_d, []⟩ && sa.prf_i == ⟨sa.prfInfo.hash, sa.sk_pi, []⟩ &&
  sa.prf_r == ⟨sa.prfInfo.hash, sa.sk_pr, []⟩ && sa.integ_i == ⟨sa.integInfo.hash, sa.sk_ai, []⟩ &&
  sa.integ_r == ⟨sa.integInfo.hash, sa.sk_ar, []⟩ && sa.encr_i == ⟨sa.sk_ei⟩ && sa.encr_r == ⟨sa.sk_er⟩

def ikeKeysRes (r : SAKey × Res Unit) : String :=
  match r with
  | (sa, .ok ()) => if objectsKeyed sa then "ok " ++ showKeys sa else "objects-not-keyed " ++ showKeys sa
  | (_, .err) => "err"
  | (_, .fault) => "panic"

def ikeKeysOp (ts : Array String) : String :=
  match rdInfos ts 1, tokX ts 4, tokX ts 5, tokNat ts 6, tokNat ts 7 with
  | some (e, i, p), some nonce, some secret, some si, some sr =>
    ikeKeysRes (genKeyForIKESA Prims.real (blankSA e i p) nonce secret (UInt64.ofNat si) (UInt64.ofNat sr))
  | _, _, _, _, _ => "bad-args"

def ikeKeys2Op (ts : Array String) : String :=
  match rdInfos ts 1, tokX ts 4, tokX ts 5, tokNat ts 6, tokNat ts 7, tokX ts 8, tokX ts 9, tokNat ts 10, tokNat ts 11 with
  | some (e, i, p), some n1, some s1, some si1, some sr1, some n2, some s2, some si2, some sr2 =>
    let (sa1, _) := genKeyForIKESA Prims.real (blankSA e i p) n1 s1 (UInt64.ofNat si1) (UInt64.ofNat sr1)
    ikeKeysRes (genKeyForIKESA Prims.real sa1 n2 s2 (UInt64.ofNat si2) (UInt64.ofNat sr2))
  | _, _, _, _, _, _, _, _, _ => "bad-args"

def specIkeKeysOp (ts : Array String) : String :=
  match rdInfos ts 1, tokX ts 4, tokX ts 5, tokNat ts 6, tokNat ts 7 with
  | some (e, i, p), some nonce, some secret, some si, some sr =>
    match Spec.rfcPrfLen p.tid.toNat, Spec.rfcInteg i.tid.toNat, Spec.rfcAesKeyLen (e.keyLen * 8) with
    | some pl, some (il, _), some el =>
      let k := Spec.ikeKeys (Prims.real.mac p.hash) pl il el nonce secret (UInt64.ofNat si) (UInt64.ofNat sr)
      "ok " ++ " ".intercalate [xhex k.d, xhex k.ai, xhex k.ar, xhex k.ei, xhex k.er, xhex k.pi, xhex k.pr]
    | _, _, _ => "bad-alg"
  | _, _, _, _, _ => "bad-args"

/-- Child SA descriptor from `<encrIdx> <integIdx|-1>` -/
def rdChild (ts : Array String) (o : Nat) : Option ChildSAKey := do
  let e ← tokNat ts o
  let (_, ekl) ← lget? Facts.encrChildTable e
  let it ← ts[o + 1]?
  if it == "-1" then pure { encrKeyLen := ekl, integKeyLen := none }
  else
    let i ← it.toNat?
    let (_, ikl, _, _) ← lget? Facts.integChildTable i
    pure { encrKeyLen := ekl, integKeyLen := some ikl }

def showChild (c : ChildSAKey) : String :=
  " ".intercalate [xhex c.i2rEncr, xhex c.i2rInteg, xhex c.r2iEncr, xhex c.r2iInteg]

/-- SA object of which only `Prf_d` / `SK_d` matter -/
def saWithSkD (p : PrfInfo) (skd : Bytes) : SAKey :=
  SAKey.fresh ⟨Facts.encrAesCbcId, 16⟩ ⟨0, 0, 0, 0⟩ p skd [] [] [] [] [] []

/-- derivations 1 … k-1 on the same SA object use the nonce followed by the octet `j mod 256`;
the k-th uses the nonce itself, into a fresh ChildSAKey; its result is printed. -/
def childLoop (sa : SAKey) (c0 : ChildSAKey) (nonce : Bytes) : Nat → Nat → SAKey
  | 0, _ => sa
  | n + 1, j =>
    let (sa', _) := genKeyForChildSA Prims.real sa c0 (nonce ++ [UInt8.ofNat j])
    childLoop sa' c0 nonce n (j + 1)

def childKeysOp (ts : Array String) : String :=
  match rdPrf ts 1, tokX ts 2, rdChild ts 3, tokX ts 5, tokNat ts 6 with
  | some p, some skd, some c0, some nonce, some k =>
    let sa := childLoop (saWithSkD p skd) c0 nonce (k - 1) 1
    let (_, r) := genKeyForChildSA Prims.real sa c0 nonce
    rs showChild r
  | _, _, _, _, _ => "bad-args"

def childKeys2Op (ts : Array String) : String :=
  match rdPrf ts 1, tokX ts 2, rdChild ts 3, tokX ts 5, tokX ts 6 with
  | some p, some skd, some c0, some n1, some n2 =>
    match genKeyForChildSA Prims.real (saWithSkD p skd) c0 n1 with
    | (sa1, .ok c1) => let (_, r) := genKeyForChildSA Prims.real sa1 c1 n2
                       rs showChild r
    | (_, .err) => "err"
    | (_, .fault) => "panic"
  | _, _, _, _, _ => "bad-args"

def specChildKeysOp (ts : Array String) : String :=
  match rdPrf ts 1, tokX ts 2, rdChild ts 3, tokX ts 5 with
  | some p, some skd, some c0, some nonce =>
    match Spec.rfcPrfLen p.tid.toNat with
    | some pl =>
      let il := match c0.integKeyLen with | some n => n | none => 0
      let k := Spec.keymat (Prims.real.mac p.hash) pl skd nonce c0.encrKeyLen il
      "ok " ++ " ".intercalate [xhex k.ei, xhex k.ai, xhex k.er, xhex k.ar]
    | none => "bad-alg"
  | _, _, _, _ => "bad-args"

def prfPlusOp (ts : Array String) : String :=
  match rdPrf ts 1, tokX ts 2, tokX ts 3, tokNat ts 4 with
  | some p, some key, some seed, some n =>
    let (_, r) := prfPlus Prims.real (p.init key) seed n
    rs xhex r
  | _, _, _, _ => "bad-args"

def specPrfPlusOp (ts : Array String) : String :=
  match rdPrf ts 1, tokX ts 2, tokX ts 3, tokNat ts 4 with
  | some p, some key, some seed, some n =>
    match Spec.rfcPrfLen p.tid.toNat with
    | some pl => "ok " ++ xhex (Spec.prfPlusN (Prims.real.mac p.hash) pl key seed n)
    | none => "bad-alg"
  | _, _, _, _ => "bad-args"

def rdGroup (ts : Array String) (o : Nat) : Option DhGroup :=
  match ts[o]? with
  | some "0" => some dhGroup2
  | some "1" => some dhGroup14
  | _ => none

def dhPubOp (ts : Array String) : String :=
  match rdGroup ts 1, tokX ts 2 with
  | some g, some x => rs xhex (dhPub g (beNat x))
  | _, _ => "bad-args"

def dhSharedOp (ts : Array String) : String :=
  match rdGroup ts 1, tokX ts 2, tokX ts 3 with
  | some g, some x, some y => rs xhex (dhShared g (beNat x) (beNat y))
  | _, _, _ => "bad-args"

/-- RFC side: the RFC prime literal, generator 2, fixed-width encoding -/
def specGroup (ts : Array String) (o : Nat) : Option (Nat × Nat) :=
  match ts[o]? with
  | some "0" => some (Spec.rfc2409Group2, 128)
  | some "1" => some (Spec.rfc3526Group14, 256)
  | _ => none

def specDhPubOp (ts : Array String) : String :=
  match specGroup ts 1, tokX ts 2 with
  | some (p, l), some x => "ok " ++ xhex (natToBytes l (modPow 2 (beNat x) p))
  | _, _ => "bad-args"

def specDhSharedOp (ts : Array String) : String :=
  match specGroup ts 1, tokX ts 2, tokX ts 3 with
  | some (p, l), some x, some y => "ok " ++ xhex (natToBytes l (modPow (beNat y) (beNat x) p))
  | _, _, _ => "bad-args"

def akaPrfOp (ts : Array String) : String :=
  match tokX ts 1, tokX ts 2, tokX ts 3 with
  | some ik, some ck, some id =>
    rs (fun (k : AkaKeys) => " ".intercalate [xhex k.kEncr, xhex k.kAut, xhex k.kRe, xhex k.msk, xhex k.emsk])
      (akaPrf Prims.real ik ck id)
  | _, _, _ => "bad-args"

def specAkaPrfOp (ts : Array String) : String :=
  match tokX ts 1, tokX ts 2, tokX ts 3 with
  | some ik, some ck, some id =>
    if ik.isEmpty || ck.isEmpty then "err" else
    let k := Spec.akaPrimeKeys (Prims.real.mac 2) ik ck id
    "ok " ++ " ".intercalate [xhex k.kEncr, xhex k.kAut, xhex k.kRe, xhex k.msk, xhex k.emsk]
  | _, _, _ => "bad-args"

end DriverKeys

open DriverKeys in
/-- dispatch; `none` when the operation is not one of the key-derivation operations -/
def handleKeys (ts : Array String) : Option String :=
  match ts[0]? with
  | some "ikekeys" => some (ikeKeysOp ts)
  | some "ikekeys2" => some (ikeKeys2Op ts)
  | some "spec-ikekeys" => some (specIkeKeysOp ts)
  | some "childkeys" => some (childKeysOp ts)
  | some "childkeys2" => some (childKeys2Op ts)
  | some "spec-childkeys" => some (specChildKeysOp ts)
  | some "prfplus" => some (prfPlusOp ts)
  | some "spec-prfplus" => some (specPrfPlusOp ts)
  | some "dhpub" => some (dhPubOp ts)
  | some "dhshared" => some (dhSharedOp ts)
  | some "spec-dhpub" => some (specDhPubOp ts)
  | some "spec-dhshared" => some (specDhSharedOp ts)
  | some "akaprf" => some (akaPrfOp ts)
  | some "spec-akaprf" => some (specAkaPrfOp ts)
  | _ => none
