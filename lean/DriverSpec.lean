import IkeModel
import IkeModel.Spec.Wire
import IkeModel.Spec.Parse

/-! Driver operations for C05 (glue only: parsing, derivation of the liberties, printing).

    spec-enc <seed> <msg input form>   -> ok x<octets> | err | panic       (Spec.encode)
    spec-parse x<octets>               -> some <msg output form> | none     (Spec.parse, the strict RFC 7296 parser)

The liberties (`Spec.Lib`, one per payload) are derived from `<seed>` by the
linear congruential generator below.  Seed 0 = no liberties (canonical, strict
sender).  The Go harness (oracle_spec.go, `libRng`) implements the same
derivation for its own reference encoder; the traversal order is part of the
line protocol:

    x_0 = seed mod 2^31;   draw(): x := (x * 1103515245 + 12345) mod 2^31, result x div 2^16   (15 bits)
    octet() = draw() mod 256;   bit() = (draw() mod 2 = 1)

    for every payload, in message order:
      flags := octet()                                      -- generic payload header: C bit + 7 reserved bits
      KE:                       r0 := octet(); r1 := octet()
      IDi IDr AUTH TSi TSr:     r0 := octet(); r1 := octet(); r2 := octet()
      CP:                       r0, r1, r2 as above; then for every attribute, in order: R := bit()
      SA: for every proposal, in order:
            reserved := octet()
            while one of the five lists (ENCR, PRF, INTEG, DH, ESN — in this order) is not empty:
              k := number of non-empty lists;  j := draw() mod k
              t := head of the j-th non-empty list (counting from 0), removed from that list
              res1 := octet(); res2 := octet();  emit t with (res1, res2)
      every other kind:         no further draw
-/

open Ike

namespace DriverSpec

abbrev R := StateM Nat

def draw : R Nat := do
  let x ← get
  let x' := (x * 1103515245 + 12345) % 2147483648
  set x'
  pure (x' / 65536)

def octet : R UInt8 := do pure (UInt8.ofNat ((← draw) % 256))
def bit : R Bool := do pure ((← draw) % 2 == 1)

def bits : Nat → R (List Bool)
  | 0 => pure []
  | n + 1 => do
    let b ← bit
    let tl ← bits n
    pure (b :: tl)

/-- remove the head of the `j`-th non-empty list -/
def takeNth : Nat → List (List Transform) → Option (Transform × List (List Transform))
  | _, [] => none
  | j, [] :: rest => (takeNth j rest).map (fun (t, r) => (t, [] :: r))
  | 0, (t :: l) :: rest => some (t, l :: rest)
  | j + 1, l@(_ :: _) :: rest => (takeNth j rest).map (fun (t, r) => (t, l :: r))

def interleave : Nat → List (List Transform) → R (List (Spec.TLib × Transform))
  | 0, _ => pure []
  | fuel + 1, ls => do
    let k := (ls.filter (fun l => !l.isEmpty)).length
    if k == 0 then pure [] else
      let j := (← draw) % k
      match takeNth j ls with
      | none => pure []
      | some (t, ls') =>
        let r1 ← octet
        let r2 ← octet
        let tl ← interleave fuel ls'
        pure ((⟨r1, r2⟩, t) :: tl)

def propLib (p : Proposal) : R Spec.PLib := do
  let r ← octet
  let em ← interleave (p.encr.length + p.prf.length + p.integ.length + p.dh.length + p.esn.length)
    [p.encr, p.prf, p.integ, p.dh, p.esn]
  pure ⟨r, em⟩

def propLibs : List Proposal → R (List Spec.PLib)
  | [] => pure []
  | p :: rest => do
    let l ← propLib p
    let tl ← propLibs rest
    pure (l :: tl)

def payloadLib (p : Payload) : R Spec.Lib := do
  let fl ← octet
  match p with
  | .ke _ _ =>
    let r0 ← octet
    let r1 ← octet
    pure { flags := fl, r0 := r0, r1 := r1 }
  | .idi _ _ | .idr _ _ | .auth _ _ | .tsi _ | .tsr _ =>
    let r0 ← octet
    let r1 ← octet
    let r2 ← octet
    pure { flags := fl, r0 := r0, r1 := r1, r2 := r2 }
  | .cp _ attrs =>
    let r0 ← octet
    let r1 ← octet
    let r2 ← octet
    let rb ← bits attrs.length
    pure { flags := fl, r0 := r0, r1 := r1, r2 := r2, rbits := rb }
  | .sa ps =>
    let pl ← propLibs ps
    pure { flags := fl, props := pl }
  | _ => pure { flags := fl }

def payloadLibs : List Payload → R (List Spec.Lib)
  | [] => pure []
  | p :: rest => do
    let l ← payloadLib p
    let tl ← payloadLibs rest
    pure (l :: tl)

/-- the liberties for message `m` derived from `seed` -/
def libsOf (seed : Nat) (m : Msg) : List Spec.Lib :=
  if seed == 0 then Spec.canonical else ((payloadLibs m.payloads).run (seed % 2147483648)).1

def resStr {α : Type} (f : α → String) : Res α → String
  | .ok a => "ok " ++ f a
  | .err => "err"
  | .fault => "panic"

def specEncOp (ts : Array String) : String :=
  match (ts[1]?).bind String.toNat?, Sx.parseTokens ts 2 with
  | some seed, some (s, _) =>
    match rdMsg s with
    | some m => resStr xhex (Spec.encode (libsOf seed m) m)
    | none => "bad-msg"
  | _, _ => "bad-args"

def specParseOp (ts : Array String) : String :=
  match (ts[1]?).bind parseX with
  | some b =>
    match Spec.parse b with
    | some m => "some " ++ (sxMsg m).toStr
    | none => "none"
  | none => "bad-hex"

end DriverSpec

def handleSpec (ts : Array String) : Option String :=
  if h : 0 < ts.size then
    if ts[0] == "spec-enc" then some (DriverSpec.specEncOp ts)
    else if ts[0] == "spec-parse" then some (DriverSpec.specParseOp ts) else none
  else none
