import IkeProofs.Theorems.C20Appends

namespace Ike

/-- **C19 "each builder … leaves earlier payloads untouched", memory level**: no builder appends onto
a slice argument or onto a container other than the one it is asked to grow (regenerated fact, see
`C20Appends.lean`), so nothing is written into the spare capacity of memory an earlier payload may
share. -/
theorem C19_builders_do_not_append_onto_arguments :
    ∀ x ∈ Footprint.foreignAppends, x.1 ∉ ["message.IKEPayloadContainer.BuildNotify5G_QOS_INFO",
      "message.IKEPayloadContainer.BuildNotification", "message.ProposalContainer.BuildProposal",
      "message.TransformContainer.BuildTransform", "message.IKEPayloadContainer.BuildEAP5GNAS",
      "message.IndividualTrafficSelectorContainer.BuildIndividualTrafficSelector",
      "message.ConfigurationAttributeContainer.BuildConfigurationAttribute"] ∧ x ∈ c20DocumentedAppends := by decide

end Ike
