import IkeProofs.Lemmas.RoundTrip
import IkeProofs.Lemmas.Eap

/-!
# C03 — plain message codec round trip (value → wire → value)

`decodeMsg (encodeMsg m) = m` for every message of the encodable domain: header
fields, and every field of every payload, in order, including the nested
structures (proposals / transforms / attributes, traffic selectors,
configuration attributes, EAP packets and EAP-AKA' attributes).  The domain
predicate `Payload.Dom` is written out from the quantifier text; what the
encoder itself enforces (SPI ≤ 255 octets, 1..255 selectors with 4/16-octet
addresses, ≥ 1 transform per proposal, everything fits the 16-bit length
fields) follows from the hypothesis `encodeMsg m = ok _` and is not repeated.
-/

set_option linter.unusedSimpArgs false
set_option linter.unusedVariables false

namespace Ike


/-- payloads of the encodable domain (quantifier text of C01/C03/C05); what the
encoder itself enforces (SPI ≤ 255 octets, 1..255 selectors with 4/16-octet
addresses, ≥ 1 transform per proposal, 16-bit lengths) is not repeated here: it
follows from `encode = ok`. -/
def Payload.Dom : Payload → Prop
  | .sa ps => ∀ p ∈ ps, p.Dom
  | .ke _ d => 1 ≤ d.length
  | .idi _ d => 1 ≤ d.length
  | .idr _ d => 1 ≤ d.length
  | .cert _ d => 1 ≤ d.length
  | .certreq _ d => 1 ≤ d.length
  | .auth _ d => 1 ≤ d.length
  | .nonce _ => True
  | .notify _ _ _ _ => True
  | .delete _ s _ spis => (s = 0 ∧ spis = []) ∨ s = 4
  | .vendor _ => True
  | .tsi _ => True
  | .tsr _ => True
  | .sk _ _ => False
  | .cp _ attrs => attrs ≠ [] ∧ ∀ a ∈ attrs, a.atype.toNat < 32768
  | .eap e => DomEap e

/-! dispatch of `unmarshalPayload` on each of the 16 type codes (by evaluation) -/
theorem up_sa (nx : UInt8) (b : Bytes) : unmarshalPayload Facts.typeSA nx b = unmarshalSA b := by unfold unmarshalPayload; rfl
theorem up_ke (nx : UInt8) (b : Bytes) : unmarshalPayload Facts.typeKE nx b = unmarshalKE b := by unfold unmarshalPayload; rfl
theorem up_idi (nx : UInt8) (b : Bytes) : unmarshalPayload Facts.typeIDi nx b = unmarshalT4 .idi b := by unfold unmarshalPayload; rfl
theorem up_idr (nx : UInt8) (b : Bytes) : unmarshalPayload Facts.typeIDr nx b = unmarshalT4 .idr b := by unfold unmarshalPayload; rfl
theorem up_cert (nx : UInt8) (b : Bytes) : unmarshalPayload Facts.typeCERT nx b = unmarshalT1 .cert b := by unfold unmarshalPayload; rfl
theorem up_certreq (nx : UInt8) (b : Bytes) : unmarshalPayload Facts.typeCERTreq nx b = unmarshalT1 .certreq b := by unfold unmarshalPayload; rfl
theorem up_auth (nx : UInt8) (b : Bytes) : unmarshalPayload Facts.typeAUTH nx b = unmarshalT4 .auth b := by unfold unmarshalPayload; rfl
theorem up_nonce (nx : UInt8) (b : Bytes) : unmarshalPayload Facts.typeNiNr nx b = .ok (.nonce b) := by unfold unmarshalPayload; rfl
theorem up_notify (nx : UInt8) (b : Bytes) : unmarshalPayload Facts.typeN nx b = unmarshalNotify b := by unfold unmarshalPayload; rfl
theorem up_delete (nx : UInt8) (b : Bytes) : unmarshalPayload Facts.typeD nx b = unmarshalDelete b := by unfold unmarshalPayload; rfl
theorem up_vendor (nx : UInt8) (b : Bytes) : unmarshalPayload Facts.typeV nx b = .ok (.vendor b) := by unfold unmarshalPayload; rfl
theorem up_tsi (nx : UInt8) (b : Bytes) : unmarshalPayload Facts.typeTSi nx b = unmarshalTS .tsi b := by unfold unmarshalPayload; rfl
theorem up_tsr (nx : UInt8) (b : Bytes) : unmarshalPayload Facts.typeTSr nx b = unmarshalTS .tsr b := by unfold unmarshalPayload; rfl
theorem up_sk (nx : UInt8) (b : Bytes) : unmarshalPayload Facts.typeSK nx b = .ok (.sk nx b) := by unfold unmarshalPayload; rfl
theorem up_cp (nx : UInt8) (b : Bytes) : unmarshalPayload Facts.typeCP nx b = unmarshalCP b := by unfold unmarshalPayload; rfl
theorem up_eap (nx : UInt8) (b : Bytes) :
    unmarshalPayload Facts.typeEAP nx b = (do let e ← unmarshalEap b; .ok (.eap e)) := by unfold unmarshalPayload; rfl

theorem payloadRT_of_dom (p : Payload) (hd : p.Dom) : PayloadRT p ∧ p.isSK = false := by
  cases p with
  | sa ps =>
    refine ⟨fun bs nx hm => ?_, rfl⟩
    simp only [marshalPayload] at hm
    simp only [Payload.typeCode, up_sa, up_ke, up_idi, up_idr, up_cert, up_certreq, up_auth, up_nonce, up_notify, up_delete, up_vendor, up_tsi, up_tsr, up_sk, up_cp, up_eap]
    exact rt_SA ps bs hd hm
  | ke g d =>
    refine ⟨fun bs nx hm => ?_, rfl⟩
    simp only [marshalPayload] at hm
    simp only [Payload.typeCode, up_sa, up_ke, up_idi, up_idr, up_cert, up_certreq, up_auth, up_nonce, up_notify, up_delete, up_vendor, up_tsi, up_tsr, up_sk, up_cp, up_eap]
    exact rt_KE g d bs hd hm
  | idi t d =>
    refine ⟨fun bs nx hm => ?_, rfl⟩
    simp only [marshalPayload] at hm
    simp only [Payload.typeCode, up_sa, up_ke, up_idi, up_idr, up_cert, up_certreq, up_auth, up_nonce, up_notify, up_delete, up_vendor, up_tsi, up_tsr, up_sk, up_cp, up_eap]
    exact rt_T4 .idi t d bs hd hm
  | idr t d =>
    refine ⟨fun bs nx hm => ?_, rfl⟩
    simp only [marshalPayload] at hm
    simp only [Payload.typeCode, up_sa, up_ke, up_idi, up_idr, up_cert, up_certreq, up_auth, up_nonce, up_notify, up_delete, up_vendor, up_tsi, up_tsr, up_sk, up_cp, up_eap]
    exact rt_T4 .idr t d bs hd hm
  | cert t d =>
    refine ⟨fun bs nx hm => ?_, rfl⟩
    simp only [marshalPayload] at hm
    simp only [Payload.typeCode, up_sa, up_ke, up_idi, up_idr, up_cert, up_certreq, up_auth, up_nonce, up_notify, up_delete, up_vendor, up_tsi, up_tsr, up_sk, up_cp, up_eap]
    exact rt_T1 .cert t d bs hd hm
  | certreq t d =>
    refine ⟨fun bs nx hm => ?_, rfl⟩
    simp only [marshalPayload] at hm
    simp only [Payload.typeCode, up_sa, up_ke, up_idi, up_idr, up_cert, up_certreq, up_auth, up_nonce, up_notify, up_delete, up_vendor, up_tsi, up_tsr, up_sk, up_cp, up_eap]
    exact rt_T1 .certreq t d bs hd hm
  | auth t d =>
    refine ⟨fun bs nx hm => ?_, rfl⟩
    simp only [marshalPayload] at hm
    simp only [Payload.typeCode, up_sa, up_ke, up_idi, up_idr, up_cert, up_certreq, up_auth, up_nonce, up_notify, up_delete, up_vendor, up_tsi, up_tsr, up_sk, up_cp, up_eap]
    exact rt_T4 .auth t d bs hd hm
  | nonce d =>
    refine ⟨fun bs nx hm => ?_, rfl⟩
    simp only [marshalPayload, marshalRaw, Res.ok.injEq] at hm
    subst hm
    simp only [Payload.typeCode, up_sa, up_ke, up_idi, up_idr, up_cert, up_certreq, up_auth, up_nonce, up_notify, up_delete, up_vendor, up_tsi, up_tsr, up_sk, up_cp, up_eap]
  | notify pr nt spi d =>
    refine ⟨fun bs nx hm => ?_, rfl⟩
    simp only [marshalPayload] at hm
    simp only [Payload.typeCode, up_sa, up_ke, up_idi, up_idr, up_cert, up_certreq, up_auth, up_nonce, up_notify, up_delete, up_vendor, up_tsi, up_tsr, up_sk, up_cp, up_eap]
    exact rt_notify pr nt spi d bs hm
  | delete pr s n spis =>
    refine ⟨fun bs nx hm => ?_, rfl⟩
    simp only [marshalPayload] at hm
    simp only [Payload.typeCode, up_sa, up_ke, up_idi, up_idr, up_cert, up_certreq, up_auth, up_nonce, up_notify, up_delete, up_vendor, up_tsi, up_tsr, up_sk, up_cp, up_eap]
    exact rt_delete pr s n spis bs hd hm
  | vendor d =>
    refine ⟨fun bs nx hm => ?_, rfl⟩
    simp only [marshalPayload, marshalRaw, Res.ok.injEq] at hm
    subst hm
    simp only [Payload.typeCode, up_sa, up_ke, up_idi, up_idr, up_cert, up_certreq, up_auth, up_nonce, up_notify, up_delete, up_vendor, up_tsi, up_tsr, up_sk, up_cp, up_eap]
  | tsi l =>
    refine ⟨fun bs nx hm => ?_, rfl⟩
    simp only [marshalPayload] at hm
    simp only [Payload.typeCode, up_sa, up_ke, up_idi, up_idr, up_cert, up_certreq, up_auth, up_nonce, up_notify, up_delete, up_vendor, up_tsi, up_tsr, up_sk, up_cp, up_eap]
    exact rt_TS .tsi l bs hm
  | tsr l =>
    refine ⟨fun bs nx hm => ?_, rfl⟩
    simp only [marshalPayload] at hm
    simp only [Payload.typeCode, up_sa, up_ke, up_idi, up_idr, up_cert, up_certreq, up_auth, up_nonce, up_notify, up_delete, up_vendor, up_tsi, up_tsr, up_sk, up_cp, up_eap]
    exact rt_TS .tsr l bs hm
  | sk n d => exact absurd hd (by simp [Payload.Dom])
  | cp ct attrs =>
    refine ⟨fun bs nx hm => ?_, rfl⟩
    simp only [marshalPayload] at hm
    simp only [Payload.typeCode, up_sa, up_ke, up_idi, up_idr, up_cert, up_certreq, up_auth, up_nonce, up_notify, up_delete, up_vendor, up_tsi, up_tsr, up_sk, up_cp, up_eap]
    exact rt_CP ct attrs bs hd.1 hd.2 hm
  | eap e =>
    refine ⟨fun bs nx hm => ?_, rfl⟩
    simp only [marshalPayload] at hm
    simp only [Payload.typeCode, up_sa, up_ke, up_idi, up_idr, up_cert, up_certreq, up_auth, up_nonce, up_notify, up_delete, up_vendor, up_tsi, up_tsr, up_sk, up_cp, up_eap]
    rw [rt_eap_payload e bs hd hm]
    simp


/-- messages of the encodable domain -/
def Msg.Dom (m : Msg) : Prop :=
  m.hdr.major.toNat < 16 ∧ m.hdr.minor.toNat < 16 ∧ ∀ p ∈ m.payloads, p.Dom

/-- **C03**: decoding the encoding of a message of the encodable domain returns the
same payload list (every field of every payload, in order) and the same header fields. -/
theorem C03_roundtrip (m : Msg) (bs : Bytes) (h' : Header) (hd : m.Dom)
    (h : encodeMsg m = .ok (bs, h')) :
    ∃ m', decodeMsg bs = .ok m' ∧ m'.payloads = m.payloads ∧
      m'.hdr.ispi = m.hdr.ispi ∧ m'.hdr.rspi = m.hdr.rspi ∧ m'.hdr.major = m.hdr.major ∧
      m'.hdr.minor = m.hdr.minor ∧ m'.hdr.exch = m.hdr.exch ∧ m'.hdr.flags = m.hdr.flags ∧
      m'.hdr.mid = m.hdr.mid :=
  rt_msg m bs h' hd.1 hd.2.1 (fun p hp => payloadRT_of_dom p (hd.2.2 p hp)) h

/-- the payload chain alone (what `IKEPayloadContainer.Encode/Decode` do) -/
theorem C03_chain_roundtrip (ps : List Payload) (bs : Bytes) (hd : ∀ p ∈ ps, p.Dom)
    (h : encodeChain ps = .ok bs) : decodeChain (firstType ps) bs = .ok ps :=
  rt_chain ps bs (fun p hp => payloadRT_of_dom p (hd p hp)) h

/-- each payload kind on its own: `Unmarshal (Marshal p) = p` -/
theorem C03_payload_roundtrip (p : Payload) (hd : p.Dom) (bs : Bytes) (nx : UInt8)
    (h : marshalPayload p = .ok bs) : unmarshalPayload p.typeCode nx bs = .ok p :=
  (payloadRT_of_dom p hd).1 bs nx h

/-- the header: all nine wire fields, for versions < 16 -/
theorem C03_header_roundtrip (h : Header) (bs : Bytes) (hmaj : h.major.toNat < 16) (hmin : h.minor.toNat < 16)
    (hm : marshalHeader h = .ok bs) : parseHeader bs = .ok h := rt_header h bs hmaj hmin hm

/-! non-vacuity: a concrete message of the domain with nested structures encodes -/
def c03Sample : Msg :=
  ⟨{ ispi := 1, rspi := 2, major := 2, minor := 0, exch := 34, flags := 8, mid := 7 },
   [.sa [⟨1, 1, [1,2,3,4], [⟨1, 12, true, 1, 14, 256, []⟩], [⟨2, 5, false, 0, 0, 0, []⟩], [], [⟨4, 14, false, 0, 0, 0, []⟩], []⟩],
    .ke 14 [9, 9], .nonce [1, 2, 3], .notify 0 16388 [] [5],
    .delete 3 4 1 [0xdeadbeef], .tsi [⟨7, 0, 0, 65535, [10,0,0,1], [10,0,0,9]⟩],
    .cp 1 [⟨1, []⟩]]⟩

example : (encodeMsg c03Sample).isOk = true := by decide +kernel
example : c03Sample.hdr.major.toNat < 16 ∧ c03Sample.hdr.minor.toNat < 16 := by decide

/-- the sample lies in the encodable domain: the hypotheses of `C03_roundtrip` are satisfiable -/
example : c03Sample.Dom := by
  refine ⟨by decide, by decide, ?_⟩
  intro p hp
  simp only [c03Sample, List.mem_cons, List.mem_nil_iff, or_false] at hp
  rcases hp with rfl | rfl | rfl | rfl | rfl | rfl | rfl
  · simp [Payload.Dom, Proposal.Dom, Transform.Dom]
    decide
  · simp [Payload.Dom]
  · simp [Payload.Dom]
  · simp [Payload.Dom]
  · simp [Payload.Dom]
  · simp [Payload.Dom]
  · simp [Payload.Dom]

end Ike
