import IkeProofs.RefineSa.Transfer
import IkeProofs.Theorems.C17

/-! # C17 over the code as translated from the current source (`ike.go`, `security/security.go`)

What a history can change in an SA object are the write buffers of its hash objects (`Integ_i`, `Integ_r`, `Prf_d`);
these theorems say — over the functions `tools/go2lean` writes from the source — that (1) no successful call
changes anything else (so the object stays in the class `≈ₛ` of the object it started as, and the theorems apply
again to every continuation), and (2) the OUTPUT of a call is the same for any two objects of one class, i.e. it
does not depend on what earlier calls left in those buffers.  Both for every message, byte string, nonce, role and
state of the random source.  (About the object state after a call that returned an ERROR the translation says
nothing — `Res.err` carries no state; that part of C17 rests on the hand-written model, `C17_step` / `C17_history`.) -/

namespace Ike
open Ike.RefineSa Ike.GenAbsSa

theorem map_map' {α β γ : Type} (x : Res α) (f : α → β) (g : β → γ) : (x.map f).map g = x.map (fun a => g (f a)) := by
  cases x <;> rfl

/-- (2) for `EncodeEncrypt`: two objects of one class (same descriptors and keys, ANY buffers) produce the same
datagram, the same message and leave the random source in the same state -/
theorem C17_gen_protect_output (P : Prims) (hP : P.Lawful) (k1 k2 : Gen.security.IKESAKey)
    (h1 : SaWF k1) (h2 : SaWF k2) (i1 : IntegRegistered k1.IntegInfo) (i2 : IntegRegistered k2.IntegInfo)
    (hsim : absSa k1 ≈ₛ absSa k2) (role : Bool) (r : Rand) (m : Msg) :
    (Gen.ike.EncodeEncrypt P r (GenAbs.repMsg m) (some k1) role).map (fun x => (x.1, GenAbs.absMsg x.2.1, x.2.2.2)) =
    (Gen.ike.EncodeEncrypt P r (GenAbs.repMsg m) (some k2) role).map (fun x => (x.1, GenAbs.absMsg x.2.1, x.2.2.2)) := by
  have e1 := congrArg (fun y => y.map (fun (x : Rand × Option Msg × SAKey × Bytes) => (x.1, x.2.1, x.2.2.2)))
    (Enc.EncodeEncrypt_refines_registered P hP k1 h1 i1 role r m)
  have e2 := congrArg (fun y => y.map (fun (x : Rand × Option Msg × SAKey × Bytes) => (x.1, x.2.1, x.2.2.2)))
    (Enc.EncodeEncrypt_refines_registered P hP k2 h2 i2 role r m)
  simp only [map_map'] at e1 e2
  rw [e1, e2]
  have hs := (protect_sim P hsim role r m).1
  generalize protect P (absSa k1) role r m = p1 at hs
  generalize protect P (absSa k2) role r m = p2 at hs
  obtain ⟨s1, r1, q1⟩ := p1
  obtain ⟨s2, r2, q2⟩ := p2
  simp only [Prod.mk.injEq] at hs
  obtain ⟨rfl, rfl⟩ := hs
  cases q1 with
  | ok x => obtain ⟨o, m'⟩ := x; rfl
  | err => rfl
  | fault => rfl

/-- (2) for `DecodeDecrypt`: two objects of one class accept the same byte strings and return the same message
(or both refuse, or both fault) -/
theorem C17_gen_unprotect_output (P : Prims) (hP : P.Lawful) (k1 k2 : Gen.security.IKESAKey)
    (h1 : SaWF k1) (h2 : SaWF k2) (i1 : IntegRegistered k1.IntegInfo) (i2 : IntegRegistered k2.IntegInfo)
    (hsim : absSa k1 ≈ₛ absSa k2) (role : Bool) (h : Option Header) (bs : Bytes) :
    (Gen.ike.DecodeDecrypt P bs (h.map GenAbs.repHeader) (some k1) role).map (fun x => GenAbs.absMsg x.2) =
    (Gen.ike.DecodeDecrypt P bs (h.map GenAbs.repHeader) (some k2) role).map (fun x => GenAbs.absMsg x.2) := by
  have e1 := congrArg (fun y => y.map (fun (x : SAKey × Option Msg) => x.2))
    (Dec.DecodeDecrypt_refines P hP k1 h1 (Dec.IntegOk_of_registered i1) role h bs)
  have e2 := congrArg (fun y => y.map (fun (x : SAKey × Option Msg) => x.2))
    (Dec.DecodeDecrypt_refines P hP k2 h2 (Dec.IntegOk_of_registered i2) role h bs)
  simp only [map_map'] at e1 e2
  rw [e1, e2]
  obtain ⟨a', b', n, res, ha, hb, _⟩ := unprotect_sim P hsim role h bs
  rw [ha, hb]
  cases res <;> rfl

/-- the model's Child SA derivation: the keys depend on `prf_d`'s key and hash only -/
theorem genKeyForChildSA_out_sim (P : Prims) (a b : SAKey) (h : a.prf_d.Sim b.prf_d) (c : ChildSAKey) (nonce : Bytes) :
    (genKeyForChildSA P a c nonce).2 = (genKeyForChildSA P b c nonce).2 := by
  unfold genKeyForChildSA
  simp only
  have e := (prfPlus_sim P a.prf_d b.prf_d h nonce
    ((c.encrKeyLen + (match c.integKeyLen with | some n => n | none => 0)) * 2)).1
  cases h1 : prfPlus P a.prf_d nonce ((c.encrKeyLen + (match c.integKeyLen with | some n => n | none => 0)) * 2) with
  | mk g1 s1 =>
    cases h2 : prfPlus P b.prf_d nonce ((c.encrKeyLen + (match c.integKeyLen with | some n => n | none => 0)) * 2) with
    | mk g2 s2 =>
      rw [h1, h2] at e
      simp only at e
      subst e
      cases s1 with
      | ok ks => by_cases hE : ks.isEmpty = true <;> simp [hE]
      | err => rfl
      | fault => rfl

/-- (2) for `GenerateKeyForChildSA`: the four keys depend on `Prf_d`'s key and hash only, not on what earlier
derivations left in its buffer -/
theorem C17_gen_child_output (P : Prims) (hP : P.Lawful) (k1 k2 : Gen.security.IKESAKey) (c : Gen.security.ChildSAKey)
    (p1 : k1.PrfInfo ≠ .nil_) (p2 : k2.PrfInfo ≠ .nil_)
    (d1 : Go.Mac.isNil k1.Prf_d = false) (d2 : Go.Mac.isNil k2.Prf_d = false)
    (he : c.EncrKInfo = .EncrAesCbc ⟨16⟩ ∨ c.EncrKInfo = .EncrAesCbc ⟨24⟩ ∨ c.EncrKInfo = .EncrAesCbc ⟨32⟩)
    (hi : c.IntegKInfo = .nil_ ∨ c.IntegKInfo = .AuthHmacMd5_95 ⟨16, 12⟩ ∨ c.IntegKInfo = .AuthHmacSha1_96 ⟨20, 12⟩ ∨
      c.IntegKInfo = .AuthHmacSha2_256_128 ⟨32, 16⟩)
    (hsim : (absSa k1).prf_d.Sim (absSa k2).prf_d) (nonce : Bytes) :
    (Gen.security.ChildSAKey.GenerateKeyForChildSA P (some c) (some k1) nonce).map (fun x => absChild x.1) =
    (Gen.security.ChildSAKey.GenerateKeyForChildSA P (some c) (some k2) nonce).map (fun x => absChild x.1) := by
  have e1 := congrArg (fun y => y.map (fun (x : SAKey × ChildSAKey) => x.2))
    (GenerateKeyForChildSA_refines P hP k1 c p1 d1 he hi nonce)
  have e2 := congrArg (fun y => y.map (fun (x : SAKey × ChildSAKey) => x.2))
    (GenerateKeyForChildSA_refines P hP k2 c p2 d2 he hi nonce)
  simp only [map_map'] at e1 e2
  rw [e1, e2]
  have hs := genKeyForChildSA_out_sim P (absSa k1) (absSa k2) hsim (absChild c) nonce
  generalize genKeyForChildSA P (absSa k1) (absChild c) nonce = q1 at hs
  generalize genKeyForChildSA P (absSa k2) (absChild c) nonce = q2 at hs
  obtain ⟨g1, s1⟩ := q1
  obtain ⟨g2, s2⟩ := q2
  simp only at hs
  subst hs
  cases s1 <;> rfl

/-- (1) `EncodeEncrypt`: the object that comes back is in the class of the object passed in -/
theorem C17_gen_protect_invariant (P : Prims) (hP : P.Lawful) (k : Gen.security.IKESAKey) (hk : SaWF k)
    (hi : IntegRegistered k.IntegInfo) (role : Bool) (r : Rand) (m : Msg)
    (r' : Rand) (gm' : Gen.message.IKEMessage) (k' : Gen.security.IKESAKey) (out : Bytes)
    (h : Gen.ike.EncodeEncrypt P r (GenAbs.repMsg m) (some k) role = .ok (r', gm', k', out)) :
    SaWF k' ∧ IntegRegistered k'.IntegInfo ∧ absSa k' ≈ₛ absSa k := by
  obtain ⟨m', _, hp⟩ := gen_protect_ok P hP k hk hi role r m r' gm' k' out h
  have hf := Enc.EncodeEncrypt_frame P k hk role r (GenAbs.repMsg m) r' gm' k' out h
  refine ⟨hf.1, by unfold IntegRegistered; rw [hf.2.2.2.1]; exact hi, ?_⟩
  have := protect_sim_self P (absSa k) role r m
  rw [hp] at this
  exact this

/-- (1) `GenerateKeyForChildSA`: nothing of the IKE SA object changes but `Prf_d`'s buffer -/
theorem C17_gen_child_invariant (P : Prims) (k : Gen.security.IKESAKey) (c : Gen.security.ChildSAKey) (nonce : Bytes)
    (c' : Gen.security.ChildSAKey) (k' : Gen.security.IKESAKey) (hwf : SaWF k)
    (h : Gen.security.ChildSAKey.GenerateKeyForChildSA P (some c) (some k) nonce = .ok (c', k')) :
    k' = { k with Prf_d := k'.Prf_d } ∧ k'.Prf_d.h = k.Prf_d.h ∧ k'.Prf_d.key = k.Prf_d.key ∧ SaWF k' :=
  ⟨(GenerateKeyForChildSA_frame P k c nonce c' k' h).1, (GenerateKeyForChildSA_frame P k c nonce c' k' h).2.1,
   (GenerateKeyForChildSA_frame P k c nonce c' k' h).2.2, GenerateKeyForChildSA_wf P k c nonce c' k' h hwf⟩

end Ike
