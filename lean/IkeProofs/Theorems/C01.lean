import IkeProofs.Theorems.C06
import IkeProofs.Lemmas.PrimsReal

/-!
# C01 — protected round trip between opposite roles

`protect P sa role r m` = `EncodeEncrypt(m, sa, role)` with random source `r`;
`unprotect P (some sb) (!role) hdr bs` = `DecodeDecrypt(bs, hdr, sb, !role)`.
The sender state `sa` and the receiver state `sb` are two objects; what they must agree on is
stated explicitly (`hcl`, `halg`, `hka`, `hke`: checksum length and the integrity hash / key and
cipher key of the SENDER's direction `role`) — in particular every `sb` with `sa ≈ₛ sb` (same
keys and descriptors, ARBITRARY hash-object buffers: any history) qualifies, see
`C01_roundtrip_sim`.  The codec hypothesis on the payloads (`PayloadRT p ∧ p.isSK = false`) is
the one `rt_chain` needs and is discharged per payload kind in Lemmas/RoundTrip.lean / C03.
Quantification over IV and padding octets: `r` is an arbitrary random source.
-/

namespace Ike
open Spec

/-- a payload that is not an Encrypted payload does not have the SK type code -/
theorem typeCode_ne_SK (p : Payload) (h : p.isSK = false) : (p.typeCode == Facts.typeSK) = false := by
  cases p <;> first | rfl | (simp [Payload.isSK] at h)

/-- message round trip (as `rt_msg`, exposing the decoded header): the decoder returns the header
`Encode` left in the message and the original payload list -/
theorem encodeMsg_decodeMsg (m : Msg) (bs : Bytes) (h' : Header)
    (hmaj : m.hdr.major.toNat < 16) (hmin : m.hdr.minor.toNat < 16)
    (hrt : ∀ p ∈ m.payloads, PayloadRT p ∧ p.isSK = false)
    (h : encodeMsg m = .ok (bs, h')) :
    decodeMsg bs = .ok ⟨h', m.payloads⟩ ∧ h'.next = firstType m.payloads ∧
      h'.ispi = m.hdr.ispi ∧ h'.rspi = m.hdr.rspi ∧ h'.major = m.hdr.major ∧
      h'.minor = m.hdr.minor ∧ h'.exch = m.hdr.exch ∧ h'.flags = m.hdr.flags ∧ h'.mid = m.hdr.mid := by
  unfold encodeMsg at h
  cases hc : encodeChain m.payloads with
  | err => simp [hc] at h
  | fault => simp [hc] at h
  | ok pb =>
    simp only [hc, Res.bind_ok] at h
    cases hm : marshalHeader { m.hdr with next := firstType m.payloads, payloadBytes := pb } with
    | err => simp [hm] at h
    | fault => simp [hm] at h
    | ok out =>
      simp [hm] at h
      obtain ⟨rfl, rfl⟩ := h
      have hp := rt_header _ _ (by simpa using hmaj) (by simpa using hmin) hm
      refine ⟨?_, rfl, rfl, rfl, rfl, rfl, rfl, rfl, rfl⟩
      unfold decodeMsg
      rw [hp]
      simp only [Res.bind_ok]
      rw [rt_chain m.payloads pb hrt hc]
      simp

/-- Round trip.  For every lawful `P`, well-formed sender `sa` and receiver `sb` agreeing on the
sender direction's keys, every `role`, every random source `r`, every message `m` whose payloads
round-trip through the codec and whose version nibbles are < 16: if `protect` succeeds with
datagram `bs`, then `bs` has a parsable header, and `unprotect` by the opposite role — with a nil
header AND with the header parsed from `bs` — accepts (one cipher call) and returns a message with
exactly the original payload list and the original SPIs, version, exchange type, flags and
message ID. -/
theorem C01_roundtrip (P : Prims) (hP : P.Lawful) (sa sb : SAKey) (hwa : sa.WF P) (hwb : sb.WF P)
    (role : Bool)
    (hcl : sb.integInfo.outLen = sa.integInfo.outLen)
    (halg : (sb.integObj role).alg = (sa.integObj role).alg)
    (hka : (sb.integObj role).key = (sa.integObj role).key)
    (hke : (sb.encrObj role).key = (sa.encrObj role).key)
    (r : Rand) (m : Msg)
    (hmaj : m.hdr.major.toNat < 16) (hmin : m.hdr.minor.toNat < 16)
    (hrt : ∀ p ∈ m.payloads, PayloadRT p ∧ p.isSK = false)
    (sa' : SAKey) (r' : Rand) (bs : Bytes) (mo : Msg)
    (h : protect P sa role r m = (sa', r', .ok (bs, mo))) :
    ∃ m' sb' hd, parseHeader bs = .ok hd ∧
      unprotect P (some sb) (!role) none bs = (some sb', 1, .ok m') ∧
      unprotect P (some sb) (!role) (some hd) bs = (some sb', 1, .ok m') ∧
      m'.payloads = m.payloads ∧
      m'.hdr.ispi = m.hdr.ispi ∧ m'.hdr.rspi = m.hdr.rspi ∧ m'.hdr.major = m.hdr.major ∧
      m'.hdr.minor = m.hdr.minor ∧ m'.hdr.exch = m.hdr.exch ∧ m'.hdr.flags = m.hdr.flags ∧
      m'.hdr.mid = m.hdr.mid := by
  obtain ⟨inner, padDraw, iv, r1, henc, hd1, hd2, hiv, hpadl, hfit, hbs, _, _⟩ :=
    C06_protect_is_rfc P hP sa hwa role r m sa' r' bs mo h
  have hdec := rt_chain m.payloads inner hrt henc
  have hrr : (!(!role)) = role := Bool.not_not role
  obtain ⟨hph, hun, e1, e2, e3, e4, e5, e6, e7⟩ :=
    C06_accepts_any_legal_padding P hP sb hwb (!role) (sa.skParams role) hcl
      (by rw [hrr]; exact halg) (by rw [hrr]; exact hka) (by rw [hrr]; exact hke)
      m.hdr hmaj hmin (firstType m.payloads) inner iv (padDraw.take (16 - inner.length % 16 - 1))
      hiv (by omega) (by omega)
      (by have : (sa.skParams role).icvLen = sa.integInfo.outLen := rfl
          omega)
      m.payloads hdec
  subst hbs
  exact ⟨_, _, _, hph, hun none (Or.inl rfl), hun _ (Or.inr rfl), rfl, e1, e2, e3, e4, e5, e6, e7⟩

/-- The same for a receiver object in ANY state of the `≈ₛ` class of the sender's object (same
descriptors and keys; hash-object buffers arbitrary — e.g. after any history, C17). -/
theorem C01_roundtrip_sim (P : Prims) (hP : P.Lawful) (sa sb : SAKey) (hwa : sa.WF P) (hsim : sa ≈ₛ sb)
    (role : Bool) (r : Rand) (m : Msg)
    (hmaj : m.hdr.major.toNat < 16) (hmin : m.hdr.minor.toNat < 16)
    (hrt : ∀ p ∈ m.payloads, PayloadRT p ∧ p.isSK = false)
    (sa' : SAKey) (r' : Rand) (bs : Bytes) (mo : Msg)
    (h : protect P sa role r m = (sa', r', .ok (bs, mo))) :
    ∃ m' sb' hd, parseHeader bs = .ok hd ∧
      unprotect P (some sb) (!role) none bs = (some sb', 1, .ok m') ∧
      unprotect P (some sb) (!role) (some hd) bs = (some sb', 1, .ok m') ∧
      m'.payloads = m.payloads ∧
      m'.hdr.ispi = m.hdr.ispi ∧ m'.hdr.rspi = m.hdr.rspi ∧ m'.hdr.major = m.hdr.major ∧
      m'.hdr.minor = m.hdr.minor ∧ m'.hdr.exch = m.hdr.exch ∧ m'.hdr.flags = m.hdr.flags ∧
      m'.hdr.mid = m.hdr.mid := by
  have hwb : sb.WF P := by
    obtain ⟨w1, w2⟩ := hwa
    exact ⟨by rw [← hsim.integInfo, ← hsim.integ_i.1]; exact w1, by rw [← hsim.integInfo, ← hsim.integ_r.1]; exact w2⟩
  have hi := hsim.integObj role
  have hk : (sb.encrObj role).key = (sa.encrObj role).key := by
    cases role
    · show sb.encr_r.key = sa.encr_r.key; rw [hsim.encr_r]
    · show sb.encr_i.key = sa.encr_i.key; rw [hsim.encr_i]
  exact C01_roundtrip P hP sa sb hwa hwb role (by rw [hsim.integInfo]) hi.1.symm hi.2.symm hk r m hmaj hmin hrt
    sa' r' bs mo h

/-- Encodable (non-vacuity of the round trip): a message whose payloads encode to `inner`, with a
random source that does not fail, is protected successfully whenever the SK payload fits the
16-bit payload length — including the empty payload list (`inner = []`). -/
theorem C01_encodable (P : Prims) (hP : P.Lawful) (sa : SAKey) (hw : sa.WF P) (role : Bool)
    (r : Rand) (hr : r.failAt = none) (m : Msg) (inner : Bytes)
    (henc : encodeChain m.payloads = .ok inner)
    (hfit : 4 + (16 + (inner.length + (16 - inner.length % 16)) + sa.integInfo.outLen) ≤ 0xFFFF) :
    ∃ sa' r' bs m', protect P sa role r m = (sa', r', .ok (bs, m')) := by
  obtain ⟨sa', r', m', h⟩ := C06_protect_succeeds P hP sa hw role r hr m inner henc hfit
  exact ⟨sa', r', _, m', h⟩

/-- No key, encode side: `EncodeEncrypt` with a nil key is `IKEMessage.Encode` (same datagram,
same updated header), the payload list handed back unchanged. -/
theorem C01_nokey_encode (m : Msg) :
    encodePlain m =
      match encodeMsg m with
      | .ok (bs, h) => .ok (bs, ⟨h, m.payloads⟩)
      | .err => .err
      | .fault => .fault := by
  unfold encodePlain
  cases encodeMsg m with
  | ok x => rfl
  | err => rfl
  | fault => rfl

/-- No key, decode side, complete description: `DecodeDecrypt` with a nil key and a nil header
is `IKEMessage.Decode`, except that it answers `err` when the decoded message presents an
Encrypted payload first (no key to open it) and when the header names SK but no payload follows.
The key argument stays nil; no cipher call. -/
theorem C01_nokey_decode (P : Prims) (role : Bool) (bs : Bytes) :
    unprotect P none role none bs =
      (none, 0,
        match decodeMsg bs with
        | .ok d => if d.firstIsSK = true ∨ (d.payloads = [] ∧ d.hdr.next = Facts.typeSK) then .err else .ok d
        | .err => .err
        | .fault => .fault) := by
  rw [unprotect_eq]
  show (match decodeMsg bs with | .err => _ | .fault => _ | .ok m => _) = _
  cases decodeMsg bs with
  | err => rfl
  | fault => rfl
  | ok d =>
    simp only
    by_cases h1 : d.firstIsSK = true
    · rw [if_pos h1, if_pos (Or.inl h1)]
    · rw [if_neg h1]
      by_cases h2 : d.payloads = [] ∧ d.hdr.next = Facts.typeSK
      · rw [if_pos h2, if_pos (Or.inr h2)]
      · rw [if_neg h2, if_neg (by intro h; cases h with | inl h => exact h1 h | inr h => exact h2 h)]

/-- `= decodeMsg` whenever the first decoded payload is not SK — including zero payloads, as long
as the header does not name SK. -/
theorem C01_nokey (P : Prims) (role : Bool) (bs : Bytes) (d : Msg) (hd : decodeMsg bs = .ok d)
    (hsk : d.firstIsSK = false) (hz : d.payloads = [] → d.hdr.next ≠ Facts.typeSK) :
    unprotect P none role none bs = (none, 0, decodeMsg bs) := by
  rw [C01_nokey_decode, hd]
  simp only
  rw [if_neg]
  intro h
  cases h with
  | inl h => rw [hsk] at h; cases h
  | inr h => exact hz h.1 h.2

/-- what the model does for a header naming SK with no payload: `err` -/
theorem C01_nokey_sk_header_only (P : Prims) (role : Bool) (bs : Bytes) (d : Msg) (hd : decodeMsg bs = .ok d)
    (hz : d.payloads = []) (hn : d.hdr.next = Facts.typeSK) :
    unprotect P none role none bs = (none, 0, .err) := by
  rw [C01_nokey_decode, hd]
  simp only
  rw [if_pos (Or.inr ⟨hz, hn⟩)]

/-- No-key round trip through the two entry points, any payload list without SK payloads —
the empty list included: the datagram of `EncodeEncrypt(m, nil, _)` is returned by
`DecodeDecrypt(bs, nil, nil, _)` as a message with the original payloads and header fields. -/
theorem C01_nokey_roundtrip (P : Prims) (role : Bool) (m : Msg) (bs : Bytes) (mo : Msg)
    (hmaj : m.hdr.major.toNat < 16) (hmin : m.hdr.minor.toNat < 16)
    (hrt : ∀ p ∈ m.payloads, PayloadRT p ∧ p.isSK = false)
    (h : encodePlain m = .ok (bs, mo)) :
    ∃ m', unprotect P none role none bs = (none, 0, .ok m') ∧ m'.payloads = m.payloads ∧
      m'.hdr.ispi = m.hdr.ispi ∧ m'.hdr.rspi = m.hdr.rspi ∧ m'.hdr.major = m.hdr.major ∧
      m'.hdr.minor = m.hdr.minor ∧ m'.hdr.exch = m.hdr.exch ∧ m'.hdr.flags = m.hdr.flags ∧
      m'.hdr.mid = m.hdr.mid := by
  rw [C01_nokey_encode] at h
  cases he : encodeMsg m with
  | err => rw [he] at h; simp at h
  | fault => rw [he] at h; simp at h
  | ok x =>
    obtain ⟨bs', h'⟩ := x
    rw [he] at h
    simp only [Res.ok.injEq, Prod.mk.injEq] at h
    obtain ⟨rfl, _⟩ := h
    obtain ⟨hdm, hnx, e1, e2, e3, e4, e5, e6, e7⟩ := encodeMsg_decodeMsg m bs' h' hmaj hmin hrt he
    refine ⟨⟨h', m.payloads⟩, ?_, rfl, e1, e2, e3, e4, e5, e6, e7⟩
    rw [C01_nokey P role bs' ⟨h', m.payloads⟩ hdm ?_ ?_, hdm]
    · cases hps : m.payloads with
      | nil => simp [Msg.firstIsSK]
      | cons p rest =>
        have := typeCode_ne_SK p (hrt p (by rw [hps]; simp)).2
        simp [Msg.firstIsSK, this]
    · intro hz
      simp only at hz
      rw [hnx, hz]
      decide

/-! ### non-vacuity (toy lawful primitives `Prims.skToy`, values in `SkEx`, Lemmas/Sk.lean) -/

/-- all hypotheses of `C01_roundtrip` hold for a concrete two-payload message, and the theorem
delivers the concrete round trip -/
example : ∃ m', (unprotect Prims.skToy (some SkEx.sa) false none SkEx.bs).2.2 = .ok m' ∧
    m'.payloads = SkEx.msg.payloads ∧ m'.hdr.mid = 5 := by
  obtain ⟨sa', r', mo, h⟩ := SkEx.protect_bs_full
  obtain ⟨m', sb', hd, _, h1, _, h2, _, _, _, _, _, _, h3⟩ :=
    C01_roundtrip Prims.skToy Prims.skToy_lawful SkEx.sa SkEx.sa SkEx.sa_wf SkEx.sa_wf true rfl rfl rfl rfl
      SkEx.rnd SkEx.msg (by decide) (by decide) SkEx.msg_rt sa' r' _ mo h
  exact ⟨m', by show (unprotect Prims.skToy (some SkEx.sa) (!true) none SkEx.bs).2.2 = _; rw [h1], h2, h3⟩

/-- the empty payload list is protected too (`C01_encodable`) -/
example : ∃ sa' r' bs m', protect Prims.skToy SkEx.sa false SkEx.rnd ⟨SkEx.msg.hdr, []⟩ = (sa', r', .ok (bs, m')) :=
  C01_encodable Prims.skToy Prims.skToy_lawful SkEx.sa SkEx.sa_wf false SkEx.rnd rfl _ [] rfl (by decide)

/-- no key, zero payloads: header-only datagram decodes to the empty list -/
example : ∃ m', unprotect Prims.skToy none true none
    [0, 0, 0, 0, 0, 0, 0, 1, 0, 0, 0, 0, 0, 0, 0, 2, 0, 32, 37, 8, 0, 0, 0, 5, 0, 0, 0, 28] = (none, 0, .ok m') ∧
    m'.payloads = [] :=
  ⟨⟨{ ispi := 1, rspi := 2, major := 2, minor := 0, exch := 37, flags := 8, mid := 5 }, []⟩, by decide +kernel, rfl⟩

/-- no key, header names SK, nothing follows: `err` -/
example : unprotect Prims.skToy none true none
    [0, 0, 0, 0, 0, 0, 0, 1, 0, 0, 0, 0, 0, 0, 0, 2, 46, 32, 37, 8, 0, 0, 0, 5, 0, 0, 0, 28] = (none, 0, .err) := by
  decide +kernel

/-- The hypothesis `P.Lawful` of the theorems above (protect / unprotect round trip) is not an assumption about the
primitives the model actually runs: the executable SHA-256 / SHA-1 / MD5 / HMAC / AES of
`IkeModel/Crypto` — the ones the correspondence suites compare byte for byte with Go's standard
library — satisfy it (digest lengths; AES block length; `dec k (enc k b) = b` for every key and
block, proved from FIPS-197's inverse structure in `Lemmas/PrimsReal.lean`). -/
theorem C01_real_lawful : Prims.real.Lawful := Prims.real_lawful

end Ike
