import IkeProofs.Theorems.C15
import IkeProofs.Theorems.C14Parse

/-! # C15 on the wire: canonical packets from ANY sender

`C15_receiver_partial` (C15.lean) covers packets the sender built through this library's API.
With the independent strict EAP parser `Spec.parseEap` (IkeModel/Spec/EapParse.lean) the receiver
clause can be stated about octets on the wire, whoever wrote them: for every packet that the
strict parser accepts as an EAP-AKA' packet carrying AT_MAC — canonical form: ascending distinct
attribute types, zero reserved and padding octets — the receiver's `CalcEapAkaPrimeAtMAC` on the
decoded packet is the RFC 5448 §3.4 value over those very octets with the MAC field zeroed
(`Spec.atMac`).  The known finding D15 is exactly the complement: wire forms the strict parser
rejects (C15_D15_witness). -/

namespace Ike

/-- **C15, receiver clause, for every canonical wire packet**: the code the receiver computes from
the decoded packet equals the independent RFC transcription `Spec.atMac` applied to the octets as
received. -/
theorem C15_receiver_canonical_wire (P : Prims) (wire key m : Bytes) (code ident : UInt8) (a : Aka)
    (hp : Spec.parseEap wire = some ⟨code, ident, .aka a⟩)
    (hm : akaGetAttr a Facts.atMac = .ok m) :
    ∃ mac, recvEapAkaPrimeAtMAC P wire key = .ok mac ∧ Spec.atMac P key wire = some mac := by
  have hdec := C14_parser_decoder_agree wire _ hp
  have hb : AkaBuilt a := (C14_parse_getattr wire code ident a hp).1
  have hw : marshalEap ⟨code, ident, .aka a⟩ = .ok wire := C14_parse_strict wire _ hp
  obtain ⟨mac, h1, h2, _⟩ := C15_is_rfc P code ident a key wire m hb hm hw
  refine ⟨mac, ?_, h2⟩
  unfold recvEapAkaPrimeAtMAC
  rw [hdec]
  exact h1

/-- and the receiver's comparison succeeds exactly when the AT_MAC value on the wire is that RFC value:
the value it reads from the decoded packet is the one the strict parser reads from the octets -/
theorem C15_receiver_canonical_wire_compare (P : Prims) (wire key m : Bytes) (code ident : UInt8) (a : Aka)
    (hp : Spec.parseEap wire = some ⟨code, ident, .aka a⟩)
    (hm : akaGetAttr a Facts.atMac = .ok m) :
    ∃ d mac, unmarshalEap wire = .ok ⟨code, ident, .aka d⟩ ∧ akaGetAttr d Facts.atMac = .ok m ∧
      recvEapAkaPrimeAtMAC P wire key = .ok mac ∧ (m = mac ↔ Spec.atMac P key wire = some m) := by
  obtain ⟨mac, h1, h2⟩ := C15_receiver_canonical_wire P wire key m code ident a hp hm
  refine ⟨a, mac, C14_parser_decoder_agree wire _ hp, hm, h1, ?_⟩
  rw [h2]
  constructor
  · intro h; rw [h]
  · intro h; exact (Option.some.inj h).symm

/-- non-vacuity: a canonical Challenge with AT_RAND, AT_AUTN, AT_MAC, AT_KDF, AT_KDF_INPUT is accepted by
the strict parser and carries AT_MAC -/
example :
    let wire : Bytes := [1, 9, 0, 80, 50, 1, 0, 0] ++ ([1, 5, 0, 0] ++ List.replicate 16 0x11) ++ ([2, 5, 0, 0] ++ List.replicate 16 0x22) ++
      ([11, 5, 0, 0] ++ List.replicate 16 0xaa) ++ [23, 2, 0, 24, 97, 98, 99, 0] ++ [24, 1, 0, 1]
    (Spec.parseEap wire).isSome = true := by decide +kernel

end Ike
