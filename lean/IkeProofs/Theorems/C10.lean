import IkeProofs.Lemmas.Cbc
import IkeProofs.Lemmas.PrimsReal

/-!
# C10 — AES-CBC transform

All statements are for an arbitrary primitive record `P` with `P.Lawful`
(block decryption inverts block encryption on 16-octet blocks, both keep the
block size), every key, every plaintext / ciphertext of any length, every
state of the random source (any octet stream, any position, any failure
point), and every call sequence on one object.

* `C10_inverse`        decrypt ∘ encrypt = id
* `C10_size`           |ct| = 16 + 16k, n < 16k ≤ n + 16 (so ≤ n + 256)
* `C10_textbook`       textbook CBC decryption of ct = p ‖ pad ‖ [16k − n − 1]
* `C10_fresh_iv`       the IV is this call's second draw; windows of the stream never overlap
* `C10_history`        results in a call sequence depend on that call's inputs and draws only
* `C10_rand_fail`      failure at either draw ⇔ error; never a fault
* `C10_keysize`        `NewCrypto` refuses exactly the keys of another size
* `C10_decrypt_err_iff` which ciphertexts `Decrypt` refuses, and what it returns otherwise
  (no fault: `C04_no_fault_cbcDecrypt`, restated as `C10_decrypt_no_fault`)

"No repeats across calls or objects" is a statement about the random source:
what the code contributes — every call reads 16 new octets from the source
for its IV, from a window disjoint from every other window it or any earlier
call read, and keeps no IV in the object — is `C10_fresh_iv` + `C10_history`.
-/

namespace Ike

/-- C10, inverse: for every key, every plaintext and every state of the
random source, whenever `Encrypt` returns a ciphertext, `Decrypt` on the same
object (equivalently any object with the same key) returns exactly the
plaintext. -/
theorem C10_inverse (P : Prims) (hP : P.Lawful) (c : CipherObj) (r : Rand) (p ct : Bytes)
    (h : (cbcEncrypt P c r p).2 = .ok ct) : cbcDecrypt P c ct = .ok p := by
  obtain ⟨pad, hpad, hlen, hpl⟩ := encShape_plain P hP c p ct (encShape_of_ok P c r p ct h)
  have hb := padLen_bounds p
  have hlast : lastPlainOctet P c ct = UInt8.ofNat (padLen p - 1) := by
    unfold lastPlainOctet
    rw [hpl]
    have : (p ++ pad ++ [UInt8.ofNat (padLen p - 1)]).length - 1 = (p ++ pad).length + 0 := by
      simp only [List.length_append, List.length_cons, List.length_nil]; omega
    rw [this, byteAt_append_right]; rfl
  have hnat : (UInt8.ofNat (padLen p - 1)).toNat = padLen p - 1 := ofNat_toNat_u8 _ (by omega)
  rw [cbcDecrypt_eq P hP, hlast, hnat, if_neg (by omega), hpl]
  have : ct.length - 16 - (padLen p - 1 + 1) = p.length + 0 := by omega
  rw [this, List.append_assoc, take_add_append]
  simp

/-- the success hypothesis of `C10_inverse` holds whenever the random source
does not fail at the two reads of this call (in particular for `failAt = none`) -/
theorem C10_encrypt_ok (P : Prims) (c : CipherObj) (r : Rand) (p : Bytes)
    (h1 : r.failAt ≠ some r.reads) (h2 : r.failAt ≠ some (r.reads + 1)) :
    ∃ ct, (cbcEncrypt P c r p).2 = .ok ct := by
  rw [cbcEncrypt_eq, if_neg h1, if_neg h2]; exact ⟨_, rfl⟩

/-- C10, inverse, as the property words it: a key of the negotiated size
(`NewCrypto` accepts it), any plaintext, a random source that does not fail ⇒
`Encrypt` succeeds and `Decrypt` of its result is the plaintext. -/
theorem C10_inverse_newCrypto (P : Prims) (hP : P.Lawful) (keyLen : Nat) (key : Bytes)
    (hk : key.length = keyLen) (r : Rand) (hr : r.failAt = none) (p : Bytes) :
    ∃ c ct, newCrypto keyLen key = .ok c ∧ (cbcEncrypt P c r p).2 = .ok ct ∧ cbcDecrypt P c ct = .ok p := by
  refine ⟨⟨key⟩, ?_⟩
  obtain ⟨ct, hct⟩ := C10_encrypt_ok P ⟨key⟩ r p (by rw [hr]; simp) (by rw [hr]; simp)
  refine ⟨ct, ?_, hct, C10_inverse P hP _ r p ct hct⟩
  unfold newCrypto; rw [if_neg (by omega)]

example : (⟨[1, 2, 3], 0, 0, none⟩ : Rand).failAt = none ∧ ([7, 7] : Bytes).length = 2 := by decide

/-- C10, size law: a ciphertext for an `n`-octet plaintext has `16 + 16k`
octets with `n < 16k ≤ n + 16` — the IV plus the least whole number of blocks
strictly longer than the plaintext (stronger than the stated `≤ n + 256`). -/
theorem C10_size (P : Prims) (hP : P.Lawful) (c : CipherObj) (r : Rand) (p ct : Bytes)
    (h : (cbcEncrypt P c r p).2 = .ok ct) :
    ∃ k, ct.length = 16 + 16 * k ∧ p.length < 16 * k ∧ 16 * k ≤ p.length + 16 ∧ 16 * k ≤ p.length + 256 := by
  obtain ⟨pad, hpad, hlen, _⟩ := encShape_plain P hP c p ct (encShape_of_ok P c r p ct h)
  have hb := padLen_bounds p
  refine ⟨(p.length + padLen p) / 16, ?_⟩
  omega

/-- C10, textbook CBC: the ciphertext is a 16-octet IV followed by CBC blocks;
decrypting those blocks under the IV with the textbook CBC recurrence
(`cbcDec`, NIST SP 800-38A) gives the plaintext, then `16k − n − 1` octets,
then the octet `16k − n − 1`, where `|ct| = 16 + 16k`. -/
theorem C10_textbook (P : Prims) (hP : P.Lawful) (c : CipherObj) (r : Rand) (p ct : Bytes)
    (h : (cbcEncrypt P c r p).2 = .ok ct) :
    ∃ k pad, ct.length = 16 + 16 * k ∧ p.length < 16 * k ∧ pad.length = 16 * k - p.length - 1 ∧
      cbcDec (P.dec c.key) (ct.take 16) (ct.drop 16) = p ++ pad ++ [UInt8.ofNat (16 * k - p.length - 1)] := by
  obtain ⟨pad, hpad, hlen, hpl⟩ := encShape_plain P hP c p ct (encShape_of_ok P c r p ct h)
  have hb := padLen_bounds p
  have hk : 16 * ((p.length + padLen p) / 16) - p.length - 1 = padLen p - 1 := by omega
  refine ⟨(p.length + padLen p) / 16, pad, by omega, by omega, by omega, ?_⟩
  rw [hk]; exact hpl

/-- the padding octets are the first `16k − n − 1` octets of this call's first draw -/
theorem C10_padding_drawn (P : Prims) (c : CipherObj) (r : Rand) (p ct : Bytes)
    (h : (cbcEncrypt P c r p).2 = .ok ct) :
    ∃ drawn, (r.draw (padLen p)).2 = .ok drawn ∧
      ct.drop 16 = cbcEnc (P.enc c.key) (ct.take 16)
        (p ++ drawn.take (padLen p - 1) ++ [UInt8.ofNat (padLen p - 1)]) := by
  obtain ⟨h1, _, hct⟩ := cbcEncrypt_ok_shape P c r p ct h
  refine ⟨cyc r.buf r.pos (padLen p), by unfold Rand.draw; rw [if_neg h1], ?_⟩
  rw [hct, take_prefix_eq _ _ _ (cyc_length _ _ _).symm, drop_prefix_eq _ _ _ (cyc_length _ _ _).symm]
  rfl

/-- C10, fresh IV: when `Encrypt` succeeds, the first 16 octets of the
ciphertext are exactly the 16 octets returned by the second read of the random
source in THIS call (the read after the padding read): the octets at stream
positions `[pos + padLen, pos + padLen + 16)`.  The call leaves the source
positioned at the end of that window and two reads later, so the IV windows
of successive calls are pairwise disjoint stretches of the stream: no IV
octet is ever taken from the object or from an earlier call. -/
theorem C10_fresh_iv (P : Prims) (c : CipherObj) (r : Rand) (p ct : Bytes)
    (h : (cbcEncrypt P c r p).2 = .ok ct) :
    (pkcs7Pad r p).1.draw 16 = ((cbcEncrypt P c r p).1, .ok (ct.take 16)) ∧
    ct.take 16 = cyc r.buf (r.pos + padLen p) 16 ∧
    (cbcEncrypt P c r p).1.pos = r.pos + padLen p + 16 ∧
    (cbcEncrypt P c r p).1.reads = r.reads + 2 ∧
    (cbcEncrypt P c r p).1.buf = r.buf ∧ (cbcEncrypt P c r p).1.failAt = r.failAt := by
  obtain ⟨h1, h2, hct⟩ := cbcEncrypt_ok_shape P c r p ct h
  have htake : ct.take 16 = cyc r.buf (r.pos + padLen p) 16 := by
    rw [hct, take_prefix_eq _ _ _ (cyc_length _ _ _).symm]
  have hst : cbcEncrypt P c r p = _ := cbcEncrypt_eq P c r p
  rw [if_neg h1, if_neg h2] at hst
  refine ⟨?_, htake, ?_, ?_, ?_, ?_⟩
  · rw [htake, hst]
    unfold pkcs7Pad Rand.draw
    simp only [if_neg h1]
    rw [if_neg (by simpa using h2)]
    rfl
  · rw [hst]
  · rw [hst]
  · rw [hst]
  · rw [hst]

/-- C10, the cipher object is never modified: `Encrypt` and `Decrypt` return
no new object state (the model's functions return only the random source and
the result), hence in ANY call sequence on one object (any mix of `Encrypt`
and `Decrypt`, any length), the outcome of each call is the outcome of that
call alone on an object freshly built from the same key, given the random
source as the earlier calls left it; earlier plaintexts/ciphertexts influence
a later call only through how many octets they consumed from the source. -/
theorem C10_history (P : Prims) (c : CipherObj) (r : Rand) (before after : List CbcOp) (op : CbcOp) :
    (cbcRun P c r (before ++ op :: after))[before.length]? =
      some (match op with
        | .enc p => (cbcEncrypt P ⟨c.key⟩ (cbcRandAfter P c r before) p).2
        | .dec ct => cbcDecrypt P ⟨c.key⟩ ct) := by
  rw [cbcRun_append]
  have hl := cbcRun_length P c r before
  rw [List.getElem?_append_right (by omega), hl, Nat.sub_self]
  cases op with
  | enc p => simp [cbcRun]
  | dec ct => simp [cbcRun]

/-- one `Encrypt` leaves the stream and the failure point alone and only moves forward -/
theorem cbcEncrypt_rand (P : Prims) (c : CipherObj) (r : Rand) (p : Bytes) :
    (cbcEncrypt P c r p).1.buf = r.buf ∧ (cbcEncrypt P c r p).1.failAt = r.failAt ∧
    r.pos ≤ (cbcEncrypt P c r p).1.pos ∧ r.reads < (cbcEncrypt P c r p).1.reads := by
  rw [cbcEncrypt_eq]
  by_cases h1 : r.failAt = some r.reads
  · rw [if_pos h1]; simp
  · rw [if_neg h1]
    by_cases h2 : r.failAt = some (r.reads + 1)
    · rw [if_pos h2]; simp
    · rw [if_neg h2]; simp; omega

/-- `Decrypt` does not touch the random source, and `Encrypt` only advances it
(same stream, same failure point), whatever the history -/
theorem C10_history_rand (P : Prims) (c : CipherObj) (r : Rand) (ops : List CbcOp) :
    (cbcRandAfter P c r ops).buf = r.buf ∧ (cbcRandAfter P c r ops).failAt = r.failAt ∧
    r.pos ≤ (cbcRandAfter P c r ops).pos ∧ r.reads ≤ (cbcRandAfter P c r ops).reads := by
  induction ops generalizing r with
  | nil => simp [cbcRandAfter]
  | cons op rest ih =>
    cases op with
    | dec ct => exact ih r
    | enc p =>
      simp only [cbcRandAfter]
      obtain ⟨i1, i2, i3, i4⟩ := ih (cbcEncrypt P c r p).1
      obtain ⟨e1, e2, e3, e4⟩ := cbcEncrypt_rand P c r p
      exact ⟨i1.trans e1, i2.trans e2, by omega, by omega⟩

/-- two successful encryptions in one history use IV windows of the stream that
do not overlap: the later one starts at or after the end of the earlier one -/
theorem C10_fresh_iv_disjoint (P : Prims) (c : CipherObj) (r : Rand) (p1 p2 : Bytes) (mid : List CbcOp) :
    let r1 := (cbcEncrypt P c r p1).1
    let r2 := cbcRandAfter P c r1 mid
    (cbcEncrypt P c r p1).2 ≠ .err →
      r.pos + padLen p1 + 16 ≤ r2.pos + padLen p2 := by
  intro r1 r2 hne
  have hmid := (C10_history_rand P c r1 mid).2.2.1
  have hst : cbcEncrypt P c r p1 = _ := cbcEncrypt_eq P c r p1
  have hpos : r1.pos = r.pos + padLen p1 + 16 := by
    by_cases h1 : r.failAt = some r.reads
    · rw [if_pos h1] at hst; rw [hst] at hne; simp at hne
    · rw [if_neg h1] at hst
      by_cases h2 : r.failAt = some (r.reads + 1)
      · rw [if_pos h2] at hst; rw [hst] at hne; simp at hne
      · rw [if_neg h2] at hst; simp only [r1]; rw [hst]
  show r.pos + padLen p1 + 16 ≤ (cbcRandAfter P c r1 mid).pos + padLen p2
  omega

/-- C10, failing random source: `Encrypt` returns an error — and no ciphertext
— exactly when the source fails at the first read of the call (padding) or at
the second (IV); in every other case it returns a ciphertext; it never
faults. -/
theorem C10_rand_fail (P : Prims) (c : CipherObj) (r : Rand) (p : Bytes) :
    ((cbcEncrypt P c r p).2 = .err ↔ r.failAt = some r.reads ∨ r.failAt = some (r.reads + 1)) ∧
    (cbcEncrypt P c r p).2 ≠ .fault := by
  rw [cbcEncrypt_eq]
  by_cases h1 : r.failAt = some r.reads
  · rw [if_pos h1]; simp [h1]
  · rw [if_neg h1]
    by_cases h2 : r.failAt = some (r.reads + 1)
    · rw [if_pos h2]; simp [h2]
    · rw [if_neg h2]; simp [h1, h2]

example : (cbcEncrypt Prims.real ⟨[]⟩ ⟨[1], 0, 3, some 4⟩ [9]).2 = .err :=
  ((C10_rand_fail _ _ _ _).1.mpr (Or.inr rfl))

/-- C10, key size: for every descriptor key length and every key of any length,
`NewCrypto` returns an error exactly when the key has another length, and
otherwise an object holding that key. -/
theorem C10_keysize (keyLen : Nat) (key : Bytes) :
    (newCrypto keyLen key = .err ↔ key.length ≠ keyLen) ∧
    (key.length = keyLen → newCrypto keyLen key = .ok ⟨key⟩) ∧ newCrypto keyLen key ≠ .fault := by
  unfold newCrypto
  by_cases h : key.length ≠ keyLen
  · rw [if_pos h]; simp [h]
  · rw [if_neg h]; simp at h; simp [h]

example : newCrypto 16 (zeros 24) = .err ∧ newCrypto 24 (zeros 24) = .ok ⟨zeros 24⟩ := by decide

/-- C10, `Decrypt` never faults (any key, any octet string) — C04 restated -/
theorem C10_decrypt_no_fault (P : Prims) (hP : P.Lawful) (c : CipherObj) (ct : Bytes) :
    cbcDecrypt P c ct ≠ .fault := cbcDecrypt_ne_fault P hP c ct

/-- C10, refused ciphertexts: for every key and every octet string, `Decrypt`
returns an error exactly when the string is too short (less than an IV and
one block), or the part after the IV is not a whole number of blocks, or the
last octet of the textbook CBC decryption announces more padding than there
is plaintext (`last + 1 > |ct| − 16`); otherwise it returns the textbook
decryption without its last `last + 1` octets. -/
theorem C10_decrypt_err_iff (P : Prims) (hP : P.Lawful) (c : CipherObj) (ct : Bytes) :
    (cbcDecrypt P c ct = .err ↔
      ct.length < 32 ∨ (ct.length - 16) % 16 ≠ 0 ∨ (lastPlainOctet P c ct).toNat + 1 > ct.length - 16) ∧
    (¬ (ct.length < 32 ∨ (ct.length - 16) % 16 ≠ 0 ∨ (lastPlainOctet P c ct).toNat + 1 > ct.length - 16) →
      cbcDecrypt P c ct =
        .ok ((cbcDec (P.dec c.key) (ct.take 16) (ct.drop 16)).take
          (ct.length - 16 - ((lastPlainOctet P c ct).toNat + 1)))) := by
  rw [cbcDecrypt_eq P hP]
  by_cases h : ct.length < 32 ∨ (ct.length - 16) % 16 ≠ 0 ∨ (lastPlainOctet P c ct).toNat + 1 > ct.length - 16
  · rw [if_pos h]; simp [h]
  · rw [if_neg h]; simp [h, cbcPlain]

/-- `lastPlainOctet` is what the statement says: the last octet of the textbook
CBC decryption of the blocks after the IV -/
theorem C10_lastPlainOctet_def (P : Prims) (c : CipherObj) (ct : Bytes) :
    lastPlainOctet P c ct =
      byteAt (cbcDec (P.dec c.key) (ct.take 16) (ct.drop 16))
        ((cbcDec (P.dec c.key) (ct.take 16) (ct.drop 16)).length - 1) := rfl

/-- non-vacuity: a lawful primitive record exists (identity "cipher") and all
three refusal causes and the accepting case occur -/
def C10_toyPrims : Prims := ⟨fun _ _ _ => [], fun _ => 0, fun _ b => b, fun _ b => b⟩

theorem C10_toyPrims_lawful : C10_toyPrims.Lawful := ⟨fun _ _ _ => rfl, fun _ _ h => h, fun _ _ h => h, fun _ _ _ => rfl⟩

/-- a concrete encryption (2-octet plaintext, stream 1,2,3,1,2,3,…: 14 octets of padding drawn,
then the IV) and its decryption -/
example : (cbcEncrypt C10_toyPrims ⟨[]⟩ ⟨[1, 2, 3], 0, 0, none⟩ [9, 9]).2 =
      .ok [3, 1, 2, 3, 1, 2, 3, 1, 2, 3, 1, 2, 3, 1, 2, 3, 10, 8, 3, 1, 2, 3, 1, 2, 3, 1, 2, 3, 1, 2, 3, 14] ∧
    cbcDecrypt C10_toyPrims ⟨[]⟩
      [3, 1, 2, 3, 1, 2, 3, 1, 2, 3, 1, 2, 3, 1, 2, 3, 10, 8, 3, 1, 2, 3, 1, 2, 3, 1, 2, 3, 1, 2, 3, 14] = .ok [9, 9] := by
  decide +kernel

example : cbcDecrypt C10_toyPrims ⟨[]⟩ (zeros 31) = .err ∧ cbcDecrypt C10_toyPrims ⟨[]⟩ (zeros 33) = .err ∧
    cbcDecrypt C10_toyPrims ⟨[]⟩ (zeros 31 ++ [16]) = .err ∧
    cbcDecrypt C10_toyPrims ⟨[]⟩ (zeros 31 ++ [3]) = .ok (zeros 12) := by
  decide +kernel

/-- The hypothesis `P.Lawful` of the theorems above (the AES-CBC transform laws) is not an assumption about the
primitives the model actually runs: the executable SHA-256 / SHA-1 / MD5 / HMAC / AES of
`IkeModel/Crypto` — the ones the correspondence suites compare byte for byte with Go's standard
library — satisfy it (digest lengths; AES block length; `dec k (enc k b) = b` for every key and
block, proved from FIPS-197's inverse structure in `Lemmas/PrimsReal.lean`). -/
theorem C10_real_lawful : Prims.real.Lawful := Prims.real_lawful

end Ike
