import IkeProofs.Theorems.C03
import IkeModel.Spec.Chain

/-!
# C13 — unsupported payloads: skipped when not critical, message rejected when critical

The chain is written by the independent encoder `Spec.encodeItems`
(RFC 7296 §3.2 generic payload header), which may place payloads of types
this library does not implement anywhere in the chain — front, middle, end,
several — with any body, any flag octet, and may set the critical bit and the
reserved bits on payloads of implemented types.  `C13_chain` decides the whole
property by induction over the chain: no bound on the number, position or
size of the inserted payloads.
-/

set_option linter.unusedSimpArgs false
set_option linter.unusedVariables false

namespace Ike
open Spec


set_option maxRecDepth 100000 in
theorem crit_bit_fin : ∀ x : Fin 256, ((UInt8.ofNat x.val &&& 0x80) >>> 7 == 0) = !((UInt8.ofNat x.val &&& 0x80) != 0) := by decide

theorem crit_bit (f : UInt8) : ((f &&& 0x80) >>> 7 == 0) = !((f &&& 0x80) != 0) := by
  have h := crit_bit_fin ⟨f.toNat, f.toNat_lt⟩
  simpa using h

/-- the walker on a known payload written with any flag octet: flags are ignored -/
theorem chainStep_known (p : Payload) (fl : UInt8) (body tl : Bytes) (nx : UInt8) (hrt : PayloadRT p)
    (hsk : p.isSK = false) (hm : marshalPayload p = .ok body) (hlen : 4 + body.length ≤ 0xFFFF) :
    chainStep p.typeCode ([nx, fl] ++ put16 (UInt16.ofNat (4 + body.length)) ++ body ++ tl)
      = .ok (some p, nx, 4 + body.length) := by
  have hl : (UInt16.ofNat (4 + body.length)).toNat = 4 + body.length := ofNat_toNat_u16 _ (by omega)
  generalize UInt16.ofNat (4 + body.length) = v at *
  unfold chainStep
  rw [if_neg (by len_omega)]
  go_steps
  have hpl : be16 (byteAt ([nx, fl] ++ put16 v ++ body ++ tl) 2) (byteAt ([nx, fl] ++ put16 v ++ body ++ tl) 3) = v := by
    simp [put16, be16_put]
  rw [hpl]
  have h4 : ¬ v < 4 := by
    simp only [UInt16.lt_iff_toNat_lt, hl]
    have : (4 : UInt16).toNat = 4 := rfl
    omega
  rw [if_neg h4, hl, if_neg (by len_omega)]
  go_steps
  rw [if_pos (knownType_typeCode p)]
  rw [typeCode_ne_sk p hsk]
  simp only [Bool.false_and, Bool.false_eq_true, if_false]
  go_steps
  have hbody : List.drop 4 (List.take (4 + body.length) ([nx, fl] ++ put16 v ++ body ++ tl)) = body := by
    simp only [put16, List.cons_append, List.nil_append, List.append_assoc]
    rw [take_add_cons4]; simp
  have hnx : byteAt ([nx, fl] ++ put16 v ++ body ++ tl) 0 = nx := by simp
  rw [hbody, hnx, hrt body nx hm]
  simp

/-- the walker on a payload of an unimplemented type: skipped when the critical bit is clear, rejected otherwise -/
theorem chainStep_unknown (t fl : UInt8) (body tl : Bytes) (nx : UInt8) (ht : knownType t = false)
    (hlen : 4 + body.length ≤ 0xFFFF) :
    chainStep t ([nx, fl] ++ put16 (UInt16.ofNat (4 + body.length)) ++ body ++ tl)
      = bif (fl &&& 0x80) != 0 then .err else .ok (none, nx, 4 + body.length) := by
  have hl : (UInt16.ofNat (4 + body.length)).toNat = 4 + body.length := ofNat_toNat_u16 _ (by omega)
  generalize UInt16.ofNat (4 + body.length) = v at *
  unfold chainStep
  rw [if_neg (by len_omega)]
  go_steps
  have hpl : be16 (byteAt ([nx, fl] ++ put16 v ++ body ++ tl) 2) (byteAt ([nx, fl] ++ put16 v ++ body ++ tl) 3) = v := by
    simp [put16, be16_put]
  rw [hpl]
  have h4 : ¬ v < 4 := by
    simp only [UInt16.lt_iff_toNat_lt, hl]
    have : (4 : UInt16).toNat = 4 := rfl
    omega
  rw [if_neg h4, hl, if_neg (by len_omega)]
  go_steps
  rw [if_neg (by simp [ht])]
  have hnx : byteAt ([nx, fl] ++ put16 v ++ body ++ tl) 0 = nx := by simp
  have hfl : byteAt ([nx, fl] ++ put16 v ++ body ++ tl) 1 = fl := by simp
  rw [hnx, hfl, crit_bit]
  cases hc : (fl &&& 0x80 != 0) <;> simp

/-- **C13** for a whole chain: unknown non-critical payloads are skipped wherever they
appear, a critical unknown payload rejects the chain, flag octets of known payloads
(critical bit and reserved bits) are ignored. -/
theorem C13_chain (items : List Item) (bs : Bytes)
    (hk : ∀ p f, Item.known p f ∈ items → PayloadRT p ∧ p.isSK = false)
    (hu : ∀ t f b, Item.unknown t f b ∈ items → knownType t = false)
    (h : encodeItems items = .ok bs) :
    decodeChain (firstItemType items) bs =
      bif anyCriticalUnknown items then .err else .ok (knownPayloads items) := by
  induction items generalizing bs with
  | nil =>
    simp [encodeItems] at h; subst h
    unfold decodeChain; simp [anyCriticalUnknown, knownPayloads]
  | cons i rest ih =>
    simp only [encodeItems] at h
    cases hb : i.body with
    | err => simp [hb] at h
    | fault => simp [hb] at h
    | ok body =>
      simp only [hb, Res.bind_ok] at h
      split at h
      · simp at h
      · rename_i hlen
        cases hr : encodeItems rest with
        | err => simp [hr] at h
        | fault => simp [hr] at h
        | ok tl =>
          simp only [hr, Res.bind_ok, Res.ok.injEq] at h
          subst h
          have ihr := ih tl (fun p f hm => hk p f (by simp [hm])) (fun t f b hm => hu t f b (by simp [hm])) hr
          have hd : ∀ fl : UInt8, List.drop (4 + body.length) ([firstItemType rest, fl] ++ put16 (UInt16.ofNat (4 + body.length)) ++ body ++ tl) = tl := by
            intro fl
            simp only [put16, List.cons_append, List.nil_append, List.append_assoc]
            rw [drop_add_cons4]; simp
          cases i with
          | known p f =>
            simp only [Item.body] at hb
            show decodeChain p.typeCode ([firstItemType rest, f] ++ _ ++ body ++ tl) = _
            rw [decodeChain, dif_neg (by len_omega),
              chainStep_known p f body tl (firstItemType rest) (hk p f (by simp)).1 (hk p f (by simp)).2 hb (by omega)]
            simp only
            rw [dif_pos (by len_omega), hd, ihr]
            simp only [anyCriticalUnknown, knownPayloads]
            cases anyCriticalUnknown rest <;> simp
          | unknown t f b =>
            simp only [Item.body, Res.ok.injEq] at hb
            subst hb
            show decodeChain t ([firstItemType rest, f] ++ _ ++ b ++ tl) = _
            rw [decodeChain, dif_neg (by len_omega),
              chainStep_unknown t f b tl (firstItemType rest) (hu t f b (by simp)) (by omega)]
            simp only [anyCriticalUnknown, knownPayloads, Item.critical, Item.flags]
            cases hc : (f &&& 0x80 != 0)
            · simp only [cond_false, Bool.false_or]
              rw [dif_pos (by len_omega), hd, ihr]
              cases anyCriticalUnknown rest <;> simp
            · simp


/-- every inserted payload has an unimplemented type and every implemented payload lies in the encodable domain -/
def ItemsDom (items : List Item) : Prop :=
  (∀ p f, Item.known p f ∈ items → p.Dom) ∧ (∀ t f b, Item.unknown t f b ∈ items → knownType t = false)

/-- **skip**: when no unimplemented payload is marked critical, the chain decodes exactly as the
same chain without them — wherever they appear — and the flag octets of implemented payloads
(critical bit, reserved bits) have no influence. -/
theorem C13_skip (items : List Item) (bs : Bytes) (hd : ItemsDom items)
    (hc : anyCriticalUnknown items = false) (h : encodeItems items = .ok bs) :
    decodeChain (firstItemType items) bs = .ok (knownPayloads items) := by
  have := C13_chain items bs (fun p f hm => payloadRT_of_dom p (hd.1 p f hm)) hd.2 h
  rw [hc] at this
  exact this

/-- **reject**: if any unimplemented payload has the critical flag set, decoding fails with an error. -/
theorem C13_reject (items : List Item) (bs : Bytes) (hd : ItemsDom items)
    (hc : anyCriticalUnknown items = true) (h : encodeItems items = .ok bs) :
    decodeChain (firstItemType items) bs = .err := by
  have := C13_chain items bs (fun p f hm => payloadRT_of_dom p (hd.1 p f hm)) hd.2 h
  rw [hc] at this
  exact this

/-- the same at message level: header ‖ chain -/
theorem C13_message (hdr : Header) (items : List Item) (pb bs : Bytes) (hd : ItemsDom items)
    (hmaj : hdr.major.toNat < 16) (hmin : hdr.minor.toNat < 16)
    (hi : encodeItems items = .ok pb)
    (hm : marshalHeader { hdr with next := firstItemType items, payloadBytes := pb } = .ok bs) :
    decodeMsg bs = bif anyCriticalUnknown items then .err
      else .ok ⟨{ hdr with next := firstItemType items, payloadBytes := pb }, knownPayloads items⟩ := by
  unfold decodeMsg
  rw [rt_header _ _ (by simpa using hmaj) (by simpa using hmin) hm]
  simp only [Res.bind_ok]
  rw [C13_chain items pb (fun p f hm => payloadRT_of_dom p (hd.1 p f hm)) hd.2 hi]
  cases anyCriticalUnknown items <;> simp

/-- the type codes the container does not implement are exactly those outside 33..48 -/
theorem C13_unknown_types (t : UInt8) : knownType t = false ↔ (t.toNat < 33 ∨ 48 < t.toNat) := by
  have : ∀ x : Fin 256, knownType (UInt8.ofNat x.val) = false ↔ (x.val < 33 ∨ 48 < x.val) := by decide +kernel
  have h := this ⟨t.toNat, t.toNat_lt⟩
  simpa using h

/-! non-vacuity: an unknown payload in front, one in the middle (with reserved bits), a critical flag on a known payload -/
def c13Sample : List Item :=
  [.unknown 200 0x00 [1, 2, 3], .known (.nonce [7, 7]) 0x80, .unknown 5 0x7f [], .known (.ke 2 [9]) 0x00]

example : (encodeItems c13Sample).isOk = true := by decide +kernel
example : anyCriticalUnknown c13Sample = false := by decide
example : knownPayloads c13Sample = [.nonce [7, 7], .ke 2 [9]] := by decide
example : anyCriticalUnknown (.unknown 200 0x80 [] :: c13Sample) = true := by decide

end Ike
