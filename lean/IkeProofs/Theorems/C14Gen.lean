import IkeProofs.RefineEap.Glue
import IkeProofs.Theorems.C14

/-! # C14 over the code as translated from the current source (`tools/go2lean`, package `eap`) -/

namespace Ike
open Ike.RefineEap Ike.Gen.eap

theorem domEap_sorted (e : Eap) (hd : DomEap e) : EapSorted e := by
  unfold EapSorted
  cases hdata : e.data <;> simp only []
  case aka a =>
    have h := hd.2.1
    rw [hdata] at h
    exact h.2.1

/-- the generated `EAP.Unmarshal` / `EAP.Marshal` / `SetAttr` / `GetAttr` are the model's, on every input -/
theorem C14_gen_codec_is_model :
    (∀ b : Bytes, (EAP.Unmarshal {} b).map GenAbs.absEap = unmarshalEap b) ∧
    (∀ e : Gen.eap.EAP, EapWF e → EAP.Marshal e = marshalEap (GenAbs.absEap e)) ∧
    (∀ (g : Gen.eap.EapAkaPrime), GenAbs.AkaWF g → ∀ (t : UInt8) (v : Bytes),
        (EapAkaPrime.SetAttr g t v).map GenAbs.absAka = akaSetAttr (GenAbs.absAka g) t v) ∧
    (∀ (g : Gen.eap.EapAkaPrime), GenAbs.AkaWF g → ∀ (t : UInt8),
        (EapAkaPrime.GetAttr g t).map (fun a => a.value) = akaGetAttr (GenAbs.absAka g) t) :=
  ⟨Gen_EAP_Unmarshal, Gen_EAP_Marshal, SetAttr_refines, GetAttr_refines⟩

/-- round trip through the generated encoder and decoder, for every packet of the domain -/
theorem C14_gen_roundtrip (e : Eap) (bs : Bytes) (hd : DomEap e) (h : EAP.Marshal (GenAbs.repEap e) = .ok bs) :
    (EAP.Unmarshal {} bs).map GenAbs.absEap = .ok e := by
  rw [Gen_EAP_Marshal_rep e (domEap_sorted e hd)] at h
  rw [Gen_EAP_Unmarshal]
  exact C14_roundtrip e bs hd h

/-- every packet of the domain is encoded by the generated encoder -/
theorem C14_gen_encodable (e : Eap) (hd : DomEap e) : ∃ bs, EAP.Marshal (GenAbs.repEap e) = .ok bs := by
  obtain ⟨bs, h⟩ := C14_encodable e hd
  exact ⟨bs, by rw [Gen_EAP_Marshal_rep e (domEap_sorted e hd)]; exact h⟩

/-- the attribute-map invariant is preserved by everything the API offers -/
theorem C14_gen_map_invariant :
    (∀ st g, NewEapAkaPrime st = .ok g → GenAbs.AkaWF g) ∧
    (∀ g, GenAbs.AkaWF g → ∀ t v g', EapAkaPrime.SetAttr g t v = .ok g' → GenAbs.AkaWF g') ∧
    (∀ raw g, EapAkaPrime.Unmarshal {} raw = .ok g → GenAbs.AkaWF g) :=
  ⟨NewEapAkaPrime_wf, SetAttr_wf, EapAkaPrime_Unmarshal_wf⟩

end Ike
