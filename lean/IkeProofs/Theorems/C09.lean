import IkeProofs.Lemmas.Dh

/-!
# C09 — MODP groups 2 / 14

* the registered primes are the RFC 2409 / RFC 3526 primes, the generators are
  2, the output lengths are 128 / 256 octets (`C09_primes`);
* `big.Int.Exp` as modelled (square-and-multiply) is the modular power
  (`C09_modPow`);
* public value = `2^x mod p`, shared secret = `y^x mod p`, each as a string of
  exactly the modulus length, leading zeros preserved, never a fault
  (`C09_pub`, `C09_shared`, `C09_leading_zeros`), for every exponent `x : Nat`
  and every peer value `y : Nat` — no bound on either;
* two parties obtain the same shared secret from each other's public values
  (`C09_agree`);
* the exponent-drawing loop returns the first draw above `2^128 - 1`, hence
  `2^128 ≤ r < 2^2048 - 1`, a failing `rand.Int` gives an error and no number,
  the result is a function of the draws of this call only (`C09_random_*`).
  `rand.Int` itself is trusted (standard library; contract `v < max`).

"Differ from call to call" is a statement about the system random source; what
the code contributes to it — the exponent IS the accepted draw, nothing is
cached or reused between calls — is `C09_random_first` + `C09_random_local`.
-/

namespace Ike

/-- a group descriptor whose prime is positive and fits its octet length; both
registered groups satisfy it (`C09_groups_wf`) -/
def DhGroup.WF (g : DhGroup) : Prop := 0 < g.prime ∧ g.prime ≤ 256 ^ g.len

instance (g : DhGroup) : Decidable g.WF := by unfold DhGroup.WF; infer_instance

/-- C09, constants: the primes parsed by the implementation at `init` are the
RFC 2409 §6.2 and RFC 3526 §3 primes (Spec literals computed from the RFC
formulas), both generators are 2, the output lengths are 128 and 256 octets —
and these are exactly the octet lengths of the primes. -/
theorem C09_primes :
    Facts.group2Prime = Spec.rfc2409Group2 ∧ Facts.group14Prime = Spec.rfc3526Group14 ∧
    Facts.group2Generator = 2 ∧ Facts.group14Generator = 2 ∧
    Facts.group2Len = 128 ∧ Facts.group14Len = 256 ∧
    256 ^ 127 ≤ Facts.group2Prime ∧ Facts.group2Prime < 256 ^ 128 ∧
    256 ^ 255 ≤ Facts.group14Prime ∧ Facts.group14Prime < 256 ^ 256 := by
  decide

/-- the RFC formulas themselves: p = 2^1024 − 2^960 − 1 + 2^64·(⌊2^894 π⌋ + 129093) and
p = 2^2048 − 2^1984 − 1 + 2^64·(⌊2^1918 π⌋ + 124476): both primes have the
64 high and 64 low bits set, and the two π terms are consistent
(⌊2^894 π⌋ is ⌊2^1918 π⌋ shifted right by 1024 bits, and starts ⌊2^10 π⌋ = 3216). -/
theorem C09_primes_formula :
    Facts.group2Prime = 2 ^ 1024 - 2 ^ 960 - 1 + 2 ^ 64 * (Spec.piTermOf Facts.group2Prime 1024 129093 + 129093) ∧
    Facts.group14Prime = 2 ^ 2048 - 2 ^ 1984 - 1 + 2 ^ 64 * (Spec.piTermOf Facts.group14Prime 2048 124476 + 124476) ∧
    Spec.piTermOf Facts.group14Prime 2048 124476 / 2 ^ 1024 = Spec.piTermOf Facts.group2Prime 1024 129093 ∧
    Spec.piTermOf Facts.group2Prime 1024 129093 / 2 ^ 884 = 3216 := by
  decide +kernel

theorem C09_groups_wf : dhGroup2.WF ∧ dhGroup14.WF := by decide

/-- C09, arithmetic: the modelled `big.Int.Exp` (right-to-left
square-and-multiply, what the driver executes) equals the modular power for
every base, exponent and modulus.  (No side condition is needed: for `m = 0`
both sides are `b ^ e`.) -/
theorem C09_modPow (b e m : Nat) : modPow b e m = b ^ e % m := modPow_eq b e m

example : modPow 2 100 1000007 = 2 ^ 100 % 1000007 := C09_modPow _ _ _

/-- C09, fixed length and leading zeros: for every length `L` and every value
`n < 256^L`, `n.Bytes()` left-padded to `L` succeeds (no negative `make`), has
exactly `L` octets, decodes back to `n`, and is the `L`-octet fixed-width
big-endian encoding (so a value with small magnitude keeps its leading zero
octets). -/
theorem C09_leading_zeros (L n : Nat) (h : n < 256 ^ L) :
    ∃ bs, leftPad L (natBytesMin n) = .ok bs ∧ bs.length = L ∧ beNat bs = n ∧ bs = natToBytes L n := by
  refine ⟨natToBytes L n, leftPad_natBytesMin L n h, natToBytes_length L n, ?_, rfl⟩
  rw [beNat_natToBytes, Nat.mod_eq_of_lt h]

example : leftPad 4 (natBytesMin 258) = .ok [0, 0, 1, 2] := by decide

/-- the fixed-width encoder alone: length `L` and round trip, for every `n < 256^L` -/
theorem C09_leading_zeros_fixed (L n : Nat) (h : n < 256 ^ L) :
    (natToBytes L n).length = L ∧ beNat (natToBytes L n) = n := by
  rw [natToBytes_length, beNat_natToBytes, Nat.mod_eq_of_lt h]; exact ⟨rfl, rfl⟩

/-- general form of `C09_pub`/`C09_shared` for a well-formed group -/
theorem C09_dh_value (g : DhGroup) (hg : g.WF) (base x : Nat) :
    ∃ bs, leftPad g.len (natBytesMin (modPow base x g.prime)) = .ok bs ∧
      bs.length = g.len ∧ beNat bs = base ^ x % g.prime ∧ bs = Spec.dhValue g.prime g.len base x := by
  have hlt : modPow base x g.prime < 256 ^ g.len := by
    rw [modPow_eq]; exact Nat.lt_of_lt_of_le (Nat.mod_lt _ hg.1) hg.2
  obtain ⟨bs, h1, h2, h3, h4⟩ := C09_leading_zeros g.len _ hlt
  refine ⟨bs, h1, h2, ?_, ?_⟩
  · rw [h3, modPow_eq]
  · rw [h4, modPow_eq]; rfl

/-- C09, public value: for both groups and EVERY exponent `x` (0, 1, p−1, p,
anything larger — no bound), `GetPublicValue` does not fault and returns a
string of exactly the modulus length (128 / 256 octets) whose big-endian value
is `2^x mod p` with `p` the RFC prime; it is the RFC's value as a fixed-width
string (`Spec.dhValue`), so leading zero octets are preserved. -/
theorem C09_pub (x : Nat) :
    (∃ bs, dhPub dhGroup2 x = .ok bs ∧ bs.length = 128 ∧ beNat bs = 2 ^ x % Spec.rfc2409Group2 ∧
        bs = Spec.dhValue Spec.rfc2409Group2 128 2 x) ∧
    (∃ bs, dhPub dhGroup14 x = .ok bs ∧ bs.length = 256 ∧ beNat bs = 2 ^ x % Spec.rfc3526Group14 ∧
        bs = Spec.dhValue Spec.rfc3526Group14 256 2 x) := by
  have hp := C09_primes
  constructor
  · have := C09_dh_value dhGroup2 C09_groups_wf.1 dhGroup2.gen x
    rw [← hp.1]; exact this
  · have := C09_dh_value dhGroup14 C09_groups_wf.2 dhGroup14.gen x
    rw [← hp.2.1]; exact this

/-- C09, shared secret: for both groups, every exponent `x` and EVERY peer
value `y` (including 0, 1, p−1, p and values ≥ p — no bound), `GetSharedKey`
does not fault and returns exactly 128 / 256 octets whose value is
`y^x mod p`. -/
theorem C09_shared (x y : Nat) :
    (∃ bs, dhShared dhGroup2 x y = .ok bs ∧ bs.length = 128 ∧ beNat bs = y ^ x % Spec.rfc2409Group2 ∧
        bs = Spec.dhValue Spec.rfc2409Group2 128 y x) ∧
    (∃ bs, dhShared dhGroup14 x y = .ok bs ∧ bs.length = 256 ∧ beNat bs = y ^ x % Spec.rfc3526Group14 ∧
        bs = Spec.dhValue Spec.rfc3526Group14 256 y x) := by
  have hp := C09_primes
  constructor
  · have := C09_dh_value dhGroup2 C09_groups_wf.1 y x
    rw [← hp.1]; exact this
  · have := C09_dh_value dhGroup14 C09_groups_wf.2 y x
    rw [← hp.2.1]; exact this

/-- the same for any well-formed group descriptor (prime positive, fits `len` octets) -/
theorem C09_pub_shared_general (g : DhGroup) (hg : g.WF) (x y : Nat) :
    (∃ bs, dhPub g x = .ok bs ∧ bs.length = g.len ∧ beNat bs = g.gen ^ x % g.prime) ∧
    (∃ bs, dhShared g x y = .ok bs ∧ bs.length = g.len ∧ beNat bs = y ^ x % g.prime) := by
  obtain ⟨b1, h1, h2, h3, _⟩ := C09_dh_value g hg g.gen x
  obtain ⟨b2, k1, k2, k3, _⟩ := C09_dh_value g hg y x
  exact ⟨⟨b1, h1, h2, h3⟩, ⟨b2, k1, k2, k3⟩⟩

/-- the `Fixed` variants of the model (used by the key-derivation model) are the same strings -/
theorem C09_fixed_eq (g : DhGroup) (hg : g.WF) (x y : Nat) :
    dhPub g x = .ok (dhPubFixed g x) ∧ dhShared g x y = .ok (dhSharedFixed g x y) := by
  have hlt : ∀ b, modPow b x g.prime < 256 ^ g.len := fun b => by
    rw [modPow_eq]; exact Nat.lt_of_lt_of_le (Nat.mod_lt _ hg.1) hg.2
  exact ⟨leftPad_natBytesMin _ _ (hlt _), leftPad_natBytesMin _ _ (hlt _)⟩

/-- C09, agreement: in any well-formed group (in particular groups 2 and 14),
for all exponents `a`, `b`: both public values exist, and the shared secret
party A computes from B's public value (parsed back with `SetBytes` = `beNat`)
is octet-for-octet the one B computes from A's public value; its value is
`gen^(a·b) mod p`. -/
theorem C09_agree (g : DhGroup) (hg : g.WF) (a b : Nat) :
    ∃ pa pb s, dhPub g a = .ok pa ∧ dhPub g b = .ok pb ∧
      dhShared g a (beNat pb) = .ok s ∧ dhShared g b (beNat pa) = .ok s ∧
      s.length = g.len ∧ beNat s = g.gen ^ (a * b) % g.prime := by
  obtain ⟨pa, ha1, _, ha3, _⟩ := C09_dh_value g hg g.gen a
  obtain ⟨pb, hb1, _, hb3, _⟩ := C09_dh_value g hg g.gen b
  obtain ⟨s, hs1, hs2, hs3, hs4⟩ := C09_dh_value g hg (beNat pb) a
  obtain ⟨s', ht1, _, ht3, ht4⟩ := C09_dh_value g hg (beNat pa) b
  have hval : beNat pb ^ a % g.prime = beNat pa ^ b % g.prime := by
    rw [ha3, hb3, ← Nat.pow_mod, ← Nat.pow_mod, ← Nat.pow_mul, ← Nat.pow_mul, Nat.mul_comm]
  have hss : s = s' := by
    rw [hs4, ht4]; unfold Spec.dhValue; rw [hval]
  refine ⟨pa, pb, s, ha1, hb1, hs1, hss ▸ ht1, hs2, ?_⟩
  rw [hs3, hb3, ← Nat.pow_mod, ← Nat.pow_mul, Nat.mul_comm]

/-- agreement instantiated for the two registered groups -/
theorem C09_agree_groups (a b : Nat) :
    (∃ pa pb s, dhPub dhGroup2 a = .ok pa ∧ dhPub dhGroup2 b = .ok pb ∧
      dhShared dhGroup2 a (beNat pb) = .ok s ∧ dhShared dhGroup2 b (beNat pa) = .ok s ∧ s.length = 128) ∧
    (∃ pa pb s, dhPub dhGroup14 a = .ok pa ∧ dhPub dhGroup14 b = .ok pb ∧
      dhShared dhGroup14 a (beNat pb) = .ok s ∧ dhShared dhGroup14 b (beNat pa) = .ok s ∧ s.length = 256) := by
  obtain ⟨pa, pb, s, h1, h2, h3, h4, h5, _⟩ := C09_agree dhGroup2 C09_groups_wf.1 a b
  obtain ⟨qa, qb, t, k1, k2, k3, k4, k5, _⟩ := C09_agree dhGroup14 C09_groups_wf.2 a b
  exact ⟨⟨pa, pb, s, h1, h2, h3, h4, h5⟩, ⟨qa, qb, t, k1, k2, k3, k4, k5⟩⟩

/-- non-vacuity on a toy group (p = 23, g = 5, one octet): a = 6, b = 15 share 2 -/
example : (⟨23, 5, 1⟩ : DhGroup).WF ∧
    dhShared ⟨23, 5, 1⟩ 6 (beNat [19]) = .ok [2] ∧ dhShared ⟨23, 5, 1⟩ 15 (beNat [8]) = .ok [2] ∧
    dhPub ⟨23, 5, 1⟩ 6 = .ok [8] ∧ dhPub ⟨23, 5, 1⟩ 15 = .ok [19] := by
  simp only [dhShared, dhPub, modPow_eq]; decide

/-! ### random exponents (`security.GenerateRandomNumber`); `rand.Int` is trusted -/

/-- C09, exponent = first accepted draw: the loop returns `r` exactly when the
outcomes of its `rand.Int` calls are: some numbers all `≤ min` (each redrawn),
then `r > min` — i.e. `r` is the FIRST draw above the minimum; whatever
follows is not consumed. -/
theorem C09_random_first (ds : List (Option Nat)) (r : Nat) :
    genRandom randMin ds = some (.ok r) ↔
      ∃ (pre : List Nat) (post : List (Option Nat)),
        ds = pre.map some ++ some r :: post ∧ (∀ v ∈ pre, v ≤ randMin) ∧ randMin < r :=
  genRandom_ok_iff randMin ds r

/-- C09, exponent range: with `rand.Int`'s contract (every returned number is
`< max`; trusted, `hInt`), a returned exponent satisfies `min < r < max`, that
is `2^128 ≤ r < 2^2048 − 1` (in particular "between 2^128 and 2^2048"). -/
theorem C09_random_range (ds : List (Option Nat)) (r : Nat)
    (hInt : ∀ v, some v ∈ ds → v < randMax) (h : genRandom randMin ds = some (.ok r)) :
    2 ^ 128 ≤ r ∧ r < 2 ^ 2048 - 1 := by
  obtain ⟨pre, post, hds, _, hr⟩ := (genRandom_ok_iff randMin ds r).mp h
  have hmem : some r ∈ ds := by rw [hds]; simp
  have := hInt r hmem
  unfold randMin at hr
  unfold randMax at this
  have h128 : 0 < 2 ^ 128 := Nat.pow_pos (by omega)
  omega

/-- C09, failing source: the call returns an error (and no number) exactly when
a `rand.Int` call fails before any draw was accepted; it never faults. -/
theorem C09_random_fail (ds : List (Option Nat)) :
    (genRandom randMin ds = some .err ↔
      ∃ (pre : List Nat) (post : List (Option Nat)),
        ds = pre.map some ++ none :: post ∧ (∀ v ∈ pre, v ≤ randMin)) ∧
    genRandom randMin ds ≠ some .fault :=
  ⟨genRandom_err_iff randMin ds, genRandom_ne_fault randMin ds⟩

/-- C09, no retained state: `genRandom` is a function of the outcomes of THIS
call's `rand.Int` calls only (it has no other argument), and only of the
prefix it consumed: appending anything after the decisive draw changes
nothing. -/
theorem C09_random_local (ds extra : List (Option Nat)) (x : Res Nat)
    (h : genRandom randMin ds = some x) : genRandom randMin (ds ++ extra) = some x :=
  genRandom_prefix randMin ds extra x h

/-- the loop can run on: only small draws so far -/
theorem C09_random_pending (pre : List Nat) (h : ∀ v ∈ pre, v ≤ randMin) :
    genRandom randMin (pre.map some) = none := by
  induction pre with
  | nil => rfl
  | cons p ps ih =>
    have hp : ¬ p > randMin := by have := h p (by simp); omega
    simp only [List.map_cons, genRandom]
    rw [if_neg hp]
    exact ih (fun v hv => h v (by simp [hv]))

example : genRandom randMin [some 5, some (2 ^ 128 - 1), some (2 ^ 128), some 7] = some (.ok (2 ^ 128)) := by decide
example : genRandom randMin [some 5, none, some (2 ^ 128)] = some .err := by decide

end Ike
