import IkeProofs.Lemmas.Steps

/-!
# C04 — "after work bounded by the input length … never loops forever"

`C04.lean` settles *value or error, never a fault*; totality of the model gives
termination.  This file settles the quantitative half of the clause: for every
loop of every decoding entry point, an explicit closed-form bound on the number
of loop-body executions in terms of the length of the octet string the loop
works on — for **all** inputs, without hypothesis.

The counters (`IkeProofs/Lemmas/Steps.lean`) have the same recursion structure
and the same guards as the decoders.  They count loop bodies that are *started*:
the iteration that ends in `return err` is counted too.  That is why the bounds
read `⌈len / k⌉ = (len + k - 1) / k` rather than `len / k`: a loop over 1..k-1
left-over octets enters its body once more and fails there.  Whenever the decoder
succeeds there is no such iteration and the bound is `len / k` (stated with each
tie below).  The divisor `k` is the least number of octets a *completed*
iteration consumes: 4 (generic payload header; CP attribute header; AKA'
attribute: type, length and at least 2 more octets), 8 (proposal and transform
headers), 16 (a traffic selector is 16 or 40 octets; a CBC block), 4 (one SPI).

Two loops are driven by a count field instead of the remaining length
(traffic selectors: 8-bit count; Delete: 16-bit count).  The selector loop
re-checks the remaining length in every iteration, Delete checks
`4 + spiSize·count ≤ len` before its loop, so both are bounded by the length as
well as by the count.

How the bounds compose (`C04_steps_decodeMsg`, `C04_steps_unprotect`): an
iteration of the chain loop on a payload of declared length `pl ≥ 4` costs
`1 + payloadIters t body` with `|body| = pl - 4`, and
`payloadIters t body ≤ ⌈|body| / 4⌉` (`C04_steps_payload_body`), so the iteration
costs at most `pl / 2` and consumes `pl` octets; summing over the chain gives
`chainWork t b ≤ ⌈len / 2⌉`.
-/

namespace Ike

/-! ### the loops one by one -/

/-- **Payload chain** (`IKEPayloadContainer.Decode`, `for len(b) > 0`): for every first type
and every octet string, at most `⌈len/4⌉` iterations are started.  When decoding succeeds every
returned payload was produced by one iteration and the count is at most `len/4`. -/
theorem C04_steps_chain (t : UInt8) (b : Bytes) :
    chainIters t b ≤ (b.length + 3) / 4 ∧
    ∀ ps, decodeChain t b = .ok ps → ps.length ≤ chainIters t b ∧ chainIters t b ≤ b.length / 4 := by
  have h := chainIters_le t b
  refine ⟨by omega, fun ps hps => ?_⟩
  have := chainIters_tie t b ps hps
  omega

/-- **Security Association** (`SecurityAssociation.Unmarshal`): the proposal loop starts at most
`⌈len/8⌉` iterations on any input, the transform loop at most `⌈len/8⌉` on any transform data, and
both levels together (`saWork`: proposal iterations plus the iterations of every nested transform
loop) at most `⌈len/4⌉`.  On success the proposal loop ran exactly once per proposal, and `saWork`
accounts for every proposal and every transform of the result. -/
theorem C04_steps_sa (b : Bytes) :
    propIters b ≤ (b.length + 7) / 8 ∧ transIters b ≤ (b.length + 7) / 8 ∧ saWork b ≤ (b.length + 3) / 4 ∧
    (∀ ps, unmarshalProposals b = .ok ps →
      propIters b = ps.length ∧ ps.length + (ps.map (fun p => p.transforms.length)).sum ≤ saWork b) ∧
    (∀ p q, unmarshalTransforms b p = .ok q → q.transforms.length ≤ p.transforms.length + transIters b) := by
  have h1 := propIters_le b
  have h2 := transIters_le b
  have h3 := saWork_le b
  exact ⟨by omega, by omega, by omega, fun ps h => ⟨propIters_tie b ps h, saWork_tie b ps h⟩,
    fun p q h => transIters_tie b p q h⟩

/-- **Configuration** (`Configuration.Unmarshal`, `for len(configurationAttributeData) > 0`):
at most `⌈len/4⌉` iterations on any attribute data, fewer than `len/4` on any payload body;
on success exactly one per attribute. -/
theorem C04_steps_cp (d : Bytes) :
    cpIters d ≤ (d.length + 3) / 4 ∧ cpBodyIters d ≤ d.length / 4 ∧
    ∀ l, unmarshalCPAttrs d = .ok l → cpIters d = l.length := by
  have h1 := cpIters_le d
  have h2 := cpBodyIters_le d
  exact ⟨by omega, by omega, fun l h => cpIters_tie d l h⟩

/-- **Traffic selectors** (`for ; numberOfSPI > 0; numberOfSPI--`): for every count `n` and every
octet string at most `min n (len/16 + 1)` iterations (with a positive count the body is entered
once even when nothing is left, and fails); for a payload body at most `⌈(len-4)/16⌉ + 1 ≤ 255`;
on success exactly one per selector. -/
theorem C04_steps_ts (n : Nat) (b : Bytes) :
    tsIters n b ≤ n ∧ tsIters n b ≤ b.length / 16 + 1 ∧
    tsBodyIters b ≤ (b.length + 12) / 16 ∧ tsBodyIters b ≤ 255 ∧
    ∀ l, unmarshalTSels n b = .ok l → tsIters n b = l.length := by
  have h1 := tsIters_le n b
  have h2 := tsBodyIters_le b
  exact ⟨tsIters_le_n n b, by omega, by omega, h2.2, fun l h => tsIters_tie n b l h⟩

/-- **Delete** (`for i := 0; i < 4*int(numberOfSPI); i += 4`): the SPI loop runs at most `n`
times for count `n`; inside `Delete.Unmarshal` — whose guards `4 + spiSize·n ≤ len` and
`spiSize = 4` precede the loop — at most `(len-4)/4` times; on success exactly one per SPI. -/
theorem C04_steps_delete (n : Nat) (b : Bytes) :
    deleteIters n b ≤ n ∧ deleteIters n b ≤ b.length / 4 + 1 ∧ deleteBodyIters b ≤ (b.length - 4) / 4 ∧
    ∀ l, deleteSPIs n b = .ok l → deleteIters n b = l.length := by
  have h1 := deleteIters_le n b
  have h2 := deleteBodyIters_le b
  exact ⟨deleteIters_le_n n b, by omega, by omega, fun l h => deleteIters_tie n b l h⟩

/-- **EAP-AKA'** (`EapAkaPrime.Unmarshal`, `for { ReadByte … }`): the loop leaves when fewer than
2 octets remain and every completed iteration consumes at least 4, so at most `(len+2)/4`
iterations on any attribute data; inside an EAP packet of `len` octets at most `(len-6)/4`.
On success every attribute of the map was stored by one iteration. -/
theorem C04_steps_aka (r : Bytes) :
    akaIters r ≤ (r.length + 2) / 4 ∧ akaBodyIters r ≤ r.length / 4 ∧ eapBodyIters r ≤ r.length / 4 ∧
    ∀ acc l, unmarshalAkaAttrs r acc = .ok l → l.length ≤ acc.length + akaIters r := by
  have h1 := akaIters_le r
  have h2 := akaBodyIters_le r
  have h3 := eapBodyIters_le r
  exact ⟨by omega, by omega, by omega, fun acc l h => akaIters_tie r acc l h⟩

/-- **CBC** (`CryptBlocks` under `EncrAesCbcCrypto.Decrypt`): exactly `len/16` block iterations
on any ciphertext; `Decrypt` itself runs them on the part after the IV, so at most `(len-16)/16`.
For any block function with 16-octet output each iteration emits one block. -/
theorem C04_steps_cbc (ct : Bytes) :
    cbcBlocks ct = ct.length / 16 ∧ cbcDecryptBlocks ct ≤ (ct.length - 16) / 16 ∧
    ∀ (P : Prims), P.Lawful → ∀ (key iv : Bytes), iv.length = 16 →
      (cbcDec (P.dec key) iv ct).length = 16 * cbcBlocks ct := by
  have h := cbcDecryptBlocks_le ct
  exact ⟨cbcBlocks_eq ct, by omega, fun P hP key iv hiv => cbcBlocks_tie _ (hP.dec_len key) iv ct hiv⟩

/-! ### nested loops and whole entry points -/

/-- **Each payload body**: all loop iterations inside `unmarshalPayload t nx body`, nested ones
included, for every type code and every body: at most `⌈len/4⌉` (zero for the eleven payload
kinds without a loop).  `payloadIters_dispatch` shows the counter dispatches as the decoder does. -/
theorem C04_steps_payload_body (t : UInt8) (body : Bytes) :
    payloadIters t body ≤ (body.length + 3) / 4 := by
  have := payloadIters_le t body
  omega

/-- **Payload chain with everything nested** (`chainWork` = chain iterations + the iterations of
every loop run inside every payload body): at most `⌈len/2⌉` for every first type and every input;
and it dominates the chain loop alone. -/
theorem C04_steps_decodeChain (t : UInt8) (b : Bytes) :
    chainWork t b ≤ (b.length + 1) / 2 ∧ chainIters t b ≤ chainWork t b := by
  have := chainWork_le t b
  exact ⟨by omega, chainIters_le_chainWork t b⟩

/-- **Whole message** (`IKEMessage.Decode`): the total number of loop iterations performed by
`decodeMsg b` — chain loop plus all loops nested in payload bodies; `ParseHeader` has none — is at
most `(len - 27)/2 ≤ len/2`, for every octet string.  So the constant is `c = 1/2`. -/
theorem C04_steps_decodeMsg (b : Bytes) : msgWork b ≤ (b.length - 27) / 2 ∧ 2 * msgWork b ≤ b.length := by
  have := msgWork_le b
  exact ⟨by omega, by omega⟩

/-- **Unprotection** (`DecodeDecrypt`), any primitives, any key set or none, either role, header
supplied or not: the total number of loop iterations — decoding the datagram (`msgWork` /
`chainWork`), the scan for the Encrypted payload, the CBC blocks, and decoding the decrypted
chain with everything nested — is at most `21/16 · len ≤ 2 · len`.  No hypothesis on `P`: the
count of *loop iterations* does not depend on the primitives being lawful (the work inside one
call of a primitive is not counted, see the header of `Lemmas/Steps.lean`). -/
theorem C04_steps_unprotect (P : Prims) (sa : Option SAKey) (role : Bool) (hdr : Option Header) (msg : Bytes) :
    16 * unprotectWork P sa role hdr msg ≤ 21 * msg.length ∧ unprotectWork P sa role hdr msg ≤ 2 * msg.length := by
  have := unprotectWork_le P sa role hdr msg
  exact ⟨this, by omega⟩

/-- the pieces of `unprotectWork` are tied to `unprotect`: its first phase decodes exactly the
message `unprotect` decodes, and when `decryptMsg` succeeds every payload it returns was produced
by a counted iteration -/
theorem C04_steps_unprotect_tied (P : Prims) (k : SAKey) (role : Bool) (hdr : Option Header) (msg : Bytes) :
    (unprotectPhase1 hdr msg).1 =
      (match hdr with
       | none => decodeMsg msg
       | some h => do
         let body ← goFrom msg Facts.ikeHeaderLen
         let ps ← decodeChain h.next body
         .ok ⟨h, ps⟩) ∧
    ∀ m m', (decryptMsg P k role msg m).2.2 = .ok m' → m'.payloads.length ≤ decryptWork P k role msg m :=
  ⟨unprotectDecoded_fst hdr msg, fun m m' h => decryptWork_tie P k role msg m m' h⟩

/-- the per-body counters (guards in front of a loop, then the loop) are tied to the body
decoders: when Configuration / Traffic Selector / Delete bodies decode, the counter equals the
number of attributes / selectors / SPIs returned -/
theorem C04_steps_bodies_tied (b : Bytes) :
    (∀ ct attrs, unmarshalCP b = .ok (.cp ct attrs) → cpBodyIters b = attrs.length) ∧
    (∀ l, unmarshalTS .tsi b = .ok (.tsi l) → tsBodyIters b = l.length) ∧
    (∀ proto spiSize num spis, unmarshalDelete b = .ok (.delete proto spiSize num spis) →
      deleteBodyIters b = spis.length) :=
  ⟨fun ct attrs h => cpBodyIters_tie b ct attrs h, fun l h => tsBodyIters_tie b l h,
   fun proto spiSize num spis h => deleteBodyIters_tie b proto spiSize num spis h⟩

/-! ### non-vacuity: the counters on concrete inputs -/

/-- IKE_SA_INIT-like datagram of 68 octets: header, an SA payload (one proposal of 28 octets
with two transforms of 12 and 8 octets), a Nonce payload of 8 octets. -/
def C04_steps_sample : Bytes :=
  [1, 2, 3, 4, 5, 6, 7, 8,  0, 0, 0, 0, 0, 0, 0, 0,  33, 0x20, 34, 0x08,  0, 0, 0, 0,  0, 0, 0, 68,
   40, 0, 0, 32,
     0, 0, 0, 28, 1, 1, 0, 2,
       3, 0, 0, 12, 1, 0, 0, 12, 0x80, 14, 0, 128,
       0, 0, 0, 8, 2, 0, 0, 5,
   0, 0, 0, 8, 1, 2, 3, 4]

/-- it decodes, to two payloads, the first an SA with one proposal carrying two transforms -/
example : (decodeMsg C04_steps_sample).map (fun m => m.payloads.map Payload.typeCode) = .ok [33, 40] := by
  decide +kernel

example : (decodeMsg C04_steps_sample).map (fun m => m.payloads.head?) =
    .ok (some (.sa [⟨1, 1, [], [⟨1, 12, true, 1, 14, 128, []⟩], [⟨2, 5, false, 0, 0, 0, []⟩], [], [], []⟩])) := by
  decide +kernel

/-- 2 chain iterations, 1 proposal iteration, 2 transform iterations: 5 in all, bound 20 -/
example : chainIters 33 (C04_steps_sample.drop 28) = 2 ∧ propIters ((C04_steps_sample.drop 32).take 28) = 1 ∧
    transIters ((C04_steps_sample.drop 40).take 20) = 2 ∧ saWork ((C04_steps_sample.drop 32).take 28) = 3 ∧
    chainWork 33 (C04_steps_sample.drop 28) = 5 ∧ msgWork C04_steps_sample = 5 ∧
    (C04_steps_sample.length - 27) / 2 = 20 := by
  decide +kernel

/-- the chain bound is attained: three minimal payloads (header only) in 12 octets … -/
example : chainIters 40 [40, 0, 0, 4, 40, 0, 0, 4, 0, 0, 0, 4] = 3 ∧
    decodeChain 40 [40, 0, 0, 4, 40, 0, 0, 4, 0, 0, 0, 4] = .ok [.nonce [], .nonce [], .nonce []] := by
  decide +kernel

/-- … and the rounding is needed: 13 octets start a fourth iteration, which fails -/
example : chainIters 40 [40, 0, 0, 4, 40, 0, 0, 4, 40, 0, 0, 4, 9] = 4 ∧
    decodeChain 40 [40, 0, 0, 4, 40, 0, 0, 4, 40, 0, 0, 4, 9] = .err := by
  decide +kernel

/-- the bounds for transforms (`len/8`), CP attributes (`len/4`) and AKA' attributes (`len/4`) are
attained; the two-level SA total stays below its bound `⌈len/4⌉` (2 of 4, 3 of 5) because a proposal
that carries a transform loop also carries 8 octets of its own header -/
example : transIters [3, 0, 0, 8, 1, 0, 0, 12, 0, 0, 0, 8, 2, 0, 0, 5] = 2 ∧
    saWork [0, 0, 0, 16, 1, 1, 0, 1, 0, 0, 0, 8, 2, 0, 0, 5] = 2 ∧
    saWork [0, 0, 0, 17, 1, 1, 0, 1, 0, 0, 0, 8, 2, 0, 0, 5, 9] = 3 ∧
    cpIters [0, 1, 0, 0, 0, 2, 0, 0] = 2 ∧
    akaIters [24, 1, 0, 1, 24, 1, 0, 1] = 2 := by
  decide +kernel

/-- count-driven loops: the count says 3, the octets allow one selector / two SPIs' worth of checking -/
example : tsBodyIters ([3, 0, 0, 0] ++ [7, 0, 0, 16, 0, 0, 0xff, 0xff, 10, 0, 0, 1, 10, 0, 0, 2]) = 2 ∧
    deleteBodyIters [3, 4, 0, 2, 0, 0, 0, 1, 0, 0, 0, 2] = 2 ∧
    deleteBodyIters [3, 4, 0xff, 0xff, 0, 0, 0, 1, 0, 0, 0, 2] = 0 := by
  decide +kernel

/-- unprotection of the sample without keys: the 5 iterations of decoding, nothing else; with a
supplied header whose NextPayload is 0 the SA payload is skipped as unknown: 2 iterations -/
example : unprotectWork Prims.real none true none C04_steps_sample = 5 ∧
    unprotectWork Prims.real none true (some default) C04_steps_sample = 2 := by decide +kernel

/-- CBC: two blocks after the IV -/
example : cbcDecryptBlocks (zeros 48) = 2 ∧ cbcBlocks (zeros 47) = 2 := by decide +kernel

end Ike
