import IkeProofs.Theorems.C20Appends

namespace Ike

/-- **C10, memory level**: neither `Encrypt` nor `Decrypt` nor `NewCrypto` writes into the plaintext, ciphertext
or key slice it is given (regenerated fact, see `C20_parameters_read_only`; the one documented append behind
the plaintext is `c20DocumentedAppends`): decrypting the same ciphertext buffer twice decrypts the same octets. -/
theorem C10_arguments_not_written :
    ∀ w ∈ Footprint.paramWrites, w.1 ≠ "security/encr.EncrAesCbcCrypto.Decrypt" ∧
      w.1 ≠ "security/encr.EncrAesCbcCrypto.Encrypt" ∧ w.1 ≠ "security/encr.EncrAesCbc.NewCrypto" := by decide

end Ike
