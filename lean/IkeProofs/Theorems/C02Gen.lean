import IkeProofs.RefineSa.Transfer
import IkeProofs.Theorems.C02

/-! # C02 over the code as translated from the current source (`ike.go`: `DecodeDecrypt`, `decryptMsg`,
`verifyIntegrity`, `calculateIntegrity`, `decryptPayload`; `tools/go2lean`)

`Gen.ike.DecodeDecrypt` is what the translator writes from /repo's `ike.go` on every run; the SA object is a
`Gen.security.IKESAKey` (descriptors = interface values of the translated registries, `hash.Hash` = `Go.Mac`,
cipher object = `Gen.encr.EncrAesCbcCrypto`).  `SaWF k`: descriptors and objects non-nil (what
`GenerateKeyForIKESA` leaves, `GenerateKeyForIKESA_wf`); `IntegRegistered`: the integrity descriptor is one the
translated `integ.init()` registers. -/

namespace Ike
open Ike.RefineSa Ike.GenAbsSa

/-- The translated `DecodeDecrypt` IS the model's `unprotect`, on every byte string, both roles, with and
without a caller-supplied header. -/
theorem C02_gen_unprotect_is_model (P : Prims) (hP : P.Lawful) (k : Gen.security.IKESAKey) (hk : SaWF k)
    (hi : IntegRegistered k.IntegInfo) (role : Bool) (h : Option Header) (bs : Bytes) :
    (Gen.ike.DecodeDecrypt P bs (h.map GenAbs.repHeader) (some k) role).map
        (fun x => (absSa x.1, GenAbs.absMsg x.2)) =
      (match unprotect P (some (absSa k)) role h bs with
       | (some sa', _, .ok m) => .ok (sa', some m)
       | (none, _, .ok m) => .ok (absSa k, some m)
       | (_, _, .err) => .err
       | (_, _, .fault) => .fault) :=
  Dec.DecodeDecrypt_refines P hP k hk (Dec.IntegOk_of_registered hi) role h bs

/-- Acceptance needs a valid checksum — stated over the generated code alone: whatever the translated
`DecodeDecrypt` returns without an error, either the decoded outer message does not start with an SK payload
(and is handed back as decoded, the SA untouched), or it consists of SK payloads only and the last one's
trailing `outLen` octets are the truncated MAC — under the key and hash of the integrity object of the PEER's
direction — of every octet of the datagram before its last `outLen`. -/
theorem C02_gen_accepts_only_valid (P : Prims) (hP : P.Lawful) (k : Gen.security.IKESAKey) (hk : SaWF k)
    (hi : IntegRegistered k.IntegInfo) (role : Bool) (h : Option Header) (bs : Bytes)
    (k' : Gen.security.IKESAKey) (gm' : Gen.message.IKEMessage)
    (hok : Gen.ike.DecodeDecrypt P bs (h.map GenAbs.repHeader) (some k) role = .ok (k', gm')) :
    ∃ gm, Dec.decodedG bs (h.map GenAbs.repHeader) = .ok gm ∧
      ((Dec.NoSKFirst gm ∧ k' = k ∧ gm' = gm) ∨
       (∃ e, (∀ g ∈ gm.Payloads, ∃ v, g = .Encrypted v) ∧ gm.Payloads.getLast? = some (.Encrypted e) ∧
          Dec.ValidChecksum P k role bs e.EncryptedData)) :=
  Dec.DecodeDecrypt_accepts_only_valid P hP k hk (Dec.IntegOk_of_registered hi) role h bs k' gm' hok

/-- `C02_accept_inv` over the translated code -/
theorem C02_gen_accept_inv (P : Prims) (hP : P.Lawful) (k : Gen.security.IKESAKey) (hk : SaWF k)
    (hi : IntegRegistered k.IntegInfo) (hw : (absSa k).WF P) (role : Bool)
    (hdr : Option Header) (bs : Bytes) (d : Msg)
    (hd : unprotectDecoded hdr bs = .ok d) (hsk : d.firstIsSK = true)
    (k' : Gen.security.IKESAKey) (gm' : Gen.message.IKEMessage)
    (hok : Gen.ike.DecodeDecrypt P bs (hdr.map GenAbs.repHeader) (some k) role = .ok (k', gm')) :
    ∃ next encData, lastSK d.payloads none = .ok (some (next, encData)) ∧
      (absSa k).integInfo.outLen ≤ encData.length ∧ (absSa k).integInfo.outLen ≤ bs.length ∧
      (P.mac ((absSa k).integObj (!role)).alg ((absSa k).integObj (!role)).key
          (bs.take (bs.length - (absSa k).integInfo.outLen))).take (absSa k).integInfo.outLen
        = encData.drop (encData.length - (absSa k).integInfo.outLen) := by
  obtain ⟨o, n, m, hu, _⟩ := gen_unprotect_ok P hP k hk hi role hdr bs k' gm' hok
  obtain ⟨next, encData, h1, h2, h3, h4, _⟩ := C02_accept_inv P hP (absSa k) hw role hdr bs d hd hsk o n m hu
  exact ⟨next, encData, h1, h2, h3, h4⟩

/-- `C02_reject_of_bad_mac` over the translated code: if the truncated MAC (peer-direction key) of the octets
before the last `outLen` differs from the SK body's last `outLen` octets, the translated `DecodeDecrypt` returns no
message — for every such byte string (every alteration: flipped bit, cut, extension, splice, other key, reflection) -/
theorem C02_gen_reject_of_bad_mac (P : Prims) (hP : P.Lawful) (k : Gen.security.IKESAKey) (hk : SaWF k)
    (hi : IntegRegistered k.IntegInfo) (hw : (absSa k).WF P) (role : Bool)
    (hdr : Option Header) (bs : Bytes) (d : Msg)
    (hd : unprotectDecoded hdr bs = .ok d) (hsk : d.firstIsSK = true)
    (hbad : ∀ next encData, lastSK d.payloads none = .ok (some (next, encData)) →
      (absSa k).integInfo.outLen ≤ encData.length →
      (P.mac ((absSa k).integObj (!role)).alg ((absSa k).integObj (!role)).key
          (bs.take (bs.length - (absSa k).integInfo.outLen))).take (absSa k).integInfo.outLen
        ≠ encData.drop (encData.length - (absSa k).integInfo.outLen)) :
    ∀ x, Gen.ike.DecodeDecrypt P bs (hdr.map GenAbs.repHeader) (some k) role ≠ .ok x :=
  gen_unprotect_not_ok P hP k hk hi role hdr bs
    (C02_reject_of_bad_mac P hP (absSa k) hw role hdr bs d hd hsk hbad).2

/-- without a key: the translated `DecodeDecrypt` is the model's `unprotect none` (an SK-first datagram is refused) -/
theorem C02_gen_nil_key (P : Prims) (role : Bool) (h : Option Header) (bs : Bytes) :
    (Gen.ike.DecodeDecrypt P bs (h.map GenAbs.repHeader) none role).map (fun x => GenAbs.absMsg x.2) =
      (match unprotect P none role h bs with
       | (_, _, .ok m) => .ok (some m)
       | (_, _, .err) => .err
       | (_, _, .fault) => .fault) :=
  Dec.DecodeDecrypt_nil_key P role h bs

/-- the hypotheses are met by the object the translated `GenerateKeyForIKESA` returns for registered descriptors -/
theorem C02_gen_hyps_from_keygen (P : Prims) (k : Gen.security.IKESAKey) (hk : SaRegistered k)
    (nonce secret : Bytes) (si sr : UInt64) (k' : Gen.security.IKESAKey)
    (h : Gen.security.IKESAKey.GenerateKeyForIKESA P (some k) nonce secret si sr = .ok k') :
    SaWF k' ∧ IntegRegistered k'.IntegInfo := by
  obtain ⟨hwf, _, hI, _, _⟩ := GenerateKeyForIKESA_wf P k hk nonce secret si sr k' h
  exact ⟨hwf, by unfold IntegRegistered; rw [hI]; exact hk.integ⟩

end Ike
