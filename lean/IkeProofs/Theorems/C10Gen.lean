import IkeProofs.RefineReg.Cbc
import IkeProofs.RefineReg.Registries
import IkeProofs.Theorems.C10

/-! # C10 over the code as translated from the current source (`security/encr/encr_aes_cbc.go`,
`security/lib.PKCS7Padding`, `tools/go2lean`)

`Gen.encr.EncrAesCbc.NewCrypto`, `Gen.encr.EncrAesCbcCrypto.Encrypt` / `.Decrypt` and `Gen.lib.PKCS7Padding` are
what the translator writes from the Go text on every run: `crypto/rand.Reader` is the implicit state `Rand`,
`aes.NewCipher` / `cipher.NewCBCEncrypter` / `CryptBlocks` are `Go.aesNewCipher` / `Go.newCbc` /
`Go.cryptBlocks` over the block functions of `P : Prims`.  The theorems below are the C10 statements with
those definitions in the place of the hand-written `newCrypto` / `cbcEncrypt` / `cbcDecrypt`; the objects are
the ones `NewCrypto` returns for the three registered descriptors (`keyLength` 16, 24, 32). -/

namespace Ike
open Ike.RefineReg

/-- the descriptors the translated `init()` registers are exactly the three AES key lengths -/
theorem C10_gen_descriptors :
    encrG.encrTypes = some [(nENCR_AES_CBC_128, .EncrAesCbc ⟨16⟩), (nENCR_AES_CBC_192, .EncrAesCbc ⟨24⟩),
      (nENCR_AES_CBC_256, .EncrAesCbc ⟨32⟩)] := encrG_encrTypes

/-- key size: `NewCrypto` of a registered descriptor refuses every key of another length and otherwise returns
an object with that key and no test IV / test padding -/
theorem C10_gen_keysize (d : Gen.encr.EncrAesCbc)
    (hk : d.keyLength = 16 ∨ d.keyLength = 24 ∨ d.keyLength = 32) (key : Bytes) :
    (Gen.encr.EncrAesCbc.NewCrypto d key = .err ↔ key.length ≠ d.keyLength.toNat) ∧
    (key.length = d.keyLength.toNat →
      Gen.encr.EncrAesCbc.NewCrypto d key = .ok { Block := key, Iv := [], Padding := [] }) ∧
    Gen.encr.EncrAesCbc.NewCrypto d key ≠ .fault := by
  rw [NewCrypto_eq d hk key]
  by_cases h : key.length ≠ d.keyLength.toNat
  · rw [if_pos h]; simp [h]
  · rw [if_neg h]; simp at h; simp [h]

/-- an encrypt result of the translated code is an encrypt result of the model -/
theorem C10_gen_encrypt_model (P : Prims) (hP : P.Lawful) (r r' : Rand) (c : Gen.encr.EncrAesCbcCrypto)
    (hi : c.Iv = []) (hp : c.Padding = []) (p ct : Bytes)
    (h : Gen.encr.EncrAesCbcCrypto.Encrypt P r c p = .ok (r', ct)) :
    cbcEncrypt P ⟨c.Block⟩ r p = (r', .ok ct) := by
  rw [Encrypt_refines P hP r c hi hp p] at h
  generalize cbcEncrypt P ⟨c.Block⟩ r p = x at h
  obtain ⟨r1, res⟩ := x
  cases res with
  | ok b => simp only [Res.ok.injEq, Prod.mk.injEq] at h; rw [h.1, h.2]
  | err => cases h
  | fault => cases h

/-- C10, inverse, over the translated code: whatever `Encrypt` returns, `Decrypt` on the same object gives
back exactly the plaintext — every key, plaintext and state of the random source -/
theorem C10_gen_inverse (P : Prims) (hP : P.Lawful) (r r' : Rand) (c : Gen.encr.EncrAesCbcCrypto)
    (hi : c.Iv = []) (hp : c.Padding = []) (p ct : Bytes)
    (h : Gen.encr.EncrAesCbcCrypto.Encrypt P r c p = .ok (r', ct)) :
    Gen.encr.EncrAesCbcCrypto.Decrypt P c ct = .ok p := by
  have hm := C10_gen_encrypt_model P hP r r' c hi hp p ct h
  rw [Decrypt_refines P hP c hi ct]
  exact C10_inverse P hP ⟨c.Block⟩ r p ct (by rw [hm])

/-- C10, inverse, as the property words it, over the translated code: a registered descriptor, a key of its
size, a random source that does not fail ⇒ `NewCrypto` and `Encrypt` succeed and `Decrypt` inverts -/
theorem C10_gen_inverse_newCrypto (P : Prims) (hP : P.Lawful) (d : Gen.encr.EncrAesCbc)
    (hk : d.keyLength = 16 ∨ d.keyLength = 24 ∨ d.keyLength = 32) (key : Bytes)
    (hkey : key.length = d.keyLength.toNat) (r : Rand) (hr : r.failAt = none) (p : Bytes) :
    ∃ c r' ct, Gen.encr.EncrAesCbc.NewCrypto d key = .ok c ∧
      Gen.encr.EncrAesCbcCrypto.Encrypt P r c p = .ok (r', ct) ∧
      Gen.encr.EncrAesCbcCrypto.Decrypt P c ct = .ok p := by
  obtain ⟨ct, hct⟩ := C10_encrypt_ok P ⟨key⟩ r p (by rw [hr]; simp) (by rw [hr]; simp)
  have hE : Gen.encr.EncrAesCbcCrypto.Encrypt P r { Block := key, Iv := [], Padding := [] } p
      = .ok ((cbcEncrypt P ⟨key⟩ r p).1, ct) := by
    rw [Encrypt_refines P hP r _ rfl rfl p]
    generalize cbcEncrypt P ⟨key⟩ r p = x at hct
    obtain ⟨r1, res⟩ := x
    simp only at hct
    rw [hct]
  refine ⟨{ Block := key, Iv := [], Padding := [] }, _, ct, (C10_gen_keysize d hk key).2.1 hkey, hE, ?_⟩
  exact C10_gen_inverse P hP r _ _ rfl rfl p ct hE

/-- C10, size law over the translated code -/
theorem C10_gen_size (P : Prims) (hP : P.Lawful) (r r' : Rand) (c : Gen.encr.EncrAesCbcCrypto)
    (hi : c.Iv = []) (hp : c.Padding = []) (p ct : Bytes)
    (h : Gen.encr.EncrAesCbcCrypto.Encrypt P r c p = .ok (r', ct)) :
    ∃ k, ct.length = 16 + 16 * k ∧ p.length < 16 * k ∧ 16 * k ≤ p.length + 16 ∧ 16 * k ≤ p.length + 256 :=
  C10_size P hP ⟨c.Block⟩ r p ct (by rw [C10_gen_encrypt_model P hP r r' c hi hp p ct h])

/-- C10, textbook CBC over the translated code -/
theorem C10_gen_textbook (P : Prims) (hP : P.Lawful) (r r' : Rand) (c : Gen.encr.EncrAesCbcCrypto)
    (hi : c.Iv = []) (hp : c.Padding = []) (p ct : Bytes)
    (h : Gen.encr.EncrAesCbcCrypto.Encrypt P r c p = .ok (r', ct)) :
    ∃ k pad, ct.length = 16 + 16 * k ∧ p.length < 16 * k ∧ pad.length = 16 * k - p.length - 1 ∧
      cbcDec (P.dec c.Block) (ct.take 16) (ct.drop 16) = p ++ pad ++ [UInt8.ofNat (16 * k - p.length - 1)] :=
  C10_textbook P hP ⟨c.Block⟩ r p ct (by rw [C10_gen_encrypt_model P hP r r' c hi hp p ct h])

/-- C10, fresh IV over the translated code: the first 16 octets of the ciphertext are the 16 octets of the
random stream at `[pos + padLen, pos + padLen + 16)`, read in THIS call; the source the call returns stands
at the end of that window, two reads later, otherwise unchanged -/
theorem C10_gen_fresh_iv (P : Prims) (hP : P.Lawful) (r r' : Rand) (c : Gen.encr.EncrAesCbcCrypto)
    (hi : c.Iv = []) (hp : c.Padding = []) (p ct : Bytes)
    (h : Gen.encr.EncrAesCbcCrypto.Encrypt P r c p = .ok (r', ct)) :
    ct.take 16 = cyc r.buf (r.pos + padLen p) 16 ∧ r'.pos = r.pos + padLen p + 16 ∧
    r'.reads = r.reads + 2 ∧ r'.buf = r.buf ∧ r'.failAt = r.failAt := by
  have hm := C10_gen_encrypt_model P hP r r' c hi hp p ct h
  have hf := C10_fresh_iv P ⟨c.Block⟩ r p ct (by rw [hm])
  rw [hm] at hf
  exact ⟨hf.2.1, hf.2.2.1, hf.2.2.2.1, hf.2.2.2.2.1, hf.2.2.2.2.2⟩

/-- C10: the object `NewCrypto` returns keeps no IV and no padding, and `Encrypt` does not return an object:
the only state that passes from one call to the next is the random source (`Encrypt : Rand → … → Rand × …`) -/
theorem C10_gen_no_iv_state (d : Gen.encr.EncrAesCbc) (key : Bytes) (c : Gen.encr.EncrAesCbcCrypto)
    (h : Gen.encr.EncrAesCbc.NewCrypto d key = .ok c) : c.Iv = [] ∧ c.Padding = [] :=
  NewCrypto_fields d key c h

/-- C10, a failing random source: the translated `Encrypt` returns an error (never a ciphertext, never a
fault) exactly when one of the two reads of this call fails -/
theorem C10_gen_rand_fail (P : Prims) (hP : P.Lawful) (r : Rand) (c : Gen.encr.EncrAesCbcCrypto)
    (hi : c.Iv = []) (hp : c.Padding = []) (p : Bytes) :
    (Gen.encr.EncrAesCbcCrypto.Encrypt P r c p = .err ↔
      (r.failAt = some r.reads ∨ r.failAt = some (r.reads + 1))) ∧
    Gen.encr.EncrAesCbcCrypto.Encrypt P r c p ≠ .fault := by
  rw [Encrypt_refines P hP r c hi hp p]
  have hf := C10_rand_fail P ⟨c.Block⟩ r p
  generalize cbcEncrypt P ⟨c.Block⟩ r p = x at hf
  obtain ⟨r1, res⟩ := x
  cases res with
  | ok b => simp only [reduceCtorEq, false_iff, ne_eq, not_false_eq_true, and_true]; simpa using hf.1
  | err => simp only [true_iff, ne_eq, reduceCtorEq, not_false_eq_true, and_true]; simpa using hf.1
  | fault => exact absurd rfl hf.2

/-- C10 / C04: the translated `Decrypt` never faults, and refuses exactly the three stated cases -/
theorem C10_gen_decrypt (P : Prims) (hP : P.Lawful) (c : Gen.encr.EncrAesCbcCrypto) (hi : c.Iv = []) (ct : Bytes) :
    Gen.encr.EncrAesCbcCrypto.Decrypt P c ct ≠ .fault ∧
    (Gen.encr.EncrAesCbcCrypto.Decrypt P c ct = .err ↔
      ct.length < 32 ∨ (ct.length - 16) % 16 ≠ 0 ∨
        (lastPlainOctet P ⟨c.Block⟩ ct).toNat + 1 > ct.length - 16) := by
  rw [Decrypt_refines P hP c hi ct]
  exact ⟨C10_decrypt_no_fault P hP _ ct, (C10_decrypt_err_iff P hP _ ct).1⟩

/-- the translated padding: `PKCS7Padding(p, 16)` is the model's `pkcs7Pad` on every plaintext and every state
of the random source (no law of the primitives involved) -/
theorem C10_gen_padding (r : Rand) (p : Bytes) :
    Gen.lib.PKCS7Padding r p 16 =
      (match pkcs7Pad r p with | (r', .ok b) => .ok (r', b) | (_, .err) => .err | (_, .fault) => .fault) :=
  PKCS7Padding_refines r p

/-- non-vacuity: the hypotheses are met by a concrete lawful primitive record, descriptor, key and random source -/
example : ∃ c r' ct, Gen.encr.EncrAesCbc.NewCrypto ⟨16⟩ (zeros 16) = .ok c ∧
    Gen.encr.EncrAesCbcCrypto.Encrypt C10_toyPrims ⟨[1, 2, 3, 4, 5], 0, 0, none⟩ c [9, 8, 7] = .ok (r', ct) ∧
    Gen.encr.EncrAesCbcCrypto.Decrypt C10_toyPrims c ct = .ok [9, 8, 7] :=
  C10_gen_inverse_newCrypto C10_toyPrims C10_toyPrims_lawful ⟨16⟩ (Or.inl rfl) (zeros 16) (by decide)
    ⟨[1, 2, 3, 4, 5], 0, 0, none⟩ rfl [9, 8, 7]

end Ike
