import IkeProofs.Theorems.C12Canonical
import IkeProofs.Theorems.C05ParseFull

/-! # C12, third clause, "canonical datagram" defined without any library function

`C12_canonical_datagram` (`C12Canonical.lean`) calls a datagram canonical when the strict parser
`Spec.parse` accepts it; that parser reads EAP packets through the library model (its trusted
step).  Here canonical = accepted by `Spec.parseFull` (`IkeModel/Spec/ParseFull.lean`), whose import
closure contains no definition of the model of the library: RFC 7296 §3 for the IKE framing and
RFC 3748 / 4187 / 5448 for the EAP packet of an EAP payload, both written from the RFC figures. -/

namespace Ike

/-- **C12, canonical datagrams** (third clause), canonical judged by the fully independent strict
parser: every datagram `Spec.parseFull` accepts, with fields in the encodable domain, is decoded by
the library, and re-encoding the decoded message is byte-identical to the input. -/
theorem C12_canonical_datagram_full (bs : Bytes) (m : Msg) (hd : m.Dom) (hp : Spec.parseFull bs = some m) :
    ∃ m' h', decodeMsg bs = .ok m' ∧ encodeMsg m' = .ok (bs, h') :=
  C12_canonical_datagram bs m hd (C05_full_refines bs m hp)

/-- and that decoded message carries exactly the payloads the fully independent parser reads -/
theorem C12_canonical_datagram_full_fields (bs : Bytes) (m : Msg) (hd : m.Dom) (hp : Spec.parseFull bs = some m) :
    ∃ m', decodeMsg bs = .ok m' ∧ m'.payloads = m.payloads :=
  C12_canonical_datagram_fields bs m hd (C05_full_refines bs m hp)

/-- the class of canonical datagrams did not shrink on the domain: with fields in the encodable
domain, `Spec.parseFull` accepts a datagram iff `Spec.parse` does (so `C12_canonical_datagram` and
`C12_canonical_datagram_full` speak about the same datagrams) -/
theorem C12_canonical_full_same_class (bs : Bytes) (m : Msg) (hd : m.Dom) :
    Spec.parseFull bs = some m ↔ Spec.parse bs = some m :=
  C05_full_agree_on_domain bs m hd

/-- non-vacuity: the hypotheses are met by a concrete datagram with ten payload kinds, EAP among
them (the encoding of `c05pSample`, which lies in the domain — see `C05Parse.lean`) -/
example : ∃ bs, Spec.parseFull bs = some ⟨{ c05pSample.hdr with next := 33, payloadBytes := bs.drop 28 }, c05pSample.payloads⟩
    ∧ 28 < bs.length := by
  cases h : Spec.encode [] c05pSample with
  | ok bs => exact ⟨bs, by
      have := (by decide +kernel : (match Spec.encode [] c05pSample with
        | .ok bs => decide (Spec.parseFull bs = some ⟨{ c05pSample.hdr with next := 33, payloadBytes := bs.drop 28 }, c05pSample.payloads⟩
            ∧ 28 < bs.length)
        | _ => false) = true)
      rw [h] at this
      simpa using this⟩
  | err => exact absurd h (by decide +kernel)
  | fault => exact absurd h (by decide +kernel)

end Ike
