import IkeProofs.Lemmas.Stable
import IkeProofs.Theorems.C03

/-!
# C12 — re-encoding a decoded message preserves its meaning

`decodeMsg`, `encodeMsg`, `decodeMsg` is stable on everything the decoder accepts:
the second decode returns the same payload list and the same seven header fields,
and encoding once more reproduces the same octets (a fixed point after one step).
For canonical datagrams (encodings of messages of the encodable domain `Msg.Dom`)
the re-encoding is byte-identical to the input.  The same for EAP packets
(`unmarshalEap`, `marshalEap`, `unmarshalEap`), including EAP-AKA' with attributes
outside the handled set, duplicated attributes, non-zero reserved words and padding.

No hypothesis restricts the input: the theorems quantify over all byte strings.
-/

set_option linter.unusedSimpArgs false
set_option linter.unusedVariables false

namespace Ike

/-- **C12, stability** (first clause): whenever a byte string decodes to a message and that
message encodes again, decoding the new bytes succeeds and yields an equal message — the same
payload list (every field of every payload, in order) and the same seven header fields.
Holds for every accepted input: reserved bits, skipped unsupported payloads, an Encrypted
payload closing the chain, masked attribute types, dropped transforms, … -/
theorem C12_stable (bs bs' : Bytes) (m : Msg) (h' : Header)
    (hd : decodeMsg bs = .ok m) (he : encodeMsg m = .ok (bs', h')) :
    ∃ m', decodeMsg bs' = .ok m' ∧ m'.payloads = m.payloads ∧
      m'.hdr.ispi = m.hdr.ispi ∧ m'.hdr.rspi = m.hdr.rspi ∧ m'.hdr.major = m.hdr.major ∧
      m'.hdr.minor = m.hdr.minor ∧ m'.hdr.exch = m.hdr.exch ∧ m'.hdr.flags = m.hdr.flags ∧
      m'.hdr.mid = m.hdr.mid := by
  obtain ⟨v1, v2, c1, c2⟩ := decodeMsg_stable bs m hd
  obtain ⟨k, k1, k2, k3, k4, k5, k6, k7⟩ := rt_msg_sk m bs' h' v1 v2 c1 c2 he
  exact ⟨⟨h', m.payloads⟩, k, rfl, k1, k2, k3, k4, k5, k6, k7⟩

/-- the same, naming the second decode: it is exactly the header as updated by `Encode`
(next-payload and payload octets refreshed) together with the first decode's payload list -/
theorem C12_stable_exact (bs bs' : Bytes) (m : Msg) (h' : Header)
    (hd : decodeMsg bs = .ok m) (he : encodeMsg m = .ok (bs', h')) :
    decodeMsg bs' = .ok ⟨h', m.payloads⟩ := by
  obtain ⟨v1, v2, c1, c2⟩ := decodeMsg_stable bs m hd
  exact (rt_msg_sk m bs' h' v1 v2 c1 c2 he).1

/-- **C12, fixed point** (second clause): encoding the second decode once more reproduces the
same bytes (and the same updated header) — a fixed point is reached after one step -/
theorem C12_fixed_point (bs bs' : Bytes) (m : Msg) (h' : Header)
    (hd : decodeMsg bs = .ok m) (he : encodeMsg m = .ok (bs', h')) :
    ∃ m', decodeMsg bs' = .ok m' ∧ encodeMsg m' = .ok (bs', h') := by
  obtain ⟨m', k, kp, k1, k2, k3, k4, k5, k6, k7⟩ := C12_stable bs bs' m h' hd he
  exact ⟨m', k, by rw [encodeMsg_congr m m' kp k1 k2 k3 k4 k5 k6 k7]; exact he⟩

/-- **C12, canonical datagrams** (third clause): a datagram that is the encoding of a message of
the encodable domain (zero reserved bits, no unsupported payloads, canonical nested encodings)
decodes, and re-encoding the decoded message is byte-identical to the input -/
theorem C12_canonical (m : Msg) (bs : Bytes) (h' : Header) (hdom : m.Dom)
    (he : encodeMsg m = .ok (bs, h')) :
    ∃ m', decodeMsg bs = .ok m' ∧ encodeMsg m' = .ok (bs, h') := by
  obtain ⟨m', k, kp, k1, k2, k3, k4, k5, k6, k7⟩ := C03_roundtrip m bs h' hdom he
  exact ⟨m', k, by rw [encodeMsg_congr m m' kp k1 k2 k3 k4 k5 k6 k7]; exact he⟩

/-- **C12 for EAP packets**: `Unmarshal`, `Marshal`, `Unmarshal` returns the packet of the first
decode (code, identifier, method data; for EAP-AKA' subtype, reserved word and every attribute
with its length octet, reserved word and value) — for every accepted byte string.  Since the
second decode *is* the first one, marshalling once more gives `bs'` again (fixed point). -/
theorem C12_eap_stable (bs bs' : Bytes) (e : Eap)
    (hd : unmarshalEap bs = .ok e) (he : marshalEap e = .ok bs') :
    unmarshalEap bs' = .ok e :=
  stable_eap bs bs' e hd he

/-- the EAP fixed point spelled out -/
theorem C12_eap_fixed_point (bs bs' : Bytes) (e : Eap)
    (hd : unmarshalEap bs = .ok e) (he : marshalEap e = .ok bs') :
    ∃ e', unmarshalEap bs' = .ok e' ∧ marshalEap e' = .ok bs' :=
  ⟨e, stable_eap bs bs' e hd he, he⟩

/-- canonical EAP packets (encodings of packets of the domain `DomEap`): the re-encoding of the
decoding is byte-identical -/
theorem C12_eap_canonical (e : Eap) (bs : Bytes) (hdom : DomEap e) (he : marshalEap e = .ok bs) :
    ∃ e', unmarshalEap bs = .ok e' ∧ marshalEap e' = .ok bs :=
  ⟨e, rt_eap_payload e bs hdom he, he⟩

/-- the chain alone (`IKEPayloadContainer.Decode`, `Encode`, `Decode`), for any starting type -/
theorem C12_chain_stable (t : UInt8) (b b' : Bytes) (ps : List Payload)
    (hd : decodeChain t b = .ok ps) (he : encodeChain ps = .ok b') :
    decodeChain (firstType ps) b' = .ok ps := by
  obtain ⟨c1, c2⟩ := decodeChain_stable t b ps hd
  exact rt_chain_sk ps b' c1 c2 he


/-! ### non-vacuity -/

/-- a non-canonical datagram the decoder accepts: total-length field wrong (ignored), version 2.3,
all flag bits set, an unknown non-critical payload (skipped), a nonce whose generic header has
reserved bits set, a CP payload with the attribute R bit set and non-zero reserved octets, a Delete
with SPI size 9 and no SPI, an SA whose proposal has a non-zero reserved octet, a wrong transform
count, a transform of type 9 (dropped) and a TV key-length attribute followed by trailing octets
(dropped), and an Encrypted payload closing the chain with next-payload 35 -/
def c12Wire : Bytes :=
  [0,0,0,0,0,0,0,1, 0,0,0,0,0,0,0,2, 200, 0x23, 34, 0xff, 0,0,0,7, 0,0,1,0] ++
  [40, 0x7f, 0, 6, 1, 2] ++
  [47, 0x55, 0, 7, 9, 9, 9] ++
  [42, 0, 0, 16, 1, 7, 7, 7, 0x80, 1, 0, 4, 1, 2, 3, 4] ++
  [33, 0, 0, 8, 3, 9, 0, 0] ++
  [46, 0, 0, 44, 0, 5, 0, 40, 1, 1, 0, 9,
     3, 7, 0, 8, 9, 7, 0, 1,
     3, 0, 0, 16, 1, 0, 0, 12, 0x80, 14, 1, 0, 0xaa, 0xbb, 0xcc, 0xdd,
     0, 0, 0, 8, 2, 0, 0, 5] ++
  [35, 0, 0, 8, 1, 2, 3, 4]

/-- the hypotheses of `C12_stable` / `C12_fixed_point` are satisfiable by a datagram that is
not canonical: it decodes, the decoded message encodes, and the re-encoding differs from the input -/
example : (decodeMsg c12Wire >>= encodeMsg).isOk = true := by decide +kernel
example : (decodeMsg c12Wire >>= encodeMsg >>= fun r => Res.ok (r.1 != c12Wire)) = .ok true := by
  decide +kernel
example : (decodeMsg c12Wire >>= fun m => Res.ok m.payloads.length) = .ok 5 := by decide +kernel

/-- a canonical message for `C12_canonical`: in the encodable domain, and it encodes -/
def c12Canon : Msg :=
  ⟨{ ispi := 1, rspi := 2, major := 2, minor := 0, exch := 34, flags := 8, mid := 7 },
   [.nonce [1, 2, 3], .ke 14 [9, 9], .notify 0 16388 [] [5], .delete 3 4 1 [0xdeadbeef]]⟩

example : c12Canon.Dom := by
  refine ⟨by decide, by decide, ?_⟩
  intro p hp
  simp only [c12Canon, List.mem_cons, List.mem_nil_iff, or_false] at hp
  rcases hp with rfl | rfl | rfl | rfl <;> simp [Payload.Dom]
example : (encodeMsg c12Canon).isOk = true := by decide +kernel

/-- an EAP-AKA' packet outside the setter's domain: non-zero reserved word, AT_RES with 40 bits in
a 3-word attribute (non-zero padding octets), an attribute of unknown type 200 with a non-zero
reserved word, AT_KDF twice (the second replaces the first), and a lone trailing type octet -/
def c12EapWire : Bytes :=
  [1, 7, 0, 37, 50, 1, 0x12, 0x34] ++
  [3, 3, 0, 40, 1, 2, 3, 4, 5, 9, 9, 9] ++
  [200, 2, 0xab, 0xcd, 1, 2, 3, 4] ++
  [24, 1, 0, 1] ++ [24, 1, 0, 2] ++ [77]

/-- the hypotheses of `C12_eap_stable` are satisfiable by a packet that is not canonical -/
example : (unmarshalEap c12EapWire >>= marshalEap).isOk = true := by decide +kernel
example : (unmarshalEap c12EapWire >>= marshalEap >>= fun r => Res.ok (r != c12EapWire, r.length)) = .ok (true, 32) := by
  decide +kernel

/-- `DomEap` is inhabited by an Identity response that marshals (for `C12_eap_canonical`) -/
example : DomEap ⟨2, 9, .identity [0x61, 0x62]⟩ ∧ (marshalEap ⟨2, 9, .identity [0x61, 0x62]⟩).isOk = true := by
  decide

end Ike
