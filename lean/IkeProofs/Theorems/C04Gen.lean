import IkeProofs.Refine.Transfer
import IkeProofs.RefineEap.Glue
import IkeProofs.RefineReg.Cbc
import IkeProofs.Theorems.C04

/-! # C04 over the code as translated from the current source

`Ike.Gen.message.*` is regenerated from /repo's `message/*.go` by `tools/go2lean` on every run; a
Go panic (index / slice out of range, wrong type assertion, nil interface) and a loop that does
not finish within the bound derived from its header are both `Res.fault` there.  These theorems
say that the generated decoders never produce it — for every byte string. -/

namespace Ike
open Ike.Refine Ike.Gen.message

/-- `message.(*IKEMessage).Decode` never panics and every loop in it terminates within its bound -/
theorem C04_gen_Decode_never_faults (b : Bytes) : IKEMessage.Decode {} b ≠ .fault := by
  have h : genDecode b ≠ .fault := by rw [genDecode_eq]; exact map_some_ne_fault (C04_no_fault_decodeMsg b)
  exact map_ne_fault h

/-- `message.ParseHeader` -/
theorem C04_gen_ParseHeader_never_faults (b : Bytes) : ParseHeader b ≠ .fault := by
  have h : (ParseHeader b).map GenAbs.absHeader ≠ .fault := by rw [Gen_ParseHeader]; exact C04_no_fault_parseHeader b
  exact map_ne_fault h

/-- `message.(*IKEPayloadContainer).Decode`, every first-payload type -/
theorem C04_gen_container_Decode_never_faults (t : UInt8) (b : Bytes) : IKEPayloadContainer.Decode [] t b ≠ .fault := by
  have h : genDecodeChain t b ≠ .fault := by rw [genDecodeChain_eq]; exact map_some_ne_fault (C04_no_fault_decodeChain t b)
  exact map_ne_fault h

/-- every payload body decoder, on the zero value the chain walker creates for its type -/
theorem C04_gen_payload_Unmarshal_never_faults (t nx : UInt8) (g : IKEPayload) (body : Bytes)
    (hg : newPayload t nx = some g) : IKEPayload.Unmarshal g body ≠ .fault := by
  have hk : knownType t = true := by rw [← newPayload_known t nx, hg]; rfl
  have h := IKEPayload_Unmarshal_new t nx body hk
  rw [hg] at h
  have : (IKEPayload.Unmarshal g body).map GenAbs.absPayload ≠ .fault := by
    rw [h]; exact map_some_ne_fault (C04_no_fault_unmarshalPayload t nx body)
  exact map_ne_fault this

/-- the generated decoder returns what the model returns: outcome class included -/
theorem C04_gen_Decode_is_model (b : Bytes) : genDecode b = (decodeMsg b).map some := genDecode_eq b

example : IKEMessage.Decode {} [] = .err := by decide
example : newPayload 41 0 = some (.Notification {}) := rfl

end Ike

/-! ### EAP decoders (package `eap` as translated) -/

namespace Ike
open Ike.RefineEap

/-- `eap.(*EAP).Unmarshal` never panics and its attribute loop terminates within its bound -/
theorem C04_gen_EAP_Unmarshal_never_faults (b : Bytes) : Gen.eap.EAP.Unmarshal {} b ≠ .fault := by
  have h : (Gen.eap.EAP.Unmarshal {} b).map GenAbs.absEap ≠ .fault := by
    rw [Gen_EAP_Unmarshal]; exact C04_no_fault_unmarshalEap b
  exact Ike.Refine.map_ne_fault h

/-- `eap.(*EapAkaPrime).Unmarshal` -/
theorem C04_gen_AKA_Unmarshal_never_faults (b : Bytes) : Gen.eap.EapAkaPrime.Unmarshal {} b ≠ .fault := by
  have h : (Gen.eap.EapAkaPrime.Unmarshal {} b).map GenAbs.absAka ≠ .fault := by
    rw [EapAkaPrime_Unmarshal_refines]; exact (C04_no_fault_eap_methods b).2.2
  exact Ike.Refine.map_ne_fault h

/-- `encr.(*EncrAesCbcCrypto).Decrypt` as translated from `security/encr/encr_aes_cbc.go`: no octet string and no
key makes it panic (the index `plainText[len-1]` and the final reslice are inside their bounds on every path) -/
theorem C04_gen_cbc_Decrypt_never_faults (P : Prims) (hP : P.Lawful) (c : Gen.encr.EncrAesCbcCrypto)
    (hi : c.Iv = []) (ct : Bytes) : Gen.encr.EncrAesCbcCrypto.Decrypt P c ct ≠ .fault := by
  rw [Ike.RefineReg.Decrypt_refines P hP c hi ct]; exact cbcDecrypt_ne_fault P hP _ ct

end Ike
