import IkeProofs.Theorems.C20Appends

namespace Ike

/-- **C02, memory level**: unprotecting does not write into the datagram it is given (regenerated fact, see
`C20_parameters_read_only`): a refused datagram is still the refused datagram when it is presented again —
in particular the received checksum field is not overwritten by the computed one. -/
theorem C02_datagram_not_written :
    ∀ w ∈ Footprint.paramWrites, w.1 ≠ "ike.DecodeDecrypt" ∧ w.1 ≠ "security/encr.EncrAesCbcCrypto.Decrypt" := by decide

end Ike
