import IkeProofs.Lemmas.Sk

/-!
# C17 — SA key objects are reusable (history independence)

`sa ≈ₛ sb` (`SAKey.Sim`, Lemmas/Sk.lean): same three descriptors, same seven
keys, the two cipher objects equal, each of the five hash objects has the same
hash number and key — the hash objects' write buffers (the only thing any
operation ever changes) are arbitrary.

Every operation of `SaOp` — `EncodeEncrypt` as either role, `DecodeDecrypt` on
ANY byte string (genuine, forged, truncated, garbage; both header modes),
`GenerateKeyForChildSA` — maps `≈ₛ`-related states to `≈ₛ`-related states and
returns equal outputs on them.  By induction over a history of arbitrary
length, every output of a history run on one object equals the output of the
same operation on the initial object.  No hypothesis on the primitives is
needed: the statements hold for every `P : Prims`.
-/

namespace Ike

/-- One operation, started in two related object states (same keys, any buffers):
the observable outcome (datagram / decoded message / child keys / error / fault) is
EQUAL and the two successor states are again related.  Covers success and every
failure of each operation. -/
theorem C17_step (P : Prims) (a b : SAKey) (h : a ≈ₛ b) (op : SaOp) :
    (saStep P a op).2 = (saStep P b op).2 ∧ (saStep P a op).1 ≈ₛ (saStep P b op).1 :=
  saStep_sim P h op

/-- No operation leaves the `≈ₛ` class of the state it started from. -/
theorem C17_step_invariant (P : Prims) (a : SAKey) (op : SaOp) : (saStep P a op).1 ≈ₛ a :=
  saStep_sim_self P a op

/-- History independence, relational form: a history run on ONE object that starts
in any state related to `s₀` yields, at every position, the output the same
operation yields on `s₀` itself.  Unbounded in the length of the history. -/
theorem C17_history_rel (P : Prims) (s s₀ : SAKey) (h : s ≈ₛ s₀) (ops : List SaOp) :
    saRun P s ops = saRunFresh P s₀ ops := by
  induction ops generalizing s with
  | nil => rfl
  | cons op rest ih =>
    obtain ⟨e, g⟩ := saStep_sim P h op
    simp only [saRun, saRunFresh, List.map_cons]
    rw [e]
    have := ih (saStep P s op).1 (g.trans (C17_step_invariant P s₀ op))
    rw [this]; rfl

/-- C17: running `ops` on one SA object from `s₀` gives at every position the
output the same operation gives on the untouched `s₀`. -/
theorem C17_history (P : Prims) (s₀ : SAKey) (ops : List SaOp) :
    saRun P s₀ ops = saRunFresh P s₀ ops :=
  C17_history_rel P s₀ s₀ (SAKey.Sim.refl _) ops

/-- the same, position by position -/
theorem C17_history_at (P : Prims) (s₀ : SAKey) (ops : List SaOp) (i : Nat) :
    (saRun P s₀ ops)[i]? = (ops[i]?).map (fun op => (saStep P s₀ op).2) := by
  rw [C17_history, saRunFresh, List.getElem?_map]

/-- "a newly built SA object holding the same keys": whatever the history did to an
object whose descriptors and seven keys are those `SAKey.fresh` was given (its cipher
objects holding `ei`/`er`, its hash objects the respective keys), each output equals the
output on the freshly built object. -/
theorem C17_history_fresh (P : Prims) (e : EncrInfo) (i : IntegInfo) (p : PrfInfo)
    (d ai ar ei er pi pr : Bytes) (s : SAKey) (h : s ≈ₛ SAKey.fresh e i p d ai ar ei er pi pr)
    (ops : List SaOp) :
    saRun P s ops = saRunFresh P (SAKey.fresh e i p d ai ar ei er pi pr) ops :=
  C17_history_rel P s _ h ops

/-- the object after any history is still related to the initial one (so the theorem
applies again to any continuation) -/
theorem C17_final (P : Prims) (s₀ : SAKey) (ops : List SaOp) : saFinal P s₀ ops ≈ₛ s₀ := by
  suffices ∀ s, s ≈ₛ s₀ → saFinal P s ops ≈ₛ s₀ from this s₀ (SAKey.Sim.refl _)
  induction ops with
  | nil => intro s h; exact h
  | cons op rest ih =>
    intro s h
    exact ih _ ((C17_step_invariant P s op).trans h)

/-! ### non-vacuity -/

/-- a used object (non-empty buffers in all five hash objects) is related to the fresh one -/
example : ({ SAKey.fresh ⟨12, 16⟩ ⟨2, 20, 12, 1⟩ ⟨2, 20, 20, 1⟩ [1] [2] [3] [4] [5] [6] [7] with
              prf_d := ⟨1, [1], [9, 9]⟩, integ_i := ⟨1, [2], [8]⟩, integ_r := ⟨1, [3], [7, 7, 7]⟩,
              prf_i := ⟨1, [6], [5]⟩, prf_r := ⟨1, [7], [4]⟩ } : SAKey) ≈ₛ
          SAKey.fresh ⟨12, 16⟩ ⟨2, 20, 12, 1⟩ ⟨2, 20, 20, 1⟩ [1] [2] [3] [4] [5] [6] [7] :=
  ⟨rfl, rfl, rfl, ⟨rfl, rfl⟩, ⟨rfl, rfl⟩, ⟨rfl, rfl⟩, rfl, rfl, ⟨rfl, rfl⟩, ⟨rfl, rfl⟩, rfl, rfl, rfl, rfl, rfl, rfl, rfl⟩

/-- the operations do change the object: after one child-key derivation the state differs from
the initial one (so the relation is not just equality) — checked on a toy `Prims` -/
example :
    let P : Prims := ⟨fun _ _ m => m ++ List.replicate 12 0, fun _ => 12, fun _ b => b, fun _ b => b⟩
    let s := SAKey.fresh ⟨12, 16⟩ ⟨2, 20, 12, 1⟩ ⟨2, 20, 20, 1⟩ [1] [2] [3] [4] [5] [6] [7]
    (saStep P s (.child 1 1 [5])).1 ≠ s := by decide

/-- a concrete history on one object — genuine unprotect, garbage, protect, child derivation,
the genuine datagram again — has non-trivial outcomes, and (by `C17_history`) they are the
outcomes on the fresh object -/
example :
    (saRun Prims.skToy SkEx.sa [.unprotect false false SkEx.bs, .unprotect false true [1, 2, 3],
        .protect true [7, 8, 9] SkEx.msg, .child 1 1 [5], .unprotect false false SkEx.bs]).map Res.isOk
      = [true, false, true, true, true] := by
  rw [C17_history]; decide +kernel

end Ike
