import IkeProofs.Lemmas.Sk
import IkeProofs.Lemmas.PrimsReal

/-!
# C06 — the SK payload follows RFC 7296 §3.14 and interoperates

`Spec.skMessage P ⟨ke, ka, hash, icvLen⟩ hdr firstInner inner iv pad` (IkeModel/Spec/Sk.lean) is the
RFC figure written independently of the code: header (first payload = SK, final total length) ‖
SK generic header (next = first inner type, final payload length) ‖ IV ‖
CBC(ke, IV, inner ‖ pad ‖ [|pad|]) ‖ trunc(HMAC(ka, everything before)).

`sa.skParams role` = the SENDER-direction parameters of `sa` acting as `role`:
`⟨(sa.encrObj role).key, (sa.integObj role).key, (sa.integObj role).alg, sa.integInfo.outLen⟩`
(`encrObj true = Encr_i`, `integObj true = Integ_i`).
-/

namespace Ike
open Spec

/-- Every datagram `EncodeEncrypt` returns IS the RFC 7296 §3.14 message: for every lawful `P`,
well-formed SA, role, message and random source, a successful `protect` means that the inner
payloads encoded to `inner`, the first draw (`16 − |inner| mod 16` octets) gave the padding
octets, the second draw (16 octets) gave the IV, and the output equals `Spec.skMessage` built from
the sender-direction keys, the message's header fields, the type of the first inner payload
(0 for none), `inner`, that IV and the first `16 − |inner| mod 16 − 1` padding octets.  The message
returned alongside holds the single SK payload and the header `skHeader` (final lengths). -/
theorem C06_protect_is_rfc (P : Prims) (hP : P.Lawful) (sa : SAKey) (hw : sa.WF P) (role : Bool)
    (r : Rand) (m : Msg) (sa' : SAKey) (r' : Rand) (bs : Bytes) (m' : Msg)
    (h : protect P sa role r m = (sa', r', .ok (bs, m'))) :
    ∃ inner padDraw iv r1, encodeChain m.payloads = .ok inner ∧
      r.draw (16 - inner.length % 16) = (r1, .ok padDraw) ∧ r1.draw 16 = (r', .ok iv) ∧
      iv.length = 16 ∧
      (padDraw.take (16 - inner.length % 16 - 1)).length = 16 - inner.length % 16 - 1 ∧
      4 + (16 + (inner.length + (16 - inner.length % 16)) + sa.integInfo.outLen) ≤ 0xFFFF ∧
      bs = skMessage P (sa.skParams role) m.hdr (firstType m.payloads) inner iv
             (padDraw.take (16 - inner.length % 16 - 1)) ∧
      m' = ⟨skHeader P (sa.skParams role) m.hdr (firstType m.payloads) inner iv
               (padDraw.take (16 - inner.length % 16 - 1)),
            [.sk (firstType m.payloads) (skEnc P (sa.skParams role) m.hdr (firstType m.payloads) inner iv
               (padDraw.take (16 - inner.length % 16 - 1)))]⟩ ∧
      sa' = sa.setInteg role ⟨(sa.integObj role).alg, (sa.integObj role).key,
              skSigned P (sa.skParams role) m.hdr (firstType m.payloads) inner iv
                (padDraw.take (16 - inner.length % 16 - 1))⟩ := by
  obtain ⟨inner, padDraw, iv, r1, r2, henc, hd1, hd2⟩ := protect_ok_inv P sa sa' role r r' m _ h
  rw [protect_spec P hP sa hw role r r1 r2 m inner padDraw iv henc hd1 hd2] at h
  have hpl := Rand.sk_draw_ok_length _ _ _ _ hd1
  by_cases hfit : 4 + (16 + (inner.length + (16 - inner.length % 16)) + sa.integInfo.outLen) ≤ 0xFFFF
  · rw [if_pos hfit] at h
    simp only [Prod.mk.injEq, Res.ok.injEq] at h
    obtain ⟨e1, e2, e3, e4⟩ := h
    subst e2
    refine ⟨inner, padDraw, iv, r1, henc, hd1, hd2, Rand.sk_draw_ok_length _ _ _ _ hd2, ?_, hfit,
      e3.symm, e4.symm, e1.symm⟩
    rw [List.length_take, hpl]; omega
  · rw [if_neg hfit] at h
    simp at h

/-- Existence (non-vacuity of the above, and "encodable"): if the inner payloads encode, the random
source does not fail and the SK payload fits the 16-bit payload length, `EncodeEncrypt` succeeds
and returns the RFC message for padding octets `cyc r.buf r.pos …` and IV
`cyc r.buf (r.pos + padLen) 16`. -/
theorem C06_protect_succeeds (P : Prims) (hP : P.Lawful) (sa : SAKey) (hw : sa.WF P) (role : Bool)
    (r : Rand) (hr : r.failAt = none) (m : Msg) (inner : Bytes)
    (henc : encodeChain m.payloads = .ok inner)
    (hfit : 4 + (16 + (inner.length + (16 - inner.length % 16)) + sa.integInfo.outLen) ≤ 0xFFFF) :
    ∃ sa' r' m', protect P sa role r m =
      (sa', r', .ok (skMessage P (sa.skParams role) m.hdr (firstType m.payloads) inner
        (cyc r.buf (r.pos + (16 - inner.length % 16)) 16)
        ((cyc r.buf r.pos (16 - inner.length % 16)).take (16 - inner.length % 16 - 1)), m')) := by
  have hd1 := Rand.sk_draw_of_not_fail r (16 - inner.length % 16) hr
  have hd2 := Rand.sk_draw_of_not_fail { r with reads := r.reads + 1, pos := r.pos + (16 - inner.length % 16) } 16 hr
  rw [protect_spec P hP sa hw role r _ _ m inner _ _ henc hd1 hd2, if_pos hfit]
  exact ⟨_, _, _, rfl⟩

/-- Any legal padding from an independent peer is accepted: for every `pad` of at most 255
ARBITRARY octets with `(|inner| + |pad| + 1)` a multiple of 16, every 16-octet IV, every header
with version nibbles < 16, the RFC message built with the parameters `k` is accepted by a
receiver `sb` acting as `rr` whose PEER-direction objects (`!rr`) hold `k`'s keys and hash and
whose checksum length is `k.icvLen` — in both header modes — with exactly one cipher call, and
yields the decoding of `inner` under the parsed header `skHeader` (same SPIs, version, exchange
type, flags, message ID as `h`).  `hfit`: the SK payload fits the 16-bit payload length. -/
theorem C06_accepts_any_legal_padding (P : Prims) (hP : P.Lawful) (sb : SAKey) (hw : sb.WF P) (rr : Bool)
    (k : SkParams) (hcl : sb.integInfo.outLen = k.icvLen) (halg : (sb.integObj (!rr)).alg = k.hash)
    (hka : (sb.integObj (!rr)).key = k.ka) (hke : (sb.encrObj (!rr)).key = k.ke)
    (h : Header) (hmaj : h.major.toNat < 16) (hmin : h.minor.toNat < 16) (ft : UInt8)
    (inner iv pad : Bytes) (hiv : iv.length = 16) (hpad : pad.length ≤ 255)
    (hal : (inner.length + pad.length + 1) % 16 = 0)
    (hfit : 4 + 16 + (inner.length + pad.length + 1) + k.icvLen ≤ 0xFFFF)
    (ps : List Payload) (hinner : decodeChain ft inner = .ok ps) :
    parseHeader (skMessage P k h ft inner iv pad) = .ok (skHeader P k h ft inner iv pad) ∧
    (∀ hdr, hdr = none ∨ hdr = some (skHeader P k h ft inner iv pad) →
      unprotect P (some sb) rr hdr (skMessage P k h ft inner iv pad) =
        (some (sb.setInteg (!rr) ⟨k.hash, k.ka, skSigned P k h ft inner iv pad⟩), 1,
         .ok ⟨skHeader P k h ft inner iv pad, ps⟩)) ∧
    (skHeader P k h ft inner iv pad).ispi = h.ispi ∧ (skHeader P k h ft inner iv pad).rspi = h.rspi ∧
    (skHeader P k h ft inner iv pad).major = h.major ∧ (skHeader P k h ft inner iv pad).minor = h.minor ∧
    (skHeader P k h ft inner iv pad).exch = h.exch ∧ (skHeader P k h ft inner iv pad).flags = h.flags ∧
    (skHeader P k h ft inner iv pad).mid = h.mid := by
  have hicv : k.icvLen ≤ P.macLen k.hash := by
    rw [← hcl, ← halg]; exact WF_integObj P sb hw (!rr)
  have hctl := skCt_length P hP k inner iv pad hiv hal
  refine ⟨skMessage_parseHeader P hP k h ft inner iv pad hicv hmaj hmin
      (by simp only [skTotal, hctl, hiv]; omega), ?_, rfl, rfl, rfl, rfl, rfl, rfl, rfl⟩
  intro hdr hhdr
  rw [unprotect_spec P hP sb hw rr k hcl halg hka hke h hmaj hmin ft inner iv pad hiv hpad hal hfit hdr hhdr,
    hinner]
  rfl

/-! ### non-vacuity (toy lawful primitives `Prims.skToy`, values in `SkEx`, Lemmas/Sk.lean) -/

/-- `C06_protect_is_rfc` applies to a concrete successful `protect` -/
example : ∃ sa' r' m', protect Prims.skToy SkEx.sa true SkEx.rnd SkEx.msg =
    (sa', r', .ok (skMessage Prims.skToy (SkEx.sa.skParams true) SkEx.msg.hdr 40
      [43, 0, 0, 7, 1, 2, 3, 0, 0, 0, 5, 9] (cyc [7, 8, 9] 4 16) ((cyc [7, 8, 9] 0 4).take 3), m')) :=
  C06_protect_succeeds Prims.skToy Prims.skToy_lawful SkEx.sa SkEx.sa_wf true SkEx.rnd rfl SkEx.msg
    [43, 0, 0, 7, 1, 2, 3, 0, 0, 0, 5, 9] (by decide +kernel) (by decide)

/-- `C06_accepts_any_legal_padding` with NON-minimal padding: 12 inner octets, 19 arbitrary pad
octets (the sender itself would use 3), both header modes -/
example :
    ∀ hdr, hdr = none ∨ hdr = some (skHeader Prims.skToy (SkEx.sa.skParams true) SkEx.msg.hdr 40
        [43, 0, 0, 7, 1, 2, 3, 0, 0, 0, 5, 9] (List.replicate 16 0xAA) (List.replicate 19 0x55)) →
    (unprotect Prims.skToy (some SkEx.sa) false hdr
      (skMessage Prims.skToy (SkEx.sa.skParams true) SkEx.msg.hdr 40
        [43, 0, 0, 7, 1, 2, 3, 0, 0, 0, 5, 9] (List.replicate 16 0xAA) (List.replicate 19 0x55))).2 =
      (1, .ok ⟨skHeader Prims.skToy (SkEx.sa.skParams true) SkEx.msg.hdr 40
        [43, 0, 0, 7, 1, 2, 3, 0, 0, 0, 5, 9] (List.replicate 16 0xAA) (List.replicate 19 0x55), SkEx.msg.payloads⟩) := by
  intro hdr hh
  have := (C06_accepts_any_legal_padding Prims.skToy Prims.skToy_lawful SkEx.sa SkEx.sa_wf false
    (SkEx.sa.skParams true) rfl rfl rfl rfl SkEx.msg.hdr (by decide) (by decide) 40
    [43, 0, 0, 7, 1, 2, 3, 0, 0, 0, 5, 9] (List.replicate 16 0xAA) (List.replicate 19 0x55) rfl (by decide) (by decide)
    (by decide) SkEx.msg.payloads (by decide +kernel)).2.1 hdr hh
  rw [this]

/-- The hypothesis `P.Lawful` of the theorems above (protect = RFC 7296 §3.14, any legal padding accepted) is not an assumption about the
primitives the model actually runs: the executable SHA-256 / SHA-1 / MD5 / HMAC / AES of
`IkeModel/Crypto` — the ones the correspondence suites compare byte for byte with Go's standard
library — satisfy it (digest lengths; AES block length; `dec k (enc k b) = b` for every key and
block, proved from FIPS-197's inverse structure in `Lemmas/PrimsReal.lean`). -/
theorem C06_real_lawful : Prims.real.Lawful := Prims.real_lawful

end Ike
