import IkeProofs.Lemmas.NoFault
import IkeProofs.Lemmas.PrimsReal

/-!
# C04 — decoders survive arbitrary bytes

`Res.fault` is the model's outcome for every Go panic (index / slice out of
range, negative bound, nil dereference) *and* for every read beyond `len` (the
checked primitives of `GoSem.lean` never look past the list).  Each theorem
below is universally quantified over the input octet string — any length, no
bound — so "never panics" and "independent of spare capacity" hold for the
model on all inputs.  Termination and work bounded by the input length: every
walker is a total Lean function accepted with `termination_by` on the
remaining length (each iteration consumes ≥ 1 octet, see the `_len` lemmas in
`Lemmas/NoFault.lean`); there is no fuel and no `partial` in the model.
-/

namespace Ike

/-- whole message: `(*IKEMessage).Decode` -/
theorem C04_no_fault_decodeMsg (b : Bytes) : decodeMsg b ≠ .fault := decodeMsg_ne_fault b

/-- `ParseHeader` -/
theorem C04_no_fault_parseHeader (b : Bytes) : parseHeader b ≠ .fault := parseHeader_ne_fault b

/-- payload chain `(*IKEPayloadContainer).Decode(t, b)`, every first-payload type -/
theorem C04_no_fault_decodeChain (t : UInt8) (b : Bytes) : decodeChain t b ≠ .fault :=
  decodeChain_ne_fault t b

/-- each payload body decoder (all 16 payload kinds, selected by type code `t`) -/
theorem C04_no_fault_unmarshalPayload (t nx : UInt8) (b : Bytes) : unmarshalPayload t nx b ≠ .fault :=
  unmarshalPayload_ne_fault t nx b

/-- the nested decoders, individually -/
theorem C04_no_fault_payload_bodies (b : Bytes) :
    unmarshalSA b ≠ .fault ∧ unmarshalKE b ≠ .fault ∧ unmarshalNotify b ≠ .fault ∧
    unmarshalDelete b ≠ .fault ∧ unmarshalCP b ≠ .fault ∧
    (∀ mk, unmarshalTS mk b ≠ .fault) ∧ (∀ mk, unmarshalT4 mk b ≠ .fault) ∧ (∀ mk, unmarshalT1 mk b ≠ .fault) :=
  ⟨unmarshalSA_ne_fault b, unmarshalKE_ne_fault b, unmarshalNotify_ne_fault b, unmarshalDelete_ne_fault b,
   unmarshalCP_ne_fault b, fun mk => unmarshalTS_ne_fault mk b, fun mk => unmarshalT4_ne_fault mk b,
   fun mk => unmarshalT1_ne_fault mk b⟩

/-- EAP packet -/
theorem C04_no_fault_unmarshalEap (b : Bytes) : unmarshalEap b ≠ .fault := unmarshalEap_ne_fault b

/-- each EAP method body: Identity / Notification / Nak, Expanded, EAP-AKA' -/
theorem C04_no_fault_eap_methods (b : Bytes) :
    (∀ code mk, unmarshalSimple code mk b ≠ .fault) ∧ unmarshalExpanded b ≠ .fault ∧ unmarshalAka b ≠ .fault :=
  ⟨fun c mk => unmarshalSimple_ne_fault c mk b, unmarshalExpanded_ne_fault b, unmarshalAka_ne_fault b⟩

/-- cipher decryption, for every key and every ciphertext (lawful block cipher) -/
theorem C04_no_fault_cbcDecrypt (P : Prims) (hP : P.Lawful) (c : CipherObj) (ct : Bytes) :
    cbcDecrypt P c ct ≠ .fault := cbcDecrypt_ne_fault P hP c ct

/-- unprotection without a pre-parsed header, with any key set or none, either role -/
theorem C04_no_fault_unprotect (P : Prims) (hP : P.Lawful) (sa : Option SAKey)
    (hw : ∀ k, sa = some k → k.WF P) (role : Bool) (msg : Bytes) :
    (unprotect P sa role none msg).2.2 ≠ .fault := unprotect_none_ne_fault P hP sa hw role msg

/-- unprotection with the header parsed from the same bytes -/
theorem C04_no_fault_unprotect_hdr (P : Prims) (hP : P.Lawful) (sa : Option SAKey)
    (hw : ∀ k, sa = some k → k.WF P) (role : Bool) (msg : Bytes) (h : Header)
    (hh : parseHeader msg = .ok h) :
    (unprotect P sa role (some h) msg).2.2 ≠ .fault := unprotect_hdr_ne_fault P hP sa hw role msg h hh

/-- every walker consumes at least one octet per iteration and never more than remains
(the facts Lean's termination checker was given; they bound the work by the input length) -/
theorem C04_progress (t : UInt8) (b : Bytes) :
    (∀ op nx n, chainStep t b = .ok (op, nx, n) → 0 < n ∧ n ≤ b.length) ∧
    (8 ≤ b.length → ∀ p n, parseProposal b = .ok (p, n) → 0 < n ∧ n ≤ b.length) ∧
    (8 ≤ b.length → ∀ x n, parseTransform b = .ok (x, n) → 0 < n ∧ n ≤ b.length) ∧
    (4 ≤ b.length → ∀ a n, parseCPAttr b = .ok (a, n) → 0 < n ∧ n ≤ b.length) :=
  ⟨fun op nx n h => chainStep_len t b op nx n h,
   fun h8 p n h => parseProposal_len b h8 p n h,
   fun h8 x n h => parseTransform_len b h8 x n h,
   fun h4 a n h => parseCPAttr_len b h4 a n h⟩

/-- non-vacuity of the SA well-formedness hypothesis: every SA built from the
regenerated registry is well-formed for the executable primitives (checksum
length ≤ digest length of the registered hash). -/
theorem C04_registry_wf :
    ∀ e ∈ Facts.integTable, e.2.2.1 ≤ Prims.real.macLen e.2.2.2 := by decide

example : decodeMsg [] = .err := by decide
example : parseHeader (List.replicate 28 0) = .err := by decide

/-- The hypothesis `P.Lawful` of the theorems above (no-fault of unprotect and of cipher decryption) is not an assumption about the
primitives the model actually runs: the executable SHA-256 / SHA-1 / MD5 / HMAC / AES of
`IkeModel/Crypto` — the ones the correspondence suites compare byte for byte with Go's standard
library — satisfy it (digest lengths; AES block length; `dec k (enc k b) = b` for every key and
block, proved from FIPS-197's inverse structure in `Lemmas/PrimsReal.lean`). -/
theorem C04_real_lawful : Prims.real.Lawful := Prims.real_lawful

end Ike
