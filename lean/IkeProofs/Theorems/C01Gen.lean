import IkeProofs.RefineSa.Transfer
import IkeProofs.Theorems.C01

/-! # C01 over the code as translated from the current source (`ike.go`: `EncodeEncrypt` / `DecodeDecrypt`)

The protected round trip with both ends being the functions `tools/go2lean` writes from /repo's `ike.go` on every
run: whatever the translated `EncodeEncrypt` returns, the translated `DecodeDecrypt` of the opposite role — with a
nil header and with the header parsed from the datagram — accepts and returns the original payload list and header
fields.  The receiver's object may be in any state of the `≈ₛ` class of the sender's (same descriptors and keys,
hash-object buffers arbitrary). -/

namespace Ike
open Ike.RefineSa Ike.GenAbsSa

theorem C01_gen_roundtrip (P : Prims) (hP : P.Lawful) (ka kb : Gen.security.IKESAKey)
    (hka : SaWF ka) (hkb : SaWF kb) (hia : IntegRegistered ka.IntegInfo) (hib : IntegRegistered kb.IntegInfo)
    (hwa : (absSa ka).WF P) (hsim : absSa ka ≈ₛ absSa kb)
    (role : Bool) (r : Rand) (m : Msg)
    (hmaj : m.hdr.major.toNat < 16) (hmin : m.hdr.minor.toNat < 16)
    (hrt : ∀ p ∈ m.payloads, PayloadRT p ∧ p.isSK = false)
    (r' : Rand) (gm' : Gen.message.IKEMessage) (ka' : Gen.security.IKESAKey) (bs : Bytes)
    (h : Gen.ike.EncodeEncrypt P r (GenAbs.repMsg m) (some ka) role = .ok (r', gm', ka', bs)) :
    ∃ hd mo, parseHeader bs = .ok hd ∧
      (∃ kb' gmo, Gen.ike.DecodeDecrypt P bs none (some kb) (!role) = .ok (kb', gmo) ∧
        GenAbs.absMsg gmo = some mo) ∧
      (∃ kb' gmo, Gen.ike.DecodeDecrypt P bs (some (GenAbs.repHeader hd)) (some kb) (!role) = .ok (kb', gmo) ∧
        GenAbs.absMsg gmo = some mo) ∧
      mo.payloads = m.payloads ∧
      mo.hdr.ispi = m.hdr.ispi ∧ mo.hdr.rspi = m.hdr.rspi ∧ mo.hdr.major = m.hdr.major ∧
      mo.hdr.minor = m.hdr.minor ∧ mo.hdr.exch = m.hdr.exch ∧ mo.hdr.flags = m.hdr.flags ∧
      mo.hdr.mid = m.hdr.mid := by
  obtain ⟨m', _, hp⟩ := gen_protect_ok P hP ka hka hia role r m r' gm' ka' bs h
  obtain ⟨mo, sb', hd, hph, hu1, hu2, e0, e1, e2, e3, e4, e5, e6, e7⟩ :=
    C01_roundtrip_sim P hP (absSa ka) (absSa kb) hwa hsim role r m hmaj hmin hrt _ r' bs m' hp
  obtain ⟨k1, g1, hd1, ha1⟩ := gen_unprotect_of_model P hP kb hkb hib (!role) none bs _ _ _ hu1
  obtain ⟨k2, g2, hd2, ha2⟩ := gen_unprotect_of_model P hP kb hkb hib (!role) (some hd) bs _ _ _ hu2
  exact ⟨hd, mo, hph, ⟨k1, g1, hd1, ha1⟩, ⟨k2, g2, hd2, ha2⟩, e0, e1, e2, e3, e4, e5, e6, e7⟩

/-- Encodable: a message whose payloads encode, a random source that does not fail, an SK payload that fits the
16-bit length ⇒ the translated `EncodeEncrypt` succeeds (non-vacuity of the round trip) -/
theorem C01_gen_encodable (P : Prims) (hP : P.Lawful) (k : Gen.security.IKESAKey) (hk : SaWF k)
    (hi : IntegRegistered k.IntegInfo) (hw : (absSa k).WF P) (role : Bool)
    (r : Rand) (hr : r.failAt = none) (m : Msg) (inner : Bytes)
    (henc : encodeChain m.payloads = .ok inner)
    (hfit : 4 + (16 + (inner.length + (16 - inner.length % 16)) + (absSa k).integInfo.outLen) ≤ 0xFFFF) :
    ∃ r' gm' k' bs, Gen.ike.EncodeEncrypt P r (GenAbs.repMsg m) (some k) role = .ok (r', gm', k', bs) := by
  obtain ⟨sa', r', bs, m', hp⟩ := C01_encodable P hP (absSa k) hw role r hr m inner henc hfit
  obtain ⟨gm', k', hg, _, _⟩ := gen_protect_of_model P hP k hk hi role r m sa' r' bs m' hp
  exact ⟨r', gm', k', bs, hg⟩

/-- No key, encode side: the translated `EncodeEncrypt` with a nil key is `IKEMessage.Encode` (the model's
`encodePlain`): same datagram, same message; the random source is not read -/
theorem C01_gen_nokey_encode (P : Prims) (r : Rand) (m : Msg) (role : Bool) :
    (Gen.ike.EncodeEncrypt P r (GenAbs.repMsg m) none role).map (fun x => (x.2.2.2, GenAbs.absMsg x.2.1)) =
      (encodePlain m).map (fun y => (y.1, some y.2)) :=
  Enc.EncodeEncrypt_nil_key r m role P

/-- No key, decode side: the translated `DecodeDecrypt` with a nil key is the model's `unprotect none` -/
theorem C01_gen_nokey_decode (P : Prims) (role : Bool) (h : Option Header) (bs : Bytes) :
    (Gen.ike.DecodeDecrypt P bs (h.map GenAbs.repHeader) none role).map (fun x => GenAbs.absMsg x.2) =
      (match unprotect P none role h bs with
       | (_, _, .ok m) => .ok (some m)
       | (_, _, .err) => .err
       | (_, _, .fault) => .fault) :=
  Dec.DecodeDecrypt_nil_key P role h bs

/-- the SA object that comes back from the translated `EncodeEncrypt` differs from the one passed in only in the
write buffers of its two integrity hash objects (descriptors, keys, cipher and PRF objects are the same) -/
theorem C01_gen_sa_frame (P : Prims) (k : Gen.security.IKESAKey) (hk : SaWF k) (role : Bool) (r : Rand)
    (gm : Gen.message.IKEMessage) (r' : Rand) (gm' : Gen.message.IKEMessage) (k' : Gen.security.IKESAKey) (out : Bytes)
    (h : Gen.ike.EncodeEncrypt P r gm (some k) role = .ok (r', gm', k', out)) :
    SaWF k' ∧ k'.EncrInfo = k.EncrInfo ∧ k'.IntegInfo = k.IntegInfo ∧ k'.PrfInfo = k.PrfInfo ∧
    k'.Encr_i = k.Encr_i ∧ k'.Encr_r = k.Encr_r ∧ k'.Integ_i.key = k.Integ_i.key ∧ k'.Integ_r.key = k.Integ_r.key := by
  have hf := Enc.EncodeEncrypt_frame P k hk role r gm r' gm' k' out h
  exact ⟨hf.1, hf.2.2.1, hf.2.2.2.1, hf.2.2.2.2.1, hf.2.2.2.2.2.2.2.2.1, hf.2.2.2.2.2.2.2.2.2.1,
    hf.2.2.2.2.2.2.2.2.2.2.2.2.2.2.2.2.2.2.1, by
      have := hf.2.2.2.2.2.2.2.2.2.2.2.2.2.2.2.2.2.2.2
      exact this.2.1⟩

end Ike
