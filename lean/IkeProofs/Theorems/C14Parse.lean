import IkeProofs.Theorems.C14
import IkeProofs.Lemmas.EapParse
import IkeModel.Spec.Parse

/-! # C14 — the independent strict EAP parser (`Spec.parseEap`, `IkeModel/Spec/EapParse.lean`)

`Spec.parseEap` reads an EAP packet along RFC 3748 §4/§5, RFC 4187 §8.1/§10 and RFC 5448 §3
without calling any function of the model of the library.  This file ties it

* to the library's encoder: the parser recovers exactly what `marshalEap` wrote
  (`C14_parse_marshal`), and whatever the parser accepts is the library's own encoding of a
  packet of the domain (`C14_parse_strict`) — together `C14_parse_iff`: the parser accepts
  **exactly** the encodings of the packets of `DomEap`, hence it is injective
  (`C14_parse_injective`) and so is the encoder on the domain;
* to the library's decoder: every packet the parser accepts is decoded by `unmarshalEap` to the
  same value (`C14_parser_decoder_agree`); the decoder accepts strictly more (examples at the
  end: non-zero padding, descending or duplicate attributes, …);
* to the independent encoder `Spec.encodeEapAka`: parser ∘ encoder is the identity on the
  encoder's input (`C14_parse_spec_aka`, no library function in the statement), and every
  accepted EAP-AKA' packet is an output of the encoder (`C14_parse_aka_is_spec`).

No theorem of this file is partial: all methods, both directions, no size bound. -/

set_option linter.unusedVariables false

namespace Ike

/-! ## parser ∘ library encoder -/

/-- **C14, the framing clause in its strongest form** ("the encoded packet is well-formed: the length
field equals the packet size, Success/Failure carry no data, expanded types carry a 24-bit vendor
id and 32-bit vendor type, every EAP-AKA' attribute occupies a multiple of four octets with its
length field in words, zero padding, and for AT_RES / AT_KDF_INPUT the exact value length in
bits"): for every packet of the domain, the independent strict RFC parser accepts the octets the
library wrote and recovers exactly the packet that was encoded. -/
theorem C14_parse_marshal (e : Eap) (bs : Bytes) (hd : DomEap e) (h : marshalEap e = .ok bs) :
    Spec.parseEap bs = some e :=
  parseEap_complete hd h

/-- the hypotheses are satisfiable: a Response with RAND, a padded RES, a padded network name, KDF
and a checkcode is in the domain, it encodes, and the parser (evaluated by the kernel) returns it -/
example : DomEap ⟨2, 7, .aka ⟨1, 0,
      [⟨1, 5, 0, zeros 16⟩, ⟨3, 3, 40, [1, 2, 3, 4, 5]⟩, ⟨23, 2, 24, [97, 98, 99]⟩, ⟨24, 1, 0, [0, 1]⟩,
       ⟨134, 6, 0, zeros 20⟩]⟩⟩ ∧
    (marshalEap ⟨2, 7, .aka ⟨1, 0,
      [⟨1, 5, 0, zeros 16⟩, ⟨3, 3, 40, [1, 2, 3, 4, 5]⟩, ⟨23, 2, 24, [97, 98, 99]⟩, ⟨24, 1, 0, [0, 1]⟩,
       ⟨134, 6, 0, zeros 20⟩]⟩⟩).map Spec.parseEap =
    .ok (some ⟨2, 7, .aka ⟨1, 0,
      [⟨1, 5, 0, zeros 16⟩, ⟨3, 3, 40, [1, 2, 3, 4, 5]⟩, ⟨23, 2, 24, [97, 98, 99]⟩, ⟨24, 1, 0, [0, 1]⟩,
       ⟨134, 6, 0, zeros 20⟩]⟩⟩) := by decide +kernel

/-- **C14, strictness**: whatever the strict parser accepts is the library's own (canonical)
encoding of the value it returns, and that value lies in the domain of the property — no octet
string outside the image of `marshalEap` on `DomEap` is accepted. -/
theorem C14_parse_strict (bs : Bytes) (e : Eap) (h : Spec.parseEap bs = some e) :
    marshalEap e = .ok bs :=
  (parseEap_sound h).2

/-- … and the value returned is a packet of the domain of the property. -/
theorem C14_parse_domain (bs : Bytes) (e : Eap) (h : Spec.parseEap bs = some e) : DomEap e :=
  (parseEap_sound h).1

example : Spec.parseEap [1, 2, 0, 6, 1, 0x61] = some ⟨1, 2, .identity [0x61]⟩ := by decide +kernel

/-- **C14, exact characterisation**: the independent parser accepts `bs` as `e` **iff** `e` is a
packet of the domain and `bs` is what the library's encoder writes for it. -/
theorem C14_parse_iff (bs : Bytes) (e : Eap) :
    Spec.parseEap bs = some e ↔ DomEap e ∧ marshalEap e = .ok bs :=
  ⟨parseEap_sound, fun h => parseEap_complete h.1 h.2⟩

/-- the parser is injective: two octet strings read as the same packet are equal (each accepted
packet has one wire form — the canonical one) -/
theorem C14_parse_injective (b1 b2 : Bytes) (e : Eap)
    (h1 : Spec.parseEap b1 = some e) (h2 : Spec.parseEap b2 = some e) : b1 = b2 := by
  have m1 := C14_parse_strict b1 e h1
  have m2 := C14_parse_strict b2 e h2
  rw [m1] at m2
  simpa using m2

example : Spec.parseEap [3, 9, 0, 4] = some ⟨3, 9, .none⟩ := by decide +kernel

/-- the library's encoder is injective on the domain: the parser is a left inverse -/
theorem C14_marshal_injective (e1 e2 : Eap) (bs : Bytes) (d1 : DomEap e1) (d2 : DomEap e2)
    (m1 : marshalEap e1 = .ok bs) (m2 : marshalEap e2 = .ok bs) : e1 = e2 := by
  have p1 := C14_parse_marshal e1 bs d1 m1
  have p2 := C14_parse_marshal e2 bs d2 m2
  rw [p1] at p2
  simpa using p2

example : DomEap ⟨2, 3, .expanded 10415 3 [2, 0, 0]⟩ ∧ DomEap ⟨1, 2, .nak [50]⟩ := by decide

/-- **C14, "the length field equals the packet size"**, read off the parser: every accepted packet
starts `code ‖ identifier ‖ 16-bit big-endian size of the whole packet` and is at most 65535
octets long. -/
theorem C14_parse_length (bs : Bytes) (e : Eap) (h : Spec.parseEap bs = some e) :
    byteAt bs 0 = e.code ∧ byteAt bs 1 = e.ident ∧
    (byteAt bs 2).toNat * 256 + (byteAt bs 3).toNat = bs.length ∧ 4 ≤ bs.length ∧ bs.length ≤ 65535 := by
  have hd := C14_parse_domain bs e h
  obtain ⟨h0, h1, h2, h3, _⟩ := C14_wf_length e bs hd (C14_parse_strict bs e h)
  have := hd.2.2
  exact ⟨h0, h1, h2, by omega, by omega⟩

example : Spec.parseEap [2, 3, 0, 15, 254, 0, 0x28, 0xaf, 0, 0, 0, 3, 2, 0, 0]
    = some ⟨2, 3, .expanded 10415 3 [2, 0, 0]⟩ := by decide +kernel

/-! ## parser and library decoder -/

/-- **C14, round trip seen from the wire**: every canonical packet — every octet string the
independent strict parser accepts — is decoded by the library to the very same value (code,
identifier, method data, and for EAP-AKA' every stored attribute field). -/
theorem C14_parser_decoder_agree (bs : Bytes) (e : Eap) (h : Spec.parseEap bs = some e) :
    unmarshalEap bs = .ok e :=
  C14_roundtrip e bs (C14_parse_domain bs e h) (C14_parse_strict bs e h)

example : Spec.parseEap [2, 7, 0, 20, 50, 1, 0, 0, 3, 3, 0, 40, 1, 2, 3, 4, 5, 0, 0, 0]
    = some ⟨2, 7, .aka ⟨1, 0, [⟨3, 3, 40, [1, 2, 3, 4, 5]⟩]⟩⟩ := by decide +kernel

/-- on the encodings of the domain the library's decoder and the independent parser return the
same packet -/
theorem C14_decoder_parser_agree (e : Eap) (bs : Bytes) (hd : DomEap e) (h : marshalEap e = .ok bs) :
    unmarshalEap bs = .ok e ∧ Spec.parseEap bs = some e :=
  ⟨C14_roundtrip e bs hd h, C14_parse_marshal e bs hd h⟩

example : DomEap ⟨1, 2, .notification [0x61, 0x62]⟩ := by decide

/-- attribute values through the parser: in an accepted EAP-AKA' packet, `GetAttr(t)` on the parsed
value and on the library-decoded value agree (they are the same value), and the value read is free
of padding: the library emits it as `marshalAkaAttr`, four-octet aligned. -/
theorem C14_parse_getattr (bs : Bytes) (code ident : UInt8) (a : Aka)
    (h : Spec.parseEap bs = some ⟨code, ident, .aka a⟩) :
    AkaBuilt a ∧ ∃ d, unmarshalEap bs = .ok ⟨code, ident, .aka d⟩ ∧ ∀ t, akaGetAttr d t = akaGetAttr a t :=
  ⟨(C14_parse_domain bs _ h).2.1, a, C14_parser_decoder_agree bs _ h, fun _ => rfl⟩

example : Spec.parseEap [1, 7, 0, 12, 50, 1, 0, 0, 24, 1, 0, 1] = some ⟨1, 7, .aka ⟨1, 0, [⟨24, 1, 0, [0, 1]⟩]⟩⟩ := by
  decide +kernel

/-! ## parser ∘ independent encoder (no library function in the statement) -/

/-- **C14, specification level**: for every EAP-AKA' packet the independent encoder can express —
code other than Success / Failure, attribute types strictly ascending, every value of a size the
setter accepts (`AkaValOk`: RAND / AUTN / MAC 16 octets, RES 4..16, KDF 2, KDF_INPUT ≤ 1016,
CHECKCODE a multiple of 4 and ≤ 1016) — the independent parser reads the independent encoder's
octets back to code, identifier, subtype and, per attribute, type, word count, actual-length
field and the unpadded value (`Spec.akaAttrOf`). -/
theorem C14_parse_spec_aka (code ident st : UInt8) (attrs : List (UInt8 × Bytes))
    (hc : code ≠ 3 ∧ code ≠ 4)
    (hs : attrs.Pairwise (fun p q => p.1 < q.1))
    (hv : ∀ p ∈ attrs, AkaValOk p.1 p.2) :
    Spec.parseEap (Spec.encodeEapAka code ident st attrs) =
      some ⟨code, ident, .aka ⟨st, 0, attrs.map (fun p => Spec.akaAttrOf p.1 p.2)⟩⟩ := by
  obtain ⟨hb, hmap⟩ := akaAttrOf_list st attrs hs hv
  have hm := C14_wf_aka_is_spec code ident _ hb
  dsimp only at hm
  rw [hmap] at hm
  exact C14_parse_marshal _ _ (domEap_aka code ident _ hc hb) hm

/-- the side conditions are satisfiable (RAND, 5-octet RES, 3-octet name, KDF, 20-octet checkcode) -/
example : ((2 : UInt8) ≠ 3 ∧ (2 : UInt8) ≠ 4) ∧
    [((1 : UInt8), zeros 16), (3, [1, 2, 3, 4, 5]), (23, [97, 98, 99]), (24, [0, 1]), (134, zeros 20)].Pairwise
      (fun p q => p.1 < q.1) ∧
    ∀ p ∈ [((1 : UInt8), zeros 16), (3, [1, 2, 3, 4, 5]), (23, [97, 98, 99]), (24, [0, 1]), (134, zeros 20)],
      AkaValOk p.1 p.2 := by decide

/-- **converse**: every EAP-AKA' packet the parser accepts is an output of the independent encoder,
on the (type, value) pairs of the attributes it returns. -/
theorem C14_parse_aka_is_spec (bs : Bytes) (code ident : UInt8) (a : Aka)
    (h : Spec.parseEap bs = some ⟨code, ident, .aka a⟩) :
    bs = Spec.encodeEapAka code ident a.subtype (a.attrs.map (fun x => (x.atype, x.value))) := by
  have hb : AkaBuilt a := (C14_parse_domain bs _ h).2.1
  have h1 := C14_parse_strict bs _ h
  rw [C14_wf_aka_is_spec code ident a hb] at h1
  simpa using h1.symm

example : Spec.parseEap (Spec.encodeEapAka 2 7 1 [(3, [1, 2, 3, 4, 5]), (23, [97, 98, 99])])
    = some ⟨2, 7, .aka ⟨1, 0, [⟨3, 3, 40, [1, 2, 3, 4, 5]⟩, ⟨23, 2, 24, [97, 98, 99]⟩]⟩⟩ := by decide +kernel

/-! ## the parser without the liberties -/

/-- `Spec.parseEapRfc` (codes 1..4 only, a Request / Response carries a Type, checkcode of 0, 20 or
32 octets) accepts exactly the packets `Spec.parseEap` accepts whose value has the RFC shape; hence
all theorems above hold for it. -/
theorem C14_parse_rfc_iff (bs : Bytes) (e : Eap) :
    Spec.parseEapRfc bs = some e ↔ Spec.parseEap bs = some e ∧ Spec.eapRfcShape e = true := by
  unfold Spec.parseEapRfc
  cases hp : Spec.parseEap bs with
  | none => simp
  | some x =>
    dsimp only
    by_cases hs : Spec.eapRfcShape x = true
    · rw [if_pos hs]
      constructor
      · intro h; simp only [Option.some.injEq] at h; subst h; exact ⟨rfl, hs⟩
      · intro h; exact h.1
    · rw [if_neg hs]
      constructor
      · intro h; simp at h
      · intro h
        have : x = e := by simpa using h.1
        rw [this] at hs
        exact absurd h.2 hs

example : Spec.parseEapRfc [2, 7, 0, 20, 50, 1, 0, 0, 3, 3, 0, 40, 1, 2, 3, 4, 5, 0, 0, 0]
      = some ⟨2, 7, .aka ⟨1, 0, [⟨3, 3, 40, [1, 2, 3, 4, 5]⟩]⟩⟩ ∧
    -- the liberties: code 9, a Request without a Type, a 4-octet checkcode
    Spec.parseEap [9, 7, 0, 6, 1, 0x61] = some ⟨9, 7, .identity [0x61]⟩ ∧ Spec.parseEapRfc [9, 7, 0, 6, 1, 0x61] = none ∧
    Spec.parseEap [1, 7, 0, 4] = some ⟨1, 7, .none⟩ ∧ Spec.parseEapRfc [1, 7, 0, 4] = none ∧
    Spec.parseEap [1, 7, 0, 16, 50, 1, 0, 0, 134, 2, 0, 0, 1, 2, 3, 4]
      = some ⟨1, 7, .aka ⟨1, 0, [⟨134, 2, 0, [1, 2, 3, 4]⟩]⟩⟩ ∧
    Spec.parseEapRfc [1, 7, 0, 16, 50, 1, 0, 0, 134, 2, 0, 0, 1, 2, 3, 4] = none := by decide +kernel

/-! ## use inside the RFC 7296 parser (C05): replacing the trusted step of `Spec.parseEAP` -/

/-- `Spec.parseEAP` (`IkeModel/Spec/Parse.lean`) reads the EAP packet of an EAP payload with the
model's `unmarshalEap` and keeps it when `marshalEap` re-creates the octets.  The independent
parser refines it: whatever `Spec.parseEap` accepts, `Spec.parseEAP` accepts with the same value
(the converse fails only outside the domain, e.g. an unknown attribute type, which the library
decodes and re-encodes unchanged). -/
theorem C14_parse_refines_trusted (bs : Bytes) (e : Eap) (h : Spec.parseEap bs = some e) :
    Spec.parseEAP bs = some (.eap e) := by
  unfold Spec.parseEAP
  rw [C14_parser_decoder_agree bs e h]
  dsimp only
  rw [if_pos (C14_parse_strict bs e h)]

example : Spec.parseEap [1, 7, 0, 12, 50, 1, 0, 0, 7, 1, 0, 0] = none ∧
    Spec.parseEAP [1, 7, 0, 12, 50, 1, 0, 0, 7, 1, 0, 0] = some (.eap ⟨1, 7, .aka ⟨1, 0, [⟨7, 1, 0, []⟩]⟩⟩) := by
  decide +kernel

/-- the two facts `IkeProofs/Lemmas/Parse.lean` uses about `Spec.parseEAP` (`parseEAP_encode`,
`encodeEAP_parse`) hold for the library-free `Spec.parseEapPayload`: it reads the encoding of every
packet of the domain back, and whatever it accepts the encoder writes again octet for octet. -/
theorem C14_parse_payload (bs : Bytes) :
    (∀ e, DomEap e → marshalEap e = .ok bs → Spec.parseEapPayload bs = some (.eap e)) ∧
    (∀ p, Spec.parseEapPayload bs = some p → ∃ e, p = .eap e ∧ DomEap e ∧ marshalEap e = .ok bs) := by
  unfold Spec.parseEapPayload
  constructor
  · intro e hd h
    rw [C14_parse_marshal e bs hd h]; rfl
  · intro p h
    cases hp : Spec.parseEap bs with
    | none => rw [hp] at h; simp at h
    | some e =>
      rw [hp] at h
      simp only [Option.map_some, Option.some.injEq] at h
      exact ⟨e, h.symm, C14_parse_domain bs e hp, C14_parse_strict bs e hp⟩

example : Spec.parseEapPayload [2, 2, 0, 6, 3, 50] = some (.eap ⟨2, 2, .nak [50]⟩) := by decide +kernel

/-! ## concrete packets of every method (evaluated by the kernel) -/

example : Spec.parseEap [1, 1, 0, 10, 1, 0x61, 0x40, 0x62, 0x2e, 0x63]
    = some ⟨1, 1, .identity [0x61, 0x40, 0x62, 0x2e, 0x63]⟩ := by decide +kernel
example : Spec.parseEap [1, 2, 0, 7, 2, 0x68, 0x69] = some ⟨1, 2, .notification [0x68, 0x69]⟩ := by decide +kernel
example : Spec.parseEap [2, 2, 0, 6, 3, 50] = some ⟨2, 2, .nak [50]⟩ := by decide +kernel
example : Spec.parseEap [1, 3, 0, 12, 254, 0, 0x28, 0xaf, 0, 0, 0, 3] = some ⟨1, 3, .expanded 10415 3 []⟩ := by
  decide +kernel
example : Spec.parseEap [3, 4, 0, 4] = some ⟨3, 4, .none⟩ ∧ Spec.parseEap [4, 5, 0, 4] = some ⟨4, 5, .none⟩ := by
  decide +kernel
/-- EAP-AKA' Challenge: RAND, AUTN, KDF_INPUT "abc" (24 bits, one octet of padding), KDF 1, MAC -/
example : Spec.parseEap ([1, 6, 0, 80, 50, 1, 0, 0] ++ [1, 5, 0, 0] ++ zeros 16 ++ [2, 5, 0, 0] ++ zeros 16 ++
      [11, 5, 0, 0] ++ zeros 16 ++ [23, 2, 0, 24, 97, 98, 99, 0] ++ [24, 1, 0, 1])
    = some ⟨1, 6, .aka ⟨1, 0, [⟨1, 5, 0, zeros 16⟩, ⟨2, 5, 0, zeros 16⟩, ⟨11, 5, 0, zeros 16⟩,
        ⟨23, 2, 24, [97, 98, 99]⟩, ⟨24, 1, 0, [0, 1]⟩]⟩⟩ := by decide +kernel
/-- a 32-octet checkcode (RFC 5448) and an empty one -/
example : Spec.parseEap ([2, 6, 0, 44, 50, 1, 0, 0, 134, 9, 0, 0] ++ zeros 32)
      = some ⟨2, 6, .aka ⟨1, 0, [⟨134, 9, 0, zeros 32⟩]⟩⟩ ∧
    Spec.parseEap [2, 6, 0, 12, 50, 1, 0, 0, 134, 1, 0, 0] = some ⟨2, 6, .aka ⟨1, 0, [⟨134, 1, 0, []⟩]⟩⟩ := by
  decide +kernel

/-! ## strictness, concretely: what the parser refuses — and the library's decoder accepts -/

/-- RFC 3748 §4: wrong Length (too small, too large), fewer than 4 octets, Success with data,
Identity / Nak without data, unknown method type, Expanded shorter than vendor id + vendor type -/
example :
    Spec.parseEap [1, 2, 0, 5, 1, 0x61] = none ∧ Spec.parseEap [1, 2, 0, 7, 1, 0x61] = none ∧
    Spec.parseEap [1, 2, 0] = none ∧ Spec.parseEap [] = none ∧
    Spec.parseEap [3, 2, 0, 6, 1, 0x61] = none ∧ Spec.parseEap [4, 2, 0, 6, 1, 0x61] = none ∧
    Spec.parseEap [1, 2, 0, 5, 1] = none ∧ Spec.parseEap [2, 2, 0, 5, 3] = none ∧
    Spec.parseEap [1, 2, 0, 6, 4, 0x61] = none ∧
    Spec.parseEap [1, 3, 0, 11, 254, 0, 0x28, 0xaf, 0, 0, 0] = none := by decide +kernel

/-- RFC 4187 / 5448: non-zero padding, non-zero header Reserved, non-zero attribute Reserved,
descending order, duplicate attribute, bit length not a multiple of 8, RES shorter than 32 bits,
word count larger than needed, attribute Length 0, attribute running past the packet, a lone
trailing octet, AT_KDF of two words, unknown attribute type -/
example :
    Spec.parseEap [2, 7, 0, 20, 50, 1, 0, 0, 3, 3, 0, 40, 1, 2, 3, 4, 5, 0, 0, 9] = none ∧
    Spec.parseEap [2, 7, 0, 20, 50, 1, 0, 1, 3, 3, 0, 40, 1, 2, 3, 4, 5, 0, 0, 0] = none ∧
    Spec.parseEap ([1, 7, 0, 28, 50, 1, 0, 0, 1, 5, 0, 1] ++ zeros 16) = none ∧
    Spec.parseEap [1, 7, 0, 20, 50, 1, 0, 0, 24, 1, 0, 1, 23, 2, 0, 24, 97, 98, 99, 0] = none ∧
    Spec.parseEap [1, 7, 0, 16, 50, 1, 0, 0, 24, 1, 0, 1, 24, 1, 0, 2] = none ∧
    Spec.parseEap [2, 7, 0, 20, 50, 1, 0, 0, 3, 3, 0, 41, 1, 2, 3, 4, 5, 0, 0, 0] = none ∧
    Spec.parseEap [2, 7, 0, 16, 50, 1, 0, 0, 3, 2, 0, 24, 1, 2, 3, 0] = none ∧
    Spec.parseEap [2, 7, 0, 20, 50, 1, 0, 0, 23, 3, 0, 24, 97, 98, 99, 0, 0, 0, 0, 0] = none ∧
    Spec.parseEap [1, 7, 0, 12, 50, 1, 0, 0, 24, 0, 0, 1] = none ∧
    Spec.parseEap [1, 7, 0, 12, 50, 1, 0, 0, 24, 2, 0, 1] = none ∧
    Spec.parseEap [1, 7, 0, 13, 50, 1, 0, 0, 24, 1, 0, 1, 77] = none ∧
    Spec.parseEap [1, 7, 0, 16, 50, 1, 0, 0, 24, 2, 1, 2, 3, 4, 5, 6] = none ∧
    Spec.parseEap [1, 7, 0, 12, 50, 1, 0, 0, 7, 1, 0, 0] = none := by decide +kernel

/-- **the library's decoder is not strict**: each of these non-canonical packets is refused by the
parser above and accepted by `unmarshalEap` — non-zero padding is dropped, a non-zero attribute
Reserved is dropped, descending order is sorted, of a duplicate the last wins, a lone trailing
octet is ignored, Identity without data, Success with data, an AT_KDF of two words (6-octet value).
None of them is in the image of the encoder on the domain, so the round-trip clause of C14 is not
affected; the values returned for the first five re-encode to different octets (the decoder is not
injective). -/
example :
    unmarshalEap [2, 7, 0, 20, 50, 1, 0, 0, 3, 3, 0, 40, 1, 2, 3, 4, 5, 0, 0, 9]
      = .ok ⟨2, 7, .aka ⟨1, 0, [⟨3, 3, 40, [1, 2, 3, 4, 5]⟩]⟩⟩ ∧
    unmarshalEap ([1, 7, 0, 28, 50, 1, 0, 0, 1, 5, 0, 1] ++ zeros 16) = .ok ⟨1, 7, .aka ⟨1, 0, [⟨1, 5, 0, zeros 16⟩]⟩⟩ ∧
    unmarshalEap [1, 7, 0, 20, 50, 1, 0, 0, 24, 1, 0, 1, 23, 2, 0, 24, 97, 98, 99, 0]
      = .ok ⟨1, 7, .aka ⟨1, 0, [⟨23, 2, 24, [97, 98, 99]⟩, ⟨24, 1, 0, [0, 1]⟩]⟩⟩ ∧
    unmarshalEap [1, 7, 0, 16, 50, 1, 0, 0, 24, 1, 0, 1, 24, 1, 0, 2] = .ok ⟨1, 7, .aka ⟨1, 0, [⟨24, 1, 0, [0, 2]⟩]⟩⟩ ∧
    unmarshalEap [1, 7, 0, 13, 50, 1, 0, 0, 24, 1, 0, 1, 77] = .ok ⟨1, 7, .aka ⟨1, 0, [⟨24, 1, 0, [0, 1]⟩]⟩⟩ ∧
    unmarshalEap [1, 2, 0, 5, 1] = .ok ⟨1, 2, .identity []⟩ ∧
    unmarshalEap [3, 2, 0, 6, 1, 0x61] = .ok ⟨3, 2, .identity [0x61]⟩ ∧
    unmarshalEap [1, 7, 0, 16, 50, 1, 0, 0, 24, 2, 1, 2, 3, 4, 5, 6]
      = .ok ⟨1, 7, .aka ⟨1, 0, [⟨24, 2, 0, [1, 2, 3, 4, 5, 6]⟩]⟩⟩ := by decide +kernel

/-- AT_KDF with Length octet 0: the decoder computes the value size `4·0 − 2` in 8-bit arithmetic
(= 254) and takes the next 254 octets as the KDF value; the strict parser refuses Length 0. -/
example : unmarshalEap ([1, 7, 1, 8, 50, 1, 0, 0, 24, 0] ++ zeros 254) = .ok ⟨1, 7, .aka ⟨1, 0, [⟨24, 0, 0, zeros 254⟩]⟩⟩ ∧
    Spec.parseEap ([1, 7, 1, 8, 50, 1, 0, 0, 24, 0] ++ zeros 254) = none := by decide +kernel

end Ike
