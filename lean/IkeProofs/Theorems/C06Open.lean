import IkeProofs.Lemmas.SkOpen
import IkeProofs.Theorems.C06
import IkeProofs.Theorems.C05Parse

/-!
# C06, receiving side — an independent implementation holding the keys verifies, decrypts and parses

`Spec.skOpen P k msg` (IkeModel/Spec/SkOpen.lean) is the receiver of RFC 7296 §3.14 written from
the RFC, sharing nothing with the model of the library's `DecodeDecrypt` (`unprotect` /
`decryptMsg`, IkeModel/Ike.lean) or of its decoder (IkeModel/Message/*): size and header checks,
Next Payload = 46, the Encrypted payload is the last one with flag octet 0, the trailing
`k.icvLen` octets equal the truncated HMAC under `k.ka` of everything before them, IV, CBC
decryption under `k.ke` (`cbcDec`), Pad Length octet, padding removal.  `Spec.skOpenPayloads`
continues with the independent strict chain parser `Spec.parseChain` of C05.

* `C06_open_spec_message` — the opener reads every message of the independent producer
  `Spec.skMessage` (any legal padding) back to its header fields, first inner type, inner octets and
  padding: producer and opener specification are consistent.
* `C06_independent_peer_opens` — the clause of the property: what `EncodeEncrypt` returns is
  verified, decrypted and parsed by the independent receiver, under the SENDER's direction keys,
  to the original payloads and header fields.
* `C06_open_accepts_only_rfc_layout`, `C06_open_rejects_bad_checksum`,
  `C06_open_rejects_replaced_checksum` — the opener is not vacuous: it accepts nothing whose
  checksum is not the truncated HMAC of the preceding octets, and whatever it returns is the
  cut `inner ‖ pad ‖ [|pad|]` of the CBC decryption.
* `C06_open_implies_unprotect` — every datagram the independent opener accepts is accepted by the
  library's `DecodeDecrypt` with the same header and the same decrypted inner octets.
-/

set_option linter.unusedVariables false

namespace Ike
open Spec

/-- **Producer and receiver specification agree.**  For lawful primitives, a checksum length the
hash can supply, a header with version nibbles < 16, a 16-octet IV, ANY padding of at most 255
arbitrary octets that fills the last block, and an Encrypted payload that fits the 16-bit
payload length: the independent opener, holding the same parameters `k`, accepts the RFC message
`Spec.skMessage P k h first inner iv pad` and returns the header (`skHeader`: the SPIs, version,
exchange type, flags and message ID of `h`, Next Payload = 46, payload octets = the datagram after
its 28-octet header), the type of the first inner payload, the inner octets and the padding. -/
theorem C06_open_spec_message (P : Prims) (hP : P.Lawful) (k : SkParams) (hicv : k.icvLen ≤ P.macLen k.hash)
    (h : Header) (hmaj : h.major.toNat < 16) (hmin : h.minor.toNat < 16) (first : UInt8)
    (inner iv pad : Bytes) (hiv : iv.length = 16) (hpad : pad.length ≤ 255)
    (hal : (inner.length + pad.length + 1) % 16 = 0)
    (hfit : 4 + 16 + (inner.length + pad.length + 1) + k.icvLen ≤ 0xFFFF) :
    skOpen P k (skMessage P k h first inner iv pad) = some (skHeader P k h first inner iv pad, first, inner, pad) ∧
    (skHeader P k h first inner iv pad).ispi = h.ispi ∧ (skHeader P k h first inner iv pad).rspi = h.rspi ∧
    (skHeader P k h first inner iv pad).major = h.major ∧ (skHeader P k h first inner iv pad).minor = h.minor ∧
    (skHeader P k h first inner iv pad).exch = h.exch ∧ (skHeader P k h first inner iv pad).flags = h.flags ∧
    (skHeader P k h first inner iv pad).mid = h.mid ∧ (skHeader P k h first inner iv pad).next = 46 ∧
    (skHeader P k h first inner iv pad).payloadBytes = (skMessage P k h first inner iv pad).drop 28 :=
  ⟨skOpen_skMessage P hP k hicv h hmaj hmin first inner iv pad hiv hpad hal hfit, rfl, rfl, rfl, rfl, rfl, rfl, rfl,
    rfl, skHeader_payloadBytes P hP k hicv h first inner iv pad⟩

/-- … and with the independent chain parser behind it: when `inner` is the §3.2 chain the
independent encoder writes for payloads `ps` of the encodable domain, the opened message holds
exactly `ps`. -/
theorem C06_open_spec_payloads (P : Prims) (hP : P.Lawful) (k : SkParams) (hicv : k.icvLen ≤ P.macLen k.hash)
    (h : Header) (hmaj : h.major.toNat < 16) (hmin : h.minor.toNat < 16)
    (ps : List Payload) (hd : ∀ p ∈ ps, p.Dom) (inner : Bytes) (henc : encodePayloads [] ps = .ok inner)
    (iv pad : Bytes) (hiv : iv.length = 16) (hpad : pad.length ≤ 255)
    (hal : (inner.length + pad.length + 1) % 16 = 0)
    (hfit : 4 + 16 + (inner.length + pad.length + 1) + k.icvLen ≤ 0xFFFF) :
    skOpenPayloads P k (skMessage P k h (firstPayloadType ps) inner iv pad) =
      some ⟨skHeader P k h (firstPayloadType ps) inner iv pad, ps⟩ := by
  unfold skOpenPayloads
  rw [skOpen_skMessage P hP k hicv h hmaj hmin _ inner iv pad hiv hpad hal hfit]
  simp only
  rw [C05_parse_chain ps hd inner henc]

/-- **C06, "an independent implementation holding the keys verifies, decrypts and parses it to the
original payloads".**  For every lawful `P`, well-formed SA, role (both directions), random source
(all IVs and padding octets) and message of the encodable domain (`m.Dom`: version nibbles < 16,
every payload in the domain of C01/C03/C05 — in particular no Encrypted payload): if
`EncodeEncrypt` succeeds with datagram `bs`, then the independent receiver — given only the
SENDER-direction parameters `sa.skParams role` (cipher key, integrity key and hash of direction
`role`, checksum length) — accepts `bs`: the checksum verifies, the body decrypts, the padding is
legal, and the independent strict parser reads the inner chain back to exactly `m.payloads`.  The
header it reads is the header `EncodeEncrypt` leaves in the message (`mo.hdr`), which carries the
caller's SPIs, version, exchange type, flags and message ID, Next Payload = 46 and, as payload
octets, the datagram after its first 28 octets.  The first inner type the opener returns is the
type of the first payload (0 for none), and the inner octets are the encoding of the payloads. -/
theorem C06_independent_peer_opens (P : Prims) (hP : P.Lawful) (sa : SAKey) (hw : sa.WF P) (role : Bool)
    (r : Rand) (m : Msg) (hd : m.Dom) (sa' : SAKey) (r' : Rand) (bs : Bytes) (mo : Msg)
    (h : protect P sa role r m = (sa', r', .ok (bs, mo))) :
    skOpenPayloads P (sa.skParams role) bs = some ⟨mo.hdr, m.payloads⟩ ∧
    (∃ inner pad, encodeChain m.payloads = .ok inner ∧ pad.length = 16 - inner.length % 16 - 1 ∧
      skOpen P (sa.skParams role) bs = some (mo.hdr, firstType m.payloads, inner, pad)) ∧
    mo.hdr.ispi = m.hdr.ispi ∧ mo.hdr.rspi = m.hdr.rspi ∧ mo.hdr.major = m.hdr.major ∧
    mo.hdr.minor = m.hdr.minor ∧ mo.hdr.exch = m.hdr.exch ∧ mo.hdr.flags = m.hdr.flags ∧
    mo.hdr.mid = m.hdr.mid ∧ mo.hdr.next = 46 ∧ mo.hdr.payloadBytes = bs.drop 28 := by
  obtain ⟨inner, padDraw, iv, r1, henc, hd1, hd2, hiv, hpadl, hfit, hbs, hmo, _⟩ :=
    C06_protect_is_rfc P hP sa hw role r m sa' r' bs mo h
  have hicv : (sa.skParams role).icvLen ≤ P.macLen (sa.skParams role).hash := WF_integObj P sa hw role
  have hcl : (sa.skParams role).icvLen = sa.integInfo.outLen := rfl
  have hspec : encodePayloads [] m.payloads = .ok inner := by
    rw [← C05_encode_chain_is_rfc m.payloads hd.2.2]; exact henc
  generalize hpd : padDraw.take (16 - inner.length % 16 - 1) = pad at *
  have hopen := C06_open_spec_message P hP (sa.skParams role) hicv m.hdr hd.1 hd.2.1 (firstType m.payloads)
    inner iv pad hiv (by omega) (by omega) (by omega)
  have hpay := C06_open_spec_payloads P hP (sa.skParams role) hicv m.hdr hd.1 hd.2.1 m.payloads hd.2.2 inner hspec
    iv pad hiv (by omega) (by omega) (by omega)
  rw [firstPayloadType_eq] at hpay
  subst hbs hmo
  exact ⟨hpay, ⟨inner, pad, henc, hpadl, hopen.1⟩, rfl, rfl, rfl, rfl, rfl, rfl, rfl, rfl, hopen.2.2.2.2.2.2.2.2.2⟩

/-- the sender-direction parameters depend on descriptors and keys only -/
theorem skParams_sim {sa sb : SAKey} (hsim : sa ≈ₛ sb) (role : Bool) : sb.skParams role = sa.skParams role := by
  have hi := hsim.integObj role
  have hk : (sb.encrObj role).key = (sa.encrObj role).key := by
    cases role
    · show sb.encr_r.key = sa.encr_r.key; rw [hsim.encr_r]
    · show sb.encr_i.key = sa.encr_i.key; rw [hsim.encr_i]
  unfold SAKey.skParams
  rw [hk, hi.1, hi.2, hsim.integInfo]

/-- The same for a peer whose own SA object `sb` holds the same descriptors and keys (`sa ≈ₛ sb`,
hash-object buffers arbitrary: any history on either side): the parameters it reads off ITS object
for the sender's direction `role` open the datagram. -/
theorem C06_independent_peer_opens_sim (P : Prims) (hP : P.Lawful) (sa sb : SAKey) (hw : sa.WF P) (hsim : sa ≈ₛ sb)
    (role : Bool) (r : Rand) (m : Msg) (hd : m.Dom) (sa' : SAKey) (r' : Rand) (bs : Bytes) (mo : Msg)
    (h : protect P sa role r m = (sa', r', .ok (bs, mo))) :
    skOpenPayloads P (sb.skParams role) bs = some ⟨mo.hdr, m.payloads⟩ := by
  rw [skParams_sim hsim role]
  exact (C06_independent_peer_opens P hP sa hw role r m hd sa' r' bs mo h).1

/-- **The opener accepts only the §3.14 layout** (no hypothesis on the primitives): whenever
`skOpen` returns something for a datagram `msg`, then `msg` holds at least header, generic header,
IV, one block and checksum; its header Length is its size; its first payload is Encrypted (46),
with flag octet 0 and a Payload Length of everything after the header; the trailing `k.icvLen`
octets ARE the truncated HMAC under `k.ka` of all preceding octets; the ciphertext is whole
blocks; the returned header is the one read from the datagram, the returned type is the Encrypted
payload's Next Payload octet; and `inner ‖ pad ‖ [|pad|]` is the CBC decryption under `k.ke`, with
the 16 octets after the generic header as IV, of the octets between IV and checksum. -/
theorem C06_open_accepts_only_rfc_layout (P : Prims) (k : SkParams) (msg : Bytes) (hd : Header) (first : UInt8)
    (inner pad : Bytes) (h : skOpen P k msg = some (hd, first, inner, pad)) :
    28 + 4 + 16 + 16 + k.icvLen ≤ msg.length ∧
    beNat ((msg.drop 24).take 4) = msg.length ∧ byteAt msg 16 = 46 ∧ byteAt msg 29 = 0 ∧
    (byteAt msg 30).toNat * 256 + (byteAt msg 31).toNat = msg.length - 28 ∧
    msg.drop (msg.length - k.icvLen) =
      (P.mac k.hash k.ka (msg.take (msg.length - k.icvLen))).take k.icvLen ∧
    (msg.length - 48 - k.icvLen) % 16 = 0 ∧
    hd = readHeader msg ∧ first = byteAt msg 28 ∧ pad.length ≤ 255 ∧
    inner ++ pad ++ [UInt8.ofNat pad.length] =
      cbcDec (P.dec k.ke) ((msg.drop 32).take 16) ((msg.drop 48).take (msg.length - 48 - k.icvLen)) :=
  skOpen_some_inv P k msg hd first inner pad h

/-- **A wrong checksum is refused**: for ANY datagram whose trailing `k.icvLen` octets differ from
the truncated HMAC, under `k.ka`, of the octets before them, the opener returns nothing (and, by
its definition, has not decrypted anything: the comparison precedes the CBC step). -/
theorem C06_open_rejects_bad_checksum (P : Prims) (k : SkParams) (msg : Bytes)
    (hbad : msg.drop (msg.length - k.icvLen) ≠
      (P.mac k.hash k.ka (msg.take (msg.length - k.icvLen))).take k.icvLen) :
    skOpen P k msg = none := by
  cases hs : skOpen P k msg with
  | none => rfl
  | some x =>
    obtain ⟨hd, ft, inner, pad⟩ := x
    exact absurd (skOpen_some_inv P k msg hd ft inner pad hs).2.2.2.2.2.1 hbad

/-- … in particular the RFC message with its checksum replaced by ANY other `k.icvLen` octets
(`C06_open_spec_message` shows that with the right checksum it is accepted, so the hypothesis
`icv' ≠ …` is the only thing that separates the two cases). -/
theorem C06_open_rejects_replaced_checksum (P : Prims) (k : SkParams) (h : Header) (first : UInt8)
    (inner iv pad icv' : Bytes) (hlen : icv'.length = k.icvLen)
    (hne : icv' ≠ (P.mac k.hash k.ka (skSigned P k h first inner iv pad)).take k.icvLen) :
    skOpen P k (skSigned P k h first inner iv pad ++ icv') = none := by
  apply C06_open_rejects_bad_checksum
  rw [List.length_append, hlen, Nat.add_sub_cancel, drop_prefix_eq _ _ _ rfl, take_prefix_eq _ _ _ rfl]
  exact hne

/-- **The library's receiver accepts whatever the independent opener accepts, with the same
result** (arbitrary datagrams, not only produced ones).  If the opener, holding `k`, returns header
`hd`, first inner type `first`, inner octets `inner` for a datagram `msg`, then `DecodeDecrypt` by
a receiver `sb` acting as `rr` whose PEER-direction objects (`!rr`) hold `k`'s keys and hash and
whose checksum length is `k.icvLen` — with a nil header and with the header `hd` — verifies the
checksum, calls the cipher once, and returns `hd` with the library's decoding of the very same
`inner` from the very same `first` (an error exactly when that decoding is one); its
peer-direction integrity object is left holding the signed octets.
The converse does not hold and is not claimed: the opener is STRICT (header Length = datagram
size, flag octet 0, a single Encrypted payload), the library is liberal in these points
(`C05_decode_liberal`); and the opener parses `inner` with the strict `Spec.parseChain`, the
library with `decodeChain` — these agree on the encodable domain (`C05_parser_decoder_agree`). -/
theorem C06_open_implies_unprotect (P : Prims) (hP : P.Lawful) (sb : SAKey) (hw : sb.WF P) (rr : Bool)
    (k : SkParams) (hcl : sb.integInfo.outLen = k.icvLen) (halg : (sb.integObj (!rr)).alg = k.hash)
    (hka : (sb.integObj (!rr)).key = k.ka) (hke : (sb.encrObj (!rr)).key = k.ke)
    (msg : Bytes) (hd : Header) (first : UInt8) (inner pad : Bytes)
    (h : skOpen P k msg = some (hd, first, inner, pad)) :
    ∀ hdr, hdr = none ∨ hdr = some hd →
      unprotect P (some sb) rr hdr msg =
        (some (sb.setInteg (!rr) ⟨k.hash, k.ka, msg.take (msg.length - k.icvLen)⟩), 1,
         (do let ps ← decodeChain first inner; Res.ok (⟨hd, ps⟩ : Msg))) :=
  fun hdr hh => unprotect_of_skOpen P hP sb hw rr k hcl halg hka hke msg hd first inner pad h hdr hh

/-! ### non-vacuity (toy lawful primitives `Prims.skToy`, values in `SkEx`, Lemmas/Sk.lean) -/

/-- the datagram `SkEx.bs = protect Prims.skToy SkEx.sa true SkEx.rnd SkEx.msg`, opened by the
independent receiver with the initiator-direction parameters, by evaluation: header fields,
first inner type 40 (Nonce), the 12 inner octets, the 3 padding octets -/
example : skOpen Prims.skToy (SkEx.sa.skParams true) SkEx.bs =
    some (SkEx.dec.hdr, 40, [43, 0, 0, 7, 1, 2, 3, 0, 0, 0, 5, 9], [7, 8, 9]) := by decide +kernel

/-- … and parsed: the original payloads -/
example : skOpenPayloads Prims.skToy (SkEx.sa.skParams true) SkEx.bs = some ⟨SkEx.dec.hdr, SkEx.msg.payloads⟩ := by
  decide +kernel

/-- the hypotheses of `C06_independent_peer_opens` are satisfiable (and its conclusion, applied) -/
example : ∃ mo, skOpenPayloads Prims.skToy (SkEx.sa.skParams true) SkEx.bs = some ⟨mo, SkEx.msg.payloads⟩ := by
  obtain ⟨sa', r', mo, h⟩ := SkEx.protect_bs_full
  have hd : SkEx.msg.Dom := by
    refine ⟨by decide, by decide, ?_⟩
    intro p hp
    simp only [SkEx.msg, List.mem_cons, List.not_mem_nil, or_false] at hp
    rcases hp with rfl | rfl <;> simp [Payload.Dom]
  exact ⟨mo.hdr, (C06_independent_peer_opens Prims.skToy Prims.skToy_lawful SkEx.sa SkEx.sa_wf true SkEx.rnd SkEx.msg hd
    sa' r' SkEx.bs mo h).1⟩

/-- the hypotheses of `C06_open_implies_unprotect` are satisfiable: the responder `SkEx.sa` (same
keys) on the initiator's datagram -/
example : (unprotect Prims.skToy (some SkEx.sa) false none SkEx.bs).2 =
    (1, (do let ps ← decodeChain 40 [43, 0, 0, 7, 1, 2, 3, 0, 0, 0, 5, 9]; Res.ok (⟨SkEx.dec.hdr, ps⟩ : Msg))) := by
  rw [C06_open_implies_unprotect Prims.skToy Prims.skToy_lawful SkEx.sa SkEx.sa_wf false (SkEx.sa.skParams true)
    rfl rfl rfl rfl SkEx.bs SkEx.dec.hdr 40 [43, 0, 0, 7, 1, 2, 3, 0, 0, 0, 5, 9] [7, 8, 9] (by decide +kernel)
    none (Or.inl rfl)]

/-- the WRONG direction's keys (responder-direction parameters on an initiator's datagram), other
keys (`SkEx.sb`), one flipped bit in the signed octets (octet 7, initiator SPI: 1 → 0; the toy MAC covers its key and the first octets only), one flipped checksum bit (last octet: 0 → 128), a truncated datagram and a
datagram with a trailing octet are all refused -/
example : skOpen Prims.skToy (SkEx.sa.skParams false) SkEx.bs = none := by decide +kernel
example : skOpen Prims.skToy (SkEx.sb.skParams true) SkEx.bs = none := by decide +kernel
example : skOpen Prims.skToy (SkEx.sa.skParams true) (SkEx.bs.take 7 ++ [0] ++ SkEx.bs.drop 8) = none := by
  decide +kernel
example : skOpen Prims.skToy (SkEx.sa.skParams true) (SkEx.bs.take 75 ++ [128]) = none := by
  decide +kernel
example : skOpen Prims.skToy (SkEx.sa.skParams true) (SkEx.bs.take 60) = none := by decide +kernel
example : skOpen Prims.skToy (SkEx.sa.skParams true) (SkEx.bs ++ [0]) = none := by decide +kernel

/-- `C06_open_spec_message` with NON-minimal padding (12 inner octets, 19 arbitrary pad octets),
by the theorem and by evaluation -/
example : skOpen Prims.skToy (SkEx.sa.skParams true)
    (skMessage Prims.skToy (SkEx.sa.skParams true) SkEx.msg.hdr 40
      [43, 0, 0, 7, 1, 2, 3, 0, 0, 0, 5, 9] (List.replicate 16 0xAA) (List.replicate 19 0x55)) =
    some (skHeader Prims.skToy (SkEx.sa.skParams true) SkEx.msg.hdr 40
      [43, 0, 0, 7, 1, 2, 3, 0, 0, 0, 5, 9] (List.replicate 16 0xAA) (List.replicate 19 0x55), 40,
      [43, 0, 0, 7, 1, 2, 3, 0, 0, 0, 5, 9], List.replicate 19 0x55) :=
  (C06_open_spec_message Prims.skToy Prims.skToy_lawful (SkEx.sa.skParams true) (by decide) SkEx.msg.hdr
    (by decide) (by decide) 40 [43, 0, 0, 7, 1, 2, 3, 0, 0, 0, 5, 9] (List.replicate 16 0xAA) (List.replicate 19 0x55)
    rfl (by decide) (by decide) (by decide)).1

example : (skOpenPayloads Prims.skToy (SkEx.sa.skParams true)
    (skMessage Prims.skToy (SkEx.sa.skParams true) SkEx.msg.hdr 40
      [43, 0, 0, 7, 1, 2, 3, 0, 0, 0, 5, 9] (List.replicate 16 0xAA) (List.replicate 19 0x55))).map (·.payloads) =
    some SkEx.msg.payloads := by decide +kernel

/-- the hypothesis of `C06_open_rejects_replaced_checksum` is satisfiable -/
example : skOpen Prims.skToy (SkEx.sa.skParams true)
    (skSigned Prims.skToy (SkEx.sa.skParams true) SkEx.msg.hdr 40 [43, 0, 0, 7, 1, 2, 3, 0, 0, 0, 5, 9]
      (List.replicate 16 0xAA) (List.replicate 3 0x55) ++ List.replicate 12 0) = none :=
  C06_open_rejects_replaced_checksum Prims.skToy (SkEx.sa.skParams true) SkEx.msg.hdr 40
    [43, 0, 0, 7, 1, 2, 3, 0, 0, 0, 5, 9] (List.replicate 16 0xAA) (List.replicate 3 0x55) (List.replicate 12 0) rfl
    (by decide +kernel)

end Ike
