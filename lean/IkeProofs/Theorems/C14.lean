import IkeProofs.Lemmas.Eap

/-! # C14 — EAP codec round trip and RFC 3748 / 4187 / 5448 framing, EAP-AKA' attributes

Domain (`DomEap`, decidable, defined in `IkeProofs/Lemmas/Eap.lean`):
* any code and identifier; a Success / Failure packet (codes 3, 4) carries no data;
* method data: none, Identity / Notification / Nak with ≥ 1 octet, Expanded with a vendor id
  `< 2^24`, EAP-AKA' packets **reachable through the setter** (`AkaReach`, equivalently the
  structural `AkaBuilt`: reserved = 0, attributes sorted by type with unique keys, each entry
  what `SetAttr` stores for a value it accepts);
* explicit bounds under which the 8-bit attribute length (in 4-octet words) is exact:
  AT_KDF_INPUT ≤ 1016 octets, AT_CHECKCODE a multiple of 4 octets and ≤ 1016 (the property
  asks for KDF_INPUT 0..300 and CHECKCODE 0, 20, 32 — all inside);
* the packet fits the 16-bit length field (`≤ 65535` octets; automatic for EAP-AKA',
  `akaBuilt_size`).

No size or step bound anywhere else: all value lengths, all `SetAttr` histories. -/

set_option linter.unusedVariables false

namespace Ike

/-! ## round trip -/

/-- **C14, clause "decoding the encoding of an EAP packet returns the same code, identifier and
method data"**, for every packet of the domain. -/
theorem C14_roundtrip (e : Eap) (bs : Bytes) (hd : DomEap e) (h : marshalEap e = .ok bs) :
    unmarshalEap bs = .ok e :=
  rt_eap_payload e bs hd h

/-- The same round trip without any assumption on the code octet (the codec never looks at it):
only the method data and the total size matter.  Strictly stronger than `C14_roundtrip`. -/
theorem C14_roundtrip_anycode (e : Eap) (bs : Bytes) (hdd : DomEapData e.data)
    (hsz : 4 + eapDataSize e.data ≤ 65535) (h : marshalEap e = .ok bs) : unmarshalEap bs = .ok e :=
  rt_eap_anycode e bs hdd hsz h

/-- Non-vacuity of the round trip: every packet of the domain does encode. -/
theorem C14_encodable (e : Eap) (hd : DomEap e) : ∃ bs, marshalEap e = .ok bs := by
  obtain ⟨code, ident, data⟩ := e
  obtain ⟨_, hdd, _⟩ := hd
  unfold marshalEap
  cases data with
  | none => exact ⟨_, rfl⟩
  | identity d =>
    have : ¬ d.length = 0 := by simp only [DomEapData] at hdd; omega
    simp only [marshalEapData, if_neg this]; exact ⟨_, rfl⟩
  | notification d =>
    have : ¬ d.length = 0 := by simp only [DomEapData] at hdd; omega
    simp only [marshalEapData, if_neg this]; exact ⟨_, rfl⟩
  | nak d =>
    have : ¬ d.length = 0 := by simp only [DomEapData] at hdd; omega
    simp only [marshalEapData, if_neg this]; exact ⟨_, rfl⟩
  | expanded vid vt d => simp only [marshalEapData]; exact ⟨_, rfl⟩
  | aka a => simp only [marshalEapData, marshalAka]; exact ⟨_, rfl⟩

/-- The API-level reading of the domain: a packet is `AkaBuilt` exactly when it is the result of
a sequence of successful `SetAttr` calls (values in the exact-length range) on a fresh
`EapAkaPrime{subType}`. -/
theorem C14_domain_is_reachability (a : Aka) : AkaReach a ↔ AkaBuilt a := akaReach_iff_built a

/-- a Response carrying RAND, a 5-octet RES (padded on the wire), a 3-octet network name
(padded), KDF and a 20-octet checkcode is in the domain … -/
example : DomEap ⟨2, 7, .aka ⟨1, 0,
    [⟨1, 5, 0, zeros 16⟩, ⟨3, 3, 40, [1, 2, 3, 4, 5]⟩, ⟨23, 2, 24, [97, 98, 99]⟩, ⟨24, 1, 0, [0, 1]⟩,
     ⟨134, 6, 0, zeros 20⟩]⟩⟩ := by decide

/-- … and so are Success without data, Identity, and an expanded EAP-5G-like packet. -/
example : DomEap ⟨3, 1, .none⟩ ∧ DomEap ⟨1, 2, .identity [0x61]⟩ ∧
    DomEap ⟨2, 3, .expanded 10415 3 [2, 0, 0]⟩ := by decide

/-! ## well-formedness of the encoding -/

/-- **C14, clause "the length field equals the packet size"** (RFC 3748 §4): code, identifier,
then the 16-bit big-endian size of the whole packet, then the type-data. -/
theorem C14_wf_length (e : Eap) (bs : Bytes) (hd : DomEap e) (h : marshalEap e = .ok bs) :
    byteAt bs 0 = e.code ∧ byteAt bs 1 = e.ident ∧
    (byteAt bs 2).toNat * 256 + (byteAt bs 3).toNat = bs.length ∧
    bs.length = 4 + eapDataSize e.data ∧
    ∃ td, marshalEapData e.data = .ok td ∧ bs.drop 4 = td := by
  obtain ⟨td, hm, rfl⟩ := marshalEap_eq e bs h
  have hsize := marshalEapData_size _ _ hm
  have hsz := hd.2.2
  have hl : (UInt16.ofNat (4 + td.length)).toNat = 4 + td.length := ofNat_toNat_u16 _ (by omega)
  generalize UInt16.ofNat (4 + td.length) = pl at *
  have := pl.toNat_lt
  refine ⟨by simp, by simp, ?_, by simp; omega, td, hm, by simp [put16]⟩
  simp [put16, UInt8.toNat_ofNat']
  omega

example : DomEap ⟨1, 2, .identity [0x61]⟩ := by decide

/-- **C14, clause "Success/Failure carry no data"**: in the domain a Success or Failure packet is
exactly the four octets `code ‖ identifier ‖ 0 ‖ 4` (and so is any packet without method data). -/
theorem C14_wf_success_failure (e : Eap) (bs : Bytes) (hd : DomEap e)
    (hc : (e.code = Facts.eapCodeSuccess ∨ e.code = Facts.eapCodeFailure) ∨ e.data = .none)
    (h : marshalEap e = .ok bs) : bs = [e.code, e.ident, 0, 4] := by
  have hn : e.data = .none := by
    rcases hc with hc | hc
    · exact hd.1 hc
    · exact hc
  unfold marshalEap at h
  rw [hn] at h
  simp only [marshalEapData, Res.bind_ok, Res.ok.injEq] at h
  rw [← h]; rfl

example : DomEap ⟨3, 9, .none⟩ ∧ marshalEap ⟨3, 9, .none⟩ = .ok [3, 9, 0, 4] := by decide

/-- … and the decoder reads every accepted 4-octet packet as "no data". -/
theorem C14_wf_four_octets_decode (bs : Bytes) (e : Eap) (hl : bs.length = 4) (h : unmarshalEap bs = .ok e) :
    e = ⟨byteAt bs 0, byteAt bs 1, .none⟩ := by
  unfold unmarshalEap at h
  rw [if_neg (by omega), if_neg (by omega)] at h
  obtain ⟨pl, hpl, h⟩ := Res.bind_eq_ok h
  split at h
  · simp at h
  · split at h
    · simp at h
    · rename_i hne
      have hne' : bs.length = pl.toNat := by simpa using hne
      have : pl = 4 := by
        apply UInt16.toNat_inj.mp
        rw [← hne', hl]; rfl
      subst this
      rw [goIndex_ok (by omega), goIndex_ok (by omega)] at h
      simp only [Res.bind_ok] at h
      rw [if_pos (by decide)] at h
      simp only [Res.ok.injEq] at h
      exact h.symm

/-- **C14, clause "expanded types carry a 24-bit vendor id and 32-bit vendor type"**
(RFC 3748 §5.7): type-data = `254 ‖ vendor-id (3 octets, big endian) ‖ vendor-type (4 octets) ‖ data`. -/
theorem C14_wf_expanded (code ident : UInt8) (vid vt : UInt32) (d bs : Bytes) (hv : vid.toNat < 16777216)
    (h : marshalEap ⟨code, ident, .expanded vid vt d⟩ = .ok bs) :
    bs = [code, ident] ++ put16 (UInt16.ofNat (4 + (8 + d.length))) ++
      [254, UInt8.ofNat (vid.toNat / 65536), UInt8.ofNat (vid.toNat / 256 % 256), UInt8.ofNat (vid.toNat % 256)] ++
      put32 vt ++ d := by
  unfold marshalEap at h
  simp only [marshalEapData, Res.bind_ok, Res.ok.injEq] at h
  rw [← h]
  have hw := expanded_word vid
  generalize (Facts.eapTypeExpanded.toUInt32 <<< 24) ||| (vid &&& 0x00ffffff) = w at *
  have e0 : UInt8.ofNat (w.toNat / 16777216) = 254 := by
    rw [hw]
    have : (254 * 16777216 + vid.toNat % 16777216) / 16777216 = 254 := by omega
    rw [this]; rfl
  have e1 : UInt8.ofNat (w.toNat / 65536 % 256) = UInt8.ofNat (vid.toNat / 65536) := by
    rw [hw]; congr 1; omega
  have e2 : UInt8.ofNat (w.toNat / 256 % 256) = UInt8.ofNat (vid.toNat / 256 % 256) := by
    rw [hw]; congr 1; omega
  have e3 : UInt8.ofNat (w.toNat % 256) = UInt8.ofNat (vid.toNat % 256) := by
    rw [hw]; congr 1; omega
  have hlen : (put32 w ++ put32 vt ++ d).length = 8 + d.length := by simp; omega
  rw [hlen]
  simp only [put32, e0, e1, e2, e3]
  simp

example : marshalEap ⟨2, 3, .expanded 10415 3 [2, 0, 0]⟩
    = .ok [2, 3, 0, 15, 254, 0, 0x28, 0xaf, 0, 0, 0, 3, 2, 0, 0] := by decide

/-- **C14, clause "every EAP-AKA' attribute occupies a multiple of four octets with its length
field in words, zero padding, and for AT_RES / AT_KDF_INPUT the exact value length in bits"**:
for every value `v` the setter accepts for type `t` (`x` = what it stores), the emitted octets are

* `t ‖ x.length ‖ v` for AT_KDF, otherwise `t ‖ x.length ‖ reserved(16) ‖ v ‖ 0^pad` with `pad < 4`;
* `4 · x.length` octets long;
* for AT_RES / AT_KDF_INPUT the 16-bit field after the length is `8·|v|`; for the other types it
  is zero and there is no padding;
* byte for byte what the independent RFC 4187 / 5448 encoder `Spec.encodeAkaAttr` writes. -/
theorem C14_wf_attr (t : UInt8) (v : Bytes) (x : AkaAttr) (hv : AkaValOk t v) (h : akaMkAttr t v = .ok x) :
    (marshalAkaAttr x).length = 4 * x.length.toNat ∧
    (∃ pad, pad < 4 ∧
      marshalAkaAttr x =
        (if t = Facts.atKdf then [t, x.length] ++ v else [t, x.length] ++ put16 x.reserved ++ v ++ zeros pad) ∧
      ((t = Facts.atRes ∨ t = Facts.atKdfInput) → x.reserved.toNat = 8 * v.length) ∧
      (¬ (t = Facts.atRes ∨ t = Facts.atKdfInput) → x.reserved = 0 ∧ pad = 0)) ∧
    marshalAkaAttr x = Spec.encodeAkaAttr t v := by
  have hb := akaAttrBuilt_of_mk hv h
  obtain ⟨ht, hvv⟩ := akaMkAttr_ok_fields h
  refine ⟨(marshalAkaAttr_length hb).1, ?_, by rw [marshalAkaAttr_eq_spec hb, ht, hvv]⟩
  subst ht hvv
  clear hv h
  rcases akaAttrBuilt_cases hb with ⟨t, v, ht, hl, rfl⟩ | ⟨t, v, ht, hl, _, rfl⟩ | ⟨v, hl, rfl⟩ | ⟨v, h4, hl, rfl⟩
  · refine ⟨0, by omega, ?_, ?_, fun _ => ⟨rfl, rfl⟩⟩
    · rw [(parse_marshal_fixed16 t v [] ht hl).1]
      rcases ht with rfl | rfl | rfl <;> simp [Facts.atRand, Facts.atAutn, Facts.atMac, Facts.atKdf, zeros]
    · intro h'
      dsimp only at h'
      rcases ht with rfl | rfl | rfl <;> rcases h' with h' | h' <;> exact absurd h' (by decide)
  · have hW := akaWords_eq v.length
    refine ⟨4 * akaWords v.length - 4 - v.length, by omega, ?_, ?_, fun h' => absurd ht h'⟩
    · rw [(parse_marshal_padded t v [] ht hl).1]
      rcases ht with rfl | rfl <;> simp [Facts.atRes, Facts.atKdfInput, Facts.atKdf]
    · intro _
      dsimp only
      rw [ofNat_toNat_u16 _ (by omega)]; omega
  · refine ⟨0, by omega, ?_, ?_, fun _ => ⟨rfl, rfl⟩⟩
    · rw [(parse_marshal_kdf v [] hl).1]; simp
    · intro h'; dsimp only at h'; rcases h' with h' | h' <;> exact absurd h' (by decide)
  · refine ⟨0, by omega, ?_, ?_, fun _ => ⟨rfl, rfl⟩⟩
    · rw [(parse_marshal_checkcode v [] h4 hl).1]
      simp [Facts.atCheckcode, Facts.atKdf, zeros]
    · intro h'; dsimp only at h'; rcases h' with h' | h' <;> exact absurd h' (by decide)

/-- a 5-octet RES is accepted and emitted as `3 ‖ 3 ‖ 0x0028 ‖ RES ‖ 000000` (12 octets, 40 bits) -/
example : AkaValOk 3 [1, 2, 3, 4, 5] ∧
    (akaMkAttr 3 [1, 2, 3, 4, 5]).map marshalAkaAttr = .ok [3, 3, 0, 40, 1, 2, 3, 4, 5, 0, 0, 0] := by decide

/-- **C14, framing of a whole EAP-AKA' packet**: for every packet built through the setter the
encoder's output is byte for byte the RFC 3748 frame around the RFC 4187 §8.1 header
(`50 ‖ subtype ‖ 0 ‖ 0`) followed by the RFC encodings of the attributes in ascending type order. -/
theorem C14_wf_aka_is_spec (code ident : UInt8) (a : Aka) (hb : AkaBuilt a) :
    marshalEap ⟨code, ident, .aka a⟩ =
      .ok (Spec.encodeEapAka code ident a.subtype (a.attrs.map (fun x => (x.atype, x.value)))) :=
  marshalEap_aka_eq_spec code ident a hb

/-! ## get ∘ set -/

/-- **C14, clause "an attribute value read back from a message — freshly set … — is exactly the
value that was set"**: whenever `SetAttr(t, v)` succeeds (any packet state, any `t`, any `v`),
`GetAttr(t).GetValue()` returns `v` itself — no padding octets inside the value. -/
theorem C14_getset_same (a a' : Aka) (t : UInt8) (v : Bytes) (h : akaSetAttr a t v = .ok a') :
    akaGetAttr a' t = .ok v := by
  obtain ⟨na, hm, rfl⟩ := (akaSetAttr_ok_iff _ _ _ _).mp h
  obtain ⟨h1, h2⟩ := akaMkAttr_ok_fields hm
  unfold akaGetAttr
  dsimp only
  rw [← h1, akaLookup_insert_same]
  dsimp only
  rw [h2]

/-- … and `SetAttr(t, ·)` leaves every other attribute's value (or absence) as it was. -/
theorem C14_getset_other (a a' : Aka) (t t' : UInt8) (v : Bytes) (h : akaSetAttr a t v = .ok a') (hne : t' ≠ t) :
    akaGetAttr a' t' = akaGetAttr a t' := by
  obtain ⟨na, hm, rfl⟩ := (akaSetAttr_ok_iff _ _ _ _).mp h
  obtain ⟨h1, _⟩ := akaMkAttr_ok_fields hm
  unfold akaGetAttr
  dsimp only
  rw [akaLookup_insert_other _ _ _ (by rw [h1]; exact hne)]

/-- a refused `SetAttr` changes nothing (it returns no packet at all in the model; in Go the map
is not touched before the size checks) -/
theorem C14_getset_refused (a : Aka) (t : UInt8) (v : Bytes) (h : akaMkAttr t v = .err) :
    akaSetAttr a t v = .err := by
  unfold akaSetAttr; rw [h]; rfl

/-- **C14, clause "… or decoded …"**: set an accepted value on a built packet, encode the EAP
packet (any code and identifier), decode the octets: the decoded packet is an EAP-AKA' packet
whose `GetAttr(t)` is `v`, and every other attribute reads as in the sender's packet. -/
theorem C14_getset_decoded (code ident : UInt8) (a a' : Aka) (t : UInt8) (v bs : Bytes)
    (hb : AkaBuilt a) (hv : AkaValOk t v) (hs : akaSetAttr a t v = .ok a')
    (hm : marshalEap ⟨code, ident, .aka a'⟩ = .ok bs) :
    ∃ d, unmarshalEap bs = .ok ⟨code, ident, .aka d⟩ ∧ akaGetAttr d t = .ok v ∧
      ∀ t', akaGetAttr d t' = akaGetAttr a' t' := by
  have hb' := akaBuilt_set hb hv hs
  have hsz := akaBuilt_size hb'
  refine ⟨a', rt_eap_anycode _ bs hb' (by dsimp only; omega) hm, C14_getset_same a a' t v hs, fun _ => rfl⟩

example : AkaBuilt ⟨1, 0, [⟨1, 5, 0, zeros 16⟩]⟩ ∧ AkaValOk 23 [97, 98, 99] ∧
    (akaSetAttr ⟨1, 0, [⟨1, 5, 0, zeros 16⟩]⟩ 23 [97, 98, 99]).isOk = true := by decide

/-! ## the setter's refusals -/

/-- **C14, clause "the setter refuses wrong sizes for the fixed-size attributes (RAND, AUTN, MAC:
16 octets; KDF: 2; RES: 4..16)"**, as an exact characterisation over all types and all value
lengths: `SetAttr` returns an error **iff** the type is RAND / AUTN / MAC and `|v| ≠ 16`, or KDF
and `|v| ≠ 2`, or RES and `|v| ∉ 4..16`, or the type is none of the seven settable ones;
it never panics; and when it does not refuse it stores exactly `(t, v)`. -/
theorem C14_setter (a : Aka) (t : UInt8) (v : Bytes) :
    (akaSetAttr a t v = .err ↔
      ((t = Facts.atRand ∨ t = Facts.atAutn ∨ t = Facts.atMac) ∧ v.length ≠ 16) ∨
      (t = Facts.atKdf ∧ v.length ≠ 2) ∨
      (t = Facts.atRes ∧ (v.length < 4 ∨ 16 < v.length)) ∨
      ¬ akaSettable t) ∧
    akaSetAttr a t v ≠ .fault ∧
    (∀ a', akaSetAttr a t v = .ok a' → akaGetAttr a' t = .ok v) := by
  refine ⟨?_, ?_, fun a' h => C14_getset_same a a' t v h⟩
  · rw [← akaMkAttr_err_iff]
    unfold akaSetAttr
    cases akaMkAttr t v <;> simp
  · unfold akaSetAttr
    cases h : akaMkAttr t v with
    | ok x => simp
    | err => simp
    | fault => exact absurd h (akaMkAttr_ne_fault t v)

/-- the settable types are exactly 1, 2, 3, 11, 23, 24, 134 -/
theorem C14_setter_types (t : UInt8) :
    akaSettable t ↔ t = 1 ∨ t = 2 ∨ t = 3 ∨ t = 11 ∨ t = 23 ∨ t = 24 ∨ t = 134 := Iff.rfl

set_option maxRecDepth 20000 in
/-- refusals and acceptances at the boundaries -/
example : akaMkAttr 1 (zeros 15) = .err ∧ akaMkAttr 2 (zeros 17) = .err ∧ akaMkAttr 11 (zeros 300) = .err ∧
    akaMkAttr 24 (zeros 3) = .err ∧ akaMkAttr 3 (zeros 3) = .err ∧ akaMkAttr 3 (zeros 17) = .err ∧
    akaMkAttr 5 (zeros 16) = .err ∧
    (akaMkAttr 3 (zeros 4)).isOk = true ∧ (akaMkAttr 3 (zeros 16)).isOk = true ∧
    (akaMkAttr 23 []).isOk = true ∧ (akaMkAttr 23 (zeros 300)).isOk = true := by decide

/-! ## determinism and emission order -/

/-- run a whole history of `SetAttr` calls (refused calls leave the packet as it was) -/
def C14_akaApply (a : Aka) (ops : List (UInt8 × Bytes)) : Aka :=
  ops.foldl (fun a op => match akaSetAttr a op.1 op.2 with
    | .ok a' => a'
    | _ => a) a

/-- **C14, clause "encoding the same unmodified message twice gives identical bytes"**:
(i) the encoder is a function of the packet value — in the model the Go map is the association
list `attrs`, and Go's sort over the map keys is the invariant below;
(ii) after **any** history of `SetAttr` calls (accepted or refused, any types, any values, any
length) the list is strictly ascending by attribute type, hence has unique keys, so the emission
order `marshalAkaAttrs` follows is the ascending type order and does not depend on the order of
the calls that built the map;
(iii) the same holds for every packet the decoder returns. -/
theorem C14_deterministic :
    (∀ e b1 b2, marshalEap e = .ok b1 → marshalEap e = .ok b2 → b1 = b2) ∧
    (∀ st rs ops, AkaSorted (C14_akaApply ⟨st, rs, []⟩ ops).attrs) ∧
    (∀ raw a, unmarshalAka raw = .ok a → AkaSorted a.attrs) := by
  refine ⟨?_, ?_, unmarshalAka_sorted⟩
  · intro e b1 b2 h1 h2
    rw [h1] at h2
    simpa using h2
  · intro st rs ops
    have key : ∀ (ops : List (UInt8 × Bytes)) (a : Aka), AkaSorted a.attrs → AkaSorted (C14_akaApply a ops).attrs := by
      intro ops
      induction ops with
      | nil => intro a h; exact h
      | cons op rest ih =>
        intro a h
        unfold C14_akaApply
        rw [List.foldl_cons]
        apply ih
        cases hs : akaSetAttr a op.1 op.2 with
        | ok a' =>
          obtain ⟨na, _, rfl⟩ := (akaSetAttr_ok_iff _ _ _ _).mp hs
          exact akaInsert_sorted _ _ h
        | err => exact h
        | fault => exact h
    exact key ops _ List.Pairwise.nil

/-- two histories that store the same final values in different orders give the same packet,
hence the same octets -/
example : C14_akaApply ⟨1, 0, []⟩ [(24, [0, 1]), (1, zeros 16), (23, [97])] =
          C14_akaApply ⟨1, 0, []⟩ [(23, [98]), (1, zeros 16), (23, [97]), (24, [0, 1]), (7, [])] := by decide

end Ike
