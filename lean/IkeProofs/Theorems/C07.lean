import IkeProofs.Lemmas.Keys
import IkeProofs.Lemmas.PrimsReal

/-!
# C07 — IKE SA keys follow RFC 7296 §2.13–2.14

`Spec.T`, `Spec.prfPlus`, `Spec.prfPlusN`, `Spec.skeyseed`, `Spec.ikeKeys`
(IkeModel/Spec/Keys.lean) transcribe the RFC.  The model functions are
`prfPlus` (`lib.PrfPlus` on a stateful `hash.Hash`), `genKeyForIKESA`
(`GenerateKeyForIKESA`).  All theorems hold for every instance `P` of the
primitives satisfying `P.Lawful`, every octet string, every descriptor record
(the registry tables enter only in `C07_keys_registry`).

The prf of an SA with PRF descriptor `p` is `P.mac p.hash`; its output length is
`P.macLen p.hash`.
-/

namespace Ike

/-- C07 (a), prf+.  `lib.PrfPlus(prf, s, n)` run on a hash object in ANY state —
key `h.key`, arbitrary pending write buffer `h.buf` — returns the first `n`
octets of the RFC stream prf+(K,S) = T1 | T2 | …, and leaves key and algorithm of
the object unchanged.  No bound on `n` is needed: beyond 255 blocks the Go
`byte(i)` and the specification's one-octet counter wrap identically; within the
RFC's range the counter does not wrap (`C07_prfplus_counter`).  The only
hypothesis is a non-zero digest length (otherwise the Go loop does not terminate). -/
theorem C07_prfplus (P : Prims) (hP : P.Lawful) (h : HashObj) (s : Bytes) (n : Nat)
    (hL : 0 < P.macLen h.alg) :
    (prfPlus P h s n).2 = .ok (Spec.prfPlusN (P.mac h.alg) (P.macLen h.alg) h.key s n)
      ∧ (prfPlus P h s n).1.alg = h.alg ∧ (prfPlus P h s n).1.key = h.key :=
  prfPlus_spec P hP h s n hL

/-- C07 (a), the right-hand side above is the RFC recursion: the stream is the
concatenation `T 1 | T 2 | … | T m` of the blocks `T 1 = prf(K, S | 0x01)`,
`T (k+1) = prf(K, T k | S | k+1)`, cut to `n` octets, with `m = ⌈n / outLen⌉`;
`m` blocks suffice and the last one is needed. -/
theorem C07_prfplus_rfc (prf : Spec.PRF) (L : Nat) (K S : Bytes) (n : Nat) :
    Spec.prfPlusN prf L K S n
        = ((List.range (Spec.blocksFor n L)).flatMap (fun j => Spec.T prf K S (j + 1))).take n
      ∧ Spec.T prf K S 1 = prf K (S ++ [0x01])
      ∧ (∀ k, Spec.T prf K S (k + 1) = prf K (Spec.T prf K S k ++ S ++ [UInt8.ofNat (k + 1)]))
      ∧ (0 < L → n ≤ Spec.blocksFor n L * L)
      ∧ (0 < L → 0 < n → (Spec.blocksFor n L - 1) * L < n) := by
  refine ⟨?_, ?_, fun _ => rfl, Spec.blocksFor_covers n L, fun hL hn => Spec.blocksFor_tight n L hn hL⟩
  · rw [Spec.prfPlusN, Spec.prfPlus_eq_T]
  · simp [Spec.T]

/-- C07 (a), range of the counter: for `n ≤ 255 · outLen` at most 255 blocks are
computed, so every counter octet `UInt8.ofNat (j+1)` written by the code is the
number `j+1` itself (no wrap-around). -/
theorem C07_prfplus_counter (n L : Nat) (hL : 0 < L) (hn : n ≤ 255 * L) :
    Spec.blocksFor n L ≤ 255 ∧ ∀ j, j < Spec.blocksFor n L → (UInt8.ofNat (j + 1)).toNat = j + 1 := by
  have h := Spec.blocksFor_le_255 n L hL hn
  exact ⟨h, fun j hj => ofNat_toNat_u8 (j + 1) (by omega)⟩

/-- C07 (a), independence of the object's state: two hash objects with the same
algorithm and key yield the same stream whatever their buffers hold. -/
theorem C07_prfplus_buffer (P : Prims) (hP : P.Lawful) (alg : Nat) (K buf buf' s : Bytes) (n : Nat)
    (hL : 0 < P.macLen alg) :
    (prfPlus P ⟨alg, K, buf⟩ s n).2 = (prfPlus P ⟨alg, K, buf'⟩ s n).2 :=
  prfPlus_ignores_buffer P hP ⟨alg, K, buf'⟩ ⟨alg, K, buf⟩ s n hL rfl rfl

/-- C07 (b), keys, general form.  For ANY previous contents of the SA object
and arbitrary descriptors: with non-empty nonces `Ni|Nr`, non-empty shared secret
and a non-zero total key length, `GenerateKeyForIKESA` succeeds and
SK_d | SK_ai | SK_ar | SK_ei | SK_er | SK_pi | SK_pr are the consecutive slices, of
lengths (prfKey, integKey, integKey, encKey, encKey, prfKey, prfKey), of
prf+(SKEYSEED, Ni|Nr|SPIi|SPIr) with SKEYSEED = prf(Ni|Nr, g^ir) (`ikeKeysG`, which
is `Spec.ikeKeys` with the prf's output length kept apart from its key length).
The key-length guards of `INTEGType.Init` and `NewCrypto` are always met, because
the slices have exactly the descriptor lengths: no hypothesis is needed for them. -/
theorem C07_keys (P : Prims) (hP : P.Lawful) (sa : SAKey) (nonce secret : Bytes) (spiI spiR : UInt64)
    (hL : 0 < P.macLen sa.prfInfo.hash) (hn : nonce.length ≠ 0) (hs : secret.length ≠ 0)
    (ht : 0 < sa.keyTotal) :
    let r := genKeyForIKESA P sa nonce secret spiI spiR
    let k := ikeKeysG (P.mac sa.prfInfo.hash) (P.macLen sa.prfInfo.hash) sa.prfInfo.keyLen sa.integInfo.keyLen
      sa.encrInfo.keyLen nonce secret spiI spiR
    r.2 = .ok () ∧ r.1.sk_d = k.d ∧ r.1.sk_ai = k.ai ∧ r.1.sk_ar = k.ar ∧ r.1.sk_ei = k.ei ∧ r.1.sk_er = k.er
      ∧ r.1.sk_pi = k.pi ∧ r.1.sk_pr = k.pr := by
  intro r k
  have h : r = _ := genKeyForIKESA_ok P hP sa nonce secret spiI spiR hL hn hs ht
  rw [h]
  exact ⟨rfl, rfl, rfl, rfl, rfl, rfl, rfl, rfl⟩

/-- C07 (b), keys, RFC form.  When the PRF's key length is its output length
(true of every registered PRF, `prfTable_keyLen_eq_outLen`) the key set is
literally `Spec.ikeKeys` — the transcription of RFC 7296 §2.14 — and the total
length is automatically non-zero. -/
theorem C07_keys_rfc (P : Prims) (hP : P.Lawful) (sa : SAKey) (nonce secret : Bytes) (spiI spiR : UInt64)
    (hL : 0 < P.macLen sa.prfInfo.hash) (hPrf : sa.prfInfo.keyLen = P.macLen sa.prfInfo.hash)
    (hn : nonce.length ≠ 0) (hs : secret.length ≠ 0) :
    genKeyForIKESA P sa nonce secret spiI spiR =
      (SAKey.ofKeys sa.encrInfo sa.integInfo sa.prfInfo
        (Spec.ikeKeys (P.mac sa.prfInfo.hash) sa.prfInfo.keyLen sa.integInfo.keyLen sa.encrInfo.keyLen
          nonce secret spiI spiR), .ok ()) := by
  have ht : 0 < sa.keyTotal := by unfold SAKey.keyTotal; omega
  rw [genKeyForIKESA_ok P hP sa nonce secret spiI spiR hL hn hs ht, ← hPrf, ikeKeysG_eq_spec]

/-- C07 (b), all 27 negotiable suites, uniformly from the generated registry:
for every encryption, integrity and PRF entry of the tables, every SA object
carrying these descriptors, and primitives whose digest lengths are the
registry's output lengths, the derivation succeeds with the RFC key set
`Spec.ikeKeys` for the entry's lengths.  Only the PRF entry's membership is used
(key length = output length > 0); the encryption and integrity entries `e`, `i`
may be any entries, in particular all of `Facts.encrTable`, `Facts.integTable`. -/
theorem C07_keys_registry (P : Prims) (hP : P.Lawful)
    (hMac : ∀ q ∈ Facts.prfTable, P.macLen (PrfInfo.ofEntry q).hash = (PrfInfo.ofEntry q).outLen)
    (e : UInt16 × Nat) (i : UInt16 × Nat × Nat × Nat)
    (p : UInt16 × Nat × Nat × Nat) (hp : p ∈ Facts.prfTable)
    (sa : SAKey) (hse : sa.encrInfo = EncrInfo.ofEntry e) (hsi : sa.integInfo = IntegInfo.ofEntry i)
    (hsp : sa.prfInfo = PrfInfo.ofEntry p)
    (nonce secret : Bytes) (spiI spiR : UInt64) (hn : nonce.length ≠ 0) (hs : secret.length ≠ 0) :
    genKeyForIKESA P sa nonce secret spiI spiR =
      (SAKey.ofKeys (EncrInfo.ofEntry e) (IntegInfo.ofEntry i) (PrfInfo.ofEntry p)
        (Spec.ikeKeys (P.mac (PrfInfo.ofEntry p).hash) (PrfInfo.ofEntry p).keyLen (IntegInfo.ofEntry i).keyLen
          (EncrInfo.ofEntry e).keyLen nonce secret spiI spiR), .ok ()) := by
  obtain ⟨h1, h2⟩ := prfTable_keyLen_eq_outLen p hp
  have hm := hMac p hp
  have hL : 0 < P.macLen sa.prfInfo.hash := by rw [hsp, hm]; exact h2
  have hPrf : sa.prfInfo.keyLen = P.macLen sa.prfInfo.hash := by rw [hsp, hm]; exact h1
  rw [C07_keys_rfc P hP sa nonce secret spiI spiR hL hPrf hn hs, hse, hsi, hsp]

/-- C07 (c), objects.  After a successful `GenerateKeyForIKESA` the descriptors
are unchanged and the seven ready-to-use objects are keyed with exactly the seven
slices: `Prf_d`, `Prf_i`, `Prf_r` are HMAC objects of the PRF's hash with keys
SK_d, SK_pi, SK_pr; `Integ_i`, `Integ_r` are HMAC objects of the integrity
algorithm's hash with keys SK_ai, SK_ar (never nil); `Encr_i`, `Encr_r` are cipher
objects with keys SK_ei, SK_er; all write buffers are empty.  Nothing of the
object's previous contents survives: the state is `SAKey.fresh` of descriptors and keys. -/
theorem C07_objects (P : Prims) (hP : P.Lawful) (sa : SAKey) (nonce secret : Bytes) (spiI spiR : UInt64)
    (hL : 0 < P.macLen sa.prfInfo.hash) (hn : nonce.length ≠ 0) (hs : secret.length ≠ 0)
    (ht : 0 < sa.keyTotal) :
    let s := (genKeyForIKESA P sa nonce secret spiI spiR).1
    s = SAKey.fresh sa.encrInfo sa.integInfo sa.prfInfo s.sk_d s.sk_ai s.sk_ar s.sk_ei s.sk_er s.sk_pi s.sk_pr
      ∧ s.prf_d = ⟨sa.prfInfo.hash, s.sk_d, []⟩
      ∧ s.integ_i = ⟨sa.integInfo.hash, s.sk_ai, []⟩ ∧ s.integ_r = ⟨sa.integInfo.hash, s.sk_ar, []⟩
      ∧ s.encr_i = ⟨s.sk_ei⟩ ∧ s.encr_r = ⟨s.sk_er⟩
      ∧ s.prf_i = ⟨sa.prfInfo.hash, s.sk_pi, []⟩ ∧ s.prf_r = ⟨sa.prfInfo.hash, s.sk_pr, []⟩
      ∧ s.encrInfo = sa.encrInfo ∧ s.integInfo = sa.integInfo ∧ s.prfInfo = sa.prfInfo := by
  intro s
  have h : s = _ := congrArg Prod.fst (genKeyForIKESA_ok P hP sa nonce secret spiI spiR hL hn hs ht)
  rw [h]
  exact ⟨rfl, rfl, rfl, rfl, rfl, rfl, rfl, rfl, rfl, rfl, rfl⟩

/-- C07 (d), agreement.  An initiator and a responder whose SA objects carry the
same three descriptors (anything else in the objects may differ), holding the
same nonces, the same SPIs and — hypothesis `hShared`, supplied by DH agreement
(C09) — the same shared secret, get the same outcome from `GenerateKeyForIKESA`,
and on success IDENTICAL SA objects: equal keys, equal PRF / integrity / cipher
objects, hence whatever one party protects the other verifies and decrypts. -/
theorem C07_agree (P : Prims) (hP : P.Lawful) (saI saR : SAKey)
    (he : saI.encrInfo = saR.encrInfo) (hi : saI.integInfo = saR.integInfo) (hp : saI.prfInfo = saR.prfInfo)
    (nonce secretI secretR : Bytes) (spiI spiR : UInt64) (hShared : secretI = secretR)
    (hL : 0 < P.macLen saI.prfInfo.hash) :
    (genKeyForIKESA P saI nonce secretI spiI spiR).2 = (genKeyForIKESA P saR nonce secretR spiI spiR).2
      ∧ ((genKeyForIKESA P saI nonce secretI spiI spiR).2 = .ok () →
          (genKeyForIKESA P saI nonce secretI spiI spiR).1 = (genKeyForIKESA P saR nonce secretR spiI spiR).1) := by
  subst hShared
  have hL' : 0 < P.macLen saR.prfInfo.hash := by rw [← hp]; exact hL
  have htot : saI.keyTotal = saR.keyTotal := by simp only [SAKey.keyTotal, he, hi, hp]
  by_cases hbad : nonce.length = 0 ∨ secretI.length = 0 ∨ saI.keyTotal = 0
  · rw [genKeyForIKESA_err P hP saI nonce secretI spiI spiR hL hbad,
      genKeyForIKESA_err P hP saR nonce secretI spiI spiR hL' (by rw [← htot]; exact hbad)]
    exact ⟨rfl, fun h => by cases h⟩
  · have hn : nonce.length ≠ 0 := fun h => hbad (Or.inl h)
    have hs : secretI.length ≠ 0 := fun h => hbad (Or.inr (Or.inl h))
    have ht : 0 < saI.keyTotal := Nat.pos_of_ne_zero fun h => hbad (Or.inr (Or.inr h))
    rw [genKeyForIKESA_ok P hP saI nonce secretI spiI spiR hL hn hs ht,
      genKeyForIKESA_ok P hP saR nonce secretI spiI spiR hL' hn hs (by rw [← htot]; exact ht), he, hi, hp]
    exact ⟨rfl, fun _ => rfl⟩

/-! ### non-vacuity: the hypotheses are satisfiable -/

/-- a lawful instance of the primitives exists, with the registry's digest lengths -/
example : Prims.toy.Lawful ∧
    ∀ q ∈ Facts.prfTable, Prims.toy.macLen (PrfInfo.ofEntry q).hash = (PrfInfo.ofEntry q).outLen :=
  ⟨Prims.toy_lawful, by decide⟩

/-- the executable primitives have the registry's digest lengths -/
example : ∀ q ∈ Facts.prfTable, Prims.real.macLen (PrfInfo.ofEntry q).hash = (PrfInfo.ofEntry q).outLen := by
  decide

/-- an SA object (AES-256, HMAC-SHA2-256-128, PRF-HMAC-SHA1; stale keys and a dirty
`Prf_d` buffer) meeting the hypotheses of `C07_keys`, `C07_objects`, `C07_agree` -/
example :
    let sa : SAKey := { (SAKey.fresh ⟨12, 32⟩ ⟨12, 32, 16, 2⟩ ⟨2, 20, 20, 1⟩ [1] [2] [3] [4] [5] [6] [7]) with
                          prf_d := ⟨1, [1], [9, 9]⟩ }
    0 < Prims.toy.macLen sa.prfInfo.hash ∧ sa.prfInfo.keyLen = Prims.toy.macLen sa.prfInfo.hash
      ∧ ([1, 2, 3] : Bytes).length ≠ 0 ∧ 0 < sa.keyTotal
      ∧ (genKeyForIKESA Prims.toy sa [1, 2, 3] [4, 5] 7 8).2 = .ok () := by
  decide +kernel

/-- the descriptor hypotheses of `C07_keys_registry` are met by registry members -/
example : ((12 : UInt16), 24) ∈ Facts.encrTable ∧ ((1 : UInt16), 16, 12, 0) ∈ Facts.integTable
    ∧ ((5 : UInt16), 32, 32, 2) ∈ Facts.prfTable := by decide

/-- `C07_prfplus_counter`: 255 blocks of 20 octets is within range, and needs all 255 blocks -/
example : (5100 : Nat) ≤ 255 * 20 ∧ Spec.blocksFor 5100 20 = 255 := by decide

/-- prf+ on a dirty object, concretely: 45 octets from a 20-octet digest = 3 blocks cut to 45 -/
example : (prfPlus Prims.toy ⟨1, [7], [1, 2, 3]⟩ [5] 45).2
    = .ok (Spec.prfPlusN (Prims.toy.mac 1) 20 [7] [5] 45) := by decide

/-- The hypothesis `P.Lawful` of the theorems above (prf+ and the IKE SA key schedule) is not an assumption about the
primitives the model actually runs: the executable SHA-256 / SHA-1 / MD5 / HMAC / AES of
`IkeModel/Crypto` — the ones the correspondence suites compare byte for byte with Go's standard
library — satisfy it (digest lengths; AES block length; `dec k (enc k b) = b` for every key and
block, proved from FIPS-197's inverse structure in `Lemmas/PrimsReal.lean`). -/
theorem C07_real_lawful : Prims.real.Lawful := Prims.real_lawful

end Ike
