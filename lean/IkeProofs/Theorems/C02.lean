import IkeProofs.Theorems.C06
import IkeProofs.Lemmas.PrimsReal

/-!
# C02 — tampered / truncated / spliced / cross-key / reflected SK messages are rejected

Vocabulary (Lemmas/Sk.lean):
* `unprotectDecoded hdr bs` — the datagram as `DecodeDecrypt` decodes it before any key is
  looked at (`decodeMsg bs` when `hdr = none`);
* `Msg.firstIsSK d` — the decoded message presents an Encrypted payload first; by
  `unprotect_sk` / `unprotect_not_sk` this is exactly the condition under which
  `unprotect` enters `decryptMsg`;
* `lastSK d.payloads none = ok (some (next, encData))` — the SK body `decryptMsg` uses;
* `sa.integObj (!role)` — the integrity object of the PEER's direction.

The unconditional results are `C02_accept_inv`, `C02_verify_before_decrypt`,
`C02_reject_of_bad_mac`, `C02_icv_flip`, `C02_not_sk`.  The `_partial` theorems need
the cryptographic hypothesis `hNoColl` (no truncated-MAC collision) and nothing else.
No-fault is C04.
-/

namespace Ike

/-- Acceptance implies a valid checksum: whenever `unprotect` (either header mode, any
byte string) returns `ok` for a datagram that presents SK first, the last `cl` octets of
the SK body equal the truncated MAC — under the key and hash of the integrity object of
the peer's direction `!role` — of EVERY octet of the datagram before its last `cl`;
moreover the cipher was called exactly once. -/
theorem C02_accept_inv (P : Prims) (hP : P.Lawful) (sa : SAKey) (hw : sa.WF P) (role : Bool)
    (hdr : Option Header) (bs : Bytes) (d : Msg)
    (hd : unprotectDecoded hdr bs = .ok d) (hsk : d.firstIsSK = true)
    (k' : Option SAKey) (n : Nat) (m : Msg)
    (hacc : unprotect P (some sa) role hdr bs = (k', n, .ok m)) :
    ∃ next encData, lastSK d.payloads none = .ok (some (next, encData)) ∧
      sa.integInfo.outLen ≤ encData.length ∧ sa.integInfo.outLen ≤ bs.length ∧
      (P.mac (sa.integObj (!role)).alg (sa.integObj (!role)).key
          (bs.take (bs.length - sa.integInfo.outLen))).take sa.integInfo.outLen
        = encData.drop (encData.length - sa.integInfo.outLen) ∧
      n = 1 := by
  rw [unprotect_sk P sa role hdr bs d hd hsk] at hacc
  simp only [Prod.mk.injEq] at hacc
  obtain ⟨_, hn, hr⟩ := hacc
  obtain ⟨next, encData, hl, h1, h2, hm⟩ := decryptMsg_inv P hP sa hw role bs d (Or.inr ⟨m, hr⟩)
  refine ⟨next, encData, hl, h1, h2, hm.symm, ?_⟩
  rw [decryptMsg_eq P hP sa hw role bs d next encData hl h1 h2, if_pos hm] at hn
  exact hn.symm

/-- Contrapositive, usable for every alteration: if the truncated MAC (peer-direction key)
of the octets before the last `cl` differs from the SK body's last `cl` octets — or the SK
body is shorter than `cl` — the datagram is not accepted and the cipher is not called. -/
theorem C02_reject_of_bad_mac (P : Prims) (hP : P.Lawful) (sa : SAKey) (hw : sa.WF P) (role : Bool)
    (hdr : Option Header) (bs : Bytes) (d : Msg)
    (hd : unprotectDecoded hdr bs = .ok d) (hsk : d.firstIsSK = true)
    (hbad : ∀ next encData, lastSK d.payloads none = .ok (some (next, encData)) →
      sa.integInfo.outLen ≤ encData.length →
      (P.mac (sa.integObj (!role)).alg (sa.integObj (!role)).key
          (bs.take (bs.length - sa.integInfo.outLen))).take sa.integInfo.outLen
        ≠ encData.drop (encData.length - sa.integInfo.outLen)) :
    (unprotect P (some sa) role hdr bs).2.1 = 0 ∧ ∀ m, (unprotect P (some sa) role hdr bs).2.2 ≠ .ok m := by
  rw [unprotect_sk P sa role hdr bs d hd hsk]
  simp only
  have key : ¬ ((decryptMsg P sa role bs d).2.1 ≠ 0 ∨ ∃ m', (decryptMsg P sa role bs d).2.2 = .ok m') := by
    intro h
    obtain ⟨next, encData, hl, h1, h2, hm⟩ := decryptMsg_inv P hP sa hw role bs d h
    exact hbad next encData hl h1 hm.symm
  constructor
  · apply Classical.byContradiction; intro hn; exact key (Or.inl hn)
  · intro m hm; exact key (Or.inr ⟨m, hm⟩)

/-- Verify before decrypt: for EVERY byte string, key argument (or none), role and header
mode, the cipher's Decrypt is called at most once, and it is called only if the datagram
decoded, presented SK first, carried an SK body of at least `cl` octets and the checksum
comparison over the received octets succeeded. -/
theorem C02_verify_before_decrypt (P : Prims) (hP : P.Lawful) (sa : Option SAKey)
    (hw : ∀ k, sa = some k → k.WF P) (role : Bool) (hdr : Option Header) (bs : Bytes) :
    (unprotect P sa role hdr bs).2.1 = 0 ∨
    ((unprotect P sa role hdr bs).2.1 = 1 ∧
      ∃ k d next encData, sa = some k ∧ unprotectDecoded hdr bs = .ok d ∧ d.firstIsSK = true ∧
        lastSK d.payloads none = .ok (some (next, encData)) ∧
        k.integInfo.outLen ≤ encData.length ∧ k.integInfo.outLen ≤ bs.length ∧
        (P.mac (k.integObj (!role)).alg (k.integObj (!role)).key
            (bs.take (bs.length - k.integInfo.outLen))).take k.integInfo.outLen
          = encData.drop (encData.length - k.integInfo.outLen)) := by
  rw [unprotect_eq]
  cases hd : unprotectDecoded hdr bs with
  | err => exact Or.inl rfl
  | fault => exact Or.inl rfl
  | ok d =>
    simp only
    by_cases hsk : d.firstIsSK = true
    · rw [if_pos hsk]
      cases sa with
      | none => exact Or.inl rfl
      | some k =>
        simp only
        by_cases hn : (decryptMsg P k role bs d).2.1 = 0
        · exact Or.inl hn
        · obtain ⟨next, encData, hl, h1, h2, hm⟩ := decryptMsg_inv P hP k (hw k rfl) role bs d (Or.inl hn)
          refine Or.inr ⟨?_, k, d, next, encData, rfl, rfl, hsk, hl, h1, h2, hm.symm⟩
          rw [decryptMsg_eq P hP k (hw k rfl) role bs d next encData hl h1 h2, if_pos hm]
    · rw [if_neg hsk]
      split <;> exact Or.inl rfl

/-- A datagram whose first decoded payload is not SK is handled as an unprotected datagram:
the result is the plain decode (for `hdr = none`: `decodeMsg bs`), the key argument is handed
back untouched (no hash object is written, no cipher called), and the outcome does not depend
on key or role at all.  The only deviation from "`= decodeMsg`" is the model's guard for a
header that names SK but is followed by no payload: `err`. -/
theorem C02_not_sk (P : Prims) (sa : Option SAKey) (role : Bool) (hdr : Option Header) (bs : Bytes) (d : Msg)
    (hd : unprotectDecoded hdr bs = .ok d) (hsk : d.firstIsSK = false) :
    unprotect P sa role hdr bs =
      (sa, 0, if d.payloads = [] ∧ d.hdr.next = Facts.typeSK then .err else .ok d) ∧
    (∀ sa' role', (unprotect P sa' role' hdr bs).2 = (unprotect P sa role hdr bs).2) := by
  refine ⟨unprotect_not_sk P sa role hdr bs d hd hsk, fun sa' role' => ?_⟩
  rw [unprotect_not_sk P sa role hdr bs d hd hsk, unprotect_not_sk P sa' role' hdr bs d hd hsk]

/-- `C02_not_sk` for the nil-header mode and a non-empty payload list, literally "`= decodeMsg`" -/
theorem C02_not_sk_decodeMsg (P : Prims) (sa : Option SAKey) (role : Bool) (bs : Bytes) (d : Msg)
    (hd : decodeMsg bs = .ok d) (hne : d.payloads ≠ []) (hsk : d.firstIsSK = false) :
    unprotect P sa role none bs = (sa, 0, decodeMsg bs) := by
  have := (C02_not_sk P sa role none bs d hd hsk).1
  rw [this, hd, if_neg (by simp [hne])]

/-- ICV flip (unconditional).  `bs` is accepted; `bs'` has the same length and the same octets
before the last `cl`, but differs (so it differs within the last `cl` octets).  Both decode
(header modes may differ) to messages whose SK body ends where the datagram ends (`hext`,
`hext'` — true for every datagram consisting of a header and one SK payload, see
`C06`/`Spec.skMessage`).  Then `bs'` is rejected with an error and the cipher is not called. -/
theorem C02_icv_flip (P : Prims) (hP : P.Lawful) (sa : SAKey) (hw : sa.WF P) (role : Bool)
    (hdr hdr' : Option Header) (bs bs' : Bytes) (d d' : Msg) (next next' : UInt8) (encData encData' : Bytes)
    (hd : unprotectDecoded hdr bs = .ok d) (hl : lastSK d.payloads none = .ok (some (next, encData)))
    (hext : encData.drop (encData.length - sa.integInfo.outLen) = bs.drop (bs.length - sa.integInfo.outLen))
    (m : Msg) (hacc : (unprotect P (some sa) role hdr bs).2.2 = .ok m)
    (hlen : bs'.length = bs.length)
    (hpre : bs'.take (bs'.length - sa.integInfo.outLen) = bs.take (bs.length - sa.integInfo.outLen))
    (hne : bs' ≠ bs)
    (hd' : unprotectDecoded hdr' bs' = .ok d') (hl' : lastSK d'.payloads none = .ok (some (next', encData')))
    (hext' : encData'.drop (encData'.length - sa.integInfo.outLen) = bs'.drop (bs'.length - sa.integInfo.outLen)) :
    (unprotect P (some sa) role hdr' bs').2 = (0, .err) := by
  have hsk : d.firstIsSK = true := lastSK_firstIsSK d.hdr d.payloads _ hl
  have hsk' : d'.firstIsSK = true := lastSK_firstIsSK d'.hdr d'.payloads _ hl'
  obtain ⟨nx, ed, hl2, h1, h2, hm, _⟩ := C02_accept_inv P hP sa hw role hdr bs d hd hsk
    (unprotect P (some sa) role hdr bs).1 (unprotect P (some sa) role hdr bs).2.1 m
    (by rw [← hacc])
  rw [hl] at hl2
  simp only [Res.ok.injEq, Option.some.injEq, Prod.mk.injEq] at hl2
  obtain ⟨rfl, rfl⟩ := hl2
  rw [unprotect_sk P sa role hdr' bs' d' hd' hsk']
  simp only
  by_cases h1' : encData'.length < sa.integInfo.outLen
  · unfold decryptMsg; rw [hl']; simp only; rw [if_pos h1']
  · rw [decryptMsg_eq P hP sa hw role bs' d' next' encData' hl' (by omega) (by omega)]
    simp only
    rw [if_neg]
    intro hc
    rw [hpre, hm, hext, hext'] at hc
    apply hne
    rw [← List.take_append_drop (bs'.length - sa.integInfo.outLen) bs',
        ← List.take_append_drop (bs.length - sa.integInfo.outLen) bs, hc, hpre]

/-- ICV flip on genuine messages, no decoding hypothesis (unconditional): take ANY datagram `bs`
that `protect` returned (sender `sa` as `role`); let the receiver `sb` hold the sender
direction's integrity hash/key and checksum length.  Every `bs'` of the same length that agrees
with `bs` before the last `cl` octets but is not `bs` — i.e. every alteration confined to the
checksum — is rejected with an error by the opposite role, in either header mode, and the cipher
is not called. -/
theorem C02_icv_flip_protected (P : Prims) (hP : P.Lawful) (sa sb : SAKey) (hwa : sa.WF P) (hwb : sb.WF P)
    (role : Bool)
    (hcl : sb.integInfo.outLen = sa.integInfo.outLen)
    (halg : (sb.integObj role).alg = (sa.integObj role).alg)
    (hka : (sb.integObj role).key = (sa.integObj role).key)
    (r : Rand) (m : Msg) (hmaj : m.hdr.major.toNat < 16) (hmin : m.hdr.minor.toNat < 16)
    (sa' : SAKey) (r' : Rand) (bs : Bytes) (mo : Msg)
    (h : protect P sa role r m = (sa', r', .ok (bs, mo)))
    (bs' : Bytes) (hlen : bs'.length = bs.length)
    (hpre : bs'.take (bs'.length - sa.integInfo.outLen) = bs.take (bs.length - sa.integInfo.outLen))
    (hne : bs' ≠ bs)
    (hdr : Option Header) (hhdr : hdr = none ∨ ∃ hd, hdr = some hd ∧ parseHeader bs' = .ok hd) :
    (unprotect P (some sb) (!role) hdr bs').2 = (0, .err) := by
  obtain ⟨inner, padDraw, iv, r1, henc, hd1, hd2, hiv, hpadl, hfit, hbs, _, _⟩ :=
    C06_protect_is_rfc P hP sa hwa role r m sa' r' bs mo h
  have hrr : (!(!role)) = role := Bool.not_not role
  subst hbs
  exact unprotect_spec_flip P hP sb hwb (!role) (sa.skParams role) hcl
    (by rw [hrr]; exact halg) (by rw [hrr]; exact hka) m.hdr hmaj hmin (firstType m.payloads) inner iv
    (padDraw.take (16 - inner.length % 16 - 1)) hiv (by omega)
    (by have : (sa.skParams role).icvLen = sa.integInfo.outLen := rfl
        omega)
    bs' hlen hpre hne hdr hhdr

/-- Tampering anywhere before the checksum — bit flips in header or SK payload, truncation or
extension that carries the genuine checksum along, splices — PARTIAL: needs `hNoColl`.
`bs₀` is a genuine datagram (accepted by `sa` as `role`); `bs` decodes to an SK message whose
checksum field is the genuine one (`hsame`) but whose signed octets differ (`hdiff`).
Under `hNoColl` (these altered signed octets do not collide with the genuine signed octets
under the truncated MAC with the peer-direction key) `bs` is not accepted and the cipher is not
called.
(Alterations that also change the checksum field: `C02_reject_of_bad_mac`, whose hypothesis
is then the no-forgery assumption itself; alterations of the checksum field only: `C02_icv_flip`.) -/
theorem C02_tamper_partial (P : Prims) (hP : P.Lawful) (sa : SAKey) (hw : sa.WF P) (role : Bool)
    (hdr₀ : Option Header) (bs₀ : Bytes) (d₀ : Msg) (next₀ : UInt8) (enc₀ : Bytes)
    (hd₀ : unprotectDecoded hdr₀ bs₀ = .ok d₀) (hl₀ : lastSK d₀.payloads none = .ok (some (next₀, enc₀)))
    (m₀ : Msg) (hacc : (unprotect P (some sa) role hdr₀ bs₀).2.2 = .ok m₀)
    (hdr : Option Header) (bs : Bytes) (d : Msg) (next : UInt8) (enc : Bytes)
    (hd : unprotectDecoded hdr bs = .ok d) (hl : lastSK d.payloads none = .ok (some (next, enc)))
    (hsame : enc.drop (enc.length - sa.integInfo.outLen) = enc₀.drop (enc₀.length - sa.integInfo.outLen))
    (hdiff : bs.take (bs.length - sa.integInfo.outLen) ≠ bs₀.take (bs₀.length - sa.integInfo.outLen))
    (hNoColl : bs.take (bs.length - sa.integInfo.outLen) ≠ bs₀.take (bs₀.length - sa.integInfo.outLen) →
      (P.mac (sa.integObj (!role)).alg (sa.integObj (!role)).key
        (bs.take (bs.length - sa.integInfo.outLen))).take sa.integInfo.outLen ≠
      (P.mac (sa.integObj (!role)).alg (sa.integObj (!role)).key
        (bs₀.take (bs₀.length - sa.integInfo.outLen))).take sa.integInfo.outLen) :
    (unprotect P (some sa) role hdr bs).2.1 = 0 ∧ ∀ m, (unprotect P (some sa) role hdr bs).2.2 ≠ .ok m := by
  have hsk₀ : d₀.firstIsSK = true := lastSK_firstIsSK d₀.hdr d₀.payloads _ hl₀
  have hsk : d.firstIsSK = true := lastSK_firstIsSK d.hdr d.payloads _ hl
  obtain ⟨nx, ed, hl2, h1, h2, hm, _⟩ := C02_accept_inv P hP sa hw role hdr₀ bs₀ d₀ hd₀ hsk₀
    (unprotect P (some sa) role hdr₀ bs₀).1 (unprotect P (some sa) role hdr₀ bs₀).2.1 m₀
    (by rw [← hacc])
  rw [hl₀] at hl2
  simp only [Res.ok.injEq, Option.some.injEq, Prod.mk.injEq] at hl2
  obtain ⟨rfl, rfl⟩ := hl2
  apply C02_reject_of_bad_mac P hP sa hw role hdr bs d hd hsk
  intro nx' ed' hl' _
  rw [hl] at hl'
  simp only [Res.ok.injEq, Option.some.injEq, Prod.mk.injEq] at hl'
  obtain ⟨rfl, rfl⟩ := hl'
  rw [hsame, ← hm]
  exact hNoColl hdiff

/-- Common core of cross-key and reflection — PARTIAL (`hNoColl`): a datagram accepted by
`(sa, role)` is presented to `(sb, role')` with the same checksum length; if the truncated MAC
of its signed octets under the integrity object `(sb, role')` checks with differs from the one
under the object `(sa, role)` checked with, it is rejected and the cipher is not called. -/
theorem C02_otherkey_partial (P : Prims) (hP : P.Lawful) (sa sb : SAKey) (hwa : sa.WF P) (hwb : sb.WF P)
    (role role' : Bool) (hcl : sb.integInfo.outLen = sa.integInfo.outLen)
    (hdr : Option Header) (bs : Bytes) (m : Msg)
    (hacc : (unprotect P (some sa) role hdr bs).2.2 = .ok m)
    (d : Msg) (hd : unprotectDecoded hdr bs = .ok d) (hsk : d.firstIsSK = true)
    (hNoColl :
      (P.mac (sb.integObj (!role')).alg (sb.integObj (!role')).key
        (bs.take (bs.length - sa.integInfo.outLen))).take sa.integInfo.outLen ≠
      (P.mac (sa.integObj (!role)).alg (sa.integObj (!role)).key
        (bs.take (bs.length - sa.integInfo.outLen))).take sa.integInfo.outLen) :
    (unprotect P (some sb) role' hdr bs).2.1 = 0 ∧ ∀ m', (unprotect P (some sb) role' hdr bs).2.2 ≠ .ok m' := by
  obtain ⟨nx, ed, hl, h1, h2, hm, _⟩ := C02_accept_inv P hP sa hwa role hdr bs d hd hsk
    (unprotect P (some sa) role hdr bs).1 (unprotect P (some sa) role hdr bs).2.1 m
    (by rw [← hacc])
  apply C02_reject_of_bad_mac P hP sb hwb role' hdr bs d hd hsk
  intro nx' ed' hl' _
  rw [hl] at hl'
  simp only [Res.ok.injEq, Option.some.injEq, Prod.mk.injEq] at hl'
  obtain ⟨rfl, rfl⟩ := hl'
  rw [hcl, ← hm]
  exact hNoColl

/-- Cross-key — PARTIAL (`hNoColl`): a genuine datagram (accepted by `sa` as `role`) presented,
in the same role, to a holder `sb` of other keys whose peer-direction integrity key gives a
different truncated MAC on the signed octets is rejected; the cipher is not called. -/
theorem C02_crosskey_partial (P : Prims) (hP : P.Lawful) (sa sb : SAKey) (hwa : sa.WF P) (hwb : sb.WF P)
    (role : Bool) (hcl : sb.integInfo.outLen = sa.integInfo.outLen)
    (hdr : Option Header) (bs : Bytes) (m : Msg)
    (hacc : (unprotect P (some sa) role hdr bs).2.2 = .ok m)
    (d : Msg) (hd : unprotectDecoded hdr bs = .ok d) (hsk : d.firstIsSK = true)
    (hNoColl :
      (P.mac (sb.integObj (!role)).alg (sb.integObj (!role)).key
        (bs.take (bs.length - sa.integInfo.outLen))).take sa.integInfo.outLen ≠
      (P.mac (sa.integObj (!role)).alg (sa.integObj (!role)).key
        (bs.take (bs.length - sa.integInfo.outLen))).take sa.integInfo.outLen) :
    (unprotect P (some sb) role hdr bs).2.1 = 0 ∧ ∀ m', (unprotect P (some sb) role hdr bs).2.2 ≠ .ok m' :=
  C02_otherkey_partial P hP sa sb hwa hwb role role hcl hdr bs m hacc d hd hsk hNoColl

/-- Reflection — PARTIAL (`hNoColl`): a datagram accepted by the SA acting as `role` (hence
produced by the peer, whose direction is `!role`) presented to the same SA acting as `!role`
— i.e. handed back to the role that produced it — is checked under the OTHER direction's
integrity key; if that gives a different truncated MAC it is rejected, cipher not called. -/
theorem C02_reflect_partial (P : Prims) (hP : P.Lawful) (sa : SAKey) (hw : sa.WF P) (role : Bool)
    (hdr : Option Header) (bs : Bytes) (m : Msg)
    (hacc : (unprotect P (some sa) role hdr bs).2.2 = .ok m)
    (d : Msg) (hd : unprotectDecoded hdr bs = .ok d) (hsk : d.firstIsSK = true)
    (hNoColl :
      (P.mac (sa.integObj role).alg (sa.integObj role).key
        (bs.take (bs.length - sa.integInfo.outLen))).take sa.integInfo.outLen ≠
      (P.mac (sa.integObj (!role)).alg (sa.integObj (!role)).key
        (bs.take (bs.length - sa.integInfo.outLen))).take sa.integInfo.outLen) :
    (unprotect P (some sa) (!role) hdr bs).2.1 = 0 ∧ ∀ m', (unprotect P (some sa) (!role) hdr bs).2.2 ≠ .ok m' := by
  apply C02_otherkey_partial P hP sa sa hw hw role (!role) rfl hdr bs m hacc d hd hsk
  rw [Bool.not_not]; exact hNoColl

/-! ### non-vacuity (toy lawful primitives `Prims.skToy`, values in `SkEx`, Lemmas/Sk.lean)

`SkEx.bs` is the datagram `protect Prims.skToy SkEx.sa true …` returns; `SkEx.sa` acting as
responder accepts it (`SkEx.accepted_bs`). -/

/-- `C02_accept_inv` on the genuine datagram -/
example : (Prims.skToy.mac 1 [2] (SkEx.bs.take (76 - 12))).take 12 = SkEx.enc.drop (44 - 12) := by
  obtain ⟨nx, ed, hl, _, _, hm, _⟩ := C02_accept_inv Prims.skToy Prims.skToy_lawful SkEx.sa SkEx.sa_wf false none
    SkEx.bs SkEx.dec SkEx.decoded_bs rfl _ _ _
    (show unprotect Prims.skToy (some SkEx.sa) false none SkEx.bs = (_, _, .ok _) from by
      rw [← SkEx.accepted_bs])
  have : lastSK SkEx.dec.payloads none = .ok (some (40, SkEx.enc)) := rfl
  rw [this] at hl
  simp only [Res.ok.injEq, Option.some.injEq, Prod.mk.injEq] at hl
  obtain ⟨_, rfl⟩ := hl
  exact hm

/-- `C02_verify_before_decrypt`: the genuine datagram reaches the cipher once, a flipped
checksum octet never does -/
example : (unprotect Prims.skToy (some SkEx.sa) false none SkEx.bs).2.1 = 1 ∧
    (unprotect Prims.skToy (some SkEx.sa) false none (SkEx.bs.take 75 ++ [1])).2.1 = 0 := by decide +kernel

/-- `C02_icv_flip`: last checksum octet altered -/
example : (unprotect Prims.skToy (some SkEx.sa) false none (SkEx.bs.take 75 ++ [1])).2 = (0, .err) :=
  C02_icv_flip Prims.skToy Prims.skToy_lawful SkEx.sa SkEx.sa_wf false none none SkEx.bs (SkEx.bs.take 75 ++ [1])
    SkEx.dec ⟨{ SkEx.dec.hdr with payloadBytes := (SkEx.bs.take 75 ++ [1]).drop 28 }, [.sk 40 ((SkEx.bs.take 75 ++ [1]).drop 32)]⟩
    40 40 SkEx.enc ((SkEx.bs.take 75 ++ [1]).drop 32)
    SkEx.decoded_bs rfl (by decide +kernel) _ SkEx.accepted_bs (by decide +kernel) (by decide +kernel)
    (by decide +kernel) (by decide +kernel) rfl (by decide +kernel)

/-- `C02_icv_flip_protected`: the same, with nothing assumed about how the altered datagram decodes -/
example : (unprotect Prims.skToy (some SkEx.sa) false none (SkEx.bs.take 75 ++ [1])).2 = (0, .err) := by
  obtain ⟨sa', r', mo, h⟩ := SkEx.protect_bs_full
  exact C02_icv_flip_protected Prims.skToy Prims.skToy_lawful SkEx.sa SkEx.sa SkEx.sa_wf SkEx.sa_wf true rfl rfl rfl
    SkEx.rnd SkEx.msg (by decide) (by decide) sa' r' SkEx.bs mo h (SkEx.bs.take 75 ++ [1])
    (by decide +kernel) (by decide +kernel) (by decide +kernel) none (Or.inl rfl)

/-- `C02_tamper_partial`: first header octet altered, checksum field untouched; for this pair the
toy MAC does differ (`hNoColl` holds) -/
example : (unprotect Prims.skToy (some SkEx.sa) false none (1 :: SkEx.bs.drop 1)).2.1 = 0 ∧
    ∀ m, (unprotect Prims.skToy (some SkEx.sa) false none (1 :: SkEx.bs.drop 1)).2.2 ≠ .ok m :=
  C02_tamper_partial Prims.skToy Prims.skToy_lawful SkEx.sa SkEx.sa_wf false none SkEx.bs SkEx.dec 40 SkEx.enc
    SkEx.decoded_bs rfl _ SkEx.accepted_bs none (1 :: SkEx.bs.drop 1)
    ⟨{ SkEx.dec.hdr with ispi := 72057594037927937 }, [.sk 40 SkEx.enc]⟩ 40 SkEx.enc
    (by decide +kernel) rfl rfl (by decide +kernel) (fun _ => by decide +kernel)

/-- `C02_crosskey_partial`: a holder of other keys -/
example : (unprotect Prims.skToy (some SkEx.sb) false none SkEx.bs).2.1 = 0 ∧
    ∀ m, (unprotect Prims.skToy (some SkEx.sb) false none SkEx.bs).2.2 ≠ .ok m :=
  C02_crosskey_partial Prims.skToy Prims.skToy_lawful SkEx.sa SkEx.sb SkEx.sa_wf SkEx.sb_wf false rfl none SkEx.bs _
    SkEx.accepted_bs SkEx.dec SkEx.decoded_bs rfl (by decide +kernel)

/-- `C02_reflect_partial`: presented to the initiator, who produced it -/
example : (unprotect Prims.skToy (some SkEx.sa) true none SkEx.bs).2.1 = 0 ∧
    ∀ m, (unprotect Prims.skToy (some SkEx.sa) true none SkEx.bs).2.2 ≠ .ok m :=
  C02_reflect_partial Prims.skToy Prims.skToy_lawful SkEx.sa SkEx.sa_wf false none SkEx.bs _
    SkEx.accepted_bs SkEx.dec SkEx.decoded_bs rfl (by decide +kernel)

/-- `C02_not_sk`: first-payload type altered from 46 (SK) to 40: handled as an unprotected datagram
(here: its payload then fails to… decode as a chain of a Nonce payload holding the SK body) -/
example : ∃ d, unprotectDecoded none (SkEx.bs.take 16 ++ [40] ++ SkEx.bs.drop 17) = .ok d ∧ d.firstIsSK = false ∧
    unprotect Prims.skToy (some SkEx.sa) false none (SkEx.bs.take 16 ++ [40] ++ SkEx.bs.drop 17) = (some SkEx.sa, 0, .ok d) := by
  refine ⟨⟨{ SkEx.dec.hdr with next := 40 }, [.nonce SkEx.enc]⟩, by decide +kernel, rfl, ?_⟩
  have := (C02_not_sk Prims.skToy (some SkEx.sa) false none (SkEx.bs.take 16 ++ [40] ++ SkEx.bs.drop 17)
    ⟨{ SkEx.dec.hdr with next := 40 }, [.nonce SkEx.enc]⟩ (by decide +kernel) rfl).1
  rw [this, if_neg (by simp)]

/-- The hypothesis `P.Lawful` of the theorems above (acceptance ⇒ valid MAC, verify before decrypt) is not an assumption about the
primitives the model actually runs: the executable SHA-256 / SHA-1 / MD5 / HMAC / AES of
`IkeModel/Crypto` — the ones the correspondence suites compare byte for byte with Go's standard
library — satisfy it (digest lengths; AES block length; `dec k (enc k b) = b` for every key and
block, proved from FIPS-197's inverse structure in `Lemmas/PrimsReal.lean`). -/
theorem C02_real_lawful : Prims.real.Lawful := Prims.real_lawful

end Ike
