import IkeProofs.Refine.Transfer

/-! # C20: the message codec its model rests on is the code as translated from the current source

The model functions of this property (`protect` / `unprotect`, message objects) call the model's
`encodeChain` / `decodeChain` / `parseHeader` / `marshalHeader`.  These are, on every input,
what `tools/go2lean` translates from /repo's `message/*.go` on this run. -/

namespace Ike
open Ike.Refine Ike.Gen.message

theorem C20_gen_codec_is_model :
    (∀ ps : List Payload, IKEPayloadContainer.Encode (ps.map GenAbs.repPayload) = encodeChain ps) ∧
    (∀ (t : UInt8) (b : Bytes), (IKEPayloadContainer.Decode [] t b).map GenAbs.absPayloads = (decodeChain t b).map some) ∧
    (∀ b : Bytes, (ParseHeader b).map GenAbs.absHeader = parseHeader b) ∧
    (∀ h : Gen.message.IKEHeader, IKEHeader.Marshal h = marshalHeader (GenAbs.absHeader h)) ∧
    (∀ b : Bytes, genDecode b = (decodeMsg b).map some) ∧ (∀ m : Msg, genEncode m = encodeMsg m) :=
  ⟨Gen_Encode_chain, Gen_Decode_chain, ParseHeader_refines, IKEHeader_Marshal_refines, genDecode_eq, genEncode_eq⟩

end Ike
