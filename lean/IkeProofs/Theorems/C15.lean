import IkeProofs.Lemmas.Eap
import IkeProofs.Lemmas.PrimsReal

/-! # C15 — EAP-AKA' AT_MAC is HMAC-SHA-256-128 over the packet with the MAC field zeroed

`calcEapAkaPrimeAtMAC P e key` is the model of `(*EAP).CalcEapAkaPrimeAtMAC`; it returns the
packet as the call leaves it and the result.  HMAC is the parameter `P.mac` (hash number 2 is
SHA-256); nothing below unfolds it.  `akaZeroMac a` is `a` with AT_MAC := 0¹⁶ (`initMAC`),
`eapAkaWire code ident a` the octets `EAP.Marshal` returns for an EAP-AKA' packet.

What is proved at full strength: the definition (`C15_def`), independence of the stored MAC
(`C15_ignores_old_mac`), agreement with the independent RFC 5448 §3.4 transcription on the wire
form of every packet built through the API (`C15_is_rfc`).

What is partial, and why:
* `C15_receiver_partial` covers packets **built through the API** (attributes in ascending type
  order, no duplicates, zero reserved octets — exactly what this library's own `Marshal` emits).
  For other well-formed wire forms the receiver's re-marshalling differs from the octets sent
  (known finding D15, `C15/aka-wire-order`); the `example`s at the end of the file exhibit such a
  packet.
* `C15_sensitive_partial` needs the explicit hypothesis `hNoColl…` that the truncated HMAC does
  not collide on the two inputs at hand — no such statement is provable about HMAC itself. -/

set_option linter.unusedVariables false

namespace Ike

/-! ## the definition -/

/-- **C15, clause "the code equals the first 16 octets of HMAC-SHA-256 under K_aut over the complete
EAP packet … with the AT_MAC value zeroed"**: for every key, code, identifier and EAP-AKA' packet
`a` (built or not), the call sets AT_MAC := 0¹⁶ in the packet (`SetAttr(AT_MAC, 0¹⁶)` succeeds, all
other attributes untouched), `EAP.Marshal` of that packet succeeds with octets `bs`, and the result
is `take 16 (HMAC-SHA-256 key bs)`.  The packet is left carrying the zeroed AT_MAC. -/
theorem C15_def (P : Prims) (e : Eap) (a : Aka) (key : Bytes) (h : e.data = .aka a) :
    ∃ a0 bs,
      akaSetAttr a Facts.atMac (zeros 16) = .ok a0 ∧
      akaGetAttr a0 Facts.atMac = .ok (zeros 16) ∧
      (∀ t, t ≠ Facts.atMac → akaGetAttr a0 t = akaGetAttr a t) ∧
      marshalEap { e with data := .aka a0 } = .ok bs ∧
      calcEapAkaPrimeAtMAC P e key = ({ e with data := .aka a0 }, .ok ((P.mac 2 key bs).take 16)) := by
  obtain ⟨code, ident, data⟩ := e
  dsimp only at h
  subst h
  have hs : akaSetAttr a Facts.atMac (zeros 16) = .ok (akaZeroMac a) := akaInitMac_eq a
  refine ⟨akaZeroMac a, eapAkaWire code ident (akaZeroMac a), hs, ?_, ?_, marshalEap_aka _ _ _,
    calcEapAkaPrimeAtMAC_aka P code ident a key⟩
  · obtain ⟨na, hm, hq⟩ := (akaSetAttr_ok_iff _ _ _ _).mp hs
    obtain ⟨h1, h2⟩ := akaMkAttr_ok_fields hm
    rw [hq]; unfold akaGetAttr; dsimp only
    rw [← h1, akaLookup_insert_same]; dsimp only; rw [h2]
  · intro t ht
    unfold akaGetAttr akaZeroMac
    dsimp only
    rw [akaLookup_insert_other _ _ _ ht]

/-- on anything that is not an EAP-AKA' packet the call does not compute a code: error (other
methods) or nil-interface panic (no method data), packet untouched -/
theorem C15_def_other (P : Prims) (e : Eap) (key : Bytes) (h : ∀ a, e.data ≠ .aka a) :
    (calcEapAkaPrimeAtMAC P e key).1 = e ∧ ∀ m, (calcEapAkaPrimeAtMAC P e key).2 ≠ .ok m := by
  unfold calcEapAkaPrimeAtMAC
  cases hd : e.data with
  | aka a => exact absurd hd (h a)
  | none => exact ⟨rfl, fun m => by simp⟩
  | identity d => exact ⟨rfl, fun m => by simp⟩
  | notification d => exact ⟨rfl, fun m => by simp⟩
  | nak d => exact ⟨rfl, fun m => by simp⟩
  | expanded vid vt d => exact ⟨rfl, fun m => by simp⟩

/-- toy primitives satisfying the laws, to show hypotheses about `P` are satisfiable -/
def C15_toyPrims : Prims := ⟨fun _ _ _ => zeros 32, fun _ => 32, fun _ b => b, fun _ b => b⟩

theorem C15_toyPrims_lawful : C15_toyPrims.Lawful :=
  ⟨fun _ _ _ => by simp [C15_toyPrims], fun _ _ h => h, fun _ _ h => h, fun _ _ _ => rfl⟩

example : (calcEapAkaPrimeAtMAC C15_toyPrims ⟨1, 7, .aka ⟨1, 0, [⟨1, 5, 0, zeros 16⟩]⟩⟩ [1, 2, 3]).2
    = .ok (zeros 16) := by decide

/-! ## independence of the stored MAC -/

/-- **C15, clause "independent of whatever value AT_MAC held before"**: storing any AT_MAC value
`v` first (any successful `SetAttr(AT_MAC, v)`) changes neither the result nor the packet the call
leaves behind — for every packet, built or not. -/
theorem C15_ignores_old_mac (P : Prims) (code ident : UInt8) (a a' : Aka) (v key : Bytes)
    (hs : akaSetAttr a Facts.atMac v = .ok a') :
    calcEapAkaPrimeAtMAC P ⟨code, ident, .aka a'⟩ key = calcEapAkaPrimeAtMAC P ⟨code, ident, .aka a⟩ key := by
  obtain ⟨na, hm, rfl⟩ := (akaSetAttr_ok_iff _ _ _ _).mp hs
  obtain ⟨h1, _⟩ := akaMkAttr_ok_fields hm
  rw [calcEapAkaPrimeAtMAC_aka, calcEapAkaPrimeAtMAC_aka, akaZeroMac_setMac a na h1]

/-- the same for an AT_MAC entry of any shape stored in the map (also a decoded one) -/
theorem C15_ignores_old_mac_entry (P : Prims) (code ident : UInt8) (a : Aka) (x : AkaAttr) (key : Bytes)
    (hx : x.atype = Facts.atMac) :
    calcEapAkaPrimeAtMAC P ⟨code, ident, .aka { a with attrs := akaInsert a.attrs x }⟩ key =
      calcEapAkaPrimeAtMAC P ⟨code, ident, .aka a⟩ key := by
  rw [calcEapAkaPrimeAtMAC_aka, calcEapAkaPrimeAtMAC_aka, akaZeroMac_setMac a x hx]

example : (akaSetAttr ⟨1, 0, [⟨1, 5, 0, zeros 16⟩]⟩ Facts.atMac (List.replicate 16 0xaa)).isOk = true := by decide

/-! ## agreement with RFC 5448 §3.4 on the packet as sent -/

/-- **C15, clause "over the complete EAP packet as it appears on the wire with the AT_MAC value
zeroed"**, against the independent transcription `Spec.atMac` (which parses the *octets*: checks the
Length field, walks the attributes, zeroes the 16 MAC octets in place): for every packet built
through the API that carries AT_MAC (any value), with `wire` its encoding, the library's result is
exactly `Spec.atMac P key wire`. -/
theorem C15_is_rfc (P : Prims) (code ident : UInt8) (a : Aka) (key wire m : Bytes)
    (hb : AkaBuilt a) (hm : akaGetAttr a Facts.atMac = .ok m)
    (hw : marshalEap ⟨code, ident, .aka a⟩ = .ok wire) :
    ∃ mac, (calcEapAkaPrimeAtMAC P ⟨code, ident, .aka a⟩ key).2 = .ok mac ∧
      Spec.atMac P key wire = some mac ∧
      Spec.zeroMac wire = some (eapAkaWire code ident (akaZeroMac a)) := by
  rw [marshalEap_aka] at hw
  simp only [Res.ok.injEq] at hw
  subst hw
  have hmem : ∃ x ∈ a.attrs, x.atype = Facts.atMac := by
    unfold akaGetAttr at hm
    cases hl : akaLookup a.attrs Facts.atMac with
    | none => rw [hl] at hm; simp at hm
    | some x => exact ⟨x, akaLookup_some_mem hl⟩
  have hz := zeroMac_wire code ident a hb hmem
  refine ⟨_, by rw [calcEapAkaPrimeAtMAC_aka], ?_, hz⟩
  unfold Spec.atMac
  rw [hz]

/-- the sender's form: compute on a built packet (with or without AT_MAC), store any 16-octet value
`m` (in particular the computed one) as AT_MAC, encode: the RFC value over those octets is the value
the library computed -/
theorem C15_is_rfc_sender (P : Prims) (code ident : UInt8) (a a' : Aka) (key wire m : Bytes)
    (hb : AkaBuilt a) (hl : m.length = 16) (hs : akaSetAttr a Facts.atMac m = .ok a')
    (hw : marshalEap ⟨code, ident, .aka a'⟩ = .ok wire) :
    ∃ mac, (calcEapAkaPrimeAtMAC P ⟨code, ident, .aka a⟩ key).2 = .ok mac ∧ Spec.atMac P key wire = some mac := by
  have hb' := akaBuilt_set hb (akaValOk_mac m hl) hs
  have hg : akaGetAttr a' Facts.atMac = .ok m := by
    obtain ⟨na, hm, rfl⟩ := (akaSetAttr_ok_iff _ _ _ _).mp hs
    obtain ⟨h1, h2⟩ := akaMkAttr_ok_fields hm
    unfold akaGetAttr; dsimp only
    rw [← h1, akaLookup_insert_same]; dsimp only; rw [h2]
  obtain ⟨mac, h1, h2, _⟩ := C15_is_rfc P code ident a' key wire m hb' hg hw
  rw [C15_ignores_old_mac P code ident a a' m key hs] at h1
  exact ⟨mac, h1, h2⟩

example : AkaBuilt ⟨1, 0, [⟨1, 5, 0, zeros 16⟩, ⟨11, 5, 0, List.replicate 16 0xaa⟩, ⟨23, 2, 24, [97, 98, 99]⟩]⟩ ∧
    akaGetAttr ⟨1, 0, [⟨1, 5, 0, zeros 16⟩, ⟨11, 5, 0, List.replicate 16 0xaa⟩, ⟨23, 2, 24, [97, 98, 99]⟩]⟩
      Facts.atMac = .ok (List.replicate 16 0xaa) := by decide

/-! ## both ends agree (packets built through the API) -/

/-- **C15, clause "a receiver that decodes the transmitted packet and computes the code with the
same key obtains the transmitted value" — PARTIAL: packets built through the API.**

Sender: `CalcEapAkaPrimeAtMAC` on a built packet gives `mac` and leaves packet `a1`; the sender
stores `mac` as AT_MAC (`a2`) and encodes (`wire`).  Receiver: `Unmarshal wire` into a fresh packet,
`CalcEapAkaPrimeAtMAC` with the same key.  Then the receiver obtains `mac`, and the AT_MAC value it
reads from the decoded packet is `mac` too, so its comparison succeeds.

Full statement of the property also quantifies over well-formed packets "produced by an
independent encoder in any attribute order"; that part is **false** for the library (known finding
D15) — see the witness below.  Uses `C14_roundtrip`. -/
theorem C15_receiver_partial (P : Prims) (hP : P.Lawful) (h16 : 16 ≤ P.macLen 2)
    (code ident : UInt8) (a a1 a2 : Aka) (key mac wire : Bytes) (hb : AkaBuilt a)
    (hc : calcEapAkaPrimeAtMAC P ⟨code, ident, .aka a⟩ key = (⟨code, ident, .aka a1⟩, .ok mac))
    (hs : akaSetAttr a1 Facts.atMac mac = .ok a2)
    (hw : marshalEap ⟨code, ident, .aka a2⟩ = .ok wire) :
    recvEapAkaPrimeAtMAC P wire key = .ok mac ∧
    ∃ d, unmarshalEap wire = .ok ⟨code, ident, .aka d⟩ ∧ akaGetAttr d Facts.atMac = .ok mac := by
  rw [calcEapAkaPrimeAtMAC_aka] at hc
  simp only [Prod.mk.injEq, Eap.mk.injEq, EapData.aka.injEq, Res.ok.injEq, true_and] at hc
  obtain ⟨ha1, hmac⟩ := hc
  subst ha1
  have hlen : mac.length = 16 := by
    rw [← hmac, List.length_take, hP.mac_len]; omega
  have hb1 := akaZeroMac_built hb
  have hb2 := akaBuilt_set hb1 (akaValOk_mac mac hlen) hs
  have hsz := akaBuilt_size hb2
  have hrt := rt_eap_anycode ⟨code, ident, .aka a2⟩ wire hb2 (by dsimp only; omega) hw
  have hg : akaGetAttr a2 Facts.atMac = .ok mac := by
    obtain ⟨na, hm, rfl⟩ := (akaSetAttr_ok_iff _ _ _ _).mp hs
    obtain ⟨h1, h2⟩ := akaMkAttr_ok_fields hm
    unfold akaGetAttr; dsimp only
    rw [← h1, akaLookup_insert_same]; dsimp only; rw [h2]
  refine ⟨?_, a2, hrt, hg⟩
  unfold recvEapAkaPrimeAtMAC
  rw [hrt]
  dsimp only
  rw [C15_ignores_old_mac P code ident (akaZeroMac a) a2 mac key hs, calcEapAkaPrimeAtMAC_aka]
  dsimp only
  have : akaZeroMac (akaZeroMac a) = akaZeroMac a := by
    unfold akaZeroMac; dsimp only; rw [akaInsert_insert_same _ _ _ rfl]
  rw [this, hmac]

/-- the hypotheses of `C15_receiver_partial` are satisfiable for every built packet, key, code and
identifier: the sender's steps always succeed (so the theorem is not vacuous) -/
theorem C15_receiver_hyps_exist (P : Prims) (hP : P.Lawful) (h16 : 16 ≤ P.macLen 2)
    (code ident : UInt8) (a : Aka) (key : Bytes) :
    ∃ a1 mac a2 wire,
      calcEapAkaPrimeAtMAC P ⟨code, ident, .aka a⟩ key = (⟨code, ident, .aka a1⟩, .ok mac) ∧
      akaSetAttr a1 Facts.atMac mac = .ok a2 ∧ marshalEap ⟨code, ident, .aka a2⟩ = .ok wire := by
  have hlen : ((P.mac 2 key (eapAkaWire code ident (akaZeroMac a))).take 16).length = 16 := by
    rw [List.length_take, hP.mac_len]; omega
  generalize hmac : (P.mac 2 key (eapAkaWire code ident (akaZeroMac a))).take 16 = mac at hlen
  refine ⟨akaZeroMac a, mac,
    { akaZeroMac a with attrs := akaInsert (akaZeroMac a).attrs ⟨Facts.atMac, 5, 0, mac⟩ },
    eapAkaWire code ident { akaZeroMac a with attrs := akaInsert (akaZeroMac a).attrs ⟨Facts.atMac, 5, 0, mac⟩ },
    ?_, ?_, marshalEap_aka _ _ _⟩
  · rw [calcEapAkaPrimeAtMAC_aka, hmac]
  · unfold akaSetAttr
    rw [akaMkAttr_fixed16 _ _ (Or.inr (Or.inr rfl)) hlen]
    rfl

example : C15_toyPrims.Lawful ∧ 16 ≤ C15_toyPrims.macLen 2 ∧
    AkaBuilt ⟨1, 0, [⟨1, 5, 0, zeros 16⟩, ⟨3, 3, 40, [1, 2, 3, 4, 5]⟩]⟩ :=
  ⟨C15_toyPrims_lawful, by decide, by decide⟩

/-! ## sensitivity -/

/-- **C15, clause "obtains a different value if any octet of the packet or the key differs" —
PARTIAL: under `hNoColl`.**  The HMAC input of packet `i` is `wᵢ`, the encoding of the packet with
AT_MAC zeroed.  Assumed (`hNoColl`): the truncated HMAC-SHA-256 does not collide on the two
(key, input) pairs at hand.  Proved: (i) different inputs or different keys give different codes;
(ii) for packets built through the API the input is an injective function of
(code, identifier, subtype, all attributes other than the AT_MAC value): if the zero-MAC packets
differ, the inputs differ, hence the codes differ.
Not covered (and false, D15): a *wire* octet string that differs from the sender's but decodes
to the same in-memory packet gives the same code at the receiver. -/
theorem C15_sensitive_partial (P : Prims) (c1 i1 c2 i2 : UInt8) (a1 a2 : Aka) (k1 k2 : Bytes)
    (hNoColl : (P.mac 2 k1 (eapAkaWire c1 i1 (akaZeroMac a1))).take 16 =
               (P.mac 2 k2 (eapAkaWire c2 i2 (akaZeroMac a2))).take 16 →
               k1 = k2 ∧ eapAkaWire c1 i1 (akaZeroMac a1) = eapAkaWire c2 i2 (akaZeroMac a2)) :
    ((k1 ≠ k2 ∨ eapAkaWire c1 i1 (akaZeroMac a1) ≠ eapAkaWire c2 i2 (akaZeroMac a2)) →
      (calcEapAkaPrimeAtMAC P ⟨c1, i1, .aka a1⟩ k1).2 ≠ (calcEapAkaPrimeAtMAC P ⟨c2, i2, .aka a2⟩ k2).2) ∧
    (AkaBuilt a1 → AkaBuilt a2 →
      (⟨c1, i1, .aka (akaZeroMac a1)⟩ : Eap) ≠ ⟨c2, i2, .aka (akaZeroMac a2)⟩ →
      (calcEapAkaPrimeAtMAC P ⟨c1, i1, .aka a1⟩ k1).2 ≠ (calcEapAkaPrimeAtMAC P ⟨c2, i2, .aka a2⟩ k2).2) := by
  have main : (k1 ≠ k2 ∨ eapAkaWire c1 i1 (akaZeroMac a1) ≠ eapAkaWire c2 i2 (akaZeroMac a2)) →
      (calcEapAkaPrimeAtMAC P ⟨c1, i1, .aka a1⟩ k1).2 ≠ (calcEapAkaPrimeAtMAC P ⟨c2, i2, .aka a2⟩ k2).2 := by
    intro hne heq
    rw [calcEapAkaPrimeAtMAC_aka, calcEapAkaPrimeAtMAC_aka] at heq
    simp only [Res.ok.injEq] at heq
    obtain ⟨hk, hw⟩ := hNoColl heq
    rcases hne with h | h
    · exact h hk
    · exact h hw
  refine ⟨main, fun hb1 hb2 hne => main (Or.inr ?_)⟩
  intro hw
  apply hne
  have z1 := akaZeroMac_built hb1
  have z2 := akaZeroMac_built hb2
  have s1 := akaBuilt_size z1
  have s2 := akaBuilt_size z2
  have r1 := rt_eap_anycode ⟨c1, i1, .aka (akaZeroMac a1)⟩ _ z1 (by dsimp only; omega) (marshalEap_aka _ _ _)
  have r2 := rt_eap_anycode ⟨c2, i2, .aka (akaZeroMac a2)⟩ _ z2 (by dsimp only; omega) (marshalEap_aka _ _ _)
  rw [hw, r2] at r1
  simpa using r1.symm

/-! ## the known finding D15, witnessed

A well-formed EAP-AKA' Request as a peer may send it (RFC 5448 challenges put AT_KDF (24) before
AT_KDF_INPUT (23)): header, AT_KDF, AT_KDF_INPUT "ab", AT_MAC = aa…aa. -/

def C15_d15Raw : Bytes :=
  [1, 7, 0, 40, 50, 1, 0, 0,
   24, 1, 0, 1,
   23, 2, 0, 16, 97, 98, 0, 0,
   11, 5, 0, 0] ++ List.replicate 16 0xaa

def C15_d15Decoded : Eap :=
  ⟨1, 7, .aka ⟨1, 0, [⟨11, 5, 0, List.replicate 16 0xaa⟩, ⟨23, 2, 16, [97, 98]⟩, ⟨24, 1, 0, [0, 1]⟩]⟩⟩

/-- the library decodes it … -/
theorem C15_d15_decodes : unmarshalEap C15_d15Raw = .ok C15_d15Decoded := by decide +kernel

/-- … the decoded packet is even in the API-built domain, but re-encoding it does not give the
octets received (attributes come out in ascending order): the wire form is outside the image of
`marshalEap`, so `C15_receiver_partial` does not apply to it … -/
example : DomEap C15_d15Decoded ∧ marshalEap C15_d15Decoded ≠ .ok C15_d15Raw := by decide

/-- … and the octets the receiver feeds to HMAC differ from the RFC 5448 §3.4 input computed from the
octets on the wire, for every key and every `P`: the receiver's code is `take 16 (HMAC key w)` while
the RFC value is `take 16 (HMAC key z)` with `w ≠ z`. -/
theorem C15_D15_witness (P : Prims) (key : Bytes) :
    ∃ w z, recvEapAkaPrimeAtMAC P C15_d15Raw key = .ok ((P.mac 2 key w).take 16) ∧
      Spec.atMac P key C15_d15Raw = some ((P.mac 2 key z).take 16) ∧ w ≠ z := by
  have hz : Spec.zeroMac C15_d15Raw = some ([1, 7, 0, 40, 50, 1, 0, 0, 24, 1, 0, 1, 23, 2, 0, 16, 97, 98, 0, 0,
      11, 5, 0, 0] ++ zeros 16) := by decide
  refine ⟨eapAkaWire 1 7 (akaZeroMac ⟨1, 0, [⟨11, 5, 0, List.replicate 16 0xaa⟩, ⟨23, 2, 16, [97, 98]⟩,
      ⟨24, 1, 0, [0, 1]⟩]⟩),
    [1, 7, 0, 40, 50, 1, 0, 0, 24, 1, 0, 1, 23, 2, 0, 16, 97, 98, 0, 0, 11, 5, 0, 0] ++ zeros 16, ?_, ?_, ?_⟩
  · unfold recvEapAkaPrimeAtMAC
    rw [C15_d15_decodes]
    dsimp only
    unfold C15_d15Decoded
    rw [calcEapAkaPrimeAtMAC_aka]
  · unfold Spec.atMac
    rw [hz]
  · decide

/-- The hypothesis `P.Lawful` of the theorems above (the AT_MAC theorems) is not an assumption about the
primitives the model actually runs: the executable SHA-256 / SHA-1 / MD5 / HMAC / AES of
`IkeModel/Crypto` — the ones the correspondence suites compare byte for byte with Go's standard
library — satisfy it (digest lengths; AES block length; `dec k (enc k b) = b` for every key and
block, proved from FIPS-197's inverse structure in `Lemmas/PrimsReal.lean`). -/
theorem C15_real_lawful : Prims.real.Lawful := Prims.real_lawful

end Ike
