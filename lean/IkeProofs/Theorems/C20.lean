import IkeModel.Mem
import IkeModel.Generated.Footprint
import IkeModel.Ike

/-!
# C20 — decoded messages own their data; encoding is pure and deterministic (partial)

(i)  Ownership.  `Mem.lean` gives Go's slice/append semantics over a store of
     backing arrays.  `C20_no_alias`: a decoder whose stores into slice-typed
     fields are all of class `copyAppend` or `fresh` returns fields that read
     the same whatever is later written into the input's array.
     `C20_generated`: in the footprint regenerated from the current source by
     `tools/extract`, every such store in every `Unmarshal` / `Decode` /
     `DecodeDecrypt` / `decryptMsg` is `copyAppend` or `fresh`, except the
     documented views (header bookkeeping `PayloadBytes`, constructor / builder arguments).  Turning one `append(x.f, src...)` into `x.f = src[a:b]` changes
     the generated data and the theorem fails.
(ii) Purity and determinism in the functional model: `encodeMsg` is a function
     of the message value (determinism), leaves the payload list unchanged, and
     `protect` changes nothing but the payload list (one SK payload) and the two
     derived header fields.

Not exhibited by the model: real pointer identity — the footprint abstraction is
syntactic; the scribble-after-decode oracle of the harness validates it on the
implementation.
-/

namespace Ike

open Mem

theorem read_scribble_other (st : Store) (v : View) (id : Nat) (f : Bytes → Bytes) (h : v.arr ≠ id) :
    read (scribble st id f) v = read st v := by
  simp [Mem.read, Mem.scribble, h]

/-- a copied / fresh field lives in an array that did not exist before the store was executed -/
theorem exec_owned (st : Store) (input : View) (c : Class) (a b : Nat) (hc : c ≠ .alias) :
    (exec st input c a b).2.arr = st.next ∧ (exec st input c a b).1.next = st.next + 1 ∧
    (∀ j, j < st.next → (exec st input c a b).1.arrays j = st.arrays j) := by
  cases c with
  | copyAppend => refine ⟨rfl, rfl, fun j hj => ?_⟩; simp [Mem.exec, Mem.copyAppend]; omega
  | fresh => refine ⟨rfl, rfl, fun j hj => ?_⟩; simp [Mem.exec, Mem.fresh]; omega
  | alias => exact absurd rfl hc

/-- all views produced by a footprint without `alias` stores point at arrays allocated after `st.next` -/
theorem execAll_owned (st : Store) (input : View) (prog : List (Class × Nat × Nat))
    (h : ∀ s ∈ prog, s.1 ≠ .alias) :
    (∀ v ∈ (execAll st input prog).2, st.next ≤ v.arr) ∧ st.next ≤ (execAll st input prog).1.next := by
  induction prog generalizing st with
  | nil => simp [Mem.execAll]
  | cons s rest ih =>
    obtain ⟨c, a, b⟩ := s
    have hc := h (c, a, b) (by simp)
    obtain ⟨e1, e2, _⟩ := exec_owned st input c a b hc
    have ihr := ih (exec st input c a b).1 (fun s hs => h s (by simp [hs]))
    simp only [Mem.execAll]
    constructor
    · intro v hv
      simp at hv
      rcases hv with rfl | hv
      · omega
      · have := ihr.1 v hv; omega
    · have := ihr.2; omega

/-- **no field aliases the input**: after decoding with a footprint free of `alias` stores, overwriting
the receive buffer (any array that existed before decoding, in any way) leaves every field unchanged. -/
theorem C20_no_alias (st : Store) (input : View) (prog : List (Class × Nat × Nat))
    (h : ∀ s ∈ prog, s.1 ≠ .alias) (hin : input.arr < st.next) (f : Bytes → Bytes) :
    ∀ v ∈ (execAll st input prog).2,
      read (scribble (execAll st input prog).1 input.arr f) v = read (execAll st input prog).1 v := by
  intro v hv
  apply read_scribble_other
  have := (execAll_owned st input prog h).1 v hv
  omega

/-- conversely an `alias` store does share the input's array (the theorem above is not vacuous:
its premise is what rules this out) -/
theorem C20_alias_shares (st : Store) (input : View) (a b : Nat) :
    (exec st input .alias a b).2.arr = input.arr := rfl

open Footprint

/-- the documented places where a slice-typed field is made a view of a slice parameter:
`ParseHeader` keeps the payload octets as a view of the datagram in the header's bookkeeping field `PayloadBytes`
(not a payload field; the payload container copies out of it); the constructors `NewHeader` / `NewMessage` and the
builder `BuildDeletePayload` take ownership of their arguments (constructors, not decoders) -/
def c20DocumentedViews : List (String × String × String × String) :=
  [("ParseHeader", "lit.PayloadBytes", "alias", "param"),
   ("NewHeader", "lit.PayloadBytes", "alias", "param"),
   ("NewMessage", "lit.Payloads", "alias", "param"),
   ("IKEPayloadContainer.BuildDeletePayload", "deletePayload.SPIs", "alias", "param")]

/-- in the current source every store into a slice-typed field — in EVERY function of the library, so that moving
decoding code into a helper cannot take it out of sight — copies (`append(dst, src...)`), allocates (`make`,
literal, call result) or stores a view of a local buffer that is not derived from a slice parameter; the only views
of a parameter are the four documented ones, none of which is a payload field of a decoded message -/
theorem C20_generated :
    ∀ s ∈ sliceStores, s.2.2.1 = "copyAppend" ∨ s.2.2.1 = "fresh" ∨ s.2.2.1 = "local" ∨ s ∈ c20DocumentedViews := by
  decide

/-- plain encoding does not alter the payload list and its result is a function of the message value alone:
two encodings of equal messages are equal (determinism), and the message's payloads are untouched -/
theorem C20_encode_pure (m : Msg) (bs : Bytes) (h : Header) (hm : encodeMsg m = .ok (bs, h)) :
    h.ispi = m.hdr.ispi ∧ h.rspi = m.hdr.rspi ∧ h.major = m.hdr.major ∧ h.minor = m.hdr.minor ∧
    h.exch = m.hdr.exch ∧ h.flags = m.hdr.flags ∧ h.mid = m.hdr.mid ∧
    encodeMsg ⟨h, m.payloads⟩ = .ok (bs, h) := by
  unfold encodeMsg at hm ⊢
  cases hc : encodeChain m.payloads with
  | err => simp [hc] at hm
  | fault => simp [hc] at hm
  | ok pb =>
    simp only [hc, Res.bind_ok] at hm ⊢
    cases hh : marshalHeader { m.hdr with next := firstType m.payloads, payloadBytes := pb } with
    | err => simp [hh] at hm
    | fault => simp [hh] at hm
    | ok out =>
      simp [hh] at hm
      obtain ⟨rfl, rfl⟩ := hm
      simp [hh]

/-- protecting a message leaves exactly one Encrypted payload in its payload list and does not touch the
header fields other than the two derived ones -/
theorem C20_protect_effect (P : Prims) (sa : SAKey) (role : Bool) (r : Rand) (m : Msg)
    (sa' : SAKey) (r' : Rand) (bs : Bytes) (m' : Msg)
    (h : protect P sa role r m = (sa', r', .ok (bs, m'))) :
    (∃ n d, m'.payloads = [.sk n d]) ∧
    m'.hdr.ispi = m.hdr.ispi ∧ m'.hdr.rspi = m.hdr.rspi ∧ m'.hdr.major = m.hdr.major ∧
    m'.hdr.minor = m.hdr.minor ∧ m'.hdr.exch = m.hdr.exch ∧ m'.hdr.flags = m.hdr.flags ∧
    m'.hdr.mid = m.hdr.mid := by
  unfold protect at h
  cases hc : encodeChain m.payloads with
  | err => simp [hc] at h
  | fault => simp [hc] at h
  | ok plain =>
    simp only [hc] at h
    cases he : encryptPayload P sa role r plain with
    | mk r1 res =>
      cases res with
      | err => simp [he] at h
      | fault => simp [he] at h
      | ok ct =>
        simp only [he] at h
        cases hm1 : encodeMsg ⟨m.hdr, [.sk (firstType m.payloads) (ct ++ zeros sa.integInfo.outLen)]⟩ with
        | err => simp [hm1] at h
        | fault => simp [hm1] at h
        | ok dh =>
          obtain ⟨data, h1⟩ := dh
          simp only [hm1] at h
          have f1 := C20_encode_pure _ _ _ hm1
          split at h
          · simp at h
          · cases hci : calcIntegrity P sa role (List.take (data.length - sa.integInfo.outLen) data) with
            | mk sa1 cres =>
              cases cres with
              | err => simp [hci] at h
              | fault => simp [hci] at h
              | ok checksum =>
                simp only [hci] at h
                cases hm2 : encodeMsg ⟨h1, [.sk (firstType m.payloads) (setTail (ct ++ zeros sa.integInfo.outLen) sa.integInfo.outLen checksum)]⟩ with
                | err => simp [hm2] at h
                | fault => simp [hm2] at h
                | ok oh =>
                  obtain ⟨out, h2⟩ := oh
                  simp [hm2] at h
                  obtain ⟨_, _, _, rfl⟩ := h
                  have f2 := C20_encode_pure _ _ _ hm2
                  simp only at f1 f2
                  refine ⟨⟨_, _, rfl⟩, ?_⟩
                  simp only
                  obtain ⟨a1, a2, a3, a4, a5, a6, a7, _⟩ := f1
                  obtain ⟨b1, b2, b3, b4, b5, b6, b7, _⟩ := f2
                  exact ⟨b1.trans a1, b2.trans a2, b3.trans a3, b4.trans a4, b5.trans a5, b6.trans a6, b7.trans a7⟩

/-! non-vacuity -/
example : (execAll ⟨fun _ => [1, 2, 3, 4], 1⟩ ⟨0, 0, 4⟩ [(.copyAppend, 1, 3), (.fresh, 0, 2)]).2.map
    (read (scribble (execAll ⟨fun _ => [1, 2, 3, 4], 1⟩ ⟨0, 0, 4⟩ [(.copyAppend, 1, 3), (.fresh, 0, 2)]).1 0 (fun _ => [9, 9, 9, 9])))
    = [[2, 3], [1, 2]] := by decide
example : read (scribble ⟨fun _ => [1, 2, 3, 4], 1⟩ 0 (fun _ => [9, 9, 9, 9])) (exec ⟨fun _ => [1, 2, 3, 4], 1⟩ ⟨0, 0, 4⟩ .alias 1 3).2
    = [9, 9] := by decide

end Ike
