import IkeProofs.RefineReg.Dh
import IkeProofs.Theorems.C09

/-! # C09 over the code as translated from the current source (`security/dh`, `tools/go2lean`)

The group objects are the ones the translated `init()` registers (`dhG`), the primes are what
`new(big.Int).SetString(<the literal in the source>, 16)` evaluates to. -/

namespace Ike
open Ike.RefineReg

/-- the translated `init` registers exactly the two RFC groups under their names -/
theorem C09_gen_groups_registered :
    Gen.dh.init_ {} = .ok dhG ∧
    Go.mapEntries dhG.dhTypes = [(name1024, .Dh1024BitModp desc1024), (name2048, .DH2048BitModp desc2048)] ∧
    absGroup1024 desc1024 = dhGroup2 ∧ absGroup2048 desc2048 = dhGroup14 :=
  ⟨dh_init_ok, dh_groups_are_rfc.1, dh_groups_are_rfc.2.1, dh_groups_are_rfc.2.2⟩

/-- public value of the translated `GetPublicValue` on the registered group objects: for every exponent,
exactly 128 / 256 octets whose value is `2^x mod p` with the RFC 2409 / RFC 3526 prime -/
theorem C09_gen_pub (x : Nat) :
    (∃ bs, Gen.dh.Dh1024BitModp.GetPublicValue desc1024 x = .ok bs ∧ bs.length = 128 ∧
        beNat bs = 2 ^ x % Spec.rfc2409Group2) ∧
    (∃ bs, Gen.dh.DH2048BitModp.GetPublicValue desc2048 x = .ok bs ∧ bs.length = 256 ∧
        beNat bs = 2 ^ x % Spec.rfc3526Group14) := by
  obtain ⟨⟨b1, h1, l1, v1, _⟩, ⟨b2, h2, l2, v2, _⟩⟩ := C09_pub x
  refine ⟨⟨b1, ?_, l1, v1⟩, ⟨b2, ?_, l2, v2⟩⟩
  · rw [Dh1024_GetPublicValue_refines desc1024 (by decide +kernel) (by decide) x, absGroup1024_desc]; exact h1
  · rw [DH2048_GetPublicValue_refines desc2048 (by decide +kernel) (by decide) x, absGroup2048_desc]; exact h2

/-- shared secret of the translated `GetSharedKey`: every exponent and EVERY peer value (0, 1, ≥ p, any size) -/
theorem C09_gen_shared (x y : Nat) :
    (∃ bs, Gen.dh.Dh1024BitModp.GetSharedKey desc1024 x y = .ok bs ∧ bs.length = 128 ∧
        beNat bs = y ^ x % Spec.rfc2409Group2) ∧
    (∃ bs, Gen.dh.DH2048BitModp.GetSharedKey desc2048 x y = .ok bs ∧ bs.length = 256 ∧
        beNat bs = y ^ x % Spec.rfc3526Group14) := by
  obtain ⟨⟨b1, h1, l1, v1, _⟩, ⟨b2, h2, l2, v2, _⟩⟩ := C09_shared x y
  refine ⟨⟨b1, ?_, l1, v1⟩, ⟨b2, ?_, l2, v2⟩⟩
  · rw [Dh1024_GetSharedKey_refines desc1024 (by decide +kernel) (by decide) x y, absGroup1024_desc]; exact h1
  · rw [DH2048_GetSharedKey_refines desc2048 (by decide +kernel) (by decide) x y, absGroup2048_desc]; exact h2

/-- `big.Int.Exp` as translated is modular exponentiation -/
theorem C09_gen_exp (x y m : Nat) (hm : 0 < m) : Go.bigExp x y m = x ^ y % m := bigExp_eq_pow_mod x y m hm

end Ike
