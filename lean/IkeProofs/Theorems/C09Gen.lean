import IkeProofs.RefineReg.Dh
import IkeProofs.Theorems.C09
import IkeProofs.RefineSa.RandNum

/-! # C09 over the code as translated from the current source (`security/dh`, `tools/go2lean`)

The group objects are the ones the translated `init()` registers (`dhG`), the primes are what
`new(big.Int).SetString(<the literal in the source>, 16)` evaluates to. -/

namespace Ike
open Ike.RefineReg

/-- the translated `init` registers exactly the two RFC groups under their names -/
theorem C09_gen_groups_registered :
    Gen.dh.init_ {} = .ok dhG ∧
    Go.mapEntries dhG.dhTypes = [(name1024, .Dh1024BitModp desc1024), (name2048, .DH2048BitModp desc2048)] ∧
    absGroup1024 desc1024 = dhGroup2 ∧ absGroup2048 desc2048 = dhGroup14 :=
  ⟨dh_init_ok, dh_groups_are_rfc.1, dh_groups_are_rfc.2.1, dh_groups_are_rfc.2.2⟩

/-- public value of the translated `GetPublicValue` on the registered group objects: for every exponent,
exactly 128 / 256 octets whose value is `2^x mod p` with the RFC 2409 / RFC 3526 prime -/
theorem C09_gen_pub (x : Nat) :
    (∃ bs, Gen.dh.Dh1024BitModp.GetPublicValue desc1024 x = .ok bs ∧ bs.length = 128 ∧
        beNat bs = 2 ^ x % Spec.rfc2409Group2) ∧
    (∃ bs, Gen.dh.DH2048BitModp.GetPublicValue desc2048 x = .ok bs ∧ bs.length = 256 ∧
        beNat bs = 2 ^ x % Spec.rfc3526Group14) := by
  obtain ⟨⟨b1, h1, l1, v1, _⟩, ⟨b2, h2, l2, v2, _⟩⟩ := C09_pub x
  refine ⟨⟨b1, ?_, l1, v1⟩, ⟨b2, ?_, l2, v2⟩⟩
  · rw [Dh1024_GetPublicValue_refines desc1024 (by decide +kernel) (by decide) x, absGroup1024_desc]; exact h1
  · rw [DH2048_GetPublicValue_refines desc2048 (by decide +kernel) (by decide) x, absGroup2048_desc]; exact h2

/-- shared secret of the translated `GetSharedKey`: every exponent and EVERY peer value (0, 1, ≥ p, any size) -/
theorem C09_gen_shared (x y : Nat) :
    (∃ bs, Gen.dh.Dh1024BitModp.GetSharedKey desc1024 x y = .ok bs ∧ bs.length = 128 ∧
        beNat bs = y ^ x % Spec.rfc2409Group2) ∧
    (∃ bs, Gen.dh.DH2048BitModp.GetSharedKey desc2048 x y = .ok bs ∧ bs.length = 256 ∧
        beNat bs = y ^ x % Spec.rfc3526Group14) := by
  obtain ⟨⟨b1, h1, l1, v1, _⟩, ⟨b2, h2, l2, v2, _⟩⟩ := C09_shared x y
  refine ⟨⟨b1, ?_, l1, v1⟩, ⟨b2, ?_, l2, v2⟩⟩
  · rw [Dh1024_GetSharedKey_refines desc1024 (by decide +kernel) (by decide) x y, absGroup1024_desc]; exact h1
  · rw [DH2048_GetSharedKey_refines desc2048 (by decide +kernel) (by decide) x y, absGroup2048_desc]; exact h2

/-- `big.Int.Exp` as translated is modular exponentiation -/
theorem C09_gen_exp (x y m : Nat) (hm : 0 < m) : Go.bigExp x y m = x ^ y % m := bigExp_eq_pow_mod x y m hm

/-! ### the private exponent: `security.GenerateRandomNumber` / `CalculateDiffieHellmanMaterials` as translated

`crypto/rand.Reader` is the explicit state `Rand` (an octet stream and the read that fails, if any);
`crypto/rand.Int` is `Go.randInt` (rejection sampling over ⌈bitLen(max−1)/8⌉ octets per draw, as the standard
library does); the package-level bounds are what the translated `init()` computes from the source's literals. -/

open Ike.RefineSa in
/-- the bounds the translated `init()` sets: 2^2048 − 1 and 2^128 − 1 -/
theorem C09_gen_bounds : Gen.security.init_ {} = .ok secG ∧
    secG.randomNumberMaximum = 2 ^ 2048 - 1 ∧ secG.randomNumberMinimum = 2 ^ 128 - 1 :=
  ⟨security_init_ok, secG_bounds.1, secG_bounds.2⟩

open Ike.RefineSa in
/-- C09, range: EVERY exponent the translated `GenerateRandomNumber` returns — whatever the random source delivers —
lies in [2^128, 2^2048 − 1) -/
theorem C09_gen_exponent_range (r r' : Rand) (n : Nat)
    (h : Gen.security.GenerateRandomNumber secG r = .ok (r', n)) : 2 ^ 128 ≤ n ∧ n < 2 ^ 2048 - 1 :=
  GenerateRandomNumber_range r r' n h

open Ike.RefineSa in
/-- C09, drawn from the source: the exponent IS the first 256 octets the source delivers when they are in range
(otherwise the next 256, and so on: `GenerateRandomNumber_nth_draw`); one read of the source per draw -/
theorem C09_gen_exponent_is_draw (r : Rand) (hnf : r.failAt ≠ some r.reads) (d : Nat)
    (hd : d = beNat (cyc r.buf r.pos 256)) (hlo : 2 ^ 128 ≤ d) (hhi : d < 2 ^ 2048 - 1) :
    Gen.security.GenerateRandomNumber secG r = .ok ({ r with reads := r.reads + 1, pos := r.pos + 256 }, d) :=
  GenerateRandomNumber_first_draw r hnf d hd hlo hhi

open Ike.RefineSa in
/-- C09, failure ⇒ error: a number is returned only if every read up to then succeeded; a source failing at the
first read gives an error; and an error is always a failure of the source -/
theorem C09_gen_failure_is_error (r : Rand) :
    (r.failAt = some r.reads → Gen.security.GenerateRandomNumber secG r = .err) ∧
    (∀ r' n, Gen.security.GenerateRandomNumber secG r = .ok (r', n) →
      r'.reads > r.reads ∧ ∀ i, r.reads ≤ i → i < r'.reads → r.failAt ≠ some i) ∧
    (Gen.security.GenerateRandomNumber secG r = .err → ∃ i, r.reads ≤ i ∧ r.failAt = some i) :=
  ⟨GenerateRandomNumber_fail r, fun r' n h => GenerateRandomNumber_no_number_on_failure r r' n h,
   GenerateRandomNumber_err_source r⟩

open Ike.RefineSa in
/-- the only way the translation of the sampling loop "faults" is its 64-iteration bound: 64 consecutive successful
reads all out of range (probability < 2^-122000 for a uniform source) -/
theorem C09_gen_exponent_fault (r : Rand) (h : Gen.security.GenerateRandomNumber secG r = .fault) :
    ∀ j, j < 64 → r.failAt ≠ some (r.reads + j) ∧ ¬ (2 ^ 128 ≤ drawAt r j ∧ drawAt r j < 2 ^ 2048 - 1) :=
  GenerateRandomNumber_fault r h

open Ike.RefineSa in
/-- `CalculateDiffieHellmanMaterials` as translated: on success the exponent is in range, the local public value is
g^x mod p and the shared secret peer^x mod p of the SA's group, both of the modulus length -/
theorem C09_gen_dh_materials (r r' : Rand) (k : Gen.security.IKESAKey) (hk : RefineReg.DhWF k.DhInfo)
    (peer pub sh : Bytes)
    (h : Gen.security.CalculateDiffieHellmanMaterials secG r k peer = .ok (r', pub, sh)) :
    ∃ x : Nat, Gen.security.GenerateRandomNumber secG r = .ok (r', x) ∧ 2 ^ 128 ≤ x ∧ x < 2 ^ 2048 - 1 ∧
      dhPub (RefineReg.absGroup k.DhInfo) x = .ok pub ∧
      dhShared (RefineReg.absGroup k.DhInfo) x (beNat peer) = .ok sh :=
  CalculateDiffieHellmanMaterials_ok r r' k hk peer pub sh h

end Ike
