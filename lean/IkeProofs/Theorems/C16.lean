import IkeProofs.Lemmas.Keys

/-!
# C16 — EAP-AKA' key hierarchy follows PRF' of RFC 5448 / RFC 9048

`Spec.prfPrime hmac256 K S n` is the first `n` octets of
PRF'(K,S) = T1 | T2 | … with T1 = HMAC-SHA-256(K, S|0x01),
Tn = HMAC-SHA-256(K, Tn-1|S|n) (`Spec.T`, the same recursion as prf+, see
`C16_prfPrime_rfc`); `Spec.akaPrimeKeys` cuts MK = PRF'(IK'|CK', "EAP-AKA'"|Identity)
into K_encr, K_aut, K_re, MSK, EMSK.  HMAC-SHA-256 is `P.mac 2`; the hypothesis
`P.macLen 2 = 32` says that this primitive has SHA-256's digest length.
-/

namespace Ike

/-- C16, PRF'.  For every non-empty IK', every non-empty CK' (any lengths, equal or
not) and every identity string (any octets, including none): `EapAkaPrimePRF`
succeeds and K_encr, K_aut, K_re, MSK, EMSK are octets [0,16), [16,48), [48,80),
[80,144), [144,208) of PRF'(IK'|CK', "EAP-AKA'"|Identity). -/
theorem C16_prf (P : Prims) (hP : P.Lawful) (h32 : P.macLen 2 = 32) (ik ck identity : Bytes)
    (hik : ik.length ≠ 0) (hck : ck.length ≠ 0) :
    let mk := Spec.prfPrime (P.mac 2) (ik ++ ck) (Spec.akaPrimeLabel ++ identity) 208
    akaPrf P ik ck identity = .ok
      { kEncr := (mk.take 16).drop 0,
        kAut  := (mk.take 48).drop 16,
        kRe   := (mk.take 80).drop 48,
        msk   := (mk.take 144).drop 80,
        emsk  := (mk.take 208).drop 144 } := by
  intro mk
  rw [akaPrf_spec P hP h32 ik ck identity hik hck]
  simp only [AkaKeys.ofSpec, Spec.akaPrimeKeys, List.drop_take, List.drop_zero]
  rfl

/-- C16, the same statement against the specification's record `Spec.akaPrimeKeys`
(slices written as `(mk.drop lo).take len`). -/
theorem C16_prf_keys (P : Prims) (hP : P.Lawful) (h32 : P.macLen 2 = 32) (ik ck identity : Bytes)
    (hik : ik.length ≠ 0) (hck : ck.length ≠ 0) :
    akaPrf P ik ck identity = .ok (AkaKeys.ofSpec (Spec.akaPrimeKeys (P.mac 2) ik ck identity)) :=
  akaPrf_spec P hP h32 ik ck identity hik hck

/-- C16, `Spec.prfPrime` is the RFC's iterated construction: the first `n` octets of
`T 1 | T 2 | … | T ⌈n/32⌉` with `T 1 = HMAC(K, S | 0x01)`,
`T (k+1) = HMAC(K, T k | S | k+1)`; for `n = 208` that is seven blocks, and the
MK has exactly 208 octets. -/
theorem C16_prfPrime_rfc (hmac256 : Spec.PRF) (K S : Bytes) (n : Nat) :
    Spec.prfPrime hmac256 K S n
        = ((List.range (Spec.blocksFor n 32)).flatMap (fun j => Spec.T hmac256 K S (j + 1))).take n
      ∧ Spec.T hmac256 K S 1 = hmac256 K (S ++ [0x01])
      ∧ (∀ k, Spec.T hmac256 K S (k + 1) = hmac256 K (Spec.T hmac256 K S k ++ S ++ [UInt8.ofNat (k + 1)]))
      ∧ Spec.blocksFor 208 32 = 7
      ∧ ((∀ k d, (hmac256 k d).length = 32) → (Spec.prfPrime hmac256 K S n).length = n) := by
  refine ⟨?_, ?_, fun _ => rfl, by decide, fun h => prfPlusN_length hmac256 32 h (by omega) K S n⟩
  · rw [Spec.prfPrime, Spec.prfPlusN, Spec.prfPlus_eq_T]
  · simp [Spec.T]

/-- C16, refusal.  An empty IK' or an empty CK' is refused with an error, for every
identity and all primitives. -/
theorem C16_empty (P : Prims) (ik ck identity : Bytes) (h : ik.length = 0 ∨ ck.length = 0) :
    akaPrf P ik ck identity = .err := by
  unfold akaPrf
  have hc : (ik.length = 0 || ck.length = 0) = true := by
    rcases h with h | h <;> simp [h]
  rw [hc]
  rfl

/-- C16: the model never faults and errs ONLY on empty keys (given a 32-octet HMAC). -/
theorem C16_err_iff (P : Prims) (hP : P.Lawful) (h32 : P.macLen 2 = 32) (ik ck identity : Bytes) :
    akaPrf P ik ck identity = .err ↔ (ik.length = 0 ∨ ck.length = 0) := by
  constructor
  · intro herr
    by_cases hik : ik.length = 0
    · exact Or.inl hik
    by_cases hck : ck.length = 0
    · exact Or.inr hck
    rw [akaPrf_spec P hP h32 ik ck identity hik hck] at herr
    cases herr
  · exact C16_empty P ik ck identity

/-! ### non-vacuity -/

/-- lawful primitives with a 32-octet `mac 2` exist; so do the executable ones' lengths -/
example : Prims.toy.Lawful ∧ Prims.toy.macLen 2 = 32 ∧ Prims.real.macLen 2 = 32 :=
  ⟨Prims.toy_lawful, rfl, rfl⟩

/-- unequal key lengths, non-ASCII identity: hypotheses met, and the model does succeed -/
example : ([1, 2, 3] : Bytes).length ≠ 0 ∧ ([4] : Bytes).length ≠ 0
    ∧ (akaPrf Prims.toy [1, 2, 3] [4] [0xff, 0x00, 0x80]).isOk = true := by decide +kernel

/-- the label is the ASCII string "EAP-AKA'" in model and specification alike -/
example : akaLabel = Spec.akaPrimeLabel
    ∧ akaLabel = ['E', 'A', 'P', '-', 'A', 'K', 'A', '\''].map (fun c => UInt8.ofNat c.toNat) := by decide

example : akaPrf Prims.toy [] [1] [2] = .err ∧ akaPrf Prims.toy [1] [] [] = .err := by decide

end Ike
