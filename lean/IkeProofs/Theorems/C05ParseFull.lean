import IkeProofs.Theorems.C05Parse
import IkeProofs.Theorems.C14Parse
import IkeProofs.Lemmas.ParseFull

/-!
# C05, parser side, without a trusted step — the FULLY library-independent strict parser

`Spec.parse` (IkeModel/Spec/Parse.lean, theorems in `C05Parse.lean`) reads the EAP packet of an EAP
payload through the library model's `unmarshalEap` / `marshalEap` (its TRUSTED BASE).
`Spec.parseFull` (IkeModel/Spec/ParseFull.lean) is the same RFC 7296 §3 parser with the independent
strict EAP parser `Spec.parseEapPayload` (IkeModel/Spec/EapParse.lean; RFC 3748 / 4187 / 5448) in
that place: its import closure holds no definition of the model of the library (nothing of
`IkeModel/Message/*`, not `IkeModel/Eap.lean`).

* `C05_full_parser_recovers`: applied to the datagram `IKEMessage.Encode` returns for a message of
  the encodable domain, `Spec.parseFull` returns exactly the header `Encode` left and the payloads
  — "an independently written parser recovers exactly the fields that were encoded", with a parser
  that shares nothing with the library model.  `C05_full_parse_spec_encode`: the same against the
  independent encoder.
* `C05_full_parse_strict`: whatever `Spec.parseFull` accepts, the strict sender writes again octet
  for octet.
* `C05_full_refines`, `C05_full_iff`, `C05_full_difference`: `Spec.parseFull` accepts a subset of
  what `Spec.parse` accepts, with the same result; the difference is exactly the datagrams with an
  EAP packet outside the domain `DomEap` of property C14 (examples of every kind at the end).
* `C05_full_parser_decoder_agree`: the library's decoder returns the fields `Spec.parseFull` reads.
* `C05_parse_is_parametrised`: `Spec.parse` and `Spec.parseFull` are one parametrised parser
  (`Spec.Full.parseWith`) at two EAP steps.

No theorem of this file is partial.
-/

set_option linter.unusedVariables false

namespace Ike
open Spec ParseFullLemmas

/-- **the two parsers are one definition at two parameters**: `Spec.parse` is
`Spec.Full.parseWith` at the trusted EAP step `Spec.parseEAP` (library model), `Spec.parseFull`
is `Spec.Full.parseWith` at the independent EAP step `Spec.parseEapPayload`.  (The first
equation is a theorem because `IkeModel/Spec/ParseFull.lean` repeats, and does not import, the
EAP-free definitions of `IkeModel/Spec/Parse.lean`; the second holds by definition.) -/
theorem C05_parse_is_parametrised :
    Spec.parse = Spec.Full.parseWith Spec.parseEAP ∧ Spec.parseFull = Spec.Full.parseWith Spec.parseEapPayload :=
  ⟨parse_eq_parseWith, rfl⟩

/-! ## encoder → parser -/

/-- **C05, "an independently written parser recovers exactly the fields that were encoded"**, with
the parser that calls no function of the library model: for every message of the encodable domain,
`Spec.parseFull` applied to the datagram returned by `IKEMessage.Encode` succeeds and returns the
payload list of the message and exactly the header `Encode` leaves in the message (the caller's
fields, Next Payload = type of the first payload, the payload octets) — EAP payloads included,
down to every EAP-AKA' attribute. -/
theorem C05_full_parser_recovers (m : Msg) (hd : m.Dom) (bs : Bytes) (h' : Header)
    (h : encodeMsg m = .ok (bs, h')) : Spec.parseFull bs = some ⟨h', m.payloads⟩ :=
  parse_to_parseFull bs _ (C05_independent_parser_recovers m hd bs h' h)
    (fun e he => hd.2.2 (.eap e) he)

/-- the same against the independent encoder: the datagram of the strict sender is read back to
the message (payload list, every header field the sender chooses; Next Payload and the payload
octets are the two derived header fields) -/
theorem C05_full_parse_spec_encode (m : Msg) (hd : m.Dom) (bs : Bytes) (h : Spec.encode [] m = .ok bs) :
    Spec.parseFull bs =
      some ⟨{ m.hdr with next := firstPayloadType m.payloads, payloadBytes := bs.drop 28 }, m.payloads⟩ :=
  parse_to_parseFull bs _ (C05_parse_spec_encode m hd bs h) (fun e he => hd.2.2 (.eap e) he)

/-! ## parser → encoder, and the relation to `Spec.parse` -/

/-- **C05, refinement**: everything the fully independent parser accepts, the parser with the
trusted EAP step accepts with the same result.  So every theorem about the datagrams `Spec.parse`
accepts (`C05_parse_strict`, `C05_parse_accepts_wellformed`, `C05_parser_decoder_agree`,
`C12_canonical_datagram`) holds of the datagrams `Spec.parseFull` accepts. -/
theorem C05_full_refines (bs : Bytes) (m : Msg) (h : Spec.parseFull bs = some m) : Spec.parse bs = some m :=
  parseFull_refines bs m h

/-- **C05, the fully independent parser is strict**: every datagram it accepts is the datagram the
strict sender (`Spec.encode` without liberties) writes for the fields the parser returned; nothing
non-canonical is accepted — in the IKE framing (see `C05_parse_strict`) and inside EAP packets
(`C14_parse_strict`: zero padding, ascending attributes, exact lengths, …). -/
theorem C05_full_parse_strict (bs : Bytes) (m : Msg) (h : Spec.parseFull bs = some m) : Spec.encode [] m = .ok bs :=
  C05_parse_strict bs m (parseFull_refines bs m h)

/-- two datagrams the fully independent parser reads as the same message are the same datagram -/
theorem C05_full_parse_injective (bs bs' : Bytes) (m : Msg) (h : Spec.parseFull bs = some m)
    (h' : Spec.parseFull bs' = some m) : bs = bs' :=
  C05_parse_injective bs bs' m (parseFull_refines bs m h) (parseFull_refines bs' m h')

/-- every EAP packet in a message the fully independent parser returns lies in the domain of
property C14 (`DomEap`: Success / Failure without data, Identity / Notification / Nak with data,
EAP-AKA' as the setter builds it — reserved word 0, known attribute types ascending, every
attribute of the exact shape) -/
theorem C05_full_eap_in_domain (bs : Bytes) (m : Msg) (h : Spec.parseFull bs = some m) (e : Eap)
    (he : .eap e ∈ m.payloads) : DomEap e :=
  parseFull_eap_dom bs m h e he

/-- **C05, exact relation of the two parsers**: `Spec.parseFull` returns `m` for `bs` iff
`Spec.parse` does and every EAP packet of `m` lies in the domain `DomEap` of property C14. -/
theorem C05_full_iff (bs : Bytes) (m : Msg) :
    Spec.parseFull bs = some m ↔ Spec.parse bs = some m ∧ ∀ e, .eap e ∈ m.payloads → DomEap e :=
  ⟨fun h => ⟨parseFull_refines bs m h, parseFull_eap_dom bs m h⟩, fun h => parse_to_parseFull bs m h.1 h.2⟩

/-- **C05, the difference of the two parsers**: a datagram that `Spec.parse` accepts is refused by
`Spec.parseFull` iff one of its EAP payloads carries a packet outside `DomEap` — a packet that the
library decodes and re-encodes to the same octets although no sequence of API calls builds it.
Such packets exist (examples at the end of this file): an EAP-AKA' packet with an attribute type
the library does not know, with a non-zero Reserved word after the Subtype, with AT_KDF of two
words, with an AT_RES whose bit length is not a multiple of 8 or is below 32; Success / Failure
with method data.  None of them is the encoding of a message of the encodable domain
(`C05_full_parser_recovers`). -/
theorem C05_full_difference (bs : Bytes) (m : Msg) (h : Spec.parse bs = some m) :
    Spec.parseFull bs = none ↔ ∃ e, .eap e ∈ m.payloads ∧ ¬ DomEap e := by
  constructor
  · intro hn
    apply Classical.byContradiction
    intro hc
    have hall : ∀ e, .eap e ∈ m.payloads → DomEap e := by
      intro e he
      apply Classical.byContradiction
      intro hd
      exact hc ⟨e, he, hd⟩
    rw [parse_to_parseFull bs m h hall] at hn
    cases hn
  · intro ⟨e, he, hd⟩
    cases hf : Spec.parseFull bs with
    | none => rfl
    | some m' =>
      have := parseFull_refines bs m' hf
      rw [h] at this
      have hm : m = m' := Option.some.inj this
      subst hm
      exact absurd (parseFull_eap_dom bs m hf e he) hd

/-- on messages of the encodable domain the two parsers coincide -/
theorem C05_full_agree_on_domain (bs : Bytes) (m : Msg) (hd : m.Dom) :
    Spec.parseFull bs = some m ↔ Spec.parse bs = some m :=
  ⟨parseFull_refines bs m, fun h => parse_to_parseFull bs m h (fun e he => hd.2.2 (.eap e) he)⟩

/-! ## parser and library decoder -/

/-- **the library's decoder agrees with the fully independent parser**: on every datagram
`Spec.parseFull` accepts with fields in the encodable domain, `IKEMessage.Decode` succeeds and
returns the same payloads and the same header fields. -/
theorem C05_full_parser_decoder_agree (bs : Bytes) (m : Msg) (hd : m.Dom) (h : Spec.parseFull bs = some m) :
    ∃ m', decodeMsg bs = .ok m' ∧ m'.payloads = m.payloads ∧
      m'.hdr.ispi = m.hdr.ispi ∧ m'.hdr.rspi = m.hdr.rspi ∧ m'.hdr.major = m.hdr.major ∧
      m'.hdr.minor = m.hdr.minor ∧ m'.hdr.exch = m.hdr.exch ∧ m'.hdr.flags = m.hdr.flags ∧
      m'.hdr.mid = m.hdr.mid :=
  C05_parser_decoder_agree bs m hd (parseFull_refines bs m h)

/-- every datagram the fully independent parser accepts is well-formed in the sense of the
`C05_wf_*` facts (header Length = datagram size, the header names the first payload, the walk along
the length fields visits exactly the returned payloads and ends on 0, all flag octets 0) -/
theorem C05_full_parse_accepts_wellformed (bs : Bytes) (m : Msg) (h : Spec.parseFull bs = some m) :
    28 ≤ bs.length ∧
    (byteAt bs 24).toNat * 16777216 + (byteAt bs 25).toNat * 65536 + (byteAt bs 26).toNat * 256 +
      (byteAt bs 27).toNat = bs.length ∧
    byteAt bs 16 = firstPayloadType m.payloads ∧
    ∃ l, chainView [] m.payloads = .ok l ∧
      walkChain (bs.drop 28).length (firstPayloadType m.payloads) (bs.drop 28) = some l ∧
      ∀ x ∈ l, x.2.1 = 0 :=
  C05_parse_accepts_wellformed bs m (parseFull_refines bs m h)

/-! ## non-vacuity and evaluation (by the kernel) -/

/-- the sample message of `C05Parse.lean` (ten payload kinds, one of them EAP; in the encodable
domain, see there): `Spec.parseFull` applied to what the model of `IKEMessage.Encode` returns gives
the updated header and the payloads — hypotheses and conclusion of `C05_full_parser_recovers` -/
example : (match encodeMsg c05pSample with
    | .ok (bs, h') => decide (Spec.parseFull bs = some ⟨h', c05pSample.payloads⟩)
    | _ => false) = true := by decide +kernel

/-- … and applied to the independent encoder's datagram -/
example : (match Spec.encode [] c05pSample with
    | .ok bs => decide (Spec.parseFull bs =
        some ⟨{ c05pSample.hdr with next := 33, payloadBytes := bs.drop 28 }, c05pSample.payloads⟩)
    | _ => false) = true := by decide +kernel

/-- the captured IKE_SA_INIT datagram of message/message_test.go -/
example : (Spec.parseFull c05InitWire).map (·.payloads) = some c05InitMsg.payloads := by decide +kernel

/-- a datagram with one EAP payload carrying the EAP packet `pkt` (IKE_AUTH request, message ID 1) -/
def c05fEapDatagram (pkt : Bytes) : Bytes :=
  zeros 16 ++ [48, 0x20, 35, 8, 0, 0, 0, 1] ++ put32 (UInt32.ofNat (32 + pkt.length)) ++
    [0, 0] ++ put16 (UInt16.ofNat (4 + pkt.length)) ++ pkt

/-- an EAP-AKA' Challenge (RAND, AUTN, MAC, KDF_INPUT "abc", KDF) inside an EAP payload: read by the
fully independent parser down to the attributes -/
example : (Spec.parseFull (c05fEapDatagram ([1, 6, 0, 80, 50, 1, 0, 0] ++ [1, 5, 0, 0] ++ zeros 16 ++
      [2, 5, 0, 0] ++ zeros 16 ++ [11, 5, 0, 0] ++ zeros 16 ++ [23, 2, 0, 24, 97, 98, 99, 0] ++ [24, 1, 0, 1]))).map
      (·.payloads)
    = some [.eap ⟨1, 6, .aka ⟨1, 0, [⟨1, 5, 0, zeros 16⟩, ⟨2, 5, 0, zeros 16⟩, ⟨11, 5, 0, zeros 16⟩,
        ⟨23, 2, 24, [97, 98, 99]⟩, ⟨24, 1, 0, [0, 1]⟩]⟩⟩] := by decide +kernel

/-- **the difference, concretely** — an EAP-AKA' packet with the unknown attribute type 7:
`Spec.parse` (library decoder + re-encoding) accepts the datagram, `Spec.parseFull` refuses it -/
example :
    (Spec.parse (c05fEapDatagram [1, 7, 0, 12, 50, 1, 0, 0, 7, 1, 0, 0])).map (·.payloads)
      = some [.eap ⟨1, 7, .aka ⟨1, 0, [⟨7, 1, 0, []⟩]⟩⟩] ∧
    Spec.parseFull (c05fEapDatagram [1, 7, 0, 12, 50, 1, 0, 0, 7, 1, 0, 0]) = none := by decide +kernel

/-- the other kinds of difference: a non-zero Reserved word after the Subtype (low and high octet),
Success with method data, AT_KDF of two words, AT_RES with a bit length that is not a multiple of
8, AT_RES of 24 bits — each accepted by `Spec.parse`, refused by `Spec.parseFull` -/
example :
    (Spec.parse (c05fEapDatagram [1, 7, 0, 8, 50, 1, 0, 1])).map (·.payloads) = some [.eap ⟨1, 7, .aka ⟨1, 1, []⟩⟩] ∧
    Spec.parseFull (c05fEapDatagram [1, 7, 0, 8, 50, 1, 0, 1]) = none ∧
    (Spec.parse (c05fEapDatagram [1, 7, 0, 8, 50, 1, 1, 0])).map (·.payloads) = some [.eap ⟨1, 7, .aka ⟨1, 256, []⟩⟩] ∧
    Spec.parseFull (c05fEapDatagram [1, 7, 0, 8, 50, 1, 1, 0]) = none ∧
    (Spec.parse (c05fEapDatagram [3, 2, 0, 6, 1, 0x61])).map (·.payloads) = some [.eap ⟨3, 2, .identity [0x61]⟩] ∧
    Spec.parseFull (c05fEapDatagram [3, 2, 0, 6, 1, 0x61]) = none ∧
    (Spec.parse (c05fEapDatagram [1, 7, 0, 16, 50, 1, 0, 0, 24, 2, 1, 2, 3, 4, 5, 6])).map (·.payloads)
      = some [.eap ⟨1, 7, .aka ⟨1, 0, [⟨24, 2, 0, [1, 2, 3, 4, 5, 6]⟩]⟩⟩] ∧
    Spec.parseFull (c05fEapDatagram [1, 7, 0, 16, 50, 1, 0, 0, 24, 2, 1, 2, 3, 4, 5, 6]) = none ∧
    (Spec.parse (c05fEapDatagram [2, 7, 0, 20, 50, 1, 0, 0, 3, 3, 0, 41, 1, 2, 3, 4, 5, 0, 0, 0])).map (·.payloads)
      = some [.eap ⟨2, 7, .aka ⟨1, 0, [⟨3, 3, 41, [1, 2, 3, 4, 5]⟩]⟩⟩] ∧
    Spec.parseFull (c05fEapDatagram [2, 7, 0, 20, 50, 1, 0, 0, 3, 3, 0, 41, 1, 2, 3, 4, 5, 0, 0, 0]) = none ∧
    (Spec.parse (c05fEapDatagram [2, 7, 0, 16, 50, 1, 0, 0, 3, 2, 0, 24, 1, 2, 3, 0])).map (·.payloads)
      = some [.eap ⟨2, 7, .aka ⟨1, 0, [⟨3, 2, 24, [1, 2, 3]⟩]⟩⟩] ∧
    Spec.parseFull (c05fEapDatagram [2, 7, 0, 16, 50, 1, 0, 0, 3, 2, 0, 24, 1, 2, 3, 0]) = none := by decide +kernel

/-- the packets of the two examples above are outside `DomEap` (the right-hand side of
`C05_full_difference`) -/
example : ¬ DomEap ⟨1, 7, .aka ⟨1, 0, [⟨7, 1, 0, []⟩]⟩⟩ ∧ ¬ DomEap ⟨1, 7, .aka ⟨1, 1, []⟩⟩ ∧
    ¬ DomEap ⟨3, 2, .identity [0x61]⟩ ∧ ¬ DomEap ⟨1, 7, .aka ⟨1, 0, [⟨24, 2, 0, [1, 2, 3, 4, 5, 6]⟩]⟩⟩ ∧
    ¬ DomEap ⟨2, 7, .aka ⟨1, 0, [⟨3, 3, 41, [1, 2, 3, 4, 5]⟩]⟩⟩ := by decide

/-- strictness, evaluated: what `Spec.parse` refuses in the IKE framing, `Spec.parseFull` refuses
(liberties of the sender, a trailing octet), and in addition non-canonical EAP (non-zero padding of
AT_RES, descending attributes), which `Spec.parse` refuses as well because re-encoding differs -/
example : (match Spec.encode [{ flags := 0x80 }] c05pSample with | .ok bs => Spec.parseFull bs | _ => none) = none ∧
    (match Spec.encode [] c05pSample with | .ok bs => Spec.parseFull (bs ++ [0]) | _ => none) = none ∧
    Spec.parseFull (c05fEapDatagram [2, 7, 0, 20, 50, 1, 0, 0, 3, 3, 0, 40, 1, 2, 3, 4, 5, 0, 0, 9]) = none ∧
    Spec.parse (c05fEapDatagram [2, 7, 0, 20, 50, 1, 0, 0, 3, 3, 0, 40, 1, 2, 3, 4, 5, 0, 0, 9]) = none ∧
    Spec.parseFull (c05fEapDatagram [1, 7, 0, 20, 50, 1, 0, 0, 24, 1, 0, 1, 23, 2, 0, 24, 97, 98, 99, 0]) = none := by
  decide +kernel

end Ike
