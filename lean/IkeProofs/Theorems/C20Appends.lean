import IkeModel.Generated.Footprint

/-! # C20 / C19 / C03: nothing is appended onto the caller's memory

Regenerated fact (`tools/extract`, `Footprint.foreignAppends`): every `append(X, …)` in the library
whose first argument `X` is a slice reachable from the receiver or from a parameter — memory the
caller owns — and whose result is not stored back into `X` itself.  When such an `X` has spare
capacity, the appended elements are written into the caller's array behind `X`'s length, i.e. into
whatever else views that array (another proposal's transform list cut from the same list of
supported algorithms, an earlier payload whose data shares the buffer, …): the value-level model
cannot see this, the syntactic fact can.  On the pinned tree there is exactly one such site,
documented below. -/

namespace Ike

/-- `lib.PKCS7Padding(plainText, blockSize)` returns `append(plainText, padding...)`: the padding is
written behind the plaintext slice it is given.  Inside the library the plaintext is the freshly
encoded inner payload chain; `EncrAesCbcCrypto.Encrypt` hands it the caller's slice (the spare
capacity of a plaintext passed to `Encrypt` may be overwritten — observation, no property speaks
about it). -/
def c20DocumentedAppends : List (String × String) :=
  [("security/lib.PKCS7Padding", "plainText")]

/-- **C20 "plain encoding does not alter any payload of the message … protecting a message alters
nothing but the message's own payload list", memory level**: no encoder, builder, decoder or key
function appends onto a slice of its receiver or arguments (other than growing that very
container, which is what the builders are for, and the documented padding helper). -/
theorem C20_no_append_onto_caller_memory :
    ∀ x ∈ Footprint.foreignAppends, x ∈ c20DocumentedAppends := by decide

/-- **what a caller hands in is read-only** (regenerated fact `Footprint.paramWrites`): no exported function
or method writes into a slice it received as a parameter — by an element assignment, `copy`, or by handing it
(or a reslice, or a local alias of it), directly or through unexported helpers of its package, as the
destination to `hash.Sum`, `BlockMode.CryptBlocks`, `binary.PutUintNN`, `io.ReadFull`, `Read`, `FillBytes`,
`Block.Encrypt/Decrypt`, `XORKeyStream`.  (Appends are the theorem above.)  Datagram buffers, ciphertexts,
nonces, keys and builder arguments stay as the caller left them. -/
theorem C20_parameters_read_only : Footprint.paramWrites = [] := by decide

/-- the five places where the pinned tree keeps a reference-typed argument by design: the header value handed to
`DecodeDecrypt` becomes the header of the returned message; `ParseHeader` / `NewHeader` keep the payload octets
they are given (a header is a view of the datagram; the payloads decoded from it are copies: `C20_generated`);
`NewMessage` adopts the payload container; `BuildDeletePayload` keeps the SPI list (observation in DESIGN 12.2). -/
def c20DocumentedRetained : List (String × String × String) :=
  [("ike.DecodeDecrypt", "ikeHeader", "ikeMsg.IKEHeader"),
   ("message.IKEPayloadContainer.BuildDeletePayload", "spis", "deletePayload.SPIs"),
   ("message.NewHeader", "payloadBytes", "literal.PayloadBytes"),
   ("message.ParseHeader", "b", "literal.PayloadBytes"),
   ("message.NewMessage", "payloads", "literal.Payloads")]

/-- **arguments are not remembered** (regenerated fact `Footprint.paramRetained`): apart from the five documented
places no function stores a pointer, slice or map parameter (or a reslice or a local alias of one) into a field, a
package-level variable or an element of something that outlives the call.  Keys, nonces, identities, exponents,
attribute values and builder arguments can be wiped or refilled by the caller as soon as the call returns. -/
theorem C20_arguments_not_retained :
    ∀ r ∈ Footprint.paramRetained, r ∈ c20DocumentedRetained := by decide

/-- non-vacuity: the regenerated list is not empty on the pinned tree (the documented site is found) -/
example : Footprint.foreignAppends ≠ [] := by decide

end Ike
