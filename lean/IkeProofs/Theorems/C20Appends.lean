import IkeModel.Generated.Footprint

/-! # C20 / C19 / C03: nothing is appended onto the caller's memory

Regenerated fact (`tools/extract`, `Footprint.foreignAppends`): every `append(X, …)` in the library
whose first argument `X` is a slice reachable from the receiver or from a parameter — memory the
caller owns — and whose result is not stored back into `X` itself.  When such an `X` has spare
capacity, the appended elements are written into the caller's array behind `X`'s length, i.e. into
whatever else views that array (another proposal's transform list cut from the same list of
supported algorithms, an earlier payload whose data shares the buffer, …): the value-level model
cannot see this, the syntactic fact can.  On the pinned tree there is exactly one such site,
documented below. -/

namespace Ike

/-- `lib.PKCS7Padding(plainText, blockSize)` returns `append(plainText, padding...)`: the padding is
written behind the plaintext slice it is given.  Inside the library the plaintext is the freshly
encoded inner payload chain; `EncrAesCbcCrypto.Encrypt` hands it the caller's slice (the spare
capacity of a plaintext passed to `Encrypt` may be overwritten — observation, no property speaks
about it). -/
def c20DocumentedAppends : List (String × String) :=
  [("security/lib.PKCS7Padding", "plainText")]

/-- **C20 "plain encoding does not alter any payload of the message … protecting a message alters
nothing but the message's own payload list", memory level**: no encoder, builder, decoder or key
function appends onto a slice of its receiver or arguments (other than growing that very
container, which is what the builders are for, and the documented padding helper). -/
theorem C20_no_append_onto_caller_memory :
    ∀ x ∈ Footprint.foreignAppends, x ∈ c20DocumentedAppends := by decide

/-- **what a caller hands in is read-only** (regenerated fact `Footprint.paramWrites`): no exported function
or method writes into a slice it received as a parameter — by an element assignment, `copy`, or by handing it
(or a reslice, or a local alias of it), directly or through unexported helpers of its package, as the
destination to `hash.Sum`, `BlockMode.CryptBlocks`, `binary.PutUintNN`, `io.ReadFull`, `Read`, `FillBytes`,
`Block.Encrypt/Decrypt`, `XORKeyStream`.  (Appends are the theorem above.)  Datagram buffers, ciphertexts,
nonces, keys and builder arguments stay as the caller left them. -/
theorem C20_parameters_read_only : Footprint.paramWrites = [] := by decide

/-- non-vacuity: the regenerated list is not empty on the pinned tree (the documented site is found) -/
example : Footprint.foreignAppends ≠ [] := by decide

end Ike
