import IkeProofs.RefineSa.Transfer
import IkeProofs.Theorems.C06

/-! # C06 over the code as translated from the current source (`ike.go`)

Every datagram the translated `EncodeEncrypt` returns is the RFC 7296 §3.14 message (`Spec.skMessage`); every RFC
message with ANY legal padding is accepted by the translated `DecodeDecrypt`. -/

namespace Ike
open Ike.RefineSa Ike.GenAbsSa Spec

theorem C06_gen_protect_is_rfc (P : Prims) (hP : P.Lawful) (k : Gen.security.IKESAKey) (hk : SaWF k)
    (hi : IntegRegistered k.IntegInfo) (hw : (absSa k).WF P) (role : Bool)
    (r : Rand) (m : Msg) (r' : Rand) (gm' : Gen.message.IKEMessage) (k' : Gen.security.IKESAKey) (bs : Bytes)
    (h : Gen.ike.EncodeEncrypt P r (GenAbs.repMsg m) (some k) role = .ok (r', gm', k', bs)) :
    ∃ inner padDraw iv r1, encodeChain m.payloads = .ok inner ∧
      r.draw (16 - inner.length % 16) = (r1, .ok padDraw) ∧ r1.draw 16 = (r', .ok iv) ∧
      iv.length = 16 ∧
      4 + (16 + (inner.length + (16 - inner.length % 16)) + (absSa k).integInfo.outLen) ≤ 0xFFFF ∧
      bs = skMessage P ((absSa k).skParams role) m.hdr (firstType m.payloads) inner iv
             (padDraw.take (16 - inner.length % 16 - 1)) ∧
      GenAbs.absMsg gm' = some ⟨skHeader P ((absSa k).skParams role) m.hdr (firstType m.payloads) inner iv
               (padDraw.take (16 - inner.length % 16 - 1)),
            [.sk (firstType m.payloads) (skEnc P ((absSa k).skParams role) m.hdr (firstType m.payloads) inner iv
               (padDraw.take (16 - inner.length % 16 - 1)))]⟩ := by
  obtain ⟨m', ha, hp⟩ := gen_protect_ok P hP k hk hi role r m r' gm' k' bs h
  obtain ⟨inner, padDraw, iv, r1, h1, h2, h3, h4, _, h6, h7, h8, _⟩ :=
    C06_protect_is_rfc P hP (absSa k) hw role r m _ r' bs m' hp
  exact ⟨inner, padDraw, iv, r1, h1, h2, h3, h4, h6, h7, by rw [ha, h8]⟩

/-- any legal padding: the RFC message built with parameters `p`, ARBITRARY padding octets and any 16-octet IV is
accepted by the translated `DecodeDecrypt` of a receiver whose peer-direction objects hold `p`'s keys — nil header
and parsed header — and yields the decoding of the inner payloads -/
theorem C06_gen_accepts_any_legal_padding (P : Prims) (hP : P.Lawful) (kb : Gen.security.IKESAKey) (hkb : SaWF kb)
    (hib : IntegRegistered kb.IntegInfo) (hw : (absSa kb).WF P) (rr : Bool)
    (p : SkParams) (hcl : (absSa kb).integInfo.outLen = p.icvLen) (halg : ((absSa kb).integObj (!rr)).alg = p.hash)
    (hka : ((absSa kb).integObj (!rr)).key = p.ka) (hke : ((absSa kb).encrObj (!rr)).key = p.ke)
    (h : Header) (hmaj : h.major.toNat < 16) (hmin : h.minor.toNat < 16) (ft : UInt8)
    (inner iv pad : Bytes) (hiv : iv.length = 16) (hpad : pad.length ≤ 255)
    (hal : (inner.length + pad.length + 1) % 16 = 0)
    (hfit : 4 + 16 + (inner.length + pad.length + 1) + p.icvLen ≤ 0xFFFF)
    (ps : List Payload) (hinner : decodeChain ft inner = .ok ps) :
    ∀ hdr, hdr = none ∨ hdr = some (skHeader P p h ft inner iv pad) →
      ∃ k' gmo, Gen.ike.DecodeDecrypt P (skMessage P p h ft inner iv pad) (hdr.map GenAbs.repHeader) (some kb) rr
          = .ok (k', gmo) ∧
        GenAbs.absMsg gmo = some ⟨skHeader P p h ft inner iv pad, ps⟩ := by
  intro hdr hh
  have hu := (C06_accepts_any_legal_padding P hP (absSa kb) hw rr p hcl halg hka hke h hmaj hmin ft inner iv pad
    hiv hpad hal hfit ps hinner).2.1 hdr hh
  exact gen_unprotect_of_model P hP kb hkb hib rr hdr _ _ _ _ hu

end Ike
