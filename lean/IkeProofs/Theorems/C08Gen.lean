import IkeProofs.RefineEap.Crypto
import IkeProofs.Theorems.C08
import IkeProofs.RefineSa.Transfer

/-! # C08: the prf+ its key material comes from is the code as translated (`security/lib.PrfPlus`) -/

namespace Ike
open Ike.RefineEap

/-- KEYMAT = prf+(SK_d, …): the generated `lib.PrfPlus` is the model's `prfPlus` on every PRF object state, seed and length -/
theorem C08_gen_prfplus_is_model (P : Prims) (hP : P.Lawful) (prf : Go.Mac) (s : Bytes) (n : Nat) :
    (Gen.lib.PrfPlus P prf s (n : Int)).map (fun r => (absMac r.1, r.2)) =
      (match prfPlus P (absMac prf) s n with | (h', .ok b) => Res.ok (h', b) | (_, .err) => Res.err | (_, .fault) => Res.fault) :=
  PrfPlus_refines_lawful P hP prf s n

/-! ### `security.(*ChildSAKey).GenerateKeyForChildSA` as translated from `security/security.go` -/

open Ike.RefineSa Ike.GenAbsSa in
/-- the translated `GenerateKeyForChildSA` IS the model's `genKeyForChildSA` — for every state of the IKE SA's
`Prf_d` object (any buffer earlier derivations left), every registered Child SA descriptor pair, every nonce -/
theorem C08_gen_child_is_model (P : Prims) (hP : P.Lawful) (k : Gen.security.IKESAKey) (c : Gen.security.ChildSAKey)
    (hprf : k.PrfInfo ≠ .nil_) (hd : Go.Mac.isNil k.Prf_d = false)
    (he : c.EncrKInfo = .EncrAesCbc ⟨16⟩ ∨ c.EncrKInfo = .EncrAesCbc ⟨24⟩ ∨ c.EncrKInfo = .EncrAesCbc ⟨32⟩)
    (hi : c.IntegKInfo = .nil_ ∨ c.IntegKInfo = .AuthHmacMd5_95 ⟨16, 12⟩ ∨ c.IntegKInfo = .AuthHmacSha1_96 ⟨20, 12⟩ ∨
      c.IntegKInfo = .AuthHmacSha2_256_128 ⟨32, 16⟩) (nonce : Bytes) :
    (Gen.security.ChildSAKey.GenerateKeyForChildSA P (some c) (some k) nonce).map (fun x => (absSa x.2, absChild x.1)) =
      (match genKeyForChildSA P (absSa k) (absChild c) nonce with
       | (sa', .ok c') => .ok (sa', c') | (_, .err) => .err | (_, .fault) => .fault) :=
  GenerateKeyForChildSA_refines P hP k c hprf hd he hi nonce

open Ike.RefineSa Ike.GenAbsSa in
/-- C08, KEYMAT over the translated code: a newly allocated Child SA object (empty key fields) receives, from an
IKE SA whose `Prf_d` is in ANY state, exactly the RFC 7296 §2.17 slices of prf+(K, Ni|Nr), K the key of `Prf_d`,
in the order encr i→r, integ i→r, encr r→i, integ r→i -/
theorem C08_gen_keymat (P : Prims) (hP : P.Lawful) (k : Gen.security.IKESAKey) (c : Gen.security.ChildSAKey)
    (hprf : k.PrfInfo ≠ .nil_) (hd : Go.Mac.isNil k.Prf_d = false)
    (he : c.EncrKInfo = .EncrAesCbc ⟨16⟩ ∨ c.EncrKInfo = .EncrAesCbc ⟨24⟩ ∨ c.EncrKInfo = .EncrAesCbc ⟨32⟩)
    (hi : c.IntegKInfo = .nil_ ∨ c.IntegKInfo = .AuthHmacMd5_95 ⟨16, 12⟩ ∨ c.IntegKInfo = .AuthHmacSha1_96 ⟨20, 12⟩ ∨
      c.IntegKInfo = .AuthHmacSha2_256_128 ⟨32, 16⟩)
    (hnew : c.InitiatorToResponderEncryptionKey = [] ∧ c.ResponderToInitiatorEncryptionKey = [] ∧
      c.InitiatorToResponderIntegrityKey = [] ∧ c.ResponderToInitiatorIntegrityKey = [])
    (nonce : Bytes) (hL : 0 < P.macLen k.Prf_d.h) (hpos : 0 < absEncrKLen c.EncrKInfo + (absIntegKLen c.IntegKInfo).getD 0) :
    ∃ c' k', Gen.security.ChildSAKey.GenerateKeyForChildSA P (some c) (some k) nonce = .ok (c', k') ∧
      let spec := Spec.keymat (P.mac k.Prf_d.h) (P.macLen k.Prf_d.h) k.Prf_d.key nonce
        (absEncrKLen c.EncrKInfo) ((absIntegKLen c.IntegKInfo).getD 0)
      c'.InitiatorToResponderEncryptionKey = spec.ei ∧ c'.InitiatorToResponderIntegrityKey = spec.ai ∧
      c'.ResponderToInitiatorEncryptionKey = spec.er ∧ c'.ResponderToInitiatorIntegrityKey = spec.ar := by
  have hr := GenerateKeyForChildSA_refines P hP k c hprf hd he hi nonce
  have hc : absChild c = { encrKeyLen := absEncrKLen c.EncrKInfo, integKeyLen := absIntegKLen c.IntegKInfo } := by
    unfold absChild; rw [hnew.1, hnew.2.1, hnew.2.2.1, hnew.2.2.2]
  have hm := C08_keymat_obj P hP (absSa k) (absEncrKLen c.EncrKInfo) (absIntegKLen c.IntegKInfo) nonce hL hpos
  simp only at hm
  rw [hc] at hr
  cases hg : genKeyForChildSA P (absSa k) { encrKeyLen := absEncrKLen c.EncrKInfo, integKeyLen := absIntegKLen c.IntegKInfo } nonce with
  | mk sa' res =>
    rw [hg] at hr hm
    simp only at hm
    subst hm
    obtain ⟨x, hx, hf⟩ := map_eq_ok hr
    obtain ⟨c', k'⟩ := x
    simp only [Prod.mk.injEq] at hf
    have h2 := hf.2
    refine ⟨c', k', hx, ?_⟩
    have e1 := congrArg ChildSAKey.i2rEncr h2
    have e2 := congrArg ChildSAKey.i2rInteg h2
    have e3 := congrArg ChildSAKey.r2iEncr h2
    have e4 := congrArg ChildSAKey.r2iInteg h2
    exact ⟨e1, e2, e3, e4⟩

end Ike
