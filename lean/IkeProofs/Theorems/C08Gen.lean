import IkeProofs.RefineEap.Crypto
import IkeProofs.Theorems.C08

/-! # C08: the prf+ its key material comes from is the code as translated (`security/lib.PrfPlus`) -/

namespace Ike
open Ike.RefineEap

/-- KEYMAT = prf+(SK_d, …): the generated `lib.PrfPlus` is the model's `prfPlus` on every PRF object state, seed and length -/
theorem C08_gen_prfplus_is_model (P : Prims) (hP : P.Lawful) (prf : Go.Mac) (s : Bytes) (n : Nat) :
    (Gen.lib.PrfPlus P prf s (n : Int)).map (fun r => (absMac r.1, r.2)) =
      (match prfPlus P (absMac prf) s n with | (h', .ok b) => Res.ok (h', b) | (_, .err) => Res.err | (_, .fault) => Res.fault) :=
  PrfPlus_refines_lawful P hP prf s n

end Ike
