import IkeProofs.Theorems.C20Appends

namespace Ike

/-- **C07 / C08 / C09 / C10 / C16, memory level**: no key-derivation, Diffie-Hellman, cipher-construction or PRF'
function keeps a reference to its nonce, secret, key, identity or exponent argument (regenerated fact, see
`C20_arguments_not_retained`): a result can only depend on the values the arguments had during the call, not on
what the caller writes into those buffers or numbers afterwards.  (Stated as: every retaining function is one of five
functions of the packages `ike` and `message`; none is in `security/*` or `eap`.) -/
theorem C08_key_functions_keep_no_argument :
    ∀ r ∈ Footprint.paramRetained,
      r.1 ∈ ["ike.DecodeDecrypt", "message.IKEPayloadContainer.BuildDeletePayload", "message.NewHeader",
             "message.ParseHeader", "message.NewMessage"] := by decide

end Ike
