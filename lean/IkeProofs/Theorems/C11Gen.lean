import IkeProofs.RefineReg.Registries
import IkeProofs.RefineReg.Dh
import IkeProofs.Theorems.C11

/-! # C11 over the code as translated from the current source (packages encr, integ, prf, dh, esn)

The registries are what the translated `init()` functions build (`encrG`, `integG`, `prfG`, `dhG`, `esnG`). -/

namespace Ike
open Ike.RefineReg Ike.Registry

/-- every decode-from-the-wire function of the translated registries is the model's, for EVERY transform -/
theorem C11_gen_decode_is_model (t : Transform) :
    (Gen.encr.DecodeTransform encrG t).map absEncr = .ok (decodeEncr t) ∧
    (Gen.encr.DecodeTransformChildSA encrG t).map absEncrK = .ok (decodeEncrChild t) ∧
    (Gen.integ.DecodeTransform integG t).map absInteg = .ok (decodeInteg t) ∧
    (Gen.integ.DecodeTransformChildSA integG t).map absIntegK = .ok (decodeIntegChild t) ∧
    (Gen.prf.DecodeTransform prfG t).map absPrf = .ok (decodePrf t) ∧
    (Gen.dh.DecodeTransform dhG t).map absDh = .ok (decodeDh t) ∧
    (Gen.esn.DecodeTransform esnG t).map absEsn = decodeEsn t :=
  ⟨encr_DecodeTransform_refines t, encr_DecodeTransformChildSA_refines t, integ_DecodeTransform_refines t,
   integ_DecodeTransformChildSA_refines t, prf_DecodeTransform_refines t, dh_DecodeTransform_refines t,
   esn_DecodeTransform_refines t⟩

/-- the translated `init()` functions register exactly the advertised algorithms -/
theorem C11_gen_registered :
    (Go.mapEntries encrG.encrTypes).map (fun p => absEncr p.2) = advertisedEncr.map some ∧
    (Go.mapEntries encrG.encrKTypes).map (fun p => absEncrK p.2) = advertisedEncrChild.map some ∧
    (Go.mapEntries integG.integTypes).map (fun p => absInteg p.2) = advertisedInteg.map some ∧
    (Go.mapEntries integG.integKTypes).map (fun p => absIntegK p.2) = advertisedIntegChild.map some ∧
    (Go.mapEntries prfG.prfTypes).map (fun p => absPrf p.2) = advertisedPrf.map some ∧
    (Go.mapEntries dhG.dhTypes).map (fun e => absDh e.2) = advertisedDh.map some ∧
    (Go.mapEntries esnG.esnTypes).map (fun p => absEsn p.2) = advertisedEsn :=
  ⟨encr_types_are_table, encr_ktypes_are_table, integ_types_are_table, integ_ktypes_are_table, prf_types_are_table,
   dh_types_advertised, esn_types_are_table⟩

/-- soundness of the translated encryption decoder: whatever it accepts is an advertised algorithm with the
transform's identifier and key length -/
theorem C11_gen_sound_encr (t : Transform) (x : Gen.encr.ENCRType) (a : EncrInfo)
    (h : Gen.encr.DecodeTransform encrG t = .ok x) (ha : absEncr x = some a) :
    a.tid = t.tid ∧ t.atype = 14 ∧ a.keyLen * 8 = t.aval.toNat ∧ a ∈ advertisedEncr := by
  have hr := encr_DecodeTransform_refines t
  rw [h] at hr
  simp only [Res.map, ha, Res.ok.injEq] at hr
  obtain ⟨h1, h2, h3, h4, _⟩ := C11_sound_encr t a hr.symm
  exact ⟨h1, h2, h3, h4⟩

end Ike
