import IkeProofs.RefineSa.Select
import IkeProofs.RefineSa.RandNum
import IkeProofs.RefineReg.Registries
import IkeProofs.RefineReg.Dh
import IkeProofs.Theorems.C11

/-! # C11 over the code as translated from the current source (packages encr, integ, prf, dh, esn)

The registries are what the translated `init()` functions build (`encrG`, `integG`, `prfG`, `dhG`, `esnG`). -/

namespace Ike
open Ike.RefineReg Ike.Registry

/-- every decode-from-the-wire function of the translated registries is the model's, for EVERY transform -/
theorem C11_gen_decode_is_model (t : Transform) :
    (Gen.encr.DecodeTransform encrG t).map absEncr = .ok (decodeEncr t) ∧
    (Gen.encr.DecodeTransformChildSA encrG t).map absEncrK = .ok (decodeEncrChild t) ∧
    (Gen.integ.DecodeTransform integG t).map absInteg = .ok (decodeInteg t) ∧
    (Gen.integ.DecodeTransformChildSA integG t).map absIntegK = .ok (decodeIntegChild t) ∧
    (Gen.prf.DecodeTransform prfG t).map absPrf = .ok (decodePrf t) ∧
    (Gen.dh.DecodeTransform dhG t).map absDh = .ok (decodeDh t) ∧
    (Gen.esn.DecodeTransform esnG t).map absEsn = decodeEsn t :=
  ⟨encr_DecodeTransform_refines t, encr_DecodeTransformChildSA_refines t, integ_DecodeTransform_refines t,
   integ_DecodeTransformChildSA_refines t, prf_DecodeTransform_refines t, dh_DecodeTransform_refines t,
   esn_DecodeTransform_refines t⟩

/-- the translated `init()` functions register exactly the advertised algorithms -/
theorem C11_gen_registered :
    (Go.mapEntries encrG.encrTypes).map (fun p => absEncr p.2) = advertisedEncr.map some ∧
    (Go.mapEntries encrG.encrKTypes).map (fun p => absEncrK p.2) = advertisedEncrChild.map some ∧
    (Go.mapEntries integG.integTypes).map (fun p => absInteg p.2) = advertisedInteg.map some ∧
    (Go.mapEntries integG.integKTypes).map (fun p => absIntegK p.2) = advertisedIntegChild.map some ∧
    (Go.mapEntries prfG.prfTypes).map (fun p => absPrf p.2) = advertisedPrf.map some ∧
    (Go.mapEntries dhG.dhTypes).map (fun e => absDh e.2) = advertisedDh.map some ∧
    (Go.mapEntries esnG.esnTypes).map (fun p => absEsn p.2) = advertisedEsn :=
  ⟨encr_types_are_table, encr_ktypes_are_table, integ_types_are_table, integ_ktypes_are_table, prf_types_are_table,
   dh_types_advertised, esn_types_are_table⟩

/-- soundness of the translated encryption decoder: whatever it accepts is an advertised algorithm with the
transform's identifier and key length -/
theorem C11_gen_sound_encr (t : Transform) (x : Gen.encr.ENCRType) (a : EncrInfo)
    (h : Gen.encr.DecodeTransform encrG t = .ok x) (ha : absEncr x = some a) :
    a.tid = t.tid ∧ t.atype = 14 ∧ a.keyLen * 8 = t.aval.toNat ∧ a ∈ advertisedEncr := by
  have hr := encr_DecodeTransform_refines t
  rw [h] at hr
  simp only [Res.map, ha, Res.ok.injEq] at hr
  obtain ⟨h1, h2, h3, h4, _⟩ := C11_sound_encr t a hr.symm
  exact ⟨h1, h2, h3, h4⟩

/-! ### `security.NewIKESAKey` as translated: which algorithms an SA object is built from -/

open Ike.RefineSa in
/-- whatever `NewIKESAKey` returns without an error holds exactly the descriptors its four FIRST transforms denote
(`decDh` … `decPrf`: the closed forms of the translated `DecodeTransform`s on the initialised registries), all four
registered ones; the object is well-formed for `ike.go` -/
theorem C11_gen_newIkeSa_descriptors (P : Prims) (hP : P.Lawful) (r r' : Rand) (p : Proposal)
    (td te ti tp : Transform) (hd : p.dh.head? = some td) (he : p.encr.head? = some te)
    (hi : p.integ.head? = some ti) (hp : p.prf.head? = some tp)
    (ke nonce : Bytes) (si sr : UInt64) (k' : Gen.security.IKESAKey) (pub : Bytes)
    (h : Gen.security.NewIKESAKey P secG RefineReg.dhG RefineReg.encrG RefineReg.integG RefineReg.prfG r (some p)
        ke nonce si sr = .ok (r', k', pub)) :
    k'.DhInfo = decDh td ∧ k'.EncrInfo = decEncr te ∧ k'.IntegInfo = decInteg ti ∧ k'.PrfInfo = decPrf tp ∧
    SaRegistered k' ∧ GenAbsSa.SaWF k' := by
  obtain ⟨_, _, hwf, hreg, h1, h2, h3, h4, _⟩ :=
    NewIKESAKey_ok_wf P hP r r' p td te ti tp hd he hi hp ke nonce si sr k' pub h
  exact ⟨h1, h2, h3, h4, hreg, hwf⟩

open Ike.RefineSa in
/-- an unsupported transform in any of the four first positions never yields an SA object: DH, encryption and PRF
are refused at once; an unsupported INTEGRITY transform is not caught by `NewIKESAKey`'s own test (security.go tests
`EncrInfo` a second time) but by `GenerateKeyForIKESA` — after the exponent was drawn — with an error all the same -/
theorem C11_gen_newIkeSa_unsupported (P : Prims) (r : Rand) (p : Proposal)
    (td te ti tp : Transform) (hd : p.dh.head? = some td) (he : p.encr.head? = some te)
    (hi : p.integ.head? = some ti) (hp : p.prf.head? = some tp)
    (h : decDh td = .nil_ ∨ decEncr te = .nil_ ∨ decInteg ti = .nil_ ∨ decPrf tp = .nil_)
    (ke nonce : Bytes) (si sr : UInt64) :
    ∀ x, Gen.security.NewIKESAKey P secG RefineReg.dhG RefineReg.encrG RefineReg.integG RefineReg.prfG r (some p)
        ke nonce si sr ≠ .ok x := by
  intro x hx
  by_cases h3 : decDh td = .nil_ ∨ decEncr te = .nil_ ∨ decPrf tp = .nil_
  · rw [NewIKESAKey_unsupported P r p td te ti tp hd he hi hp h3 ke nonce si sr] at hx; cases hx
  · have hdn : decDh td ≠ .nil_ := fun e => h3 (Or.inl e)
    have hen : decEncr te ≠ .nil_ := fun e => h3 (Or.inr (Or.inl e))
    have hpn : decPrf tp ≠ .nil_ := fun e => h3 (Or.inr (Or.inr e))
    have hin : decInteg ti = .nil_ := by
      rcases h with h | h | h | h
      · exact absurd h hdn
      · exact absurd h hen
      · exact h
      · exact absurd h hpn
    rcases NewIKESAKey_unsupported_integ_not_ok P r p td te ti tp hd he hi hp hdn hen hpn hin ke nonce si sr with
      ⟨e, _⟩ | ⟨e, _⟩ <;> (rw [e] at hx; cases hx)

/-! ### algorithm selection for a Child SA and the proposals built from SA objects, as translated -/

open Ike.RefineSa in
/-- the translated `NewChildSAKeyByProposal` IS the model's `selectChild`, for every proposal (and nil) -/
theorem C11_gen_selectChild_is_model (po : Option Proposal) :
    (Gen.security.NewChildSAKeyByProposal RefineReg.dhG RefineReg.encrG RefineReg.esnG RefineReg.integG po).map absChildSuite =
      (Registry.selectChild po).map some :=
  NewChildSAKeyByProposal_refines po

open Ike.RefineSa in
/-- the translated `IKESAKey.ToProposal` IS the model's `ikeToProposal` on objects with registered descriptors -/
theorem C11_gen_ikeToProposal_is_model (k : Gen.security.IKESAKey) (hk : SaRegistered k) (hdh : DhRegistered k.DhInfo) :
    Gen.security.IKESAKey.ToProposal k =
      Registry.ikeToProposal ⟨absDhInfo k.DhInfo, GenAbsSa.absEncrInfo k.EncrInfo, GenAbsSa.absIntegInfo k.IntegInfo,
        GenAbsSa.absPrfInfo k.PrfInfo⟩ :=
  IKESAKey_ToProposal_refines k hk hdh

open Ike.RefineSa in
/-- the translated `ChildSAKey.ToProposal` IS the model's `childToProposal` -/
theorem C11_gen_childToProposal_is_model (c : Gen.security.ChildSAKey) (s : Registry.ChildSuite)
    (h : absChildSuite c = some s) (hl : EncrKNonneg c.EncrKInfo) :
    Gen.security.ChildSAKey.ToProposal c = Registry.childToProposal s :=
  ChildSAKey_ToProposal_refines c s h hl

end Ike
