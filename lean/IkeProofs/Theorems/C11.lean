import IkeProofs.Lemmas.Registry

/-!
# C11 — algorithm ↔ transform mapping is faithful and closed over the advertised set

The registry (`Ike.Registry`) searches the GENERATED tables of
`IkeModel/Generated/Facts.lean`, which are re-extracted from the compiled Go
code before every proof check.  Theorems whose proof is `decide` over a table
(`C11_lengths`, the `*_table` lemmas, `C11_roundtrip_*`) are therefore
re-checked against the current code; `C11_sound`, `C11_unknown` (general part),
`C11_sa_*` are proved for every transform / proposal by case analysis on the
decode functions, without enumerating identifiers.
-/

set_option linter.unusedSimpArgs false
set_option linter.unusedVariables false

namespace Ike
open Registry

/-! ## RFC lengths -/

/-- C11, "those lengths are the ones the defining RFCs prescribe": the generated
registry equals the table written here as a literal —
ENCR_AES_CBC = 12 with 16/24/32-octet keys (RFC 3602; key length attribute 14
of RFC 7296 §3.3.5), AUTH_HMAC_MD5_96 = 1 / AUTH_HMAC_SHA1_96 = 2 /
AUTH_HMAC_SHA2_256_128 = 12 with keys 16/20/32, ICVs 12/12/16 and hashes
MD5/SHA-1/SHA-256 (RFC 2403, 2404, 4868), PRF_HMAC_MD5 = 1 / PRF_HMAC_SHA1 = 2 /
PRF_HMAC_SHA2_256 = 5 with key = output = 16/20/32, groups 2 and 14 with 128
and 256 octets, generator 2, ESN 0/1 — for the IKE SA and the Child SA
variants — and the transform type codes 1..5. -/
theorem C11_lengths :
    Facts.encrTable = [(12, 16), (12, 24), (12, 32)] ∧
    Facts.encrChildTable = [(12, 16), (12, 24), (12, 32)] ∧
    Facts.integTable = [(1, 16, 12, 0), (2, 20, 12, 1), (12, 32, 16, 2)] ∧
    Facts.integChildTable = [(1, 16, 12, 0), (2, 20, 12, 1), (12, 32, 16, 2)] ∧
    Facts.prfTable = [(1, 16, 16, 0), (2, 20, 20, 1), (5, 32, 32, 2)] ∧
    Facts.group2Id = 2 ∧ Facts.group14Id = 14 ∧ Facts.group2Len = 128 ∧ Facts.group14Len = 256 ∧
    Facts.group2Generator = 2 ∧ Facts.group14Generator = 2 ∧
    Facts.esnDisableId = 0 ∧ Facts.esnEnableId = 1 ∧
    Facts.encrAesCbcId = 12 ∧ Facts.attrTypeKeyLength = 14 ∧ Facts.attrFormatTV = 1 ∧
    Facts.ttEncr = 1 ∧ Facts.ttPrf = 2 ∧ Facts.ttInteg = 3 ∧ Facts.ttDh = 4 ∧ Facts.ttEsn = 5 := by
  decide

/-- C11, the same against the independent tables of `Spec/Keys.lean` (written
from the RFC texts for C06/C07): every registry row carries the RFC lengths,
and every RFC row is in the registry. -/
theorem C11_lengths_spec :
    (∀ r ∈ Facts.encrTable, Spec.rfcAesKeyLen (r.2 * 8) = some r.2) ∧
    (∀ r ∈ Facts.encrChildTable, Spec.rfcAesKeyLen (r.2 * 8) = some r.2) ∧
    (∀ bits ∈ [128, 192, 256], ∃ r ∈ Facts.encrTable, Spec.rfcAesKeyLen bits = some r.2) ∧
    (∀ r ∈ Facts.integTable, Spec.rfcInteg r.1.toNat = some (r.2.1, r.2.2.1)) ∧
    (∀ r ∈ Facts.integChildTable, Spec.rfcInteg r.1.toNat = some (r.2.1, r.2.2.1)) ∧
    (∀ id ∈ [1, 2, 12], ∃ r ∈ Facts.integTable, r.1.toNat = id) ∧
    (∀ r ∈ Facts.prfTable, Spec.rfcPrfLen r.1.toNat = some r.2.1 ∧ r.2.2.1 = r.2.1) ∧
    (∀ id ∈ [1, 2, 5], ∃ r ∈ Facts.prfTable, r.1.toNat = id) ∧
    Facts.group2Prime = Spec.rfc2409Group2 ∧ Facts.group14Prime = Spec.rfc3526Group14 := by
  decide

/-- the advertised sets, spelled out -/
theorem C11_advertised :
    advertisedEncr = [⟨12, 16⟩, ⟨12, 24⟩, ⟨12, 32⟩] ∧
    advertisedEncrChild = [⟨12, 16⟩, ⟨12, 24⟩, ⟨12, 32⟩] ∧
    advertisedInteg = [⟨1, 16, 12, 0⟩, ⟨2, 20, 12, 1⟩, ⟨12, 32, 16, 2⟩] ∧
    advertisedIntegChild = [⟨1, 16⟩, ⟨2, 20⟩, ⟨12, 32⟩] ∧
    advertisedPrf = [⟨1, 16, 16, 0⟩, ⟨2, 20, 20, 1⟩, ⟨5, 32, 32, 2⟩] ∧
    advertisedDh.map (fun d => (d.tid, d.len, d.generator)) = [(2, 128, 2), (14, 256, 2)] ∧
    advertisedEsn.map (fun e => (e.tid, e.needESN)) = [(1, true), (0, false)] := by
  decide

/-! ## round trip -/

/-- `dec` maps `t` to `a`, and does so after `t` went through the SA codec:
`t` is in the encodable domain, `marshalTransform` accepts it (as last or
non-last transform) and `parseTransform` returns it from the octets, whatever
follows them, so that decoding what was parsed gives `a`. -/
def WireRoundTrip {α : Type} (dec : Transform → Option α) (t : Transform) (a : α) : Prop :=
  dec t = some a ∧ t.Dom ∧
  ∀ (last : Bool) (rest : Bytes), ∃ h, marshalTransform last t = .ok h ∧
    ∃ t' n, parseTransform (h ++ rest) = .ok (t', n) ∧ t' = t ∧ n = h.length ∧ dec t' = some a

theorem wireRoundTrip_of {α : Type} {dec : Transform → Option α} {t : Transform} {a : α}
    (hd : dec t = some a) (hs : SurvivesWire t) : WireRoundTrip dec t a := by
  refine ⟨hd, hs.1, fun last rest => ?_⟩
  obtain ⟨h, hm, hp⟩ := hs.2 last rest
  exact ⟨h, hm, t, h.length, hp, rfl, rfl, hd⟩

/-- every IKE encryption descriptor converts, and decodes back to itself (table fact) -/
theorem encr_table_rt : ∀ a ∈ advertisedEncr,
    (encrToTransform a >>= fun t => .ok (decodeEncr t, t.ttype)) = .ok (some a, Facts.ttEncr) := by decide

theorem encrChild_table_rt : ∀ a ∈ advertisedEncrChild,
    (encrChildToTransform a >>= fun t => .ok (decodeEncrChild t, t.ttype)) = .ok (some a, Facts.ttEncr) := by decide

theorem integ_table_rt : ∀ a ∈ advertisedInteg, decodeInteg (integToTransform a) = some a := by decide
theorem integChild_table_rt : ∀ a ∈ advertisedIntegChild, decodeIntegChild (integChildToTransform a) = some a := by
  decide
theorem prf_table_rt : ∀ a ∈ advertisedPrf, decodePrf (prfToTransform a) = some a := by decide
theorem dh_table_rt : ∀ a ∈ advertisedDh, decodeDh (dhToTransform a) = some a := by decide
theorem esn_table_rt : ∀ a ∈ advertisedEsn, decodeEsn (esnToTransform a) = .ok a := by decide

theorem encrToTransform_ok {e : EncrInfo} {t : Transform} (h : encrToTransform e = .ok t) :
    t = mkTransform Facts.ttEncr e.tid (true, Facts.attrTypeKeyLength, UInt16.ofNat (e.keyLen * 8), none) := by
  unfold encrToTransform aesCbcAttr at h
  dsimp only at h
  split at h
  · simp at h
  · simp only [Res.bind_ok, Res.ok.injEq] at h
    exact h.symm

theorem encrChildToTransform_ok {e : EncrKInfo} {t : Transform} (h : encrChildToTransform e = .ok t) :
    t = mkTransform Facts.ttEncr e.tid (true, Facts.attrTypeKeyLength, UInt16.ofNat (e.keyLen * 8), none) := by
  unfold encrChildToTransform aesCbcAttr at h
  dsimp only at h
  split at h
  · simp at h
  · simp only [Res.bind_ok, Res.ok.injEq] at h
    exact h.symm

theorem keyLengthType_lt : Facts.attrTypeKeyLength.toNat < 32768 := by decide

/-- C11, round trip, encryption (IKE SA): every advertised descriptor converts
to a transform of type ENCR that decodes to the same descriptor (same
identifier, same key length), directly and after the wire. -/
theorem C11_roundtrip_encr : ∀ a ∈ advertisedEncr,
    ∃ t, encrToTransform a = .ok t ∧ t.ttype = Facts.ttEncr ∧ WireRoundTrip decodeEncr t a := by
  intro a ha
  have h := encr_table_rt a ha
  cases ht : encrToTransform a with
  | err => simp [ht] at h
  | fault => simp [ht] at h
  | ok t =>
    simp only [ht, Res.bind_ok, Res.ok.injEq, Prod.mk.injEq] at h
    refine ⟨t, rfl, h.2, wireRoundTrip_of h.1 ?_⟩
    rw [encrToTransform_ok ht]
    exact survives_tv _ _ _ _ keyLengthType_lt

/-- C11, round trip, encryption (Child SA) -/
theorem C11_roundtrip_encrChild : ∀ a ∈ advertisedEncrChild,
    ∃ t, encrChildToTransform a = .ok t ∧ t.ttype = Facts.ttEncr ∧ WireRoundTrip decodeEncrChild t a := by
  intro a ha
  have h := encrChild_table_rt a ha
  cases ht : encrChildToTransform a with
  | err => simp [ht] at h
  | fault => simp [ht] at h
  | ok t =>
    simp only [ht, Res.bind_ok, Res.ok.injEq, Prod.mk.injEq] at h
    refine ⟨t, rfl, h.2, wireRoundTrip_of h.1 ?_⟩
    rw [encrChildToTransform_ok ht]
    exact survives_tv _ _ _ _ keyLengthType_lt

/-- C11, round trip, integrity (IKE SA): same descriptor — identifier, key
length, output length and hash — directly and after the wire -/
theorem C11_roundtrip_integ : ∀ a ∈ advertisedInteg,
    (integToTransform a).ttype = Facts.ttInteg ∧ WireRoundTrip decodeInteg (integToTransform a) a :=
  fun a ha => ⟨rfl, wireRoundTrip_of (integ_table_rt a ha) (survives_noAttr _ _)⟩

/-- C11, round trip, integrity (Child SA) -/
theorem C11_roundtrip_integChild : ∀ a ∈ advertisedIntegChild,
    (integChildToTransform a).ttype = Facts.ttInteg ∧
    WireRoundTrip decodeIntegChild (integChildToTransform a) a :=
  fun a ha => ⟨rfl, wireRoundTrip_of (integChild_table_rt a ha) (survives_noAttr _ _)⟩

/-- C11, round trip, PRF -/
theorem C11_roundtrip_prf : ∀ a ∈ advertisedPrf,
    (prfToTransform a).ttype = Facts.ttPrf ∧ WireRoundTrip decodePrf (prfToTransform a) a :=
  fun a ha => ⟨rfl, wireRoundTrip_of (prf_table_rt a ha) (survives_noAttr _ _)⟩

/-- C11, round trip, Diffie-Hellman groups -/
theorem C11_roundtrip_dh : ∀ a ∈ advertisedDh,
    (dhToTransform a).ttype = Facts.ttDh ∧ WireRoundTrip decodeDh (dhToTransform a) a :=
  fun a ha => ⟨rfl, wireRoundTrip_of (dh_table_rt a ha) (survives_noAttr _ _)⟩

/-- `esn.DecodeTransform` returns an error instead of nil: as an option -/
def decodeEsnOpt (t : Transform) : Option EsnInfo :=
  match decodeEsn t with
  | .ok e => some e
  | _ => none

/-- C11, round trip, ESN (both values) -/
theorem C11_roundtrip_esn : ∀ a ∈ advertisedEsn,
    (esnToTransform a).ttype = Facts.ttEsn ∧ decodeEsn (esnToTransform a) = .ok a ∧
    WireRoundTrip decodeEsnOpt (esnToTransform a) a := by
  intro a ha
  have h := esn_table_rt a ha
  exact ⟨rfl, h, wireRoundTrip_of (by simp [decodeEsnOpt, h]) (survives_noAttr _ _)⟩

/-- C11, round trip, all kinds together -/
theorem C11_roundtrip :
    (∀ a ∈ advertisedEncr, ∃ t, encrToTransform a = .ok t ∧ t.ttype = Facts.ttEncr ∧ WireRoundTrip decodeEncr t a) ∧
    (∀ a ∈ advertisedEncrChild,
      ∃ t, encrChildToTransform a = .ok t ∧ t.ttype = Facts.ttEncr ∧ WireRoundTrip decodeEncrChild t a) ∧
    (∀ a ∈ advertisedInteg, WireRoundTrip decodeInteg (integToTransform a) a) ∧
    (∀ a ∈ advertisedIntegChild, WireRoundTrip decodeIntegChild (integChildToTransform a) a) ∧
    (∀ a ∈ advertisedPrf, WireRoundTrip decodePrf (prfToTransform a) a) ∧
    (∀ a ∈ advertisedDh, WireRoundTrip decodeDh (dhToTransform a) a) ∧
    (∀ a ∈ advertisedEsn, WireRoundTrip decodeEsnOpt (esnToTransform a) a) :=
  ⟨C11_roundtrip_encr, C11_roundtrip_encrChild, fun a h => (C11_roundtrip_integ a h).2,
   fun a h => (C11_roundtrip_integChild a h).2, fun a h => (C11_roundtrip_prf a h).2,
   fun a h => (C11_roundtrip_dh a h).2, fun a h => (C11_roundtrip_esn a h).2.2⟩

/-- non-vacuity: AES-CBC-192 and its transform, octet for octet -/
example : (⟨12, 24⟩ : EncrInfo) ∈ advertisedEncr ∧
    encrToTransform ⟨12, 24⟩ = .ok ⟨1, 12, true, 1, 14, 192, []⟩ ∧
    marshalTransform true ⟨1, 12, true, 1, 14, 192, []⟩ = .ok [0, 0, 0, 12, 1, 0, 0, 12, 0x80, 14, 0, 192] := by
  decide

/-! ## soundness: a transform never maps to a different algorithm -/

theorem encr_ids : (∀ r ∈ Facts.encrTable, r.1 = Facts.encrAesCbcId) ∧
    (∀ r ∈ Facts.encrChildTable, r.1 = Facts.encrAesCbcId) := by decide

/-- C11, soundness, encryption (IKE SA): **for every transform `t`** — any of
the 2¹⁶ identifiers, any attribute fields — if `encr.DecodeTransform` returns
a descriptor then it has `t`'s identifier, `t` carries attribute type 14 (Key
Length) whose value is exactly 8 × the descriptor's key length, and the
descriptor is an advertised one. -/
theorem C11_sound_encr (t : Transform) (a : EncrInfo) (h : decodeEncr t = some a) :
    a.tid = t.tid ∧ t.atype = 14 ∧ a.keyLen * 8 = t.aval.toNat ∧ a ∈ advertisedEncr ∧
    (a.tid, a.keyLen) ∈ Facts.encrTable := by
  unfold decodeEncr at h
  cases hr : decodeEncrRow Facts.encrTable t with
  | none => simp [hr] at h
  | some r =>
    simp only [hr, Option.some.injEq] at h
    subst h
    obtain ⟨h1, h2, h3, h4⟩ := decodeEncrRow_some hr
    refine ⟨?_, h2, h3, ?_, h4⟩
    · rw [h1]; exact encr_ids.1 r h4
    · exact List.mem_map.mpr ⟨r, h4, rfl⟩

/-- C11, soundness, encryption (Child SA) -/
theorem C11_sound_encrChild (t : Transform) (a : EncrKInfo) (h : decodeEncrChild t = some a) :
    a.tid = t.tid ∧ t.atype = 14 ∧ a.keyLen * 8 = t.aval.toNat ∧ a ∈ advertisedEncrChild ∧
    (a.tid, a.keyLen) ∈ Facts.encrChildTable := by
  unfold decodeEncrChild at h
  cases hr : decodeEncrRow Facts.encrChildTable t with
  | none => simp [hr] at h
  | some r =>
    simp only [hr, Option.some.injEq] at h
    subst h
    obtain ⟨h1, h2, h3, h4⟩ := decodeEncrRow_some hr
    refine ⟨?_, h2, h3, ?_, h4⟩
    · rw [h1]; exact encr_ids.2 r h4
    · exact List.mem_map.mpr ⟨r, h4, rfl⟩

/-- C11, soundness, integrity (IKE SA): for every transform, a returned
descriptor has the transform's identifier and is the advertised row (key,
output length, hash come from the table, not from the transform) -/
theorem C11_sound_integ (t : Transform) (a : IntegInfo) (h : decodeInteg t = some a) :
    a.tid = t.tid ∧ a ∈ advertisedInteg ∧ (a.tid, a.keyLen, a.outLen, a.hash) ∈ Facts.integTable := by
  unfold decodeInteg at h
  cases hr : findId Facts.integTable t.tid with
  | none => simp [hr] at h
  | some r =>
    simp only [hr, Option.some.injEq] at h
    subst h
    obtain ⟨h1, h2⟩ := findId_some hr
    exact ⟨h1, List.mem_map.mpr ⟨r, h2, rfl⟩, h2⟩

/-- C11, soundness, integrity (Child SA) -/
theorem C11_sound_integChild (t : Transform) (a : IntegKInfo) (h : decodeIntegChild t = some a) :
    a.tid = t.tid ∧ a ∈ advertisedIntegChild ∧
    ∃ o hh, (a.tid, a.keyLen, o, hh) ∈ Facts.integChildTable := by
  unfold decodeIntegChild at h
  cases hr : findId Facts.integChildTable t.tid with
  | none => simp [hr] at h
  | some r =>
    simp only [hr, Option.some.injEq] at h
    subst h
    obtain ⟨h1, h2⟩ := findId_some hr
    exact ⟨h1, List.mem_map.mpr ⟨r, h2, rfl⟩, r.2.2.1, r.2.2.2, h2⟩

/-- C11, soundness, PRF -/
theorem C11_sound_prf (t : Transform) (a : PrfInfo) (h : decodePrf t = some a) :
    a.tid = t.tid ∧ a ∈ advertisedPrf ∧ (a.tid, a.keyLen, a.outLen, a.hash) ∈ Facts.prfTable := by
  unfold decodePrf at h
  cases hr : findId Facts.prfTable t.tid with
  | none => simp [hr] at h
  | some r =>
    simp only [hr, Option.some.injEq] at h
    subst h
    obtain ⟨h1, h2⟩ := findId_some hr
    exact ⟨h1, List.mem_map.mpr ⟨r, h2, rfl⟩, h2⟩

/-- C11, soundness, Diffie-Hellman -/
theorem C11_sound_dh (t : Transform) (a : DhInfo) (h : decodeDh t = some a) :
    a.tid = t.tid ∧ a ∈ advertisedDh := by
  unfold decodeDh at h
  by_cases h2 : t.tid = Facts.group2Id
  · rw [if_pos (by simp [h2])] at h
    simp only [Option.some.injEq] at h
    subst h
    exact ⟨h2.symm, by simp [advertisedDh]⟩
  · rw [if_neg (by simp [h2])] at h
    by_cases h14 : t.tid = Facts.group14Id
    · rw [if_pos (by simp [h14])] at h
      simp only [Option.some.injEq] at h
      subst h
      exact ⟨h14.symm, by simp [advertisedDh]⟩
    · rw [if_neg (by simp [h14])] at h
      simp at h

/-- C11, soundness, ESN; the decode function never faults -/
theorem C11_sound_esn (t : Transform) :
    decodeEsn t ≠ .fault ∧ ∀ e, decodeEsn t = .ok e → e.tid = t.tid ∧ e ∈ advertisedEsn := by
  unfold decodeEsn
  by_cases h1 : t.tid = Facts.esnEnableId
  · rw [if_pos (by simp [h1])]
    refine ⟨by simp, fun e he => ?_⟩
    simp only [Res.ok.injEq] at he
    subst he
    exact ⟨by simp [EsnInfo.tid, h1], by simp [advertisedEsn]⟩
  · rw [if_neg (by simp [h1])]
    by_cases h0 : t.tid = Facts.esnDisableId
    · rw [if_pos (by simp [h0])]
      refine ⟨by simp, fun e he => ?_⟩
      simp only [Res.ok.injEq] at he
      subst he
      exact ⟨by simp [EsnInfo.tid, h0], by simp [advertisedEsn]⟩
    · rw [if_neg (by simp [h0])]
      exact ⟨by simp, fun e he => by simp at he⟩

/-- C11, soundness, all kinds (the statement of DESIGN §7 `C11_sound`) -/
theorem C11_sound (t : Transform) :
    (∀ a, decodeEncr t = some a →
      a.tid = t.tid ∧ t.atype = 14 ∧ a.keyLen * 8 = t.aval.toNat ∧ a ∈ advertisedEncr) ∧
    (∀ a, decodeEncrChild t = some a →
      a.tid = t.tid ∧ t.atype = 14 ∧ a.keyLen * 8 = t.aval.toNat ∧ a ∈ advertisedEncrChild) ∧
    (∀ a, decodeInteg t = some a → a.tid = t.tid ∧ a ∈ advertisedInteg) ∧
    (∀ a, decodeIntegChild t = some a → a.tid = t.tid ∧ a ∈ advertisedIntegChild) ∧
    (∀ a, decodePrf t = some a → a.tid = t.tid ∧ a ∈ advertisedPrf) ∧
    (∀ a, decodeDh t = some a → a.tid = t.tid ∧ a ∈ advertisedDh) ∧
    (∀ a, decodeEsn t = .ok a → a.tid = t.tid ∧ a ∈ advertisedEsn) :=
  ⟨fun a h => let r := C11_sound_encr t a h; ⟨r.1, r.2.1, r.2.2.1, r.2.2.2.1⟩,
   fun a h => let r := C11_sound_encrChild t a h; ⟨r.1, r.2.1, r.2.2.1, r.2.2.2.1⟩,
   fun a h => let r := C11_sound_integ t a h; ⟨r.1, r.2.1⟩,
   fun a h => let r := C11_sound_integChild t a h; ⟨r.1, r.2.1⟩,
   fun a h => let r := C11_sound_prf t a h; ⟨r.1, r.2.1⟩,
   C11_sound_dh t, (C11_sound_esn t).2⟩

/-- non-vacuity of `C11_sound`: a transform that decodes, with foreign values in
the fields the decoder must not look at -/
example : decodeEncr ⟨77, 12, false, 0, 14, 256, [1, 2]⟩ = some ⟨12, 32⟩ ∧
    decodeInteg ⟨0, 12, true, 1, 14, 128, []⟩ = some ⟨12, 32, 16, 2⟩ := by decide

/-! ## unknown or malformed ⇒ unsupported -/

/-- the decode functions read only identifier, attribute type and attribute
value: the other four fields of the transform are irrelevant -/
theorem C11_fields_read (t : Transform) (tt : UInt8) (pr : Bool) (fm : UInt8) (vv : Bytes) :
    let t' : Transform := { t with ttype := tt, present := pr, fmt := fm, vval := vv }
    decodeEncr t' = decodeEncr t ∧ decodeEncrChild t' = decodeEncrChild t ∧
    decodeInteg t' = decodeInteg t ∧ decodeIntegChild t' = decodeIntegChild t ∧
    decodePrf t' = decodePrf t ∧ decodeDh t' = decodeDh t ∧ decodeEsn t' = decodeEsn t :=
  ⟨rfl, rfl, rfl, rfl, rfl, rfl, rfl⟩

theorem encr_sizes : (∀ r ∈ Facts.encrTable, r.2 * 8 = 128 ∨ r.2 * 8 = 192 ∨ r.2 * 8 = 256) ∧
    (∀ r ∈ Facts.encrChildTable, r.2 * 8 = 128 ∨ r.2 * 8 = 192 ∨ r.2 * 8 = 256) ∧
    (∀ b ∈ [128, 192, 256], (∃ r ∈ Facts.encrTable, r.2 * 8 = b) ∧ (∃ r ∈ Facts.encrChildTable, r.2 * 8 = b)) := by
  decide

theorem encrRow_isSome_iff (tbl : List (UInt16 × Nat))
    (h1 : ∀ r ∈ tbl, r.2 * 8 = 128 ∨ r.2 * 8 = 192 ∨ r.2 * 8 = 256)
    (h2 : ∀ b ∈ [128, 192, 256], ∃ r ∈ tbl, r.2 * 8 = b) (t : Transform) :
    (decodeEncrRow tbl t).isSome ↔
      t.tid = 12 ∧ t.atype = 14 ∧ (t.aval.toNat = 128 ∨ t.aval.toNat = 192 ∨ t.aval.toNat = 256) := by
  rw [Option.isSome_iff_ne_none, Ne, decodeEncrRow_none]
  have e1 : Facts.encrAesCbcId = 12 := rfl
  have e2 : Facts.attrTypeKeyLength = 14 := rfl
  rw [e1, e2]
  constructor
  · intro h
    by_cases c1 : t.tid = 12
    · by_cases c2 : t.atype = 14
      · refine ⟨c1, c2, ?_⟩
        have : ∃ r, r ∈ tbl ∧ r.2 * 8 = t.aval.toNat := by
          apply Classical.byContradiction
          intro hne
          exact h (Or.inr (Or.inr (fun r hr hv => hne ⟨r, hr, hv⟩)))
        obtain ⟨r, hr, hv⟩ := this
        have := h1 r hr
        omega
      · exact absurd (Or.inr (Or.inl c2)) h
    · exact absurd (Or.inl c1) h
  · rintro ⟨c1, c2, c3⟩ h
    rcases h with h | h | h
    · exact h c1
    · exact h c2
    · have hb : t.aval.toNat ∈ [128, 192, 256] := by simp; omega
      obtain ⟨r, hr, hv⟩ := h2 _ hb
      exact h r hr hv

/-- C11, unknown ⇒ unsupported, encryption: **for every transform**,
`encr.DecodeTransform` (and the Child SA variant) returns a descriptor iff the
identifier is 12 and attribute type is 14 and the value is 128, 192 or 256.
Hence: identifier ≠ ENCR_AES_CBC ⇒ none; missing or foreign attribute type
(≠ 14, e.g. 14 + 128) ⇒ none; unsupported key size ⇒ none. -/
theorem C11_unknown_encr (t : Transform) :
    ((decodeEncr t).isSome ↔
      t.tid = 12 ∧ t.atype = 14 ∧ (t.aval.toNat = 128 ∨ t.aval.toNat = 192 ∨ t.aval.toNat = 256)) ∧
    ((decodeEncrChild t).isSome ↔
      t.tid = 12 ∧ t.atype = 14 ∧ (t.aval.toNat = 128 ∨ t.aval.toNat = 192 ∨ t.aval.toNat = 256)) := by
  constructor
  · rw [← encrRow_isSome_iff Facts.encrTable encr_sizes.1 (fun b hb => (encr_sizes.2.2 b hb).1) t]
    unfold decodeEncr
    cases decodeEncrRow Facts.encrTable t <;> simp
  · rw [← encrRow_isSome_iff Facts.encrChildTable encr_sizes.2.1 (fun b hb => (encr_sizes.2.2 b hb).2) t]
    unfold decodeEncrChild
    cases decodeEncrRow Facts.encrChildTable t <;> simp

/-- C11, the three named failure classes for encryption, spelled out -/
theorem C11_unknown_encr_cases (t : Transform) :
    (t.tid ≠ 12 → decodeEncr t = none ∧ decodeEncrChild t = none) ∧
    (t.atype ≠ 14 → decodeEncr t = none ∧ decodeEncrChild t = none) ∧
    (t.aval.toNat ≠ 128 → t.aval.toNat ≠ 192 → t.aval.toNat ≠ 256 →
      decodeEncr t = none ∧ decodeEncrChild t = none) := by
  have h := C11_unknown_encr t
  have n1 : ∀ {α : Type} (o : Option α), ¬ o.isSome → o = none := by
    intro α o; cases o <;> simp
  refine ⟨fun c => ⟨n1 _ ?_, n1 _ ?_⟩, fun c => ⟨n1 _ ?_, n1 _ ?_⟩, fun c1 c2 c3 => ⟨n1 _ ?_, n1 _ ?_⟩⟩
  · rw [h.1]; exact fun x => c x.1
  · rw [h.2]; exact fun x => c x.1
  · rw [h.1]; exact fun x => c x.2.1
  · rw [h.2]; exact fun x => c x.2.1
  · rw [h.1]; intro x; omega
  · rw [h.2]; intro x; omega

/-- C11, TLV-encoded or absent key length after the wire: a transform that
`parseTransform` returned with the format bit clear (variable-length
attribute, or no attribute at all) never selects an encryption algorithm —
in particular a key length sent in TLV format is not honoured. -/
theorem C11_unknown_encr_tlv (td : Bytes) (t : Transform) (n : Nat)
    (hp : parseTransform td = .ok (t, n)) (hf : t.fmt = 0) :
    decodeEncr t = none ∧ decodeEncrChild t = none := by
  have h0 := (parse_shape td t n hp).1 hf
  have hv : t.aval.toNat = 0 := by rw [h0]; rfl
  exact (C11_unknown_encr_cases t).2.2 (by omega) (by omega) (by omega)

/-- non-vacuity: AES-CBC with "key length = 128" written as a TLV attribute parses, and is unsupported -/
example : ∃ t n, parseTransform [0, 0, 0, 14, 1, 0, 0, 12, 0, 14, 0, 2, 0, 128] = .ok (t, n) ∧ t.fmt = 0 ∧
    t.tid = 12 ∧ t.atype = 14 ∧ t.vval = [0, 128] :=
  ⟨⟨1, 12, true, 0, 14, 0, [0, 128]⟩, 14, by decide, rfl, rfl, rfl, rfl⟩

theorem id_tables :
    (∀ id : UInt16, (∃ r ∈ Facts.integTable, r.1 = id) ↔ id = 1 ∨ id = 2 ∨ id = 12) ∧
    (∀ id : UInt16, (∃ r ∈ Facts.integChildTable, r.1 = id) ↔ id = 1 ∨ id = 2 ∨ id = 12) ∧
    (∀ id : UInt16, (∃ r ∈ Facts.prfTable, r.1 = id) ↔ id = 1 ∨ id = 2 ∨ id = 5) := by
  refine ⟨fun id => ?_, fun id => ?_, fun id => ?_⟩ <;>
    simp [Facts.integTable, Facts.integChildTable, Facts.prfTable, eq_comm]

theorem findId_isSome_iff (tbl : List (UInt16 × Nat × Nat × Nat)) (id : UInt16) :
    (findId tbl id).isSome ↔ ∃ r ∈ tbl, r.1 = id := by
  rw [Option.isSome_iff_ne_none, Ne, findId_none]
  simp

/-- C11, unknown ⇒ unsupported, integrity / PRF / DH / ESN: **for every
transform**, a descriptor is returned iff the identifier is one of the
advertised ones (1, 2, 12 / 1, 2, 5 / 2, 14 / 0, 1); every other of the 2¹⁶
identifiers gives none (for ESN: an error). -/
theorem C11_unknown_ids (t : Transform) :
    ((decodeInteg t).isSome ↔ t.tid = 1 ∨ t.tid = 2 ∨ t.tid = 12) ∧
    ((decodeIntegChild t).isSome ↔ t.tid = 1 ∨ t.tid = 2 ∨ t.tid = 12) ∧
    ((decodePrf t).isSome ↔ t.tid = 1 ∨ t.tid = 2 ∨ t.tid = 5) ∧
    ((decodeDh t).isSome ↔ t.tid = 2 ∨ t.tid = 14) ∧
    ((decodeEsn t).isOk ↔ t.tid = 0 ∨ t.tid = 1) ∧
    (decodeEsn t = .err ↔ t.tid ≠ 0 ∧ t.tid ≠ 1) := by
  refine ⟨?_, ?_, ?_, ?_, ?_, ?_⟩
  · rw [← id_tables.1 t.tid, ← findId_isSome_iff]
    unfold decodeInteg; cases findId Facts.integTable t.tid <;> simp
  · rw [← id_tables.2.1 t.tid, ← findId_isSome_iff]
    unfold decodeIntegChild; cases findId Facts.integChildTable t.tid <;> simp
  · rw [← id_tables.2.2 t.tid, ← findId_isSome_iff]
    unfold decodePrf; cases findId Facts.prfTable t.tid <;> simp
  · unfold decodeDh
    have e1 : Facts.group2Id = 2 := rfl
    have e2 : Facts.group14Id = 14 := rfl
    rw [e1, e2]
    by_cases h2 : t.tid = 2
    · simp [h2]
    · by_cases h14 : t.tid = 14
      · simp [h14]
      · simp [h2, h14]
  · unfold decodeEsn
    have e1 : Facts.esnEnableId = 1 := rfl
    have e2 : Facts.esnDisableId = 0 := rfl
    rw [e1, e2]
    by_cases h1 : t.tid = 1
    · simp [h1, Res.isOk]
    · by_cases h0 : t.tid = 0
      · simp [h0, Res.isOk]
      · simp [h0, h1, Res.isOk]
  · unfold decodeEsn
    have e1 : Facts.esnEnableId = 1 := rfl
    have e2 : Facts.esnDisableId = 0 := rfl
    rw [e1, e2]
    by_cases h1 : t.tid = 1
    · simp [h1]
    · by_cases h0 : t.tid = 0
      · simp [h0]
      · simp [h0, h1]

/-- C11_unknown, collected -/
theorem C11_unknown (t : Transform) :
    ((decodeEncr t).isSome ↔
      t.tid = 12 ∧ t.atype = 14 ∧ (t.aval.toNat = 128 ∨ t.aval.toNat = 192 ∨ t.aval.toNat = 256)) ∧
    ((decodeEncrChild t).isSome ↔
      t.tid = 12 ∧ t.atype = 14 ∧ (t.aval.toNat = 128 ∨ t.aval.toNat = 192 ∨ t.aval.toNat = 256)) ∧
    ((decodeInteg t).isSome ↔ t.tid = 1 ∨ t.tid = 2 ∨ t.tid = 12) ∧
    ((decodeIntegChild t).isSome ↔ t.tid = 1 ∨ t.tid = 2 ∨ t.tid = 12) ∧
    ((decodePrf t).isSome ↔ t.tid = 1 ∨ t.tid = 2 ∨ t.tid = 5) ∧
    ((decodeDh t).isSome ↔ t.tid = 2 ∨ t.tid = 14) ∧
    ((decodeEsn t).isOk ↔ t.tid = 0 ∨ t.tid = 1) :=
  let u := C11_unknown_ids t
  ⟨(C11_unknown_encr t).1, (C11_unknown_encr t).2, u.1, u.2.1, u.2.2.1, u.2.2.2.1, u.2.2.2.2.1⟩

/-- non-vacuity: the defect class of D5 — wire attribute type 142 = 14 + 128 is
read as type 142 (15-bit mask) and does not select AES-128 -/
example : ∃ t n, parseTransform [0, 0, 0, 12, 1, 0, 0, 12, 0x80, 142, 0, 128] = .ok (t, n) ∧ t.atype = 142 ∧
    decodeEncr t = none :=
  ⟨⟨1, 12, true, 1, 142, 128, []⟩, 12, by decide, rfl, by decide⟩

/-! ## building an SA from a proposal -/

/-- `NewIKESAKey` up to the last `DecodeTransform`: the exact success condition.
The first transform of each type is the one consulted. -/
theorem selectIke_ok_iff (p : Proposal) (a : IkeAlgs) :
    selectIke (some p) = .ok a ↔
      p.dh.head?.bind decodeDh = some a.dh ∧ p.encr.head?.bind decodeEncr = some a.encr ∧
      p.integ ≠ [] ∧ p.integ.head?.bind decodeInteg = a.integ ∧
      p.prf.head?.bind decodePrf = some a.prf := by
  unfold selectIke
  cases a with | mk adh aen aig apf =>
  cases p with | mk pnum pproto pspi pencr pprf pinteg pdh pesn =>
  cases pdh with
  | nil => simp
  | cons d dr =>
  cases pencr with
  | nil => simp
  | cons e er =>
  cases pinteg with
  | nil => simp
  | cons i ir =>
  cases pprf with
  | nil => simp
  | cons f fr =>
  simp only [List.head?_cons, Option.bind_some]
  cases decodeDh d with
  | none => simp
  | some dh =>
  cases decodeEncr e with
  | none => simp
  | some en =>
  cases decodePrf f with
  | none => simp
  | some pf =>
    simp only [Res.ok.injEq, IkeAlgs.mk.injEq, Option.some.injEq]
    constructor
    · rintro ⟨h1, h2, h3, h4⟩; exact ⟨h1, h2, by simp, h3, h4⟩
    · rintro ⟨h1, h2, _, h3, h4⟩; exact ⟨h1, h2, h3, h4⟩

theorem selectIke_ne_fault (p : Option Proposal) : selectIke p ≠ .fault := by
  unfold selectIke
  cases p with
  | none => simp
  | some p =>
  cases p with | mk pnum pproto pspi pencr pprf pinteg pdh pesn =>
  cases pdh with
  | nil => simp
  | cons d dr =>
  cases pencr with
  | nil => simp
  | cons e er =>
  cases pinteg with
  | nil => simp
  | cons i ir =>
  cases pprf with
  | nil => simp
  | cons f fr =>
  cases h1 : decodeDh d <;> cases h2 : decodeEncr e <;> cases h3 : decodePrf f <;> simp [h1, h2, h3]

theorem dh_len_pos : ∀ d ∈ advertisedDh, d.len ≠ 0 := by decide

/-- C11, SA construction (IKE), exact success condition: the algorithm
selection of `NewIKESAKey(proposal, …, nonce, …)` succeeds with suite `s` iff
the first DH, encryption, integrity and PRF transform of the proposal each
decode to the corresponding member of `s` and the nonce is not empty; it never
panics, so in every other case it returns an error.  (Model boundary: the DH
computation and key derivation that follow are C09/C06; the random source is
assumed to work.) -/
theorem C11_sa_ike_iff (p : Proposal) (nonce : Bytes) (s : IkeSuite) :
    (newIkeSaKeyAlgs (some p) nonce = .ok s ↔
      p.dh.head?.bind decodeDh = some s.dh ∧ p.encr.head?.bind decodeEncr = some s.encr ∧
      p.integ.head?.bind decodeInteg = some s.integ ∧ p.prf.head?.bind decodePrf = some s.prf ∧
      nonce ≠ []) ∧
    newIkeSaKeyAlgs (some p) nonce ≠ .fault := by
  unfold newIkeSaKeyAlgs
  cases hsel : selectIke (some p) with
  | fault => exact absurd hsel (selectIke_ne_fault _)
  | err =>
    refine ⟨⟨fun h => by simp at h, fun ⟨h1, h2, h3, h4, _⟩ => ?_⟩, by simp⟩
    have hne : p.integ ≠ [] := by
      intro h0; rw [h0] at h3; simp at h3
    have := (selectIke_ok_iff p ⟨s.dh, s.encr, some s.integ, s.prf⟩).2 ⟨h1, h2, hne, h3, h4⟩
    rw [hsel] at this
    exact absurd this (by simp)
  | ok a =>
    obtain ⟨h1, h2, hne, h3, h4⟩ := (selectIke_ok_iff p a).1 hsel
    simp only [Res.bind_ok]
    have hlen : (zeros a.dh.len).length ≠ 0 := by
      rw [zeros_length]
      cases hd : p.dh with
      | nil => rw [hd] at h1; simp at h1
      | cons d dr =>
        rw [hd] at h1
        simp only [List.head?_cons, Option.bind_some] at h1
        exact dh_len_pos _ (C11_sound_dh d a.dh h1).2
    unfold keyGenChecks
    cases hai : a.integ with
    | none =>
      refine ⟨⟨fun h => by simp at h, fun ⟨_, _, h3', _, _⟩ => ?_⟩, by simp⟩
      rw [h3, hai] at h3'
      simp at h3'
    | some ig =>
      simp only
      by_cases hn : nonce.length = 0
      · rw [if_pos hn]
        refine ⟨⟨fun h => by simp at h, fun ⟨_, _, _, _, h5⟩ => ?_⟩, by simp⟩
        exact absurd (List.eq_nil_of_length_eq_zero hn) h5
      · rw [if_neg hn, if_neg hlen]
        refine ⟨?_, by simp⟩
        cases s with | mk sdh sen sig spf =>
        simp only [Res.ok.injEq, IkeSuite.mk.injEq, h1, h2, h3, h4, hai, Option.some.injEq]
        constructor
        · rintro ⟨a1, a2, a3, a4⟩
          exact ⟨a1, a2, a3, a4, fun h0 => hn (by rw [h0]; rfl)⟩
        · rintro ⟨a1, a2, a3, a4, _⟩
          exact ⟨a1, a2, a3, a4⟩

/-- C11, "building an SA from such a proposal fails with an error" (IKE): if the
consulted transform at ANY of the four positions is absent or decodes to
"unsupported" — unknown identifier, missing / foreign / TLV key-length
attribute, unsupported key size, by `C11_unknown` — then `NewIKESAKey` returns
an error; so does a nil proposal.  For the integrity position the error is
raised by the key generation (`selectIke` itself lets it pass: the nil check
after `integ.DecodeTransform` tests `EncrInfo`). -/
theorem C11_sa_error_ike (p : Proposal) (nonce : Bytes)
    (h : p.dh.head?.bind decodeDh = none ∨ p.encr.head?.bind decodeEncr = none ∨
         p.integ.head?.bind decodeInteg = none ∨ p.prf.head?.bind decodePrf = none) :
    newIkeSaKeyAlgs (some p) nonce = .err ∧ newIkeSaKeyAlgs none nonce = .err := by
  refine ⟨?_, rfl⟩
  cases hr : newIkeSaKeyAlgs (some p) nonce with
  | err => rfl
  | fault => exact absurd hr (C11_sa_ike_iff p nonce default).2
  | ok s =>
    obtain ⟨h1, h2, h3, h4, _⟩ := (C11_sa_ike_iff p nonce s).1.1 hr
    rcases h with h | h | h | h
    · rw [h] at h1; simp at h1
    · rw [h] at h2; simp at h2
    · rw [h] at h3; simp at h3
    · rw [h] at h4; simp at h4

/-- the integrity position in `selectIke` alone: the missing nil check -/
example : ∃ a, selectIke (some ⟨1, 1, [], [⟨1, 12, true, 1, 14, 128, []⟩], [⟨2, 5, false, 0, 0, 0, []⟩],
    [⟨3, 999, false, 0, 0, 0, []⟩], [⟨4, 14, false, 0, 0, 0, []⟩], []⟩) = .ok a ∧ a.integ = none :=
  ⟨_, rfl, rfl⟩

set_option maxRecDepth 100000 in
/-- non-vacuity: a single-choice proposal that succeeds, and the same with key length 129 failing -/
example :
    newIkeSaKeyAlgs (some ⟨1, 1, [], [⟨1, 12, true, 1, 14, 128, []⟩], [⟨2, 5, false, 0, 0, 0, []⟩],
      [⟨3, 12, false, 0, 0, 0, []⟩], [⟨4, 14, false, 0, 0, 0, []⟩], []⟩) [1]
      = .ok ⟨group14, ⟨12, 16⟩, ⟨12, 32, 16, 2⟩, ⟨5, 32, 32, 2⟩⟩ ∧
    newIkeSaKeyAlgs (some ⟨1, 1, [], [⟨1, 12, true, 1, 14, 129, []⟩], [⟨2, 5, false, 0, 0, 0, []⟩],
      [⟨3, 12, false, 0, 0, 0, []⟩], [⟨4, 14, false, 0, 0, 0, []⟩], []⟩) [1] = .err := by
  decide

/-- the DH choice of `NewChildSAKeyByProposal`: exactly one DH transform is
decoded (unsupported ⇒ error, `none`); zero or several mean "no PFS group" -/
def childDhChoice : List Transform → Option (Option DhInfo)
  | [d] => (decodeDh d).map some
  | _ => some none

/-- the integrity choice: none offered ⇒ error; exactly one is decoded;
several ⇒ left unset -/
def childIntegChoice : List Transform → Option (Option IntegKInfo)
  | [] => none
  | [i] => (decodeIntegChild i).map some
  | _ => some none

/-- C11, SA construction (Child SA), exact success condition of
`NewChildSAKeyByProposal`; it never panics, so otherwise it returns an error. -/
theorem C11_sa_child_iff (p : Proposal) (s : ChildSuite) :
    (selectChild (some p) = .ok s ↔
      p.encr.head?.bind decodeEncrChild = some s.encr ∧ childIntegChoice p.integ = some s.integ ∧
      p.esn.head?.map decodeEsn = some (.ok s.esn) ∧ childDhChoice p.dh = some s.dh) ∧
    selectChild (some p) ≠ .fault ∧ selectChild none = .err := by
  refine ⟨?_, ?_, rfl⟩
  all_goals
    unfold selectChild
    cases s with | mk sdh sen sig ses =>
    cases p with | mk pnum pproto pspi pencr pprf pinteg pdh pesn =>
    cases pencr with
    | nil => simp
    | cons e er =>
    cases pinteg with
    | nil => simp [childIntegChoice]
    | cons i ir =>
    cases pesn with
    | nil => simp
    | cons n nr =>
    have hnf := (C11_sound_esn n).1
    rcases pdh with _ | ⟨d, _ | ⟨d2, dr⟩⟩ <;> rcases ir with _ | ⟨j, jr⟩
    all_goals
      cases h1 : decodeEncrChild e <;> cases h2 : decodeIntegChild i <;> cases h3 : decodeEsn n
    all_goals first
      | exact absurd h3 hnf
      | (cases h4 : decodeDh d <;>
          simp [childDhChoice, childIntegChoice, h1, h2, h3, h4, and_comm, and_left_comm, and_assoc, eq_comm])
      | simp [childDhChoice, childIntegChoice, h1, h2, h3, and_comm, and_left_comm, and_assoc, eq_comm]

/-- C11, "building an SA from such a proposal fails with an error" (Child SA),
for single-choice proposals (one encryption, one integrity, one ESN transform,
at most one DH transform): an unsupported transform at ANY position ⇒ error. -/
theorem C11_sa_error_child (p : Proposal) (e i n : Transform)
    (he : p.encr = [e]) (hi : p.integ = [i]) (hn : p.esn = [n]) (hd : p.dh.length ≤ 1)
    (h : decodeEncrChild e = none ∨ decodeIntegChild i = none ∨ decodeEsn n = .err ∨
         (∃ d, p.dh = [d] ∧ decodeDh d = none)) :
    selectChild (some p) = .err := by
  cases hr : selectChild (some p) with
  | err => rfl
  | fault => exact absurd hr (C11_sa_child_iff p default).2.1
  | ok s =>
    obtain ⟨h1, h2, h3, h4⟩ := (C11_sa_child_iff p s).1.1 hr
    rw [he] at h1; rw [hi] at h2; rw [hn] at h3
    simp only [List.head?_cons, Option.bind_some, Option.map_some, Option.some.injEq] at h1 h3
    rcases h with h | h | h | ⟨d, hd1, hd2⟩
    · rw [h] at h1; simp at h1
    · simp [childIntegChoice, h] at h2
    · rw [h] at h3; simp at h3
    · rw [hd1] at h4; simp [childDhChoice, hd2] at h4

/-- … and a single-choice Child SA proposal whose transforms all decode succeeds with exactly those descriptors -/
theorem C11_sa_child_ok (p : Proposal) (e i n : Transform) (en : EncrKInfo) (ig : IntegKInfo) (es : EsnInfo)
    (he : p.encr = [e]) (hi : p.integ = [i]) (hn : p.esn = [n])
    (h1 : decodeEncrChild e = some en) (h2 : decodeIntegChild i = some ig) (h3 : decodeEsn n = .ok es) :
    (p.dh = [] → selectChild (some p) = .ok ⟨none, en, some ig, es⟩) ∧
    (∀ d dh, p.dh = [d] → decodeDh d = some dh → selectChild (some p) = .ok ⟨some dh, en, some ig, es⟩) := by
  constructor
  · intro hd
    rw [(C11_sa_child_iff p _).1]
    simp [he, hi, hn, hd, h1, h2, h3, childIntegChoice, childDhChoice]
  · intro d dh hd hdd
    rw [(C11_sa_child_iff p _).1]
    simp [he, hi, hn, hd, h1, h2, h3, hdd, childIntegChoice, childDhChoice]

example :
    selectChild (some ⟨1, 3, [1, 2, 3, 4], [⟨1, 12, true, 1, 14, 256, []⟩], [],
      [⟨3, 2, false, 0, 0, 0, []⟩], [], [⟨5, 0, false, 0, 0, 0, []⟩]⟩)
      = .ok ⟨none, ⟨12, 32⟩, some ⟨2, 20⟩, ⟨false⟩⟩ ∧
    selectChild (some ⟨1, 3, [1, 2, 3, 4], [⟨1, 12, true, 1, 14, 256, []⟩], [],
      [⟨3, 2, false, 0, 0, 0, []⟩], [], [⟨5, 2, false, 0, 0, 0, []⟩]⟩) = .err := by
  decide

/-! ## `ToProposal` round trip -/

/-- what `IKESAKey.ToProposal` returns once the encryption transform `e` is built -/
def ikeProp (e : Transform) (s : IkeSuite) : Proposal :=
  { num := 0, proto := Facts.protoIKE, spi := [], encr := [e], prf := [prfToTransform s.prf],
    integ := [integToTransform s.integ], dh := [dhToTransform s.dh], esn := [] }

/-- what `ChildSAKey.ToProposal` returns once the encryption transform `e` is built -/
def childProp (e : Transform) (sdh : Option DhInfo) (sig : Option IntegKInfo) (ses : EsnInfo) : Proposal :=
  { num := 0, proto := Facts.protoESP, spi := [], encr := [e], prf := [],
    integ := (match sig with | some i => [integChildToTransform i] | none => []),
    dh := (match sdh with | some d => [dhToTransform d] | none => []),
    esn := [esnToTransform ses] }

/-- C11, proposal round trip (IKE SA): for every suite made of advertised
algorithms (3 × 3 × 3 × 2 combinations — quantified, not enumerated),
`IKESAKey.ToProposal` succeeds with a single-choice IKE proposal that
(1) `NewIKESAKey` maps back to exactly the same four descriptors,
(2) lies in the encodable domain, is accepted by the SA encoder and is returned
unchanged by the SA decoder — so (1) also holds after the wire. -/
theorem C11_proposal_roundtrip_ike (s : IkeSuite) (hdh : s.dh ∈ advertisedDh) (hen : s.encr ∈ advertisedEncr)
    (hig : s.integ ∈ advertisedInteg) (hpf : s.prf ∈ advertisedPrf) :
    ∃ p, ikeToProposal s = .ok p ∧ p.proto = Facts.protoIKE ∧
      p.encr.length = 1 ∧ p.prf.length = 1 ∧ p.integ.length = 1 ∧ p.dh.length = 1 ∧ p.esn = [] ∧
      selectIke (some p) = .ok ⟨s.dh, s.encr, some s.integ, s.prf⟩ ∧
      (∀ nonce, nonce ≠ [] → newIkeSaKeyAlgs (some p) nonce = .ok s) ∧
      p.Dom ∧
      ∃ bs, marshalSA [p] = .ok bs ∧ unmarshalSA bs = .ok (.sa [p]) ∧
        ∀ q, unmarshalSA bs = .ok (.sa [q]) → selectIke (some q) = .ok ⟨s.dh, s.encr, some s.integ, s.prf⟩ := by
  obtain ⟨e, he, hett, hed, hedom, _⟩ := C11_roundtrip_encr s.encr hen
  have hee := encrToTransform_ok he
  have hsel : selectIke (some (ikeProp e s)) = .ok ⟨s.dh, s.encr, some s.integ, s.prf⟩ := by
    rw [selectIke_ok_iff]
    simp [ikeProp, hed, prf_table_rt _ hpf, integ_table_rt _ hig, dh_table_rt _ hdh]
  have hdom : Proposal.Dom (ikeProp e s) := by
    unfold Proposal.Dom ikeProp
    simp only [List.mem_singleton, forall_eq, List.not_mem_nil, false_imp_iff, implies_true, and_true]
    exact ⟨⟨hett, hedom⟩, ⟨rfl, dom_noAttr _ _⟩, ⟨rfl, dom_noAttr _ _⟩, ⟨rfl, dom_noAttr _ _⟩⟩
  have hm : ∃ bs, marshalSA [ikeProp e s] = .ok bs := by
    rw [hee]
    simp [ikeProp, marshalSA, marshalProposals, marshalProposal, Proposal.transforms, marshalTransforms,
      marshal_tv, marshal_noAttr, prfToTransform, integToTransform, dhToTransform]
  obtain ⟨bs, hbs⟩ := hm
  refine ⟨_, by simp [ikeToProposal, he, ikeProp], rfl, rfl, rfl, rfl, rfl, rfl, hsel, ?_, hdom, bs, hbs, ?_, ?_⟩
  · intro nonce hn
    rw [(C11_sa_ike_iff _ nonce s).1]
    simp [ikeProp, hed, prf_table_rt _ hpf, integ_table_rt _ hig, dh_table_rt _ hdh, hn]
  · exact rt_SA _ bs (by simpa using hdom) hbs
  · intro q hq
    rw [rt_SA _ bs (by simpa using hdom) hbs] at hq
    simp only [Res.ok.injEq, Payload.sa.injEq, List.cons.injEq, and_true] at hq
    rw [← hq]
    exact hsel

/-- non-vacuity: one of the 54 suites and its proposal -/
example : ikeToProposal ⟨group14, ⟨12, 32⟩, ⟨12, 32, 16, 2⟩, ⟨5, 32, 32, 2⟩⟩ =
    .ok ⟨0, 1, [], [⟨1, 12, true, 1, 14, 256, []⟩], [⟨2, 5, false, 0, 0, 0, []⟩],
      [⟨3, 12, false, 0, 0, 0, []⟩], [⟨4, 14, false, 0, 0, 0, []⟩], []⟩ := by decide

theorem esn_all (e : EsnInfo) : e ∈ advertisedEsn := by
  cases e with | mk b => cases b <;> simp [advertisedEsn]

/-- C11, proposal round trip (Child SA): for every Child SA descriptor set made
of advertised algorithms (DH group and integrity optional, both ESN values),
`ChildSAKey.ToProposal` succeeds with an ESP proposal in the encodable domain
that survives the SA codec; `NewChildSAKeyByProposal` maps it back to the same
descriptors when an integrity algorithm is set, and rejects it when none is
(the function insists on at least one integrity transform). -/
theorem C11_proposal_roundtrip_child (s : ChildSuite) (hen : s.encr ∈ advertisedEncrChild)
    (hig : ∀ i, s.integ = some i → i ∈ advertisedIntegChild) (hdh : ∀ d, s.dh = some d → d ∈ advertisedDh) :
    ∃ p, childToProposal s = .ok p ∧ p.proto = Facts.protoESP ∧
      p.encr.length = 1 ∧ p.prf = [] ∧ p.integ.length ≤ 1 ∧ p.dh.length ≤ 1 ∧ p.esn.length = 1 ∧
      (s.integ.isSome → selectChild (some p) = .ok s) ∧
      (s.integ = none → selectChild (some p) = .err) ∧
      p.Dom ∧
      ∃ bs, marshalSA [p] = .ok bs ∧ unmarshalSA bs = .ok (.sa [p]) := by
  obtain ⟨e, he, hett, hed, hedom, _⟩ := C11_roundtrip_encrChild s.encr hen
  have hee := encrChildToTransform_ok he
  have hesn := esn_table_rt s.esn (esn_all _)
  cases s with | mk sdh sen sig ses =>
  simp only at he hed hee hig hdh hesn
  simp only [childToProposal, he, Res.bind_ok]
  refine ⟨_, rfl, rfl, rfl, rfl, ?_, ?_, rfl, ?_, ?_, ?_, ?_⟩
  · cases sig <;> simp
  · cases sdh <;> simp
  · intro hsome
    cases sig with
    | none => simp at hsome
    | some ig =>
      have h2 := integChild_table_rt ig (hig ig rfl)
      rw [(C11_sa_child_iff _ _).1]
      cases sdh with
      | none => simp [hed, h2, hesn, childIntegChoice, childDhChoice]
      | some d => simp [hed, h2, hesn, childIntegChoice, childDhChoice, dh_table_rt d (hdh d rfl)]
  · intro hnone
    subst hnone
    simp [selectChild]
  · unfold Proposal.Dom
    refine ⟨?_, by simp, ?_, ?_, ?_⟩
    · simp only [List.mem_singleton, forall_eq]; exact ⟨hett, hedom⟩
    · cases sig <;> simp [integChildToTransform, mk_noAttr, dom_plain]
    · cases sdh <;> simp [dhToTransform, mk_noAttr, dom_plain]
    · simp only [List.mem_singleton, forall_eq]; exact ⟨rfl, dom_noAttr _ _⟩
  · have hm : ∃ bs, marshalSA [childProp e sdh sig ses] = .ok bs := by
      rw [hee]
      cases sig <;> cases sdh <;>
        simp [childProp, marshalSA, marshalProposals, marshalProposal, Proposal.transforms, marshalTransforms,
          marshal_tv, marshal_noAttr, integChildToTransform, dhToTransform, esnToTransform]
    obtain ⟨bs, hbs⟩ := hm
    unfold childProp at hbs
    refine ⟨bs, hbs, rt_SA _ bs ?_ hbs⟩
    simp only [List.mem_singleton, forall_eq]
    unfold Proposal.Dom
    refine ⟨?_, by simp, ?_, ?_, ?_⟩
    · simp only [List.mem_singleton, forall_eq]; exact ⟨hett, hedom⟩
    · cases sig <;> simp [integChildToTransform, mk_noAttr, dom_plain]
    · cases sdh <;> simp [dhToTransform, mk_noAttr, dom_plain]
    · simp only [List.mem_singleton, forall_eq]; exact ⟨rfl, dom_noAttr _ _⟩

/-- non-vacuity: with and without PFS group / integrity -/
example : childToProposal ⟨some group2, ⟨12, 16⟩, some ⟨12, 32⟩, ⟨true⟩⟩ =
    .ok ⟨0, 3, [], [⟨1, 12, true, 1, 14, 128, []⟩], [], [⟨3, 12, false, 0, 0, 0, []⟩],
      [⟨4, 2, false, 0, 0, 0, []⟩], [⟨5, 1, false, 0, 0, 0, []⟩]⟩ ∧
    (∃ p, childToProposal ⟨none, ⟨12, 16⟩, none, ⟨false⟩⟩ = .ok p ∧ selectChild (some p) = .err) := by
  refine ⟨by decide, _, rfl, by decide⟩

end Ike
