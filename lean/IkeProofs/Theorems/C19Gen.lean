import IkeProofs.Refine.Build
import IkeProofs.Refine.Header

/-! # C19 over the code as translated from the current source (`tools/go2lean`)

The refinement theorems of every builder of `message/build.go` that the translator handles are in
`IkeProofs/Refine/Build.lean` (`B_eq`: the exact result for every container and argument; `B_refines`:
agreement with the model's builder; `…_spec`: agreement with the TS 24.502 layouts).  Restated here
for the constructors the property names first. -/

namespace Ike
open Ike.Refine Ike.Gen.message

theorem C19_gen_NewHeader (i r : UInt64) (ex : UInt8) (resp init : Bool) (mid : UInt32) (np : UInt8) (pb : Bytes) :
    (NewHeader i r ex resp init mid np pb).map GenAbs.absHeader = Res.ok (newHeader i r ex resp init mid np pb) :=
  NewHeader_refines i r ex resp init mid np pb

theorem C19_gen_accessors (h : Gen.message.IKEHeader) :
    IKEHeader.IsResponse h = Res.ok (GenAbs.absHeader h).isResponse ∧
    IKEHeader.IsInitiator h = Res.ok (GenAbs.absHeader h).isInitiator :=
  ⟨IsResponse_refines h, IsInitiator_refines h⟩

theorem C19_gen_BuildNotification (c : List IKEPayload) (ps : List Payload) (hc : GenAbs.absPayloads c = some ps)
    (proto : UInt8) (ntype : UInt16) (spi data : Bytes) :
    (IKEPayloadContainer.BuildNotification c proto ntype spi data).map GenAbs.absPayloads =
      .ok (some (Build.buildNotification ps proto ntype spi data)) :=
  BuildNotification_refines c ps hc proto ntype spi data

end Ike
