import IkeProofs.Refine.Build
import IkeProofs.Refine.BuildEap5G
import IkeProofs.Refine.Header

/-! # C19 over the code as translated from the current source (`tools/go2lean`)

The refinement theorems of every builder of `message/build.go` that the translator handles are in
`IkeProofs/Refine/Build.lean` (`B_eq`: the exact result for every container and argument; `B_refines`:
agreement with the model's builder; `…_spec`: agreement with the TS 24.502 layouts).  Restated here
for the constructors the property names first. -/

namespace Ike
open Ike.Refine Ike.Gen.message

theorem C19_gen_NewHeader (i r : UInt64) (ex : UInt8) (resp init : Bool) (mid : UInt32) (np : UInt8) (pb : Bytes) :
    (NewHeader i r ex resp init mid np pb).map GenAbs.absHeader = Res.ok (newHeader i r ex resp init mid np pb) :=
  NewHeader_refines i r ex resp init mid np pb

theorem C19_gen_accessors (h : Gen.message.IKEHeader) :
    IKEHeader.IsResponse h = Res.ok (GenAbs.absHeader h).isResponse ∧
    IKEHeader.IsInitiator h = Res.ok (GenAbs.absHeader h).isInitiator :=
  ⟨IsResponse_refines h, IsInitiator_refines h⟩

theorem C19_gen_BuildNotification (c : List IKEPayload) (ps : List Payload) (hc : GenAbs.absPayloads c = some ps)
    (proto : UInt8) (ntype : UInt16) (spi data : Bytes) :
    (IKEPayloadContainer.BuildNotification c proto ntype spi data).map GenAbs.absPayloads =
      .ok (some (Build.buildNotification ps proto ntype spi data)) :=
  BuildNotification_refines c ps hc proto ntype spi data

/-- `BuildEAP5GStart` as translated from `message/build.go` IS the model's builder (whose output `C19_eap5gStart`
shows to be the TS 24.502 EAP-5G Start packet): ONE EAP Request payload appended, nothing else touched -/
theorem C19_gen_BuildEAP5GStart (c : List IKEPayload) (ps : List Payload) (hc : GenAbs.absPayloads c = some ps)
    (ident : UInt8) :
    (IKEPayloadContainer.BuildEAP5GStart c ident).map GenAbs.absPayloads =
      .ok (some (Build.buildEAP5GStart ps ident)) :=
  BuildEAP5GStart_refines c ps hc ident

/-- `BuildEAP5GNAS` as translated IS the model's builder, for EVERY NAS PDU: refused (an error) exactly for an
empty PDU and for more than 65535 octets, otherwise one EAP Request / Expanded (10415, 3) payload whose vendor data is
message id 2, spare 0, the 16-bit length and the PDU octets unchanged (`C19_eap5gNas_layout`: the TS 24.502 packet) -/
theorem C19_gen_BuildEAP5GNAS (c : List IKEPayload) (ps : List Payload) (hc : GenAbs.absPayloads c = some ps)
    (ident : UInt8) (nas : Bytes) :
    (IKEPayloadContainer.BuildEAP5GNAS c ident nas).map GenAbs.absPayloads =
      (Build.buildEAP5GNAS ps ident nas).map some :=
  BuildEAP5GNAS_refines c ps hc ident nas

/-- the same in closed form over the generated code alone -/
theorem C19_gen_BuildEAP5GNAS_closed (c : List IKEPayload) (ident : UInt8) (nas : Bytes) :
    IKEPayloadContainer.BuildEAP5GNAS c ident nas =
      if nas.length = 0 then .err else if nas.length > 65535 then .err else
      .ok (c ++ [.PayloadEap { EAP := ⟨1, ident,
        .expanded 10415 3 ([2, 0] ++ put16 (UInt16.ofNat nas.length) ++ nas)⟩ }]) :=
  BuildEAP5GNAS_eq c ident nas

end Ike
