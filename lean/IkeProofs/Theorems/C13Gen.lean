import IkeProofs.Refine.Transfer
import IkeProofs.Theorems.C13

/-! # C13 over the code as translated from the current source (`tools/go2lean`) -/

namespace Ike
open Ike.Refine Ike.Gen.message Ike.Spec

/-- the generated chain walker skips non-critical unsupported payloads, rejects critical ones and
ignores the critical flag on supported ones: any number, position and size of insertions -/
theorem C13_gen_chain (items : List Item) (bs : Bytes) (hd : ItemsDom items) (h : encodeItems items = .ok bs) :
    genDecodeChain (firstItemType items) bs =
      bif anyCriticalUnknown items then .err else .ok (some (knownPayloads items)) := by
  rw [genDecodeChain_eq]
  cases hc : anyCriticalUnknown items
  · rw [C13_skip items bs hd hc h]; rfl
  · rw [C13_reject items bs hd hc h]; rfl

/-- the same through `IKEMessage.Decode` -/
theorem C13_gen_message (hdr : Header) (items : List Item) (pb bs : Bytes) (hd : ItemsDom items)
    (hmaj : hdr.major.toNat < 16) (hmin : hdr.minor.toNat < 16)
    (hi : encodeItems items = .ok pb)
    (hm : marshalHeader { hdr with next := firstItemType items, payloadBytes := pb } = .ok bs) :
    genDecode bs = bif anyCriticalUnknown items then .err
      else .ok (some ⟨{ hdr with next := firstItemType items, payloadBytes := pb }, knownPayloads items⟩) := by
  rw [genDecode_eq, C13_message hdr items pb bs hd hmaj hmin hi hm]
  cases anyCriticalUnknown items <;> rfl

end Ike
