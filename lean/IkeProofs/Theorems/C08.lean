import IkeProofs.Lemmas.Keys

/-!
# C08 — Child SA keying material follows RFC 7296 §2.17

`Spec.keymat` (IkeModel/Spec/Keys.lean) is the RFC: KEYMAT = prf+(SK_d, Ni|Nr),
cut into encr i→r, integ i→r, encr r→i, integ r→i.  The code runs `lib.PrfPlus`
on the SA's long-lived `Prf_d` object, so SK_d is that object's key; the
theorems are stated for `Prf_d` in ANY state (any pending buffer — that is what
makes the history theorems go through) and specialised to `SK_d` for SA objects
in which `Prf_d` is keyed with the stored `SK_d` (`C07_objects`: every object
produced by `GenerateKeyForIKESA`).

Two models of `GenerateKeyForChildSA` exist: `childKeys` (ChildOps.lean, returns
the four keys; the one `saStep` uses) and `genKeyForChildSA` (Keys.lean, on a
`ChildSAKey` object with possibly-nil integrity descriptor).  They are proved
equal (`C08_models_agree`); the property theorems are given for both.
-/

namespace Ike

/-- C08, KEYMAT.  For every state of the SA's `Prf_d` object, every nonce string
(including the empty one) and all key lengths: `GenerateKeyForChildSA` refuses
when no key octets are requested and otherwise returns — in the order
encr i→r, integ i→r, encr r→i, integ r→i, with lengths
(encrLen, integLen, encrLen, integLen) — the consecutive slices of
prf+(K, Ni|Nr), K the key of `Prf_d`. -/
theorem C08_keymat (P : Prims) (hP : P.Lawful) (sa : SAKey) (encrLen integLen : Nat) (nonce : Bytes)
    (hL : 0 < P.macLen sa.prf_d.alg) :
    (childKeys P sa encrLen integLen nonce).2 =
      if (encrLen + integLen) * 2 = 0 then .err
      else .ok (ChildKeys.ofSpec
        (Spec.keymat (P.mac sa.prf_d.alg) (P.macLen sa.prf_d.alg) sa.prf_d.key nonce encrLen integLen)) :=
  childKeys_spec P hP sa encrLen integLen nonce hL

/-- C08, KEYMAT from SK_d.  On an SA object whose `Prf_d` is the PRF keyed with the
stored SK_d (buffer arbitrary), with at least one key octet requested, the four
keys are field by field those of `Spec.keymat prf SK_d (Ni|Nr)`. -/
theorem C08_keymat_sk_d (P : Prims) (hP : P.Lawful) (sa : SAKey) (encrLen integLen : Nat) (nonce : Bytes)
    (ha : sa.prf_d.alg = sa.prfInfo.hash) (hk : sa.prf_d.key = sa.sk_d)
    (hL : 0 < P.macLen sa.prfInfo.hash) (hpos : 0 < encrLen + integLen) :
    ∃ k, (childKeys P sa encrLen integLen nonce).2 = .ok k ∧
      let spec := Spec.keymat (P.mac sa.prfInfo.hash) (P.macLen sa.prfInfo.hash) sa.sk_d nonce encrLen integLen
      k.encr_i2r = spec.ei ∧ k.integ_i2r = spec.ai ∧ k.encr_r2i = spec.er ∧ k.integ_r2i = spec.ar := by
  refine ⟨ChildKeys.ofSpec
    (Spec.keymat (P.mac sa.prfInfo.hash) (P.macLen sa.prfInfo.hash) sa.sk_d nonce encrLen integLen),
    ?_, rfl, rfl, rfl, rfl⟩
  rw [C08_keymat P hP sa encrLen integLen nonce (by rw [ha]; exact hL), if_neg (by omega), ha, hk]

/-- C08, the lengths: each key has exactly its descriptor's length (so the four
slices tile the first `2·(encrLen+integLen)` octets of the stream; with
`integLen = 0` both integrity keys are empty). -/
theorem C08_keymat_lengths (prf : Spec.PRF) (L : Nat) (hlen : ∀ k d, (prf k d).length = L) (hL : 0 < L)
    (skD nonce : Bytes) (encrLen integLen : Nat) :
    let k := Spec.keymat prf L skD nonce encrLen integLen
    k.ei.length = encrLen ∧ k.ai.length = integLen ∧ k.er.length = encrLen ∧ k.ar.length = integLen
      ∧ k.ei ++ k.ai ++ k.er ++ k.ar = Spec.prfPlusN prf L skD nonce (2 * (encrLen + integLen)) := by
  intro k
  have h := prfPlusN_length prf L hlen hL skD nonce (2 * (encrLen + integLen))
  simp only [k, Spec.keymat]
  generalize Spec.prfPlusN prf L skD nonce (2 * (encrLen + integLen)) = s at h
  refine ⟨by rw [List.length_take]; omega, by rw [List.length_take, List.length_drop]; omega,
    by rw [List.length_take, List.length_drop]; omega, by rw [List.length_take, List.length_drop]; omega, ?_⟩
  have e1 : List.drop (encrLen + integLen) s = List.drop integLen (List.drop encrLen s) := by
    rw [List.drop_drop]
  have e2 : List.drop (encrLen + integLen + encrLen) s
      = List.drop encrLen (List.drop integLen (List.drop encrLen s)) := by
    rw [List.drop_drop, List.drop_drop, Nat.add_assoc]
  have e3 : List.take integLen (List.drop encrLen (List.drop integLen (List.drop encrLen s)))
      = List.drop encrLen (List.drop integLen (List.drop encrLen s)) := by
    apply List.take_of_length_le
    simp only [List.length_drop]; omega
  rw [e2, e3, e1, List.append_assoc, List.append_assoc, List.take_append_drop, List.take_append_drop,
    List.take_append_drop]

/-- C08, the two models of `GenerateKeyForChildSA` agree for all primitives and
inputs: same SA object afterwards, same outcome, the four keys appended to the
`ChildSAKey` object's (normally empty) fields; an absent integrity transform
(`integKeyLen = none`) counts as length 0. -/
theorem C08_models_agree (P : Prims) (sa : SAKey) (c : ChildSAKey) (nonce : Bytes) :
    genKeyForChildSA P sa c nonce =
      ((childKeys P sa c.encrKeyLen c.integLen nonce).1,
       (childKeys P sa c.encrKeyLen c.integLen nonce).2 >>= fun k => .ok (c.appendKeys k)) :=
  genKeyForChildSA_eq_childKeys P sa c nonce

/-- C08, KEYMAT for the `ChildSAKey` object model: a newly allocated object with
encryption key length `lE` and integrity descriptor `lA?` (nil ⇒ length 0)
receives exactly the RFC slices. -/
theorem C08_keymat_obj (P : Prims) (hP : P.Lawful) (sa : SAKey) (lE : Nat) (lA? : Option Nat) (nonce : Bytes)
    (hL : 0 < P.macLen sa.prf_d.alg) (hpos : 0 < lE + lA?.getD 0) :
    let spec := Spec.keymat (P.mac sa.prf_d.alg) (P.macLen sa.prf_d.alg) sa.prf_d.key nonce lE (lA?.getD 0)
    (genKeyForChildSA P sa { encrKeyLen := lE, integKeyLen := lA? } nonce).2 =
      .ok { encrKeyLen := lE, integKeyLen := lA?,
            i2rEncr := spec.ei, i2rInteg := spec.ai, r2iEncr := spec.er, r2iInteg := spec.ar } := by
  intro spec
  have hI : ({ encrKeyLen := lE, integKeyLen := lA? } : ChildSAKey).integLen = lA?.getD 0 := by
    cases lA? <;> rfl
  rw [C08_models_agree]
  simp only [hI]
  rw [C08_keymat P hP sa lE (lA?.getD 0) nonce hL, if_neg (by omega)]
  rfl

/-- C08, history independence (full form).  Take ANY history `ops` of operations
on one IKE SA object — Child SA derivations interleaved with `EncodeEncrypt` and
`DecodeDecrypt` calls, any length — started in state `sa`.  If the `i`-th
operation is a Child SA derivation, its outcome in the history equals its
outcome on any object `sa0` whose `Prf_d` has the same algorithm and key — in
particular a freshly constructed copy holding the same SK_d, and `sa` itself:
the first and the hundredth derivation get the same keys. -/
theorem C08_history (P : Prims) (hP : P.Lawful) (sa sa0 : SAKey)
    (ha : sa.prf_d.alg = sa0.prf_d.alg) (hk : sa.prf_d.key = sa0.prf_d.key)
    (hL : 0 < P.macLen sa0.prf_d.alg)
    (ops : List SaOp) (i : Nat) (encrLen integLen : Nat) (nonce : Bytes)
    (hop : ops[i]? = some (.child encrLen integLen nonce)) :
    (saRun P sa ops)[i]? = some (saStep P sa0 (.child encrLen integLen nonce)).2 :=
  saRun_child_at P hP sa0 hL ops sa i encrLen integLen nonce ha hk hop

/-- C08, history independence for a sequence of derivations: the list of outcomes
of the derivations `ds` (key lengths and nonces) performed one after the other on
one object equals the list of outcomes of each of them on the fresh object. -/
theorem C08_history_children (P : Prims) (hP : P.Lawful) (sa sa0 : SAKey)
    (ha : sa.prf_d.alg = sa0.prf_d.alg) (hk : sa.prf_d.key = sa0.prf_d.key)
    (hL : 0 < P.macLen sa0.prf_d.alg) (ds : List (Nat × Nat × Bytes)) :
    saRun P sa (ds.map fun d => .child d.1 d.2.1 d.2.2)
      = saRunFresh P sa0 (ds.map fun d => .child d.1 d.2.1 d.2.2) :=
  saRun_children P hP sa0 hL ds sa ha hk

/-- C08, the same for the `ChildSAKey` object model (`childRun` threads the IKE SA
through successive `genKeyForChildSA` calls). -/
theorem C08_history_obj (P : Prims) (hP : P.Lawful) (sa sa0 : SAKey)
    (ha : sa.prf_d.alg = sa0.prf_d.alg) (hk : sa.prf_d.key = sa0.prf_d.key)
    (hL : 0 < P.macLen sa0.prf_d.alg) (ds : List (ChildSAKey × Bytes)) :
    childRun P sa ds = ds.map fun d => (genKeyForChildSA P sa0 d.1 d.2).2 :=
  childRun_fresh P hP sa0 hL ds sa ha hk

/-- C08, what makes the above work: a derivation changes nothing of the SA object
but `Prf_d`, and of `Prf_d` neither algorithm nor key (only the pending buffer,
which the next `PrfPlus` resets before writing). -/
theorem C08_state (P : Prims) (hP : P.Lawful) (sa : SAKey) (encrLen integLen : Nat) (nonce : Bytes)
    (hL : 0 < P.macLen sa.prf_d.alg) :
    let s := (childKeys P sa encrLen integLen nonce).1
    s = { sa with prf_d := s.prf_d } ∧ s.prf_d.alg = sa.prf_d.alg ∧ s.prf_d.key = sa.prf_d.key := by
  intro s
  have h1 : s = _ := childKeys_state P sa encrLen integLen nonce
  have h2 := childKeys_prf_d P hP sa encrLen integLen nonce hL
  exact ⟨by rw [h1], h2.1, h2.2⟩

/-! ### non-vacuity -/

/-- an SA object with a dirty `Prf_d` buffer meeting the hypotheses of `C08_keymat_sk_d`;
AES-128 without integrity, empty nonce: succeeds -/
example :
    let sa : SAKey := { (SAKey.fresh ⟨12, 32⟩ ⟨12, 32, 16, 2⟩ ⟨2, 20, 20, 1⟩ [1] [2] [3] [4] [5] [6] [7]) with
                          prf_d := ⟨1, [1], [9, 9]⟩ }
    sa.prf_d.alg = sa.prfInfo.hash ∧ sa.prf_d.key = sa.sk_d ∧ 0 < Prims.toy.macLen sa.prfInfo.hash
      ∧ 0 < 16 + 0 ∧ (childKeys Prims.toy sa 16 0 []).2.isOk = true := by
  decide +kernel

/-- a history mixing the three kinds of operations whose third element is a derivation -/
example : ([SaOp.child 16 12 [1], .unprotect true false [0], .child 32 16 []] : List SaOp)[2]?
    = some (.child 32 16 []) := rfl

/-- `C08_keymat_obj`: absent integrity is length 0 and the hypothesis is satisfiable -/
example : 0 < 24 + (none : Option Nat).getD 0 ∧ 0 < 16 + (some 20 : Option Nat).getD 0 := by decide

end Ike
