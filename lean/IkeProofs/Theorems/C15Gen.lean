import IkeProofs.RefineEap.Crypto
import IkeProofs.Theorems.C15

/-! # C15 over the code as translated from the current source (`eap.(*EAP).CalcEapAkaPrimeAtMAC`) -/

namespace Ike
open Ike.RefineEap

/-- the generated `CalcEapAkaPrimeAtMAC` is the model's, for every primitive whose SHA-256 HMAC has at
least the 16 octets the code slices off (every lawful `P` with `16 ≤ macLen 2`, in particular `Prims.real`) -/
theorem C15_gen_mac_is_model (P : Prims) (hP : P.Lawful) (h16 : 16 ≤ P.macLen 2)
    (e : Gen.eap.EAP) (hwf : EapWF e) (key : Bytes) :
    (Gen.eap.EAP.CalcEapAkaPrimeAtMAC P e key).map (fun r => (GenAbs.absEap r.1, r.2)) =
      (match calcEapAkaPrimeAtMAC P (GenAbs.absEap e) key with
       | (e', .ok m) => Res.ok (e', m) | (_, .err) => Res.err | (_, .fault) => Res.fault) :=
  CalcEapAkaPrimeAtMAC_refines_lawful P hP h16 e hwf key

/-- the packet after the call keeps the attribute-map invariant -/
theorem C15_gen_mac_keeps_invariant (P : Prims) (e : Gen.eap.EAP) (hwf : EapWF e) (key : Bytes) (e' : Gen.eap.EAP) (m : Bytes)
    (h : Gen.eap.EAP.CalcEapAkaPrimeAtMAC P e key = .ok (e', m)) : EapWF e' :=
  CalcEapAkaPrimeAtMAC_wf P e hwf key e' m h

/-- definition of the code on a generated EAP-AKA' packet: HMAC-SHA-256 over the packet with AT_MAC zeroed, first 16 octets -/
theorem C15_gen_def (P : Prims) (hP : P.Lawful) (h16 : 16 ≤ P.macLen 2) (e : Gen.eap.EAP) (hwf : EapWF e)
    (a : Aka) (key : Bytes) (h : (GenAbs.absEap e).data = .aka a) :
    ∃ a0 bs, akaSetAttr a Facts.atMac (zeros 16) = .ok a0 ∧
      marshalEap { GenAbs.absEap e with data := .aka a0 } = .ok bs ∧
      (Gen.eap.EAP.CalcEapAkaPrimeAtMAC P e key).map (fun r => (GenAbs.absEap r.1, r.2)) =
        .ok ({ GenAbs.absEap e with data := .aka a0 }, (P.mac 2 key bs).take 16) := by
  obtain ⟨a0, bs, h1, _, _, h4, h5⟩ := C15_def P (GenAbs.absEap e) a key h
  refine ⟨a0, bs, h1, h4, ?_⟩
  rw [C15_gen_mac_is_model P hP h16 e hwf key, h5]

end Ike
