import IkeModel.Conc
import IkeModel.Generated.Footprint

/-!
# C18 — independent SAs and messages can be processed concurrently (partial)

What is logic is proved; what lives in the Go runtime is named.

(i)  Over the footprint regenerated from /repo's current source by
     `tools/extract` on every run: the library keeps no mutable state outside
     the objects passed in — every write to (or escape of) a package-level
     variable happens in an `init` function, except two reviewed read-only
     escapes, and no method of a shared registry descriptor writes through its
     receiver.  These are `decide` over generated data: a change of the code
     that adds a package-level write, a shared scratch buffer, a cache, or
     mutable state in a descriptor changes the data and the theorem fails.

(ii) `C18_noninterference`: in the interleaving model (threads own disjoint
     states; operations are functions of read-only environment, own state and
     their own random draws), for EVERY schedule the state and outputs of each
     thread are those of the thread running alone for as many steps as it was
     scheduled — by induction over the schedule, no bound on threads or steps.

Not exhibited by any model here (trusted): the Go memory model, the scheduler,
the thread-safety of crypto/rand, hmac.New, aes.NewCipher and read-only
math/big use.  The `-race` harness run is the supporting oracle for that part.
-/

namespace Ike

open Footprint

/-- escapes of package-level variables outside `init` that were reviewed as read-only:
`rand.Int(rand.Reader, &randomNumberMaximum)` and `number.Cmp(&randomNumberMinimum)` -/
def c18ReadOnlyEscapes : List (String × String × String × String) :=
  [("security", "randomNumberMaximum", "GenerateRandomNumber", "addr"),
   ("security", "randomNumberMinimum", "GenerateRandomNumber", "addr")]

/-- every write to, address-of, slicing of, pointer-method call on, or reference-passing of a
package-level variable occurs in an `init` function, or is one of the two reviewed read-only escapes.
Also admitted (neither occurs on the pinned tree): a write inside the function literal handed to
`Do` of a package-level `sync.Once` (`"once-init"`: executed once, before any reader gets past the
Once — race-free lazy initialisation of a table), and the use of a package-level `sync.Once` /
`sync.Mutex` / `sync.RWMutex` itself (`"sync-primitive"`: a lock holds no data; what it protects is
still subject to this theorem). -/
theorem C18_globals_init_only :
    ∀ u ∈ globalUses, u.2.2.1 = "init" ∨ u.2.2.1 = "once-init" ∨ u.2.2.2 = "sync-primitive" ∨ u ∈ c18ReadOnlyEscapes := by decide

/-- no method of a type whose values sit in the shared registries writes through its receiver -/
theorem C18_descriptors_immutable : descriptorWrites = [] := by decide

open Conc

theorem System.step_other {σ ω : Type} (sys : System σ ω) (i j : Nat) (h : j ≠ i) :
    (sys.step i) j = sys j := by simp [System.step, h]

theorem System.step_self {σ ω : Type} (sys : System σ ω) (i : Nat) :
    (sys.step i) i = (sys i).step := by simp [System.step]

theorem Thread.steps_succ {σ ω : Type} (t : Thread σ ω) (n : Nat) :
    t.steps (n + 1) = (t.steps n).step := by
  induction n generalizing t with
  | zero => rfl
  | succ n ih => rw [Thread.steps, ih]; rfl

/-- **schedule non-interference**: whatever the schedule, thread `j` ends in the state, with the
outputs, it reaches running alone for as many steps as the schedule gave it. -/
theorem C18_noninterference {σ ω : Type} (sys : System σ ω) (sched : List Nat) (j : Nat) :
    (sys.run sched) j = (sys j).steps (sched.count j) := by
  induction sched generalizing sys with
  | nil => rfl
  | cons i rest ih =>
    show (System.run (sys.step i) rest) j = _
    rw [ih]
    by_cases h : j = i
    · subst h
      rw [System.step_self, List.count_cons_self]
      rfl
    · rw [System.step_other _ _ _ h, List.count_cons_of_ne (fun e => h e.symm)]

/-- in particular two schedules that give a thread the same number of steps cannot be told apart by it -/
theorem C18_schedule_irrelevant {σ ω : Type} (sys : System σ ω) (s1 s2 : List Nat) (j : Nat)
    (h : s1.count j = s2.count j) : (sys.run s1) j = (sys.run s2) j := by
  rw [C18_noninterference, C18_noninterference, h]

/-! non-vacuity: two threads with counters, interleaved -/
def c18Sys : System Nat Nat := fun i =>
  ⟨i * 100, [fun s => (s + 1, s), fun s => (s + 2, s), fun s => (s * 2, s)], []⟩

example : ((c18Sys.run [0, 1, 1, 0, 1, 0]) 1).done = [100, 101, 103] := by decide
example : ((c18Sys.run [1, 1, 1]) 1).done = [100, 101, 103] := by decide

end Ike
