import IkeProofs.Theorems.C13
import IkeProofs.Lemmas.Wire

/-!
# C05 — wire format agrees with an independent RFC 7296 codec in both directions

The independent codec is `Spec.encode` (IkeModel/Spec/Wire.lean): one definition per
RFC 7296 figure, parameterised by the *liberties* a sender has (`Spec.Lib`: flag octet of
every generic payload header, reserved octets of proposal / transform / KE / ID / AUTH / TS /
CP, R bit of configuration attributes, order of the transforms of a proposal).

* (A) `C05_encode_is_rfc`: for every message of the encodable domain the model of
  `IKEMessage.Encode` produces exactly the datagram of the independent encoder under the
  canonical liberties (also per payload body and per payload chain).  The well-formedness
  clauses of the property are then facts about the independent encoder's output
  (`C05_wf_*`): they are stated on bytes (`byteAt`, lengths, an independent walk along the
  length fields), not hidden in a definition.
* (B) `C05_decode_liberal`: for every message of the domain and ALL admissible liberties the
  model of `IKEMessage.Decode` applied to the independent encoder's datagram returns the
  payloads and header fields the datagram was built from (also per payload body / chain).
-/

set_option linter.unusedSimpArgs false
set_option linter.unusedVariables false

namespace Ike
open Spec

/-! ## per payload body -/

/-- **(A), one payload body**: `payload.Marshal()` is the RFC body with all reserved fields zero
and the transforms in the order ENCR, PRF, INTEG, DH, ESN. -/
theorem C05_encode_body_is_rfc (p : Payload) (hd : p.Dom) : marshalPayload p = encodeBody {} p := by
  cases p with
  | sa ps => exact (encodeProposals_canonical ps hd).symm
  | ke g d => rfl
  | idi t d => rfl
  | idr t d => rfl
  | cert t d => rfl
  | certreq t d => rfl
  | auth t d => rfl
  | nonce d => rfl
  | notify pr nt spi d => rfl
  | delete pr s n spis => exact marshalDelete_spec pr s n spis hd
  | vendor d => rfl
  | tsi l => exact (encodeTS_canonical l).symm
  | tsr l => exact (encodeTS_canonical l).symm
  | sk n d => exact absurd hd (by simp [Payload.Dom])
  | cp ct attrs => exact (encodeCP_canonical ct attrs hd.2).symm
  | eap e => rfl

/-- **(B), one payload body**: whatever the sender chose for the reserved octets, the R bits and
the order of the transforms, `payload.Unmarshal` of the RFC body returns the payload it was
built from. -/
theorem C05_decode_body_liberal (ℓ : Lib) (p : Payload) (hd : p.Dom) (ha : ℓ.Admissible p)
    (bs : Bytes) (nx : UInt8) (h : encodeBody ℓ p = .ok bs) : unmarshalPayload p.typeCode nx bs = .ok p := by
  cases p with
  | sa ps =>
    simp only [encodeBody] at h
    simp only [Payload.typeCode, up_sa]
    unfold unmarshalSA
    rw [unmarshalProposals_spec ℓ.props ps bs hd ha h]
    simp
  | ke g d =>
    simp only [encodeBody, Res.ok.injEq] at h; subst h
    simp only [Payload.typeCode, up_ke]
    exact unmarshalKE_spec _ _ g d hd
  | idi t d =>
    simp only [encodeBody, Res.ok.injEq] at h; subst h
    simp only [Payload.typeCode, up_idi]
    exact unmarshalT4_spec .idi _ _ _ t d hd
  | idr t d =>
    simp only [encodeBody, Res.ok.injEq] at h; subst h
    simp only [Payload.typeCode, up_idr]
    exact unmarshalT4_spec .idr _ _ _ t d hd
  | auth t d =>
    simp only [encodeBody, Res.ok.injEq] at h; subst h
    simp only [Payload.typeCode, up_auth]
    exact unmarshalT4_spec .auth _ _ _ t d hd
  | tsi l =>
    simp only [encodeBody] at h
    simp only [Payload.typeCode, up_tsi]
    exact unmarshalTS_spec .tsi _ _ _ l bs h
  | tsr l =>
    simp only [encodeBody] at h
    simp only [Payload.typeCode, up_tsr]
    exact unmarshalTS_spec .tsr _ _ _ l bs h
  | cp ct attrs =>
    simp only [encodeBody] at h
    simp only [Payload.typeCode, up_cp]
    exact unmarshalCP_spec _ _ _ _ ct attrs bs hd.1 h
  | sk n d => exact absurd hd (by simp [Payload.Dom])
  | cert t d =>
    exact (payloadRT_of_dom _ hd).1 bs nx (by rw [C05_encode_body_is_rfc _ hd]; exact h)
  | certreq t d =>
    exact (payloadRT_of_dom _ hd).1 bs nx (by rw [C05_encode_body_is_rfc _ hd]; exact h)
  | nonce d =>
    exact (payloadRT_of_dom _ hd).1 bs nx (by rw [C05_encode_body_is_rfc _ hd]; exact h)
  | notify pr nt spi d =>
    exact (payloadRT_of_dom _ hd).1 bs nx (by rw [C05_encode_body_is_rfc _ hd]; exact h)
  | delete pr s n spis =>
    exact (payloadRT_of_dom _ hd).1 bs nx (by rw [C05_encode_body_is_rfc _ hd]; exact h)
  | vendor d =>
    exact (payloadRT_of_dom _ hd).1 bs nx (by rw [C05_encode_body_is_rfc _ hd]; exact h)
  | eap e =>
    exact (payloadRT_of_dom _ hd).1 bs nx (by rw [C05_encode_body_is_rfc _ hd]; exact h)

/-! ## payload chain -/

theorem default_admissible (p : Payload) : ({} : Lib).Admissible p := by
  cases p <;> simp only [Lib.Admissible]
  rename_i ps
  cases ps <;> simp [PropsAdmissible]

/-- **(A), payload chain**: `IKEPayloadContainer.Encode` writes the RFC 7296 §3.2 chain with
flag octets 0 around the canonical bodies. -/
theorem C05_encode_chain_is_rfc (ps : List Payload) (hd : ∀ p ∈ ps, p.Dom) :
    encodeChain ps = encodePayloads [] ps := by
  induction ps with
  | nil => rfl
  | cons p rest ih =>
    have hp := hd p (by simp)
    have hnext : nextField p rest = firstPayloadType rest := by
      rw [firstPayloadType_eq]
      cases rest with
      | cons q _ => rfl
      | nil => cases p <;> first | rfl | (simp [Payload.Dom] at hp)
    simp only [Ike.encodeChain, encodePayloads, List.headD_nil, List.tail_nil]
    rw [C05_encode_body_is_rfc p hp, ih (fun q hq => hd q (by simp [hq])), hnext]

/-- the same chain in the vocabulary of `Spec/Chain.lean` (C13): known items with flag octet 0 -/
theorem C05_chain_items (ps : List Payload) (hd : ∀ p ∈ ps, p.Dom) :
    encodePayloads [] ps = encodeItems (ps.map (fun p => Item.known p 0)) := by
  induction ps with
  | nil => rfl
  | cons p rest ih =>
    have hft : firstItemType (rest.map (fun p => Item.known p 0)) = firstPayloadType rest := by
      cases rest with
      | nil => rfl
      | cons q _ => exact (payloadType_eq q).symm
    simp only [encodePayloads, List.headD_nil, List.tail_nil, List.map_cons, encodeItems, Item.body, Item.flags]
    rw [ih (fun q hq => hd q (by simp [hq])), C05_encode_body_is_rfc p (hd p (by simp)), hft]

/-- **(B), payload chain**: the chain written by the independent encoder under any admissible
liberties — any flag octet (critical bit, reserved bits) on every payload, any reserved octets,
R bits and transform order inside — decodes to the payloads it was built from. -/
theorem C05_decode_chain_liberal (ls : List Lib) (ps : List Payload) (bs : Bytes)
    (hd : ∀ p ∈ ps, p.Dom) (ha : LibsAdmissible ls ps) (h : encodePayloads ls ps = .ok bs) :
    decodeChain (firstType ps) bs = .ok ps := by
  induction ps generalizing ls bs with
  | nil =>
    simp [encodePayloads] at h; subst h
    unfold decodeChain; simp
  | cons p rest ih =>
    have hp := hd p (by simp)
    have hadm : (ls.headD {}).Admissible p ∧ LibsAdmissible ls.tail rest := by
      cases ls with
      | nil =>
        refine ⟨default_admissible p, ?_⟩
        cases rest <;> simp [LibsAdmissible]
      | cons ℓ ls' => exact ha
    simp only [encodePayloads] at h
    cases hb : encodeBody (ls.headD {}) p with
    | err => rw [hb] at h; simp at h
    | fault => rw [hb] at h; simp at h
    | ok body =>
      rw [hb] at h
      simp only [Res.bind_ok] at h
      split at h
      · simp at h
      · rename_i hlen
        cases hr : encodePayloads ls.tail rest with
        | err => rw [hr] at h; simp at h
        | fault => rw [hr] at h; simp at h
        | ok tl =>
          rw [hr] at h
          simp only [Res.bind_ok, Res.ok.injEq] at h
          subst h
          rw [firstPayloadType_eq]
          have hu := C05_decode_body_liberal (ls.headD {}) p hp hadm.1 body (firstType rest) hb
          have hsk : (p.typeCode == Facts.typeSK) = false :=
            typeCode_ne_sk p (payloadRT_of_dom p hp).2
          have hstep := chainStep_body p.typeCode p (ls.headD {}).flags body tl (firstType rest)
            (knownType_typeCode p) hsk hu (by omega)
          show decodeChain p.typeCode _ = _
          rw [decodeChain, dif_neg (by len_omega), hstep]
          simp only
          rw [dif_pos (by len_omega)]
          have hdrop : List.drop (4 + body.length)
              ([firstType rest, (ls.headD {}).flags] ++ put16 (UInt16.ofNat (4 + body.length)) ++ body ++ tl) = tl := by
            simp only [put16, List.cons_append, List.nil_append, List.append_assoc]
            rw [drop_add_cons4]; simp
          rw [hdrop, ih ls.tail tl (fun q hq => hd q (by simp [hq])) hadm.2 hr]

/-! ## whole messages -/

/-- **C05 (A)**: for every message of the encodable domain, `IKEMessage.Encode` returns exactly
the datagram of the independent RFC 7296 encoder under the canonical liberties (same bytes, and
an error exactly when the independent encoder cannot represent the message). -/
theorem C05_encode_is_rfc (m : Msg) (hd : m.Dom) :
    Prod.fst <$> encodeMsg m = Spec.encode canonical m := by
  unfold encodeMsg Spec.encode canonical
  rw [C05_encode_chain_is_rfc m.payloads hd.2.2, ← firstPayloadType_eq]
  cases hc : encodePayloads [] m.payloads with
  | err => rfl
  | fault => rfl
  | ok pb =>
    simp only [Res.bind_ok]
    rw [marshalHeader_spec _ (by simpa using hd.1) (by simpa using hd.2.1)]
    simp only
    have he : encodeHeader { m.hdr with next := firstPayloadType m.payloads, payloadBytes := pb }
        (firstPayloadType m.payloads) pb.length = encodeHeader m.hdr (firstPayloadType m.payloads) pb.length := rfl
    rw [he]
    cases encodeHeader m.hdr (firstPayloadType m.payloads) pb.length <;> rfl

/-- **C05 (B)**: for every message of the encodable domain and ALL admissible liberties of the
sender, `IKEMessage.Decode` of the independent encoder's datagram succeeds and returns the
payloads (every field, in order — the five transform lists of every proposal restored from any
interleaving) and the header fields the datagram was built from. -/
theorem C05_decode_liberal (ls : List Lib) (m : Msg) (bs : Bytes) (hd : m.Dom)
    (ha : LibsAdmissible ls m.payloads) (h : Spec.encode ls m = .ok bs) :
    ∃ m', decodeMsg bs = .ok m' ∧ m'.payloads = m.payloads ∧
      m'.hdr.ispi = m.hdr.ispi ∧ m'.hdr.rspi = m.hdr.rspi ∧ m'.hdr.major = m.hdr.major ∧
      m'.hdr.minor = m.hdr.minor ∧ m'.hdr.exch = m.hdr.exch ∧ m'.hdr.flags = m.hdr.flags ∧
      m'.hdr.mid = m.hdr.mid := by
  unfold Spec.encode at h
  cases hc : encodePayloads ls m.payloads with
  | err => rw [hc] at h; simp at h
  | fault => rw [hc] at h; simp at h
  | ok chain =>
    rw [hc] at h
    simp only [Res.bind_ok] at h
    cases hh : encodeHeader m.hdr (firstPayloadType m.payloads) chain.length with
    | err => rw [hh] at h; simp at h
    | fault => rw [hh] at h; simp at h
    | ok hb =>
      rw [hh] at h
      simp only [Res.bind_ok, Res.ok.injEq] at h
      subst h
      let h' : Header := { m.hdr with next := firstPayloadType m.payloads, payloadBytes := chain }
      have hm : marshalHeader h' = .ok (hb ++ chain) := by
        rw [marshalHeader_spec h' (by simpa using hd.1) (by simpa using hd.2.1)]
        have he : encodeHeader h' h'.next h'.payloadBytes.length
            = encodeHeader m.hdr (firstPayloadType m.payloads) chain.length := rfl
        rw [he, hh]
        rfl
      have hp := rt_header h' (hb ++ chain) (by simpa using hd.1) (by simpa using hd.2.1) hm
      refine ⟨⟨h', m.payloads⟩, ?_, rfl, rfl, rfl, rfl, rfl, rfl, rfl, rfl⟩
      unfold decodeMsg
      rw [hp]
      simp only [Res.bind_ok]
      have hdc := C05_decode_chain_liberal ls m.payloads chain hd.2.2 ha hc
      rw [← firstPayloadType_eq] at hdc
      show (do let ps ← decodeChain (firstPayloadType m.payloads) chain; Res.ok (⟨h', ps⟩ : Msg)) = _
      rw [hdc]
      rfl

/-! ## well-formedness of the independent encoder's output

With `C05_encode_is_rfc` these are facts about every datagram `IKEMessage.Encode` produces
(take `ls = Spec.canonical = []`, under which every flag octet and reserved octet below is 0). -/

theorem len32 (n : Nat) (h : n < 4294967296) :
    (UInt8.ofNat (n / 16777216)).toNat * 16777216 + (UInt8.ofNat (n / 65536 % 256)).toNat * 65536 +
      (UInt8.ofNat (n / 256 % 256)).toNat * 256 + (UInt8.ofNat (n % 256)).toNat = n := by
  simp only [UInt8.toNat_ofNat']
  omega

/-- **header**: the datagram has a 28-octet header whose Length field (octets 24..27, big-endian)
is the size of the whole datagram, whose Next Payload field (octet 16) is the type of the first
payload (0 when there is none), and the payload chain follows at offset 28. -/
theorem C05_wf_header_len (ls : List Lib) (m : Msg) (bs : Bytes) (h : Spec.encode ls m = .ok bs) :
    28 ≤ bs.length ∧
    (byteAt bs 24).toNat * 16777216 + (byteAt bs 25).toNat * 65536 + (byteAt bs 26).toNat * 256 +
      (byteAt bs 27).toNat = bs.length ∧
    byteAt bs 16 = firstPayloadType m.payloads ∧
    encodePayloads ls m.payloads = .ok (bs.drop 28) := by
  unfold Spec.encode at h
  cases hc : encodePayloads ls m.payloads with
  | err => rw [hc] at h; simp at h
  | fault => rw [hc] at h; simp at h
  | ok chain =>
    rw [hc] at h
    simp only [Res.bind_ok] at h
    unfold encodeHeader at h
    split at h
    · simp at h
    · split at h
      · simp at h
      · split at h
        · simp at h
        · rename_i _ _ hbig
          simp only [Res.bind_ok, Res.ok.injEq] at h
          subst h
          have hv : (UInt32.ofNat (28 + chain.length)).toNat = 28 + chain.length := ofNat_toNat_u32 _ (by omega)
          have hl := len32 (28 + chain.length) (by omega)
          refine ⟨by simp; omega, ?_, by simp [put64, put32], ?_⟩
          · simp only [put64, put32, hv, List.cons_append, List.nil_append, byteAt_cons_zero, byteAt_cons_succ,
              List.length_cons, List.length_append, List.length_nil]
            rw [hl]
            omega
          · simp [put64, put32]

/-- **payload chain**: walking the chain along its length fields — starting with the type named
in the header, every next type taken from the Next Payload field — visits exactly the payloads
of the message: each under its own type code, with the sender's flag octet, with exactly its
body (so every Payload Length is the real extent), and the walk ends on Next Payload = 0. -/
theorem C05_wf_chain (ls : List Lib) (ps : List Payload) (bs : Bytes) (h : encodePayloads ls ps = .ok bs) :
    ∃ l, chainView ls ps = .ok l ∧ walkChain bs.length (firstPayloadType ps) bs = some l :=
  walkChain_encodePayloads ls ps bs h bs.length (Nat.le_refl _)

/-- **critical / reserved bits**: under the canonical liberties the flag octet of every payload is 0. -/
theorem C05_wf_flags_zero (ps : List Payload) (l : List (UInt8 × UInt8 × Bytes))
    (h : chainView [] ps = .ok l) : ∀ x ∈ l, x.2.1 = 0 := by
  induction ps generalizing l with
  | nil => simp [chainView] at h; subst h; simp
  | cons p rest ih =>
    simp only [chainView, List.headD_nil, List.tail_nil] at h
    cases hb : encodeBody {} p with
    | err => rw [hb] at h; simp at h
    | fault => rw [hb] at h; simp at h
    | ok body =>
      cases hr : chainView [] rest with
      | err => rw [hb, hr] at h; simp at h
      | fault => rw [hb, hr] at h; simp at h
      | ok tl =>
        rw [hb, hr] at h
        simp only [Res.bind_ok, Res.ok.injEq] at h
        subst h
        intro x hx
        simp only [List.mem_cons] at hx
        rcases hx with rfl | hx
        · rfl
        · exact ih tl hr x hx

/-- **every encoded message is a well-formed datagram**: the three facts above for what
`IKEMessage.Encode` itself returns on a message of the domain — header length = datagram size,
the header names the first payload, the walk along the length fields visits exactly the
message's payloads (types, extents) and ends on 0, and every critical / reserved flag bit is 0. -/
theorem C05_encoded_wellformed (m : Msg) (hd : m.Dom) (bs : Bytes) (h' : Header) (h : encodeMsg m = .ok (bs, h')) :
    28 ≤ bs.length ∧
    (byteAt bs 24).toNat * 16777216 + (byteAt bs 25).toNat * 65536 + (byteAt bs 26).toNat * 256 +
      (byteAt bs 27).toNat = bs.length ∧
    byteAt bs 16 = firstPayloadType m.payloads ∧
    ∃ l, chainView [] m.payloads = .ok l ∧
      walkChain (bs.drop 28).length (firstPayloadType m.payloads) (bs.drop 28) = some l ∧
      ∀ x ∈ l, x.2.1 = 0 := by
  have hs : Spec.encode canonical m = .ok bs := by
    rw [← C05_encode_is_rfc m hd, h]; rfl
  obtain ⟨w1, w2, w3, w4⟩ := C05_wf_header_len canonical m bs hs
  obtain ⟨l, hv, hw⟩ := C05_wf_chain canonical m.payloads (bs.drop 28) w4
  exact ⟨w1, w2, w3, l, hv, hw, C05_wf_flags_zero m.payloads l hv⟩

/-- the reserved octets of a payload body sit where the RFC figures put them and carry the
sender's choice — zero under the canonical liberties `{}` -/
def bodyReserved (ℓ : Lib) (p : Payload) (b : Bytes) : Prop :=
  match p with
  | .ke _ _ => byteAt b 2 = ℓ.r0 ∧ byteAt b 3 = ℓ.r1
  | .idi _ _ | .idr _ _ | .auth _ _ | .tsi _ | .tsr _ | .cp _ _ =>
    byteAt b 1 = ℓ.r0 ∧ byteAt b 2 = ℓ.r1 ∧ byteAt b 3 = ℓ.r2
  | _ => True

theorem C05_wf_body_reserved (ℓ : Lib) (p : Payload) (b : Bytes) (h : encodeBody ℓ p = .ok b) :
    bodyReserved ℓ p b := by
  cases p with
  | ke g d => simp only [encodeBody, Res.ok.injEq] at h; subst h; simp [bodyReserved, encodeKE, put16]
  | idi t d => simp only [encodeBody, Res.ok.injEq] at h; subst h; simp [bodyReserved, encodeTypeRes3]
  | idr t d => simp only [encodeBody, Res.ok.injEq] at h; subst h; simp [bodyReserved, encodeTypeRes3]
  | auth t d => simp only [encodeBody, Res.ok.injEq] at h; subst h; simp [bodyReserved, encodeTypeRes3]
  | tsi l =>
    simp only [encodeBody, encodeTS] at h
    split at h
    · simp at h
    · split at h
      · simp at h
      · cases hs : encodeSelectors l with
        | err => rw [hs] at h; simp at h
        | fault => rw [hs] at h; simp at h
        | ok body => rw [hs] at h; simp only [Res.bind_ok, Res.ok.injEq] at h; subst h; simp [bodyReserved]
  | tsr l =>
    simp only [encodeBody, encodeTS] at h
    split at h
    · simp at h
    · split at h
      · simp at h
      · cases hs : encodeSelectors l with
        | err => rw [hs] at h; simp at h
        | fault => rw [hs] at h; simp at h
        | ok body => rw [hs] at h; simp only [Res.bind_ok, Res.ok.injEq] at h; subst h; simp [bodyReserved]
  | cp ct attrs =>
    simp only [encodeBody, encodeCP] at h
    cases hs : encodeCPAttrs ℓ.rbits attrs with
    | err => rw [hs] at h; simp at h
    | fault => rw [hs] at h; simp at h
    | ok body => rw [hs] at h; simp only [Res.bind_ok, Res.ok.injEq] at h; subst h; simp [bodyReserved]
  | _ => simp [bodyReserved]

/-- **proposals**: walking an SA body along the proposal length fields visits exactly the
proposals; "last substruc" is 2 on every proposal but the last, where it is 0. -/
theorem C05_wf_proposals (ls : List PLib) (ps : List Proposal) (bs : Bytes) (h : encodeProposals ls ps = .ok bs) :
    ∃ l, proposalView ls ps = .ok l ∧ walkSubs 2 bs.length bs = some l :=
  walkSubs_proposals ls ps bs h bs.length (Nat.le_refl _)

/-- **one proposal**: marker, RESERVED octet (the sender's; 0 canonically), Proposal Length =
extent, number, protocol, SPI size = length of the SPI, transform count = number of transforms,
then the SPI and the transform substructures. -/
theorem C05_wf_proposal (ℓ : PLib) (last : Bool) (p : Proposal) (h : Bytes) (hm : encodeProposal ℓ last p = .ok h) :
    ∃ td, encodeTransforms ℓ.emitted = .ok td ∧
      h.length = 8 + p.spi.length + td.length ∧
      byteAt h 0 = (if last then 0 else 2) ∧ byteAt h 1 = ℓ.reserved ∧
      (byteAt h 2).toNat * 256 + (byteAt h 3).toNat = h.length ∧
      byteAt h 4 = p.num ∧ byteAt h 5 = p.proto ∧
      (byteAt h 6).toNat = p.spi.length ∧ (byteAt h 7).toNat = ℓ.emitted.length ∧
      (h.drop 8).take p.spi.length = p.spi ∧ h.drop (8 + p.spi.length) = td :=
  wf_proposal ℓ last p h hm

/-- **transforms**: walking the transform octets of a proposal along the transform length fields
visits exactly the transforms; "last substruc" is 3 on every transform but the last, where it is 0. -/
theorem C05_wf_transforms (em : List (TLib × Transform)) (bs : Bytes) (h : encodeTransforms em = .ok bs) :
    ∃ l, transformView em = .ok l ∧ walkSubs 3 bs.length bs = some l :=
  walkSubs_transforms em bs h bs.length (Nat.le_refl _)

/-- **one transform**: marker, the two RESERVED octets (the sender's; 0 canonically), Transform
Length = extent, type, ID, then the attribute octets. -/
theorem C05_wf_transform (ℓ : TLib) (last : Bool) (t : Transform) (h : Bytes) (hm : encodeTransform ℓ last t = .ok h) :
    8 ≤ h.length ∧ byteAt h 0 = (if last then 0 else 3) ∧ byteAt h 1 = ℓ.res1 ∧
    (byteAt h 2).toNat * 256 + (byteAt h 3).toNat = h.length ∧
    byteAt h 4 = t.ttype ∧ byteAt h 5 = ℓ.res2 ∧
    (byteAt h 6).toNat * 256 + (byteAt h 7).toNat = t.tid.toNat ∧ encodeAttr t = .ok (h.drop 8) :=
  wf_transform ℓ last t h hm

/-- **one attribute**: absent = no octets; TV = AF bit + type, 16-bit value; TLV = type with AF
clear, Attribute Length = extent of the value, the value. -/
theorem C05_wf_attribute (t : Transform) (a : Bytes) (h : encodeAttr t = .ok a) :
    (t.present = false → a = []) ∧
    (t.present = true → t.fmt = 1 →
      a.length = 4 ∧ (byteAt a 0).toNat * 256 + (byteAt a 1).toNat = 32768 + t.atype.toNat ∧
      (byteAt a 2).toNat * 256 + (byteAt a 3).toNat = t.aval.toNat) ∧
    (t.present = true → t.fmt ≠ 1 →
      a.length = 4 + t.vval.length ∧ (byteAt a 0).toNat * 256 + (byteAt a 1).toNat = t.atype.toNat ∧
      (byteAt a 2).toNat * 256 + (byteAt a 3).toNat = t.vval.length ∧ a.drop 4 = t.vval) :=
  wf_attr t a h

/-- **one traffic selector**: Selector Length = extent (16 for type 7, 40 for type 8), ports and
addresses at their places. -/
theorem C05_wf_selector (t : TSel) (h : Bytes) (hm : encodeSelector t = .ok h) :
    h.length = 8 + t.saddr.length + t.eaddr.length ∧ byteAt h 0 = t.tstype ∧ byteAt h 1 = t.proto ∧
    (byteAt h 2).toNat * 256 + (byteAt h 3).toNat = h.length ∧
    (byteAt h 4).toNat * 256 + (byteAt h 5).toNat = t.sport.toNat ∧
    (byteAt h 6).toNat * 256 + (byteAt h 7).toNat = t.eport.toNat ∧
    (h.drop 8).take t.saddr.length = t.saddr ∧ h.drop (8 + t.saddr.length) = t.eaddr ∧
    ((t.tstype = 7 ∧ t.saddr.length = 4 ∧ t.eaddr.length = 4) ∨ (t.tstype = 8 ∧ t.saddr.length = 16 ∧ t.eaddr.length = 16)) :=
  wf_selector t h hm

/-- **one configuration attribute** (the first of a non-empty list; the others follow at the
stated offset): R bit (the sender's; 0 canonically) + 15-bit type, Length = extent of the value. -/
theorem C05_wf_cp_attribute (rs : List Bool) (a : CPAttr) (rest : List CPAttr) (bs : Bytes)
    (h : encodeCPAttrs rs (a :: rest) = .ok bs) :
    ∃ tl, encodeCPAttrs rs.tail rest = .ok tl ∧ bs.length = 4 + a.value.length + tl.length ∧
      (byteAt bs 0).toNat * 256 + (byteAt bs 1).toNat = (if rs.headD false then 32768 else 0) + a.atype.toNat ∧
      a.atype.toNat < 32768 ∧
      (byteAt bs 2).toNat * 256 + (byteAt bs 3).toNat = a.value.length ∧
      (bs.drop 4).take a.value.length = a.value ∧ bs.drop (4 + a.value.length) = tl :=
  wf_cpattr rs a rest bs h

/-! ## non-vacuity: a message of the domain and liberties that use every freedom -/

def c05T1 : Transform := ⟨1, 12, true, 1, 14, 256, []⟩
def c05T2a : Transform := ⟨2, 5, false, 0, 0, 0, []⟩
def c05T2b : Transform := ⟨2, 7, true, 0, 9, 0, [0xaa, 0xbb]⟩
def c05T4 : Transform := ⟨4, 14, false, 0, 0, 0, []⟩

def c05Sample : Msg :=
  ⟨{ ispi := 1, rspi := 2, major := 2, minor := 0, exch := 34, flags := 8, mid := 7 },
   [.sa [⟨1, 1, [1, 2, 3, 4], [c05T1], [c05T2a, c05T2b], [], [c05T4], []⟩],
    .ke 14 [9, 9], .idi 2 [0x61], .auth 2 [1, 2, 3], .nonce [1, 2, 3], .notify 0 16388 [] [5],
    .delete 3 4 1 [0xdeadbeef], .tsi [⟨7, 0, 0, 65535, [10, 0, 0, 1], [10, 0, 0, 9]⟩],
    .cp 1 [⟨1, []⟩, ⟨8, [1, 2]⟩]]⟩

/-- liberties: critical bit and reserved bits on payloads, a DH transform emitted first and the
two PRF transforms around the ENCR one, non-zero reserved octets everywhere, R bit on the
second configuration attribute -/
def c05Libs : List Lib :=
  [{ flags := 0x80, props := [⟨0x11, [(⟨1, 2⟩, c05T4), (⟨3, 4⟩, c05T2a), (⟨5, 6⟩, c05T1), (⟨7, 8⟩, c05T2b)]⟩] },
   { flags := 0x7f, r0 := 0xaa, r1 := 0xbb }, { flags := 0xff, r0 := 1, r1 := 2, r2 := 3 },
   { r0 := 0xff, r1 := 0xff, r2 := 0xff }, { flags := 0x80 }, {}, { flags := 1 },
   { flags := 0x80, r0 := 9, r1 := 9, r2 := 9 }, { flags := 0x55, r0 := 4, r1 := 5, r2 := 6, rbits := [false, true] }]

example : c05Sample.Dom := by
  refine ⟨by decide, by decide, ?_⟩
  intro p hp
  simp only [c05Sample, List.mem_cons, List.mem_nil_iff, or_false] at hp
  rcases hp with rfl | rfl | rfl | rfl | rfl | rfl | rfl | rfl | rfl
  · simp [Payload.Dom, Proposal.Dom, Transform.Dom, c05T1, c05T2a, c05T2b, c05T4]
    decide
  all_goals simp [Payload.Dom]

example : LibsAdmissible c05Libs c05Sample.payloads := by
  refine ⟨⟨?_, trivial⟩, trivial, trivial, trivial, trivial, trivial, trivial, trivial, trivial, trivial⟩
  exact Interleaves.dh c05T4 (Interleaves.prf c05T2a (Interleaves.encr c05T1 (Interleaves.prf c05T2b Interleaves.nil)))

example : (Spec.encode c05Libs c05Sample).isOk = true := by decide +kernel
example : (Spec.encode canonical c05Sample).isOk = true := by decide +kernel
/-- the liberties do change the datagram -/
example : Spec.encode c05Libs c05Sample ≠ Spec.encode canonical c05Sample := by decide +kernel

/-! ## anchor: the repository's captured IKE_SA_INIT datagram (message/message_test.go)

The independent encoder, given the fields of that datagram, reproduces it octet for octet. -/

def c05InitMsg : Msg :=
  ⟨{ ispi := 9674629940634867277, rspi := 0, major := 2, minor := 0, exch := 34, flags := 8, mid := 0 },    [.sa
    [⟨1, 1, [], [⟨1, 12, true, 1, 14, 128, []⟩], [⟨2, 2, false, 0, 0, 0, []⟩], [⟨3, 2, false, 0, 0, 0, []⟩], [⟨4,
    2, false, 0, 0, 0, []⟩], []⟩],     .ke 2 [0x03, 0xdc, 0xf5, 0x9a, 0x29, 0x05, 0x7b, 0x5a, 0x49, 0xbd, 0x55,
    0x8c, 0x9b, 0x14, 0x7a, 0x11, 0x0e, 0xed, 0xff, 0xe5, 0xea, 0x2d, 0x12, 0xc2, 0x1e, 0x5c, 0x7a, 0x5f, 0x5e,
    0x9c, 0x99, 0xe3, 0xd1, 0xd3, 0x00, 0x24, 0x3c, 0x89, 0x73, 0x1e, 0x6c, 0x6d, 0x63, 0x41, 0x7b, 0x33, 0xfa,
    0xaf, 0x5a, 0xc7, 0x26, 0xe8, 0xb6, 0xf8, 0xc3, 0xb5, 0x2a, 0x14, 0xeb, 0xec, 0xd5, 0x6f, 0x1b, 0xd9, 0x5b,
    0x28, 0x32, 0x84, 0x9e, 0x26, 0xfc, 0x59, 0xee, 0xf1, 0x4e, 0x38, 0x5f, 0x55, 0xc2, 0x1b, 0xe8, 0xf6, 0xa3,
    0xfb, 0xc5, 0x55, 0xd7, 0x35, 0x92, 0x86, 0x24, 0x00, 0x62, 0x8b, 0xea, 0xce, 0x23, 0xf0, 0x47, 0xaf, 0xaa,
    0xf8, 0x61, 0xe4, 0x5c, 0x42, 0xba, 0x5c, 0xa1, 0x4a, 0x52, 0x6e, 0xd8, 0xe8, 0xf1, 0xb9, 0x74, 0xae, 0xe4,
    0xd1, 0x9c, 0x9f, 0xa5, 0x9b, 0xf0, 0xd7, 0xdb, 0x55],     .nonce [0x4c, 0xa7, 0xf3, 0x9b, 0xcd, 0x1d, 0xc2,
    0x01, 0x79, 0xfa, 0xa2, 0xe4, 0x72, 0xe0, 0x61, 0xc4, 0x45, 0x61, 0xe6, 0x49, 0x2d, 0xb3, 0x96, 0xae, 0xc9,
    0x2c, 0xdb, 0x54, 0x21, 0xf4, 0x98, 0x4f, 0x72, 0xd2, 0x43, 0x78, 0xab, 0x80, 0xe4, 0x6c, 0x01, 0x78, 0x6a,
    0xc4, 0x64, 0x45, 0xbc, 0xa8, 0x1f, 0x56, 0xbc, 0xed, 0xf9, 0xb5, 0xd8, 0x21, 0x95, 0x41, 0x71, 0xe9, 0x0e,
    0xb4, 0x3c, 0x4e],     .vendor [0x43, 0x49, 0x53, 0x43, 0x4f, 0x2d, 0x44, 0x45, 0x4c, 0x45, 0x54, 0x45, 0x2d,
    0x52, 0x45, 0x41, 0x53, 0x4f, 0x4e],     .vendor [0x43, 0x49, 0x53, 0x43, 0x4f, 0x28, 0x43, 0x4f, 0x50, 0x59,
    0x52, 0x49, 0x47, 0x48, 0x54, 0x29, 0x26, 0x43, 0x6f, 0x70, 0x79, 0x72, 0x69, 0x67, 0x68, 0x74, 0x20, 0x28,
    0x63, 0x29, 0x20, 0x32, 0x30, 0x30, 0x39, 0x20, 0x43, 0x69, 0x73, 0x63, 0x6f, 0x20, 0x53, 0x79, 0x73, 0x74,
    0x65, 0x6d, 0x73, 0x2c, 0x20, 0x49, 0x6e, 0x63, 0x2e],     .vendor [0x43, 0x49, 0x53, 0x43, 0x4f, 0x2d, 0x47,
    0x52, 0x45, 0x2d, 0x4d, 0x4f, 0x44, 0x45, 0x02],     .notify 1 16388 [] [0x7e, 0x57, 0x6c, 0xc0, 0x13, 0xd4,
    0x05, 0x43, 0xa2, 0xe8, 0x77, 0x7d, 0x00, 0x34, 0x68, 0xa5, 0xb1, 0x89, 0x0c, 0x58],     .notify 1 16389 []
    [0x52, 0x64, 0x4d, 0x87, 0xd4, 0x7c, 0x2d, 0x44, 0x23, 0xbd, 0x37, 0xe4, 0x48, 0xa9, 0xf5, 0x17, 0x01, 0x81,
    0xcb, 0x8a],     .vendor [0x40, 0x48, 0xb7, 0xd5, 0x6e, 0xbc, 0xe8, 0x85, 0x25, 0xe7, 0xde, 0x7f, 0x00, 0xd6,
    0xc2, 0xd3]]⟩

def c05InitWire : Bytes :=
  [0x86, 0x43, 0x30, 0xac, 0x30, 0xe6, 0x56, 0x4d, 0x00, 0x00, 0x00, 0x00, 0x00, 0x00, 0x00, 0x00, 0x21, 0x20,
  0x22, 0x08, 0x00, 0x00, 0x00, 0x00, 0x00, 0x00, 0x01, 0xc9, 0x22, 0x00, 0x00, 0x30, 0x00, 0x00, 0x00, 0x2c,
  0x01, 0x01, 0x00, 0x04, 0x03, 0x00, 0x00, 0x0c, 0x01, 0x00, 0x00, 0x0c, 0x80, 0x0e, 0x00, 0x80, 0x03, 0x00,
  0x00, 0x08, 0x02, 0x00, 0x00, 0x02, 0x03, 0x00, 0x00, 0x08, 0x03, 0x00, 0x00, 0x02, 0x00, 0x00, 0x00, 0x08,
  0x04, 0x00, 0x00, 0x02, 0x28, 0x00, 0x00, 0x88, 0x00, 0x02, 0x00, 0x00, 0x03, 0xdc, 0xf5, 0x9a, 0x29, 0x05,
  0x7b, 0x5a, 0x49, 0xbd, 0x55, 0x8c, 0x9b, 0x14, 0x7a, 0x11, 0x0e, 0xed, 0xff, 0xe5, 0xea, 0x2d, 0x12, 0xc2,
  0x1e, 0x5c, 0x7a, 0x5f, 0x5e, 0x9c, 0x99, 0xe3, 0xd1, 0xd3, 0x00, 0x24, 0x3c, 0x89, 0x73, 0x1e, 0x6c, 0x6d,
  0x63, 0x41, 0x7b, 0x33, 0xfa, 0xaf, 0x5a, 0xc7, 0x26, 0xe8, 0xb6, 0xf8, 0xc3, 0xb5, 0x2a, 0x14, 0xeb, 0xec,
  0xd5, 0x6f, 0x1b, 0xd9, 0x5b, 0x28, 0x32, 0x84, 0x9e, 0x26, 0xfc, 0x59, 0xee, 0xf1, 0x4e, 0x38, 0x5f, 0x55,
  0xc2, 0x1b, 0xe8, 0xf6, 0xa3, 0xfb, 0xc5, 0x55, 0xd7, 0x35, 0x92, 0x86, 0x24, 0x00, 0x62, 0x8b, 0xea, 0xce,
  0x23, 0xf0, 0x47, 0xaf, 0xaa, 0xf8, 0x61, 0xe4, 0x5c, 0x42, 0xba, 0x5c, 0xa1, 0x4a, 0x52, 0x6e, 0xd8, 0xe8,
  0xf1, 0xb9, 0x74, 0xae, 0xe4, 0xd1, 0x9c, 0x9f, 0xa5, 0x9b, 0xf0, 0xd7, 0xdb, 0x55, 0x2b, 0x00, 0x00, 0x44,
  0x4c, 0xa7, 0xf3, 0x9b, 0xcd, 0x1d, 0xc2, 0x01, 0x79, 0xfa, 0xa2, 0xe4, 0x72, 0xe0, 0x61, 0xc4, 0x45, 0x61,
  0xe6, 0x49, 0x2d, 0xb3, 0x96, 0xae, 0xc9, 0x2c, 0xdb, 0x54, 0x21, 0xf4, 0x98, 0x4f, 0x72, 0xd2, 0x43, 0x78,
  0xab, 0x80, 0xe4, 0x6c, 0x01, 0x78, 0x6a, 0xc4, 0x64, 0x45, 0xbc, 0xa8, 0x1f, 0x56, 0xbc, 0xed, 0xf9, 0xb5,
  0xd8, 0x21, 0x95, 0x41, 0x71, 0xe9, 0x0e, 0xb4, 0x3c, 0x4e, 0x2b, 0x00, 0x00, 0x17, 0x43, 0x49, 0x53, 0x43,
  0x4f, 0x2d, 0x44, 0x45, 0x4c, 0x45, 0x54, 0x45, 0x2d, 0x52, 0x45, 0x41, 0x53, 0x4f, 0x4e, 0x2b, 0x00, 0x00,
  0x3b, 0x43, 0x49, 0x53, 0x43, 0x4f, 0x28, 0x43, 0x4f, 0x50, 0x59, 0x52, 0x49, 0x47, 0x48, 0x54, 0x29, 0x26,
  0x43, 0x6f, 0x70, 0x79, 0x72, 0x69, 0x67, 0x68, 0x74, 0x20, 0x28, 0x63, 0x29, 0x20, 0x32, 0x30, 0x30, 0x39,
  0x20, 0x43, 0x69, 0x73, 0x63, 0x6f, 0x20, 0x53, 0x79, 0x73, 0x74, 0x65, 0x6d, 0x73, 0x2c, 0x20, 0x49, 0x6e,
  0x63, 0x2e, 0x29, 0x00, 0x00, 0x13, 0x43, 0x49, 0x53, 0x43, 0x4f, 0x2d, 0x47, 0x52, 0x45, 0x2d, 0x4d, 0x4f,
  0x44, 0x45, 0x02, 0x29, 0x00, 0x00, 0x1c, 0x01, 0x00, 0x40, 0x04, 0x7e, 0x57, 0x6c, 0xc0, 0x13, 0xd4, 0x05,
  0x43, 0xa2, 0xe8, 0x77, 0x7d, 0x00, 0x34, 0x68, 0xa5, 0xb1, 0x89, 0x0c, 0x58, 0x2b, 0x00, 0x00, 0x1c, 0x01,
  0x00, 0x40, 0x05, 0x52, 0x64, 0x4d, 0x87, 0xd4, 0x7c, 0x2d, 0x44, 0x23, 0xbd, 0x37, 0xe4, 0x48, 0xa9, 0xf5,
  0x17, 0x01, 0x81, 0xcb, 0x8a, 0x00, 0x00, 0x00, 0x14, 0x40, 0x48, 0xb7, 0xd5, 0x6e, 0xbc, 0xe8, 0x85, 0x25,
  0xe7, 0xde, 0x7f, 0x00, 0xd6, 0xc2, 0xd3]

example : Spec.encode canonical c05InitMsg = .ok c05InitWire := by decide +kernel

/-! the instance of (B) on the sample, evaluated: the decoder returns the sample's payloads -/
example : (match Spec.encode c05Libs c05Sample with
    | .ok bs => (match decodeMsg bs with | .ok m' => m'.payloads == c05Sample.payloads | _ => false)
    | _ => false) = true := by decide +kernel

end Ike
