import IkeProofs.RefineEap.Crypto
import IkeProofs.Theorems.C16

/-! # C16 over the code as translated from the current source (`eap.EapAkaPrimePRF`) -/

namespace Ike
open Ike.RefineEap

/-- the five keys the generated PRF' returns, as the model's record -/
def genAkaPrf (P : Prims) (ik ck identity : Bytes) : Res AkaKeys :=
  (Gen.eap.EapAkaPrimePRF P ik ck identity).map
    (fun k => (⟨k.1, k.2.1, k.2.2.1, k.2.2.2.1, k.2.2.2.2⟩ : AkaKeys))

theorem C16_gen_prf_is_model (P : Prims) (ik ck identity : Bytes) : genAkaPrf P ik ck identity = akaPrf P ik ck identity :=
  EapAkaPrimePRF_refines P ik ck identity

/-- the generated `EapAkaPrimePRF` returns the RFC 5448 / 9048 key hierarchy -/
theorem C16_gen_prf_keys (P : Prims) (hP : P.Lawful) (h32 : P.macLen 2 = 32) (ik ck identity : Bytes)
    (hik : ik.length ≠ 0) (hck : ck.length ≠ 0) :
    genAkaPrf P ik ck identity = .ok (AkaKeys.ofSpec (Spec.akaPrimeKeys (P.mac 2) ik ck identity)) := by
  rw [C16_gen_prf_is_model]; exact C16_prf_keys P hP h32 ik ck identity hik hck

/-- an empty IK' or CK' is refused, and nothing else is -/
theorem C16_gen_err_iff (P : Prims) (hP : P.Lawful) (h32 : P.macLen 2 = 32) (ik ck identity : Bytes) :
    genAkaPrf P ik ck identity = .err ↔ (ik.length = 0 ∨ ck.length = 0) := by
  rw [C16_gen_prf_is_model]; exact C16_err_iff P hP h32 ik ck identity

end Ike
