import IkeProofs.Refine.Transfer
import IkeProofs.Theorems.C03

/-! # C03 over the code as translated from the current source (`tools/go2lean`) -/

namespace Ike
open Ike.Refine Ike.Gen.message

/-- encoding by the generated `IKEMessage.Encode` followed by the generated `IKEMessage.Decode`
returns the payload list and the header fields, for every message of the encodable domain -/
theorem C03_gen_roundtrip (m : Msg) (bs : Bytes) (h' : Header) (hd : m.Dom)
    (h : genEncode m = .ok (bs, h')) :
    ∃ m', genDecode bs = .ok (some m') ∧ m'.payloads = m.payloads ∧
      m'.hdr.ispi = m.hdr.ispi ∧ m'.hdr.rspi = m.hdr.rspi ∧ m'.hdr.major = m.hdr.major ∧
      m'.hdr.minor = m.hdr.minor ∧ m'.hdr.exch = m.hdr.exch ∧ m'.hdr.flags = m.hdr.flags ∧
      m'.hdr.mid = m.hdr.mid := by
  rw [genEncode_eq] at h
  obtain ⟨m', k, rest⟩ := C03_roundtrip m bs h' hd h
  exact ⟨m', genDecode_ok.mpr k, rest⟩

/-- the generated encoder and decoder are the model's, on every input -/
theorem C03_gen_codec_is_model (m : Msg) (b : Bytes) :
    genEncode m = encodeMsg m ∧ genDecode b = (decodeMsg b).map some := ⟨genEncode_eq m, genDecode_eq b⟩

end Ike
