import IkeProofs.RefineSa.RandNum
import IkeProofs.RefineEap.Crypto
import IkeProofs.Theorems.C07
import IkeProofs.RefineSa.Transfer

/-! # C07 (prf+) over the code as translated from the current source (`security/lib.PrfPlus`) -/

namespace Ike
open Ike.RefineEap

/-- the generated `lib.PrfPlus` is the model's `prfPlus`, for every lawful primitive -/
theorem C07_gen_prfplus_is_model (P : Prims) (hP : P.Lawful) (prf : Go.Mac) (s : Bytes) (n : Nat) :
    (Gen.lib.PrfPlus P prf s (n : Int)).map (fun r => (absMac r.1, r.2)) =
      (match prfPlus P (absMac prf) s n with | (h', .ok b) => Res.ok (h', b) | (_, .err) => Res.err | (_, .fault) => Res.fault) :=
  PrfPlus_refines_lawful P hP prf s n

/-- the generated `lib.PrfPlus` computes the RFC 7296 §2.13 stream for any state the PRF object is handed over in -/
theorem C07_gen_prfplus (P : Prims) (hP : P.Lawful) (prf : Go.Mac) (s : Bytes) (n : Nat) (hL : 0 < P.macLen prf.h) :
    (Gen.lib.PrfPlus P prf s (n : Int)).map (·.2) = .ok (Spec.prfPlusN (P.mac prf.h) (P.macLen prf.h) prf.key s n) := by
  have h := C07_gen_prfplus_is_model P hP prf s n
  obtain ⟨h1, _, _⟩ := C07_prfplus P hP (absMac prf) s n hL
  cases hp : prfPlus P (absMac prf) s n with
  | mk h' r =>
    rw [hp] at h h1
    simp only at h1
    subst h1
    simp only at h
    cases hg : Gen.lib.PrfPlus P prf s (n : Int) with
    | ok v => rw [hg] at h; simp only [Res.map] at h ⊢; injection h with h; rw [Prod.mk.injEq] at h; rw [h.2]; rfl
    | err => rw [hg] at h; simp [Res.map] at h
    | fault => rw [hg] at h; simp [Res.map] at h

/-! ### `security.(*IKESAKey).GenerateKeyForIKESA` as translated from `security/security.go` -/

open Ike.RefineSa Ike.GenAbsSa in
/-- the translated `GenerateKeyForIKESA` IS the model's `genKeyForIKESA`, for every object whose descriptors are
registered ones, every nonce, shared secret and SPI pair -/
theorem C07_gen_keygen_is_model (P : Prims) (hP : P.Lawful) (k : Gen.security.IKESAKey) (hk : SaRegistered k)
    (nonce secret : Bytes) (si sr : UInt64) :
    (Gen.security.IKESAKey.GenerateKeyForIKESA P (some k) nonce secret si sr).map absSa =
      (match genKeyForIKESA P (absSa k) nonce secret si sr with
       | (sa', .ok ()) => .ok sa' | (_, .err) => .err | (_, .fault) => .fault) :=
  GenerateKeyForIKESA_refines P hP k hk nonce secret si sr

open Ike.RefineSa Ike.GenAbsSa in
/-- C07 (b), (c) over the translated code: SKEYSEED = prf(Ni|Nr, g^ir), the seven keys are the consecutive slices
of prf+(SKEYSEED, Ni|Nr|SPIi|SPIr) with the registered lengths.  The call succeeds and the object it returns is —
through the abstraction — the freshly keyed object `SAKey.fresh` over the key set `ikeKeysG` (which is
`Spec.ikeKeys`, RFC 7296 §2.14, when the PRF's key length is its output length, `ikeKeysG_eq_spec`): the seven
keys, the three PRF objects, the two integrity objects and the two cipher objects keyed with them, all buffers
empty, nothing of the object's previous contents left; and it is well-formed for `ike.go` (`SaWF`). -/
theorem C07_gen_keys (P : Prims) (hP : P.Lawful) (k : Gen.security.IKESAKey) (hk : SaRegistered k)
    (nonce secret : Bytes) (si sr : UInt64)
    (hL : 0 < P.macLen (absSa k).prfInfo.hash) (hn : nonce.length ≠ 0) (hs : secret.length ≠ 0)
    (ht : 0 < (absSa k).keyTotal) :
    ∃ k', Gen.security.IKESAKey.GenerateKeyForIKESA P (some k) nonce secret si sr = .ok k' ∧ SaWF k' ∧
      SaRegistered k' ∧
      let ks := ikeKeysG (P.mac (absSa k).prfInfo.hash) (P.macLen (absSa k).prfInfo.hash) (absSa k).prfInfo.keyLen
        (absSa k).integInfo.keyLen (absSa k).encrInfo.keyLen nonce secret si sr
      absSa k' = SAKey.fresh (absSa k).encrInfo (absSa k).integInfo (absSa k).prfInfo
        ks.d ks.ai ks.ar ks.ei ks.er ks.pi ks.pr := by
  have hr := GenerateKeyForIKESA_refines P hP k hk nonce secret si sr
  obtain ⟨h0, h1, h2, h3, h4, h5, h6, h7⟩ := C07_keys P hP (absSa k) nonce secret si sr hL hn hs ht
  obtain ⟨o0, _⟩ := C07_objects P hP (absSa k) nonce secret si sr hL hn hs ht
  rw [h1, h2, h3, h4, h5, h6, h7] at o0
  cases hg : genKeyForIKESA P (absSa k) nonce secret si sr with
  | mk sa' res =>
    rw [hg] at hr h0 o0
    simp only at h0 o0
    subst h0
    obtain ⟨k', hk', ha⟩ := map_eq_ok hr
    exact ⟨k', hk', (GenerateKeyForIKESA_wf P k hk nonce secret si sr k' hk').1,
      GenerateKeyForIKESA_registered P k hk nonce secret si sr k' hk', by rw [ha]; exact o0⟩

open Ike.RefineSa Ike.GenAbsSa in
/-- refusals of the translated `GenerateKeyForIKESA`: a nil object, a missing descriptor, an empty nonce string or
an empty shared secret — an error, never a fault, nothing derived -/
theorem C07_gen_refusals (P : Prims) (k : Gen.security.IKESAKey) (nonce secret : Bytes) (si sr : UInt64) :
    Gen.security.IKESAKey.GenerateKeyForIKESA P none nonce secret si sr = .err ∧
    ((k.EncrInfo = .nil_ ∨ k.IntegInfo = .nil_ ∨ k.PrfInfo = .nil_ ∨ k.DhInfo = .nil_) →
      Gen.security.IKESAKey.GenerateKeyForIKESA P (some k) nonce secret si sr = .err) ∧
    ((nonce = [] ∨ secret = []) → Gen.security.IKESAKey.GenerateKeyForIKESA P (some k) nonce secret si sr = .err) :=
  ⟨GenerateKeyForIKESA_nil P nonce secret si sr, fun h => GenerateKeyForIKESA_missing P k h nonce secret si sr,
   fun h => GenerateKeyForIKESA_empty P (some k) nonce secret h si sr⟩

open Ike.RefineSa Ike.GenAbsSa in
/-- the responder's entry point as translated: whatever `security.NewIKESAKey` returns without an error was keyed by
`GenerateKeyForIKESA` — i.e. by the model's derivation (`C07_keys`: the RFC 7296 §2.14 key set) — from the nonces,
the SPIs and the shared secret `peer^x mod p` of the proposal's group, for the exponent `x ∈ [2^128, 2^2048−1)` drawn
in this call; the public value handed back is `g^x mod p` -/
theorem C07_gen_newIkeSa_keys (P : Prims) (hP : P.Lawful) (r r' : Rand) (p : Proposal)
    (td te ti tp : Transform) (hd : p.dh.head? = some td) (he : p.encr.head? = some te)
    (hi : p.integ.head? = some ti) (hp : p.prf.head? = some tp)
    (ke nonce : Bytes) (si sr : UInt64) (k' : Gen.security.IKESAKey) (pub : Bytes)
    (h : Gen.security.NewIKESAKey P secG RefineReg.dhG RefineReg.encrG RefineReg.integG RefineReg.prfG r (some p)
        ke nonce si sr = .ok (r', k', pub)) :
    ∃ x : Nat, 2 ^ 128 ≤ x ∧ x < 2 ^ 2048 - 1 ∧
      pub = dhPubFixed (RefineReg.absGroup (decDh td)) x ∧
      genKeyForIKESA P (absSa (saOfTransforms td te ti tp)) nonce
        (dhSharedFixed (RefineReg.absGroup (decDh td)) x (beNat ke)) si sr = (absSa k', .ok ()) := by
  obtain ⟨_, _, _, _, _, _, _, _, x, _, h1, h2, _, h4, _, _, h7⟩ :=
    NewIKESAKey_ok_wf P hP r r' p td te ti tp hd he hi hp ke nonce si sr k' pub h
  exact ⟨x, h1, h2, h4, h7⟩

end Ike
