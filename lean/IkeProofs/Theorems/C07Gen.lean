import IkeProofs.RefineEap.Crypto
import IkeProofs.Theorems.C07

/-! # C07 (prf+) over the code as translated from the current source (`security/lib.PrfPlus`) -/

namespace Ike
open Ike.RefineEap

/-- the generated `lib.PrfPlus` is the model's `prfPlus`, for every lawful primitive -/
theorem C07_gen_prfplus_is_model (P : Prims) (hP : P.Lawful) (prf : Go.Mac) (s : Bytes) (n : Nat) :
    (Gen.lib.PrfPlus P prf s (n : Int)).map (fun r => (absMac r.1, r.2)) =
      (match prfPlus P (absMac prf) s n with | (h', .ok b) => Res.ok (h', b) | (_, .err) => Res.err | (_, .fault) => Res.fault) :=
  PrfPlus_refines_lawful P hP prf s n

/-- the generated `lib.PrfPlus` computes the RFC 7296 §2.13 stream for any state the PRF object is handed over in -/
theorem C07_gen_prfplus (P : Prims) (hP : P.Lawful) (prf : Go.Mac) (s : Bytes) (n : Nat) (hL : 0 < P.macLen prf.h) :
    (Gen.lib.PrfPlus P prf s (n : Int)).map (·.2) = .ok (Spec.prfPlusN (P.mac prf.h) (P.macLen prf.h) prf.key s n) := by
  have h := C07_gen_prfplus_is_model P hP prf s n
  obtain ⟨h1, _, _⟩ := C07_prfplus P hP (absMac prf) s n hL
  cases hp : prfPlus P (absMac prf) s n with
  | mk h' r =>
    rw [hp] at h h1
    simp only at h1
    subst h1
    simp only at h
    cases hg : Gen.lib.PrfPlus P prf s (n : Int) with
    | ok v => rw [hg] at h; simp only [Res.map] at h ⊢; injection h with h; rw [Prod.mk.injEq] at h; rw [h.2]; rfl
    | err => rw [hg] at h; simp [Res.map] at h
    | fault => rw [hg] at h; simp [Res.map] at h

end Ike
