import IkeProofs.Theorems.C12
import IkeProofs.Theorems.C05Parse

/-! # C12, third clause, with an independent definition of "canonical datagram"

`C12_canonical` (in `C12.lean`) speaks about datagrams that ARE the library's encoding of a
message of the encodable domain.  Here "canonical" is defined without the library: a datagram
the strict RFC 7296 parser `Spec.parse` (`IkeModel/Spec/Parse.lean`: zero reserved bits and
critical flags, no unsupported payload types, exact lengths, canonical "last" markers) accepts. -/

namespace Ike

/-- **C12, canonical datagrams** (third clause): every datagram that the independent strict
RFC 7296 parser accepts, with fields in the encodable domain, is decoded by the library, and
re-encoding the decoded message is byte-identical to the input. -/
theorem C12_canonical_datagram (bs : Bytes) (m : Msg) (hd : m.Dom) (hp : Spec.parse bs = some m) :
    ∃ m' h', decodeMsg bs = .ok m' ∧ encodeMsg m' = .ok (bs, h') := by
  have hs : Spec.encode [] m = .ok bs := C05_parse_strict bs m hp
  have he := C05_encode_is_rfc m hd
  rw [show Spec.canonical = [] from rfl, hs] at he
  cases hm : encodeMsg m with
  | err => rw [hm] at he; cases he
  | fault => rw [hm] at he; cases he
  | ok x =>
    obtain ⟨b, h'⟩ := x
    rw [hm] at he
    have hb : b = bs := by
      have := he
      simp only [Functor.map] at this
      first
        | exact Res.ok.inj this
        | (injection this)
    subst hb
    obtain ⟨m', k1, k2⟩ := C12_canonical m b h' hd hm
    exact ⟨m', h', k1, k2⟩

/-- and that decoded message carries exactly the fields the independent parser reads -/
theorem C12_canonical_datagram_fields (bs : Bytes) (m : Msg) (hd : m.Dom) (hp : Spec.parse bs = some m) :
    ∃ m', decodeMsg bs = .ok m' ∧ m'.payloads = m.payloads :=
  let ⟨m', h, hp', _⟩ := C05_parser_decoder_agree bs m hd hp
  ⟨m', h, hp'⟩

/-- non-vacuity: the hypotheses are met by a concrete datagram with ten payload kinds (the encoding
of `c05pSample`: the strict parser reads it back to that message, which lies in the domain) -/
example : ∃ bs, Spec.parse bs = some ⟨{ c05pSample.hdr with next := 33, payloadBytes := bs.drop 28 }, c05pSample.payloads⟩
    ∧ 28 < bs.length := by
  cases h : Spec.encode [] c05pSample with
  | ok bs => exact ⟨bs, by
      have := (by decide +kernel : (match Spec.encode [] c05pSample with
        | .ok bs => decide (Spec.parse bs = some ⟨{ c05pSample.hdr with next := 33, payloadBytes := bs.drop 28 }, c05pSample.payloads⟩
            ∧ 28 < bs.length)
        | _ => false) = true)
      rw [h] at this
      simpa using this⟩
  | err => exact absurd h (by decide +kernel)
  | fault => exact absurd h (by decide +kernel)

end Ike
