import IkeProofs.Theorems.C05
import IkeProofs.Lemmas.Parse

/-!
# C05, parser side — an independently written parser recovers exactly the fields that were encoded

`Spec.parse` (IkeModel/Spec/Parse.lean) is a STRICT RFC 7296 §3 parser written from the RFC's
figures; it shares no definition with the model of the library's decoder (`IkeModel/Message/*`).
With the independent encoder `Spec.encode` (IkeModel/Spec/Wire.lean) it forms the independent
codec of the property.

* `C05_parse_spec_encode`: the parser reads every datagram the independent encoder writes (strict
  sender) for a message of the encodable domain back to exactly that message.
* `C05_independent_parser_recovers`: the same for the datagram `IKEMessage.Encode` returns — the
  clause "an independently written parser recovers exactly the fields that were encoded".
* `C05_parse_strict`: whatever the parser accepts is canonical — the encoder writes it again octet
  for octet from the parsed fields; parser and encoder are mutually inverse on the parser's image.
  So everything the parser checks (lengths = extents, "last" markers, zero reserved fields and
  flag octets, chain ending on 0) holds of every datagram `IKEMessage.Encode` produces, because
  the parser accepts it.
* `C05_parser_decoder_agree`: on every datagram the independent parser accepts (fields in the
  domain) the library's decoder returns the same fields.
-/

set_option linter.unusedSimpArgs false
set_option linter.unusedVariables false

namespace Ike
open Spec ParseLemmas

/-! ## per payload body and per chain -/

/-- **one payload body, encoder → parser**: the body the independent encoder writes for a payload
of the domain (all reserved fields zero, transforms in type order) is read back by the parser,
under the payload's type code, as exactly that payload — every field of every proposal,
transform, attribute, selector, configuration attribute. -/
theorem C05_parse_body (p : Payload) (hd : p.Dom) (b : Bytes) (h : encodeBody {} p = .ok b) :
    parseBody (payloadType p) b = some p :=
  parseBody_encode p hd b h

/-- **one payload body, parser → encoder**: a body the strict parser accepts under type `t` is the
canonical encoding of the payload it returns, and that payload has type `t`. -/
theorem C05_parse_strict_body (t : UInt8) (b : Bytes) (p : Payload) (h : parseBody t b = some p) :
    encodeBody {} p = .ok b ∧ payloadType p = t :=
  encodeBody_parse t b p h

/-- **payload chain, encoder → parser**: the §3.2 chain written for payloads of the domain parses
back, from the type of its first payload, to exactly these payloads in order. -/
theorem C05_parse_chain (ps : List Payload) (hd : ∀ p ∈ ps, p.Dom) (bs : Bytes)
    (h : encodePayloads [] ps = .ok bs) : parseChain (bs.length + 1) (firstPayloadType ps) bs = some ps :=
  parseChain_encode ps hd bs h _ (Nat.lt_succ_self _)

/-- **payload chain, parser → encoder**: a chain the strict parser accepts (with whatever fuel)
from first type `t` is the canonical chain of the payloads it returns, and `t` is the type of the
first of them (0 for none). -/
theorem C05_parse_strict_chain (fuel : Nat) (t : UInt8) (bs : Bytes) (ps : List Payload)
    (h : parseChain fuel t bs = some ps) : encodePayloads [] ps = .ok bs ∧ firstPayloadType ps = t :=
  encodePayloads_parse fuel t bs ps h

/-! ## whole datagrams -/

/-- **C05, independent parser against independent encoder**: for every message of the encodable
domain the strict parser reads the datagram of the strict sender back to the message: the same
payload list and the same header in every field the sender chooses (SPIs, versions, exchange type,
flags, message ID); the two derived header fields are the Next Payload octet (= type of the first
payload) and the octets after the 28-octet header. -/
theorem C05_parse_spec_encode (m : Msg) (hd : m.Dom) (bs : Bytes) (h : Spec.encode [] m = .ok bs) :
    Spec.parse bs =
      some ⟨{ m.hdr with next := firstPayloadType m.payloads, payloadBytes := bs.drop 28 }, m.payloads⟩ :=
  parse_encode m hd bs h

/-- **C05, "an independently written parser recovers exactly the fields that were encoded"**: for
every message of the encodable domain, the independent strict parser applied to the datagram
returned by `IKEMessage.Encode` succeeds and returns the payload list of the message and exactly
the header `Encode` leaves in the message (the caller's fields, Next Payload = type of the first
payload, the payload octets). -/
theorem C05_independent_parser_recovers (m : Msg) (hd : m.Dom) (bs : Bytes) (h' : Header)
    (h : encodeMsg m = .ok (bs, h')) : Spec.parse bs = some ⟨h', m.payloads⟩ := by
  have hs : Spec.encode [] m = .ok bs := by
    have := C05_encode_is_rfc m hd
    rw [h] at this
    exact this.symm
  have hp := parse_encode m hd bs hs
  obtain ⟨_, _, _, w4⟩ := C05_wf_header_len [] m bs hs
  unfold encodeMsg at h
  rw [C05_encode_chain_is_rfc m.payloads hd.2.2, w4] at h
  simp only [Res.bind_ok] at h
  cases hm : marshalHeader { m.hdr with next := firstType m.payloads, payloadBytes := bs.drop 28 } with
  | err => rw [hm] at h; simp at h
  | fault => rw [hm] at h; simp at h
  | ok b2 =>
    rw [hm] at h
    simp only [Res.bind_ok, Res.ok.injEq, Prod.mk.injEq] at h
    obtain ⟨_, rfl⟩ := h
    rw [hp, firstPayloadType_eq]

/-- **C05, the parser is strict**: every datagram the parser accepts is the datagram the strict
sender writes for the fields the parser returned — parser and independent encoder are inverse to
each other on the parser's image.  Hence nothing non-canonical is accepted: no flag octet or
reserved field other than zero, no length that is not the real extent, no wrong "last
substructure" marker, no chain that does not end on Next Payload = 0 at the end of the datagram,
no transforms out of type order. -/
theorem C05_parse_strict (bs : Bytes) (m : Msg) (h : Spec.parse bs = some m) : Spec.encode [] m = .ok bs :=
  encode_parse bs m h

/-- two datagrams that parse to the same message are the same datagram -/
theorem C05_parse_injective (bs bs' : Bytes) (m : Msg) (h : Spec.parse bs = some m)
    (h' : Spec.parse bs' = some m) : bs = bs' := by
  have e := C05_parse_strict bs m h
  rw [C05_parse_strict bs' m h'] at e
  exact (Res.ok.inj e).symm

/-- **every datagram the parser accepts is well-formed** in the sense of the `C05_wf_*` facts:
header Length = datagram size, the header names the first payload, the walk along the length
fields visits exactly the returned payloads and ends on 0, every critical / reserved flag bit is 0.
With `C05_independent_parser_recovers` this applies to every datagram `IKEMessage.Encode` returns. -/
theorem C05_parse_accepts_wellformed (bs : Bytes) (m : Msg) (h : Spec.parse bs = some m) :
    28 ≤ bs.length ∧
    (byteAt bs 24).toNat * 16777216 + (byteAt bs 25).toNat * 65536 + (byteAt bs 26).toNat * 256 +
      (byteAt bs 27).toNat = bs.length ∧
    byteAt bs 16 = firstPayloadType m.payloads ∧
    ∃ l, chainView [] m.payloads = .ok l ∧
      walkChain (bs.drop 28).length (firstPayloadType m.payloads) (bs.drop 28) = some l ∧
      ∀ x ∈ l, x.2.1 = 0 := by
  have hs := C05_parse_strict bs m h
  obtain ⟨w1, w2, w3, w4⟩ := C05_wf_header_len [] m bs hs
  obtain ⟨l, hv, hw⟩ := C05_wf_chain [] m.payloads (bs.drop 28) w4
  exact ⟨w1, w2, w3, l, hv, hw, C05_wf_flags_zero m.payloads l hv⟩

/-- **the library's decoder agrees with the independent parser**: on every datagram the strict
parser accepts with fields in the encodable domain, `IKEMessage.Decode` succeeds and returns the
same payloads and header fields. -/
theorem C05_parser_decoder_agree (bs : Bytes) (m : Msg) (hd : m.Dom) (h : Spec.parse bs = some m) :
    ∃ m', decodeMsg bs = .ok m' ∧ m'.payloads = m.payloads ∧
      m'.hdr.ispi = m.hdr.ispi ∧ m'.hdr.rspi = m.hdr.rspi ∧ m'.hdr.major = m.hdr.major ∧
      m'.hdr.minor = m.hdr.minor ∧ m'.hdr.exch = m.hdr.exch ∧ m'.hdr.flags = m.hdr.flags ∧
      m'.hdr.mid = m.hdr.mid :=
  C05_decode_liberal [] m bs hd (by cases m.payloads <;> trivial) (C05_parse_strict bs m h)

/-! ## non-vacuity and evaluation -/

/-- SA with two proposals (TV and TLV attributes, attribute-less transforms, four transform types),
KE, Nonce, Notify with SPI, TSi (IPv4) and TSr (IPv6), CP with two attributes, Delete, EAP -/
def c05pSample : Msg :=
  ⟨{ ispi := 0x0102030405060708, rspi := 0x1112131415161718, major := 2, minor := 0, exch := 35, flags := 8,
     mid := 0x01020304 },
   [.sa [⟨1, 3, [1, 2, 3, 4], [⟨1, 12, true, 1, 14, 256, []⟩, ⟨1, 20, true, 1, 14, 128, []⟩],
           [⟨2, 5, false, 0, 0, 0, []⟩, ⟨2, 7, true, 0, 9, 0, [0xaa, 0xbb, 0xcc]⟩], [], [⟨4, 14, false, 0, 0, 0, []⟩], []⟩,
         ⟨2, 3, [], [⟨1, 12, true, 1, 14, 192, []⟩], [], [⟨3, 12, false, 0, 0, 0, []⟩], [],
           [⟨5, 0, false, 0, 0, 0, []⟩, ⟨5, 1, false, 0, 0, 0, []⟩]⟩],
    .ke 14 [9, 8, 7], .nonce [1, 2, 3, 4], .notify 3 16393 [0xde, 0xad, 0xbe, 0xef] [5, 6],
    .tsi [⟨7, 17, 0, 65535, [10, 0, 0, 1], [10, 0, 0, 9]⟩, ⟨7, 0, 80, 443, [192, 168, 0, 0], [192, 168, 255, 255]⟩],
    .tsr [⟨8, 0, 0, 65535, [0x20, 1, 0xd, 0xb8, 0, 0, 0, 0, 0, 0, 0, 0, 0, 0, 0, 0],
            [0x20, 1, 0xd, 0xb8, 0xff, 0xff, 0xff, 0xff, 0xff, 0xff, 0xff, 0xff, 0xff, 0xff, 0xff, 0xff]⟩],
    .cp 1 [⟨1, []⟩, ⟨8, [1, 2]⟩], .delete 3 4 2 [0xdeadbeef, 0x01020304],
    .eap ⟨1, 7, .expanded 0x0028af 3 [1, 0]⟩]⟩

/-- the sample lies in the encodable domain: the hypotheses of the theorems above are satisfiable -/
example : c05pSample.Dom := by
  refine ⟨by decide, by decide, ?_⟩
  intro p hp
  simp only [c05pSample, List.mem_cons, List.mem_nil_iff, or_false] at hp
  rcases hp with rfl | rfl | rfl | rfl | rfl | rfl | rfl | rfl | rfl
  · simp [Payload.Dom, Proposal.Dom, Transform.Dom]
    decide
  · simp [Payload.Dom]
  · simp [Payload.Dom]
  · simp [Payload.Dom]
  · simp [Payload.Dom]
  · simp [Payload.Dom]
  · simp [Payload.Dom]
  · simp [Payload.Dom]
  · show DomEap _
    decide

example : (Spec.encode [] c05pSample).isOk = true := by decide +kernel
example : (encodeMsg c05pSample).isOk = true := by decide +kernel

/-- the sample, evaluated: the parser applied to the independent encoder's datagram returns the
message (payloads and all sender-chosen header fields; Next Payload = 33 = SA) -/
example : (match Spec.encode [] c05pSample with
    | .ok bs => decide (Spec.parse bs =
        some ⟨{ c05pSample.hdr with next := 33, payloadBytes := bs.drop 28 }, c05pSample.payloads⟩)
    | _ => false) = true := by decide +kernel

/-- … and applied to what the model of `IKEMessage.Encode` returns, it returns the updated header
and the payloads -/
example : (match encodeMsg c05pSample with
    | .ok (bs, h') => decide (Spec.parse bs = some ⟨h', c05pSample.payloads⟩)
    | _ => false) = true := by decide +kernel

/-- the captured IKE_SA_INIT datagram of message/message_test.go parses to the fields it was built from -/
example : (Spec.parse c05InitWire).map (·.payloads) = some c05InitMsg.payloads := by decide +kernel

/-- the hypothesis of `C05_parse_strict` / `C05_parse_accepts_wellformed` is satisfiable -/
example : (Spec.parse c05InitWire).isSome = true := by decide +kernel

/-- an EAP payload carrying EAP-AKA' attributes (AT_RAND, AT_AUTN, AT_MAC, AT_KDF) -/
def c05pAka : Eap :=
  ⟨1, 2, .aka ⟨1, 0, [⟨1, 5, 0, zeros 16⟩, ⟨2, 5, 0, zeros 16⟩, ⟨11, 5, 0, zeros 16⟩, ⟨24, 1, 0, [0, 1]⟩]⟩⟩

example : (Payload.eap c05pAka).Dom := by show DomEap _; decide
example : (match encodeBody {} (.eap c05pAka) with | .ok b => parseBody 48 b | _ => none) = some (.eap c05pAka) := by
  decide +kernel

/-! strictness, evaluated: the liberties of `c05Libs` (critical bit, reserved bits and octets,
R bit, transforms out of type order) give a datagram the library decodes (`C05_decode_liberal`)
and the strict parser refuses; so does a datagram with a trailing octet, with a wrong header
length, or with a cleared "last proposal" marker. -/
example : (match Spec.encode c05Libs c05Sample with | .ok bs => Spec.parse bs | _ => none) = none := by
  decide +kernel
example : (match Spec.encode [{ flags := 0x80 }] c05pSample with | .ok bs => Spec.parse bs | _ => none) = none := by
  decide +kernel
example : (match Spec.encode [{}, { r1 := 1 }] c05pSample with | .ok bs => Spec.parse bs | _ => none) = none := by
  decide +kernel
example : (match Spec.encode [] c05pSample with | .ok bs => Spec.parse (bs ++ [0]) | _ => none) = none := by
  decide +kernel
example : (match Spec.encode [] c05pSample with | .ok bs => Spec.parse (bs.take 28 ++ [33, 0, 0, 4]) | _ => none) = none := by
  decide +kernel
/-- "last substruc" of the first of two proposals set to 0 -/
example : (match Spec.encode [] c05pSample with
    | .ok bs => Spec.parse (bs.take 32 ++ [0] ++ bs.drop 33) | _ => none) = none := by
  decide +kernel

end Ike
