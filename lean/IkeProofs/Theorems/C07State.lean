import IkeProofs.Theorems.C18

namespace Ike
open Footprint

/-- **C07, "for every history / every call": no state outside the objects passed in.**  The property quantifies
over call sequences; its theorems are about a model in which a call's result is a function of its arguments and of
the objects it is given.  That the code has no other memory is the regenerated fact behind
`C18_globals_init_only` (every non-read use of a package-level variable is in `init`, in a `sync.Once`
initialiser, or is a lock) and `C18_descriptors_immutable` (the shared registry objects are never written through);
it is re-stated here so that this property's check fails with them. -/
theorem C07_no_state_outside_objects :
    (∀ u ∈ globalUses, u.2.2.1 = "init" ∨ u.2.2.1 = "once-init" ∨ u.2.2.2 = "sync-primitive" ∨ u ∈ c18ReadOnlyEscapes) ∧
      descriptorWrites = [] :=
  ⟨C18_globals_init_only, C18_descriptors_immutable⟩

end Ike
