import IkeProofs.Refine.Transfer
import IkeProofs.Theorems.C05
import IkeProofs.Theorems.C05Parse

/-! # C05 over the code as translated from the current source (`tools/go2lean`) -/

namespace Ike
open Ike.Refine Ike.Gen.message Ike.Spec

/-- what the generated encoder writes is the RFC 7296 §3 wire form (independent specification, no
sender liberties), for every message of the encodable domain -/
theorem C05_gen_encode_is_rfc (m : Msg) (hd : m.Dom) :
    Prod.fst <$> genEncode m = Spec.encode canonical m := by
  rw [genEncode_eq]; exact C05_encode_is_rfc m hd

/-- every datagram the specification admits for `m` under any admissible sender liberties is decoded
to `m` by the generated decoder -/
theorem C05_gen_decode_liberal (ls : List Lib) (m : Msg) (bs : Bytes) (hd : m.Dom)
    (ha : LibsAdmissible ls m.payloads) (h : Spec.encode ls m = .ok bs) :
    ∃ m', genDecode bs = .ok (some m') ∧ m'.payloads = m.payloads ∧
      m'.hdr.ispi = m.hdr.ispi ∧ m'.hdr.rspi = m.hdr.rspi ∧ m'.hdr.major = m.hdr.major ∧
      m'.hdr.minor = m.hdr.minor ∧ m'.hdr.exch = m.hdr.exch ∧ m'.hdr.flags = m.hdr.flags ∧
      m'.hdr.mid = m.hdr.mid := by
  obtain ⟨m', k, rest⟩ := C05_decode_liberal ls m bs hd ha h
  exact ⟨m', genDecode_ok.mpr k, rest⟩

/-- the independent strict parser reads back what the generated encoder wrote -/
theorem C05_gen_independent_parser_recovers (m : Msg) (hd : m.Dom) (bs : Bytes) (h' : Header)
    (h : genEncode m = .ok (bs, h')) : Spec.parse bs = some ⟨h', m.payloads⟩ := by
  rw [genEncode_eq] at h; exact C05_independent_parser_recovers m hd bs h' h

end Ike
