import IkeProofs.Refine.Transfer
import IkeProofs.RefineEap.Glue
import IkeProofs.Theorems.C12
import IkeProofs.Theorems.C12Canonical

/-! # C12 over the code as translated from the current source (`tools/go2lean`) -/

namespace Ike
open Ike.Refine Ike.Gen.message

/-- decode, encode, decode with the generated functions: the second decode returns the fields of
the first, for EVERY datagram -/
theorem C12_gen_stable (bs bs' : Bytes) (m : Msg) (h' : Header)
    (hd : genDecode bs = .ok (some m)) (he : genEncode m = .ok (bs', h')) :
    ∃ m', genDecode bs' = .ok (some m') ∧ m'.payloads = m.payloads ∧
      m'.hdr.ispi = m.hdr.ispi ∧ m'.hdr.rspi = m.hdr.rspi ∧ m'.hdr.major = m.hdr.major ∧
      m'.hdr.minor = m.hdr.minor ∧ m'.hdr.exch = m.hdr.exch ∧ m'.hdr.flags = m.hdr.flags ∧
      m'.hdr.mid = m.hdr.mid := by
  rw [genEncode_eq] at he
  obtain ⟨m', k, rest⟩ := C12_stable bs bs' m h' (genDecode_ok.mp hd) he
  exact ⟨m', genDecode_ok.mpr k, rest⟩

/-- the re-encoding is a fixed point of decode ∘ encode -/
theorem C12_gen_fixed_point (bs bs' : Bytes) (m : Msg) (h' : Header)
    (hd : genDecode bs = .ok (some m)) (he : genEncode m = .ok (bs', h')) :
    ∃ m', genDecode bs' = .ok (some m') ∧ genEncode m' = .ok (bs', h') := by
  rw [genEncode_eq] at he
  obtain ⟨m', k, e⟩ := C12_fixed_point bs bs' m h' (genDecode_ok.mp hd) he
  exact ⟨m', genDecode_ok.mpr k, by rw [genEncode_eq]; exact e⟩

/-- canonical datagrams (accepted by the independent strict RFC 7296 parser, fields in the domain)
are decoded and re-encoded byte-identically by the generated functions -/
theorem C12_gen_canonical_datagram (bs : Bytes) (m : Msg) (hd : m.Dom) (hp : Spec.parse bs = some m) :
    ∃ m' h', genDecode bs = .ok (some m') ∧ genEncode m' = .ok (bs, h') := by
  obtain ⟨m', h', k, e⟩ := C12_canonical_datagram bs m hd hp
  exact ⟨m', h', genDecode_ok.mpr k, by rw [genEncode_eq]; exact e⟩

end Ike

/-! ### EAP packets (package `eap` as translated) -/

namespace Ike
open Ike.RefineEap

/-- decode, encode, decode with the generated EAP functions: the second decode returns the packet of the first -/
theorem C12_gen_eap_stable (bs bs' : Bytes) (g : Gen.eap.EAP)
    (hd : Gen.eap.EAP.Unmarshal {} bs = .ok g) (he : Gen.eap.EAP.Marshal g = .ok bs') :
    (Gen.eap.EAP.Unmarshal {} bs').map GenAbs.absEap = .ok (GenAbs.absEap g) := by
  have hwf := Gen_EAP_Unmarshal_wf bs g hd
  have h1 : unmarshalEap bs = .ok (GenAbs.absEap g) := by
    have := Gen_EAP_Unmarshal bs
    rw [hd] at this
    exact this.symm
  rw [Gen_EAP_Marshal g hwf] at he
  rw [Gen_EAP_Unmarshal]
  exact C12_eap_stable bs bs' (GenAbs.absEap g) h1 he

end Ike
