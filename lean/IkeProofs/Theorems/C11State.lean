import IkeProofs.Theorems.C18

namespace Ike
open Footprint

/-- **C11, "for every history": no state outside the objects passed in.**  The mapping between names,
descriptor objects and transforms is proved for a model in which a lookup depends on its argument and
on the registry tables only; that the registries are written in `init` only (never filled lazily by
one entry point and read by another) and that the descriptor objects are never written through is the
regenerated fact behind `C18_globals_init_only` / `C18_descriptors_immutable`, re-stated here so that
this property's check fails with them (the first-use-order suite then looks for the failing history). -/
theorem C11_no_state_outside_objects :
    (∀ u ∈ globalUses, u.2.2.1 = "init" ∨ u.2.2.1 = "once-init" ∨ u.2.2.2 = "sync-primitive" ∨ u ∈ c18ReadOnlyEscapes) ∧
      descriptorWrites = [] :=
  ⟨C18_globals_init_only, C18_descriptors_immutable⟩

end Ike
