import IkeProofs.Lemmas.RoundTrip
import IkeModel.Message.Build
import IkeModel.Spec.Ts24502

/-!
# C19 — constructors and builders yield exactly the specified payloads, 3GPP ones too

One theorem per function of `message/build.go` (model: `Ike.Build`), the header
constructor and flag accessors of `message/header.go`, the 3GPP helpers against
the independent TS 24.502 layouts of `IkeModel/Spec/Ts24502.lean`, and the
length limits that are enforced when a built value is encoded.

A container is the list of its elements and a builder returns the new
container, so `build c args = c ++ [x]` says at once that exactly one element
was appended, that it is `x` (whose fields are the arguments), and that the
earlier elements are untouched (`C19_append_frame`).  For builders returning
`Res`, `err` means the Go function returned an error before touching the
container.
-/

set_option linter.unusedSimpArgs false
set_option linter.unusedVariables false

namespace Ike
open Build

/-! ## generic payload builders -/

/-- C19, "leaves earlier payloads untouched", once and for all: appending one
element changes nothing at the old positions, puts the element at the end and
makes the container one longer. -/
theorem C19_append_frame {α : Type} (c : List α) (x : α) :
    (c ++ [x]).length = c.length + 1 ∧ (c ++ [x]).take c.length = c ∧
    (∀ i, i < c.length → (c ++ [x])[i]? = c[i]?) ∧ (c ++ [x])[c.length]? = some x := by
  refine ⟨by simp, by simp, fun i hi => List.getElem?_append_left hi, by simp⟩

/-- `Reset` of every container type empties it -/
theorem C19_reset {α : Type} (c : List α) : reset c = [] := rfl

/-- `BuildNotification` appends exactly the Notify payload with the given protocol, type, SPI and data -/
theorem C19_buildNotification (c : List Payload) (proto : UInt8) (ntype : UInt16) (spi data : Bytes) :
    buildNotification c proto ntype spi data = c ++ [.notify proto ntype spi data] := rfl

/-- `BuildCertificate` -/
theorem C19_buildCertificate (c : List Payload) (enc : UInt8) (d : Bytes) :
    buildCertificate c enc d = c ++ [.cert enc d] := rfl

/-- `BuildEncrypted` -/
theorem C19_buildEncrypted (c : List Payload) (next : UInt8) (d : Bytes) :
    buildEncrypted c next d = c ++ [.sk next d] := rfl

/-- `BUildKeyExchange` -/
theorem C19_buildKeyExchange (c : List Payload) (group : UInt16) (d : Bytes) :
    buildKeyExchange c group d = c ++ [.ke group d] := rfl

/-- `BuildIdentificationInitiator` -/
theorem C19_buildIdentificationInitiator (c : List Payload) (t : UInt8) (d : Bytes) :
    buildIdentificationInitiator c t d = c ++ [.idi t d] := rfl

/-- `BuildIdentificationResponder` -/
theorem C19_buildIdentificationResponder (c : List Payload) (t : UInt8) (d : Bytes) :
    buildIdentificationResponder c t d = c ++ [.idr t d] := rfl

/-- `BuildAuthentication` -/
theorem C19_buildAuthentication (c : List Payload) (m : UInt8) (d : Bytes) :
    buildAuthentication c m d = c ++ [.auth m d] := rfl

/-- `BuildConfiguration`: a Configuration payload of the given type without attributes -/
theorem C19_buildConfiguration (c : List Payload) (ctype : UInt8) :
    buildConfiguration c ctype = c ++ [.cp ctype []] := rfl

/-- `BuildConfigurationAttribute` (sub-container) -/
theorem C19_buildConfigurationAttribute (l : List CPAttr) (t : UInt16) (v : Bytes) :
    buildConfigurationAttribute l t v = l ++ [⟨t, v⟩] := rfl

/-- `BuildNonce` -/
theorem C19_buildNonce (c : List Payload) (d : Bytes) : buildNonce c d = c ++ [.nonce d] := rfl

/-- `BuildTrafficSelectorInitiator`: an empty TSi payload -/
theorem C19_buildTrafficSelectorInitiator (c : List Payload) :
    buildTrafficSelectorInitiator c = c ++ [.tsi []] := rfl

/-- `BuildTrafficSelectorResponder`: an empty TSr payload -/
theorem C19_buildTrafficSelectorResponder (c : List Payload) :
    buildTrafficSelectorResponder c = c ++ [.tsr []] := rfl

/-- `BuildIndividualTrafficSelector` (sub-container) -/
theorem C19_buildIndividualTrafficSelector (l : List TSel) (tstype proto : UInt8) (sport eport : UInt16)
    (saddr eaddr : Bytes) :
    buildIndividualTrafficSelector l tstype proto sport eport saddr eaddr
      = l ++ [⟨tstype, proto, sport, eport, saddr, eaddr⟩] := rfl

/-- `BuildSecurityAssociation`: an SA payload without proposals -/
theorem C19_buildSecurityAssociation (c : List Payload) :
    buildSecurityAssociation c = c ++ [.sa []] := rfl

/-- `BuildProposal` (sub-container): number, protocol, SPI as given, no transforms -/
theorem C19_buildProposal (l : List Proposal) (num proto : UInt8) (spi : Bytes) :
    buildProposal l num proto spi = l ++ [⟨num, proto, spi, [], [], [], [], []⟩] := rfl

/-- `BuildDeletePayload` -/
theorem C19_buildDeletePayload (c : List Payload) (proto spiSize : UInt8) (num : UInt16) (spis : List UInt32) :
    buildDeletePayload c proto spiSize num spis = c ++ [.delete proto spiSize num spis] := rfl

/-- `BuildEAP` -/
theorem C19_buildEAP (c : List Payload) (code ident : UInt8) :
    buildEAP c code ident = c ++ [.eap ⟨code, ident, .none⟩] := rfl

/-- `BuildEAP` followed by the assignment of the method data on the returned element -/
theorem C19_buildEAPWith (c : List Payload) (code ident : UInt8) (data : EapData) :
    buildEAPWith c code ident data = c ++ [.eap ⟨code, ident, data⟩] := rfl

/-- `BuildEAPSuccess`: code 3 -/
theorem C19_buildEAPSuccess (c : List Payload) (ident : UInt8) :
    buildEAPSuccess c ident = c ++ [.eap ⟨3, ident, .none⟩] := rfl

/-- `BuildEAPfailure`: code 4 -/
theorem C19_buildEAPfailure (c : List Payload) (ident : UInt8) :
    buildEAPfailure c ident = c ++ [.eap ⟨4, ident, .none⟩] := rfl

/-- `BuildEapExpanded` -/
theorem C19_buildEapExpanded (vid vtype : UInt32) (d : Bytes) :
    buildEapExpanded vid vtype d = .expanded vid vtype d := rfl

/-! ### `BuildTransform` -/

/-- `BuildTransform` (sub-container), all argument shapes:
no attribute type ⇒ a transform without attribute (value arguments ignored);
type and fixed value ⇒ a TV attribute; type and a non-empty variable-length
value ⇒ a TLV attribute; type without any value ⇒ NOTHING is appended. -/
theorem C19_buildTransform (l : List Transform) (ttype : UInt8) (tid : UInt16) (vval : Bytes) :
    (∀ aval, buildTransform l ttype tid none aval vval = l ++ [⟨ttype, tid, false, 0, 0, 0, []⟩]) ∧
    (∀ ty av, buildTransform l ttype tid (some ty) (some av) vval = l ++ [⟨ttype, tid, true, 1, ty, av, []⟩]) ∧
    (∀ ty, vval ≠ [] →
      buildTransform l ttype tid (some ty) none vval = l ++ [⟨ttype, tid, true, 0, ty, 0, vval⟩]) ∧
    (∀ ty, buildTransform l ttype tid (some ty) none [] = l) := by
  refine ⟨fun _ => rfl, fun _ _ => rfl, fun ty hv => ?_, fun _ => rfl⟩
  have : vval.length ≠ 0 := fun h => hv (List.eq_nil_of_length_eq_zero h)
  simp [buildTransform, this, Facts.attrFormatTLV]

/-- the dropped case is the only one in which `BuildTransform` leaves the container as it is -/
theorem C19_buildTransform_dropped_iff (l : List Transform) (ttype : UInt8) (tid : UInt16)
    (atype aval : Option UInt16) (vval : Bytes) :
    buildTransform l ttype tid atype aval vval = l ↔ atype.isSome ∧ aval = none ∧ vval = [] := by
  have hne : ∀ x : Transform, l ++ [x] ≠ l := by
    intro x h
    have := congrArg List.length h
    simp at this
  cases atype with
  | none => simp [buildTransform, hne]
  | some ty =>
    cases aval with
    | some av => simp [buildTransform, hne]
    | none =>
      cases vval with
      | nil => simp [buildTransform]
      | cons b bs => simp [buildTransform, hne]

/-- every transform `BuildTransform` appends (attribute type below 2¹⁵) is in the
encodable domain of the SA codec, hence survives encoding and decoding
(`parseTransform_marshal`) -/
theorem C19_buildTransform_dom (ttype : UInt8) (tid : UInt16) (atype aval : Option UInt16) (vval : Bytes)
    (hty : ∀ ty, atype = some ty → ty.toNat < 32768) :
    ∀ t ∈ buildTransform [] ttype tid atype aval vval, t.Dom := by
  cases atype with
  | none => intro t ht; simp [buildTransform] at ht; subst ht; left; simp
  | some ty =>
    have h := hty ty rfl
    cases aval with
    | some av =>
      intro t ht; simp [buildTransform] at ht; subst ht; right; left
      simp [h, Facts.attrFormatTV]
    | none =>
      cases vval with
      | nil => intro t ht; simp [buildTransform] at ht
      | cons b bs =>
        intro t ht; simp [buildTransform] at ht; subst ht; right; right
        simp [h, Facts.attrFormatTLV]

example : buildTransform [⟨1, 12, true, 1, 14, 128, []⟩] 3 12 none (some 7) [9] =
    [⟨1, 12, true, 1, 14, 128, []⟩, ⟨3, 12, false, 0, 0, 0, []⟩] ∧
    buildTransform [] 1 12 (some 14) none [] = [] := by decide

/-! ## header constructor and flag accessors -/

theorem newHeader_flag_bits (response initiator : Bool) :
    ((if response then Facts.responseBit else 0) ||| (if initiator then Facts.initiatorBit else 0) : UInt8)
      = (if response then 0x20 else 0) ||| (if initiator then 0x08 else 0) ∧
    ((((if response then Facts.responseBit else 0) ||| (if initiator then Facts.initiatorBit else 0) : UInt8)
      &&& Facts.responseBit) != 0) = response ∧
    ((((if response then Facts.responseBit else 0) ||| (if initiator then Facts.initiatorBit else 0) : UInt8)
      &&& Facts.initiatorBit) != 0) = initiator := by
  cases response <;> cases initiator <;> decide

/-- C19, `NewHeader`: version 2.0, SPIs / exchange type / message ID / next
payload / payload octets as given, flags = (0x20 if response) | (0x08 if
initiator) and no other bit, and the accessors report the two requests back. -/
theorem C19_newHeader (ispi rspi : UInt64) (exch : UInt8) (response initiator : Bool) (mid : UInt32)
    (next : UInt8) (pb : Bytes) :
    let h := newHeader ispi rspi exch response initiator mid next pb
    h.major = 2 ∧ h.minor = 0 ∧ h.ispi = ispi ∧ h.rspi = rspi ∧ h.exch = exch ∧ h.mid = mid ∧
    h.next = next ∧ h.payloadBytes = pb ∧
    h.flags = (if response then 0x20 else 0) ||| (if initiator then 0x08 else 0) ∧
    h.isResponse = response ∧ h.isInitiator = initiator := by
  have hb := newHeader_flag_bits response initiator
  exact ⟨rfl, rfl, rfl, rfl, rfl, rfl, rfl, rfl, hb.1, hb.2.1, hb.2.2⟩

set_option maxRecDepth 100000 in
theorem flag_bits_fin : ∀ x : Fin 256,
    (((UInt8.ofNat x.val &&& 32) != 0) = decide (x.val / 32 % 2 = 1)) ∧
    (((UInt8.ofNat x.val &&& 8) != 0) = decide (x.val / 8 % 2 = 1)) := by decide

/-- C19, `IsResponse` / `IsInitiator` on an ARBITRARY header (all 256 flag
octets, whatever the other bits): they read exactly bit 5 (0x20) and bit 3
(0x08) of the flags octet. -/
theorem C19_flag_accessors (h : Header) :
    (h.isResponse = true ↔ h.flags.toNat / 32 % 2 = 1) ∧
    (h.isInitiator = true ↔ h.flags.toNat / 8 % 2 = 1) := by
  have := flag_bits_fin ⟨h.flags.toNat, h.flags.toNat_lt⟩
  simp only [UInt8.ofNat_toNat] at this
  have e1 : Facts.responseBit = 32 := rfl
  have e2 : Facts.initiatorBit = 8 := rfl
  unfold Header.isResponse Header.isInitiator
  rw [e1, e2, this.1, this.2]
  simp

example : (⟨1, 2, 2, 0, 34, 0xF7, 0, 0, []⟩ : Header).isResponse = true ∧
    (⟨1, 2, 2, 0, 34, 0xF7, 0, 0, []⟩ : Header).isInitiator = false := by decide

/-- C19, the constructed header on the wire: octet 17 is 0x20 (version 2.0),
octet 19 the flags, the length field 28 + payload octets. -/
theorem C19_newHeader_wire (ispi rspi : UInt64) (exch : UInt8) (response initiator : Bool) (mid : UInt32)
    (next : UInt8) (pb : Bytes) (hlen : 28 + pb.length ≤ 0xFFFFFFFF) :
    marshalHeader (newHeader ispi rspi exch response initiator mid next pb) =
      .ok (put64 ispi ++ put64 rspi ++
           [next, 0x20, exch, (if response then 0x20 else 0) ||| (if initiator then 0x08 else 0)] ++
           put32 mid ++ put32 (UInt32.ofNat (28 + pb.length)) ++ pb) := by
  unfold marshalHeader newHeader
  have e : Facts.ikeHeaderLen = 28 := rfl
  simp only [e]
  rw [if_neg (by omega)]
  rfl

/-- C19, `NewMessage`: the header of `NewHeader` (no next payload, no payload
octets yet) and the payload list as given -/
theorem C19_newMessage (ispi rspi : UInt64) (exch : UInt8) (response initiator : Bool) (mid : UInt32)
    (ps : List Payload) :
    newMessage ispi rspi exch response initiator mid ps =
      ⟨newHeader ispi rspi exch response initiator mid 0 [], ps⟩ ∧
    (newMessage ispi rspi exch response initiator mid ps).hdr.major = 2 ∧
    (newMessage ispi rspi exch response initiator mid ps).hdr.isResponse = response ∧
    (newMessage ispi rspi exch response initiator mid ps).hdr.isInitiator = initiator ∧
    (newMessage ispi rspi exch response initiator mid ps).payloads = ps := by
  have h := C19_newHeader ispi rspi exch response initiator mid 0 []
  exact ⟨rfl, h.1, h.2.2.2.2.2.2.2.2.2.1, h.2.2.2.2.2.2.2.2.2.2, rfl⟩

/-! ## 3GPP helpers against TS 24.502 -/

open Spec.Ts24502

theorem u8_ofNat_mod (n : Nat) : UInt8.ofNat (n % 256) = UInt8.ofNat n := by
  apply UInt8.toNat_inj.mp
  simp [UInt8.toNat_ofNat']

theorem be1_eq (n : Nat) : be 1 n = [UInt8.ofNat n] := by
  simp [be, natToBytes, List.range_succ, u8_ofNat_mod]

theorem be2_eq (n : Nat) : be 2 n = put16 (UInt16.ofNat n) := by
  simp only [be, natToBytes, put16, UInt16.toNat_ofNat']
  simp [List.range_succ]
  apply UInt8.toNat_inj.mp
  simp only [UInt8.toNat_ofNat']
  omega

/-- C19, EAP-5G Start: `BuildEAP5GStart` appends exactly one EAP payload whose
encoding is the TS 24.502 §9.3.2.2.1 packet (EAP-Request, expanded type 254,
vendor 10415, vendor type 3, message id 1, spare 0), for every identifier. -/
theorem C19_eap5gStart (c : List Payload) (ident : UInt8) :
    ∃ p, buildEAP5GStart c ident = c ++ [p] ∧
      p = .eap ⟨1, ident, .expanded 10415 3 [1, 0]⟩ ∧
      marshalPayload p = .ok (eap5gStart ident) ∧
      eap5gStart ident = [1, ident, 0, 14, 254, 0, 40, 175, 0, 0, 0, 3, 1, 0] :=
  ⟨_, rfl, rfl, rfl, rfl⟩

/-- the payload `BuildEAP5GNAS` appends -/
def nasPayload (ident : UInt8) (nas : Bytes) : Payload :=
  .eap ⟨1, ident, .expanded 10415 3 ([2, 0] ++ put16 (UInt16.ofNat nas.length) ++ nas)⟩

/-- C19, EAP-5G NAS, the builder's own limits, as iff statements:
success ⇔ 1 ≤ |NAS| ≤ 65535, and then exactly `nasPayload` is appended;
error (container unchanged) ⇔ NAS empty or longer than 65535; never a panic. -/
theorem C19_eap5gNas_build (c : List Payload) (ident : UInt8) (nas : Bytes) :
    (∀ c', buildEAP5GNAS c ident nas = .ok c' ↔
      (1 ≤ nas.length ∧ nas.length ≤ 65535 ∧ c' = c ++ [nasPayload ident nas])) ∧
    (buildEAP5GNAS c ident nas = .err ↔ (nas.length = 0 ∨ nas.length > 65535)) ∧
    buildEAP5GNAS c ident nas ≠ .fault := by
  unfold buildEAP5GNAS
  by_cases h0 : nas.length = 0
  · rw [if_pos h0]
    refine ⟨fun c' => ⟨fun h => by simp at h, fun h => by omega⟩, by simp [h0], by simp⟩
  · rw [if_neg h0]
    by_cases h1 : nas.length > 0xFFFF
    · simp only
      rw [if_pos h1]
      refine ⟨fun c' => ⟨fun h => by simp at h, fun h => by omega⟩, ?_, by simp⟩
      exact ⟨fun _ => Or.inr h1, fun _ => rfl⟩
    · simp only
      rw [if_neg h1]
      refine ⟨fun c' => ?_, ?_, by simp⟩
      · simp only [Res.ok.injEq]
        constructor
        · intro h; exact ⟨by omega, by omega, h.symm⟩
        · intro h; exact h.2.2.symm
      · exact ⟨fun h => (by cases h), fun h => (by omega)⟩

/-- C19, EAP-5G NAS, layout: whenever the builder succeeds, the encoding of the
appended payload is the TS 24.502 §9.3.2.2.2 packet byte for byte (message id
2, spare 0, 16-bit NAS length, NAS PDU, inside the expanded-type header). -/
theorem C19_eap5gNas_layout (ident : UInt8) (nas : Bytes) :
    marshalPayload (nasPayload ident nas) = .ok (eap5gNas ident nas) := by
  unfold nasPayload eap5gNas eap5gHeader
  simp only [marshalPayload, marshalEap, marshalEapData, Res.bind_ok, be2_eq]
  have e1 : put32 ((Facts.eapTypeExpanded.toUInt32 <<< 24) ||| ((10415 : UInt32) &&& 0x00ffffff)) = [254] ++ be 3 10415 := by
    decide
  have e2 : put32 (3 : UInt32) = be 4 3 := by decide
  rw [e1, e2]
  have e3 : ([254] ++ be 3 10415 ++ be 4 3 ++ ([2, 0] ++ put16 (UInt16.ofNat nas.length) ++ nas)).length
      = 8 + (4 + nas.length) := by
    have : (be 3 10415).length = 3 := by decide
    have : (be 4 3).length = 4 := by decide
    simp only [List.length_append, List.length_cons, List.length_nil, put16_length]
    omega
  rw [e3, show 4 + (8 + (4 + nas.length)) = 12 + (4 + nas.length) by omega]
  simp only [List.append_assoc]

theorem eap5gNas_length (ident : UInt8) (nas : Bytes) : (eap5gNas ident nas).length = 16 + nas.length := by
  unfold eap5gNas eap5gHeader
  have h3 : (be 3 10415).length = 3 := by decide
  have h4 : (be 4 3).length = 4 := by decide
  simp only [List.length_append, List.length_cons, List.length_nil, be2_eq, put16_length, h3, h4]

/-- C19, EAP-5G NAS, "oversize arguments give an error, not a truncated field",
end to end: building the payload into an empty container AND encoding the
container succeeds iff the TS 24.502 packet exists (`eap5gNasDefined`: NAS PDU
non-empty, and NAS length, EAP length and IKE payload length all fit their 16
bits, i.e. 1 ≤ |NAS| ≤ 65515); the octets are then the generic payload header
followed by the TS 24.502 packet.  For 65516 ≤ |NAS| ≤ 65535 the builder
itself accepts (its only check is the NAS length field) and it is the container
encoder that returns the error — nothing is ever emitted with a wrapped length. -/
theorem C19_eap5gNas_wire (ident : UInt8) (nas : Bytes) :
    ((∃ c', buildEAP5GNAS [] ident nas = .ok c' ∧ ∃ bs, encodeChain c' = .ok bs) ↔ eap5gNasDefined nas) ∧
    (eap5gNasDefined nas →
      encodeChain [nasPayload ident nas] = .ok ([0, 0] ++ be 2 (4 + (16 + nas.length)) ++ eap5gNas ident nas)) ∧
    (¬ eap5gNasDefined nas → encodeChain [nasPayload ident nas] = .err ∨ buildEAP5GNAS [] ident nas = .err) := by
  have hlay := C19_eap5gNas_layout ident nas
  have hlen := eap5gNas_length ident nas
  have henc : encodeChain [nasPayload ident nas] =
      if 4 + (16 + nas.length) > 0xFFFF then .err
      else .ok ([0, 0] ++ be 2 (4 + (16 + nas.length)) ++ eap5gNas ident nas) := by
    simp only [encodeChain, hlay, Res.bind_ok, hlen, be2_eq]
    split
    · rfl
    · simp [nextField, nasPayload, Facts.typeNoNext]
  have hb := C19_eap5gNas_build [] ident nas
  unfold eap5gNasDefined
  refine ⟨⟨?_, ?_⟩, ?_, ?_⟩
  · rintro ⟨c', hc, bs, hbs⟩
    obtain ⟨h1, h2, h3⟩ := (hb.1 c').1 hc
    subst h3
    simp only [List.nil_append] at hbs
    rw [henc] at hbs
    split at hbs
    · cases hbs
    · omega
  · intro hd
    refine ⟨[nasPayload ident nas], (hb.1 _).2 ⟨hd.1, by omega, rfl⟩,
      [0, 0] ++ be 2 (4 + (16 + nas.length)) ++ eap5gNas ident nas, ?_⟩
    rw [henc, if_neg (by omega)]
  · intro hd
    rw [henc, if_neg (by omega)]
  · intro hd
    by_cases h0 : nas.length = 0
    · exact Or.inr (hb.2.1.2 (Or.inl h0))
    · left
      rw [henc, if_pos (by omega)]

example : eap5gNasDefined [0x7e, 0, 0x41] ∧ ¬ eap5gNasDefined [] ∧
    eap5gNas 5 [0x7e, 0, 0x41] = [1, 5, 0, 19, 254, 0, 40, 175, 0, 0, 0, 3, 2, 0, 0, 3, 0x7e, 0, 0x41] := by decide

/-- the builder in closed form -/
theorem qos_build_eq (c : List Payload) (pdu : UInt8) (qfis : List UInt8) (isDefault isDSCP : Bool) (dscp : UInt8) :
    buildNotify5GQosInfo c pdu qfis isDefault isDSCP dscp =
      if 3 + qfis.length + 1 + (if isDSCP then 1 else 0) > 255 then .err
      else .ok (c ++ [.notify 0 55501 [] (qosInfoData pdu qfis isDefault (if isDSCP then some dscp else none))]) := by
  unfold buildNotify5GQosInfo qosInfoData
  simp only [be1_eq]
  by_cases h1 : qfis.length > 0xFF
  · rw [if_pos h1, if_pos (by omega)]
  · rw [if_neg h1]
    cases isDSCP <;> cases isDefault
    all_goals
      simp only [Bool.false_eq_true, if_false, if_true, List.length_append, List.length_cons, List.length_nil]
    · rw [show 0 + 1 + 1 + (0 + 1) + qfis.length + (0 + 1) = 3 + qfis.length + 1 + 0 by omega]
      split
      · rfl
      · simp [buildNotification]; decide
    · rw [show 0 + 1 + 1 + (0 + 1) + qfis.length + (0 + 1) = 3 + qfis.length + 1 + 0 by omega]
      split
      · rfl
      · simp [buildNotification]; decide
    · rw [show 0 + 1 + 1 + (0 + 1) + qfis.length + (0 + 1) + (0 + 1) = 3 + qfis.length + 1 + (0 + 1) by omega]
      split
      · rfl
      · simp [buildNotification]; decide
    · rw [show 0 + 1 + 1 + (0 + 1) + qfis.length + (0 + 1) + (0 + 1) = 3 + qfis.length + 1 + (0 + 1) by omega]
      split
      · rfl
      · simp [buildNotification]; decide

/-- C19, 5G_QOS_INFO, as iff statements: `BuildNotify5G_QOS_INFO` succeeds iff
the TS 24.502 §9.3.1.1 value is encodable (QFI count and total length fit one
octet — `qosInfoDefined`), and then appends exactly one Notify payload (no
protocol, no SPI, type 55501) whose data is the specified value: length, PDU
session id, QFI count, QFI list, flags (DSCPI = bit 1, DCSI = bit 2), DSCP
octet iff specified; otherwise it returns an error (container unchanged) —
more than 255 QFIs or more than 255 octets in total; it never panics.
The DSCP argument is ignored when not specified. -/
theorem C19_qosInfo (c : List Payload) (pdu : UInt8) (qfis : List UInt8) (isDefault isDSCP : Bool) (dscp : UInt8) :
    let od : Option UInt8 := if isDSCP then some dscp else none
    (∀ c', buildNotify5GQosInfo c pdu qfis isDefault isDSCP dscp = .ok c' ↔
      (qosInfoDefined qfis od ∧ c' = c ++ [.notify 0 55501 [] (qosInfoData pdu qfis isDefault od)])) ∧
    (buildNotify5GQosInfo c pdu qfis isDefault isDSCP dscp = .err ↔ ¬ qosInfoDefined qfis od) ∧
    buildNotify5GQosInfo c pdu qfis isDefault isDSCP dscp ≠ .fault ∧
    marshalPayload (.notify 0 55501 [] (qosInfoData pdu qfis isDefault od))
      = .ok (notifyQosInfo pdu qfis isDefault od) := by
  intro od
  have hdef : qosInfoDefined qfis od ↔ ¬ (3 + qfis.length + 1 + (if isDSCP then 1 else 0) > 255) := by
    unfold qosInfoDefined
    cases isDSCP <;> simp [od] <;> omega
  rw [qos_build_eq]
  refine and_assoc.mp (and_assoc.mp ⟨?_, ?_⟩)
  · rw [and_assoc]
    by_cases h : 3 + qfis.length + 1 + (if isDSCP then 1 else 0) > 255
    · rw [if_pos h]
      refine ⟨fun c' => ⟨fun x => (by cases x), fun x => absurd h (hdef.1 x.1)⟩, ?_, by simp⟩
      exact ⟨fun _ => fun x => hdef.1 x h, fun _ => rfl⟩
    · rw [if_neg h]
      refine ⟨fun c' => ?_, ⟨fun x => (by cases x), fun x => absurd (hdef.2 h) x⟩, by simp⟩
      simp only [Res.ok.injEq]
      exact ⟨fun x => ⟨hdef.2 h, x.symm⟩, fun x => x.2.symm⟩
  · simp only [marshalPayload, marshalNotify, notifyQosInfo, notifyBody, be2_eq]
    rfl

set_option maxRecDepth 100000 in
example : qosInfoDefined [1, 2, 9] (some 46) ∧
    notifyQosInfo 5 [1, 2, 9] true (some 46) = [0, 0, 0xD8, 0xCD, 8, 5, 3, 1, 2, 9, 3, 46] ∧
    ¬ qosInfoDefined (List.replicate 251 7) (some 0) ∧ qosInfoDefined (List.replicate 251 7) none := by decide

/-- C19, NAS_IP4_ADDRESS / UP_IP4_ADDRESS: an empty address string appends
nothing; otherwise exactly one Notify payload (no protocol, no SPI, type 55502
resp. 55504) carrying the octets of the parsed address is appended, and for
the four octets of a dotted quad its encoding is the TS 24.502 layout. -/
theorem C19_notifyIp4 (c : List Payload) (a : Bytes) (a0 a1 a2 a3 : UInt8) :
    buildNotifyNasIp4Address c none = c ∧ buildNotifyUpIp4Address c none = c ∧
    buildNotifyNasIp4Address c (some a) = c ++ [.notify 0 55502 [] a] ∧
    buildNotifyUpIp4Address c (some a) = c ++ [.notify 0 55504 [] a] ∧
    marshalPayload (.notify 0 55502 [] [a0, a1, a2, a3]) = .ok (notifyNasIp4 a0 a1 a2 a3) ∧
    marshalPayload (.notify 0 55504 [] [a0, a1, a2, a3]) = .ok (notifyUpIp4 a0 a1 a2 a3) ∧
    notifyNasIp4 a0 a1 a2 a3 = [0, 0, 0xD8, 0xCE, a0, a1, a2, a3] ∧
    notifyUpIp4 a0 a1 a2 a3 = [0, 0, 0xD8, 0xD0, a0, a1, a2, a3] :=
  ⟨rfl, rfl, rfl, rfl, rfl, rfl, rfl, rfl⟩

/-- C19, NAS_TCP_PORT: port 0 appends nothing; every other port appends exactly
one Notify payload of type 55506 whose encoding is the TS 24.502 layout (two
octets, network order) -/
theorem C19_notifyTcpPort (c : List Payload) (port : UInt16) :
    (port = 0 → buildNotifyNasTcpPort c port = c) ∧
    (port ≠ 0 → buildNotifyNasTcpPort c port = c ++ [.notify 0 55506 [] (put16 port)]) ∧
    marshalPayload (.notify 0 55506 [] (put16 port)) = .ok (notifyNasTcpPort port.toNat) := by
  refine ⟨fun h => by simp [buildNotifyNasTcpPort, h], fun h => ?_, ?_⟩
  · simp [buildNotifyNasTcpPort, h, buildNotification]; decide
  · simp only [marshalPayload, marshalNotify, notifyNasTcpPort, notifyBody, be2_eq, UInt16.ofNat_toNat]
    rfl

example : notifyNasTcpPort (20000 : UInt16).toNat = [0, 0, 0xD8, 0xD2, 0x4E, 0x20] := by decide

/-! ## limits enforced at encoding time -/

/-- C19, Notify SPI: the encoder returns an error exactly when the SPI is longer
than the one-octet SPI Size field can say; otherwise the field holds the true length. -/
theorem C19_limit_notify (proto : UInt8) (ntype : UInt16) (spi d : Bytes) :
    (marshalNotify proto ntype spi d = .err ↔ spi.length > 255) ∧
    marshalNotify proto ntype spi d ≠ .fault ∧
    (∀ bs, marshalNotify proto ntype spi d = .ok bs →
      spi.length ≤ 255 ∧ (byteAt bs 1).toNat = spi.length ∧ bs.length = 4 + spi.length + d.length) := by
  unfold marshalNotify
  by_cases h : spi.length > 0xFF
  · rw [if_pos h]
    exact ⟨⟨fun _ => h, fun _ => rfl⟩, by simp, fun bs hb => by cases hb⟩
  · rw [if_neg h]
    refine ⟨⟨fun x => (by cases x), fun x => absurd x h⟩, by simp, fun bs hb => ?_⟩
    simp only [Res.ok.injEq] at hb
    subst hb
    refine ⟨by omega, ?_, by simp; omega⟩
    simp only [List.cons_append, List.nil_append, byteAt_cons_succ, byteAt_cons_zero]
    exact ofNat_toNat_u8 _ (by omega)

/-- C19, proposal: an SPI longer than 255 octets or more than 255 transforms
⇒ error; and whenever the encoder succeeds the SPI Size and transform count
octets hold the true values and the length field the true length — no
truncated field. -/
theorem C19_limit_proposal (last : Bool) (p : Proposal) :
    (p.spi.length > 255 → marshalProposal last p = .err) ∧
    (p.transforms.length > 255 → marshalProposal last p = .err) ∧
    (∀ bs, marshalProposal last p = .ok bs →
      p.spi.length ≤ 255 ∧ 1 ≤ p.transforms.length ∧ p.transforms.length ≤ 255 ∧ bs.length ≤ 65535 ∧
      (byteAt bs 6).toNat = p.spi.length ∧ (byteAt bs 7).toNat = p.transforms.length ∧
      (be16 (byteAt bs 2) (byteAt bs 3)).toNat = bs.length) := by
  unfold marshalProposal
  by_cases h1 : p.spi.length > 0xFF
  · rw [if_pos h1]
    exact ⟨fun _ => rfl, fun _ => rfl, fun bs hb => by cases hb⟩
  · rw [if_neg h1]
    simp only
    by_cases h2 : p.transforms.length = 0
    · rw [if_pos h2]
      exact ⟨fun _ => rfl, fun _ => rfl, fun bs hb => by cases hb⟩
    · rw [if_neg h2]
      by_cases h3 : p.transforms.length > 0xFF
      · rw [if_pos h3]
        exact ⟨fun _ => rfl, fun _ => rfl, fun bs hb => by cases hb⟩
      · rw [if_neg h3]
        refine ⟨fun x => absurd x h1, fun x => absurd x h3, fun bs hb => ?_⟩
        cases htd : marshalTransforms p.transforms with
        | err => simp [htd] at hb
        | fault => simp [htd] at hb
        | ok td =>
          simp only [htd, Res.bind_ok] at hb
          split at hb
          · cases hb
          · rename_i h4
            have hl : (UInt16.ofNat (8 + p.spi.length + td.length)).toNat = 8 + p.spi.length + td.length :=
              ofNat_toNat_u16 _ (by omega)
            generalize UInt16.ofNat (8 + p.spi.length + td.length) = v at hb hl
            simp only [Res.ok.injEq] at hb
            subst hb
            refine ⟨by omega, by omega, by omega, by simp; omega, ?_, ?_, ?_⟩
            · simp only [put16, List.cons_append, List.nil_append, byteAt_cons_succ, byteAt_cons_zero]
              exact ofNat_toNat_u8 _ (by omega)
            · simp only [put16, List.cons_append, List.nil_append, byteAt_cons_succ, byteAt_cons_zero]
              exact ofNat_toNat_u8 _ (by omega)
            · simp only [put16, List.cons_append, List.nil_append, byteAt_cons_succ, byteAt_cons_zero]
              rw [be16_put, hl]
              simp only [List.length_cons, List.length_append, List.length_nil]
              omega

/-- C19, traffic selectors: more than 255 selectors (or none) ⇒ error; on
success the count octet holds the true number. -/
theorem C19_limit_ts (l : List TSel) :
    (l.length > 255 → marshalTS l = .err) ∧ (l = [] → marshalTS l = .err) ∧
    (∀ bs, marshalTS l = .ok bs → 1 ≤ l.length ∧ l.length ≤ 255 ∧ (byteAt bs 0).toNat = l.length) := by
  unfold marshalTS
  by_cases h1 : l.length = 0
  · rw [if_pos h1]
    exact ⟨fun _ => rfl, fun _ => rfl, fun bs hb => by cases hb⟩
  · rw [if_neg h1]
    by_cases h2 : l.length > 0xFF
    · rw [if_pos h2]
      exact ⟨fun _ => rfl, fun _ => rfl, fun bs hb => by cases hb⟩
    · rw [if_neg h2]
      refine ⟨fun x => absurd x h2, fun x => absurd (by rw [x]; rfl) h1, fun bs hb => ?_⟩
      cases hbody : marshalTSels l with
      | err => simp [hbody] at hb
      | fault => simp [hbody] at hb
      | ok body =>
        simp only [hbody, Res.bind_ok, Res.ok.injEq] at hb
        subst hb
        refine ⟨by omega, by omega, ?_⟩
        simp only [List.cons_append, byteAt_cons_zero]
        exact ofNat_toNat_u8 _ (by omega)

/-- C19, payload container: the exact success condition of `Encode` on a
non-empty container — the first payload encodes, its length with the 4-octet
generic header fits 16 bits, and the rest encodes; the length field then holds
the true length. -/
theorem C19_limit_chain_iff (p : Payload) (rest : List Payload) (bs : Bytes) :
    encodeChain (p :: rest) = .ok bs ↔
      ∃ data tl, marshalPayload p = .ok data ∧ 4 + data.length ≤ 65535 ∧ encodeChain rest = .ok tl ∧
        bs = [nextField p rest, 0] ++ put16 (UInt16.ofNat (4 + data.length)) ++ data ++ tl := by
  simp only [encodeChain]
  cases hd : marshalPayload p with
  | err => simp
  | fault => simp
  | ok data =>
    simp only [Res.bind_ok]
    by_cases h : 4 + data.length > 0xFFFF
    · rw [if_pos h]
      constructor
      · intro x; cases x
      · rintro ⟨d, tl, hd', hle, _⟩
        simp only [Res.ok.injEq] at hd'
        subst hd'
        omega
    · rw [if_neg h]
      cases ht : encodeChain rest with
      | err => simp
      | fault => simp
      | ok tl =>
        simp only [Res.bind_ok, Res.ok.injEq]
        constructor
        · intro x; exact ⟨data, tl, rfl, by omega, rfl, x.symm⟩
        · rintro ⟨d, tl', hd', _, ht', hbs⟩
          subst hd' ht'
          exact hbs.symm

/-- C19, payload container, oversize payload: a payload whose body exceeds
65531 octets makes `Encode` return an error when it is the first one, and
makes it fail (never a successful encoding with a wrapped length) wherever it
stands in the container. -/
theorem C19_limit_chain (p : Payload) (data : Bytes) (hm : marshalPayload p = .ok data)
    (hbig : 4 + data.length > 65535) :
    (∀ rest, encodeChain (p :: rest) = .err) ∧
    (∀ pre rest bs, encodeChain (pre ++ p :: rest) ≠ .ok bs) := by
  have h1 : ∀ rest, encodeChain (p :: rest) = .err := by
    intro rest
    simp only [encodeChain, hm, Res.bind_ok]
    rw [if_pos hbig]
  refine ⟨h1, fun pre => ?_⟩
  induction pre with
  | nil => intro rest bs; simp [h1]
  | cons q qs ih =>
    intro rest bs hb
    rw [List.cons_append, C19_limit_chain_iff] at hb
    obtain ⟨_, tl, _, _, ht, _⟩ := hb
    exact ih rest tl ht

/-- C19, the remaining 16-bit value limits: a configuration attribute value or a
variable-length transform attribute value longer than 65535 octets ⇒ error -/
theorem C19_limit_values (a : CPAttr) (rest : List CPAttr) (t : Transform) (last : Bool) :
    (a.value.length > 65535 → marshalCPAttrs (a :: rest) = .err) ∧
    (t.present = true → t.fmt = 0 → t.vval.length > 65535 → marshalTransform last t = .err) := by
  constructor
  · intro h
    simp only [marshalCPAttrs]
    rw [if_pos h]
  · intro h1 h2 h3
    have : marshalAttr t = .err := by
      unfold marshalAttr
      simp only [h1, h2]
      have : t.vval.length ≠ 0 := by omega
      simp [this, h3]
    simp [marshalTransform, this]

/-- C19, "limits that are enforced at encoding time … ⇒ error, never a truncated
field", collected: Notify SPI > 255 octets (iff); proposal SPI > 255 octets or
> 255 transforms; > 255 traffic selectors; and for a container whose first
payload encodes to `data`: `Encode` returns an error iff that payload exceeds
the 16-bit payload length or the rest of the container fails. -/
theorem C19_encode_limits :
    (∀ proto ntype spi d, marshalNotify proto ntype spi d = .err ↔ spi.length > 255) ∧
    (∀ last p, p.spi.length > 255 ∨ p.transforms.length > 255 → marshalProposal last p = .err) ∧
    (∀ l : List TSel, l.length > 255 → marshalTS l = .err) ∧
    (∀ p data rest, marshalPayload p = .ok data →
      (encodeChain (p :: rest) = .err ↔ (4 + data.length > 65535 ∨ encodeChain rest = .err))) := by
  refine ⟨fun proto ntype spi d => (C19_limit_notify proto ntype spi d).1, fun last p h => ?_,
    fun l => (C19_limit_ts l).1, fun p data rest hm => ?_⟩
  · rcases h with h | h
    · exact (C19_limit_proposal last p).1 h
    · exact (C19_limit_proposal last p).2.1 h
  · simp only [encodeChain, hm, Res.bind_ok]
    by_cases h : 4 + data.length > 0xFFFF
    · rw [if_pos h]; exact ⟨fun _ => Or.inl h, fun _ => rfl⟩
    · rw [if_neg h]
      cases encodeChain rest with
      | err => simp
      | fault => simp; omega
      | ok tl => simp; omega

/-- non-vacuity of the limits: a 256-octet SPI, a 65532-octet nonce -/
example : marshalNotify 0 16384 (zeros 256) [] = .err ∧
    (∃ data, marshalPayload (.nonce (zeros 65532)) = .ok data ∧ 4 + data.length > 65535) :=
  ⟨by simp [marshalNotify], zeros 65532, rfl, by simp⟩

end Ike
