import IkeProofs.Refine.Basic
import IkeModel.GenAbsEap
import IkeProofs.RefineEap.AkaMap

/-! Package `eap`: `EapAkaPrime.getAttrsKeys` and `EapAkaPrime.Marshal` as generated ⊑ the
hand-written model (`marshalAka`).  The generated code iterates over the sorted keys of the
attribute map and looks every key up; the model iterates over its list sorted by type. -/

set_option linter.unusedSimpArgs false
set_option linter.unusedVariables false

namespace Ike.RefineEap
open Ike Ike.Gen.eap

/-! ### `getAttrsKeys` -/

theorem getAttrsKeys_loop1_eq (xs : List (UInt8 × Gen.eap.EapAkaPrimeAttr)) (idx : Nat)
    (result : List UInt8) :
    EapAkaPrime.getAttrsKeys.loop1 xs idx result = Res.ok (result ++ xs.map (·.1)) := by
  induction xs generalizing idx result with
  | nil => unfold EapAkaPrime.getAttrsKeys.loop1; simp
  | cons p rest ih =>
    unfold EapAkaPrime.getAttrsKeys.loop1
    simp only []
    rw [ih]
    simp

/-- `getAttrsKeys` without the abstraction: the sorted key list -/
theorem getAttrsKeys_eq (g : Gen.eap.EapAkaPrime) :
    EapAkaPrime.getAttrsKeys g = Res.ok (Go.sortU8 ((Go.mapEntries g.attributes).map (·.1))) := by
  unfold EapAkaPrime.getAttrsKeys
  simp only [getAttrsKeys_loop1_eq, Res.bind_ok, zeros, List.replicate_zero, List.nil_append]

theorem getAttrsKeys_refines (g : Gen.eap.EapAkaPrime) (hwf : GenAbs.AkaWF g) :
    EapAkaPrime.getAttrsKeys g = Res.ok ((GenAbs.absAka g).attrs.map (·.atype)) := by
  rw [getAttrsKeys_eq, sortU8_keys_abs _ ((AkaWF_iff g).mp hwf)]
  rfl

/-! ### `Marshal` -/

/-- `v := m[k]` when the association list has `k` -/
theorem mapGet_of_mapGetList (m : Go.Map UInt8 Gen.eap.EapAkaPrimeAttr) (k : UInt8)
    (v : Gen.eap.EapAkaPrimeAttr) (h : Go.mapGetList (Go.mapEntries m) k = some v) :
    (Go.mapGet m k).1 = v := by
  cases m with
  | none => simp [Go.mapEntries, Go.mapGetList] at h
  | some l =>
    unfold Go.mapGet
    simp only [Go.mapEntries] at h
    simp only [h]

/-- the padding computation in `Int` (and `make`, which cannot fault in the positive branch) is the
model's truncated subtraction -/
theorem padding_eq {β : Type} (L n : Nat) (buf : Bytes) (K : Bytes → Res β) :
    (if ((((((4 : Int) * (L : Int)) - (1 : Int)) - (1 : Int)) - (2 : Int)) - (n : Int)) > (0 : Int) then
        (Go.make (α := UInt8) ((((((4 : Int) * (L : Int)) - (1 : Int)) - (1 : Int)) - (2 : Int)) - (n : Int)))
          >>= fun t4 => K (buf ++ t4)
      else K buf) = K (buf ++ zeros (4 * L - 4 - n)) := by
  by_cases h : ((((((4 : Int) * (L : Int)) - (1 : Int)) - (1 : Int)) - (2 : Int)) - (n : Int)) > (0 : Int)
  · rw [if_pos h]
    unfold Go.make
    have h0 : (0 : Int) ≤ ((((((4 : Int) * (L : Int)) - (1 : Int)) - (1 : Int)) - (2 : Int)) - (n : Int)) := by
      omega
    rw [if_pos h0]
    simp only [Res.bind_ok]
    have e : (((((((4 : Int) * (L : Int)) - (1 : Int)) - (1 : Int)) - (2 : Int)) - (n : Int))).toNat
        = 4 * L - 4 - n := by omega
    rw [e]
    rfl
  · rw [if_neg h]
    have e : 4 * L - 4 - n = 0 := by omega
    rw [e]
    simp [zeros]

/-- the octets the generated loop body appends for one attribute -/
theorem marshalAkaAttr_abs (a : Gen.eap.EapAkaPrimeAttr) :
    marshalAkaAttr (GenAbs.absAkaAttr a) =
      [a.attrType, a.length_] ++ (if a.attrType ≠ 24 then put16 a.reserved else []) ++ a.value ++
        (if a.attrType = 3 ∨ a.attrType = 23 then zeros (4 * a.length_.toNat - 4 - a.value.length) else []) := by
  unfold marshalAkaAttr GenAbs.absAkaAttr
  simp only [Facts.atKdf, Facts.atRes, Facts.atKdfInput]
  by_cases h24 : a.attrType = 24
  · simp [h24]
  · by_cases h3 : a.attrType = 3
    · simp [h3]
    · by_cases h23 : a.attrType = 23
      · simp [h23]
      · simp [h24, h3, h23]

/-- the key loop: over keys all of which are present, the loop appends the marshalled attributes -/
theorem marshal_loop1_eq (g : Gen.eap.EapAkaPrime) (ks : List UInt8) (xs : List AkaAttr)
    (h : ks.map (fun k => (Go.mapGetList (Go.mapEntries g.attributes) k).map GenAbs.absAkaAttr)
          = xs.map some)
    (idx : Nat) (buf : Bytes) :
    EapAkaPrime.Marshal.loop1 ks idx g buf false = Res.ok (buf ++ marshalAkaAttrs xs, false) := by
  induction ks generalizing xs idx buf with
  | nil =>
    cases xs with
    | nil => unfold EapAkaPrime.Marshal.loop1; simp [marshalAkaAttrs]
    | cons x rest => simp at h
  | cons k rest ih =>
    cases xs with
    | nil => simp at h
    | cons x xs' =>
      rw [List.map_cons, List.map_cons, List.cons.injEq] at h
      obtain ⟨hk, hrest⟩ := h
      cases hg : Go.mapGetList (Go.mapEntries g.attributes) k with
      | none => rw [hg] at hk; cases hk
      | some v =>
        rw [hg] at hk
        have hx : GenAbs.absAkaAttr v = x := by simpa using hk
        have hv := mapGet_of_mapGetList g.attributes k v hg
        unfold EapAkaPrime.Marshal.loop1
        simp only [hv, EapAkaPrimeAttrType.Value, Res.bind_ok, Bool.false_eq_true, if_false]
        rw [marshalAkaAttrs, ← hx, marshalAkaAttr_abs]
        by_cases h24 : v.attrType = 24
        · have h3 : ¬ (v.attrType = 3 ∨ v.attrType = 23) := by
            rw [h24]; decide
          rw [if_neg (fun hn => hn h24), if_neg h3, if_neg (fun hn => hn h24), if_neg h3, ih xs' hrest]
          simp
        · by_cases h3 : v.attrType = 3 ∨ v.attrType = 23
          · rw [if_pos h24, if_pos h3, if_pos h24, if_pos h3]
            refine (padding_eq v.length_.toNat v.value.length _
              (fun b => EapAkaPrime.Marshal.loop1 rest (idx + 1) g b false)).trans ?_
            rw [ih xs' hrest]
            simp
          · rw [if_pos h24, if_neg h3, if_pos h24, if_neg h3, ih xs' hrest]
            simp

theorem EapAkaPrime_Marshal_refines (g : Gen.eap.EapAkaPrime) (hwf : GenAbs.AkaWF g) :
    EapAkaPrime.Marshal g = marshalAka (GenAbs.absAka g) := by
  have hl := lookup_sorted_keys _ ((AkaWF_iff g).mp hwf)
  unfold EapAkaPrime.Marshal
  simp only [getAttrsKeys_eq, Res.bind_ok, Bool.false_eq_true, if_false]
  rw [marshal_loop1_eq g _ _ hl]
  simp [marshalAka, GenAbs.absAka, Facts.eapTypeAkaPrime]

end Ike.RefineEap
