import IkeProofs.Refine.Basic
import IkeModel.GenAbsEap
import IkeProofs.Lemmas.Eap

/-! Library relating the generated code's EAP-AKA' attribute map (insertion-ordered association
list, `Go.mapSetList` / `Go.mapGetList` / `Go.mapEntries` / `Go.sortU8`) to the model's attribute
list sorted by type (`akaInsert` / `akaLookup` / `AkaSorted`) through `GenAbs.absAkaEntries`.

Route: an `AkaSorted` list is determined by its lookups (`akaSorted_ext`); the lookups of
`absAkaEntries l` are those of the association list (`akaLookup_absAkaEntries`); so equations
between abstractions reduce to equations between lookups. -/

set_option linter.unusedSimpArgs false
set_option linter.unusedVariables false

namespace Ike.RefineEap
open Ike Ike.Gen.eap

/-- invariant of an entry list: every entry stored under its own type, keys unique -/
def EntriesWF (l : List (UInt8 × Gen.eap.EapAkaPrimeAttr)) : Prop :=
  (∀ p ∈ l, p.1 = p.2.attrType) ∧ (l.map (·.1)).Nodup

theorem AkaWF_iff (g : Gen.eap.EapAkaPrime) :
    GenAbs.AkaWF g ↔ EntriesWF (Go.mapEntries g.attributes) := Iff.rfl

theorem entriesWF_nil : EntriesWF [] := by
  refine ⟨?_, ?_⟩
  · intro p hp; cases hp
  · simp

theorem entriesWF_tail {p : UInt8 × Gen.eap.EapAkaPrimeAttr} {l} (h : EntriesWF (p :: l)) :
    EntriesWF l := by
  obtain ⟨h1, h2⟩ := h
  refine ⟨fun q hq => h1 q (List.mem_cons_of_mem _ hq), ?_⟩
  rw [List.map_cons, List.nodup_cons] at h2
  exact h2.2

theorem entriesWF_head_notMem {p : UInt8 × Gen.eap.EapAkaPrimeAttr} {l} (h : EntriesWF (p :: l)) :
    p.1 ∉ l.map (·.1) := by
  obtain ⟨h1, h2⟩ := h
  rw [List.map_cons, List.nodup_cons] at h2
  exact h2.1

/-! ### attribute abstraction round trips -/

@[simp] theorem absAkaAttr_repAkaAttr (x : AkaAttr) : GenAbs.absAkaAttr (GenAbs.repAkaAttr x) = x := by
  cases x; rfl

@[simp] theorem repAkaAttr_absAkaAttr (a : Gen.eap.EapAkaPrimeAttr) :
    GenAbs.repAkaAttr (GenAbs.absAkaAttr a) = a := by
  cases a; rfl

@[simp] theorem absAkaAttr_atype (a : Gen.eap.EapAkaPrimeAttr) : (GenAbs.absAkaAttr a).atype = a.attrType := rfl

@[simp] theorem repAkaAttr_attrType (x : AkaAttr) : (GenAbs.repAkaAttr x).attrType = x.atype := rfl

/-! ### `UInt8` order facts -/

theorem u8_lt_ne {a b : UInt8} (h : a < b) : a ≠ b := by
  intro e; subst e; rw [UInt8.lt_iff_toNat_lt] at h; omega

theorem u8_lt_asymm {a b : UInt8} (h : a < b) (h' : b < a) : False := by
  rw [UInt8.lt_iff_toNat_lt] at h h'; omega

/-! ### lookups in the model's list -/

theorem akaLookup_some {l : List AkaAttr} {k : UInt8} {y : AkaAttr} (h : akaLookup l k = some y) :
    y ∈ l ∧ y.atype = k := by
  induction l with
  | nil => simp [akaLookup] at h
  | cons x rest ih =>
    unfold akaLookup at h
    by_cases c : (x.atype == k) = true
    · rw [if_pos c] at h
      have e : x = y := by simpa using h
      subst e
      exact ⟨by simp, by simpa using c⟩
    · rw [if_neg c] at h
      exact ⟨List.mem_cons_of_mem _ (ih h).1, (ih h).2⟩

theorem akaLookup_none {l : List AkaAttr} {k : UInt8} (h : ∀ y ∈ l, y.atype ≠ k) :
    akaLookup l k = none := by
  induction l with
  | nil => rfl
  | cons x rest ih =>
    unfold akaLookup
    have c : ¬ (x.atype == k) = true := by
      have := h x (by simp)
      simpa using this
    rw [if_neg c]
    exact ih (fun y hy => h y (List.mem_cons_of_mem _ hy))

theorem akaLookup_eq_none_iff {l : List AkaAttr} {k : UInt8} :
    akaLookup l k = none ↔ ∀ y ∈ l, y.atype ≠ k := by
  constructor
  · intro h
    induction l with
    | nil => intro y hy; cases hy
    | cons x rest ih =>
      unfold akaLookup at h
      by_cases c : (x.atype == k) = true
      · rw [if_pos c] at h; cases h
      · rw [if_neg c] at h
        intro y hy
        rcases List.mem_cons.mp hy with rfl | hy
        · simpa using c
        · exact ih h y hy
  · exact akaLookup_none

/-- in a sorted list every element is found under its own type -/
theorem akaLookup_sorted_mem {l : List AkaAttr} (hs : AkaSorted l) {x : AkaAttr} (hx : x ∈ l) :
    akaLookup l x.atype = some x := by
  induction l with
  | nil => cases hx
  | cons y rest ih =>
    unfold AkaSorted at hs
    rw [List.pairwise_cons] at hs
    unfold akaLookup
    rcases List.mem_cons.mp hx with rfl | hx
    · simp
    · have hlt := hs.1 x hx
      have hne : ¬ (y.atype == x.atype) = true := by
        intro h
        have : y.atype = x.atype := by simpa using h
        exact u8_lt_ne hlt this
      rw [if_neg hne]
      exact ih hs.2 hx

/-- lookup after insert -/
theorem akaLookup_akaInsert (l : List AkaAttr) (a : AkaAttr) (k : UInt8) :
    akaLookup (akaInsert l a) k = if a.atype = k then some a else akaLookup l k := by
  by_cases c : a.atype = k
  · rw [if_pos c, ← c]; exact akaLookup_insert_same l a
  · rw [if_neg c]; exact akaLookup_insert_other l a k (fun h => c h.symm)

/-- the lookup function of a sorted list determines the list -/
theorem akaSorted_ext (l1 l2 : List AkaAttr) (h1 : AkaSorted l1) (h2 : AkaSorted l2)
    (h : ∀ k, akaLookup l1 k = akaLookup l2 k) : l1 = l2 := by
  induction l1 generalizing l2 with
  | nil =>
    cases l2 with
    | nil => rfl
    | cons y r2 =>
      have := h y.atype
      simp [akaLookup] at this
  | cons x r1 ih =>
    cases l2 with
    | nil =>
      have := h x.atype
      simp [akaLookup] at this
    | cons y r2 =>
      have hx : akaLookup (y :: r2) x.atype = some x := by rw [← h]; simp [akaLookup]
      have hy : akaLookup (x :: r1) y.atype = some y := by rw [h]; simp [akaLookup]
      have hxm := (akaLookup_some hx).1
      have hym := (akaLookup_some hy).1
      have h1' := h1
      have h2' := h2
      unfold AkaSorted at h1' h2'
      rw [List.pairwise_cons] at h1' h2'
      have hxy : x = y := by
        rcases List.mem_cons.mp hxm with e | hxm
        · exact e
        · rcases List.mem_cons.mp hym with e | hym
          · exact e.symm
          · exact (u8_lt_asymm (h1'.1 y hym) (h2'.1 x hxm)).elim
      subst hxy
      congr 1
      apply ih r2 h1'.2 h2'.2
      intro k
      by_cases c : x.atype = k
      · subst c
        rw [akaLookup_none (fun y hy => (u8_lt_ne (h1'.1 y hy)).symm),
            akaLookup_none (fun y hy => (u8_lt_ne (h2'.1 y hy)).symm)]
      · have := h k
        have c' : ¬ (x.atype == k) = true := by simpa using c
        unfold akaLookup at this
        rw [if_neg c', if_neg c'] at this
        exact this

/-! ### the generic map operations -/

theorem mapGetList_cons {ν : Type} (k0 : UInt8) (v0 : ν) (rest : List (UInt8 × ν)) (k : UInt8) :
    Go.mapGetList ((k0, v0) :: rest) k = if k0 = k then some v0 else Go.mapGetList rest k := rfl

theorem mapSetList_cons {ν : Type} (k0 : UInt8) (v0 : ν) (rest : List (UInt8 × ν)) (k : UInt8) (v : ν) :
    Go.mapSetList ((k0, v0) :: rest) k v =
      if k0 = k then (k, v) :: rest else (k0, v0) :: Go.mapSetList rest k v := rfl

theorem sortU8_cons (x : UInt8) (rest : List UInt8) :
    Go.sortU8 (x :: rest) = Go.insertU8 x (Go.sortU8 rest) := rfl

theorem mapGetList_none_of_notMem {ν : Type} (l : List (UInt8 × ν)) (k : UInt8)
    (h : k ∉ l.map (·.1)) : Go.mapGetList l k = none := by
  induction l with
  | nil => rfl
  | cons p rest ih =>
    obtain ⟨k', v'⟩ := p
    rw [List.map_cons, List.mem_cons, not_or] at h
    unfold Go.mapGetList
    rw [if_neg (fun e => h.1 e.symm)]
    exact ih h.2

theorem mapGetList_isSome_iff {ν : Type} (l : List (UInt8 × ν)) (k : UInt8) :
    (Go.mapGetList l k).isSome ↔ k ∈ l.map (·.1) := by
  induction l with
  | nil => simp [Go.mapGetList]
  | cons p rest ih =>
    obtain ⟨k', v'⟩ := p
    unfold Go.mapGetList
    by_cases c : k' = k
    · rw [if_pos c]; simp [c]
    · rw [if_neg c, ih]
      simp only [List.map_cons, List.mem_cons]
      constructor
      · exact Or.inr
      · rintro (e | e)
        · exact (c e.symm).elim
        · exact e

theorem mapGetList_some_mem {ν : Type} (l : List (UInt8 × ν)) (k : UInt8) (v : ν)
    (h : Go.mapGetList l k = some v) : (k, v) ∈ l := by
  induction l with
  | nil => simp [Go.mapGetList] at h
  | cons p rest ih =>
    obtain ⟨k', v'⟩ := p
    unfold Go.mapGetList at h
    by_cases c : k' = k
    · rw [if_pos c] at h
      have : v' = v := by simpa using h
      subst this; subst c
      exact List.mem_cons_self
    · rw [if_neg c] at h
      exact List.mem_cons_of_mem _ (ih h)

/-- lookup after store -/
theorem mapGetList_mapSetList {ν : Type} (l : List (UInt8 × ν)) (k k' : UInt8) (v : ν) :
    Go.mapGetList (Go.mapSetList l k v) k' = if k = k' then some v else Go.mapGetList l k' := by
  induction l with
  | nil =>
    unfold Go.mapSetList Go.mapGetList
    by_cases c : k = k'
    · rw [if_pos c, if_pos c]
    · rw [if_neg c, if_neg c]; rfl
  | cons p rest ih =>
    obtain ⟨k0, v0⟩ := p
    rw [mapSetList_cons]
    by_cases c0 : k0 = k
    · rw [if_pos c0]
      subst c0
      rw [mapGetList_cons, mapGetList_cons]
      by_cases c : k0 = k'
      · rw [if_pos c, if_pos c]
      · rw [if_neg c, if_neg c, if_neg c]
    · rw [if_neg c0]
      rw [mapGetList_cons, mapGetList_cons]
      by_cases c1 : k0 = k'
      · rw [if_pos c1, if_pos c1]
        have : ¬ k = k' := fun e => c0 (c1.trans e.symm)
        rw [if_neg this]
      · rw [if_neg c1, if_neg c1]
        exact ih

theorem mapSetList_mem {ν : Type} (l : List (UInt8 × ν)) (k : UInt8) (v : ν) (p : UInt8 × ν)
    (h : p ∈ Go.mapSetList l k v) : p = (k, v) ∨ p ∈ l := by
  induction l with
  | nil =>
    unfold Go.mapSetList at h
    exact Or.inl (by simpa using h)
  | cons q rest ih =>
    obtain ⟨k0, v0⟩ := q
    unfold Go.mapSetList at h
    by_cases c0 : k0 = k
    · rw [if_pos c0] at h
      rcases List.mem_cons.mp h with e | e
      · exact Or.inl e
      · exact Or.inr (List.mem_cons_of_mem _ e)
    · rw [if_neg c0] at h
      rcases List.mem_cons.mp h with e | e
      · exact Or.inr (e ▸ List.mem_cons_self)
      · rcases ih e with e | e
        · exact Or.inl e
        · exact Or.inr (List.mem_cons_of_mem _ e)

/-- the keys after a store: unchanged if the key was present, else the new key at the end -/
theorem mapSetList_keys {ν : Type} (l : List (UInt8 × ν)) (k : UInt8) (v : ν) :
    (Go.mapSetList l k v).map (·.1) = if k ∈ l.map (·.1) then l.map (·.1) else l.map (·.1) ++ [k] := by
  induction l with
  | nil => simp [Go.mapSetList]
  | cons q rest ih =>
    obtain ⟨k0, v0⟩ := q
    unfold Go.mapSetList
    by_cases c0 : k0 = k
    · rw [if_pos c0]
      subst c0
      simp
    · rw [if_neg c0]
      simp only [List.map_cons, List.mem_cons, List.cons_append]
      rw [ih]
      have c0' : ¬ k = k0 := fun e => c0 e.symm
      by_cases c1 : k ∈ rest.map (·.1)
      · rw [if_pos c1, if_pos (Or.inr c1)]
      · rw [if_neg c1, if_neg (by rintro (e | e); exact c0' e; exact c1 e)]

theorem mapSetList_keys_nodup {ν : Type} (l : List (UInt8 × ν)) (k : UInt8) (v : ν)
    (h : (l.map (·.1)).Nodup) : ((Go.mapSetList l k v).map (·.1)).Nodup := by
  rw [mapSetList_keys]
  by_cases c : k ∈ l.map (·.1)
  · rw [if_pos c]; exact h
  · rw [if_neg c]
    rw [List.nodup_append]
    refine ⟨h, by simp, ?_⟩
    intro a ha b hb
    have : b = k := by simpa using hb
    subst this
    intro e; subst e; exact c ha

/-! ### the abstraction of an entry list -/

theorem absAkaEntries_nil : GenAbs.absAkaEntries [] = [] := rfl

theorem absAkaEntries_snoc (l : List (UInt8 × Gen.eap.EapAkaPrimeAttr)) (p : UInt8 × Gen.eap.EapAkaPrimeAttr) :
    GenAbs.absAkaEntries (l ++ [p]) = akaInsert (GenAbs.absAkaEntries l) (GenAbs.absAkaAttr p.2) := by
  unfold GenAbs.absAkaEntries
  rw [List.foldl_append]
  rfl

private theorem foldl_sorted (l : List (UInt8 × Gen.eap.EapAkaPrimeAttr)) (acc : List AkaAttr)
    (h : AkaSorted acc) :
    AkaSorted (l.foldl (fun acc p => akaInsert acc (GenAbs.absAkaAttr p.2)) acc) := by
  induction l generalizing acc with
  | nil => exact h
  | cons p rest ih =>
    rw [List.foldl_cons]
    exact ih _ (akaInsert_sorted _ _ h)

theorem akaSorted_nil : AkaSorted [] := by unfold AkaSorted; exact List.Pairwise.nil

theorem absAkaEntries_sorted (l : List (UInt8 × Gen.eap.EapAkaPrimeAttr)) :
    AkaSorted (GenAbs.absAkaEntries l) := by
  unfold GenAbs.absAkaEntries
  exact foldl_sorted l [] akaSorted_nil

private theorem foldl_lookup (l : List (UInt8 × Gen.eap.EapAkaPrimeAttr)) (acc : List AkaAttr) (k : UInt8)
    (h : EntriesWF l) :
    akaLookup (l.foldl (fun acc p => akaInsert acc (GenAbs.absAkaAttr p.2)) acc) k =
      match Go.mapGetList l k with
      | some v => some (GenAbs.absAkaAttr v)
      | none => akaLookup acc k := by
  induction l generalizing acc with
  | nil => rfl
  | cons p rest ih =>
    obtain ⟨k0, v0⟩ := p
    rw [List.foldl_cons, ih _ (entriesWF_tail h)]
    have hk0 : k0 = v0.attrType := h.1 (k0, v0) List.mem_cons_self
    have hnm := entriesWF_head_notMem h
    simp only at hnm
    rw [mapGetList_cons]
    by_cases c : k0 = k
    · rw [if_pos c]
      rw [mapGetList_none_of_notMem rest k (c ▸ hnm)]
      simp only
      rw [akaLookup_akaInsert, if_pos (by show v0.attrType = k; rw [← hk0]; exact c)]
    · rw [if_neg c]
      cases hg : Go.mapGetList rest k with
      | some v => rfl
      | none =>
        simp only
        rw [akaLookup_akaInsert, if_neg (by show ¬ v0.attrType = k; rw [← hk0]; exact c)]

/-- the lookups of the abstraction are the lookups of the association list -/
theorem akaLookup_absAkaEntries (l : List (UInt8 × Gen.eap.EapAkaPrimeAttr)) (k : UInt8) (h : EntriesWF l) :
    akaLookup (GenAbs.absAkaEntries l) k = (Go.mapGetList l k).map GenAbs.absAkaAttr := by
  unfold GenAbs.absAkaEntries
  rw [foldl_lookup l [] k h]
  cases Go.mapGetList l k with
  | some v => rfl
  | none => rfl

/-- lookups agree -/
theorem mapGetList_abs (l : List (UInt8 × Gen.eap.EapAkaPrimeAttr)) (k : UInt8) (h : EntriesWF l) :
    (Go.mapGetList l k).map GenAbs.absAkaAttr = akaLookup (GenAbs.absAkaEntries l) k :=
  (akaLookup_absAkaEntries l k h).symm

/-- every element of the abstraction is the abstraction of a stored value -/
theorem mem_absAkaEntries {l : List (UInt8 × Gen.eap.EapAkaPrimeAttr)} (h : EntriesWF l) {y : AkaAttr}
    (hy : y ∈ GenAbs.absAkaEntries l) : ∃ p ∈ l, y = GenAbs.absAkaAttr p.2 := by
  have hl := akaLookup_sorted_mem (absAkaEntries_sorted l) hy
  rw [akaLookup_absAkaEntries l _ h] at hl
  cases hg : Go.mapGetList l y.atype with
  | none => rw [hg] at hl; cases hl
  | some v =>
    rw [hg] at hl
    have e : GenAbs.absAkaAttr v = y := by simpa using hl
    exact ⟨(y.atype, v), mapGetList_some_mem l _ _ hg, e.symm⟩

theorem atype_mem_absAkaEntries {l : List (UInt8 × Gen.eap.EapAkaPrimeAttr)} (h : EntriesWF l) (k : UInt8) :
    k ∈ (GenAbs.absAkaEntries l).map (·.atype) ↔ k ∈ l.map (·.1) := by
  rw [← mapGetList_isSome_iff]
  constructor
  · intro hk
    obtain ⟨y, hy, rfl⟩ := List.mem_map.mp hk
    have hl := akaLookup_sorted_mem (absAkaEntries_sorted l) hy
    rw [akaLookup_absAkaEntries l _ h] at hl
    cases hg : Go.mapGetList l y.atype with
    | none => rw [hg] at hl; cases hl
    | some v => rfl
  · intro hk
    cases hg : Go.mapGetList l k with
    | none => rw [hg] at hk; cases hk
    | some v =>
      have hl := akaLookup_absAkaEntries l k h
      rw [hg] at hl
      obtain ⟨hm, ht⟩ := akaLookup_some hl
      exact List.mem_map.mpr ⟨_, hm, ht⟩

/-! ### algebra of `akaInsert` on sorted lists -/

theorem akaInsert_comm (l : List AkaAttr) (a b : AkaAttr) (hs : AkaSorted l) (h : a.atype ≠ b.atype) :
    akaInsert (akaInsert l a) b = akaInsert (akaInsert l b) a := by
  apply akaSorted_ext
  · exact akaInsert_sorted _ _ (akaInsert_sorted _ _ hs)
  · exact akaInsert_sorted _ _ (akaInsert_sorted _ _ hs)
  · intro k
    simp only [akaLookup_akaInsert]
    by_cases ca : a.atype = k
    · have cb : ¬ b.atype = k := fun e => h (ca.trans e.symm)
      rw [if_pos ca, if_neg cb, if_pos ca]
    · rw [if_neg ca, if_neg ca]

theorem akaInsert_overwrite (l : List AkaAttr) (a b : AkaAttr) (hs : AkaSorted l) (h : a.atype = b.atype) :
    akaInsert (akaInsert l a) b = akaInsert l b :=
  akaInsert_insert_same l a b h

/-! ### stores -/

theorem entriesWF_mapSet (l : List (UInt8 × Gen.eap.EapAkaPrimeAttr)) (v : Gen.eap.EapAkaPrimeAttr)
    (h : EntriesWF l) : EntriesWF (Go.mapSetList l v.attrType v) := by
  refine ⟨?_, mapSetList_keys_nodup l _ _ h.2⟩
  intro p hp
  rcases mapSetList_mem l _ _ p hp with e | e
  · subst e; rfl
  · exact h.1 p e

/-- the key lemma: `m[v.attrType] = v` on the map is `akaInsert` on the abstraction -/
theorem absAkaEntries_mapSet (l : List (UInt8 × Gen.eap.EapAkaPrimeAttr)) (v : Gen.eap.EapAkaPrimeAttr)
    (h : EntriesWF l) :
    GenAbs.absAkaEntries (Go.mapSetList l v.attrType v) =
      akaInsert (GenAbs.absAkaEntries l) (GenAbs.absAkaAttr v) := by
  apply akaSorted_ext
  · exact absAkaEntries_sorted _
  · exact akaInsert_sorted _ _ (absAkaEntries_sorted _)
  · intro k
    rw [akaLookup_absAkaEntries _ k (entriesWF_mapSet l v h), mapGetList_mapSetList,
        akaLookup_akaInsert, akaLookup_absAkaEntries l k h]
    show Option.map _ (if v.attrType = k then _ else _) = if v.attrType = k then _ else _
    by_cases c : v.attrType = k
    · rw [if_pos c, if_pos c]; rfl
    · rw [if_neg c, if_neg c]

/-- the first entry can be inserted last -/
theorem absAkaEntries_cons (p : UInt8 × Gen.eap.EapAkaPrimeAttr) (l : List (UInt8 × Gen.eap.EapAkaPrimeAttr))
    (h : EntriesWF (p :: l)) :
    GenAbs.absAkaEntries (p :: l) = akaInsert (GenAbs.absAkaEntries l) (GenAbs.absAkaAttr p.2) := by
  have hk : p.1 = p.2.attrType := h.1 p List.mem_cons_self
  have hnm := entriesWF_head_notMem h
  apply akaSorted_ext
  · exact absAkaEntries_sorted _
  · exact akaInsert_sorted _ _ (absAkaEntries_sorted _)
  · intro k
    rw [akaLookup_absAkaEntries _ k h, akaLookup_akaInsert, akaLookup_absAkaEntries l k (entriesWF_tail h)]
    obtain ⟨k0, v0⟩ := p
    simp only at hk hnm
    show Option.map _ (Go.mapGetList ((k0, v0) :: l) k) = if v0.attrType = k then _ else _
    rw [mapGetList_cons, ← hk]
    by_cases c : k0 = k
    · rw [if_pos c, if_pos c]; rfl
    · rw [if_neg c, if_neg c]

/-! ### the sorted key list -/

theorem insertU8_atype (L : List AkaAttr) (a : AkaAttr) (h : a.atype ∉ L.map (·.atype)) :
    (akaInsert L a).map (·.atype) = Go.insertU8 a.atype (L.map (·.atype)) := by
  induction L with
  | nil => rfl
  | cons x rest ih =>
    rw [List.map_cons, List.mem_cons, not_or] at h
    unfold akaInsert
    simp only [List.map_cons]
    unfold Go.insertU8
    by_cases c1 : a.atype < x.atype
    · have c1' : a.atype ≤ x.atype := by
        rw [UInt8.lt_iff_toNat_lt] at c1; rw [UInt8.le_iff_toNat_le]; omega
      rw [if_pos c1, if_pos c1']
      rfl
    · have c2 : ¬ (a.atype == x.atype) = true := by simpa using h.1
      have c1' : ¬ a.atype ≤ x.atype := by
        rw [UInt8.lt_iff_toNat_lt] at c1; rw [UInt8.le_iff_toNat_le]
        have : a.atype.toNat ≠ x.atype.toNat := fun e => h.1 (UInt8.toNat_inj.mp e)
        omega
      rw [if_neg c1, if_neg c2, if_neg c1', List.map_cons, ih h.2]

/-- the sorted key list that `getAttrsKeys` produces is the list of types of the abstraction -/
theorem sortU8_keys_abs (l : List (UInt8 × Gen.eap.EapAkaPrimeAttr)) (h : EntriesWF l) :
    Go.sortU8 (l.map (·.1)) = (GenAbs.absAkaEntries l).map (·.atype) := by
  induction l with
  | nil => rfl
  | cons p rest ih =>
    have hk : p.1 = p.2.attrType := h.1 p List.mem_cons_self
    have hnm := entriesWF_head_notMem h
    have ht := entriesWF_tail h
    rw [absAkaEntries_cons p rest h, insertU8_atype, ← ih ht]
    · rw [List.map_cons, sortU8_cons, hk]; rfl
    · rw [atype_mem_absAkaEntries ht]
      show p.2.attrType ∉ _
      rw [← hk]; exact hnm

/-- looking each sorted key up gives the abstraction's elements in order -/
theorem lookup_sorted_keys (l : List (UInt8 × Gen.eap.EapAkaPrimeAttr)) (h : EntriesWF l) :
    (Go.sortU8 (l.map (·.1))).map (fun k => ((Go.mapGetList l k).map GenAbs.absAkaAttr)) =
      (GenAbs.absAkaEntries l).map some := by
  rw [sortU8_keys_abs l h, List.map_map]
  apply List.map_congr_left
  intro x hx
  show Option.map _ (Go.mapGetList l x.atype) = some x
  rw [mapGetList_abs l _ h]
  exact akaLookup_sorted_mem (absAkaEntries_sorted l) hx

/-! ### the representation of a sorted model list -/

theorem entriesWF_rep (xs : List AkaAttr) (hs : AkaSorted xs) :
    EntriesWF (xs.map (fun x => (x.atype, GenAbs.repAkaAttr x))) := by
  refine ⟨?_, ?_⟩
  · intro p hp
    obtain ⟨x, _, rfl⟩ := List.mem_map.mp hp
    rfl
  · rw [List.map_map]
    unfold AkaSorted at hs
    show (List.map (fun x : AkaAttr => x.atype) xs).Nodup
    unfold List.Nodup
    rw [List.pairwise_map]
    exact hs.imp (fun hlt => u8_lt_ne hlt)

/-- abstraction of the representation of a sorted model list -/
theorem absAkaEntries_rep (xs : List AkaAttr) (hs : AkaSorted xs) :
    GenAbs.absAkaEntries (xs.map (fun x => (x.atype, GenAbs.repAkaAttr x))) = xs := by
  induction xs with
  | nil => rfl
  | cons x rest ih =>
    have hwf := entriesWF_rep (x :: rest) hs
    unfold AkaSorted at hs
    rw [List.pairwise_cons] at hs
    rw [List.map_cons] at hwf ⊢
    rw [absAkaEntries_cons _ _ hwf, ih hs.2]
    show akaInsert rest (GenAbs.absAkaAttr (GenAbs.repAkaAttr x)) = x :: rest
    rw [absAkaAttr_repAkaAttr]
    exact akaInsert_front rest x hs.1

end Ike.RefineEap

