import IkeProofs.RefineEap.Glue
import IkeModel.Generated.Gen_lib
import IkeModel.EapMac
import IkeModel.EapKeys
import IkeModel.Security.Sa
import IkeProofs.Lemmas.PrimsReal

/-! The functions of package `eap` and `security/lib` that use a cryptographic primitive, as translated
(`Ike.Gen.eap.EapAkaPrimePRF`, `Ike.Gen.eap.EAP.CalcEapAkaPrimeAtMAC`, `Ike.Gen.lib.PrfPlus`) compute
what the hand-written model computes (`akaPrf`, `calcEapAkaPrimeAtMAC`, `prfPlus`), for every
primitives record `P : Prims`.

Two of the three need a hypothesis on the LENGTH of what `P.mac` returns (nothing else of
`Prims.Lawful`), because the model truncates with `List.take`/`List.drop` where Go slices (and so
panics on a short operand); the counter-examples without the hypothesis are proved at the end
(`CalcEapAkaPrimeAtMAC_needs_len`, `PrfPlus_needs_len`). -/

set_option linter.unusedSimpArgs false
set_option linter.unusedVariables false

namespace Ike.RefineEap
open Ike Ike.Gen.eap Ike.Refine

/-- a generated `hash.Hash` object as the model's `HashObj` -/
def absMac (m : Go.Mac) : HashObj := ⟨m.h, m.key, m.buf⟩

@[simp] theorem absMac_reset (m : Go.Mac) : absMac (Go.Mac.reset m) = (absMac m).reset := rfl
@[simp] theorem absMac_write (m : Go.Mac) (x : Bytes) : absMac (Go.Mac.write m x) = (absMac m).write x := rfl
@[simp] theorem absMac_sum (P : Prims) (m : Go.Mac) (b : Bytes) : Go.Mac.sum P m b = (absMac m).sum P b := rfl
@[simp] theorem absMac_size (P : Prims) (m : Go.Mac) : Go.Mac.size P m = (absMac m).size P := rfl

/-! ### `EapAkaPrimePRF` -/

/-- `copy(make([]byte, len(v)+1), v)` -/
theorem copyInto_zeros_succ (v : Bytes) :
    Go.copyInto (zeros (v.length + 1)) 0 (zeros (v.length + 1)).length v = Res.ok (v ++ [0], v.length) := by
  unfold Go.copyInto
  have hl : (zeros (v.length + 1)).length = v.length + 1 := by simp [zeros]
  rw [hl]
  rw [if_pos ⟨Nat.zero_le _, Nat.le_refl _⟩]
  have hm : min (v.length + 1 - 0) v.length = v.length := by omega
  simp only [hm, List.take_zero, List.nil_append, List.take_length, Nat.zero_add]
  have : (zeros (v.length + 1)).drop v.length = [0] := by
    simp [zeros, List.drop_replicate]
  rw [this]

theorem setN_last (v : Bytes) (x y : UInt8) : Go.setN (v ++ [x]) v.length y = Res.ok (v ++ [y]) := by
  unfold Go.setN
  rw [if_pos (by simp)]
  simp

/-- the PRF' loop: `7 - i` more rounds -/
theorem EapAkaPrimePRF_loop1_eq (P : Prims) (key sBase : Bytes) :
    ∀ (fuel : Nat) (i : Nat) (MK prev : Bytes), i ≤ 7 → 7 - i + 1 ≤ fuel →
      ∃ pv, EapAkaPrimePRF.loop1 P fuel key sBase sBase.length false MK prev i =
        Res.ok (false, akaPrfLoop P key sBase (7 - i) i MK prev, pv, 7) := by
  intro fuel
  induction fuel with
  | zero => intro i MK prev h1 h2; omega
  | succ f ih =>
    intro i MK prev h1 h2
    unfold EapAkaPrimePRF.loop1
    by_cases hi : i < 7
    · simp only [hi, if_true, copyInto_zeros_succ, Res.bind_ok, setN_last, copyInto_zeros,
        Bool.false_eq_true, if_false]
      obtain ⟨pv, hpv⟩ := ih (i + 1) (MK ++ Go.Mac.sum P (Go.Mac.write (Go.Mac.new 2 key)
        (prev ++ (sBase ++ [UInt8.ofNat (i + 1)]))) []) (Go.Mac.sum P (Go.Mac.write (Go.Mac.new 2 key)
        (prev ++ (sBase ++ [UInt8.ofNat (i + 1)]))) []) (by omega) (by omega)
      refine ⟨pv, ?_⟩
      rw [hpv]
      have e : 7 - i = (7 - (i + 1)) + 1 := by omega
      rw [e, akaPrfLoop]
      simp [Go.Mac.sum, Go.Mac.write, Go.Mac.new]
    · have h7 : i = 7 := by omega
      subst h7
      exact ⟨prev, by simp [akaPrfLoop]⟩

theorem EapAkaPrimePRF_refines (P : Prims) (ik ck ident : Bytes) :
    (Gen.eap.EapAkaPrimePRF P ik ck ident).map (fun k => (⟨k.1, k.2.1, k.2.2.1, k.2.2.2.1, k.2.2.2.2⟩ : AkaKeys)) = akaPrf P ik ck ident := by
  unfold Gen.eap.EapAkaPrimePRF akaPrf
  by_cases h0 : ik.length = 0 ∨ ck.length = 0
  · have : (ik.length = 0 || ck.length = 0) = true := by simpa using h0
    simp only [h0, this, if_true, map_err']
  · have : ¬ (ik.length = 0 || ck.length = 0) = true := by simpa using h0
    simp only [h0, this, if_false]
    obtain ⟨pv, hpv⟩ := EapAkaPrimePRF_loop1_eq P (zeros 0 ++ ik ++ ck) ([69, 65, 80, 45, 65, 75, 65, 39] ++ ident)
      (7 - 0 + 2) 0 (zeros 0) (zeros 0) (by omega) (by omega)
    rw [hpv]
    simp only [Res.bind_ok]
    have hk : zeros 0 ++ ik ++ ck = ik ++ ck := by simp [zeros]
    have hz : zeros 0 = ([] : Bytes) := rfl
    have hl : ([69, 65, 80, 45, 65, 75, 65, 39] : Bytes) = akaLabel := rfl
    have hr : akaPrfRounds = 7 - 0 := rfl
    rw [hk, hz, hl, hr]
    generalize akaPrfLoop P (ik ++ ck) (akaLabel ++ ident) (7 - 0) 0 [] [] = mk
    by_cases hm : mk.length < 208
    · simp [hm]
    · simp only [hm, if_false]
      cases goSlice mk 0 16 <;> cases goSlice mk 16 48 <;> cases goSlice mk 48 80 <;>
        cases goSlice mk 80 144 <;> cases goSlice mk 144 208 <;> rfl

/-! ### `CalcEapAkaPrimeAtMAC` -/

theorem initMAC_wf (g : Gen.eap.EapAkaPrime) (hwf : GenAbs.AkaWF g) (g' : Gen.eap.EapAkaPrime)
    (h : EapAkaPrime.initMAC g = .ok g') : GenAbs.AkaWF g' := by
  unfold EapAkaPrime.initMAC at h
  simp only [] at h
  cases hs : EapAkaPrime.SetAttr g 11 (zeros 16) with
  | ok a =>
    rw [hs, Res.bind_ok] at h
    cases h
    exact SetAttr_wf g hwf 11 (zeros 16) _ hs
  | err => rw [hs] at h; cases h
  | fault => rw [hs] at h; cases h

/-- `hmac.New(sha256.New, key)`, one `Write`, `Sum(nil)` -/
theorem mac_once (P : Prims) (key x : Bytes) :
    Go.Mac.sum P (Go.Mac.write (Go.Mac.new 2 key) x) [] = P.mac 2 key x := by
  simp [Go.Mac.sum, Go.Mac.write, Go.Mac.new]

theorem goSlice_0_take (b : Bytes) (n : Nat) (h : n ≤ b.length) : goSlice b 0 n = Res.ok (b.take n) := by
  unfold goSlice
  rw [if_pos ⟨Nat.zero_le _, h⟩]
  simp

/-- everything `CalcEapAkaPrimeAtMAC` does, with the packet it leaves on success -/
theorem CalcEapAkaPrimeAtMAC_spec (P : Prims) (hlen : ∀ k m, 16 ≤ (P.mac 2 k m).length)
    (e : Gen.eap.EAP) (hwf : EapWF e) (key : Bytes) :
    Gen.eap.EAP.CalcEapAkaPrimeAtMAC P e key =
      (match e.EapTypeData with
       | .nil_ => Res.fault
       | .EapAkaPrime g =>
         (EapAkaPrime.initMAC g) >>= fun g' =>
         (marshalEap (GenAbs.absEap { e with EapTypeData := .EapAkaPrime g' })) >>= fun bytes =>
         Res.ok ({ e with EapTypeData := .EapAkaPrime g' }, (P.mac 2 key bytes).take 16)
       | _ => Res.err) := by
  obtain ⟨c, i, d⟩ := e
  unfold Gen.eap.EAP.CalcEapAkaPrimeAtMAC
  cases d with
  | nil_ => rfl
  | EapAkaPrime g =>
    simp only [EapTypeData.Type_, EapAkaPrime.Type_, Res.bind_ok, ne_eq, not_true_eq_false, if_false]
    cases hi : EapAkaPrime.initMAC g with
    | ok g' =>
      simp only [Res.bind_ok]
      have hwf' : EapWF { Code := c, Identifier := i, EapTypeData := .EapAkaPrime g' } :=
        initMAC_wf g hwf g' hi
      rw [Gen_EAP_Marshal _ hwf']
      cases marshalEap (GenAbs.absEap { Code := c, Identifier := i, EapTypeData := .EapAkaPrime g' }) with
      | ok bytes =>
        simp only [Res.bind_ok, Bool.false_eq_true, if_false, mac_once]
        rw [goSlice_0_take _ _ (hlen _ _)]
        rfl
      | err => rfl
      | fault => rfl
    | err => rfl
    | fault => rfl
  | EapExpanded v => rfl
  | EapIdentity v => rfl
  | EapNak v => rfl
  | EapNotification v => rfl

theorem CalcEapAkaPrimeAtMAC_refines (P : Prims) (hlen : ∀ k m, 16 ≤ (P.mac 2 k m).length)
    (e : Gen.eap.EAP) (hwf : EapWF e) (key : Bytes) :
    (Gen.eap.EAP.CalcEapAkaPrimeAtMAC P e key).map (fun r => (GenAbs.absEap r.1, r.2)) =
      (match calcEapAkaPrimeAtMAC P (GenAbs.absEap e) key with
       | (e', .ok m) => Res.ok (e', m) | (_, .err) => Res.err | (_, .fault) => Res.fault) := by
  rw [CalcEapAkaPrimeAtMAC_spec P hlen e hwf key]
  obtain ⟨c, i, d⟩ := e
  unfold calcEapAkaPrimeAtMAC
  cases d with
  | nil_ => rfl
  | EapAkaPrime g =>
    simp only [GenAbs.absEap, GenAbs.absEapData, akaInitMac]
    rw [← initMAC_refines g hwf]
    cases hi : EapAkaPrime.initMAC g with
    | ok g' =>
      simp only [Res.bind_ok, map_ok']
      cases marshalEap ⟨c, i, .aka (GenAbs.absAka g')⟩ <;> rfl
    | err => rfl
    | fault => rfl
  | EapExpanded v => rfl
  | EapIdentity v => rfl
  | EapNak v => rfl
  | EapNotification v => rfl

theorem CalcEapAkaPrimeAtMAC_wf (P : Prims) (e : Gen.eap.EAP) (hwf : EapWF e) (key : Bytes) (e' : Gen.eap.EAP) (m : Bytes)
    (h : Gen.eap.EAP.CalcEapAkaPrimeAtMAC P e key = .ok (e', m)) : EapWF e' := by
  obtain ⟨c, i, d⟩ := e
  unfold Gen.eap.EAP.CalcEapAkaPrimeAtMAC at h
  cases d with
  | EapAkaPrime g =>
    simp only [EapTypeData.Type_, EapAkaPrime.Type_, Res.bind_ok, ne_eq, not_true_eq_false, if_false] at h
    cases hi : EapAkaPrime.initMAC g with
    | ok g' =>
      rw [hi] at h
      simp only [Res.bind_ok] at h
      cases hm : EAP.Marshal { Code := c, Identifier := i, EapTypeData := .EapAkaPrime g' } with
      | ok bytes =>
        rw [hm] at h
        simp only [Res.bind_ok, Bool.false_eq_true, if_false] at h
        cases hs : goSlice (Go.Mac.sum P (Go.Mac.write (Go.Mac.new 2 key) bytes) []) 0 16 with
        | ok t =>
          rw [hs] at h
          simp only [Res.bind_ok, Res.ok.injEq, Prod.mk.injEq] at h
          rw [← h.1]
          exact initMAC_wf g hwf g' hi
        | err => rw [hs] at h; cases h
        | fault => rw [hs] at h; cases h
      | err => rw [hm] at h; cases h
      | fault => rw [hm] at h; cases h
    | err => rw [hi] at h; cases h
    | fault => rw [hi] at h; cases h
  | nil_ => cases h
  | EapExpanded v => cases h
  | EapIdentity v => cases h
  | EapNak v => cases h
  | EapNotification v => cases h

/-! ### `lib.PrfPlus` -/

/-- the model's `HashObj` as a generated `hash.Hash` object (inverse of `absMac`) -/
def repMac (h : HashObj) : Go.Mac := { h := h.alg, key := h.key, buf := h.buf }

@[simp] theorem repMac_absMac (m : Go.Mac) : repMac (absMac m) = m := rfl
@[simp] theorem absMac_repMac (h : HashObj) : absMac (repMac h) = h := rfl

theorem sliceFrom_ok_or_fault {α : Type} (l : List α) (lo : Int) :
    (∃ r, Go.sliceFrom l lo = Res.ok r) ∨ Go.sliceFrom l lo = Res.fault := by
  unfold Go.sliceFrom
  split
  · exact Or.inl ⟨_, rfl⟩
  · exact Or.inr rfl

/-- `stream[len(stream)-prf.Size():]` when the stream is at least one digest long -/
theorem sliceFrom_tail (l : Bytes) (k : Nat) (h : k ≤ l.length) :
    Go.sliceFrom l ((l.length : Int) - (k : Int)) = Res.ok (l.drop (l.length - k)) := by
  unfold Go.sliceFrom
  rw [if_pos (by omega)]
  have : ((l.length : Int) - (k : Int)).toNat = l.length - k := by omega
  rw [this]

/-- The loop of `PrfPlus` for an arbitrary accumulated state (`stream`, `block`, `i`), for every fuel:
with one unit of fuel more than the model's loop it ends in the state the model's loop ends in,
provided that state's stream is long enough, and is out of fuel (`fault`) otherwise.  The branch
`Sum.inr` (`return nil` after a failing `Write`) is never taken.

`hlen` (every digest of hash `prf.h` is at least `Size()` octets long) is what keeps
`stream[len(stream)-prf.Size():]` in range. -/
theorem PrfPlus_loop1_eq (P : Prims) (s : Bytes) (n : Nat) :
    ∀ (fuel : Nat) (prf : Go.Mac) (stream block : Bytes) (i : Nat),
      (∀ k m, P.macLen prf.h ≤ (P.mac prf.h k m).length) →
      ∃ blk j, Gen.lib.PrfPlus.loop1 P (fuel + 1) s (n : Int) prf stream block i =
        (if (prfPlusLoop P s n fuel (absMac prf) i stream block).2.length < n then Res.fault
         else Res.ok (Sum.inl (repMac (prfPlusLoop P s n fuel (absMac prf) i stream block).1,
                               (prfPlusLoop P s n fuel (absMac prf) i stream block).2, blk, j))) := by
  intro fuel
  induction fuel with
  | zero =>
    intro prf stream block i hlen
    unfold Gen.lib.PrfPlus.loop1 prfPlusLoop
    by_cases c : stream.length < n
    · have c' : (stream.length : Int) < (n : Int) := by omega
      refine ⟨[], 0, ?_⟩
      simp only [c, c', if_true, Bool.false_eq_true, if_false]
      unfold Gen.lib.PrfPlus.loop1
      rcases sliceFrom_ok_or_fault (Go.Mac.sum P (Go.Mac.write (Go.Mac.reset prf) (block ++ s ++ [UInt8.ofNat i])) stream)
        (((Go.Mac.sum P (Go.Mac.write (Go.Mac.reset prf) (block ++ s ++ [UInt8.ofNat i])) stream).length : Int) -
          ((Go.Mac.size P (Go.Mac.write (Go.Mac.reset prf) (block ++ s ++ [UInt8.ofNat i])) : Nat) : Int)) with ⟨r, hr⟩ | hr
      · rw [hr]; rfl
      · rw [hr]; rfl
    · have c' : ¬ (stream.length : Int) < (n : Int) := by omega
      refine ⟨block, i, ?_⟩
      simp only [c, c', if_false, repMac_absMac]
  | succ f ih =>
    intro prf stream block i hlen
    unfold Gen.lib.PrfPlus.loop1 prfPlusLoop
    by_cases c : stream.length < n
    · have c' : (stream.length : Int) < (n : Int) := by omega
      simp only [c, c', if_true, Bool.false_eq_true, if_false]
      have hsz : Go.Mac.size P (Go.Mac.write (Go.Mac.reset prf) (block ++ s ++ [UInt8.ofNat i])) ≤
          (Go.Mac.sum P (Go.Mac.write (Go.Mac.reset prf) (block ++ s ++ [UInt8.ofNat i])) stream).length := by
        have := hlen prf.key (block ++ s ++ [UInt8.ofNat i])
        simp only [Go.Mac.size, Go.Mac.sum, Go.Mac.write, Go.Mac.reset, List.length_append, List.nil_append]
        omega
      rw [sliceFrom_tail _ _ hsz]
      simp only [Res.bind_ok]
      exact ih (Go.Mac.write (Go.Mac.reset prf) (block ++ s ++ [UInt8.ofNat i])) _ _ (i + 1) hlen
    · have c' : ¬ (stream.length : Int) < (n : Int) := by omega
      refine ⟨block, i, ?_⟩
      simp only [c, c', if_false, repMac_absMac]

theorem PrfPlus_refines (P : Prims) (prf : Go.Mac) (hlen : ∀ k m, P.macLen prf.h ≤ (P.mac prf.h k m).length)
    (s : Bytes) (n : Nat) :
    (Gen.lib.PrfPlus P prf s (n : Int)).map (fun r => (absMac r.1, r.2)) =
      (match prfPlus P (absMac prf) s n with | (h', .ok b) => Res.ok (h', b) | (_, .err) => Res.err | (_, .fault) => Res.fault) := by
  unfold Gen.lib.PrfPlus prfPlus
  have hf : ((n : Int) - (([] : Bytes).length : Int)).toNat + 2 = (n + 1) + 1 := by
    simp only [List.length_nil]; omega
  simp only [hf]
  obtain ⟨blk, j, h⟩ := PrfPlus_loop1_eq P s n (n + 1) prf [] [] 1 hlen
  rw [h]
  generalize prfPlusLoop P s n (n + 1) (absMac prf) 1 [] [] = r
  obtain ⟨h', stream⟩ := r
  by_cases c : stream.length < n
  · have : ¬ n ≤ stream.length := by omega
    simp [c, goTo, this]
  · have c2 : n ≤ stream.length := by omega
    have c3 : (0 : Int) ≤ (n : Int) ∧ (n : Int) ≤ (stream.length : Int) := by omega
    simp [c, goTo, c2, Go.sliceTo, c3]

/-! ### the length hypotheses: who satisfies them, and why they cannot be dropped -/

theorem CalcEapAkaPrimeAtMAC_refines_lawful (P : Prims) (hP : P.Lawful) (h16 : 16 ≤ P.macLen 2)
    (e : Gen.eap.EAP) (hwf : EapWF e) (key : Bytes) :
    (Gen.eap.EAP.CalcEapAkaPrimeAtMAC P e key).map (fun r => (GenAbs.absEap r.1, r.2)) =
      (match calcEapAkaPrimeAtMAC P (GenAbs.absEap e) key with
       | (e', .ok m) => Res.ok (e', m) | (_, .err) => Res.err | (_, .fault) => Res.fault) :=
  CalcEapAkaPrimeAtMAC_refines P (fun k m => by rw [hP.mac_len]; exact h16) e hwf key

theorem CalcEapAkaPrimeAtMAC_refines_real (e : Gen.eap.EAP) (hwf : EapWF e) (key : Bytes) :
    (Gen.eap.EAP.CalcEapAkaPrimeAtMAC Prims.real e key).map (fun r => (GenAbs.absEap r.1, r.2)) =
      (match calcEapAkaPrimeAtMAC Prims.real (GenAbs.absEap e) key with
       | (e', .ok m) => Res.ok (e', m) | (_, .err) => Res.err | (_, .fault) => Res.fault) :=
  CalcEapAkaPrimeAtMAC_refines_lawful Prims.real Prims.real_lawful (by decide) e hwf key

theorem PrfPlus_refines_lawful (P : Prims) (hP : P.Lawful) (prf : Go.Mac) (s : Bytes) (n : Nat) :
    (Gen.lib.PrfPlus P prf s (n : Int)).map (fun r => (absMac r.1, r.2)) =
      (match prfPlus P (absMac prf) s n with | (h', .ok b) => Res.ok (h', b) | (_, .err) => Res.err | (_, .fault) => Res.fault) :=
  PrfPlus_refines P prf (fun k m => by rw [hP.mac_len]; exact Nat.le_refl _) s n

theorem PrfPlus_refines_real (prf : Go.Mac) (s : Bytes) (n : Nat) :
    (Gen.lib.PrfPlus Prims.real prf s (n : Int)).map (fun r => (absMac r.1, r.2)) =
      (match prfPlus Prims.real (absMac prf) s n with | (h', .ok b) => Res.ok (h', b) | (_, .err) => Res.err | (_, .fault) => Res.fault) :=
  PrfPlus_refines_lawful Prims.real Prims.real_lawful prf s n

/-- a primitives record whose MAC is empty (shorter than the 16 octets `sum[:16]` needs) -/
def shortMacPrims : Prims := ⟨fun _ _ _ => [], fun _ => 0, fun _ b => b, fun _ b => b⟩

/-- Without `hlen` the statement of `CalcEapAkaPrimeAtMAC_refines` is false: with an empty MAC the Go code
panics in `sum[:16]` (generated: `fault`) while the model's `take 16` returns the short MAC. -/
theorem CalcEapAkaPrimeAtMAC_needs_len :
    ∃ (P : Prims) (e : Gen.eap.EAP) (_ : EapWF e) (key : Bytes),
      Gen.eap.EAP.CalcEapAkaPrimeAtMAC P e key = Res.fault ∧
      (calcEapAkaPrimeAtMAC P (GenAbs.absEap e) key).2 = Res.ok [] := by
  refine ⟨shortMacPrims, { Code := 1, Identifier := 0, EapTypeData := .EapAkaPrime { subType := 1, attributes := some [] } }, ?_, [], ?_, ?_⟩
  · exact NewEapAkaPrime_wf 1 _ rfl
  · decide
  · decide

/-- a primitives record whose MAC (1 octet) is shorter than the `Size()` it announces (2) -/
def shortSizePrims : Prims := ⟨fun _ _ _ => [0], fun _ => 2, fun _ b => b, fun _ b => b⟩

/-- Without `hlen` the statement of `PrfPlus_refines` is false: when a digest is shorter than `Size()`
the Go code panics in `stream[len(stream)-prf.Size():]` (generated: `fault`) while the model's
`drop (len - size)` (natural-number subtraction) keeps the whole stream and goes on. -/
theorem PrfPlus_needs_len :
    ∃ (P : Prims) (prf : Go.Mac) (s : Bytes) (n : Nat),
      Gen.lib.PrfPlus P prf s (n : Int) = Res.fault ∧ (prfPlus P (absMac prf) s n).2 = Res.ok [0] := by
  refine ⟨shortSizePrims, {}, [], 1, ?_, ?_⟩
  · decide
  · decide

end Ike.RefineEap
