import IkeProofs.Refine.Basic
import IkeModel.GenAbsEap
import IkeProofs.RefineEap.Simple
import IkeProofs.RefineEap.AkaMap

/-! Package `eap`, the packet level: the interface dispatchers `EapTypeData.Marshal` /
`EapTypeData.Unmarshal` and `EAP.Marshal` / `EAP.Unmarshal`, as generated ⊑ the hand-written
model (`marshalEap`, `unmarshalEap`).  The EAP-AKA' method theorems are taken as hypotheses
(`AkaRefines`); they are proved elsewhere. -/

set_option linter.unusedSimpArgs false
set_option linter.unusedVariables false

namespace Ike.RefineEap
open Ike Ike.Gen.eap Ike.Refine

/-- the EAP-AKA' method theorems (proved in other files), bundled -/
structure AkaRefines : Prop where
  unmarshal : ∀ raw : Bytes, (EapAkaPrime.Unmarshal {} raw).map GenAbs.absAka = unmarshalAka raw
  unmarshal_wf : ∀ (raw : Bytes) (g : Gen.eap.EapAkaPrime), EapAkaPrime.Unmarshal {} raw = .ok g → GenAbs.AkaWF g
  marshal : ∀ g : Gen.eap.EapAkaPrime, GenAbs.AkaWF g → EapAkaPrime.Marshal g = marshalAka (GenAbs.absAka g)

/-- well-formed packet: an EAP-AKA' method body satisfies the attribute-map invariant -/
def EapWF (e : Gen.eap.EAP) : Prop := match e.EapTypeData with | .EapAkaPrime g => GenAbs.AkaWF g | _ => True

/-- the same invariant on a method body alone -/
def EapDataWF (d : Gen.eap.EapTypeData) : Prop := match d with | .EapAkaPrime g => GenAbs.AkaWF g | _ => True

theorem EapWF_iff (e : Gen.eap.EAP) : EapWF e ↔ EapDataWF e.EapTypeData := Iff.rfl

/-! ### small facts about `Res` -/

theorem bind_ok_id {α : Type} (x : Res α) : (x >>= fun r => Res.ok r) = x := by
  cases x <;> rfl

theorem map_bind_ok {α β γ : Type} (x : Res α) (f : α → β) (g : β → γ) :
    (x >>= fun r => Res.ok (f r)).map g = x.map (fun r => g (f r)) := by
  cases x <;> rfl

/-! ### the dispatchers -/

/-- `EapTypeData.Marshal` on a non-nil interface value -/
theorem EapTypeData_Marshal_refines (ha : AkaRefines) (d : Gen.eap.EapTypeData) (hn : d ≠ .nil_)
    (hwf : EapDataWF d) : EapTypeData.Marshal d = marshalEapData (GenAbs.absEapData d) := by
  cases d with
  | nil_ => exact absurd rfl hn
  | EapAkaPrime v =>
    simp only [EapTypeData.Marshal, bind_ok_id, GenAbs.absEapData, marshalEapData]
    exact ha.marshal v hwf
  | EapExpanded v =>
    simp only [EapTypeData.Marshal, bind_ok_id, GenAbs.absEapData]
    exact EapExpanded_Marshal_refines v
  | EapIdentity v =>
    simp only [EapTypeData.Marshal, bind_ok_id, GenAbs.absEapData]
    exact EapIdentity_Marshal_refines v
  | EapNak v =>
    simp only [EapTypeData.Marshal, bind_ok_id, GenAbs.absEapData]
    exact EapNak_Marshal_refines v
  | EapNotification v =>
    simp only [EapTypeData.Marshal, bind_ok_id, GenAbs.absEapData]
    exact EapNotification_Marshal_refines v

/-- on the nil interface the method call is a nil dereference -/
theorem EapTypeData_Marshal_nil : EapTypeData.Marshal .nil_ = Res.fault := rfl
theorem EapTypeData_Unmarshal_nil (b : Bytes) : EapTypeData.Unmarshal .nil_ b = Res.fault := rfl

theorem EapTypeData_Unmarshal_identity (b : Bytes) :
    (EapTypeData.Unmarshal (.EapIdentity {}) b).map GenAbs.absEapData
      = unmarshalSimple Facts.eapTypeIdentity .identity b := by
  simp only [EapTypeData.Unmarshal, map_bind_ok]
  exact EapIdentity_Unmarshal_refines b

theorem EapTypeData_Unmarshal_notification (b : Bytes) :
    (EapTypeData.Unmarshal (.EapNotification {}) b).map GenAbs.absEapData
      = unmarshalSimple Facts.eapTypeNotification .notification b := by
  simp only [EapTypeData.Unmarshal, map_bind_ok]
  exact EapNotification_Unmarshal_refines b

theorem EapTypeData_Unmarshal_nak (b : Bytes) :
    (EapTypeData.Unmarshal (.EapNak {}) b).map GenAbs.absEapData
      = unmarshalSimple Facts.eapTypeNak .nak b := by
  simp only [EapTypeData.Unmarshal, map_bind_ok]
  exact EapNak_Unmarshal_refines b

theorem EapTypeData_Unmarshal_expanded (b : Bytes) :
    (EapTypeData.Unmarshal (.EapExpanded {}) b).map GenAbs.absEapData = unmarshalExpanded b := by
  simp only [EapTypeData.Unmarshal, map_bind_ok]
  exact EapExpanded_Unmarshal_refines b

theorem EapTypeData_Unmarshal_aka (ha : AkaRefines) (b : Bytes) :
    (EapTypeData.Unmarshal (.EapAkaPrime {}) b).map GenAbs.absEapData
      = (unmarshalAka b >>= fun a => Res.ok (EapData.aka a)) := by
  simp only [EapTypeData.Unmarshal, map_bind_ok]
  rw [← ha.unmarshal b]
  cases EapAkaPrime.Unmarshal {} b <;> rfl

/-- the dispatcher keeps the dynamic type, and an EAP-AKA' result satisfies the map invariant -/
theorem EapTypeData_Unmarshal_wf (ha : AkaRefines) (d r : Gen.eap.EapTypeData) (b : Bytes)
    (hd : d = .EapAkaPrime {} ∨ ∀ g, d ≠ .EapAkaPrime g)
    (h : EapTypeData.Unmarshal d b = .ok r) : EapDataWF r := by
  cases d with
  | nil_ => simp [EapTypeData.Unmarshal] at h
  | EapAkaPrime v =>
    rcases hd with hd | hd
    · injection hd with hv
      subst hv
      simp only [EapTypeData.Unmarshal] at h
      cases hu : EapAkaPrime.Unmarshal {} b with
      | ok g =>
        rw [hu] at h
        simp only [Res.bind_ok, Res.ok.injEq] at h
        subst h
        exact ha.unmarshal_wf b g hu
      | err => rw [hu] at h; simp at h
      | fault => rw [hu] at h; simp at h
    · exact absurd rfl (hd v)
  | EapExpanded v =>
    simp only [EapTypeData.Unmarshal] at h
    cases hu : EapExpanded.Unmarshal v b <;> rw [hu] at h <;> simp at h
    subst h; trivial
  | EapIdentity v =>
    simp only [EapTypeData.Unmarshal] at h
    cases hu : EapIdentity.Unmarshal v b <;> rw [hu] at h <;> simp at h
    subst h; trivial
  | EapNak v =>
    simp only [EapTypeData.Unmarshal] at h
    cases hu : EapNak.Unmarshal v b <;> rw [hu] at h <;> simp at h
    subst h; trivial
  | EapNotification v =>
    simp only [EapTypeData.Unmarshal] at h
    cases hu : EapNotification.Unmarshal v b <;> rw [hu] at h <;> simp at h
    subst h; trivial

/-! ### `EAP.Marshal` -/

/-- the four-octet header written by `EAP.Marshal`, with the method body appended before the
length is stored -/
theorem header_putU16 (c i : UInt8) (td : Bytes) :
    Go.putU16 ([c, i, 0, 0] ++ td) 2 4 (UInt16.ofNat ([c, i, 0, 0] ++ td).length)
      = Res.ok ([c, i] ++ put16 (UInt16.ofNat (4 + td.length)) ++ td) := by
  have hl : ([c, i, 0, 0] ++ td).length = 4 + td.length := by simp; omega
  rw [hl]
  have hp (w : UInt16) : (put16 w).length = 2 := rfl
  simp [Go.putU16, Go.splice, hp]

theorem EAP_Marshal_refines (ha : AkaRefines) (e : Gen.eap.EAP) (hwf : EapWF e) :
    EAP.Marshal e = marshalEap (GenAbs.absEap e) := by
  unfold EAP.Marshal marshalEap
  have h1 : Go.setN (zeros 4) 0 e.Code = Res.ok [e.Code, 0, 0, 0] := by
    simp [Go.setN, zeros]
  have h2 : Go.setN [e.Code, 0, 0, 0] 1 e.Identifier = Res.ok [e.Code, e.Identifier, 0, 0] := by
    simp [Go.setN]
  simp only [h1, h2, Res.bind_ok, GenAbs.absEap]
  by_cases hn : e.EapTypeData = .nil_
  · simp only [hn, ne_eq, not_true_eq_false, if_false, GenAbs.absEapData, marshalEapData,
      Res.bind_ok]
    rw [bind_ok_id]
    exact header_putU16 e.Code e.Identifier []
  · simp only [ne_eq, hn, not_false_eq_true, if_true]
    rw [EapTypeData_Marshal_refines ha _ hn hwf]
    cases marshalEapData (GenAbs.absEapData e.EapTypeData) with
    | ok td =>
      simp only [Res.bind_ok]
      rw [bind_ok_id]
      exact header_putU16 e.Code e.Identifier td
    | err => rfl
    | fault => rfl

/-! ### `EAP.Unmarshal` -/

/-- the tail of `EAP.Unmarshal` after the type switch (the join point `jp8`) -/
private theorem jp_refines (c i : UInt8) (b : Bytes) (d : Gen.eap.EapTypeData) (m : Bytes → Res EapData)
    (hd : ∀ body, (EapTypeData.Unmarshal d body).map GenAbs.absEapData = m body) :
    ((goFrom b 4 >>= fun t6 => EapTypeData.Unmarshal d t6 >>= fun t7 =>
        Res.ok { Code := c, Identifier := i, EapTypeData := t7 }) : Res Gen.eap.EAP).map GenAbs.absEap
      = (goFrom b 4 >>= fun body => m body >>= fun dd => Res.ok (⟨c, i, dd⟩ : Eap)) := by
  cases goFrom b 4 with
  | ok body =>
    simp only [Res.bind_ok]
    rw [← hd body]
    cases EapTypeData.Unmarshal d body <;> rfl
  | err => rfl
  | fault => rfl

private theorem jp_wf (ha : AkaRefines) (c i : UInt8) (e : Gen.eap.EAP) (b : Bytes) (d : Gen.eap.EapTypeData)
    (hd : d = .EapAkaPrime {} ∨ ∀ g, d ≠ .EapAkaPrime g)
    (h : ((goFrom b 4 >>= fun t6 => EapTypeData.Unmarshal d t6 >>= fun t7 =>
        Res.ok { Code := c, Identifier := i, EapTypeData := t7 }) : Res Gen.eap.EAP) = .ok e) : EapWF e := by
  cases hf : goFrom b 4 with
  | ok body =>
    rw [hf] at h
    simp only [Res.bind_ok] at h
    cases hu : EapTypeData.Unmarshal d body with
    | ok r =>
      rw [hu] at h
      simp only [Res.bind_ok, Res.ok.injEq] at h
      subst h
      exact EapTypeData_Unmarshal_wf ha d r body hd hu
    | err => rw [hu] at h; simp at h
    | fault => rw [hu] at h; simp at h
  | err => rw [hf] at h; simp at h
  | fault => rw [hf] at h; simp at h

/-- decoding into an object that was used before gives the same packet (Go sets Code, Identifier and EapTypeData afresh) -/
theorem EAP_Unmarshal_reuse (ha : AkaRefines) (old : Gen.eap.EAP) (b : Bytes) (hb : b ≠ []) :
    (EAP.Unmarshal old b).map GenAbs.absEap = unmarshalEap b := by
  have hpos : b.length > 0 := List.length_pos_iff.mpr hb
  have hne : ¬ b.length = 0 := by omega
  unfold EAP.Unmarshal unmarshalEap
  simp only [u16At_eq _ 2 4 rfl, hpos, hne, if_true, if_false]
  by_cases h4 : b.length < 4
  · simp [h4]
  simp only [h4, if_false]
  cases goU16 b 2 with
  | err => rfl
  | fault => rfl
  | ok pl =>
    simp only [Res.bind_ok]
    by_cases hpl : pl < 4
    · simp [hpl]
    simp only [hpl, if_false]
    by_cases hlen : b.length ≠ pl.toNat
    · simp [hlen]
    simp only [hlen, if_false]
    cases goIndex b 0 with
    | err => rfl
    | fault => rfl
    | ok code =>
      simp only [Res.bind_ok]
      cases goIndex b 1 with
      | err => rfl
      | fault => rfl
      | ok ident =>
        simp only [Res.bind_ok]
        by_cases hp4 : pl = 4
        · simp [hp4, GenAbs.absEap, GenAbs.absEapData]
        have hp4' : (pl == 4) = false := by simpa using hp4
        simp only [hp4, hp4', if_false, Bool.false_eq_true]
        cases goIndex b 4 with
        | err => rfl
        | fault => rfl
        | ok ty =>
          simp only [Res.bind_ok]
          by_cases t1 : ty = 1
          · subst t1
            simp only [if_true]
            rw [jp_refines _ _ b _ _ EapTypeData_Unmarshal_identity]
            cases goFrom b 4 <;> simp [Facts.eapTypeIdentity]
          simp only [t1, if_false]
          by_cases t2 : ty = 2
          · subst t2
            simp only [if_true]
            rw [jp_refines _ _ b _ _ EapTypeData_Unmarshal_notification]
            cases goFrom b 4 <;> simp [Facts.eapTypeIdentity, Facts.eapTypeNotification]
          simp only [t2, if_false]
          by_cases t3 : ty = 3
          · subst t3
            simp only [if_true]
            rw [jp_refines _ _ b _ _ EapTypeData_Unmarshal_nak]
            cases goFrom b 4 <;>
              simp [Facts.eapTypeIdentity, Facts.eapTypeNotification, Facts.eapTypeNak]
          simp only [t3, if_false]
          by_cases t50 : ty = 50
          · subst t50
            simp only [if_true]
            rw [jp_refines _ _ b _ _ (EapTypeData_Unmarshal_aka ha)]
            cases goFrom b 4 <;>
              simp [Facts.eapTypeIdentity, Facts.eapTypeNotification, Facts.eapTypeNak,
                Facts.eapTypeAkaPrime]
          simp only [t50, if_false]
          by_cases t254 : ty = 254
          · subst t254
            simp only [if_true]
            rw [jp_refines _ _ b _ _ EapTypeData_Unmarshal_expanded]
            cases goFrom b 4 <;>
              simp [Facts.eapTypeIdentity, Facts.eapTypeNotification, Facts.eapTypeNak,
                Facts.eapTypeAkaPrime, Facts.eapTypeExpanded]
          simp only [t254, if_false]
          have hfrom : goFrom b 4 = Res.ok (b.drop 4) := by
            have : 4 ≤ b.length := by omega
            simp [goFrom, this]
          rw [hfrom]
          simp [t1, t2, t3, t50, t254, Facts.eapTypeIdentity, Facts.eapTypeNotification,
              Facts.eapTypeNak, Facts.eapTypeAkaPrime, Facts.eapTypeExpanded]

theorem EAP_Unmarshal_refines (ha : AkaRefines) (b : Bytes) :
    (EAP.Unmarshal {} b).map GenAbs.absEap = unmarshalEap b := by
  by_cases hb : b = []
  · subst hb
    simp [EAP.Unmarshal, unmarshalEap, GenAbs.absEap, GenAbs.absEapData]
  · exact EAP_Unmarshal_reuse ha {} b hb

/-- the invariant holds after decoding into any object whose own method body satisfies it
(the empty slice leaves the object untouched) -/
theorem EAP_Unmarshal_wf_reuse (ha : AkaRefines) (old : Gen.eap.EAP) (hold : EapWF old) (b : Bytes)
    (e : Gen.eap.EAP) (h : EAP.Unmarshal old b = .ok e) : EapWF e := by
  unfold EAP.Unmarshal at h
  simp only [u16At_eq _ 2 4 rfl] at h
  by_cases hz : ¬ b.length > 0
  · simp only [hz, if_false, Res.ok.injEq] at h
    subst h; exact hold
  have hpos : b.length > 0 := by omega
  simp only [hpos, if_true] at h
  by_cases h4 : b.length < 4
  · simp [h4] at h
  simp only [h4, if_false] at h
  cases hu : goU16 b 2 with
  | err => rw [hu] at h; simp at h
  | fault => rw [hu] at h; simp at h
  | ok pl =>
    rw [hu] at h
    simp only [Res.bind_ok] at h
    by_cases hpl : pl < 4
    · simp [hpl] at h
    simp only [hpl, if_false] at h
    by_cases hlen : b.length ≠ pl.toNat
    · simp [hlen] at h
    simp only [hlen, if_false] at h
    cases h0 : goIndex b 0 with
    | err => rw [h0] at h; simp at h
    | fault => rw [h0] at h; simp at h
    | ok code =>
      rw [h0] at h
      simp only [Res.bind_ok] at h
      cases h1 : goIndex b 1 with
      | err => rw [h1] at h; simp at h
      | fault => rw [h1] at h; simp at h
      | ok ident =>
        rw [h1] at h
        simp only [Res.bind_ok] at h
        by_cases hp4 : pl = 4
        · simp only [hp4, if_true, Res.ok.injEq] at h
          subst h; trivial
        simp only [hp4, if_false] at h
        cases h4i : goIndex b 4 with
        | err => rw [h4i] at h; simp at h
        | fault => rw [h4i] at h; simp at h
        | ok ty =>
          rw [h4i] at h
          simp only [Res.bind_ok] at h
          by_cases t1 : ty = 1
          · simp only [t1, if_true] at h
            exact jp_wf ha _ _ e b _ (Or.inr (fun g => by simp)) h
          simp only [t1, if_false] at h
          by_cases t2 : ty = 2
          · simp only [t2, if_true] at h
            exact jp_wf ha _ _ e b _ (Or.inr (fun g => by simp)) h
          simp only [t2, if_false] at h
          by_cases t3 : ty = 3
          · simp only [t3, if_true] at h
            exact jp_wf ha _ _ e b _ (Or.inr (fun g => by simp)) h
          simp only [t3, if_false] at h
          by_cases t50 : ty = 50
          · simp only [t50, if_true] at h
            exact jp_wf ha _ _ e b _ (Or.inl rfl) h
          simp only [t50, if_false] at h
          by_cases t254 : ty = 254
          · simp only [t254, if_true] at h
            exact jp_wf ha _ _ e b _ (Or.inr (fun g => by simp)) h
          simp [t254] at h

theorem EAP_Unmarshal_wf (ha : AkaRefines) (b : Bytes) (e : Gen.eap.EAP)
    (h : EAP.Unmarshal {} b = .ok e) : EapWF e :=
  EAP_Unmarshal_wf_reuse ha {} trivial b e h

end Ike.RefineEap
