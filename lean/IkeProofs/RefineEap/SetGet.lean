import IkeProofs.Refine.Basic
import IkeModel.GenAbsEap
import IkeProofs.RefineEap.AkaMap
import IkeProofs.RefineEap.Simple

/-! Package `eap`, EAP-AKA' attribute map: `setAttr`, `SetAttr`, `GetAttr`, `initMAC`,
`NewEapAkaPrime` as generated ⊑ the hand-written model (`akaMkAttr`, `akaSetAttr`, `akaGetAttr`),
and the round trip `absAka (repAka a) = a` for sorted attribute lists. -/

set_option linter.unusedSimpArgs false
set_option linter.unusedVariables false

namespace Ike.RefineEap
open Ike Ike.Gen.eap Ike.Refine

/-! ### small arithmetic / run-time lemmas -/

/-- `copy(make([]byte, len(v)), v)` gives `v` -/
theorem copyInto_zeros (v : Bytes) :
    Go.copyInto (zeros v.length) 0 (zeros v.length).length v = Res.ok (v, v.length) := by
  unfold Go.copyInto
  have hl : (zeros v.length).length = v.length := by simp [zeros]
  rw [hl]
  rw [if_pos ⟨Nat.zero_le _, Nat.le_refl _⟩]
  simp [hl]

theorem u8_ofNat_mod (n : Nat) : UInt8.ofNat (n % 256) = UInt8.ofNat n := by
  apply UInt8.toNat_inj.mp
  simp [UInt8.toNat_ofNat']

/-- `uint8(x)` of a non-negative `int` -/
theorem toU8_natCast (n : Nat) : Go.toU8 (n : Int) = UInt8.ofNat n := by
  unfold Go.toU8
  have : ((n : Int) % 256).toNat = n % 256 := by omega
  rw [this, u8_ofNat_mod]

/-- the length octet of AT_RES / AT_KDF_INPUT: Go's `int` arithmetic (truncated `%` and `/`) agrees
with the model's natural-number arithmetic for every length (including wrap-around of `uint8`) -/
theorem padLen_eq (n : Nat) :
    Go.toU8 (Int.tdiv (((4 + n : Nat) : Int) + Int.tmod ((4 : Int) - ((4 + n : Nat) : Int) % 4) (4 : Int)) (4 : Int))
      = UInt8.ofNat ((1 + 1 + 2 + n + (4 - ((1 + 1 + 2 + n) % 4)) % 4) / 4) := by
  have e : Int.tdiv (((4 + n : Nat) : Int) + Int.tmod ((4 : Int) - ((4 + n : Nat) : Int) % 4) (4 : Int)) (4 : Int)
      = (((1 + 1 + 2 + n + (4 - ((1 + 1 + 2 + n) % 4)) % 4) / 4 : Nat) : Int) := by
    have h1 : (1 + 1 + 2 + n) = 4 + n := by omega
    rw [h1]
    have hlt : (4 + n) % 4 < 4 := Nat.mod_lt _ (by omega)
    have h2 : (4 : Int) - ((4 + n : Nat) : Int) % 4 = ((4 - (4 + n) % 4 : Nat) : Int) := by omega
    rw [h2]
    rw [Int.tmod_eq_emod_of_nonneg (by omega)]
    rw [Int.tdiv_eq_ediv_of_nonneg (by omega)]
    omega
  rw [e, toU8_natCast]

/-! ### `setAttr` -/

theorem setAttr_refines (t : UInt8) (v : Bytes) :
    (EapAkaPrimeAttr.setAttr {} t v).map GenAbs.absAkaAttr = akaMkAttr t v := by
  unfold EapAkaPrimeAttr.setAttr akaMkAttr
  simp only [Facts.atMac, Facts.atRand, Facts.atAutn, Facts.atRes, Facts.atKdfInput, Facts.atKdf,
    Facts.atCheckcode]
  simp only [copyInto_zeros, Res.bind_ok]
  simp only [padLen_eq]
  by_cases h11 : t = 11
  · subst h11; by_cases hl : v.length = 16 <;> simp [hl, GenAbs.absAkaAttr]
  by_cases h1 : t = 1
  · subst h1; by_cases hl : v.length = 16 <;> simp [hl, GenAbs.absAkaAttr]
  by_cases h2 : t = 2
  · subst h2; by_cases hl : v.length = 16 <;> simp [hl, GenAbs.absAkaAttr]
  by_cases h23 : t = 23
  · subst h23; simp [GenAbs.absAkaAttr]
  by_cases h3 : t = 3
  · subst h3
    by_cases hl : v.length * 8 > 128 ∨ v.length * 8 < 32
    · simp [hl, GenAbs.absAkaAttr]
    · simp [hl, GenAbs.absAkaAttr]
  by_cases h24 : t = 24
  · subst h24; by_cases hl : v.length = 2 <;> simp [hl, GenAbs.absAkaAttr]
  by_cases h134 : t = 134
  · subst h134; simp [GenAbs.absAkaAttr]
  simp [h11, h1, h2, h23, h3, h24, h134]

theorem akaMkAttr_atype (t : UInt8) (v : Bytes) (x : AkaAttr) (h : akaMkAttr t v = .ok x) : x.atype = t := by
  unfold akaMkAttr at h
  simp only [] at h
  split at h
  · split at h
    · cases h
    · cases h; rfl
  · split at h
    · split at h
      · cases h
      · cases h; rfl
    · split at h
      · split at h
        · cases h
        · cases h; rfl
      · split at h
        · cases h; rfl
        · cases h

theorem setAttr_attrType (t : UInt8) (v : Bytes) (a : Gen.eap.EapAkaPrimeAttr)
    (h : EapAkaPrimeAttr.setAttr {} t v = .ok a) : a.attrType = t := by
  have h' := setAttr_refines t v
  rw [h, map_ok'] at h'
  exact akaMkAttr_atype t v _ h'.symm

/-! ### `NewEapAkaPrime` -/

theorem NewEapAkaPrime_refines (st : UInt8) :
    (NewEapAkaPrime st).map GenAbs.absAka = Res.ok ⟨st, 0, []⟩ := rfl

theorem NewEapAkaPrime_wf (st : UInt8) (g) (h : NewEapAkaPrime st = .ok g) : GenAbs.AkaWF g := by
  unfold NewEapAkaPrime at h
  cases h
  rw [AkaWF_iff]
  exact entriesWF_nil

/-! ### `SetAttr` -/

/-- `SetAttr` on a non-nil map -/
theorem SetAttr_some (st : UInt8) (rs : UInt16) (l : List (UInt8 × Gen.eap.EapAkaPrimeAttr))
    (t : UInt8) (v : Bytes) :
    EapAkaPrime.SetAttr { subType := st, reserved := rs, attributes := some l } t v =
      (EapAkaPrimeAttr.setAttr {} t v) >>= fun a =>
        Res.ok { subType := st, reserved := rs, attributes := some (Go.mapSetList l a.attrType a) } := by
  unfold EapAkaPrime.SetAttr
  simp only []
  rw [if_neg (by simp)]
  cases EapAkaPrimeAttr.setAttr {} t v with
  | ok a => simp [Go.mapSet]
  | err => rfl
  | fault => rfl

/-- `SetAttr` on a nil map makes the map first -/
theorem SetAttr_none (st : UInt8) (rs : UInt16) (t : UInt8) (v : Bytes) :
    EapAkaPrime.SetAttr { subType := st, reserved := rs, attributes := none } t v =
      EapAkaPrime.SetAttr { subType := st, reserved := rs, attributes := some [] } t v := by
  rw [SetAttr_some]
  unfold EapAkaPrime.SetAttr
  simp only []
  rw [if_pos trivial]
  cases EapAkaPrimeAttr.setAttr {} t v with
  | ok a => simp [Go.mapSet]
  | err => rfl
  | fault => rfl

/-- both results of `SetAttr` at once -/
theorem SetAttr_spec (g : Gen.eap.EapAkaPrime) (hwf : GenAbs.AkaWF g) (t : UInt8) (v : Bytes) :
    EapAkaPrime.SetAttr g t v =
      (EapAkaPrimeAttr.setAttr {} t v) >>= fun a =>
        Res.ok { subType := g.subType, reserved := g.reserved,
                 attributes := some (Go.mapSetList (Go.mapEntries g.attributes) a.attrType a) } := by
  obtain ⟨st, rs, m⟩ := g
  cases m with
  | none => rw [SetAttr_none, SetAttr_some]; rfl
  | some l => rw [SetAttr_some]; rfl

theorem SetAttr_refines (g : Gen.eap.EapAkaPrime) (hwf : GenAbs.AkaWF g) (t : UInt8) (v : Bytes) :
    (EapAkaPrime.SetAttr g t v).map GenAbs.absAka = akaSetAttr (GenAbs.absAka g) t v := by
  rw [SetAttr_spec g hwf]
  unfold akaSetAttr
  rw [← setAttr_refines]
  cases EapAkaPrimeAttr.setAttr {} t v with
  | ok a =>
    simp only [Res.bind_ok, map_ok']
    rw [AkaWF_iff] at hwf
    have key := absAkaEntries_mapSet _ a hwf
    show Res.ok (⟨g.subType, g.reserved,
        GenAbs.absAkaEntries (Go.mapSetList (Go.mapEntries g.attributes) a.attrType a)⟩ : Aka) =
      Res.ok ⟨g.subType, g.reserved,
        akaInsert (GenAbs.absAkaEntries (Go.mapEntries g.attributes)) (GenAbs.absAkaAttr a)⟩
    rw [key]
  | err => rfl
  | fault => rfl

theorem SetAttr_wf (g : Gen.eap.EapAkaPrime) (hwf : GenAbs.AkaWF g) (t : UInt8) (v : Bytes) (g')
    (h : EapAkaPrime.SetAttr g t v = .ok g') : GenAbs.AkaWF g' := by
  rw [SetAttr_spec g hwf] at h
  cases hs : EapAkaPrimeAttr.setAttr {} t v with
  | ok a =>
    rw [hs, Res.bind_ok] at h
    cases h
    rw [AkaWF_iff] at hwf ⊢
    exact entriesWF_mapSet _ a hwf
  | err => rw [hs] at h; cases h
  | fault => rw [hs] at h; cases h

/-! ### `GetAttr` -/

/-- the search loop finds what the map lookup finds (entries stored under their own type) -/
theorem GetAttr_loop1_eq (l : List (UInt8 × Gen.eap.EapAkaPrimeAttr)) (idx : Nat) (t : UInt8)
    (h : ∀ p ∈ l, p.1 = p.2.attrType) :
    EapAkaPrime.GetAttr.loop1 l idx t =
      Res.ok (match Go.mapGetList l t with
              | some a => Sum.inr a
              | none => Sum.inl ()) := by
  induction l generalizing idx with
  | nil => rfl
  | cons p rest ih =>
    obtain ⟨k0, v0⟩ := p
    unfold EapAkaPrime.GetAttr.loop1
    simp only []
    have hk : k0 = v0.attrType := h (k0, v0) List.mem_cons_self
    rw [mapGetList_cons, ← hk]
    by_cases c : k0 = t
    · rw [if_pos c, if_pos c]
    · rw [if_neg c, if_neg c]
      exact ih (idx + 1) (fun q hq => h q (List.mem_cons_of_mem _ hq))

theorem GetAttr_refines (g : Gen.eap.EapAkaPrime) (hwf : GenAbs.AkaWF g) (t : UInt8) :
    (EapAkaPrime.GetAttr g t).map (fun a => a.value) = akaGetAttr (GenAbs.absAka g) t := by
  obtain ⟨st, rs, m⟩ := g
  rw [AkaWF_iff] at hwf
  unfold EapAkaPrime.GetAttr akaGetAttr GenAbs.absAka
  cases m with
  | none => rfl
  | some l =>
    simp only [Go.mapEntries] at hwf ⊢
    rw [if_neg (by simp), GetAttr_loop1_eq l 0 t hwf.1, ← mapGetList_abs l t hwf]
    cases Go.mapGetList l t with
    | some a => rfl
    | none => rfl

/-! ### `initMAC` -/

theorem initMAC_refines (g : Gen.eap.EapAkaPrime) (hwf : GenAbs.AkaWF g) :
    (EapAkaPrime.initMAC g).map GenAbs.absAka = akaSetAttr (GenAbs.absAka g) Facts.atMac (zeros 16) := by
  rw [← SetAttr_refines g hwf]
  unfold EapAkaPrime.initMAC
  simp only [Facts.atMac]
  cases EapAkaPrime.SetAttr g 11 (zeros 16) <;> rfl

/-! ### representation of a model value -/

theorem repAka_wf (a : Aka) (hs : AkaSorted a.attrs) : GenAbs.AkaWF (GenAbs.repAka a) := by
  rw [AkaWF_iff]
  exact entriesWF_rep a.attrs hs

theorem absAka_repAka (a : Aka) (hs : AkaSorted a.attrs) : GenAbs.absAka (GenAbs.repAka a) = a := by
  obtain ⟨st, rs, xs⟩ := a
  unfold GenAbs.absAka GenAbs.repAka
  simp only [Go.mapEntries]
  rw [absAkaEntries_rep xs hs]

end Ike.RefineEap
