import IkeProofs.RefineEap.Simple
import IkeProofs.RefineEap.AkaMap
import IkeProofs.RefineEap.SetGet
import IkeProofs.RefineEap.AkaUnmarshal
import IkeProofs.RefineEap.AkaMarshal
import IkeProofs.RefineEap.Packet

/-! Package `eap` as translated from the current source (`Ike.Gen.eap.*`) computes exactly what the
hand-written model computes, for every input: the EAP-AKA' method theorems discharge the hypotheses
of the packet-level theorems. -/

namespace Ike.RefineEap
open Ike Ike.Gen.eap

theorem akaRefines : AkaRefines :=
  ⟨EapAkaPrime_Unmarshal_refines, EapAkaPrime_Unmarshal_wf, EapAkaPrime_Marshal_refines⟩

/-- `new(EAP).Unmarshal(b)` -/
theorem Gen_EAP_Unmarshal (b : Bytes) : (EAP.Unmarshal {} b).map GenAbs.absEap = unmarshalEap b :=
  EAP_Unmarshal_refines akaRefines b

theorem Gen_EAP_Unmarshal_wf (b : Bytes) (e : Gen.eap.EAP) (h : EAP.Unmarshal {} b = .ok e) : EapWF e :=
  EAP_Unmarshal_wf akaRefines b e h

/-- `e.Marshal()` for every packet whose EAP-AKA' attribute map satisfies its invariant -/
theorem Gen_EAP_Marshal (e : Gen.eap.EAP) (hwf : EapWF e) : EAP.Marshal e = marshalEap (GenAbs.absEap e) :=
  EAP_Marshal_refines akaRefines e hwf

/-- decoding into a used object -/
theorem Gen_EAP_Unmarshal_reuse (old : Gen.eap.EAP) (b : Bytes) (hb : b ≠ []) :
    (EAP.Unmarshal old b).map GenAbs.absEap = unmarshalEap b :=
  EAP_Unmarshal_reuse akaRefines old b hb

/-- the model's packets whose EAP-AKA' attribute list is sorted are exactly the abstractions of well-formed generated packets -/
def EapSorted (e : Eap) : Prop := match e.data with | .aka a => AkaSorted a.attrs | _ => True

theorem repEap_wf (e : Eap) (hs : EapSorted e) : EapWF (GenAbs.repEap e) := by
  unfold EapWF GenAbs.repEap
  cases hd : e.data <;> simp only [GenAbs.repEapData]
  case aka a =>
    unfold EapSorted at hs; rw [hd] at hs
    exact repAka_wf a hs

theorem absEap_repEap (e : Eap) (hs : EapSorted e) : GenAbs.absEap (GenAbs.repEap e) = e := by
  cases e with
  | mk c i d =>
    unfold GenAbs.absEap GenAbs.repEap
    cases d <;> simp only [GenAbs.repEapData, GenAbs.absEapData]
    case aka a =>
      have : AkaSorted a.attrs := hs
      rw [absAka_repAka a this]

/-- `Marshal` of a packet built from a model value -/
theorem Gen_EAP_Marshal_rep (e : Eap) (hs : EapSorted e) : EAP.Marshal (GenAbs.repEap e) = marshalEap e := by
  rw [Gen_EAP_Marshal _ (repEap_wf e hs), absEap_repEap e hs]

end Ike.RefineEap
