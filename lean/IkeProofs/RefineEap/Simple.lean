import IkeProofs.Refine.Basic
import IkeModel.GenAbsEap

/-! Package `eap`, the simple methods: Identity / Notification / Nak / Expanded
`Type`, `Marshal`, `Unmarshal`, and the EAP-AKA' accessors, as generated ⊑ the hand-written model. -/

set_option linter.unusedSimpArgs false

namespace Ike.RefineEap
open Ike Ike.Gen.eap Ike.Refine

/-! ### decoders (receiver = zero value) -/

theorem EapIdentity_Unmarshal_refines (b : Bytes) :
    (EapIdentity.Unmarshal {} b).map (fun v => GenAbs.absEapData (.EapIdentity v))
      = unmarshalSimple Facts.eapTypeIdentity .identity b := by
  unfold EapIdentity.Unmarshal unmarshalSimple
  by_cases h : b.length > 1
  · simp only [h, if_true]
    cases goIndex b 0 with
    | ok t =>
      simp only [Res.bind_ok]
      by_cases ht : t = 1
      · subst ht
        cases goFrom b 1 <;> simp [GenAbs.absEapData, Facts.eapTypeIdentity]
      · simp [ht, Facts.eapTypeIdentity]
    | err => simp
    | fault => simp
  · simp [h, GenAbs.absEapData]

theorem EapNotification_Unmarshal_refines (b : Bytes) :
    (EapNotification.Unmarshal {} b).map (fun v => GenAbs.absEapData (.EapNotification v))
      = unmarshalSimple Facts.eapTypeNotification .notification b := by
  unfold EapNotification.Unmarshal unmarshalSimple
  by_cases h : b.length > 1
  · simp only [h, if_true]
    cases goIndex b 0 with
    | ok t =>
      simp only [Res.bind_ok]
      by_cases ht : t = 2
      · subst ht
        cases goFrom b 1 <;> simp [GenAbs.absEapData, Facts.eapTypeNotification]
      · simp [ht, Facts.eapTypeNotification]
    | err => simp
    | fault => simp
  · simp [h, GenAbs.absEapData]

theorem EapNak_Unmarshal_refines (b : Bytes) :
    (EapNak.Unmarshal {} b).map (fun v => GenAbs.absEapData (.EapNak v))
      = unmarshalSimple Facts.eapTypeNak .nak b := by
  unfold EapNak.Unmarshal unmarshalSimple
  by_cases h : b.length > 1
  · simp only [h, if_true]
    cases goIndex b 0 with
    | ok t =>
      simp only [Res.bind_ok]
      by_cases ht : t = 3
      · subst ht
        cases goFrom b 1 <;> simp [GenAbs.absEapData, Facts.eapTypeNak]
      · simp [ht, Facts.eapTypeNak]
    | err => simp
    | fault => simp
  · simp [h, GenAbs.absEapData]

theorem EapExpanded_Unmarshal_refines (b : Bytes) :
    (EapExpanded.Unmarshal {} b).map (fun v => GenAbs.absEapData (.EapExpanded v))
      = unmarshalExpanded b := by
  unfold EapExpanded.Unmarshal unmarshalExpanded
  simp only [u32At_eq _ 0 4 rfl, u32At_eq _ 4 8 rfl]
  by_cases h0 : b.length = 0
  · simp [h0, GenAbs.absEapData]
  · have h0' : b.length > 0 := by omega
    simp only [h0, h0', if_true, if_false]
    by_cases h8 : b.length < 8
    · simp [h8]
    · simp only [h8, if_false]
      cases goU32 b 0 with
      | ok tv =>
        simp only [Res.bind_ok]
        cases goU32 b 4 with
        | ok vt =>
          simp only [Res.bind_ok]
          by_cases hg : b.length > 8
          · simp only [hg, if_true]
            cases goFrom b 8 <;> simp [GenAbs.absEapData]
          · simp [hg, GenAbs.absEapData]
        | err => simp
        | fault => simp
      | err => simp
      | fault => simp

/-! ### encoders -/

theorem EapIdentity_Marshal_refines (v : Gen.eap.EapIdentity) :
    EapIdentity.Marshal v = marshalEapData (.identity v.IdentityData) := by
  unfold EapIdentity.Marshal marshalEapData
  by_cases h : v.IdentityData.length = 0 <;> simp [h, Facts.eapTypeIdentity]

theorem EapNotification_Marshal_refines (v : Gen.eap.EapNotification) :
    EapNotification.Marshal v = marshalEapData (.notification v.NotificationData) := by
  unfold EapNotification.Marshal marshalEapData
  by_cases h : v.NotificationData.length = 0 <;> simp [h, Facts.eapTypeNotification]

theorem EapNak_Marshal_refines (v : Gen.eap.EapNak) :
    EapNak.Marshal v = marshalEapData (.nak v.NakData) := by
  unfold EapNak.Marshal marshalEapData
  by_cases h : v.NakData.length = 0 <;> simp [h, Facts.eapTypeNak]

/-- the type octet in the top byte of the first word: the literal the translator folded
`uint32(EapTypeExpanded) << 24` into -/
theorem expanded_type_word : (Facts.eapTypeExpanded.toUInt32 <<< 24 : UInt32) = (4261412864 : UInt32) := by
  decide

theorem EapExpanded_Marshal_refines (v : Gen.eap.EapExpanded) :
    EapExpanded.Marshal v = marshalEapData (.expanded v.VendorID v.VendorType v.VendorData) := by
  unfold EapExpanded.Marshal marshalEapData
  rw [expanded_type_word]
  have hmask : (0x00ffffff : UInt32) = (16777215 : UInt32) := rfl
  have hl (w : UInt32) : (put32 w).length = 4 := rfl
  have h1 (w : UInt32) : Go.putU32 (zeros 8) 0 4 w = Res.ok (put32 w ++ zeros 4) := by
    simp [Go.putU32, Go.splice, zeros, hl]
  have h2 (w w' : UInt32) : Go.putU32 (put32 w ++ zeros 4) 4 8 w' = Res.ok (put32 w ++ put32 w') := by
    simp [Go.putU32, Go.splice, zeros, hl]
  simp only [h1, h2, Res.bind_ok]
  by_cases h : v.VendorData.length = 0
  · have : v.VendorData = [] := List.eq_nil_of_length_eq_zero h
    simp [this]
  · simp [h]

/-! ### `Type` and the accessors -/

theorem EapIdentity_Type_refines (v : Gen.eap.EapIdentity) :
    EapIdentity.Type_ v = Res.ok Facts.eapTypeIdentity := rfl

theorem EapNotification_Type_refines (v : Gen.eap.EapNotification) :
    EapNotification.Type_ v = Res.ok Facts.eapTypeNotification := rfl

theorem EapNak_Type_refines (v : Gen.eap.EapNak) :
    EapNak.Type_ v = Res.ok Facts.eapTypeNak := rfl

theorem EapExpanded_Type_refines (v : Gen.eap.EapExpanded) :
    EapExpanded.Type_ v = Res.ok Facts.eapTypeExpanded := rfl

theorem EapAkaPrime_Type_refines (v : Gen.eap.EapAkaPrime) :
    EapAkaPrime.Type_ v = Res.ok Facts.eapTypeAkaPrime := rfl

theorem EapAkaPrime_SubType_refines (g : Gen.eap.EapAkaPrime) :
    EapAkaPrime.SubType g = Res.ok (GenAbs.absAka g).subtype := rfl

theorem GetValue_refines (a : Gen.eap.EapAkaPrimeAttr) :
    EapAkaPrimeAttr.GetValue a = Res.ok (GenAbs.absAkaAttr a).value := rfl

theorem GetAttrType_refines (a : Gen.eap.EapAkaPrimeAttr) :
    EapAkaPrimeAttr.GetAttrType a = Res.ok (GenAbs.absAkaAttr a).atype := rfl

theorem AttrType_Value_refines (t : UInt8) : EapAkaPrimeAttrType.Value t = Res.ok t := rfl

end Ike.RefineEap
