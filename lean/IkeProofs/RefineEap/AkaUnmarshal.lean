import IkeProofs.RefineEap.AkaMap
import IkeProofs.Lemmas.NoFault

/-! `EapAkaPrime.Unmarshal` (eap_aka_prime.go:186) as generated ⊑ `unmarshalAka`.

Route: (1) `Go.readByte` / `Go.readFull r (zeros n)` evaluated (`akaU_readFull_ge`: enough octets;
`akaU_readFull_lt`: short count and an error value ≠ nil, which every branch of the generated code turns
into `Res.err`); (2) one iteration of the generated loop on `t :: len :: body` is `parseAkaBody t len body`
followed by the map store under `t` (`akaUnmarshal_loop1_step`), the two EOF exits
(`akaUnmarshal_loop1_nil`, `akaUnmarshal_loop1_single`); (3) the loop for all fuel > the reader length, with
invariant "`absAkaEntries entries = acc` and `EntriesWF entries`" (`akaUnmarshal_loop1_spec`);
(4) the wrapper (`akaUnmarshal_spec`). -/

set_option linter.unusedSimpArgs false
set_option linter.unusedVariables false

namespace Ike.RefineEap
open Ike Ike.Gen.eap Ike.Refine

/-! ### the reader primitives -/

theorem akaU_readByte_cons (x : UInt8) (r : Bytes) : Go.readByte (x :: r) = (r, x, Go.Err.none) := rfl

theorem akaU_readByte_nil : Go.readByte [] = ([], 0, Go.Err.eof) := rfl

/-- enough octets: a full read -/
theorem akaU_readFull_ge (r : Bytes) (n : Nat) (h : n ≤ r.length) :
    Go.readFull r (zeros n) = (r.drop n, r.take n, n, Go.Err.none) := by
  unfold Go.readFull zeros
  have hm : min n r.length = n := by omega
  simp only [hm, List.length_replicate, if_true]
  have : (List.replicate n (0 : UInt8)).drop n = [] := by
    rw [List.drop_eq_nil_iff, List.length_replicate]; omega
  rw [this, List.append_nil]

/-- too few octets: a short count and an error -/
theorem akaU_readFull_lt (r : Bytes) (n : Nat) (h : r.length < n) :
    ∃ rd buf e, Go.readFull r (zeros n) = (rd, buf, r.length, e) ∧ e ≠ Go.Err.none := by
  unfold Go.readFull zeros
  have hm : min n r.length = r.length := by omega
  simp only [hm, List.length_replicate]
  refine ⟨_, _, _, rfl, ?_⟩
  have : ¬ r.length = n := by omega
  rw [if_neg this]
  split <;> simp

private theorem u8_16 : (16 : UInt8).toNat = 16 := rfl

private theorem u16_add4 (a : UInt16) : a + 1 + 1 + 2 = a + 4 := by grind

private theorem u16_sub4 (a : UInt16) : a - 1 - 1 - 2 = a - 4 := by grind

private theorem beU16_take2 (b : Bytes) (h : 2 ≤ b.length) :
    Go.beU16 (b.take 2) = .ok (be16 (byteAt (b.take 2) 0) (byteAt (b.take 2) 1)) := by
  unfold Go.beU16
  rw [if_pos]
  rw [List.length_take]; omega

private theorem make_cast (k : Nat) : Go.make (α := UInt8) ((k : Nat) : Int) = .ok (zeros k) := by
  unfold Go.make
  rw [if_pos (by omega)]
  rfl

private theorem u8a : (4 : UInt8) * 5 - 1 - 1 - 2 = 16 := by decide

/-- the relation between one iteration of the generated loop and `parseAkaBody` -/
theorem akaUnmarshal_loop1_step_aux (fuel : Nat) (g : Gen.eap.EapAkaPrime) (l : List (UInt8 × Gen.eap.EapAkaPrimeAttr))
    (hl : g.attributes = some l) (e0 : Go.Err) (n0 : Int) (t len : UInt8) (body : Bytes)
    (X : Res (Gen.eap.EapAkaPrime × Go.Err × Int × Go.Reader))
    (hX : X = EapAkaPrime.Unmarshal.loop1 (fuel + 1) g e0 n0 (t :: len :: body)) :
    match parseAkaBody t len body with
    | .ok (a, k) => ∃ e n, X =
        EapAkaPrime.Unmarshal.loop1 fuel { g with attributes := some (Go.mapSetList l t (GenAbs.repAkaAttr a)) } e n
          (body.drop k)
    | .err => X = .err
    | .fault => False := by
  unfold EapAkaPrime.Unmarshal.loop1 at hX
  simp only [akaU_readByte_cons, if_true, ne_eq, not_true_eq_false, if_false, hl, Go.mapSet, Res.bind_ok] at hX
  unfold parseAkaBody
  simp only [Facts.atMac, Facts.atRand, Facts.atAutn, Facts.atKdfInput, Facts.atRes, Facts.atKdf,
    Bool.or_eq_true, beq_iff_eq, bne_iff_ne, ne_eq, or_assoc]
  by_cases c1 : t = 11 ∨ t = 1 ∨ t = 2
  · simp only [c1, if_true] at hX ⊢
    by_cases c5 : len = 5
    · subst c5
      simp only [not_true_eq_false, if_false, u8a] at hX ⊢
      by_cases h2 : 2 ≤ body.length
      · simp only [akaU_readFull_ge _ _ h2, readN, h2, if_true, not_true_eq_false, if_false] at hX ⊢
        simp only [u8_16, Int.cast_ofNat_Int, eq_self, not_true_eq_false, if_false] at hX
        by_cases h16 : 16 ≤ (body.drop 2).length
        · simp only [akaU_readFull_ge _ _ h16, h16, if_true, eq_self, not_true_eq_false, if_false, List.drop_drop,
            Nat.reduceAdd] at hX ⊢
          exact ⟨_, _, hX⟩
        · obtain ⟨rd, buf, e, hr, he⟩ := akaU_readFull_lt (body.drop 2) 16 (by omega)
          have hne : ¬ (((body.drop 2).length : Nat) : Int) = 16 := by omega
          simp only [hr, hne, h16, not_false_eq_true, if_true, if_false] at hX ⊢
          exact hX
      · obtain ⟨rd, buf, e, hr, he⟩ := akaU_readFull_lt body 2 (by omega)
        have hne : ¬ ((body.length : Nat) : Int) = 2 := by omega
        simp only [hr, hne, readN, h2, not_false_eq_true, if_true, if_false] at hX ⊢
        exact hX
    · simp only [c5, not_false_eq_true, if_true] at hX ⊢
      exact hX
  · simp only [c1, if_false] at hX ⊢
    by_cases c2 : t = 23 ∨ t = 3
    · simp only [c2, if_true] at hX ⊢
      by_cases h2 : 2 ≤ body.length
      · simp only [akaU_readFull_ge _ _ h2, readN, h2, if_true, Int.cast_ofNat_Int, eq_self, not_true_eq_false,
          if_false, beU16_take2 body h2, Res.bind_ok, u16_add4, u16_sub4] at hX ⊢
        generalize be16 (byteAt (body.take 2) 0) (byteAt (body.take 2) 1) = bits at hX ⊢
        by_cases ct : len.toUInt16 * 4 < bits / 8 + 4
        · simp only [ct, if_true] at hX ⊢
          exact hX
        · simp only [ct, if_false] at hX ⊢
          by_cases hv : (bits / 8).toNat ≤ (body.drop 2).length
          · simp only [akaU_readFull_ge _ _ hv, hv, if_true, eq_self, not_true_eq_false, if_false] at hX ⊢
            by_cases cp : len.toUInt16 * 4 - bits / 8 - 4 > 0
            · simp only [cp, if_true] at hX ⊢
              by_cases hp : (len.toUInt16 * 4 - bits / 8 - 4).toNat ≤ ((body.drop 2).drop (bits / 8).toNat).length
              · simp only [akaU_readFull_ge _ _ hp, hp, if_true, eq_self, not_true_eq_false, if_false] at hX ⊢
                simp only [List.drop_drop, Nat.add_assoc] at hX ⊢
                exact ⟨_, _, hX⟩
              · obtain ⟨rd, buf, e, hr, he⟩ := akaU_readFull_lt _ _ (Nat.lt_of_not_le hp)
                simp only [hr, he, hp, not_false_eq_true, if_true, if_false] at hX ⊢
                exact hX
            · simp only [cp, if_false, List.drop_drop, Nat.add_assoc] at hX ⊢
              exact ⟨_, _, hX⟩
          · obtain ⟨rd, buf, e, hr, he⟩ := akaU_readFull_lt _ _ (Nat.lt_of_not_le hv)
            have hne : ¬ (((body.drop 2).length : Nat) : Int) = ((bits / 8).toNat : Int) := by omega
            simp only [hr, hne, hv, not_false_eq_true, if_true, if_false] at hX ⊢
            exact hX
      · obtain ⟨rd, buf, e, hr, he⟩ := akaU_readFull_lt body 2 (by omega)
        have hne : ¬ ((body.length : Nat) : Int) = 2 := by omega
        simp only [hr, hne, readN, h2, not_false_eq_true, if_true, if_false] at hX ⊢
        exact hX
    · simp only [c2, if_false] at hX ⊢
      by_cases c3 : t = 24
      · simp only [c3, if_true] at hX ⊢
        by_cases hv : (4 * len - 1 - 1).toNat ≤ body.length
        · simp only [akaU_readFull_ge _ _ hv, readN, hv, if_true, eq_self, not_true_eq_false, if_false] at hX ⊢
          exact ⟨_, _, hX⟩
        · obtain ⟨rd, buf, e, hr, he⟩ := akaU_readFull_lt _ _ (Nat.lt_of_not_le hv)
          have hne : ¬ ((body.length : Nat) : Int) = ((4 * len - 1 - 1).toNat : Int) := by omega
          simp only [hr, hne, readN, hv, not_false_eq_true, if_true, if_false] at hX ⊢
          exact hX
      · simp only [c3, if_false] at hX ⊢
        by_cases c0 : len = 0
        · simp only [c0, if_true] at hX ⊢
          exact hX
        · simp only [c0, if_false] at hX ⊢
          have hlen : len.toNat ≠ 0 := fun h => c0 (UInt8.toNat_inj.mp h)
          have hI : 4 * (len.toNat : Int) - 1 - 1 - 2 = ((4 * len.toNat - 4 : Nat) : Int) := by omega
          simp only [hI, make_cast] at hX
          by_cases h2 : 2 ≤ body.length
          · simp only [akaU_readFull_ge _ _ h2, readN, h2, if_true, Int.cast_ofNat_Int, eq_self, not_true_eq_false,
              or_self, if_false, beU16_take2 body h2, Res.bind_ok] at hX ⊢
            by_cases hv : 4 * len.toNat - 4 ≤ (body.drop 2).length
            · simp only [akaU_readFull_ge _ _ hv, hv, if_true, eq_self, not_true_eq_false, or_self, if_false,
                List.drop_drop] at hX ⊢
              exact ⟨_, _, hX⟩
            · obtain ⟨rd, buf, e, hr, he⟩ := akaU_readFull_lt _ _ (Nat.lt_of_not_le hv)
              have hne : ¬ (((body.drop 2).length : Nat) : Int) = ((4 * len.toNat - 4 : Nat) : Int) := by omega
              simp only [hr, hne, hv, not_false_eq_true, true_or, if_true, if_false] at hX ⊢
              exact hX
          · obtain ⟨rd, buf, e, hr, he⟩ := akaU_readFull_lt body 2 (by omega)
            have hne : ¬ ((body.length : Nat) : Int) = 2 := by omega
            simp only [hr, hne, readN, h2, not_false_eq_true, true_or, if_true, if_false] at hX ⊢
            exact hX

theorem akaUnmarshal_loop1_step (fuel : Nat) (g : Gen.eap.EapAkaPrime) (l : List (UInt8 × Gen.eap.EapAkaPrimeAttr))
    (hl : g.attributes = some l) (e0 : Go.Err) (n0 : Int) (t len : UInt8) (body : Bytes) :
    match parseAkaBody t len body with
    | .ok (a, k) => ∃ e n, EapAkaPrime.Unmarshal.loop1 (fuel + 1) g e0 n0 (t :: len :: body) =
        EapAkaPrime.Unmarshal.loop1 fuel { g with attributes := some (Go.mapSetList l t (GenAbs.repAkaAttr a)) } e n
          (body.drop k)
    | .err => EapAkaPrime.Unmarshal.loop1 (fuel + 1) g e0 n0 (t :: len :: body) = .err
    | .fault => False :=
  akaUnmarshal_loop1_step_aux fuel g l hl e0 n0 t len body _ rfl

/-- the two end-of-input exits -/
theorem akaUnmarshal_loop1_nil (fuel : Nat) (g : Gen.eap.EapAkaPrime) (e0 : Go.Err) (n0 : Int) :
    EapAkaPrime.Unmarshal.loop1 (fuel + 1) g e0 n0 [] = .ok (g, Go.Err.eof, n0, []) := by
  unfold EapAkaPrime.Unmarshal.loop1
  simp [akaU_readByte_nil]

theorem akaUnmarshal_loop1_single (fuel : Nat) (g : Gen.eap.EapAkaPrime) (e0 : Go.Err) (n0 : Int) (t : UInt8) :
    EapAkaPrime.Unmarshal.loop1 (fuel + 1) g e0 n0 [t] = .ok (g, Go.Err.eof, n0, []) := by
  unfold EapAkaPrime.Unmarshal.loop1
  simp [akaU_readByte_nil, akaU_readByte_cons]

/-- the attribute that `parseAkaBody t …` returns has type `t` -/
theorem akaU_parseAkaBody_atype (t len : UInt8) (r : Bytes) (a : AkaAttr) (k : Nat)
    (hp : parseAkaBody t len r = .ok (a, k)) : a.atype = t := by
  revert a k hp
  unfold parseAkaBody
  repeat (first | split | (intro a k h; cases h; rfl) | (intro a k h; cases h) | dsimp only)

/-- result of the generated loop related to the result of the model's loop -/
def AkaLoopRel (g : Gen.eap.EapAkaPrime) (x : Res (Gen.eap.EapAkaPrime × Go.Err × Int × Go.Reader))
    (y : Res (List AkaAttr)) : Prop :=
  match x with
  | .ok s => ∃ l', s.1 = { g with attributes := some l' } ∧ EntriesWF l' ∧ y = .ok (GenAbs.absAkaEntries l')
  | .err => y = .err
  | .fault => False

theorem akaU_unmarshalAkaAttrs_err (t len : UInt8) (body : Bytes) (acc : List AkaAttr)
    (hp : parseAkaBody t len body = .err) : unmarshalAkaAttrs (t :: len :: body) acc = .err := by
  rw [unmarshalAkaAttrs]
  simp only [hp]

/-- the loop, for all sufficient fuel -/
theorem akaUnmarshal_loop1_spec (fuel : Nat) : ∀ (r : Bytes) (g : Gen.eap.EapAkaPrime) (l : List (UInt8 × Gen.eap.EapAkaPrimeAttr))
    (e0 : Go.Err) (n0 : Int), r.length < fuel → g.attributes = some l → EntriesWF l →
    AkaLoopRel g (EapAkaPrime.Unmarshal.loop1 fuel g e0 n0 r) (unmarshalAkaAttrs r (GenAbs.absAkaEntries l)) := by
  induction fuel with
  | zero => intro r g l e0 n0 h; omega
  | succ fuel ih =>
    intro r g l e0 n0 hf hl hwf
    match r with
    | [] =>
      rw [akaUnmarshal_loop1_nil, unmarshalAkaAttrs]
      exact ⟨l, by cases g; simp only at hl; subst hl; rfl, hwf, rfl⟩
    | [t] =>
      rw [akaUnmarshal_loop1_single, unmarshalAkaAttrs]
      exact ⟨l, by cases g; simp only at hl; subst hl; rfl, hwf, rfl⟩
    | t :: len :: body =>
      have hstep := akaUnmarshal_loop1_step fuel g l hl e0 n0 t len body
      cases hp : parseAkaBody t len body with
      | fault => rw [hp] at hstep; exact hstep.elim
      | err =>
        rw [hp] at hstep
        simp only at hstep
        rw [hstep, akaU_unmarshalAkaAttrs_err _ _ _ _ hp]
        rfl
      | ok p =>
        obtain ⟨a, k⟩ := p
        rw [hp] at hstep
        obtain ⟨e, n, heq⟩ := hstep
        have hk := parseAkaBody_len t len body a k hp
        have hat := akaU_parseAkaBody_atype t len body a k hp
        rw [heq, unmarshalAkaAttrs_cons _ _ _ _ _ _ hp hk]
        have hlen : (body.drop k).length < fuel := by
          rw [List.length_drop]; simp only [List.length_cons] at hf; omega
        have hwf' : EntriesWF (Go.mapSetList l t (GenAbs.repAkaAttr a)) := by
          have := entriesWF_mapSet l (GenAbs.repAkaAttr a) hwf
          rw [repAkaAttr_attrType, hat] at this
          exact this
        have habs : GenAbs.absAkaEntries (Go.mapSetList l t (GenAbs.repAkaAttr a)) =
            akaInsert (GenAbs.absAkaEntries l) a := by
          have := absAkaEntries_mapSet l (GenAbs.repAkaAttr a) hwf
          rw [repAkaAttr_attrType, hat, absAkaAttr_repAkaAttr] at this
          exact this
        have := ih (body.drop k) { g with attributes := some (Go.mapSetList l t (GenAbs.repAkaAttr a)) } _ e n
          hlen rfl hwf'
        rw [habs] at this
        exact this

/-- the wrapper: header of four octets, then the loop on a fresh (empty, non-nil) map -/
theorem akaUnmarshal_spec (raw : Bytes) :
    match EapAkaPrime.Unmarshal {} raw with
    | .ok g => GenAbs.AkaWF g ∧ unmarshalAka raw = .ok (GenAbs.absAka g)
    | .err => unmarshalAka raw = .err
    | .fault => False := by
  unfold EapAkaPrime.Unmarshal unmarshalAka
  by_cases h4 : raw.length < 4
  · simp only [h4, if_true]
  · simp only [h4, if_false]
    match raw, h4 with
    | [], h => exact absurd (by simp) h
    | [_], h => exact absurd (by simp) h
    | [_, _], h => exact absurd (by simp) h
    | [_, _, _], h => exact absurd (by simp) h
    | a :: b :: c :: d :: rest, _ =>
      have h2 : 2 ≤ (c :: d :: rest).length := by simp
      have hb : Go.beU16 [c, d] = .ok (be16 c d) := by simp [Go.beU16, byteAt]
      have m0 : goIndex (a :: b :: c :: d :: rest) 0 = .ok a := by simp [goIndex, byteAt]
      have m1 : goIndex (a :: b :: c :: d :: rest) 1 = .ok b := by simp [goIndex, byteAt]
      have m2 : goU16 (a :: b :: c :: d :: rest) 2 = .ok (be16 c d) := by simp [goU16, byteAt]
      have m4 : goFrom (a :: b :: c :: d :: rest) 4 = .ok rest := by simp [goFrom]
      simp only [akaU_readByte_cons, akaU_readFull_ge _ _ h2, ne_eq, not_true_eq_false, if_false, if_true,
        Int.cast_ofNat_Int, eq_self, List.take_succ_cons, List.take_zero, List.drop_succ_cons, List.drop_zero,
        hb, m0, m1, m2, m4, Res.bind_ok, Facts.eapTypeAkaPrime, bne_iff_ne]
      by_cases ha : a = 50
      · simp only [ha, not_true_eq_false, if_false]
        have hloop := akaUnmarshal_loop1_spec (rest.length + 2) rest
          { subType := b, reserved := be16 c d, attributes := some [] } [] Go.Err.none 2 (by omega) rfl entriesWF_nil
        rw [absAkaEntries_nil] at hloop
        cases hres : EapAkaPrime.Unmarshal.loop1 (rest.length + 2)
            { subType := b, reserved := be16 c d, attributes := some [] } Go.Err.none 2 rest with
        | fault => rw [hres] at hloop; exact hloop.elim
        | err =>
          rw [hres] at hloop
          have : unmarshalAkaAttrs rest [] = .err := hloop
          simp only [this, Res.bind_err]
        | ok s =>
          rw [hres] at hloop
          obtain ⟨l', hs, hwf, hm⟩ := hloop
          simp only [hm, Res.bind_ok, hs]
          exact ⟨hwf, rfl⟩
      · simp only [ha, not_false_eq_true, if_true]

theorem EapAkaPrime_Unmarshal_refines (raw : Bytes) :
    (EapAkaPrime.Unmarshal {} raw).map GenAbs.absAka = unmarshalAka raw := by
  have h := akaUnmarshal_spec raw
  cases hres : EapAkaPrime.Unmarshal {} raw with
  | fault => rw [hres] at h; exact h.elim
  | err => rw [hres] at h; rw [show unmarshalAka raw = .err from h]; rfl
  | ok g => rw [hres] at h; rw [h.2]; rfl

theorem EapAkaPrime_Unmarshal_wf (raw : Bytes) (g : Gen.eap.EapAkaPrime)
    (h : EapAkaPrime.Unmarshal {} raw = .ok g) : GenAbs.AkaWF g := by
  have h' := akaUnmarshal_spec raw
  rw [h] at h'
  exact h'.1

end Ike.RefineEap
