import IkeProofs.Lemmas.NoFault
import IkeProofs.Lemmas.Bytes
import IkeModel.Security.ChildOps

/-! Lemmas for C10: CBC decryption inverts CBC encryption, the shape of what
`Encrypt` produces, closed forms of `Encrypt` / `Decrypt`, call sequences. -/

namespace Ike

/-! ### xor and the CBC core -/

theorem u8_xor_cancel (a b : UInt8) : (a ^^^ b) ^^^ b = a := by
  rw [UInt8.xor_assoc, UInt8.xor_self, UInt8.xor_zero]

/-- xor with the same mask twice is the identity (mask at least as long) -/
theorem xorBytes_cancel (a b : Bytes) (h : a.length ≤ b.length) : xorBytes (xorBytes a b) b = a := by
  induction a generalizing b with
  | nil => cases b <;> simp [xorBytes]
  | cons x xs ih =>
    cases b with
    | nil => simp at h
    | cons y ys =>
      simp only [List.length_cons, Nat.add_le_add_iff_right] at h
      simp only [xorBytes, u8_xor_cancel, ih ys h]

/-- textbook CBC: decryption under `D` inverts encryption under `E` on whole
blocks, when `D` inverts `E` on 16-octet blocks and `E` keeps the block size -/
theorem cbcDec_cbcEnc (E D : Bytes → Bytes)
    (hE : ∀ b, b.length = 16 → (E b).length = 16)
    (hDE : ∀ b, b.length = 16 → D (E b) = b)
    (iv x : Bytes) (hiv : iv.length = 16) (hx : x.length % 16 = 0) :
    cbcDec D iv (cbcEnc E iv x) = x := by
  fun_induction cbcEnc E iv x with
  | case1 prev pt h =>
    have : pt.length = 0 := by omega
    have : pt = [] := List.eq_nil_of_length_eq_zero this
    subst this
    unfold cbcDec; simp
  | case2 prev pt h c ih =>
    have hx16 : (xorBytes (List.take 16 pt) prev).length = 16 := by
      rw [xorBytes_length]; simp only [List.length_take]; omega
    have hc16 : c.length = 16 := by simp only [c]; exact hE _ hx16
    have hrest : (List.drop 16 pt).length % 16 = 0 := by simp only [List.length_drop]; omega
    unfold cbcDec
    have hlen : ¬ (c ++ cbcEnc E c (List.drop 16 pt)).length < 16 := by
      simp only [List.length_append]; omega
    rw [dif_neg hlen]
    simp only
    rw [take_prefix_eq _ _ _ hc16.symm, drop_prefix_eq _ _ _ hc16.symm, ih hc16 hrest]
    have : D c = xorBytes (List.take 16 pt) prev := by simp only [c]; exact hDE _ hx16
    rw [this, xorBytes_cancel _ _ (by simp only [List.length_take]; omega), List.take_append_drop]

/-! ### the random source -/

theorem cyc_length (buf : Bytes) (pos n : Nat) : (cyc buf pos n).length = n := by
  induction n generalizing pos with
  | zero => rfl
  | succ n ih => simp [cyc, ih]

/-! ### `Encrypt` -/

/-- number of octets `PKCS7Padding` appends (1…16; `blockSize - len % blockSize` is never 0) -/
def padLen (plain : Bytes) : Nat := 16 - plain.length % 16

theorem padLen_bounds (plain : Bytes) : 1 ≤ padLen plain ∧ padLen plain ≤ 16 ∧
    (plain.length + padLen plain) % 16 = 0 := by
  unfold padLen; omega

/-- the padded plaintext `Encrypt` feeds to CBC when the padding draw yields `drawn` -/
def paddedWith (plain drawn : Bytes) : Bytes :=
  plain ++ drawn.take (padLen plain - 1) ++ [UInt8.ofNat (padLen plain - 1)]

/-- closed form of `Encrypt`: two reads of the random source, first the padding
(`padLen` octets), then the IV (16 octets); an error if either fails. -/
theorem cbcEncrypt_eq (P : Prims) (c : CipherObj) (r : Rand) (plain : Bytes) :
    cbcEncrypt P c r plain =
      if r.failAt = some r.reads then ({ r with reads := r.reads + 1 }, .err)
      else if r.failAt = some (r.reads + 1) then
        ({ r with reads := r.reads + 2, pos := r.pos + padLen plain }, .err)
      else
        let iv := cyc r.buf (r.pos + padLen plain) 16
        ({ r with reads := r.reads + 2, pos := r.pos + padLen plain + 16 },
         .ok (iv ++ cbcEnc (P.enc c.key) iv (paddedWith plain (cyc r.buf r.pos (padLen plain))))) := by
  unfold cbcEncrypt pkcs7Pad Rand.draw
  by_cases h1 : r.failAt = some r.reads
  · simp only [if_pos h1]
  · simp only [if_neg h1]
    by_cases h2 : r.failAt = some (r.reads + 1)
    · simp only [if_pos h2]; rfl
    · simp only [if_neg h2]; rfl

theorem paddedWith_length (plain drawn : Bytes) (hd : drawn.length = padLen plain) :
    (paddedWith plain drawn).length = plain.length + padLen plain := by
  have := padLen_bounds plain
  unfold paddedWith
  simp only [List.length_append, List.length_take, List.length_cons, List.length_nil]
  omega

/-! ### `Decrypt` -/

/-- the textbook CBC decryption of `ct = IV ‖ blocks` under the object's key -/
def cbcPlain (P : Prims) (c : CipherObj) (ct : Bytes) : Bytes :=
  cbcDec (P.dec c.key) (ct.take 16) (ct.drop 16)

/-- the pad-length octet `Decrypt` reads: the last octet of the CBC decryption -/
def lastPlainOctet (P : Prims) (c : CipherObj) (ct : Bytes) : UInt8 :=
  byteAt (cbcPlain P c ct) ((cbcPlain P c ct).length - 1)

theorem cbcPlain_length (P : Prims) (hP : P.Lawful) (c : CipherObj) (ct : Bytes)
    (h16 : 16 ≤ ct.length) (hal : (ct.length - 16) % 16 = 0) :
    (cbcPlain P c ct).length = ct.length - 16 := by
  unfold cbcPlain
  rw [cbcDec_length _ (hP.dec_len c.key) _ _ (by simp only [List.length_take]; omega)
    (by simp only [List.length_drop]; exact hal)]
  simp

/-- closed form of `Decrypt` -/
theorem cbcDecrypt_eq (P : Prims) (hP : P.Lawful) (c : CipherObj) (ct : Bytes) :
    cbcDecrypt P c ct =
      if ct.length < 32 ∨ (ct.length - 16) % 16 ≠ 0 ∨
          (lastPlainOctet P c ct).toNat + 1 > ct.length - 16 then .err
      else .ok ((cbcPlain P c ct).take (ct.length - 16 - ((lastPlainOctet P c ct).toNat + 1))) := by
  unfold cbcDecrypt
  by_cases h16 : ct.length < 16
  · rw [if_pos h16, if_pos (by omega)]
  · rw [if_neg h16]
    rw [goTo_ok (by omega), goFrom_ok (by omega)]
    simp only [Res.bind_ok]
    by_cases hem : (List.drop 16 ct).length = 0 ∨ (List.drop 16 ct).length % 16 ≠ 0
    · have hem' := hem
      simp only [List.length_drop] at hem'
      rw [if_pos (by simpa using hem), if_pos (by omega)]
    · have hem' := hem
      simp only [List.length_drop] at hem'
      rw [if_neg (by simpa using hem)]
      have hl := cbcPlain_length P hP c ct (by omega) (by omega)
      unfold lastPlainOctet
      unfold cbcPlain at *
      generalize cbcDec (P.dec c.key) (List.take 16 ct) (List.drop 16 ct) = pt at *
      rw [goIndex_ok (by omega)]
      simp only [Res.bind_ok]
      rw [hl]
      by_cases hp : (byteAt pt (ct.length - 16 - 1)).toNat + 1 > ct.length - 16
      · rw [if_pos hp, if_pos (by omega)]
      · rw [if_neg hp, if_neg (by omega), goTo_ok (by omega)]

/-! ### what a successful `Encrypt` returns -/

/-- shape of a ciphertext: IV, then the CBC encryption of plaintext ‖ pad ‖ pad-length -/
structure EncShape (P : Prims) (c : CipherObj) (plain ct : Bytes) : Prop where
  ex : ∃ iv pad, iv.length = 16 ∧ pad.length = padLen plain - 1 ∧
        ct = iv ++ cbcEnc (P.enc c.key) iv (plain ++ pad ++ [UInt8.ofNat (padLen plain - 1)])

theorem cbcEncrypt_ok_shape (P : Prims) (c : CipherObj) (r : Rand) (plain ct : Bytes)
    (h : (cbcEncrypt P c r plain).2 = .ok ct) :
    r.failAt ≠ some r.reads ∧ r.failAt ≠ some (r.reads + 1) ∧
    ct = cyc r.buf (r.pos + padLen plain) 16 ++
      cbcEnc (P.enc c.key) (cyc r.buf (r.pos + padLen plain) 16)
        (paddedWith plain (cyc r.buf r.pos (padLen plain))) := by
  rw [cbcEncrypt_eq] at h
  by_cases h1 : r.failAt = some r.reads
  · rw [if_pos h1] at h; simp at h
  · rw [if_neg h1] at h
    by_cases h2 : r.failAt = some (r.reads + 1)
    · rw [if_pos h2] at h; simp at h
    · rw [if_neg h2] at h
      simp only [Res.ok.injEq] at h
      exact ⟨h1, h2, h.symm⟩

theorem encShape_of_ok (P : Prims) (c : CipherObj) (r : Rand) (plain ct : Bytes)
    (h : (cbcEncrypt P c r plain).2 = .ok ct) : EncShape P c plain ct := by
  obtain ⟨_, _, hct⟩ := cbcEncrypt_ok_shape P c r plain ct h
  have hb := padLen_bounds plain
  refine ⟨⟨_, (cyc r.buf r.pos (padLen plain)).take (padLen plain - 1), cyc_length _ _ _, ?_, hct⟩⟩
  simp only [List.length_take, cyc_length]; omega

/-- the CBC decryption of a ciphertext of that shape is the padded plaintext -/
theorem encShape_plain (P : Prims) (hP : P.Lawful) (c : CipherObj) (plain ct : Bytes)
    (hs : EncShape P c plain ct) :
    ∃ pad, pad.length = padLen plain - 1 ∧ ct.length = 16 + (plain.length + padLen plain) ∧
      cbcPlain P c ct = plain ++ pad ++ [UInt8.ofNat (padLen plain - 1)] := by
  obtain ⟨iv, pad, hiv, hpad, hct⟩ := hs.ex
  have hb := padLen_bounds plain
  have hlen : (plain ++ pad ++ [UInt8.ofNat (padLen plain - 1)]).length = plain.length + padLen plain := by
    simp only [List.length_append, List.length_cons, List.length_nil]; omega
  refine ⟨pad, hpad, ?_, ?_⟩
  · rw [hct, List.length_append, cbcEnc_length _ (hP.enc_len c.key) _ _ hiv (by rw [hlen]; exact hb.2.2),
      hlen, hiv]
  · unfold cbcPlain
    rw [hct, take_prefix_eq _ _ _ hiv.symm, drop_prefix_eq _ _ _ hiv.symm]
    exact cbcDec_cbcEnc _ _ (hP.enc_len c.key) (hP.dec_enc c.key) iv _ hiv (by rw [hlen]; exact hb.2.2)

/-! ### call sequences -/

/-- the random source after a history of calls on one object -/
def cbcRandAfter (P : Prims) (c : CipherObj) : Rand → List CbcOp → Rand
  | r, [] => r
  | r, .enc p :: rest => cbcRandAfter P c (cbcEncrypt P c r p).1 rest
  | r, .dec _ :: rest => cbcRandAfter P c r rest

theorem cbcRun_append (P : Prims) (c : CipherObj) (r : Rand) (ops1 ops2 : List CbcOp) :
    cbcRun P c r (ops1 ++ ops2) = cbcRun P c r ops1 ++ cbcRun P c (cbcRandAfter P c r ops1) ops2 := by
  induction ops1 generalizing r with
  | nil => rfl
  | cons op rest ih =>
    cases op with
    | enc p => simp only [List.cons_append, cbcRun, cbcRandAfter, ih]
    | dec ct => simp only [List.cons_append, cbcRun, cbcRandAfter, ih]

theorem cbcRun_length (P : Prims) (c : CipherObj) (r : Rand) (ops : List CbcOp) :
    (cbcRun P c r ops).length = ops.length := by
  induction ops generalizing r with
  | nil => rfl
  | cons op rest ih =>
    cases op with
    | enc p => simp only [cbcRun, List.length_cons, ih]
    | dec ct => simp only [cbcRun, List.length_cons, ih]

end Ike
