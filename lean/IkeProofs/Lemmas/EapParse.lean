import IkeProofs.Lemmas.Eap
import IkeModel.Spec.EapParse

/-! Lemmas that tie the independent strict EAP parser `Spec.parseEap`
(`IkeModel/Spec/EapParse.lean`) to the model of the library's EAP codec
(`marshalEap`, `unmarshalEap`) and to the independent encoder `Spec.encodeEapAka`:

* soundness  — whatever a reader of the parser accepts is a value of the domain (`AkaAttrBuilt`,
  `AkaBuilt`, `DomEap`) and the library's encoder writes exactly the octets that were read;
* completeness — on the octets the library's encoder writes for a value of the domain the
  parser returns that value. -/

set_option linter.unusedSimpArgs false
set_option linter.unusedVariables false

namespace Ike
open Spec

/-! ### octets -/
theorem eapp_put16_be16 (a b : UInt8) : put16 (be16 a b) = [a, b] := by
  have ha := a.toNat_lt
  have hb := b.toNat_lt
  unfold put16 be16
  rw [ofNat_toNat_u16 _ (by omega)]
  have h1 : (a.toNat * 256 + b.toNat) / 256 = a.toNat := by omega
  have h2 : (a.toNat * 256 + b.toNat) % 256 = b.toNat := by omega
  rw [h1, h2, UInt8.ofNat_toNat, UInt8.ofNat_toNat]

theorem eapp_put32_be32 (a b c d : UInt8) : put32 (be32 a b c d) = [a, b, c, d] := by
  have ha := a.toNat_lt
  have hb := b.toNat_lt
  have hc := c.toNat_lt
  have hd := d.toNat_lt
  unfold put32 be32
  rw [ofNat_toNat_u32 _ (by omega)]
  have h1 : (((a.toNat * 256 + b.toNat) * 256 + c.toNat) * 256 + d.toNat) / 16777216 = a.toNat := by omega
  have h2 : (((a.toNat * 256 + b.toNat) * 256 + c.toNat) * 256 + d.toNat) / 65536 % 256 = b.toNat := by omega
  have h3 : (((a.toNat * 256 + b.toNat) * 256 + c.toNat) * 256 + d.toNat) / 256 % 256 = c.toNat := by omega
  have h4 : (((a.toNat * 256 + b.toNat) * 256 + c.toNat) * 256 + d.toNat) % 256 = d.toNat := by omega
  rw [h1, h2, h3, h4]
  simp only [UInt8.ofNat_toNat]

theorem eapp_u8_eq_ofNat {w : UInt8} {n : Nat} (h : w.toNat = n) : w = UInt8.ofNat n := by
  rw [← h, UInt8.ofNat_toNat]

/-! ### one attribute: soundness -/

theorem parseAtFixed16_sound {t w : UInt8} {body : Bytes} {x : AkaAttr}
    (ht : t = 1 ∨ t = 2 ∨ t = 11) (h : parseAtFixed16 t w body = some x) :
    AkaAttrBuilt x ∧ marshalAkaAttr x = t :: w :: body := by
  match body, h with
  | r0 :: r1 :: v, h =>
    simp only [parseAtFixed16] at h
    split at h
    · simp at h
    · rename_i hc
      simp only [not_or, Decidable.not_not] at hc
      obtain ⟨rfl, rfl, rfl, hv⟩ := hc
      simp only [Option.some.injEq] at h
      subst h
      have ht' : t = Facts.atRand ∨ t = Facts.atAutn ∨ t = Facts.atMac := ht
      refine ⟨⟨Or.inl ⟨ht', hv⟩, akaMkAttr_fixed16 t v ht' hv⟩, ?_⟩
      rw [(parse_marshal_fixed16 t v [] ht' hv).1]
      rfl
  | [], h => simp [parseAtFixed16] at h
  | [_], h => simp [parseAtFixed16] at h

theorem parseAtPadded_sound {t w : UInt8} {lo hi : Nat} {body : Bytes} {x : AkaAttr}
    (ht : t = Facts.atRes ∨ t = Facts.atKdfInput) (hres : t = Facts.atRes → 4 ≤ lo ∧ hi ≤ 16)
    (h : parseAtPadded t w 8 lo hi body = some x) :
    AkaAttrBuilt x ∧ marshalAkaAttr x = t :: w :: body := by
  match body, h with
  | l0 :: l1 :: rest, h =>
    simp only [parseAtPadded] at h
    by_cases c1 : (l0.toNat * 256 + l1.toNat) % 8 ≠ 0
    · rw [if_pos c1] at h; simp at h
    rw [if_neg c1] at h
    by_cases c2 : (l0.toNat * 256 + l1.toNat) / 8 < lo ∨ hi < (l0.toNat * 256 + l1.toNat) / 8
    · rw [if_pos c2] at h; simp at h
    rw [if_neg c2] at h
    by_cases c3 : w.toNat ≠ ((l0.toNat * 256 + l1.toNat) / 8 + 7) / 4
    · rw [if_pos c3] at h; simp at h
    rw [if_neg c3] at h
    by_cases c4 : rest.length ≠ 4 * w.toNat - 4
    · rw [if_pos c4] at h; simp at h
    rw [if_neg c4] at h
    by_cases c5 : rest.drop ((l0.toNat * 256 + l1.toNat) / 8) ≠ zeros (rest.length - (l0.toNat * 256 + l1.toNat) / 8)
    · rw [if_pos c5] at h; simp at h
    rw [if_neg c5] at h
    simp only [Option.some.injEq] at h
    subst h
    have hwlt := w.toNat_lt
    simp only [Decidable.not_not] at c1 c3 c4 c5
    generalize hn : (l0.toNat * 256 + l1.toNat) / 8 = n at *
    have hvl : (rest.take n).length = n := by rw [List.length_take]; omega
    have hW := akaWords_eq n
    have hw : w = UInt8.ofNat (akaWords (rest.take n).length) := by
      apply eapp_u8_eq_ofNat; rw [hvl]; omega
    have hr : be16 l0 l1 = UInt16.ofNat ((rest.take n).length * 8) := by
      rw [hvl]; unfold be16; congr 1; omega
    have hv1016 : (rest.take n).length ≤ 1016 := by rw [hvl]; omega
    have hrest : rest = rest.take n ++ zeros (4 * akaWords (rest.take n).length - 4 - (rest.take n).length) := by
      rw [hvl]
      have : 4 * akaWords n - 4 - n = rest.length - n := by omega
      rw [this, ← c5, List.take_append_drop]
    have hput : [l0, l1] = put16 (UInt16.ofNat ((rest.take n).length * 8)) := by rw [← hr, eapp_put16_be16]
    generalize rest.take n = v at *
    constructor
    · rw [hw, hr]
      rcases ht with rfl | rfl
      · have := hres rfl
        exact ⟨Or.inr (Or.inl ⟨rfl, by dsimp only; omega, by dsimp only; omega⟩), akaMkAttr_res v (by omega) (by omega)⟩
      · exact ⟨Or.inr (Or.inr (Or.inl ⟨rfl, hv1016⟩)), akaMkAttr_kdfInput v⟩
    · have hm := (parse_marshal_padded t v [] ht hv1016).1
      rw [← hw, ← hr] at hm
      rw [hm]
      rw [show l0 :: l1 :: rest = [l0, l1] ++ rest from rfl, hput]
      conv => rhs; rw [hrest]
      simp only [List.append_assoc, hr]
  | [], h => simp [parseAtPadded] at h
  | [_], h => simp [parseAtPadded] at h
theorem parseAtKdf_sound {w : UInt8} {body : Bytes} {x : AkaAttr}
    (h : parseAtKdf Facts.atKdf w body = some x) :
    AkaAttrBuilt x ∧ marshalAkaAttr x = Facts.atKdf :: w :: body := by
  match body, h with
  | [k0, k1], h =>
    simp only [parseAtKdf] at h
    split at h
    · simp at h
    · rename_i hc
      simp only [Decidable.not_not] at hc
      subst hc
      simp only [Option.some.injEq] at h
      subst h
      refine ⟨⟨Or.inr (Or.inr (Or.inr (Or.inl ⟨rfl, rfl⟩))), akaMkAttr_kdf [k0, k1] rfl⟩, ?_⟩
      rw [(parse_marshal_kdf [k0, k1] [] rfl).1]
  | [], h => simp [parseAtKdf] at h
  | [_], h => simp [parseAtKdf] at h
  | _ :: _ :: _ :: _, h => simp [parseAtKdf] at h

theorem parseAtCheckcode_sound {w : UInt8} {body : Bytes} {x : AkaAttr} (hw : w ≠ 0)
    (h : parseAtCheckcode Facts.atCheckcode w body = some x) :
    AkaAttrBuilt x ∧ marshalAkaAttr x = Facts.atCheckcode :: w :: body := by
  match body, h with
  | r0 :: r1 :: v, h =>
    simp only [parseAtCheckcode] at h
    split at h
    · simp at h
    · rename_i hc
      simp only [not_or, Decidable.not_not] at hc
      obtain ⟨rfl, rfl, hv⟩ := hc
      simp only [Option.some.injEq] at h
      subst h
      have hwlt := w.toNat_lt
      have hw1 : 1 ≤ w.toNat := by
        have : w.toNat ≠ 0 := fun h0 => hw (UInt8.toNat_inj.mp (by rw [h0]; rfl))
        omega
      have hweq : w = UInt8.ofNat ((4 + v.length) / 4) := by apply eapp_u8_eq_ofNat; omega
      rw [hweq]
      refine ⟨⟨Or.inr (Or.inr (Or.inr (Or.inr ⟨rfl, by dsimp only; omega, by dsimp only; omega⟩))),
        akaMkAttr_checkcode v⟩, ?_⟩
      rw [(parse_marshal_checkcode v [] (by omega) (by omega)).1]
      rfl
  | [], h => simp [parseAtCheckcode] at h
  | [_], h => simp [parseAtCheckcode] at h

/-- **soundness of the attribute reader**: an accepted attribute is one the setter stores for an
accepted value, and the library emits it as exactly the octets that were read -/
theorem parseAkaAttr_sound {t w : UInt8} {body : Bytes} {x : AkaAttr} (hw : w ≠ 0)
    (h : parseAkaAttr t w body = some x) :
    AkaAttrBuilt x ∧ marshalAkaAttr x = t :: w :: body := by
  unfold parseAkaAttr at h
  by_cases c1 : t = 1 ∨ t = 2 ∨ t = 11
  · rw [if_pos c1] at h; exact parseAtFixed16_sound c1 h
  rw [if_neg c1] at h
  by_cases c2 : t = 3
  · rw [if_pos c2] at h
    exact parseAtPadded_sound (Or.inl c2) (fun _ => ⟨Nat.le_refl _, Nat.le_refl _⟩) h
  rw [if_neg c2] at h
  by_cases c3 : t = 23
  · rw [if_pos c3] at h
    exact parseAtPadded_sound (Or.inr c3) (fun h3 => absurd h3 c2) h
  rw [if_neg c3] at h
  by_cases c4 : t = 24
  · rw [if_pos c4] at h; subst c4; exact parseAtKdf_sound h
  rw [if_neg c4] at h
  by_cases c5 : t = 134
  · rw [if_pos c5] at h; subst c5; exact parseAtCheckcode_sound hw h
  rw [if_neg c5] at h
  simp at h
theorem marshalAkaAttr_head {x : AkaAttr} {t w : UInt8} {body : Bytes}
    (h : marshalAkaAttr x = t :: w :: body) : x.atype = t := by
  unfold marshalAkaAttr at h
  simp only [List.cons_append, List.nil_append, List.cons.injEq] at h
  exact h.1

/-! ### the attribute area: soundness -/

theorem parseAkaAttrs_sound (fuel lo : Nat) (b : Bytes) (l : List AkaAttr)
    (h : parseAkaAttrs fuel lo b = some l) :
    AkaSorted l ∧ (∀ x ∈ l, lo ≤ x.atype.toNat) ∧ (∀ x ∈ l, AkaAttrBuilt x) ∧ marshalAkaAttrs l = b := by
  induction fuel generalizing lo b l with
  | zero => simp [parseAkaAttrs] at h
  | succ fuel ih =>
    match b, h with
    | [], h =>
      simp only [parseAkaAttrs, Option.some.injEq] at h
      subst h
      exact ⟨List.Pairwise.nil, by simp, by simp, rfl⟩
    | [_], h => simp [parseAkaAttrs] at h
    | t :: w :: rest, h =>
      simp only [parseAkaAttrs] at h
      by_cases c1 : w = 0 ∨ rest.length < 4 * w.toNat - 2
      · rw [if_pos c1] at h; simp at h
      rw [if_neg c1] at h
      by_cases c2 : t.toNat < lo
      · rw [if_pos c2] at h; simp at h
      rw [if_neg c2] at h
      simp only [not_or] at c1
      cases ha : parseAkaAttr t w (rest.take (4 * w.toNat - 2)) with
      | none => rw [ha] at h; simp at h
      | some a =>
        cases hs : parseAkaAttrs fuel (t.toNat + 1) (rest.drop (4 * w.toNat - 2)) with
        | none => rw [ha, hs] at h; simp at h
        | some as =>
          rw [ha, hs] at h
          simp only [Option.some.injEq] at h
          subst h
          obtain ⟨hb, hm⟩ := parseAkaAttr_sound c1.1 ha
          obtain ⟨is, ilo, ib, im⟩ := ih _ _ _ hs
          have hat := marshalAkaAttr_head hm
          refine ⟨?_, ?_, ?_, ?_⟩
          · unfold AkaSorted
            rw [List.pairwise_cons]
            refine ⟨fun y hy => ?_, is⟩
            have := ilo y hy
            rw [UInt8.lt_iff_toNat_lt, hat]; omega
          · intro y hy
            simp only [List.mem_cons] at hy
            rcases hy with rfl | hy
            · rw [hat]; omega
            · have := ilo y hy; omega
          · intro y hy
            simp only [List.mem_cons] at hy
            rcases hy with rfl | hy
            · exact hb
            · exact ib y hy
          · rw [marshalAkaAttrs, hm, im]
            simp only [List.cons_append, List.take_append_drop]
/-! ### the methods and the packet: soundness -/

theorem parseAka_sound {d : Bytes} {x : EapData} (h : parseAka d = some x) :
    DomEapData x ∧ marshalEapData x = .ok (50 :: d) := by
  match d, h with
  | st :: r0 :: r1 :: attrs, h =>
    simp only [parseAka] at h
    by_cases c : r0 ≠ 0 ∨ r1 ≠ 0
    · rw [if_pos c] at h; simp at h
    rw [if_neg c] at h
    simp only [not_or, Decidable.not_not] at c
    obtain ⟨rfl, rfl⟩ := c
    cases hs : parseAkaAttrs (attrs.length + 1) 0 attrs with
    | none => rw [hs] at h; simp at h
    | some as =>
      rw [hs] at h
      simp only [Option.some.injEq] at h
      subst h
      obtain ⟨is, _, ib, im⟩ := parseAkaAttrs_sound _ _ _ _ hs
      refine ⟨⟨rfl, is, ib⟩, ?_⟩
      simp only [marshalEapData, marshalAka, im]
      rfl
  | [], h => simp [parseAka] at h
  | [_], h => simp [parseAka] at h
  | [_, _], h => simp [parseAka] at h

theorem parseExpanded_sound {d : Bytes} {x : EapData} (h : parseExpanded d = some x) :
    DomEapData x ∧ marshalEapData x = .ok (254 :: d) := by
  match d, h with
  | v0 :: v1 :: v2 :: t0 :: t1 :: t2 :: t3 :: d, h =>
    simp only [parseExpanded, Option.some.injEq] at h
    subst h
    have h0 := v0.toNat_lt
    have h1 := v1.toNat_lt
    have h2 := v2.toNat_lt
    have hvid : (UInt32.ofNat ((v0.toNat * 256 + v1.toNat) * 256 + v2.toNat)).toNat
        = (v0.toNat * 256 + v1.toNat) * 256 + v2.toNat := ofNat_toNat_u32 _ (by omega)
    refine ⟨by simp only [DomEapData]; omega, ?_⟩
    simp only [marshalEapData, eapp_put32_be32]
    have hw := expanded_word (UInt32.ofNat ((v0.toNat * 256 + v1.toNat) * 256 + v2.toNat))
    rw [hvid] at hw
    generalize (Facts.eapTypeExpanded.toUInt32 <<< 24) |||
      (UInt32.ofNat ((v0.toNat * 256 + v1.toNat) * 256 + v2.toNat) &&& 0x00ffffff) = wd at *
    have e0 : UInt8.ofNat (wd.toNat / 16777216) = 254 := by
      have : wd.toNat / 16777216 = 254 := by omega
      rw [this]; rfl
    have e1 : UInt8.ofNat (wd.toNat / 65536 % 256) = v0 := by
      have : wd.toNat / 65536 % 256 = v0.toNat := by omega
      rw [this, UInt8.ofNat_toNat]
    have e2 : UInt8.ofNat (wd.toNat / 256 % 256) = v1 := by
      have : wd.toNat / 256 % 256 = v1.toNat := by omega
      rw [this, UInt8.ofNat_toNat]
    have e3 : UInt8.ofNat (wd.toNat % 256) = v2 := by
      have : wd.toNat % 256 = v2.toNat := by omega
      rw [this, UInt8.ofNat_toNat]
    simp only [put32, e0, e1, e2, e3]
    rfl
  | [], h => simp [parseExpanded] at h
  | [_], h => simp [parseExpanded] at h
  | [_, _], h => simp [parseExpanded] at h
  | [_, _, _], h => simp [parseExpanded] at h
  | [_, _, _, _], h => simp [parseExpanded] at h
  | [_, _, _, _, _], h => simp [parseExpanded] at h
  | [_, _, _, _, _, _], h => simp [parseExpanded] at h

theorem parseNonEmpty_sound {mk : Bytes → EapData} {d : Bytes} {x : EapData}
    (h : parseNonEmpty mk d = some x) : 1 ≤ d.length ∧ x = mk d := by
  unfold parseNonEmpty at h
  split at h
  · simp at h
  · rename_i hne
    simp only [Option.some.injEq] at h
    refine ⟨?_, h.symm⟩
    cases d with
    | nil => exact absurd rfl hne
    | cons a r => simp

theorem parseTypeData_sound {ty : UInt8} {d : Bytes} {x : EapData} (h : parseTypeData ty d = some x) :
    DomEapData x ∧ marshalEapData x = .ok (ty :: d) := by
  unfold parseTypeData at h
  by_cases c1 : ty = 1
  · rw [if_pos c1] at h
    obtain ⟨hl, rfl⟩ := parseNonEmpty_sound h
    subst c1
    refine ⟨hl, ?_⟩
    simp only [marshalEapData]
    rw [if_neg (by omega)]; rfl
  rw [if_neg c1] at h
  by_cases c2 : ty = 2
  · rw [if_pos c2] at h
    obtain ⟨hl, rfl⟩ := parseNonEmpty_sound h
    subst c2
    refine ⟨hl, ?_⟩
    simp only [marshalEapData]
    rw [if_neg (by omega)]; rfl
  rw [if_neg c2] at h
  by_cases c3 : ty = 3
  · rw [if_pos c3] at h
    obtain ⟨hl, rfl⟩ := parseNonEmpty_sound h
    subst c3
    refine ⟨hl, ?_⟩
    simp only [marshalEapData]
    rw [if_neg (by omega)]; rfl
  rw [if_neg c3] at h
  by_cases c4 : ty = 50
  · rw [if_pos c4] at h; subst c4; exact parseAka_sound h
  rw [if_neg c4] at h
  by_cases c5 : ty = 254
  · rw [if_pos c5] at h; subst c5; exact parseExpanded_sound h
  rw [if_neg c5] at h
  simp at h

/-- **soundness of the strict parser**: an accepted packet is the library's encoding of a value of
the domain of property C14 -/
theorem parseEap_sound {bs : Bytes} {e : Eap} (h : parseEap bs = some e) :
    DomEap e ∧ marshalEap e = .ok bs := by
  match bs, h with
  | code :: ident :: l0 :: l1 :: rest, h =>
    simp only [parseEap] at h
    by_cases c0 : l0.toNat * 256 + l1.toNat ≠ 4 + rest.length
    · rw [if_pos c0] at h; simp at h
    rw [if_neg c0] at h
    simp only [Decidable.not_not] at c0
    have hput : put16 (UInt16.ofNat (4 + rest.length)) = [l0, l1] := by
      rw [← c0]; exact eapp_put16_be16 l0 l1
    have h0 := l0.toNat_lt
    have h1 := l1.toNat_lt
    match rest, h with
    | [], h =>
      dsimp only at h
      simp only [Option.some.injEq] at h
      subst h
      refine ⟨⟨fun _ => rfl, trivial, by simp [eapDataSize]⟩, ?_⟩
      unfold marshalEap
      simp only [marshalEapData, Res.bind_ok]
      rw [hput]; rfl
    | ty :: d, h =>
      dsimp only at h
      by_cases cc : code = 3 ∨ code = 4
      · rw [if_pos cc] at h; simp at h
      rw [if_neg cc] at h
      cases hx : parseTypeData ty d with
      | none => rw [hx] at h; simp at h
      | some x =>
        rw [hx] at h
        simp only [Option.some.injEq] at h
        subst h
        obtain ⟨hd, hm⟩ := parseTypeData_sound hx
        have hsz := marshalEapData_size _ _ hm
        refine ⟨⟨fun hc => absurd hc cc, hd, by dsimp only; rw [← hsz]; omega⟩, ?_⟩
        unfold marshalEap
        dsimp only
        rw [hm]
        simp only [Res.bind_ok]
        rw [hput]; rfl
  | [], h => simp [parseEap] at h
  | [_], h => simp [parseEap] at h
  | [_, _], h => simp [parseEap] at h
  | [_, _, _], h => simp [parseEap] at h
/-! ### one attribute: completeness -/

theorem eapp_put16_zero : put16 0 = [0, 0] := rfl

theorem eapp_put16_toNat (v : UInt16) :
    (UInt8.ofNat (v.toNat / 256)).toNat * 256 + (UInt8.ofNat (v.toNat % 256)).toNat = v.toNat := by
  have := v.toNat_lt
  simp only [UInt8.toNat_ofNat']
  omega

/-- **completeness of the attribute reader**: what the library emits for an attribute the setter
stores is `type ‖ length ‖ body` with `body` of `4·length − 2` octets, and the reader returns the
attribute from it -/
theorem parseAkaAttr_complete {x : AkaAttr} (hb : AkaAttrBuilt x) :
    ∃ body, marshalAkaAttr x = x.atype :: x.length :: body ∧ body.length = 4 * x.length.toNat - 2 ∧
      x.length ≠ 0 ∧ parseAkaAttr x.atype x.length body = some x := by
  rcases akaAttrBuilt_cases hb with ⟨t, v, ht, hv, rfl⟩ | ⟨t, v, ht, hv, hres, rfl⟩ | ⟨v, hv, rfl⟩ | ⟨v, h4, hv, rfl⟩
  · refine ⟨put16 0 ++ v, (parse_marshal_fixed16 t v [] ht hv).1, by simp [hv], by dsimp only; decide, ?_⟩
    have c1 : t = 1 ∨ t = 2 ∨ t = 11 := ht
    dsimp only
    unfold parseAkaAttr
    rw [if_pos c1, eapp_put16_zero]
    simp only [List.cons_append, List.nil_append, parseAtFixed16]
    rw [if_neg (by simp [hv])]
  · have hW := akaWords_eq v.length
    have hL : (UInt8.ofNat (akaWords v.length)).toNat = akaWords v.length := ofNat_toNat_u8 _ (by omega)
    have hR : (UInt16.ofNat (v.length * 8)).toNat = v.length * 8 := ofNat_toNat_u16 _ (by omega)
    refine ⟨put16 (UInt16.ofNat (v.length * 8)) ++ v ++ zeros (4 * akaWords v.length - 4 - v.length),
      (parse_marshal_padded t v [] ht hv).1, by dsimp only; rw [hL]; simp; omega, ?_, ?_⟩
    · dsimp only
      intro h0
      rw [h0] at hL
      have : (0 : UInt8).toNat = 0 := rfl
      omega
    · dsimp only
      generalize UInt8.ofNat (akaWords v.length) = L at *
      generalize UInt16.ofNat (v.length * 8) = R at *
      have hf := (eapp_put16_toNat R).trans hR
      have hbe := be16_put R
      have key : ∀ lo hi, lo ≤ v.length → v.length ≤ hi →
          parseAtPadded t L 8 lo hi (put16 R ++ v ++ zeros (4 * akaWords v.length - 4 - v.length))
            = some ⟨t, L, R, v⟩ := by
        intro lo hi hlo hhi
        simp only [put16, List.cons_append, List.nil_append, parseAtPadded]
        rw [hf]
        have e1 : v.length * 8 / 8 = v.length := by omega
        rw [e1]
        rw [if_neg (by omega), if_neg (by omega), if_neg (by omega)]
        rw [if_neg (by simp; omega)]
        rw [if_neg (by simp)]
        rw [hbe]
        simp
      unfold parseAkaAttr
      rcases ht with rfl | rfl
      · rw [if_neg (by decide), if_pos (by decide)]
        have := hres rfl
        exact key 4 16 this.1 this.2
      · rw [if_neg (by decide), if_neg (by decide), if_pos (by decide)]
        exact key 0 1016 (by omega) hv
  · refine ⟨v, (parse_marshal_kdf v [] hv).1, by simp [hv], by dsimp only; decide, ?_⟩
    dsimp only
    unfold parseAkaAttr
    rw [if_neg (by decide), if_neg (by decide), if_neg (by decide), if_pos (by decide)]
    match v, hv with
    | [k0, k1], _ => rfl
  · have hL : (UInt8.ofNat ((4 + v.length) / 4)).toNat = (4 + v.length) / 4 := ofNat_toNat_u8 _ (by omega)
    refine ⟨put16 0 ++ v, (parse_marshal_checkcode v [] h4 hv).1, by dsimp only; rw [hL]; simp; omega, ?_, ?_⟩
    · dsimp only
      intro h0
      rw [h0] at hL
      have : (0 : UInt8).toNat = 0 := rfl
      omega
    · dsimp only
      generalize UInt8.ofNat ((4 + v.length) / 4) = L at *
      unfold parseAkaAttr
      rw [if_neg (by decide), if_neg (by decide), if_neg (by decide), if_neg (by decide), if_pos (by decide),
        eapp_put16_zero]
      simp only [List.cons_append, List.nil_append, parseAtCheckcode]
      rw [if_neg (by simp; omega)]
/-! ### the attribute area, the methods, the packet: completeness -/

theorem parseAkaAttrs_complete (l : List AkaAttr) (hs : AkaSorted l) (hb : ∀ x ∈ l, AkaAttrBuilt x)
    (lo : Nat) (hlo : ∀ x ∈ l, lo ≤ x.atype.toNat) (fuel : Nat) (hf : l.length < fuel) :
    parseAkaAttrs fuel lo (marshalAkaAttrs l) = some l := by
  induction l generalizing lo fuel with
  | nil =>
    cases fuel with
    | zero => simp at hf
    | succ f => simp [marshalAkaAttrs, parseAkaAttrs]
  | cons x rest ih =>
    cases fuel with
    | zero => simp at hf
    | succ f =>
      unfold AkaSorted at hs
      rw [List.pairwise_cons] at hs
      obtain ⟨body, hm, hbl, hw0, hp⟩ := parseAkaAttr_complete (hb x (by simp))
      have ihr := ih hs.2 (fun y hy => hb y (by simp [hy])) (x.atype.toNat + 1)
        (fun y hy => by have := hs.1 y hy; rw [UInt8.lt_iff_toNat_lt] at this; omega)
        f (by simp at hf; omega)
      rw [marshalAkaAttrs, hm]
      simp only [List.cons_append, parseAkaAttrs]
      rw [if_neg (by simp only [not_or]; exact ⟨hw0, by rw [List.length_append]; omega⟩)]
      rw [if_neg (by have := hlo x (by simp); omega)]
      rw [← hbl, List.take_left, List.drop_left, hp, ihr]

theorem parseAka_complete (a : Aka) (hb : AkaBuilt a) (td : Bytes) (h : marshalAka a = .ok td) :
    ∃ d, td = 50 :: d ∧ parseAka d = some (.aka a) := by
  obtain ⟨st, rs, attrs⟩ := a
  obtain ⟨h0, hs, hall⟩ := hb
  dsimp only at h0 hs hall
  subst h0
  unfold marshalAka at h
  simp only [Res.ok.injEq] at h
  subst h
  refine ⟨st :: 0 :: 0 :: marshalAkaAttrs attrs, rfl, ?_⟩
  simp only [parseAka]
  rw [if_neg (by simp)]
  rw [parseAkaAttrs_complete attrs hs hall 0 (by simp) _
    (by have := marshalAkaAttrs_length_ge attrs hall; omega)]

theorem parseExpanded_complete (vid vt : UInt32) (d : Bytes) (hv : vid.toNat < 16777216) :
    ∃ r, put32 ((Facts.eapTypeExpanded.toUInt32 <<< 24) ||| (vid &&& 0x00ffffff)) ++ put32 vt ++ d = 254 :: r ∧
      parseExpanded r = some (.expanded vid vt d) := by
  have hw := expanded_word vid
  generalize (Facts.eapTypeExpanded.toUInt32 <<< 24) ||| (vid &&& 0x00ffffff) = w at *
  have e0 : UInt8.ofNat (w.toNat / 16777216) = 254 := by
    have : w.toNat / 16777216 = 254 := by omega
    rw [this]; rfl
  refine ⟨[UInt8.ofNat (w.toNat / 65536 % 256), UInt8.ofNat (w.toNat / 256 % 256), UInt8.ofNat (w.toNat % 256)]
    ++ put32 vt ++ d, by simp [put32, e0], ?_⟩
  simp only [put32, List.cons_append, List.nil_append, parseExpanded, be32_put]
  have : UInt32.ofNat (((UInt8.ofNat (w.toNat / 65536 % 256)).toNat * 256 + (UInt8.ofNat (w.toNat / 256 % 256)).toNat) * 256 +
      (UInt8.ofNat (w.toNat % 256)).toNat) = vid := by
    apply UInt32.toNat_inj.mp
    simp only [UInt8.toNat_ofNat', UInt32.toNat_ofNat']
    omega
  rw [this]

theorem parseTypeData_complete (x : EapData) (hd : DomEapData x) (td : Bytes) (hne : x ≠ .none)
    (h : marshalEapData x = .ok td) : ∃ ty d, td = ty :: d ∧ parseTypeData ty d = some x := by
  cases x with
  | none => exact absurd rfl hne
  | identity v =>
    have hl : 1 ≤ v.length := hd
    simp only [marshalEapData] at h
    rw [if_neg (by omega)] at h
    simp only [Res.ok.injEq] at h; subst h
    refine ⟨1, v, rfl, ?_⟩
    unfold parseTypeData parseNonEmpty
    rw [if_pos rfl, if_neg (by intro h; rw [h] at hl; simp at hl)]
  | notification v =>
    have hl : 1 ≤ v.length := hd
    simp only [marshalEapData] at h
    rw [if_neg (by omega)] at h
    simp only [Res.ok.injEq] at h; subst h
    refine ⟨2, v, rfl, ?_⟩
    unfold parseTypeData parseNonEmpty
    rw [if_neg (by decide), if_pos rfl, if_neg (by intro h; rw [h] at hl; simp at hl)]
  | nak v =>
    have hl : 1 ≤ v.length := hd
    simp only [marshalEapData] at h
    rw [if_neg (by omega)] at h
    simp only [Res.ok.injEq] at h; subst h
    refine ⟨3, v, rfl, ?_⟩
    unfold parseTypeData parseNonEmpty
    rw [if_neg (by decide), if_neg (by decide), if_pos rfl, if_neg (by intro h; rw [h] at hl; simp at hl)]
  | expanded vid vt v =>
    have hv : vid.toNat < 16777216 := hd
    simp only [marshalEapData, Res.ok.injEq] at h; subst h
    obtain ⟨r, hr, hp⟩ := parseExpanded_complete vid vt v hv
    refine ⟨254, r, hr, ?_⟩
    unfold parseTypeData
    rw [if_neg (by decide), if_neg (by decide), if_neg (by decide), if_neg (by decide), if_pos rfl, hp]
  | aka a =>
    have hb : AkaBuilt a := hd
    simp only [marshalEapData] at h
    obtain ⟨d, rfl, hp⟩ := parseAka_complete a hb td h
    refine ⟨50, d, rfl, ?_⟩
    unfold parseTypeData
    rw [if_neg (by decide), if_neg (by decide), if_neg (by decide), if_pos rfl, hp]

/-- **completeness of the strict parser**: it reads the library's encoding of every packet of the
domain of property C14 back to that packet -/
theorem parseEap_complete {e : Eap} {bs : Bytes} (hd : DomEap e) (h : marshalEap e = .ok bs) :
    parseEap bs = some e := by
  obtain ⟨td, hm, rfl⟩ := marshalEap_eq e bs h
  have hsize := marshalEapData_size _ _ hm
  obtain ⟨hcode, hdd, hsz⟩ := hd
  have hl : (UInt16.ofNat (4 + td.length)).toNat = 4 + td.length := ofNat_toNat_u16 _ (by omega)
  obtain ⟨code, ident, data⟩ := e
  dsimp only at *
  generalize UInt16.ofNat (4 + td.length) = pl at *
  have hf := (eapp_put16_toNat pl).trans hl
  simp only [put16, List.cons_append, List.nil_append, parseEap]
  rw [if_neg (by omega)]
  by_cases hnone : data = .none
  · subst hnone
    simp only [marshalEapData, Res.ok.injEq] at hm
    subst hm
    rfl
  · obtain ⟨ty, d, rfl, hp⟩ := parseTypeData_complete data hdd td hnone hm
    dsimp only
    have hc : ¬ (code = 3 ∨ code = 4) := fun hc => hnone (hcode hc)
    rw [if_neg hc, hp]

/-! ### the parser's reading of the independent encoder's input -/

/-- for a value the setter accepts, `Spec.akaAttrOf` is what the setter stores -/
theorem akaMkAttr_eq_attrOf {t : UInt8} {v : Bytes} (h : AkaValOk t v) :
    akaMkAttr t v = .ok (akaAttrOf t v) := by
  rcases h with ⟨ht, hv⟩ | ⟨rfl, h1, h2⟩ | ⟨rfl, _⟩ | ⟨rfl, hv⟩ | ⟨rfl, h4, _⟩
  · rw [akaMkAttr_fixed16 t v ht hv]
    have c : t = 1 ∨ t = 2 ∨ t = 11 := ht
    unfold akaAttrOf
    rw [if_pos c]
  · rw [akaMkAttr_res v h1 h2, akaWords_eq, Nat.mul_comm]
    rfl
  · rw [akaMkAttr_kdfInput v, akaWords_eq, Nat.mul_comm]
    rfl
  · rw [akaMkAttr_kdf v hv]
    rfl
  · rw [akaMkAttr_checkcode v]
    have : (4 + v.length) / 4 = (v.length + 7) / 4 := by omega
    rw [this]
    rfl

theorem akaAttrOf_built {t : UInt8} {v : Bytes} (h : AkaValOk t v) :
    AkaAttrBuilt (akaAttrOf t v) ∧ (akaAttrOf t v).atype = t ∧ (akaAttrOf t v).value = v := by
  have hm := akaMkAttr_eq_attrOf h
  exact ⟨akaAttrBuilt_of_mk h hm, akaMkAttr_ok_fields hm⟩

/-- the packet value behind the input of `Spec.encodeEapAka` is built through the setter -/
theorem akaAttrOf_list (st : UInt8) (attrs : List (UInt8 × Bytes))
    (hs : attrs.Pairwise (fun p q => p.1 < q.1)) (hv : ∀ p ∈ attrs, AkaValOk p.1 p.2) :
    AkaBuilt ⟨st, 0, attrs.map (fun p => akaAttrOf p.1 p.2)⟩ ∧
    (attrs.map (fun p => akaAttrOf p.1 p.2)).map (fun x => (x.atype, x.value)) = attrs := by
  refine ⟨⟨rfl, ?_, ?_⟩, ?_⟩
  · unfold AkaSorted
    dsimp only
    rw [List.pairwise_map]
    refine List.Pairwise.imp_of_mem (fun {p q} hp hq hlt => ?_) hs
    rw [(akaAttrOf_built (hv p hp)).2.1, (akaAttrOf_built (hv q hq)).2.1]
    exact hlt
  · intro x hx
    dsimp only at hx
    rw [List.mem_map] at hx
    obtain ⟨p, hp, rfl⟩ := hx
    exact (akaAttrOf_built (hv p hp)).1
  · rw [List.map_map]
    have : ∀ p ∈ attrs, ((fun x : AkaAttr => (x.atype, x.value)) ∘ (fun p => akaAttrOf p.1 p.2)) p = id p := by
      intro p hp
      have := akaAttrOf_built (hv p hp)
      simp only [Function.comp, id, this.2.1, this.2.2]
    rw [List.map_congr_left this, List.map_id]

end Ike
