import IkeModel

/-! Small tactics shared by the proofs. -/

namespace Ike

@[simp] theorem put16_length (v : UInt16) : (put16 v).length = 2 := rfl
@[simp] theorem put32_length (v : UInt32) : (put32 v).length = 4 := rfl
@[simp] theorem put64_length (v : UInt64) : (put64 v).length = 8 := rfl

/-- linear arithmetic about list lengths -/
macro "len_omega" : tactic => `(tactic| first
  | omega
  | (simp only [List.length_cons, List.length_append, List.length_nil, List.length_drop, List.length_take,
      List.length_replicate, zeros_length, put16_length, put32_length, put64_length] at *; omega))

/-- rewrite one checked Go primitive to its `ok` form, discharging the bounds by `len_omega` -/
macro "go_ok" : tactic => `(tactic| first
  | rw [goIndex_ok (by len_omega)]
  | rw [goU16_ok (by len_omega)]
  | rw [goU32_ok (by len_omega)]
  | rw [goU64_ok (by len_omega)]
  | rw [goSlice_ok (by len_omega) (by len_omega)]
  | rw [goFrom_ok (by len_omega)]
  | rw [goTo_ok (by len_omega)])

/-- step through a straight-line `Res` computation: evaluate binds, rewrite primitives -/
macro "go_steps" : tactic => `(tactic| repeat (first | go_ok | simp only [Res.bind_ok, Res.pure_eq, Res.map_ok] | simp only [Nat.reduceAdd] at *))

end Ike
