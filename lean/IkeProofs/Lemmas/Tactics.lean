import IkeModel

/-! Small tactics shared by the proofs. -/

namespace Ike

/-- rewrite one checked Go primitive to its `ok` form, discharging the bounds by `omega` -/
macro "go_ok" : tactic => `(tactic| first
  | rw [goIndex_ok (by omega)]
  | rw [goU16_ok (by omega)]
  | rw [goU32_ok (by omega)]
  | rw [goU64_ok (by omega)]
  | rw [goSlice_ok (by omega) (by omega)]
  | rw [goFrom_ok (by omega)]
  | rw [goTo_ok (by omega)])

/-- step through a straight-line `Res` computation: evaluate binds, rewrite primitives -/
macro "go_steps" : tactic => `(tactic| repeat (first | go_ok | simp only [Res.bind_ok, Res.pure_eq, Res.map_ok] | simp only [Nat.reduceAdd] at *))

end Ike
