import IkeProofs.Lemmas.Tactics

/-! `≠ fault` for every decoding function of the model, i.e. no Go panic and no
read beyond `len` on any input (C04).  Loops: functional induction over the
well-founded definitions; the `else .fault` arms that guard the recursive calls
are shown unreachable from the length facts of the one-step parsers. -/

set_option linter.unusedSimpArgs false
set_option linter.unusedVariables false

namespace Ike

theorem unmarshalKE_ne_fault (b : Bytes) : unmarshalKE b ≠ .fault := by
  unfold unmarshalKE
  split
  · simp
  · go_steps; simp

theorem unmarshalT4_ne_fault (mk : UInt8 → Bytes → Payload) (b : Bytes) : unmarshalT4 mk b ≠ .fault := by
  unfold unmarshalT4
  split
  · simp
  · go_steps; simp

theorem unmarshalT1_ne_fault (mk : UInt8 → Bytes → Payload) (b : Bytes) : unmarshalT1 mk b ≠ .fault := by
  unfold unmarshalT1
  split
  · simp
  · go_steps; simp

theorem unmarshalNotify_ne_fault (b : Bytes) : unmarshalNotify b ≠ .fault := by
  unfold unmarshalNotify
  split
  · simp
  · split
    · simp
    · go_steps
      split
      · simp
      · go_steps; simp

theorem deleteSPIs_ne_fault (n : Nat) (b : Bytes) (h : 4 * n ≤ b.length) : deleteSPIs n b ≠ .fault := by
  induction n generalizing b with
  | zero => simp [deleteSPIs]
  | succ n ih =>
    match b, h with
    | b0 :: b1 :: b2 :: b3 :: rest, h =>
      simp only [deleteSPIs]
      have := ih rest (by simp at h; omega)
      cases hr : deleteSPIs n rest with
      | ok l => simp
      | err => simp
      | fault => exact absurd hr this
    | [], h => simp at h
    | [_], h => simp at h; omega
    | [_, _], h => simp at h; omega
    | [_, _, _], h => simp at h; omega

theorem unmarshalDelete_ne_fault (b : Bytes) : unmarshalDelete b ≠ .fault := by
  unfold unmarshalDelete
  split
  · simp
  · split
    · simp
    · go_steps
      split
      · simp
      · split
        · simp
        · rename_i h0 h3 hlen hs
          go_steps
          have hb : 4 * (be16 (byteAt b 2) (byteAt b 3)).toNat ≤ (List.drop 4 b).length := by
            simp only [Bool.and_eq_true, decide_eq_true_eq, bne_iff_ne, ne_eq, not_and, Decidable.not_not] at hs
            simp only [List.length_drop]
            by_cases hz : (be16 (byteAt b 2) (byteAt b 3)).toNat > 0
            · have h4 := hs hz
              have : (byteAt b 1).toNat = 4 := by rw [h4]; rfl
              rw [this] at hlen
              omega
            · omega
          cases hd : deleteSPIs _ (List.drop 4 b) with
          | ok l => simp
          | err => simp
          | fault => exact absurd hd (deleteSPIs_ne_fault _ _ hb)

/-! ### Configuration -/

theorem parseCPAttr_ne_fault (d : Bytes) (h : 4 ≤ d.length) : parseCPAttr d ≠ .fault := by
  unfold parseCPAttr
  go_steps
  split
  · simp
  · go_steps; simp

theorem parseCPAttr_len (d : Bytes) (h : 4 ≤ d.length) (a : CPAttr) (n : Nat)
    (hp : parseCPAttr d = .ok (a, n)) : 0 < n ∧ n ≤ d.length := by
  unfold parseCPAttr at hp
  revert hp
  go_steps
  split
  · simp
  · go_steps
    intro hp
    simp at hp
    omega

theorem unmarshalCPAttrs_ne_fault (d : Bytes) : unmarshalCPAttrs d ≠ .fault := by
  fun_induction unmarshalCPAttrs d with
  | case1 => simp
  | case2 => simp
  | case3 d h0 h4 a n hp hn rest hrest ih => simp
  | case4 d h0 h4 a n hp hn hrest ih => simp
  | case5 d h0 h4 a n hp hn hrest ih => exact absurd hrest ih
  | case6 d h0 h4 a n hp hn => exact absurd (parseCPAttr_len d (by omega) a n hp) hn
  | case7 => simp
  | case8 d h0 h4 hp => exact absurd hp (parseCPAttr_ne_fault d (by omega))

theorem unmarshalCP_ne_fault (b : Bytes) : unmarshalCP b ≠ .fault := by
  unfold unmarshalCP
  split
  · simp
  · go_steps
    cases h : unmarshalCPAttrs (List.drop 4 b) with
    | ok l => simp
    | err => simp
    | fault => exact absurd h (unmarshalCPAttrs_ne_fault _)

/-! ### Traffic selectors -/

theorem parseTSel_ne_fault (b : Bytes) (h : 4 ≤ b.length) : parseTSel b ≠ .fault := by
  unfold parseTSel
  go_steps
  split
  · go_steps
    split
    · simp
    · split
      · simp
      · rename_i h1 h2
        simp at h1
        have : (16 : UInt16).toNat = 16 := rfl
        rw [h1] at h2
        go_steps; simp
  · split
    · go_steps
      split
      · simp
      · split
        · simp
        · rename_i h1 h2
          simp at h1
          have : (40 : UInt16).toNat = 40 := rfl
          rw [h1] at h2
          go_steps; simp
    · simp

theorem parseTSel_len (b : Bytes) (h : 4 ≤ b.length) (t : TSel) (k : Nat)
    (hp : parseTSel b = .ok (t, k)) : k ≤ b.length := by
  unfold parseTSel at hp
  revert hp
  go_steps
  split
  · go_steps
    split
    · simp
    · split
      · simp
      · rename_i h1 h2
        simp at h1
        have : (16 : UInt16).toNat = 16 := rfl
        rw [h1] at h2
        go_steps
        intro hp; simp at hp; omega
  · split
    · go_steps
      split
      · simp
      · split
        · simp
        · rename_i h1 h2
          simp at h1
          have : (40 : UInt16).toNat = 40 := rfl
          rw [h1] at h2
          go_steps
          intro hp; simp at hp; omega
    · simp

theorem unmarshalTSels_ne_fault (n : Nat) (b : Bytes) : unmarshalTSels n b ≠ .fault := by
  induction n generalizing b with
  | zero => simp [unmarshalTSels]
  | succ n ih =>
    unfold unmarshalTSels
    split
    · simp
    · rename_i h4
      cases hp : parseTSel b with
      | ok tk =>
        obtain ⟨t, k⟩ := tk
        simp only
        have hk := parseTSel_len b (by omega) t k hp
        simp only [hk, if_true]
        cases hr : unmarshalTSels n (List.drop k b) with
        | ok rest => simp
        | err => simp
        | fault => exact absurd hr (ih _)
      | err => simp
      | fault => exact absurd hp (parseTSel_ne_fault b (by omega))

theorem unmarshalTS_ne_fault (mk : List TSel → Payload) (b : Bytes) : unmarshalTS mk b ≠ .fault := by
  unfold unmarshalTS
  split
  · simp
  · split
    · simp
    · go_steps
      cases h : unmarshalTSels (byteAt b 0).toNat (List.drop 4 b) with
      | ok l => simp
      | err => simp
      | fault => exact absurd h (unmarshalTSels_ne_fault _ _)

/-! ### Security Association -/


theorem u16_lt_toNat {a b : UInt16} (h : ¬ a < b) : b.toNat ≤ a.toNat := by
  simp only [UInt16.lt_iff_toNat_lt] at h; omega

theorem u16_gt_toNat {a b : UInt16} (h : a > b) : b.toNat < a.toNat := by
  simp only [gt_iff_lt, UInt16.lt_iff_toNat_lt] at h; omega

theorem parseTransform_ne_fault (td : Bytes) (h : 8 ≤ td.length) : parseTransform td ≠ .fault := by
  unfold parseTransform
  go_steps
  split
  · simp
  · rename_i h8
    have h8' := u16_lt_toNat h8
    have e8 : (8 : UInt16).toNat = 8 := rfl
    split
    · simp
    · rename_i hl
      go_steps
      split
      · rename_i hgt
        split
        · simp
        · rename_i h12
          have h12' := u16_lt_toNat h12
          have e12 : (12 : UInt16).toNat = 12 := rfl
          go_steps
          split
          · go_steps
            split
            · simp
            · go_steps; simp
          · go_steps; simp
      · simp



theorem parseTransform_len (td : Bytes) (h : 8 ≤ td.length) (t : Transform) (n : Nat)
    (hp : parseTransform td = .ok (t, n)) : 0 < n ∧ n ≤ td.length := by
  unfold parseTransform at hp
  revert hp
  go_steps
  split
  · simp
  · rename_i h8
    have h8' := u16_lt_toNat h8
    have e8 : (8 : UInt16).toNat = 8 := rfl
    split
    · simp
    · rename_i hl
      go_steps
      split
      · split
        · simp
        · rename_i h12
          have h12' := u16_lt_toNat h12
          have e12 : (12 : UInt16).toNat = 12 := rfl
          go_steps
          split
          · go_steps
            split
            · simp
            · go_steps; intro hp; simp at hp; omega
          · go_steps; intro hp; simp at hp; omega
      · intro hp; simp at hp; omega

theorem unmarshalTransforms_ne_fault (td : Bytes) (p : Proposal) : unmarshalTransforms td p ≠ .fault := by
  fun_induction unmarshalTransforms td p with
  | case1 => simp
  | case2 => simp
  | case3 td p h0 h8 t n hp hn ih => exact ih
  | case4 td p h0 h8 t n hp hn => exact absurd (parseTransform_len td (by omega) t n hp) hn
  | case5 => simp
  | case6 td p h0 h8 hp => exact absurd hp (parseTransform_ne_fault td (by omega))

theorem parseProposal_ne_fault (b : Bytes) (h : 8 ≤ b.length) : parseProposal b ≠ .fault := by
  unfold parseProposal
  go_steps
  split
  · simp
  · rename_i h8
    have h8' := u16_lt_toNat h8
    have e8 : (8 : UInt16).toNat = 8 := rfl
    split
    · simp
    · rename_i hl
      go_steps
      split
      · rename_i hs
        split
        · simp
        · rename_i hspi
          go_steps
          cases hu : unmarshalTransforms _ _ with
          | ok p => simp
          | err => simp
          | fault => exact absurd hu (unmarshalTransforms_ne_fault _ _)
      · rename_i hs
        have : (byteAt b 6).toNat = 0 := by omega
        simp only [this, Nat.add_zero]
        go_steps
        cases hu : unmarshalTransforms _ _ with
        | ok p => simp
        | err => simp
        | fault => exact absurd hu (unmarshalTransforms_ne_fault _ _)

theorem parseProposal_len (b : Bytes) (h : 8 ≤ b.length) (p : Proposal) (n : Nat)
    (hp : parseProposal b = .ok (p, n)) : 0 < n ∧ n ≤ b.length := by
  unfold parseProposal at hp
  revert hp
  go_steps
  split
  · simp
  · rename_i h8
    have h8' := u16_lt_toNat h8
    have e8 : (8 : UInt16).toNat = 8 := rfl
    split
    · simp
    · rename_i hl
      go_steps
      split
      · rename_i hs
        split
        · simp
        · rename_i hspi
          go_steps
          cases hu : unmarshalTransforms _ _ with
          | ok p => simp; intro _ hn; omega
          | err => simp
          | fault => simp
      · rename_i hs
        have : (byteAt b 6).toNat = 0 := by omega
        simp only [this, Nat.add_zero]
        go_steps
        cases hu : unmarshalTransforms _ _ with
        | ok p => simp; intro _ hn; omega
        | err => simp
        | fault => simp

theorem unmarshalProposals_ne_fault (b : Bytes) : unmarshalProposals b ≠ .fault := by
  fun_induction unmarshalProposals b with
  | case1 => simp
  | case2 => simp
  | case3 b h0 h8 p n hp hn rest hrest ih => simp
  | case4 b h0 h8 p n hp hn hrest ih => simp
  | case5 b h0 h8 p n hp hn hrest ih => exact absurd hrest ih
  | case6 b h0 h8 p n hp hn => exact absurd (parseProposal_len b (by omega) p n hp) hn
  | case7 => simp
  | case8 b h0 h8 hp => exact absurd hp (parseProposal_ne_fault b (by omega))

theorem unmarshalSA_ne_fault (b : Bytes) : unmarshalSA b ≠ .fault := by
  unfold unmarshalSA
  cases h : unmarshalProposals b with
  | ok l => simp
  | err => simp
  | fault => exact absurd h (unmarshalProposals_ne_fault _)


/-! ### EAP -/


theorem unmarshalSimple_ne_fault (code : UInt8) (mk : Bytes → EapData) (b : Bytes) :
    unmarshalSimple code mk b ≠ .fault := by
  unfold unmarshalSimple
  split
  · go_steps
    split
    · simp
    · go_steps; simp
  · simp

theorem unmarshalExpanded_ne_fault (b : Bytes) : unmarshalExpanded b ≠ .fault := by
  unfold unmarshalExpanded
  split
  · simp
  · split
    · simp
    · go_steps
      split
      · go_steps; simp
      · simp

theorem readN_len {r : Bytes} {n : Nat} {a b : Bytes} (h : readN r n = some (a, b)) :
    n ≤ r.length ∧ b = r.drop n ∧ a = r.take n := by
  unfold readN at h
  split at h
  · simp at h; obtain ⟨h1, h2⟩ := h; exact ⟨by assumption, h2.symm, h1.symm⟩
  · simp at h

theorem parseAkaBody_ne_fault (t len : UInt8) (r : Bytes) : parseAkaBody t len r ≠ .fault := by
  unfold parseAkaBody
  repeat (first | split | simp)

theorem parseAkaBody_len (t len : UInt8) (r : Bytes) (a : AkaAttr) (n : Nat)
    (hp : parseAkaBody t len r = .ok (a, n)) : n ≤ r.length := by
  unfold parseAkaBody at hp
  split at hp
  · split at hp
    · simp at hp
    · split at hp
      · simp at hp
      · rename_i rs r1 h1
        split at hp
        · simp at hp
        · rename_i v r2 h2
          have l1 := readN_len h1
          have l2 := readN_len h2
          simp at hp
          obtain ⟨_, rfl⟩ := hp
          obtain ⟨a1, a2, _⟩ := l1
          obtain ⟨b1, _, _⟩ := l2
          subst a2
          simp at b1
          omega
  · split at hp
    · split at hp
      · simp at hp
      · rename_i rs r1 h1
        have l1 := readN_len h1
        obtain ⟨a1, a2, _⟩ := l1
        subst a2
        simp only at hp
        split at hp
        · simp at hp
        · split at hp
          · simp at hp
          · rename_i v r2 h2
            have l2 := readN_len h2
            obtain ⟨b1, b2, _⟩ := l2
            subst b2
            simp at b1
            split at hp
            · split at hp
              · simp at hp
              · rename_i x h3
                obtain ⟨c1, _, _⟩ := readN_len h3
                simp at c1
                simp at hp
                obtain ⟨_, rfl⟩ := hp
                omega
            · simp at hp
              obtain ⟨_, rfl⟩ := hp
              omega
    · split at hp
      · dsimp only at hp
        split at hp
        · simp at hp
        · rename_i v r1 h1
          obtain ⟨a1, _, _⟩ := readN_len h1
          simp at hp
          obtain ⟨_, rfl⟩ := hp
          omega
      · split at hp
        · simp at hp
        · split at hp
          · simp at hp
          · rename_i rs r1 h1
            obtain ⟨a1, a2, _⟩ := readN_len h1
            subst a2
            dsimp only at hp
            split at hp
            · simp at hp
            · rename_i v r2 h2
              obtain ⟨b1, _, _⟩ := readN_len h2
              simp at b1
              simp at hp
              obtain ⟨_, rfl⟩ := hp
              omega

theorem unmarshalAkaAttrs_ne_fault (r : Bytes) (acc : List AkaAttr) : unmarshalAkaAttrs r acc ≠ .fault := by
  fun_induction unmarshalAkaAttrs r acc with
  | case1 => simp
  | case2 => simp
  | case3 acc t len body a n hp hn ih => exact ih
  | case4 acc t len body a n hp hn => exact absurd (parseAkaBody_len t len body a n hp) hn
  | case5 => simp
  | case6 acc t len body hp => exact absurd hp (parseAkaBody_ne_fault t len body)

theorem unmarshalAka_ne_fault (raw : Bytes) : unmarshalAka raw ≠ .fault := by
  unfold unmarshalAka
  split
  · simp
  · go_steps
    split
    · simp
    · go_steps
      cases h : unmarshalAkaAttrs _ _ with
      | ok l => simp
      | err => simp
      | fault => exact absurd h (unmarshalAkaAttrs_ne_fault _ _)


/-! ### EAP packet, header, payload chain, message -/


theorem unmarshalEap_ne_fault (b : Bytes) : unmarshalEap b ≠ .fault := by
  unfold unmarshalEap
  split
  · simp
  · split
    · simp
    · go_steps
      split
      · simp
      · split
        · simp
        · rename_i h0 h4 hpl hlen
          have hlen' : b.length = (be16 (byteAt b 2) (byteAt b 3)).toNat := by omega
          go_steps
          split
          · simp
          · rename_i hne4
            have h4' := u16_lt_toNat hpl
            have e4 : (4 : UInt16).toNat = 4 := rfl
            have : (be16 (byteAt b 2) (byteAt b 3)).toNat ≠ 4 := by
              intro hc
              apply hne4
              have : be16 (byteAt b 2) (byteAt b 3) = 4 := UInt16.toNat_inj.mp (by rw [hc]; rfl)
              simp [this]
            go_steps
            split
            · cases h : unmarshalSimple _ _ _ with
              | ok d => simp
              | err => simp
              | fault => exact absurd h (unmarshalSimple_ne_fault _ _ _)
            · split
              · cases h : unmarshalSimple _ _ _ with
                | ok d => simp
                | err => simp
                | fault => exact absurd h (unmarshalSimple_ne_fault _ _ _)
              · split
                · cases h : unmarshalSimple _ _ _ with
                  | ok d => simp
                  | err => simp
                  | fault => exact absurd h (unmarshalSimple_ne_fault _ _ _)
                · split
                  · cases h : unmarshalAka _ with
                    | ok d => simp
                    | err => simp
                    | fault => exact absurd h (unmarshalAka_ne_fault _)
                  · split
                    · cases h : unmarshalExpanded _ with
                      | ok d => simp
                      | err => simp
                      | fault => exact absurd h (unmarshalExpanded_ne_fault _)
                    · simp

theorem parseHeader_ne_fault (b : Bytes) : parseHeader b ≠ .fault := by
  unfold parseHeader
  have e : Facts.ikeHeaderLen = 28 := rfl
  rw [e]
  split
  · simp
  · go_steps
    split
    · simp
    · go_steps; simp

/-- peel one `if c then a else b` at the head of the goal -/
macro "peel_if" t:tactic : tactic => `(tactic| (
  first
  | (rw [if_pos (by assumption)]; $t)
  | skip))

theorem unmarshalPayload_ne_fault (t n : UInt8) (b : Bytes) : unmarshalPayload t n b ≠ .fault := by
  unfold unmarshalPayload
  by_cases h1 : (t == Facts.typeSA) = true
  · rw [if_pos h1]; exact unmarshalSA_ne_fault _
  rw [if_neg h1]
  by_cases h2 : (t == Facts.typeKE) = true
  · rw [if_pos h2]; exact unmarshalKE_ne_fault _
  rw [if_neg h2]
  by_cases h3 : (t == Facts.typeIDi) = true
  · rw [if_pos h3]; exact unmarshalT4_ne_fault _ _
  rw [if_neg h3]
  by_cases h4 : (t == Facts.typeIDr) = true
  · rw [if_pos h4]; exact unmarshalT4_ne_fault _ _
  rw [if_neg h4]
  by_cases h5 : (t == Facts.typeCERT) = true
  · rw [if_pos h5]; exact unmarshalT1_ne_fault _ _
  rw [if_neg h5]
  by_cases h6 : (t == Facts.typeCERTreq) = true
  · rw [if_pos h6]; exact unmarshalT1_ne_fault _ _
  rw [if_neg h6]
  by_cases h7 : (t == Facts.typeAUTH) = true
  · rw [if_pos h7]; exact unmarshalT4_ne_fault _ _
  rw [if_neg h7]
  by_cases h8 : (t == Facts.typeNiNr) = true
  · rw [if_pos h8]; intro h; cases h
  rw [if_neg h8]
  by_cases h9 : (t == Facts.typeN) = true
  · rw [if_pos h9]; exact unmarshalNotify_ne_fault _
  rw [if_neg h9]
  by_cases h10 : (t == Facts.typeD) = true
  · rw [if_pos h10]; exact unmarshalDelete_ne_fault _
  rw [if_neg h10]
  by_cases h11 : (t == Facts.typeV) = true
  · rw [if_pos h11]; intro h; cases h
  rw [if_neg h11]
  by_cases h12 : (t == Facts.typeTSi) = true
  · rw [if_pos h12]; exact unmarshalTS_ne_fault _ _
  rw [if_neg h12]
  by_cases h13 : (t == Facts.typeTSr) = true
  · rw [if_pos h13]; exact unmarshalTS_ne_fault _ _
  rw [if_neg h13]
  by_cases h14 : (t == Facts.typeSK) = true
  · rw [if_pos h14]; intro h; cases h
  rw [if_neg h14]
  by_cases h15 : (t == Facts.typeCP) = true
  · rw [if_pos h15]; exact unmarshalCP_ne_fault _
  rw [if_neg h15]
  by_cases h16 : (t == Facts.typeEAP) = true
  · rw [if_pos h16]
    cases h : unmarshalEap b with
    | ok e => simp
    | err => simp
    | fault => exact absurd h (unmarshalEap_ne_fault _)
  rw [if_neg h16]
  intro h; cases h

theorem chainStep_ne_fault (t : UInt8) (b : Bytes) : chainStep t b ≠ .fault := by
  unfold chainStep
  split
  · simp
  · go_steps
    split
    · simp
    · rename_i h4
      have h4' := u16_lt_toNat h4
      have e4 : (4 : UInt16).toNat = 4 := rfl
      split
      · simp
      · go_steps
        split
        · split
          · simp
          · go_steps
            cases h : unmarshalPayload _ _ _ with
            | ok p => simp
            | err => simp
            | fault => exact absurd h (unmarshalPayload_ne_fault _ _ _)
        · split <;> simp

theorem chainStep_len (t : UInt8) (b : Bytes) (op : Option Payload) (nx : UInt8) (n : Nat)
    (hp : chainStep t b = .ok (op, nx, n)) : 0 < n ∧ n ≤ b.length := by
  unfold chainStep at hp
  revert hp
  split
  · simp
  · go_steps
    split
    · simp
    · rename_i h4
      have h4' := u16_lt_toNat h4
      have e4 : (4 : UInt16).toNat = 4 := rfl
      split
      · simp
      · go_steps
        split
        · split
          · simp
          · go_steps
            cases h : unmarshalPayload _ _ _ with
            | ok p => simp; intro _ _ hn; omega
            | err => simp
            | fault => simp
        · split
          · simp; intro _ _ hn; omega
          · simp

theorem decodeChain_ne_fault (t : UInt8) (b : Bytes) : decodeChain t b ≠ .fault := by
  fun_induction decodeChain t b with
  | case1 => simp
  | case2 t b h0 op nx n hp hn rest hrest ih => simp
  | case3 t b h0 op nx n hp hn hrest ih => simp
  | case4 t b h0 op nx n hp hn hrest ih => exact absurd hrest ih
  | case5 t b h0 op nx n hp hn => exact absurd (chainStep_len t b op nx n hp) hn
  | case6 => simp
  | case7 t b h0 hp => exact absurd hp (chainStep_ne_fault t b)

theorem decodeMsg_ne_fault (b : Bytes) : decodeMsg b ≠ .fault := by
  unfold decodeMsg
  cases h : parseHeader b with
  | ok hd =>
    simp only [Res.bind_ok]
    cases h2 : decodeChain hd.next hd.payloadBytes with
    | ok ps => simp
    | err => simp
    | fault => exact absurd h2 (decodeChain_ne_fault _ _)
  | err => simp
  | fault => exact absurd h (parseHeader_ne_fault _)


/-! ### CBC -/


theorem xorBytes_length (a b : Bytes) : (xorBytes a b).length = min a.length b.length := by
  induction a generalizing b with
  | nil => simp [xorBytes]
  | cons x xs ih =>
    cases b with
    | nil => simp [xorBytes]
    | cons y ys => simp [xorBytes, ih]

theorem cbcDec_length (D : Bytes → Bytes) (hD : ∀ b, b.length = 16 → (D b).length = 16)
    (prev ct : Bytes) (hp : prev.length = 16) (hc : ct.length % 16 = 0) :
    (cbcDec D prev ct).length = ct.length := by
  fun_induction cbcDec D prev ct with
  | case1 prev ct h => simp; omega
  | case2 prev ct h c ih =>
    have hc16 : c.length = 16 := by simp [c]; omega
    rw [List.length_append, xorBytes_length, hD c hc16, ih hc16 (by simp; omega)]
    simp; omega

theorem cbcEnc_length (E : Bytes → Bytes) (hE : ∀ b, b.length = 16 → (E b).length = 16)
    (prev pt : Bytes) (hp : prev.length = 16) (hc : pt.length % 16 = 0) :
    (cbcEnc E prev pt).length = pt.length := by
  fun_induction cbcEnc E prev pt with
  | case1 prev pt h => simp; omega
  | case2 prev pt h c ih =>
    have hx : (xorBytes (List.take 16 pt) prev).length = 16 := by rw [xorBytes_length]; simp; omega
    have hc16 : c.length = 16 := by simp only [c]; exact hE _ hx
    rw [List.length_append, hc16, ih hc16 (by simp; omega)]
    simp; omega

theorem cbcDecrypt_ne_fault (P : Prims) (hP : P.Lawful) (c : CipherObj) (ct : Bytes) :
    cbcDecrypt P c ct ≠ .fault := by
  unfold cbcDecrypt
  split
  · simp
  · go_steps
    split
    · simp
    · rename_i h16 hem
      simp at hem
      have hl : (cbcDec (P.dec c.key) (List.take 16 ct) (List.drop 16 ct)).length = (List.drop 16 ct).length :=
        cbcDec_length _ (hP.dec_len c.key) _ _ (by simp; omega) (by simp; omega)
      have hpos : 0 < (List.drop 16 ct).length := by simp; omega
      go_steps
      split
      · simp
      · go_steps; simp




/-- an SK payload decoded from type `t` is exactly the body it was given -/
theorem unmarshalPayload_sk (t nx : UInt8) (body : Bytes) (n : UInt8) (d : Bytes)
    (h : unmarshalPayload t nx body = .ok (.sk n d)) : d = body := by
  unfold unmarshalPayload at h
  by_cases h1 : (t == Facts.typeSA) = true
  · rw [if_pos h1] at h; unfold unmarshalSA at h
    cases hh : unmarshalProposals body <;> simp [hh] at h
  rw [if_neg h1] at h
  by_cases h2 : (t == Facts.typeKE) = true
  · rw [if_pos h2] at h; unfold unmarshalKE at h
    split at h
    · simp at h
    · revert h; go_steps; simp
  rw [if_neg h2] at h
  by_cases h3 : (t == Facts.typeIDi) = true
  · rw [if_pos h3] at h; unfold unmarshalT4 at h
    split at h
    · simp at h
    · revert h; go_steps; simp
  rw [if_neg h3] at h
  by_cases h4 : (t == Facts.typeIDr) = true
  · rw [if_pos h4] at h; unfold unmarshalT4 at h
    split at h
    · simp at h
    · revert h; go_steps; simp
  rw [if_neg h4] at h
  by_cases h5 : (t == Facts.typeCERT) = true
  · rw [if_pos h5] at h; unfold unmarshalT1 at h
    split at h
    · simp at h
    · revert h; go_steps; simp
  rw [if_neg h5] at h
  by_cases h6 : (t == Facts.typeCERTreq) = true
  · rw [if_pos h6] at h; unfold unmarshalT1 at h
    split at h
    · simp at h
    · revert h; go_steps; simp
  rw [if_neg h6] at h
  by_cases h7 : (t == Facts.typeAUTH) = true
  · rw [if_pos h7] at h; unfold unmarshalT4 at h
    split at h
    · simp at h
    · revert h; go_steps; simp
  rw [if_neg h7] at h
  by_cases h8 : (t == Facts.typeNiNr) = true
  · rw [if_pos h8] at h; simp at h
  rw [if_neg h8] at h
  by_cases h9 : (t == Facts.typeN) = true
  · rw [if_pos h9] at h; unfold unmarshalNotify at h
    split at h
    · simp at h
    · split at h
      · simp at h
      · revert h; go_steps
        split
        · simp
        · go_steps; simp
  rw [if_neg h9] at h
  by_cases h10 : (t == Facts.typeD) = true
  · rw [if_pos h10] at h; unfold unmarshalDelete at h
    split at h
    · simp at h
    · split at h
      · simp at h
      · revert h; go_steps
        split
        · simp
        · split
          · simp
          · go_steps
            cases hd : deleteSPIs _ _ <;> simp
  rw [if_neg h10] at h
  by_cases h11 : (t == Facts.typeV) = true
  · rw [if_pos h11] at h; simp at h
  rw [if_neg h11] at h
  by_cases h12 : (t == Facts.typeTSi) = true
  · rw [if_pos h12] at h; unfold unmarshalTS at h
    split at h
    · simp at h
    · split at h
      · simp at h
      · revert h; go_steps
        cases hh : unmarshalTSels _ _ <;> simp
  rw [if_neg h12] at h
  by_cases h13 : (t == Facts.typeTSr) = true
  · rw [if_pos h13] at h; unfold unmarshalTS at h
    split at h
    · simp at h
    · split at h
      · simp at h
      · revert h; go_steps
        cases hh : unmarshalTSels _ _ <;> simp
  rw [if_neg h13] at h
  by_cases h14 : (t == Facts.typeSK) = true
  · rw [if_pos h14] at h; simp at h; exact h.2.symm
  rw [if_neg h14] at h
  by_cases h15 : (t == Facts.typeCP) = true
  · rw [if_pos h15] at h; unfold unmarshalCP at h
    split at h
    · simp at h
    · revert h; go_steps
      cases hh : unmarshalCPAttrs _ <;> simp
  rw [if_neg h15] at h
  by_cases h16 : (t == Facts.typeEAP) = true
  · rw [if_pos h16] at h
    cases hh : unmarshalEap body <;> simp [hh] at h
  rw [if_neg h16] at h
  simp at h




theorem chainStep_sk_len (t : UInt8) (b : Bytes) (k : UInt8) (d : Bytes) (nx : UInt8) (n : Nat)
    (hp : chainStep t b = .ok (some (.sk k d), nx, n)) : d.length + 4 ≤ n ∧ n ≤ b.length := by
  unfold chainStep at hp
  revert hp
  split
  · simp
  · go_steps
    split
    · simp
    · rename_i h4
      have h4' := u16_lt_toNat h4
      have e4 : (4 : UInt16).toNat = 4 := rfl
      split
      · simp
      · go_steps
        split
        · split
          · simp
          · go_steps
            cases h : unmarshalPayload _ _ _ with
            | ok p =>
              simp
              intro hp _ hn
              subst hp
              have := unmarshalPayload_sk _ _ _ _ _ h
              subst this
              simp
              omega
            | err => simp
            | fault => simp
        · split
          · simp
          · simp

theorem decodeChain_sk_len (t : UInt8) (b : Bytes) (ps : List Payload) (h : decodeChain t b = .ok ps) :
    ∀ k d, Payload.sk k d ∈ ps → d.length + 4 ≤ b.length := by
  fun_induction decodeChain t b generalizing ps with
  | case1 => simp at h; subst h; simp
  | case2 t b h0 op nx n hp hn rest hrest ih =>
    simp at h
    subst h
    intro k d hm
    have ihr := ih rest hrest
    cases op with
    | none =>
      simp at hm
      have := ihr k d hm
      simp at this
      omega
    | some p =>
      simp at hm
      cases hm with
      | inl hp' =>
        subst hp'
        have := chainStep_sk_len _ _ _ _ _ _ hp
        omega
      | inr hm =>
        have := ihr k d hm
        simp at this
        omega
  | case3 => simp at h
  | case4 => simp at h
  | case5 => simp at h
  | case6 => simp at h
  | case7 => simp at h


/-! ### unprotect -/


/-- the SA's checksum length does not exceed the digest length of its integrity objects -/
def SAKey.WF (P : Prims) (sa : SAKey) : Prop :=
  sa.integInfo.outLen ≤ P.macLen sa.integ_i.alg ∧ sa.integInfo.outLen ≤ P.macLen sa.integ_r.alg

theorem lastSK_ne_fault (ps : List Payload) (acc) : lastSK ps acc ≠ .fault := by
  induction ps generalizing acc with
  | nil => simp [lastSK]
  | cons p rest ih => cases p <;> simp [lastSK, ih]

theorem lastSK_some (ps : List Payload) (x) : lastSK ps (some x) ≠ .ok none := by
  induction ps generalizing x with
  | nil => simp [lastSK]
  | cons p rest ih => cases p <;> simp [lastSK, ih]

theorem lastSK_mem (ps : List Payload) (acc) (n : UInt8) (d : Bytes) (h : lastSK ps acc = .ok (some (n, d))) :
    Payload.sk n d ∈ ps ∨ acc = some (n, d) := by
  induction ps generalizing acc with
  | nil => simp [lastSK] at h; exact Or.inr h
  | cons p rest ih =>
    cases p <;> simp [lastSK] at h
    rename_i k e
    cases ih _ h with
    | inl hm => exact Or.inl (List.mem_cons_of_mem _ hm)
    | inr he => simp at he; obtain ⟨rfl, rfl⟩ := he; exact Or.inl (List.mem_cons_self)

theorem calcIntegrity_ne_fault (P : Prims) (hP : P.Lawful) (sa : SAKey) (hw : sa.WF P) (role : Bool) (data : Bytes) :
    (calcIntegrity P sa role data).2 ≠ .fault := by
  unfold calcIntegrity
  obtain ⟨w1, w2⟩ := hw
  cases role
  · simp only [Bool.false_eq_true, if_false]
    rw [goTo_ok]; · simp
    simp [HashObj.sum, HashObj.write, HashObj.reset, hP.mac_len]; exact w2
  · simp only [if_true]
    rw [goTo_ok]; · simp
    simp [HashObj.sum, HashObj.write, HashObj.reset, hP.mac_len]; exact w1

theorem calcIntegrity_WF (P : Prims) (sa : SAKey) (hw : sa.WF P) (role : Bool) (data : Bytes) :
    (calcIntegrity P sa role data).1.WF P := by
  unfold calcIntegrity
  cases role <;> simp [SAKey.WF, HashObj.write, HashObj.reset] <;> exact hw

theorem decryptPayload_ne_fault (P : Prims) (hP : P.Lawful) (sa : SAKey) (role : Bool) (ct : Bytes) :
    decryptPayload P sa role ct ≠ .fault := by
  unfold decryptPayload
  split <;> exact cbcDecrypt_ne_fault P hP _ _

theorem decryptMsg_ne_fault (P : Prims) (hP : P.Lawful) (sa : SAKey) (hw : sa.WF P) (role : Bool)
    (msg : Bytes) (m : Msg) (hne : m.payloads ≠ [])
    (hlen : ∀ k d, Payload.sk k d ∈ m.payloads → d.length + 4 ≤ msg.length) :
    (decryptMsg P sa role msg m).2.2 ≠ .fault := by
  unfold decryptMsg
  cases hl : lastSK m.payloads none with
  | err => simp
  | fault => exact absurd hl (lastSK_ne_fault _ _)
  | ok o =>
    cases o with
    | none =>
      exfalso
      cases hps : m.payloads with
      | nil => exact hne hps
      | cons p rest =>
        rw [hps] at hl
        cases p <;> simp [lastSK] at hl
        exact lastSK_some _ _ hl
    | some x =>
      obtain ⟨next, encData⟩ := x
      simp only
      split
      · simp
      · rename_i hcl
        have hmem : Payload.sk next encData ∈ m.payloads := by
          cases lastSK_mem _ _ _ _ hl with
          | inl h => exact h
          | inr h => simp at h
        have := hlen _ _ hmem
        split
        · omega
        · have hci := calcIntegrity_ne_fault P hP sa hw (!role) (List.take (msg.length - sa.integInfo.outLen) msg)
          cases hc : calcIntegrity P sa (!role) (List.take (msg.length - sa.integInfo.outLen) msg) with
          | mk sa1 r =>
            rw [hc] at hci
            cases r with
            | err => simp
            | fault => simp at hci
            | ok expect =>
              simp only
              split
              · simp
              · cases hd : decryptPayload P sa1 role _ with
                | err => simp
                | fault => exact absurd hd (decryptPayload_ne_fault P hP _ _ _)
                | ok plain =>
                  simp only
                  cases hch : decodeChain next plain with
                  | err => simp
                  | fault => exact absurd hch (decodeChain_ne_fault _ _)
                  | ok ps => simp




theorem parseHeader_payloadBytes (b : Bytes) (h : Header) (hp : parseHeader b = .ok h) :
    h.payloadBytes = b.drop 28 ∧ 28 ≤ b.length := by
  unfold parseHeader at hp
  have e : Facts.ikeHeaderLen = 28 := rfl
  rw [e] at hp
  revert hp
  split
  · simp
  · go_steps
    split
    · simp
    · go_steps
      intro hp
      simp at hp
      subst hp
      simp; omega

/-- common tail of `unprotect` once the message has been decoded -/
theorem unprotect_tail_ne_fault (P : Prims) (hP : P.Lawful) (sa : Option SAKey) (hw : ∀ k, sa = some k → k.WF P)
    (role : Bool) (msg : Bytes) (m : Msg)
    (hlen : ∀ k d, Payload.sk k d ∈ m.payloads → d.length + 4 ≤ msg.length) :
    (match m.payloads with
      | [] => if m.hdr.next == Facts.typeSK then (sa, 0, (.err : Res Msg)) else (sa, 0, .ok m)
      | p :: _ =>
        if p.typeCode == Facts.typeSK then
          match sa with
          | none => (none, 0, .err)
          | some k =>
            let (k', n, r) := decryptMsg P k role msg m
            (some k', n, r)
        else (sa, 0, .ok m)).2.2 ≠ .fault := by
  cases hps : m.payloads with
  | nil => simp only; split <;> simp
  | cons p rest =>
    simp only
    split
    · cases sa with
      | none => simp
      | some k =>
        simp only
        have := decryptMsg_ne_fault P hP k (hw k rfl) role msg m (by rw [hps]; simp) hlen
        exact this
    · simp

theorem unprotect_none_ne_fault (P : Prims) (hP : P.Lawful) (sa : Option SAKey) (hw : ∀ k, sa = some k → k.WF P)
    (role : Bool) (msg : Bytes) : (unprotect P sa role none msg).2.2 ≠ .fault := by
  unfold unprotect
  simp only
  cases hd : decodeMsg msg with
  | err => simp
  | fault => exact absurd hd (decodeMsg_ne_fault _)
  | ok m =>
    simp only
    apply unprotect_tail_ne_fault P hP sa hw role msg m
    intro k d hm
    unfold decodeMsg at hd
    cases hh : parseHeader msg with
    | err => simp [hh] at hd
    | fault => simp [hh] at hd
    | ok h =>
      simp [hh] at hd
      cases hc : decodeChain h.next h.payloadBytes with
      | err => simp [hc] at hd
      | fault => simp [hc] at hd
      | ok ps =>
        simp [hc] at hd
        subst hd
        have := decodeChain_sk_len _ _ _ hc k d hm
        obtain ⟨e1, e2⟩ := parseHeader_payloadBytes _ _ hh
        rw [e1] at this
        simp at this
        omega

theorem unprotect_hdr_ne_fault (P : Prims) (hP : P.Lawful) (sa : Option SAKey) (hw : ∀ k, sa = some k → k.WF P)
    (role : Bool) (msg : Bytes) (h : Header) (hh : parseHeader msg = .ok h) :
    (unprotect P sa role (some h) msg).2.2 ≠ .fault := by
  unfold unprotect
  simp only
  obtain ⟨e1, e2⟩ := parseHeader_payloadBytes _ _ hh
  have e : Facts.ikeHeaderLen = 28 := rfl
  rw [e]
  rw [goFrom_ok (by omega)]
  simp only [Res.bind_ok]
  cases hc : decodeChain h.next (List.drop 28 msg) with
  | err => simp
  | fault => exact absurd hc (decodeChain_ne_fault _ _)
  | ok ps =>
    simp only [Res.bind_ok]
    apply unprotect_tail_ne_fault P hP sa hw role msg ⟨h, ps⟩
    intro k d hm
    have := decodeChain_sk_len _ _ _ hc k d hm
    simp at this
    omega


end Ike
