import IkeModel.Crypto.Prims

/-! # The executable primitives are lawful: `Prims.real.Lawful`

`Prims.Lawful` (IkeModel/Crypto/Prims.lean) is what every property theorem assumes about the
cryptographic primitives.  This file proves that the EXECUTABLE instance `Prims.real`
(HMAC over the MD5/SHA-1/SHA-256 models, and the AES block cipher model) satisfies those laws,
so that `P.Lawful` is not an extra assumption when the theorems are instantiated at `Prims.real`.

* `mac_len`: the digest functions serialise a fixed number of 32-bit words (4/5/8) to 4 octets each.
* `enc_len`, `dec_len`: every AES step builds its state with `Array.ofFn (n := 16)`.
* `dec_enc`: the FIPS-197 inverse argument.  `invSub ∘ sub = id` on every octet (a 256-entry table
  check); InvShiftRows undoes ShiftRows (a permutation of 16 positions, checked position by
  position); InvMixColumns undoes MixColumns (from the GF(2)-additivity of `xt` and cancellation in
  xor — no case enumeration over columns); AddRoundKey is an involution; and `decryptWith` applies the
  inverse steps with the round keys in reverse order (straightforward inverse cipher, FIPS 197 §5.3),
  which is related to `encryptWith` by induction over the rounds.  The argument holds for EVERY
  expanded key array and every number of rounds, so nothing about `expandKey` is needed; for key
  lengths other than 16/24/32 both functions return the block unchanged.

No model file is changed; all statements are about the original definitions. -/

namespace Ike

open Crypto

/-! ## Digest lengths and `mac_len` -/

/-- The SHA-256 model returns 32 octets for every input. -/
theorem Crypto.sha256_length (m : Bytes) : (sha256 m).length = 32 := by
  simp [sha256, Sha256.be]

/-- The SHA-1 model returns 20 octets for every input. -/
theorem Crypto.sha1_length (m : Bytes) : (sha1 m).length = 20 := by
  simp [sha1, Sha1.be]

/-- The MD5 model returns 16 octets for every input. -/
theorem Crypto.md5_length (m : Bytes) : (md5 m).length = 16 := by
  simp [md5, Md5.le]

/-- `hashDigest h` returns `hashLen h` octets for every hash number and every input. -/
theorem hashDigest_length (h : Nat) (m : Bytes) : (hashDigest h m).length = hashLen h := by
  match h with
  | 0 => exact md5_length _
  | 1 => exact sha1_length _
  | _ + 2 => exact sha256_length _

/-- HMAC over any hash returns exactly what the outer hash application returns, so its length is
    the digest length whenever the hash has a fixed output length. -/
theorem hmacWith_length (H : Bytes → Bytes) (n blockLen : Nat) (hH : ∀ m, (H m).length = n)
    (key msg : Bytes) : (hmacWith H blockLen key msg).length = n := by
  unfold hmacWith; exact hH _

/-- Law `mac_len` for the executable primitives: the HMAC output has the digest length
    (16/20/32 for md5/sha1/sha256) for every hash number, key and message. -/
theorem Prims.real_mac_len :
    ∀ h k m, (Prims.real.mac h k m).length = Prims.real.macLen h := by
  intro h k m
  exact hmacWith_length (hashDigest h) (hashLen h) 64 (hashDigest_length h) k m

example : (Prims.real.mac 2 [1, 2, 3] [4, 5]).length = 32 := Prims.real_mac_len 2 _ _

/-! ## AES: octet-level facts -/

namespace Crypto.Aes

/-- A predicate holds for every octet if it holds for the 256 values `0 … 255`. -/
theorem forall_uint8 {p : UInt8 → Prop} (h : ∀ n : Fin 256, p (UInt8.ofNat n.val)) (x : UInt8) :
    p x := by
  have := h ⟨x.toNat, x.toNat_lt⟩
  simpa using this

/-- InvSubBytes undoes SubBytes on every octet (check of the two 256-entry tables). -/
theorem invSub_sub (x : UInt8) : invSub (sub x) = x := by
  revert x; apply forall_uint8; decide +kernel

theorem xor_cancel (a b : UInt8) : a ^^^ (a ^^^ b) = b := by
  rw [← UInt8.xor_assoc, UInt8.xor_self, UInt8.zero_xor]

theorem xor_lcomm (a b c : UInt8) : a ^^^ (b ^^^ c) = b ^^^ (a ^^^ c) := by ac_rfl

/-- The reduction test of `xt` is the top bit of the octet. -/
theorem topbit_eq (x : UInt8) : (x &&& 0x80 != 0) = x.toNat.testBit 7 := by
  revert x; apply forall_uint8; decide +kernel

/-- `xt` (multiplication by `x` in GF(2^8)) is additive with respect to xor. -/
theorem xt_xor (a b : UInt8) : xt (a ^^^ b) = xt a ^^^ xt b := by
  unfold xt
  rw [topbit_eq, topbit_eq, topbit_eq, UInt8.toNat_xor, Nat.testBit_xor, UInt8.shiftLeft_xor]
  cases a.toNat.testBit 7 <;> cases b.toNat.testBit 7 <;>
    simp [UInt8.xor_assoc, UInt8.xor_comm, xor_lcomm]

/-- InvMixColumns ∘ MixColumns on one column `(a0,a1,a2,a3)`, for the row holding `a0` (the other
    rows are the same statement with the column rotated).  Follows from additivity of `xt` and
    cancellation in xor: `Σ b = Σ a`, `b0+b2 = xt(Σ a)+a0+a2`, `b0+b1 = xt a0 + xt a2 + a0 + a1`. -/
theorem invMix_mix_col (a0 a1 a2 a3 : UInt8) :
    xt (xt (xt ((xt a0 ^^^ xt a1 ^^^ a1 ^^^ a2 ^^^ a3) ^^^ (xt a1 ^^^ xt a2 ^^^ a2 ^^^ a3 ^^^ a0) ^^^
        (xt a2 ^^^ xt a3 ^^^ a3 ^^^ a0 ^^^ a1) ^^^ (xt a3 ^^^ xt a0 ^^^ a0 ^^^ a1 ^^^ a2)))) ^^^
      xt (xt ((xt a0 ^^^ xt a1 ^^^ a1 ^^^ a2 ^^^ a3) ^^^ (xt a2 ^^^ xt a3 ^^^ a3 ^^^ a0 ^^^ a1))) ^^^
      xt ((xt a0 ^^^ xt a1 ^^^ a1 ^^^ a2 ^^^ a3) ^^^ (xt a1 ^^^ xt a2 ^^^ a2 ^^^ a3 ^^^ a0)) ^^^
      (xt a1 ^^^ xt a2 ^^^ a2 ^^^ a3 ^^^ a0) ^^^ (xt a2 ^^^ xt a3 ^^^ a3 ^^^ a0 ^^^ a1) ^^^
      (xt a3 ^^^ xt a0 ^^^ a0 ^^^ a1 ^^^ a2) = a0 := by
  have hs : (xt a0 ^^^ xt a1 ^^^ a1 ^^^ a2 ^^^ a3) ^^^ (xt a1 ^^^ xt a2 ^^^ a2 ^^^ a3 ^^^ a0) ^^^
      (xt a2 ^^^ xt a3 ^^^ a3 ^^^ a0 ^^^ a1) ^^^ (xt a3 ^^^ xt a0 ^^^ a0 ^^^ a1 ^^^ a2)
      = a0 ^^^ a1 ^^^ a2 ^^^ a3 := by
    simp [UInt8.xor_assoc, UInt8.xor_comm, xor_lcomm, xor_cancel]
  have h02 : (xt a0 ^^^ xt a1 ^^^ a1 ^^^ a2 ^^^ a3) ^^^ (xt a2 ^^^ xt a3 ^^^ a3 ^^^ a0 ^^^ a1)
      = xt (a0 ^^^ a1 ^^^ a2 ^^^ a3) ^^^ a0 ^^^ a2 := by
    simp only [xt_xor]
    simp [UInt8.xor_assoc, UInt8.xor_comm, xor_lcomm, xor_cancel]
  have h01 : (xt a0 ^^^ xt a1 ^^^ a1 ^^^ a2 ^^^ a3) ^^^ (xt a1 ^^^ xt a2 ^^^ a2 ^^^ a3 ^^^ a0)
      = xt a0 ^^^ xt a2 ^^^ a1 ^^^ a0 := by
    simp [UInt8.xor_assoc, UInt8.xor_comm, xor_lcomm, xor_cancel]
  rw [hs, h02, h01]
  simp only [xt_xor]
  simp [UInt8.xor_assoc, UInt8.xor_comm, xor_lcomm, xor_cancel]

/-! ## AES: the 16-octet state -/

theorem getD_ofFn16 (f : Fin 16 → UInt8) (i : Nat) (h : i < 16) :
    (Array.ofFn f).getD i 0 = f ⟨i, h⟩ := by
  simp [Array.getD, h]

/-- Two 16-octet states are equal if they agree at the 16 positions. -/
theorem ext16 {a b : Array UInt8} (ha : a.size = 16) (hb : b.size = 16)
    (h : ∀ i, i < 16 → a.getD i 0 = b.getD i 0) : a = b := by
  apply Array.ext (by omega)
  intro i h1 h2
  have := h i (by omega)
  simpa [Array.getD, h1, h2] using this

theorem lt16_cases {p : Nat → Prop}
    (h : p 0 ∧ p 1 ∧ p 2 ∧ p 3 ∧ p 4 ∧ p 5 ∧ p 6 ∧ p 7 ∧ p 8 ∧ p 9 ∧ p 10 ∧ p 11 ∧ p 12 ∧ p 13 ∧
      p 14 ∧ p 15) : ∀ i, i < 16 → p i := by
  intro i hi
  obtain ⟨h0, h1, h2, h3, h4, h5, h6, h7, h8, h9, h10, h11, h12, h13, h14, h15⟩ := h
  have : i = 0 ∨ i = 1 ∨ i = 2 ∨ i = 3 ∨ i = 4 ∨ i = 5 ∨ i = 6 ∨ i = 7 ∨ i = 8 ∨ i = 9 ∨ i = 10 ∨
      i = 11 ∨ i = 12 ∨ i = 13 ∨ i = 14 ∨ i = 15 := by omega
  rcases this with rfl | rfl | rfl | rfl | rfl | rfl | rfl | rfl | rfl | rfl | rfl | rfl | rfl | rfl |
    rfl | rfl <;> assumption

theorem size_addRoundKey (rk r s) : (addRoundKey rk r s).size = 16 := by simp [addRoundKey]
theorem size_subShift (s) : (subShift s).size = 16 := by simp [subShift]
theorem size_invSubShift (s) : (invSubShift s).size = 16 := by simp [invSubShift]
theorem size_mixColumns (s) : (mixColumns s).size = 16 := by simp [mixColumns]
theorem size_invMixColumns (s) : (invMixColumns s).size = 16 := by simp [invMixColumns]

/-- AddRoundKey with the same round key is an involution on 16-octet states. -/
theorem addRoundKey_addRoundKey (rk : Array UInt8) (r : Nat) (s : Array UInt8) (hs : s.size = 16) :
    addRoundKey rk r (addRoundKey rk r s) = s := by
  apply ext16 (size_addRoundKey _ _ _) hs
  intro i hi
  unfold addRoundKey
  rw [getD_ofFn16 _ i hi]
  simp only []
  rw [getD_ofFn16 _ i hi, UInt8.xor_assoc, UInt8.xor_self, UInt8.xor_zero]

theorem getD_subShift (s : Array UInt8) (i : Nat) (h : i < 16) :
    (subShift s).getD i 0 = sub (s.getD (i % 4 + 4 * ((i / 4 + i % 4) % 4)) 0) := by
  unfold subShift; rw [getD_ofFn16 _ i h]

theorem getD_invSubShift (s : Array UInt8) (i : Nat) (h : i < 16) :
    (invSubShift s).getD i 0 = invSub (s.getD (i % 4 + 4 * ((i / 4 + 4 - i % 4) % 4)) 0) := by
  unfold invSubShift; rw [getD_ofFn16 _ i h]

/-- InvSubBytes∘InvShiftRows undoes SubBytes∘ShiftRows on 16-octet states. -/
theorem invSubShift_subShift (s : Array UInt8) (hs : s.size = 16) :
    invSubShift (subShift s) = s := by
  apply ext16 (size_invSubShift _) hs
  apply lt16_cases
  refine ⟨?_, ?_, ?_, ?_, ?_, ?_, ?_, ?_, ?_, ?_, ?_, ?_, ?_, ?_, ?_, ?_⟩ <;>
    (rw [getD_invSubShift _ _ (by omega)]
     simp only [Nat.reduceMod, Nat.reduceDiv, Nat.reduceAdd, Nat.reduceSub, Nat.reduceMul]
     rw [getD_subShift _ _ (by omega)]
     simp only [Nat.reduceMod, Nat.reduceDiv, Nat.reduceAdd, Nat.reduceMul]
     rw [invSub_sub])

theorem getD_mixColumns (s : Array UInt8) (i : Nat) (h : i < 16) :
    (mixColumns s).getD i 0 =
      xt (s.getD (i / 4 * 4 + i % 4) 0) ^^^ xt (s.getD (i / 4 * 4 + (i % 4 + 1) % 4) 0) ^^^
        s.getD (i / 4 * 4 + (i % 4 + 1) % 4) 0 ^^^ s.getD (i / 4 * 4 + (i % 4 + 2) % 4) 0 ^^^
        s.getD (i / 4 * 4 + (i % 4 + 3) % 4) 0 := by
  unfold mixColumns; rw [getD_ofFn16 _ i h]

theorem getD_invMixColumns (s : Array UInt8) (i : Nat) (h : i < 16) :
    (invMixColumns s).getD i 0 =
      xt (xt (xt (s.getD (i / 4 * 4 + i % 4) 0 ^^^ s.getD (i / 4 * 4 + (i % 4 + 1) % 4) 0 ^^^
        s.getD (i / 4 * 4 + (i % 4 + 2) % 4) 0 ^^^ s.getD (i / 4 * 4 + (i % 4 + 3) % 4) 0))) ^^^
      xt (xt (s.getD (i / 4 * 4 + i % 4) 0 ^^^ s.getD (i / 4 * 4 + (i % 4 + 2) % 4) 0)) ^^^
      xt (s.getD (i / 4 * 4 + i % 4) 0 ^^^ s.getD (i / 4 * 4 + (i % 4 + 1) % 4) 0) ^^^
      s.getD (i / 4 * 4 + (i % 4 + 1) % 4) 0 ^^^ s.getD (i / 4 * 4 + (i % 4 + 2) % 4) 0 ^^^
      s.getD (i / 4 * 4 + (i % 4 + 3) % 4) 0 := by
  unfold invMixColumns; rw [getD_ofFn16 _ i h]

/-- InvMixColumns undoes MixColumns on 16-octet states. -/
theorem invMixColumns_mixColumns (s : Array UInt8) (hs : s.size = 16) :
    invMixColumns (mixColumns s) = s := by
  apply ext16 (size_invMixColumns _) hs
  apply lt16_cases
  refine ⟨?_, ?_, ?_, ?_, ?_, ?_, ?_, ?_, ?_, ?_, ?_, ?_, ?_, ?_, ?_, ?_⟩ <;>
    (rw [getD_invMixColumns _ _ (by omega)]
     simp only [Nat.reduceMod, Nat.reduceDiv, Nat.reduceAdd, Nat.reduceMul]
     rw [getD_mixColumns _ _ (by omega), getD_mixColumns _ _ (by omega),
       getD_mixColumns _ _ (by omega), getD_mixColumns _ _ (by omega)]
     simp only [Nat.reduceMod, Nat.reduceDiv, Nat.reduceAdd, Nat.reduceMul]
     exact invMix_mix_col _ _ _ _)

/-! ## AES: the round structure -/

/-- functional form of the encryption round loop: the state after `k` full rounds. -/
def encRounds (rk : Array UInt8) : Nat → Array UInt8 → Array UInt8
  | 0, s => s
  | k + 1, s => addRoundKey rk (k + 1) (mixColumns (subShift (encRounds rk k s)))

/-- the `Nat.fold` in `encryptWith` is `encRounds`. -/
theorem fold_enc_eq (rk : Array UInt8) (n : Nat) (s : Array UInt8) :
    Nat.fold n (fun r _ s => addRoundKey rk (r + 1) (mixColumns (subShift s))) s
      = encRounds rk n s := by
  induction n with
  | zero => rfl
  | succ n ih => rw [Nat.fold_succ, ih, encRounds]

theorem size_encRounds (rk : Array UInt8) (k : Nat) (s : Array UInt8) (hs : s.size = 16) :
    (encRounds rk k s).size = 16 := by
  cases k with
  | zero => exact hs
  | succ k => exact size_addRoundKey _ _ _

/-- After `j ≤ m` inverse rounds, started from `SubShift` of the state after `m` rounds, the
    decryption loop holds `SubShift` of the state after `m - j` rounds. -/
theorem fold_dec_eq (rk : Array UInt8) (m : Nat) (x : Array UInt8) (hx : x.size = 16) :
    ∀ j, j ≤ m →
      Nat.fold j (fun i _ s => invMixColumns (addRoundKey rk (m - i) (invSubShift s)))
        (subShift (encRounds rk m x)) = subShift (encRounds rk (m - j) x) := by
  intro j
  induction j with
  | zero => intro _; rfl
  | succ j ih =>
    intro hj
    rw [Nat.fold_succ, ih (by omega), invSubShift_subShift _ (size_encRounds _ _ _ hx)]
    obtain ⟨k, hk⟩ : ∃ k, m - j = k + 1 := ⟨m - j - 1, by omega⟩
    have hk' : m - (j + 1) = k := by omega
    rw [hk, hk', encRounds, addRoundKey_addRoundKey _ _ _ (size_mixColumns _),
      invMixColumns_mixColumns _ (size_subShift _)]

/-- The inverse cipher undoes the cipher, for EVERY round-key array `rk` and number of rounds `nr`. -/
theorem decryptWith_encryptWith (rk : Array UInt8) (nr : Nat) (blk : Array UInt8)
    (hb : blk.size = 16) : decryptWith rk nr (encryptWith rk nr blk) = blk := by
  unfold decryptWith encryptWith
  simp only []
  rw [fold_enc_eq, addRoundKey_addRoundKey _ _ _ (size_subShift _),
    fold_dec_eq rk (nr - 1) _ (size_addRoundKey _ _ _) (nr - 1) (Nat.le_refl _), Nat.sub_self,
    encRounds, invSubShift_subShift _ (size_addRoundKey _ _ _), addRoundKey_addRoundKey _ _ _ hb]

theorem size_encryptWith (rk : Array UInt8) (nr : Nat) (blk : Array UInt8) :
    (encryptWith rk nr blk).size = 16 := by
  unfold encryptWith; exact size_addRoundKey _ _ _

theorem size_decryptWith (rk : Array UInt8) (nr : Nat) (blk : Array UInt8) :
    (decryptWith rk nr blk).size = 16 := by
  unfold decryptWith; exact size_addRoundKey _ _ _

end Crypto.Aes

/-! ## The block functions and the laws -/

open Crypto.Aes in
/-- AES encryption of a 16-octet block returns 16 octets, for every key byte string. -/
theorem Crypto.aesEncryptBlock_length (k b : Bytes) (hb : b.length = 16) :
    (aesEncryptBlock k b).length = 16 := by
  unfold aesEncryptBlock
  by_cases h : validLens k b = true
  · rw [if_pos h, Array.length_toList]; exact size_encryptWith _ _ _
  · rw [if_neg h]; exact hb

open Crypto.Aes in
/-- AES decryption of a 16-octet block returns 16 octets, for every key byte string. -/
theorem Crypto.aesDecryptBlock_length (k b : Bytes) (hb : b.length = 16) :
    (aesDecryptBlock k b).length = 16 := by
  unfold aesDecryptBlock
  by_cases h : validLens k b = true
  · rw [if_pos h, Array.length_toList]; exact size_decryptWith _ _ _
  · rw [if_neg h]; exact hb

open Crypto.Aes in
/-- AES decryption inverts AES encryption on 16-octet blocks, for EVERY key byte string
    (with a key length other than 16/24/32 both functions are the identity). -/
theorem Crypto.aesDecryptBlock_aesEncryptBlock (k b : Bytes) (hb : b.length = 16) :
    aesDecryptBlock k (aesEncryptBlock k b) = b := by
  have hl := aesEncryptBlock_length k b hb
  by_cases h : validLens k b = true
  · have h' : validLens k (aesEncryptBlock k b) = true := by
      unfold validLens at h ⊢; rw [hl]; rw [hb] at h; exact h
    unfold aesDecryptBlock
    rw [if_pos h']
    unfold aesEncryptBlock
    rw [if_pos h, Array.toArray_toList,
      decryptWith_encryptWith _ _ _ (by rw [List.size_toArray]; exact hb)]
  · have h' : ¬ validLens k (aesEncryptBlock k b) = true := by
      unfold validLens at h ⊢; rw [hl]; rw [hb] at h; exact h
    unfold aesDecryptBlock
    rw [if_neg h']
    unfold aesEncryptBlock
    rw [if_neg h]

/-- Law `enc_len` for the executable primitives. -/
theorem Prims.real_enc_len : ∀ k b, b.length = 16 → (Prims.real.enc k b).length = 16 :=
  aesEncryptBlock_length

/-- Law `dec_len` for the executable primitives. -/
theorem Prims.real_dec_len : ∀ k b, b.length = 16 → (Prims.real.dec k b).length = 16 :=
  aesDecryptBlock_length

/-- Law `dec_enc` for the executable primitives: decryption inverts encryption on every 16-octet
    block under every key byte string. -/
theorem Prims.real_dec_enc :
    ∀ k b, b.length = 16 → Prims.real.dec k (Prims.real.enc k b) = b :=
  aesDecryptBlock_aesEncryptBlock

/-- The executable primitives satisfy all the laws the property theorems assume: instantiating any
    theorem stated for `P : Prims` with `P.Lawful` at `P := Prims.real` needs no further assumption. -/
theorem Prims.real_lawful : Prims.real.Lawful where
  mac_len := Prims.real_mac_len
  enc_len := Prims.real_enc_len
  dec_len := Prims.real_dec_len
  dec_enc := Prims.real_dec_enc

/-- non-vacuity: on the FIPS 197 Appendix C.1 vector (AES-128 key `00 01 … 0f`) the executable
    `enc` is the real cipher, not the identity, so `dec_enc` says something non-trivial there. -/
example : Prims.real.enc ((List.range 16).map UInt8.ofNat)
      [0x00, 0x11, 0x22, 0x33, 0x44, 0x55, 0x66, 0x77, 0x88, 0x99, 0xaa, 0xbb, 0xcc, 0xdd, 0xee, 0xff]
    = [0x69, 0xc4, 0xe0, 0xd8, 0x6a, 0x7b, 0x04, 0x30, 0xd8, 0xcd, 0xb7, 0x80, 0x70, 0xb4, 0xc5, 0x5a] := by
  decide +kernel

example : Prims.real.dec ((List.range 16).map UInt8.ofNat) (Prims.real.enc ((List.range 16).map UInt8.ofNat)
      [0x00, 0x11, 0x22, 0x33, 0x44, 0x55, 0x66, 0x77, 0x88, 0x99, 0xaa, 0xbb, 0xcc, 0xdd, 0xee, 0xff])
    = [0x00, 0x11, 0x22, 0x33, 0x44, 0x55, 0x66, 0x77, 0x88, 0x99, 0xaa, 0xbb, 0xcc, 0xdd, 0xee, 0xff] :=
  Prims.real_dec_enc _ _ (by decide)

end Ike
