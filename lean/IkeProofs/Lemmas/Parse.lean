import IkeProofs.Lemmas.Wire
import IkeProofs.Theorems.C03
import IkeModel.Spec.Parse

/-! Lemmas for C05, parser side: the independent strict RFC 7296 parser `Spec.parse`
(IkeModel/Spec/Parse.lean) against the independent encoder `Spec.encode`
(IkeModel/Spec/Wire.lean) under the canonical liberties.  Per figure of the RFC two lemmas:

* `parseX_encode`: what the encoder writes for a value of the encodable domain, the parser reads
  back as that value;
* `encodeX_parse`: whatever the parser accepts, the encoder writes again octet for octet from
  the value the parser returned (the parser accepts canonical forms only). -/

set_option linter.unusedSimpArgs false
set_option linter.unusedVariables false

namespace Ike.ParseLemmas
open Spec

/-- `if c then none else x` returned something: the check `c` did not fire -/
theorem ite_none_eq_some {α : Type} {c : Prop} [Decidable c] {x : Option α} {y : α}
    (h : (if c then none else x) = some y) : ¬ c ∧ x = some y := by
  by_cases hc : c
  · rw [if_pos hc] at h; simp at h
  · rw [if_neg hc] at h; exact ⟨hc, h⟩

/-- peel one `if c then none else …` off a hypothesis `h : … = some _` -/
macro "peel " h:ident " with " n:ident : tactic =>
  `(tactic| (have htmp := ite_none_eq_some $h; clear $h; have $n := htmp.1; have $h := htmp.2; clear htmp))

/-! ### big-endian octets -/

theorem u8_ofNat_toNat (a : UInt8) : UInt8.ofNat a.toNat = a := by
  apply UInt8.toNat_inj.mp
  have := a.toNat_lt
  simp only [UInt8.toNat_ofNat']
  omega

theorem put16_pair (a b : UInt8) : put16 (UInt16.ofNat (a.toNat * 256 + b.toNat)) = [a, b] := by
  have ha := a.toNat_lt
  have hb := b.toNat_lt
  rw [put16_ofNat _ (by omega)]
  have h1 : (a.toNat * 256 + b.toNat) / 256 = a.toNat := by omega
  have h2 : (a.toNat * 256 + b.toNat) % 256 = b.toNat := by omega
  rw [h1, h2, u8_ofNat_toNat, u8_ofNat_toNat]

theorem put16_be16 (a b : UInt8) : put16 (be16 a b) = [a, b] := put16_pair a b

theorem be16_toNat (a b : UInt8) : (be16 a b).toNat = a.toNat * 256 + b.toNat := by
  have ha := a.toNat_lt
  have hb := b.toNat_lt
  exact ofNat_toNat_u16 _ (by omega)

theorem put32_be32 (a b c d : UInt8) : put32 (be32 a b c d) = [a, b, c, d] := by
  have ha := a.toNat_lt
  have hb := b.toNat_lt
  have hc := c.toNat_lt
  have hd := d.toNat_lt
  unfold put32 be32
  rw [ofNat_toNat_u32 _ (by omega)]
  have h1 : (((a.toNat * 256 + b.toNat) * 256 + c.toNat) * 256 + d.toNat) / 16777216 = a.toNat := by omega
  have h2 : (((a.toNat * 256 + b.toNat) * 256 + c.toNat) * 256 + d.toNat) / 65536 % 256 = b.toNat := by omega
  have h3 : (((a.toNat * 256 + b.toNat) * 256 + c.toNat) * 256 + d.toNat) / 256 % 256 = c.toNat := by omega
  have h4 : (((a.toNat * 256 + b.toNat) * 256 + c.toNat) * 256 + d.toNat) % 256 = d.toNat := by omega
  rw [h1, h2, h3, h4, u8_ofNat_toNat, u8_ofNat_toNat, u8_ofNat_toNat, u8_ofNat_toNat]

theorem be16_put16_cons (v : UInt16) :
    be16 (UInt8.ofNat (v.toNat / 256)) (UInt8.ofNat (v.toNat % 256)) = v := be16_put v

/-! ### §3.3.5 attribute -/

theorem parseAttr_encode (t : Transform) (hd : t.Dom) (a : Bytes) (h : encodeAttr t = .ok a) :
    parseAttr t.ttype t.tid a = some t := by
  unfold encodeAttr at h
  rcases hd with ⟨h1, h2, h3, h4, h5⟩ | ⟨h1, h2, h3, h5⟩ | ⟨h1, h2, h3, h4, h5⟩
  · simp only [h1, Bool.not_false, if_true, Res.ok.injEq] at h
    subst h
    cases t
    simp only at h1 h2 h3 h4 h5
    subst h1 h2 h3 h4 h5
    rfl
  · simp only [h1, h2, Bool.not_true, Bool.false_eq_true, if_false] at h
    rw [if_neg (by omega), if_pos trivial] at h
    simp only [Res.ok.injEq] at h
    subst h
    rw [put16_ofNat _ (by omega)]
    have hb : (UInt8.ofNat ((32768 + t.atype.toNat) / 256)).toNat = 128 + t.atype.toNat / 256 := by
      rw [ofNat_toNat_u8 _ (by omega)]; omega
    have hc : (UInt8.ofNat ((32768 + t.atype.toNat) % 256)).toNat = t.atype.toNat % 256 := by
      rw [ofNat_toNat_u8 _ (by omega)]; omega
    simp only [put16, List.cons_append, List.nil_append, parseAttr]
    rw [if_pos (by omega), if_neg (by simp), hb, hc, be16_put]
    have : UInt16.ofNat ((128 + t.atype.toNat / 256 - 128) * 256 + t.atype.toNat % 256) = t.atype := by
      apply UInt16.toNat_inj.mp
      rw [ofNat_toNat_u16 _ (by omega)]
      omega
    rw [this]
    cases t
    simp only at h1 h2 h5
    subst h1 h2 h5
    rfl
  · simp only [h1, h2, Bool.not_true, Bool.false_eq_true, if_false] at h
    rw [if_neg (by omega), if_neg (by decide)] at h
    split at h
    · simp at h
    · rename_i hv
      simp only [Res.ok.injEq] at h
      subst h
      rw [put16_ofNat _ (by omega), put16_ofNat _ (by omega)]
      simp only [List.cons_append, List.nil_append, parseAttr]
      rw [if_neg (by rw [ofNat_toNat_u8 _ (by omega)]; omega), if_neg (by rw [len16 _ (by omega)]; simp), be16_put]
      cases t
      simp only at h1 h2 h4
      subst h1 h2 h4
      rfl

theorem encodeAttr_parse (tt : UInt8) (tid : UInt16) (a : Bytes) (t : Transform)
    (h : parseAttr tt tid a = some t) : encodeAttr t = .ok a ∧ t.ttype = tt ∧ t.tid = tid := by
  unfold parseAttr at h
  split at h
  · simp only [Option.some.injEq] at h
    subst h
    exact ⟨rfl, rfl, rfl⟩
  · rename_i a0 a1 v0 v1 rest
    have ha0 := a0.toNat_lt
    have ha1 := a1.toNat_lt
    split at h
    · rename_i h128
      split at h
      · simp at h
      · rename_i hr
        simp only [ne_eq, Decidable.not_not] at hr
        simp only [Option.some.injEq] at h
        subst h hr
        refine ⟨?_, rfl, rfl⟩
        simp only [encodeAttr, Bool.not_true, Bool.false_eq_true, if_false, if_true]
        have hv : (UInt16.ofNat ((a0.toNat - 128) * 256 + a1.toNat)).toNat = (a0.toNat - 128) * 256 + a1.toNat :=
          ofNat_toNat_u16 _ (by omega)
        rw [hv, if_neg (by omega)]
        have : 32768 + ((a0.toNat - 128) * 256 + a1.toNat) = a0.toNat * 256 + a1.toNat := by omega
        rw [this, put16_pair, put16_be16]
        rfl
    · rename_i h128
      split at h
      · simp at h
      · rename_i hl
        simp only [ne_eq, Decidable.not_not] at hl
        have hv0 := v0.toNat_lt
        have hv1 := v1.toNat_lt
        simp only [Option.some.injEq] at h
        subst h
        refine ⟨?_, rfl, rfl⟩
        simp only [encodeAttr, Bool.not_true, Bool.false_eq_true, if_false]
        rw [be16_toNat, if_neg (by omega), if_neg (by decide), if_neg (by omega), put16_pair, hl, put16_pair]
        rfl
  · simp at h

/-! ### §3.3.2 transforms -/

theorem take_sub8 (a tl : Bytes) : List.take (8 + a.length - 8) (a ++ tl) = a := by
  have : 8 + a.length - 8 = a.length := by omega
  rw [this]; simp

theorem drop_sub8 (a tl : Bytes) : List.drop (8 + a.length - 8) (a ++ tl) = tl := by
  have : 8 + a.length - 8 = a.length := by omega
  rw [this]; simp

/-- one well-framed transform in front of `tl` -/
theorem parseTransforms_step (fuel : Nat) (m l0 l1 tt i0 i1 : UInt8) (a tl : Bytes) (t : Transform) (ts : List Transform)
    (hl : l0.toNat * 256 + l1.toNat = 8 + a.length) (hm : m = if tl = [] then 0 else 3)
    (ha : parseAttr tt (be16 i0 i1) a = some t) (ht : parseTransforms fuel tl = some ts) :
    parseTransforms (fuel + 1) (m :: 0 :: l0 :: l1 :: tt :: 0 :: i0 :: i1 :: (a ++ tl)) = some (t :: ts) := by
  rw [parseTransforms]
  simp only [hl]
  rw [if_neg (by simp), if_neg (by len_omega), take_sub8, drop_sub8]
  have hmm : m = if (a ++ tl).length = 8 + a.length - 8 then 0 else 3 := by
    rw [hm]
    by_cases ht : tl = []
    · subst ht; simp
    · have : tl.length ≠ 0 := fun hc => ht (List.eq_nil_of_length_eq_zero hc)
      rw [if_neg ht, if_neg (by len_omega)]
  rw [if_neg (by rw [← hmm]; simp), ha, ht]

theorem parseTransforms_nil_iff (fuel : Nat) (b : Bytes) (ts : List Transform)
    (h : parseTransforms fuel b = some ts) : ts = [] ↔ b = [] := by
  cases fuel with
  | zero => simp [parseTransforms] at h
  | succ f =>
    unfold parseTransforms at h
    split at h
    · simp only [Option.some.injEq] at h; subst h; simp
    · dsimp only at h
      peel h with hx
      peel h with hx
      peel h with hx
      split at h
      · simp only [Option.some.injEq] at h; subst h; simp
      · simp at h
    · simp at h

/-- the canonical emission of a transform list -/
abbrev emitC (ts : List Transform) : List (TLib × Transform) := ts.map (fun t => (({} : TLib), t))

theorem parseTransforms_encode (ts : List Transform) (hd : ∀ t ∈ ts, t.Dom) (bs : Bytes)
    (h : encodeTransforms (emitC ts) = .ok bs) (fuel : Nat) (hf : bs.length < fuel) :
    parseTransforms fuel bs = some ts := by
  induction ts generalizing bs fuel with
  | nil =>
    simp [encodeTransforms] at h; subst h
    obtain ⟨f, rfl⟩ : ∃ f, fuel = f + 1 := ⟨fuel - 1, by len_omega⟩
    rfl
  | cons t rest ih =>
    simp only [emitC, List.map_cons, encodeTransforms, List.isEmpty_map] at h
    cases hh : encodeTransform {} rest.isEmpty t with
    | err => simp [hh] at h
    | fault => simp [hh] at h
    | ok hb =>
      cases hr : encodeTransforms (emitC rest) with
      | err => simp [emitC, hh, hr] at h
      | fault => simp [emitC, hh, hr] at h
      | ok tl =>
        simp only [emitC] at hr
        simp only [hh, hr, Res.bind_ok, Res.ok.injEq] at h
        subst h
        unfold encodeTransform at hh
        cases ha : encodeAttr t with
        | err => simp [ha] at hh
        | fault => simp [ha] at hh
        | ok a =>
          simp only [ha, Res.bind_ok] at hh
          split at hh
          · simp at hh
          · rename_i hlen
            simp only [Res.ok.injEq] at hh
            subst hh
            obtain ⟨f, rfl⟩ : ∃ f, fuel = f + 1 := ⟨fuel - 1, by len_omega⟩
            rw [put16_ofNat _ (by omega)]
            have hmark : (if rest.isEmpty = true then (0 : UInt8) else 3)
                = if tl = [] then 0 else 3 := by
              cases rest with
              | nil => simp [encodeTransforms] at hr; subst hr; simp
              | cons e' rest' =>
                have := encodeTransforms_nonempty _ _ tl hr
                simp [this]
            have hstep := parseTransforms_step f _ _ _ t.ttype _ _ a tl t rest (len16 (8 + a.length) (by omega)) hmark
              (by rw [be16_put]; exact parseAttr_encode t (hd t (by simp)) a ha)
              (ih (fun q hq => hd q (by simp [hq])) tl hr f (by len_omega))
            simp only [put16, List.cons_append, List.nil_append, List.append_assoc] at hstep ⊢
            exact hstep

theorem encodeTransforms_parse (fuel : Nat) (bs : Bytes) (ts : List Transform)
    (h : parseTransforms fuel bs = some ts) : encodeTransforms (emitC ts) = .ok bs := by
  induction fuel generalizing bs ts with
  | zero => simp [parseTransforms] at h
  | succ f ih =>
    unfold parseTransforms at h
    split at h
    · simp only [Option.some.injEq] at h; subst h; rfl
    · rename_i m r1 l0 l1 tt r2 i0 i1 rest
      dsimp only at h
      have hl0 := l0.toNat_lt
      have hl1 := l1.toNat_lt
      peel h with hres
      peel h with hlen
      peel h with hm
      simp only [ne_eq, Decidable.not_not] at hm
      split at h
      · rename_i t ts' hpa hpt
        simp only [Option.some.injEq] at h
        subst h
        obtain ⟨hea, htt, htid⟩ := encodeAttr_parse _ _ _ _ hpa
        have hrec := ih _ _ hpt
        have hnil := parseTransforms_nil_iff _ _ _ hpt
        have hr1 : r1 = 0 := by
          apply Decidable.byContradiction; intro hc; exact hres (Or.inl hc)
        have hr2 : r2 = 0 := by
          apply Decidable.byContradiction; intro hc; exact hres (Or.inr hc)
        subst hr1 hr2
        have hsplit : rest = rest.take (l0.toNat * 256 + l1.toNat - 8) ++ rest.drop (l0.toNat * 256 + l1.toNat - 8) :=
          (List.take_append_drop _ _).symm
        have htl : (rest.take (l0.toNat * 256 + l1.toNat - 8)).length = l0.toNat * 256 + l1.toNat - 8 := by
          rw [List.length_take]; omega
        simp only [emitC, List.map_cons, encodeTransforms, List.isEmpty_map]
        simp only [emitC] at hrec
        rw [hrec]
        unfold encodeTransform
        rw [hea]
        simp only [Res.bind_ok]
        rw [if_neg (by omega), htl]
        have h8 : 8 + (l0.toNat * 256 + l1.toNat - 8) = l0.toNat * 256 + l1.toNat := by omega
        rw [h8, put16_pair, htt, htid, put16_be16]
        have hmk : (if ts'.isEmpty = true then (0 : UInt8) else 3) = m := by
          rw [hm]
          by_cases hts : ts' = []
          · have hd := hnil.mp hts
            have : rest.length = l0.toNat * 256 + l1.toNat - 8 := by
              have := congrArg List.length hd
              simp only [List.length_drop, List.length_nil] at this
              omega
            subst hts
            simp [this]
          · have hd : rest.drop (l0.toNat * 256 + l1.toNat - 8) ≠ [] := fun hc => hts (hnil.mpr hc)
            have : ¬ rest.length = l0.toNat * 256 + l1.toNat - 8 := by
              intro hc
              apply hd
              rw [← hc]; simp
            simp [hts, this]
        rw [hmk]
        simp only [Res.bind_ok, List.cons_append, List.nil_append, List.append_assoc]
        rw [← hsplit]
      · simp at h
    · simp at h

/-! ### §3.3.1 proposals -/

theorem ofType_all (k : UInt8) (ts : List Transform) (h : ∀ t ∈ ts, t.ttype = k) : ofType k ts = ts := by
  unfold ofType
  rw [List.filter_eq_self]
  intro t ht
  simp [h t ht]

theorem ofType_none (k j : UInt8) (ts : List Transform) (h : ∀ t ∈ ts, t.ttype = j) (hjk : j ≠ k) :
    ofType k ts = [] := by
  unfold ofType
  rw [List.filter_eq_nil_iff]
  intro t ht
  simp [h t ht, hjk]

theorem ofType_append (k : UInt8) (a b : List Transform) : ofType k (a ++ b) = ofType k a ++ ofType k b := by
  unfold ofType; exact List.filter_append ..

/-- the transforms of a proposal of the domain, emitted canonically, file back by type -/
theorem ofType_canonical (p : Proposal) (hd : p.Dom) :
    ofType 1 (p.encr ++ p.prf ++ p.integ ++ p.dh ++ p.esn) = p.encr ∧
    ofType 2 (p.encr ++ p.prf ++ p.integ ++ p.dh ++ p.esn) = p.prf ∧
    ofType 3 (p.encr ++ p.prf ++ p.integ ++ p.dh ++ p.esn) = p.integ ∧
    ofType 4 (p.encr ++ p.prf ++ p.integ ++ p.dh ++ p.esn) = p.dh ∧
    ofType 5 (p.encr ++ p.prf ++ p.integ ++ p.dh ++ p.esn) = p.esn := by
  obtain ⟨h1, h2, h3, h4, h5⟩ := hd
  have e1 : ∀ t ∈ p.encr, t.ttype = 1 := fun t ht => (h1 t ht).1
  have e2 : ∀ t ∈ p.prf, t.ttype = 2 := fun t ht => (h2 t ht).1
  have e3 : ∀ t ∈ p.integ, t.ttype = 3 := fun t ht => (h3 t ht).1
  have e4 : ∀ t ∈ p.dh, t.ttype = 4 := fun t ht => (h4 t ht).1
  have e5 : ∀ t ∈ p.esn, t.ttype = 5 := fun t ht => (h5 t ht).1
  refine ⟨?_, ?_, ?_, ?_, ?_⟩
  · rw [ofType_append, ofType_append, ofType_append, ofType_append, ofType_all 1 _ e1,
      ofType_none 1 2 _ e2 (by decide), ofType_none 1 3 _ e3 (by decide), ofType_none 1 4 _ e4 (by decide),
      ofType_none 1 5 _ e5 (by decide)]
    simp
  · rw [ofType_append, ofType_append, ofType_append, ofType_append, ofType_all 2 _ e2,
      ofType_none 2 1 _ e1 (by decide), ofType_none 2 3 _ e3 (by decide), ofType_none 2 4 _ e4 (by decide),
      ofType_none 2 5 _ e5 (by decide)]
    simp
  · rw [ofType_append, ofType_append, ofType_append, ofType_append, ofType_all 3 _ e3,
      ofType_none 3 1 _ e1 (by decide), ofType_none 3 2 _ e2 (by decide), ofType_none 3 4 _ e4 (by decide),
      ofType_none 3 5 _ e5 (by decide)]
    simp
  · rw [ofType_append, ofType_append, ofType_append, ofType_append, ofType_all 4 _ e4,
      ofType_none 4 1 _ e1 (by decide), ofType_none 4 2 _ e2 (by decide), ofType_none 4 3 _ e3 (by decide),
      ofType_none 4 5 _ e5 (by decide)]
    simp
  · rw [ofType_append, ofType_append, ofType_append, ofType_append, ofType_all 5 _ e5,
      ofType_none 5 1 _ e1 (by decide), ofType_none 5 2 _ e2 (by decide), ofType_none 5 3 _ e3 (by decide),
      ofType_none 5 4 _ e4 (by decide)]
    simp

/-- one well-framed proposal in front of `tl` -/
theorem parseProposals_step (fuel : Nat) (m l0 l1 num proto ss nt : UInt8) (spi td tl : Bytes)
    (ts : List Transform) (ps : List Proposal)
    (hss : ss.toNat = spi.length) (hl : l0.toNat * 256 + l1.toNat = 8 + spi.length + td.length)
    (hm : m = if tl = [] then 0 else 2)
    (ht : ∀ fuel, td.length < fuel → parseTransforms fuel td = some ts)
    (hnt : ts.length = nt.toNat) (hnt0 : nt ≠ 0)
    (hsorted : ofType 1 ts ++ ofType 2 ts ++ ofType 3 ts ++ ofType 4 ts ++ ofType 5 ts = ts)
    (hp : parseProposals fuel tl = some ps) :
    parseProposals (fuel + 1) (m :: 0 :: l0 :: l1 :: num :: proto :: ss :: nt :: (spi ++ (td ++ tl))) =
      some (⟨num, proto, spi, ofType 1 ts, ofType 2 ts, ofType 3 ts, ofType 4 ts, ofType 5 ts⟩ :: ps) := by
  unfold parseProposals
  simp only [hl, hss]
  have hlen8 : 8 + spi.length + td.length - 8 = (spi ++ td).length := by simp; omega
  rw [if_neg (by simp), if_neg (by len_omega), hlen8, ← List.append_assoc, List.take_left, List.drop_left,
    List.drop_left, List.take_left]
  have hmm : m = if (spi ++ td ++ tl).length = (spi ++ td).length then 0 else 2 := by
    rw [hm]
    by_cases ht : tl = []
    · subst ht; simp
    · have : tl.length ≠ 0 := fun hc => ht (List.eq_nil_of_length_eq_zero hc)
      rw [if_neg ht, if_neg (by len_omega)]
  rw [if_neg (by rw [← hmm]; simp), ht _ (by len_omega), hp]
  simp only
  rw [if_neg (by simp [hnt, hnt0]), if_neg (by rw [hsorted]; simp)]

theorem parseProposals_nil_iff (fuel : Nat) (b : Bytes) (ps : List Proposal)
    (h : parseProposals fuel b = some ps) : ps = [] ↔ b = [] := by
  cases fuel with
  | zero => simp [parseProposals] at h
  | succ f =>
    unfold parseProposals at h
    split at h
    · simp only [Option.some.injEq] at h; subst h; simp
    · dsimp only at h
      peel h with hx
      peel h with hx
      peel h with hx
      split at h
      · peel h with hx
        peel h with hx
        simp only [Option.some.injEq] at h; subst h; simp
      · simp at h
    · simp at h

theorem encodeProposals_nil_cons (p : Proposal) (rest : List Proposal) :
    encodeProposals [] (p :: rest) = (do
      let h ← encodeProposal (PLib.canonical p) rest.isEmpty p
      let tl ← encodeProposals [] rest
      .ok (h ++ tl)) := rfl

theorem parseProposals_encode (ps : List Proposal) (hd : ∀ p ∈ ps, p.Dom) (bs : Bytes)
    (h : encodeProposals [] ps = .ok bs) (fuel : Nat) (hf : bs.length < fuel) :
    parseProposals fuel bs = some ps := by
  induction ps generalizing bs fuel with
  | nil =>
    simp [encodeProposals] at h; subst h
    obtain ⟨f, rfl⟩ : ∃ f, fuel = f + 1 := ⟨fuel - 1, by len_omega⟩
    rfl
  | cons p rest ih =>
    rw [encodeProposals_nil_cons] at h
    cases hh : encodeProposal (PLib.canonical p) rest.isEmpty p with
    | err => rw [hh] at h; simp at h
    | fault => rw [hh] at h; simp at h
    | ok hb =>
      cases hr : encodeProposals [] rest with
      | err => rw [hh, hr] at h; simp at h
      | fault => rw [hh, hr] at h; simp at h
      | ok tl =>
        rw [hh, hr] at h
        simp only [Res.bind_ok, Res.ok.injEq] at h
        subst h
        have hpd := hd p (by simp)
        unfold encodeProposal at hh
        split at hh
        · simp at hh
        · rename_i hspi
          split at hh
          · simp at hh
          · rename_i hne
            split at hh
            · simp at hh
            · rename_i h255
              cases hts : encodeTransforms (PLib.canonical p).emitted with
              | err => simp [hts] at hh
              | fault => simp [hts] at hh
              | ok td =>
                simp only [hts, Res.bind_ok] at hh
                split at hh
                · simp at hh
                · rename_i hlen
                  simp only [Res.ok.injEq] at hh
                  subst hh
                  obtain ⟨f, rfl⟩ : ∃ f, fuel = f + 1 := ⟨fuel - 1, by len_omega⟩
                  rw [put16_ofNat _ (by omega)]
                  have hmark : (if rest.isEmpty = true then (0 : UInt8) else 2) = if tl = [] then 0 else 2 := by
                    cases rest with
                    | nil => simp [encodeProposals] at hr; subst hr; simp
                    | cons e' rest' =>
                      have := encodeProposals_nonempty _ _ _ tl hr
                      simp [this]
                  obtain ⟨o1, o2, o3, o4, o5⟩ := ofType_canonical p hpd
                  have hdt : ∀ t ∈ p.encr ++ p.prf ++ p.integ ++ p.dh ++ p.esn, t.Dom := by
                    obtain ⟨h1, h2, h3, h4, h5⟩ := hpd
                    intro t ht
                    simp only [List.mem_append] at ht
                    rcases ht with (((ht | ht) | ht) | ht) | ht
                    · exact (h1 t ht).2
                    · exact (h2 t ht).2
                    · exact (h3 t ht).2
                    · exact (h4 t ht).2
                    · exact (h5 t ht).2
                  have hem : (PLib.canonical p).emitted.length = (p.encr ++ p.prf ++ p.integ ++ p.dh ++ p.esn).length := by
                    simp [PLib.canonical]
                  have hstep := parseProposals_step f _ _ _ p.num p.proto _ (UInt8.ofNat (PLib.canonical p).emitted.length)
                    p.spi td tl (p.encr ++ p.prf ++ p.integ ++ p.dh ++ p.esn) rest
                    (ofNat_toNat_u8 _ (by omega)) (len16 (8 + p.spi.length + td.length) (by omega)) hmark
                    (fun fu hfu => parseTransforms_encode _ hdt td hts fu hfu)
                    (by rw [ofNat_toNat_u8 _ (by omega)]; exact hem.symm)
                    (by
                      intro hc
                      have := congrArg UInt8.toNat hc
                      rw [ofNat_toNat_u8 _ (by omega)] at this
                      exact hne this)
                    (by rw [o1, o2, o3, o4, o5])
                    (ih (fun q hq => hd q (by simp [hq])) tl hr f (by len_omega))
                  rw [o1, o2, o3, o4, o5] at hstep
                  simp only [PLib.canonical, List.cons_append, List.nil_append, List.append_assoc] at hstep ⊢
                  exact hstep

theorem encodeProposals_parse (fuel : Nat) (bs : Bytes) (ps : List Proposal)
    (h : parseProposals fuel bs = some ps) : encodeProposals [] ps = .ok bs := by
  induction fuel generalizing bs ps with
  | zero => simp [parseProposals] at h
  | succ f ih =>
    unfold parseProposals at h
    split at h
    · simp only [Option.some.injEq] at h; subst h; rfl
    · rename_i m r l0 l1 num proto ss nt rest
      dsimp only at h
      have hl0 := l0.toNat_lt
      have hl1 := l1.toNat_lt
      have hss := ss.toNat_lt
      have hntlt := nt.toNat_lt
      peel h with hres
      peel h with hlen
      peel h with hm
      simp only [ne_eq, Decidable.not_not] at hm hres
      subst hres
      split at h
      · rename_i ts ps' hpt hpp
        peel h with hcnt
        peel h with hsorted
        simp only [ne_eq, Decidable.not_not] at hsorted
        simp only [Option.some.injEq] at h
        subst h
        have hrec := ih _ _ hpp
        have hnil := parseProposals_nil_iff _ _ _ hpp
        have hets := encodeTransforms_parse _ _ _ hpt
        have hnt : ts.length = nt.toNat := by
          apply Decidable.byContradiction; intro hc; exact hcnt (Or.inl hc)
        have hnt0 : nt.toNat ≠ 0 := by
          intro hc
          apply hcnt
          right
          apply UInt8.toNat_inj.mp
          rw [hc]; rfl
        generalize hL : l0.toNat * 256 + l1.toNat = L at *
        have hbody : (rest.take (L - 8)).length = L - 8 := by rw [List.length_take]; omega
        have hspi : ((rest.take (L - 8)).take ss.toNat).length = ss.toNat := by
          rw [List.length_take, hbody]; omega
        have htd : ((rest.take (L - 8)).drop ss.toNat).length = L - 8 - ss.toNat := by
          rw [List.length_drop, hbody]
        have hsplit : rest = (rest.take (L - 8)).take ss.toNat ++ ((rest.take (L - 8)).drop ss.toNat ++ rest.drop (L - 8)) := by
          rw [← List.append_assoc, List.take_append_drop, List.take_append_drop]
        rw [encodeProposals_nil_cons, hrec]
        have hcan : PLib.canonical ⟨num, proto, (rest.take (L - 8)).take ss.toNat, ofType 1 ts, ofType 2 ts, ofType 3 ts,
            ofType 4 ts, ofType 5 ts⟩ = ⟨0, emitC ts⟩ := by
          simp only [PLib.canonical, hsorted]
        rw [hcan]
        unfold encodeProposal
        simp only [hspi, List.length_map, hnt]
        rw [if_neg (by omega), if_neg hnt0, if_neg (by omega), hets]
        simp only [Res.bind_ok, htd]
        have h8 : 8 + ss.toNat + (L - 8 - ss.toNat) = L := by omega
        rw [h8, if_neg (by omega), ← hL, put16_pair, u8_ofNat_toNat, u8_ofNat_toNat, hL]
        have hmk : (if ps'.isEmpty = true then (0 : UInt8) else 2) = m := by
          rw [hm]
          by_cases hps : ps' = []
          · have hd := hnil.mp hps
            have : rest.length = L - 8 := by
              have := congrArg List.length hd
              simp only [List.length_drop, List.length_nil] at this
              omega
            subst hps
            simp [this]
          · have hd : rest.drop (L - 8) ≠ [] := fun hc => hps (hnil.mpr hc)
            have : ¬ rest.length = L - 8 := by
              intro hc
              apply hd
              rw [← hc]; simp
            simp [hps, this]
        rw [hmk]
        simp only [Res.bind_ok, List.cons_append, List.nil_append, List.append_assoc]
        rw [← hsplit]
      · simp at h
    · simp at h

/-! ### §3.13 traffic selectors -/

theorem parseSelectors_step (fuel alen : Nat) (t p l0 l1 s0 s1 e0 e1 : UInt8) (sa ea tl : Bytes) (ts : List TSel)
    (halen : alen = if t = 7 then 4 else if t = 8 then 16 else 0) (h0 : alen ≠ 0)
    (hl : l0.toNat * 256 + l1.toNat = 8 + 2 * alen) (hsa : sa.length = alen) (hea : ea.length = alen)
    (hp : parseSelectors fuel tl = some ts) :
    parseSelectors (fuel + 1) (t :: p :: l0 :: l1 :: s0 :: s1 :: e0 :: e1 :: (sa ++ (ea ++ tl))) =
      some (⟨t, p, be16 s0 s1, be16 e0 e1, sa, ea⟩ :: ts) := by
  unfold parseSelectors
  simp only [← halen, hl]
  rw [if_neg h0, if_neg (by simp), if_neg (by len_omega)]
  have h1 : List.take alen (sa ++ (ea ++ tl)) = sa := by rw [← hsa]; simp
  have h2 : List.take alen (List.drop alen (sa ++ (ea ++ tl))) = ea := by
    rw [← hsa, List.drop_left, hsa, ← hea]; simp
  have h3 : List.drop (2 * alen) (sa ++ (ea ++ tl)) = tl := by
    rw [← List.append_assoc]
    have : 2 * alen = (sa ++ ea).length := by simp; omega
    rw [this, List.drop_left]
  rw [h1, h2, h3, hp]

theorem encodeSelector_inv (t : TSel) (hb : Bytes) (h : encodeSelector t = .ok hb) :
    ∃ alen, alen = (if t.tstype = 7 then 4 else if t.tstype = 8 then 16 else 0) ∧ alen ≠ 0 ∧
      t.saddr.length = alen ∧ t.eaddr.length = alen ∧
      hb = [t.tstype, t.proto] ++ put16 (UInt16.ofNat (8 + t.saddr.length + t.eaddr.length)) ++
        put16 t.sport ++ put16 t.eport ++ t.saddr ++ t.eaddr := by
  unfold encodeSelector at h
  generalize hA : (if t.tstype = 7 then 4 else if t.tstype = 8 then 16 else 0) = alen at h
  change (if alen = 0 then Res.err else _) = _ at h
  split at h
  · simp at h
  · rename_i h0
    split at h
    · simp at h
    · rename_i hsa
      split at h
      · simp at h
      · rename_i hea
        simp only [ne_eq, Decidable.not_not] at hsa hea
        simp only [Res.ok.injEq] at h
        exact ⟨alen, rfl, h0, hsa, hea, h.symm⟩
theorem parseSelectors_encode (l : List TSel) (bs : Bytes) (h : encodeSelectors l = .ok bs)
    (fuel : Nat) (hf : bs.length < fuel) : parseSelectors fuel bs = some l := by
  induction l generalizing bs fuel with
  | nil =>
    simp [encodeSelectors] at h; subst h
    obtain ⟨f, rfl⟩ : ∃ f, fuel = f + 1 := ⟨fuel - 1, by len_omega⟩
    rfl
  | cons t rest ih =>
    simp only [encodeSelectors] at h
    cases hh : encodeSelector t with
    | err => rw [hh] at h; simp at h
    | fault => rw [hh] at h; simp at h
    | ok hb =>
      cases hr : encodeSelectors rest with
      | err => rw [hh, hr] at h; simp at h
      | fault => rw [hh, hr] at h; simp at h
      | ok tl =>
        rw [hh, hr] at h
        simp only [Res.bind_ok, Res.ok.injEq] at h
        subst h
        obtain ⟨alen, hA, h0, hsa, hea, rfl⟩ := encodeSelector_inv t hb hh
        obtain ⟨f, rfl⟩ : ∃ f, fuel = f + 1 := ⟨fuel - 1, by len_omega⟩
        have hrec := ih tl hr f (by len_omega)
        have hal : alen ≤ 16 := by
          rw [hA]
          split
          · omega
          · split <;> omega
        rw [put16_ofNat _ (by omega)]
        have hstep := parseSelectors_step f alen t.tstype t.proto
          (UInt8.ofNat ((8 + t.saddr.length + t.eaddr.length) / 256)) (UInt8.ofNat ((8 + t.saddr.length + t.eaddr.length) % 256))
          (UInt8.ofNat (t.sport.toNat / 256)) (UInt8.ofNat (t.sport.toNat % 256)) (UInt8.ofNat (t.eport.toNat / 256)) (UInt8.ofNat (t.eport.toNat % 256)) t.saddr t.eaddr tl rest hA h0
          (by rw [len16 (8 + t.saddr.length + t.eaddr.length) (by omega), hsa, hea]; omega) hsa hea hrec
        rw [be16_put, be16_put] at hstep
        simp only [put16, List.cons_append, List.nil_append, List.append_assoc] at hstep ⊢
        exact hstep

theorem parseSelectors_nonempty (fuel : Nat) (b : Bytes) (ts : List TSel)
    (h : parseSelectors fuel b = some ts) : ts.length ≤ b.length := by
  induction fuel generalizing b ts with
  | zero => simp [parseSelectors] at h
  | succ f ih =>
    unfold parseSelectors at h
    split at h
    · simp only [Option.some.injEq] at h; subst h; simp
    · dsimp only at h
      peel h with h0
      peel h with h1
      peel h with h2
      split at h
      · rename_i ts' hp
        simp only [Option.some.injEq] at h; subst h
        have := ih _ _ hp
        len_omega
      · simp at h
    · simp at h

theorem encodeSelectors_parse (fuel : Nat) (bs : Bytes) (l : List TSel)
    (h : parseSelectors fuel bs = some l) : encodeSelectors l = .ok bs := by
  induction fuel generalizing bs l with
  | zero => simp [parseSelectors] at h
  | succ f ih =>
    unfold parseSelectors at h
    split at h
    · simp only [Option.some.injEq] at h; subst h; rfl
    · rename_i t p l0 l1 s0 s1 e0 e1 rest
      dsimp only at h
      peel h with h0
      peel h with hl
      peel h with hlen
      simp only [ne_eq, Decidable.not_not] at hl
      split at h
      · rename_i ts' hp
        simp only [Option.some.injEq] at h
        subst h
        have hrec := ih _ _ hp
        generalize hA : (if t = 7 then 4 else if t = 8 then 16 else 0) = alen at *
        have hal : alen ≤ 16 := by
          rw [← hA]
          split
          · omega
          · split <;> omega
        have hsa : (rest.take alen).length = alen := by rw [List.length_take]; omega
        have hea : ((rest.drop alen).take alen).length = alen := by rw [List.length_take, List.length_drop]; omega
        have hsplit : rest = rest.take alen ++ ((rest.drop alen).take alen ++ rest.drop (2 * alen)) := by
          have : rest.drop (2 * alen) = (rest.drop alen).drop alen := by
            rw [List.drop_drop]; congr 1; omega
          rw [this, List.take_append_drop, List.take_append_drop]
        simp only [encodeSelectors]
        rw [hrec]
        unfold encodeSelector
        simp only [hA, hsa, hea]
        rw [if_neg h0, if_neg (by simp), if_neg (by simp)]
        have h8 : 8 + alen + alen = l0.toNat * 256 + l1.toNat := by omega
        rw [h8, put16_pair, put16_be16, put16_be16]
        simp only [Res.bind_ok, List.cons_append, List.nil_append, List.append_assoc]
        rw [← hsplit]
      · simp at h
    · simp at h

theorem parseTS_encode (mk : List TSel → Payload) (l : List TSel) (bs : Bytes) (h : encodeTS 0 0 0 l = .ok bs) :
    parseTS mk bs = some (mk l) := by
  unfold encodeTS at h
  split at h
  · simp at h
  · rename_i h0
    split at h
    · simp at h
    · rename_i h255
      cases hs : encodeSelectors l with
      | err => rw [hs] at h; simp at h
      | fault => rw [hs] at h; simp at h
      | ok body =>
        rw [hs] at h
        simp only [Res.bind_ok, Res.ok.injEq] at h
        subst h
        simp only [List.cons_append, List.nil_append, parseTS]
        rw [if_neg (by simp), parseSelectors_encode l body hs _ (by omega)]
        simp only
        rw [if_neg]
        intro hc
        rcases hc with hc | hc
        · exact hc (ofNat_toNat_u8 _ (by omega)).symm
        · have := congrArg UInt8.toNat hc
          rw [ofNat_toNat_u8 _ (by omega)] at this
          exact h0 this

theorem encodeTS_parse (mk : List TSel → Payload) (bs : Bytes) (p : Payload) (h : parseTS mk bs = some p) :
    ∃ l, p = mk l ∧ encodeTS 0 0 0 l = .ok bs := by
  unfold parseTS at h
  split at h
  · rename_i n r0 r1 r2 rest
    peel h with hres
    split at h
    · rename_i ts hp
      peel h with hcnt
      simp only [Option.some.injEq] at h
      subst h
      refine ⟨ts, rfl, ?_⟩
      have hn := n.toNat_lt
      have hnt : ts.length = n.toNat := by
        apply Decidable.byContradiction; intro hc; exact hcnt (Or.inl hc)
      have hn0 : n.toNat ≠ 0 := by
        intro hc
        apply hcnt
        right
        apply UInt8.toNat_inj.mp
        rw [hc]; rfl
      have hr0 : r0 = 0 := by
        apply Decidable.byContradiction; intro hc; exact hres (Or.inl hc)
      have hr1 : r1 = 0 := by
        apply Decidable.byContradiction; intro hc; exact hres (Or.inr (Or.inl hc))
      have hr2 : r2 = 0 := by
        apply Decidable.byContradiction; intro hc; exact hres (Or.inr (Or.inr hc))
      subst hr0 hr1 hr2
      unfold encodeTS
      rw [if_neg (by omega), if_neg (by omega), encodeSelectors_parse _ _ _ hp, hnt, u8_ofNat_toNat]
      rfl
    · simp at h
  · simp at h

/-! ### §3.15 configuration -/

theorem encodeCPAttrs_nil_cons (a : CPAttr) (rest : List CPAttr) :
    encodeCPAttrs [] (a :: rest) =
      (if a.atype.toNat ≥ 32768 then .err else
       if a.value.length > 65535 then .err else
         encodeCPAttrs [] rest >>= fun tl =>
         .ok (put16 (UInt16.ofNat (0 + a.atype.toNat)) ++ put16 (UInt16.ofNat a.value.length) ++ a.value ++ tl)) := rfl

theorem parseCPAttrs_encode (l : List CPAttr) (bs : Bytes) (h : encodeCPAttrs [] l = .ok bs)
    (fuel : Nat) (hf : bs.length < fuel) : parseCPAttrs fuel bs = some l := by
  induction l generalizing bs fuel with
  | nil =>
    simp [encodeCPAttrs] at h; subst h
    obtain ⟨f, rfl⟩ : ∃ f, fuel = f + 1 := ⟨fuel - 1, by len_omega⟩
    rfl
  | cons a rest ih =>
    rw [encodeCPAttrs_nil_cons] at h
    split at h
    · simp at h
    · rename_i hty
      split at h
      · simp at h
      · rename_i hv
        cases hr : encodeCPAttrs [] rest with
        | err => rw [hr] at h; simp at h
        | fault => rw [hr] at h; simp at h
        | ok tl =>
          rw [hr] at h
          simp only [Res.bind_ok, Res.ok.injEq, Nat.zero_add] at h
          subst h
          obtain ⟨f, rfl⟩ : ∃ f, fuel = f + 1 := ⟨fuel - 1, by len_omega⟩
          have hrec := ih tl hr f (by len_omega)
          rw [put16_ofNat _ (by omega), put16_ofNat _ (by omega)]
          simp only [List.cons_append, List.nil_append, List.append_assoc]
          unfold parseCPAttrs
          simp only [len16 a.value.length (by omega)]
          rw [if_neg (by rw [ofNat_toNat_u8 _ (by omega)]; omega), if_neg (by len_omega), List.drop_left, hrec,
            List.take_left, be16_put]

theorem encodeCPAttrs_parse (fuel : Nat) (bs : Bytes) (l : List CPAttr)
    (h : parseCPAttrs fuel bs = some l) : encodeCPAttrs [] l = .ok bs := by
  induction fuel generalizing bs l with
  | zero => simp [parseCPAttrs] at h
  | succ f ih =>
    unfold parseCPAttrs at h
    split at h
    · simp only [Option.some.injEq] at h; subst h; rfl
    · rename_i a0 a1 l0 l1 rest
      dsimp only at h
      have ha0 := a0.toNat_lt
      have ha1 := a1.toNat_lt
      have hl0 := l0.toNat_lt
      have hl1 := l1.toNat_lt
      peel h with h128
      peel h with hlen
      split at h
      · rename_i as hp
        simp only [Option.some.injEq] at h
        subst h
        have hrec := ih _ _ hp
        have hv : (rest.take (l0.toNat * 256 + l1.toNat)).length = l0.toNat * 256 + l1.toNat := by
          rw [List.length_take]; omega
        rw [encodeCPAttrs_nil_cons, hrec]
        simp only [be16_toNat, hv, Nat.zero_add]
        rw [if_neg (by omega), if_neg (by omega), put16_pair, put16_pair]
        simp only [Res.bind_ok, List.cons_append, List.nil_append, List.append_assoc, List.take_append_drop]
      · simp at h
    · simp at h

theorem parseCP_encode (ct : UInt8) (l : List CPAttr) (bs : Bytes) (h : encodeCP 0 0 0 [] ct l = .ok bs) :
    parseCP bs = some (.cp ct l) := by
  unfold encodeCP at h
  cases hs : encodeCPAttrs [] l with
  | err => rw [hs] at h; simp at h
  | fault => rw [hs] at h; simp at h
  | ok body =>
    rw [hs] at h
    simp only [Res.bind_ok, Res.ok.injEq] at h
    subst h
    simp only [List.cons_append, List.nil_append, parseCP]
    rw [if_neg (by simp), parseCPAttrs_encode l body hs _ (by omega)]

theorem res3_zero {r0 r1 r2 : UInt8} (h : ¬(r0 ≠ 0 ∨ r1 ≠ 0 ∨ r2 ≠ 0)) : r0 = 0 ∧ r1 = 0 ∧ r2 = 0 := by
  refine ⟨?_, ?_, ?_⟩
  · apply Decidable.byContradiction; intro hc; exact h (Or.inl hc)
  · apply Decidable.byContradiction; intro hc; exact h (Or.inr (Or.inl hc))
  · apply Decidable.byContradiction; intro hc; exact h (Or.inr (Or.inr hc))

theorem encodeCP_parse (bs : Bytes) (p : Payload) (h : parseCP bs = some p) :
    ∃ ct l, p = .cp ct l ∧ encodeCP 0 0 0 [] ct l = .ok bs := by
  unfold parseCP at h
  split at h
  · rename_i ct r0 r1 r2 rest
    peel h with hres
    obtain ⟨rfl, rfl, rfl⟩ := res3_zero hres
    split at h
    · rename_i as hp
      simp only [Option.some.injEq] at h
      subst h
      refine ⟨ct, as, rfl, ?_⟩
      unfold encodeCP
      rw [encodeCPAttrs_parse _ _ _ hp]
      rfl
    · simp at h
  · simp at h

/-! ### the flat bodies -/

theorem parseKE_encode (g : UInt16) (d : Bytes) : parseKE (encodeKE 0 0 g d) = some (.ke g d) := by
  simp only [encodeKE, put16, List.cons_append, List.nil_append, parseKE]
  rw [if_neg (by simp), be16_put]

theorem encodeKE_parse (bs : Bytes) (p : Payload) (h : parseKE bs = some p) :
    ∃ g d, p = .ke g d ∧ encodeKE 0 0 g d = bs := by
  unfold parseKE at h
  split at h
  · rename_i g0 g1 r0 r1 d
    peel h with hres
    simp only [Option.some.injEq] at h
    subst h
    have hr0 : r0 = 0 := by
      apply Decidable.byContradiction; intro hc; exact hres (Or.inl hc)
    have hr1 : r1 = 0 := by
      apply Decidable.byContradiction; intro hc; exact hres (Or.inr hc)
    subst hr0 hr1
    refine ⟨_, _, rfl, ?_⟩
    simp only [encodeKE, put16_be16, List.cons_append, List.nil_append]
  · simp at h

theorem parseTypeRes3_encode (mk : UInt8 → Bytes → Payload) (t : UInt8) (d : Bytes) :
    parseTypeRes3 mk (encodeTypeRes3 0 0 0 t d) = some (mk t d) := by
  simp only [encodeTypeRes3, List.cons_append, List.nil_append, parseTypeRes3]
  rw [if_neg (by simp)]

theorem encodeTypeRes3_parse (mk : UInt8 → Bytes → Payload) (bs : Bytes) (p : Payload)
    (h : parseTypeRes3 mk bs = some p) : ∃ t d, p = mk t d ∧ encodeTypeRes3 0 0 0 t d = bs := by
  unfold parseTypeRes3 at h
  split at h
  · rename_i t r0 r1 r2 d
    peel h with hres
    obtain ⟨rfl, rfl, rfl⟩ := res3_zero hres
    simp only [Option.some.injEq] at h
    exact ⟨t, d, h.symm, rfl⟩
  · simp at h

theorem parseCert_encode (mk : UInt8 → Bytes → Payload) (e : UInt8) (d : Bytes) :
    parseCert mk (encodeCert e d) = some (mk e d) := rfl

theorem encodeCert_parse (mk : UInt8 → Bytes → Payload) (bs : Bytes) (p : Payload)
    (h : parseCert mk bs = some p) : ∃ e d, p = mk e d ∧ encodeCert e d = bs := by
  unfold parseCert at h
  split at h
  · rename_i e d
    simp only [Option.some.injEq] at h
    exact ⟨e, d, h.symm, rfl⟩
  · simp at h

theorem parseNotify_encode (pr : UInt8) (nt : UInt16) (spi d : Bytes) (bs : Bytes)
    (h : encodeNotify pr nt spi d = .ok bs) : parseNotify bs = some (.notify pr nt spi d) := by
  unfold encodeNotify at h
  split at h
  · simp at h
  · rename_i hspi
    simp only [Res.ok.injEq] at h
    subst h
    simp only [put16, List.cons_append, List.nil_append, List.append_assoc, parseNotify]
    have hss : (UInt8.ofNat spi.length).toNat = spi.length := ofNat_toNat_u8 _ (by omega)
    rw [hss, if_neg (by len_omega), be16_put, List.take_left, List.drop_left]

theorem encodeNotify_parse (bs : Bytes) (p : Payload) (h : parseNotify bs = some p) :
    ∃ pr nt spi d, p = .notify pr nt spi d ∧ encodeNotify pr nt spi d = .ok bs := by
  unfold parseNotify at h
  split at h
  · rename_i pr ss t0 t1 rest
    have hss := ss.toNat_lt
    peel h with hlen
    simp only [Option.some.injEq] at h
    refine ⟨_, _, _, _, h.symm, ?_⟩
    have hl : (rest.take ss.toNat).length = ss.toNat := by rw [List.length_take]; omega
    unfold encodeNotify
    rw [hl, if_neg (by omega), u8_ofNat_toNat, put16_be16]
    simp only [List.cons_append, List.nil_append, List.append_assoc, List.take_append_drop]
  · simp at h

/-! ### §3.11 delete -/

theorem read32s_flatten (spis : List UInt32) : read32s ((spis.map put32).flatten) = spis := by
  induction spis with
  | nil => rfl
  | cons v rest ih =>
    simp only [List.map_cons, List.flatten_cons, put32, List.cons_append, List.nil_append, read32s]
    rw [ih, be32_put]

theorem read32s_spec (n : Nat) (b : Bytes) (h : b.length = 4 * n) :
    (read32s b).length = n ∧ ((read32s b).map put32).flatten = b := by
  induction n generalizing b with
  | zero =>
    have : b = [] := List.eq_nil_of_length_eq_zero (by omega)
    subst this
    exact ⟨rfl, rfl⟩
  | succ k ih =>
    match b, h with
    | a :: b1 :: c :: d :: rest, h =>
      have hr : rest.length = 4 * k := by simp only [List.length_cons] at h; omega
      obtain ⟨h1, h2⟩ := ih rest hr
      simp only [read32s, List.length_cons, List.map_cons, List.flatten_cons, put32_be32, h1, h2]
      exact ⟨trivial, rfl⟩
    | [], h => simp at h
    | [_], h => simp at h; omega
    | [_, _], h => simp at h; omega
    | [_, _, _], h => simp at h; omega

theorem parseDelete_encode (pr ss : UInt8) (n : UInt16) (spis : List UInt32) (bs : Bytes)
    (h : encodeDelete pr ss n spis = .ok bs) : parseDelete bs = some (.delete pr ss n spis) := by
  unfold encodeDelete at h
  split at h
  · simp at h
  · rename_i hn
    split at h
    · simp at h
    · rename_i hs
      simp only [ne_eq, Decidable.not_not] at hn
      simp only [Res.ok.injEq] at h
      subst h
      have hnl := n.toNat_lt
      have hflat : ((spis.map put32).flatten).length = 4 * spis.length := by
        clear hn hs
        induction spis with
        | nil => rfl
        | cons v rest ih => simp only [List.map_cons, List.flatten_cons, List.length_append, put32_length, ih,
            List.length_cons]; omega
      simp only [put16, List.cons_append, List.nil_append, parseDelete]
      rw [len16 n.toNat (by omega), if_neg (by rw [hflat, hn]; simp), if_neg, be16_put, read32s_flatten]
      intro hc
      apply hs
      refine ⟨?_, hc.2⟩
      intro he
      subst he
      exact hc.1 hn

theorem encodeDelete_parse (bs : Bytes) (p : Payload) (h : parseDelete bs = some p) :
    ∃ pr ss n spis, p = .delete pr ss n spis ∧ encodeDelete pr ss n spis = .ok bs := by
  unfold parseDelete at h
  split at h
  · rename_i pr ss n0 n1 rest
    dsimp only at h
    peel h with hlen
    peel h with hss
    simp only [ne_eq, Decidable.not_not] at hlen
    simp only [Option.some.injEq] at h
    refine ⟨_, _, _, _, h.symm, ?_⟩
    obtain ⟨h1, h2⟩ := read32s_spec _ rest hlen
    unfold encodeDelete
    rw [be16_toNat, h1, if_neg (by simp), if_neg, h2, put16_be16]
    · rfl
    · intro hc
      apply hss
      refine ⟨?_, hc.2⟩
      intro h0
      apply hc.1
      have : (read32s rest).length = 0 := by rw [h1, h0]
      exact List.eq_nil_of_length_eq_zero this
  · simp at h

/-! ### §3.16 EAP -/

theorem parseEAP_encode (e : Eap) (hd : DomEap e) (bs : Bytes) (h : marshalEap e = .ok bs) :
    parseEAP bs = some (.eap e) := by
  unfold parseEAP
  rw [rt_eap_payload e bs hd h]
  simp only
  rw [if_pos h]

theorem encodeEAP_parse (bs : Bytes) (p : Payload) (h : parseEAP bs = some p) :
    ∃ e, p = .eap e ∧ marshalEap e = .ok bs := by
  unfold parseEAP at h
  split at h
  · rename_i e he
    split at h
    · rename_i hm
      simp only [Option.some.injEq] at h
      exact ⟨e, h.symm, hm⟩
    · simp at h
  · simp at h

/-! ### one payload body -/

theorem parseBody_encode (p : Payload) (hd : p.Dom) (b : Bytes) (h : encodeBody {} p = .ok b) :
    parseBody (payloadType p) b = some p := by
  cases p with
  | sa ps =>
    simp only [encodeBody] at h
    show (parseProposals (b.length + 1) b).map Payload.sa = _
    rw [parseProposals_encode ps hd b h _ (by omega)]
    rfl
  | ke g d =>
    simp only [encodeBody, Res.ok.injEq] at h; subst h
    exact parseKE_encode g d
  | idi t d =>
    simp only [encodeBody, Res.ok.injEq] at h; subst h
    exact parseTypeRes3_encode .idi t d
  | idr t d =>
    simp only [encodeBody, Res.ok.injEq] at h; subst h
    exact parseTypeRes3_encode .idr t d
  | cert t d =>
    simp only [encodeBody, Res.ok.injEq] at h; subst h
    rfl
  | certreq t d =>
    simp only [encodeBody, Res.ok.injEq] at h; subst h
    rfl
  | auth t d =>
    simp only [encodeBody, Res.ok.injEq] at h; subst h
    exact parseTypeRes3_encode .auth t d
  | nonce d =>
    simp only [encodeBody, Res.ok.injEq] at h; subst h
    rfl
  | notify pr nt spi d =>
    simp only [encodeBody] at h
    exact parseNotify_encode pr nt spi d b h
  | delete pr s n spis =>
    simp only [encodeBody] at h
    exact parseDelete_encode pr s n spis b h
  | vendor d =>
    simp only [encodeBody, Res.ok.injEq] at h; subst h
    rfl
  | tsi l =>
    simp only [encodeBody] at h
    exact parseTS_encode .tsi l b h
  | tsr l =>
    simp only [encodeBody] at h
    exact parseTS_encode .tsr l b h
  | sk n d => exact absurd hd (by simp [Payload.Dom])
  | cp ct attrs =>
    simp only [encodeBody] at h
    exact parseCP_encode ct attrs b h
  | eap e =>
    simp only [encodeBody] at h
    exact parseEAP_encode e hd b h

theorem encodeBody_parse (t : UInt8) (b : Bytes) (p : Payload) (h : parseBody t b = some p) :
    encodeBody {} p = .ok b ∧ payloadType p = t := by
  unfold parseBody at h
  by_cases h33 : t = 33
  · rw [if_pos h33] at h
    cases hp : parseProposals (b.length + 1) b with
    | none => rw [hp] at h; simp at h
    | some ps =>
      rw [hp] at h
      simp only [Option.map_some, Option.some.injEq] at h
      subst h
      exact ⟨encodeProposals_parse _ _ _ hp, h33.symm⟩
  rw [if_neg h33] at h
  by_cases h34 : t = 34
  · rw [if_pos h34] at h
    obtain ⟨g, d, rfl, rfl⟩ := encodeKE_parse b p h
    exact ⟨rfl, h34.symm⟩
  rw [if_neg h34] at h
  by_cases h35 : t = 35
  · rw [if_pos h35] at h
    obtain ⟨ty, d, rfl, rfl⟩ := encodeTypeRes3_parse _ b p h
    exact ⟨rfl, h35.symm⟩
  rw [if_neg h35] at h
  by_cases h36 : t = 36
  · rw [if_pos h36] at h
    obtain ⟨ty, d, rfl, rfl⟩ := encodeTypeRes3_parse _ b p h
    exact ⟨rfl, h36.symm⟩
  rw [if_neg h36] at h
  by_cases h37 : t = 37
  · rw [if_pos h37] at h
    obtain ⟨e, d, rfl, rfl⟩ := encodeCert_parse _ b p h
    exact ⟨rfl, h37.symm⟩
  rw [if_neg h37] at h
  by_cases h38 : t = 38
  · rw [if_pos h38] at h
    obtain ⟨e, d, rfl, rfl⟩ := encodeCert_parse _ b p h
    exact ⟨rfl, h38.symm⟩
  rw [if_neg h38] at h
  by_cases h39 : t = 39
  · rw [if_pos h39] at h
    obtain ⟨ty, d, rfl, rfl⟩ := encodeTypeRes3_parse _ b p h
    exact ⟨rfl, h39.symm⟩
  rw [if_neg h39] at h
  by_cases h40 : t = 40
  · rw [if_pos h40] at h
    simp only [Option.some.injEq] at h
    subst h
    exact ⟨rfl, h40.symm⟩
  rw [if_neg h40] at h
  by_cases h41 : t = 41
  · rw [if_pos h41] at h
    obtain ⟨pr, nt, spi, d, rfl, he⟩ := encodeNotify_parse b p h
    exact ⟨he, h41.symm⟩
  rw [if_neg h41] at h
  by_cases h42 : t = 42
  · rw [if_pos h42] at h
    obtain ⟨pr, ss, n, spis, rfl, he⟩ := encodeDelete_parse b p h
    exact ⟨he, h42.symm⟩
  rw [if_neg h42] at h
  by_cases h43 : t = 43
  · rw [if_pos h43] at h
    simp only [Option.some.injEq] at h
    subst h
    exact ⟨rfl, h43.symm⟩
  rw [if_neg h43] at h
  by_cases h44 : t = 44
  · rw [if_pos h44] at h
    obtain ⟨l, rfl, he⟩ := encodeTS_parse _ b p h
    exact ⟨he, h44.symm⟩
  rw [if_neg h44] at h
  by_cases h45 : t = 45
  · rw [if_pos h45] at h
    obtain ⟨l, rfl, he⟩ := encodeTS_parse _ b p h
    exact ⟨he, h45.symm⟩
  rw [if_neg h45] at h
  by_cases h47 : t = 47
  · rw [if_pos h47] at h
    obtain ⟨ct, l, rfl, he⟩ := encodeCP_parse b p h
    exact ⟨he, h47.symm⟩
  rw [if_neg h47] at h
  by_cases h48 : t = 48
  · rw [if_pos h48] at h
    obtain ⟨e, rfl, he⟩ := encodeEAP_parse b p h
    exact ⟨he, h48.symm⟩
  rw [if_neg h48] at h
  simp at h

/-! ### §3.2 the chain -/

theorem encodePayloads_nil_cons (p : Payload) (rest : List Payload) :
    encodePayloads [] (p :: rest) =
      (encodeBody {} p >>= fun body =>
        if 4 + body.length > 65535 then .err else
          encodePayloads [] rest >>= fun tl =>
          .ok ([firstPayloadType rest, 0] ++ put16 (UInt16.ofNat (4 + body.length)) ++ body ++ tl)) := rfl

theorem take_sub4 (a tl : Bytes) : List.take (4 + a.length - 4) (a ++ tl) = a := by
  have : 4 + a.length - 4 = a.length := by omega
  rw [this]; simp

theorem drop_sub4 (a tl : Bytes) : List.drop (4 + a.length - 4) (a ++ tl) = tl := by
  have : 4 + a.length - 4 = a.length := by omega
  rw [this]; simp

theorem parseChain_encode (ps : List Payload) (hd : ∀ p ∈ ps, p.Dom) (bs : Bytes)
    (h : encodePayloads [] ps = .ok bs) (fuel : Nat) (hf : bs.length < fuel) :
    parseChain fuel (firstPayloadType ps) bs = some ps := by
  induction ps generalizing bs fuel with
  | nil =>
    simp [encodePayloads] at h; subst h
    obtain ⟨f, rfl⟩ : ∃ f, fuel = f + 1 := ⟨fuel - 1, by len_omega⟩
    rfl
  | cons p rest ih =>
    rw [encodePayloads_nil_cons] at h
    cases hb : encodeBody {} p with
    | err => rw [hb] at h; simp at h
    | fault => rw [hb] at h; simp at h
    | ok body =>
      rw [hb] at h
      simp only [Res.bind_ok] at h
      split at h
      · simp at h
      · rename_i hlen
        cases hr : encodePayloads [] rest with
        | err => rw [hr] at h; simp at h
        | fault => rw [hr] at h; simp at h
        | ok tl =>
          rw [hr] at h
          simp only [Res.bind_ok, Res.ok.injEq] at h
          subst h
          obtain ⟨f, rfl⟩ : ∃ f, fuel = f + 1 := ⟨fuel - 1, by len_omega⟩
          have hrec := ih (fun q hq => hd q (by simp [hq])) tl hr f (by len_omega)
          have hbody := parseBody_encode p (hd p (by simp)) body hb
          rw [put16_ofNat _ (by omega)]
          show parseChain (f + 1) (payloadType p) _ = _
          simp only [List.cons_append, List.nil_append, List.append_assoc]
          unfold parseChain
          rw [if_neg (payloadType_ne_zero p)]
          simp only [len16 (4 + body.length) (by omega)]
          rw [if_neg (by simp), if_neg (by len_omega), take_sub4, drop_sub4, hbody, hrec]

theorem encodePayloads_parse (fuel : Nat) (t : UInt8) (bs : Bytes) (ps : List Payload)
    (h : parseChain fuel t bs = some ps) : encodePayloads [] ps = .ok bs ∧ firstPayloadType ps = t := by
  induction fuel generalizing t bs ps with
  | zero => simp [parseChain] at h
  | succ f ih =>
    unfold parseChain at h
    by_cases ht : t = 0
    · rw [if_pos ht] at h
      by_cases hb : bs = []
      · rw [if_pos hb] at h
        simp only [Option.some.injEq] at h
        subst h hb ht
        exact ⟨rfl, rfl⟩
      · rw [if_neg hb] at h; simp at h
    · rw [if_neg ht] at h
      split at h
      · rename_i nx fl l0 l1 rest
        dsimp only at h
        have hl0 := l0.toNat_lt
        have hl1 := l1.toNat_lt
        peel h with hfl
        peel h with hlen
        simp only [ne_eq, Decidable.not_not] at hfl
        subst hfl
        split at h
        · rename_i p ps' hpb hpc
          simp only [Option.some.injEq] at h
          subst h
          obtain ⟨hrec, hnx⟩ := ih _ _ _ hpc
          obtain ⟨hbody, hty⟩ := encodeBody_parse _ _ _ hpb
          have hbl : (rest.take (l0.toNat * 256 + l1.toNat - 4)).length = l0.toNat * 256 + l1.toNat - 4 := by
            rw [List.length_take]; omega
          refine ⟨?_, hty⟩
          rw [encodePayloads_nil_cons, hbody, hrec]
          simp only [Res.bind_ok, hbl]
          have h4 : 4 + (l0.toNat * 256 + l1.toNat - 4) = l0.toNat * 256 + l1.toNat := by omega
          rw [h4, if_neg (by omega), put16_pair, hnx]
          simp only [Res.bind_ok, List.cons_append, List.nil_append, List.append_assoc, List.take_append_drop]
        · simp at h
      · simp at h

/-! ### §3.1 header -/

theorem beNat_four (a b c d : UInt8) :
    beNat [a, b, c, d] = ((a.toNat * 256 + b.toNat) * 256 + c.toNat) * 256 + d.toNat := by
  simp [beNat]

theorem four_of_length (x : Bytes) (h : x.length = 4) : ∃ a b c d, x = [a, b, c, d] := by
  match x, h with
  | [a, b, c, d], _ => exact ⟨a, b, c, d, rfl⟩

theorem put32_beNat (x : Bytes) (h : x.length = 4) : put32 (UInt32.ofNat (beNat x)) = x := by
  obtain ⟨a, b, c, d, rfl⟩ := four_of_length x h
  rw [beNat_four]
  exact put32_be32 a b c d

theorem beNat_lt4 (x : Bytes) (h : x.length = 4) : beNat x < 4294967296 := by
  obtain ⟨a, b, c, d, rfl⟩ := four_of_length x h
  rw [beNat_four]
  have := a.toNat_lt
  have := b.toNat_lt
  have := c.toNat_lt
  have := d.toNat_lt
  omega

theorem put64_beNat (x : Bytes) (h : x.length = 8) : put64 (UInt64.ofNat (beNat x)) = x := by
  have hs : x = x.take 4 ++ x.drop 4 := (List.take_append_drop 4 x).symm
  have hu : (x.take 4).length = 4 := by rw [List.length_take]; omega
  have hv : (x.drop 4).length = 4 := by rw [List.length_drop]; omega
  generalize x.take 4 = u at hs hu
  generalize x.drop 4 = v at hs hv
  subst hs
  have h1 := beNat_lt4 u hu
  have h2 := beNat_lt4 v hv
  have hp : (256 : Nat) ^ 4 = 4294967296 := by decide
  unfold put64
  rw [beNat_append, hv, hp, UInt64.toNat_ofNat']
  have e1 : (beNat u * 4294967296 + beNat v) % 2 ^ 64 / 4294967296 = beNat u := by omega
  have e2 : (beNat u * 4294967296 + beNat v) % 2 ^ 64 % 4294967296 = beNat v := by omega
  rw [e1, e2, put32_beNat u hu, put32_beNat v hv]

theorem byteAt_drop (b : Bytes) (n i : Nat) : byteAt (b.drop n) i = byteAt b (n + i) := by
  simp [byteAt, List.getD_eq_getElem?_getD, List.getElem?_drop]

theorem take4_eq (y : Bytes) (h : 4 ≤ y.length) : y.take 4 = [byteAt y 0, byteAt y 1, byteAt y 2, byteAt y 3] := by
  match y, h with
  | a :: b :: c :: d :: rest, _ => simp

theorem take4_drop (b : Bytes) (n : Nat) (h : n + 4 ≤ b.length) :
    (b.drop n).take 4 = [byteAt b n, byteAt b (n + 1), byteAt b (n + 2), byteAt b (n + 3)] := by
  rw [take4_eq _ (by rw [List.length_drop]; omega)]
  simp only [byteAt_drop, Nat.add_zero]

/-- a datagram of at least 28 octets, cut along the fields of the header figure -/
theorem header_cut (b : Bytes) (h : 28 ≤ b.length) :
    b = b.take 8 ++ (b.drop 8).take 8 ++ [byteAt b 16, byteAt b 17, byteAt b 18, byteAt b 19] ++
      (b.drop 20).take 4 ++ (b.drop 24).take 4 ++ b.drop 28 := by
  have e1 : b = b.take 8 ++ b.drop 8 := (List.take_append_drop 8 b).symm
  have e2 : b.drop 8 = (b.drop 8).take 8 ++ b.drop 16 := by
    have := (List.take_append_drop 8 (b.drop 8)).symm
    rwa [List.drop_drop] at this
  have e3 : b.drop 16 = (b.drop 16).take 4 ++ b.drop 20 := by
    have := (List.take_append_drop 4 (b.drop 16)).symm
    rwa [List.drop_drop] at this
  have e4 : b.drop 20 = (b.drop 20).take 4 ++ b.drop 24 := by
    have := (List.take_append_drop 4 (b.drop 20)).symm
    rwa [List.drop_drop] at this
  have e5 : b.drop 24 = (b.drop 24).take 4 ++ b.drop 28 := by
    have := (List.take_append_drop 4 (b.drop 24)).symm
    rwa [List.drop_drop] at this
  have e6 := take4_drop b 16 (by omega)
  simp only [Nat.reduceAdd] at e6
  rw [← e6]
  simp only [List.append_assoc]
  rw [← e5, ← e4, ← e3, ← e2, ← e1]

theorem version_nibbles (a b : UInt8) (ha : a.toNat < 16) (hb : b.toNat < 16) :
    UInt8.ofNat ((UInt8.ofNat (16 * a.toNat + b.toNat)).toNat / 16) = a ∧
    UInt8.ofNat ((UInt8.ofNat (16 * a.toNat + b.toNat)).toNat % 16) = b := by
  rw [ofNat_toNat_u8 _ (by omega)]
  constructor
  · apply UInt8.toNat_inj.mp
    rw [ofNat_toNat_u8 _ (by omega)]; omega
  · apply UInt8.toNat_inj.mp
    rw [ofNat_toNat_u8 _ (by omega)]; omega

theorem u32_ofNat_toNat (v : UInt32) : UInt32.ofNat v.toNat = v := by
  apply UInt32.toNat_inj.mp
  have := v.toNat_lt
  simp only [UInt32.toNat_ofNat']
  omega

/-- **forward, whole datagram** -/
theorem parse_encode (m : Msg) (hd : m.Dom) (bs : Bytes) (h : Spec.encode [] m = .ok bs) :
    Spec.parse bs = some ⟨{ m.hdr with next := firstPayloadType m.payloads, payloadBytes := bs.drop 28 }, m.payloads⟩ := by
  unfold Spec.encode at h
  cases hc : encodePayloads [] m.payloads with
  | err => rw [hc] at h; simp at h
  | fault => rw [hc] at h; simp at h
  | ok chain =>
    rw [hc] at h
    simp only [Res.bind_ok] at h
    unfold encodeHeader at h
    split at h
    · simp at h
    · rename_i hmaj
      split at h
      · simp at h
      · rename_i hmin
        split at h
        · simp at h
        · rename_i hbig
          simp only [Res.bind_ok, Res.ok.injEq] at h
          subst h
          have hL : (UInt32.ofNat (28 + chain.length)).toNat = 28 + chain.length := ofNat_toNat_u32 _ (by omega)
          generalize hv : UInt8.ofNat (16 * m.hdr.major.toNat + m.hdr.minor.toNat) = v
          generalize hLw : UInt32.ofNat (28 + chain.length) = L at hL
          have hlen : (put64 m.hdr.ispi ++ put64 m.hdr.rspi ++ [firstPayloadType m.payloads, v, m.hdr.exch, m.hdr.flags] ++
              put32 m.hdr.mid ++ put32 L ++ chain).length = 28 + chain.length := by simp; omega
          have hd28 : List.drop 28 (put64 m.hdr.ispi ++ put64 m.hdr.rspi ++ [firstPayloadType m.payloads, v, m.hdr.exch, m.hdr.flags] ++
              put32 m.hdr.mid ++ put32 L ++ chain) = chain := drop_prefix_eq _ _ _ (by simp)
          have hd24 : List.take 4 (List.drop 24 (put64 m.hdr.ispi ++ put64 m.hdr.rspi ++ [firstPayloadType m.payloads, v, m.hdr.exch, m.hdr.flags] ++
              put32 m.hdr.mid ++ put32 L ++ chain)) = put32 L := by
            simp only [List.append_assoc]
            rw [← List.append_assoc (put64 _), ← List.append_assoc (put64 _ ++ _), ← List.append_assoc (put64 _ ++ _ ++ _),
              drop_prefix_eq _ _ _ (by simp), take_prefix_eq _ _ _ (by simp)]
          have hd20 : List.take 4 (List.drop 20 (put64 m.hdr.ispi ++ put64 m.hdr.rspi ++ [firstPayloadType m.payloads, v, m.hdr.exch, m.hdr.flags] ++
              put32 m.hdr.mid ++ put32 L ++ chain)) = put32 m.hdr.mid := by
            simp only [List.append_assoc]
            rw [← List.append_assoc (put64 _), ← List.append_assoc (put64 _ ++ _),
              drop_prefix_eq _ _ _ (by simp), take_prefix_eq _ _ _ (by simp)]
          have hd8 : List.drop 8 (put64 m.hdr.ispi ++ put64 m.hdr.rspi ++ [firstPayloadType m.payloads, v, m.hdr.exch, m.hdr.flags] ++
              put32 m.hdr.mid ++ put32 L ++ chain) = put64 m.hdr.rspi ++ ([firstPayloadType m.payloads, v, m.hdr.exch, m.hdr.flags] ++
              put32 m.hdr.mid ++ put32 L ++ chain) := by
            simp only [List.append_assoc]
            rw [drop_prefix_eq _ _ _ (by simp)]
          have hb : ∀ i, byteAt (put64 m.hdr.ispi ++ put64 m.hdr.rspi ++ [firstPayloadType m.payloads, v, m.hdr.exch, m.hdr.flags] ++
              put32 m.hdr.mid ++ put32 L ++ chain) (16 + i) =
              byteAt ([firstPayloadType m.payloads, v, m.hdr.exch, m.hdr.flags] ++ (put32 m.hdr.mid ++ put32 L ++ chain)) i := by
            intro i
            have := byteAt_append_right (put64 m.hdr.ispi ++ put64 m.hdr.rspi)
              ([firstPayloadType m.payloads, v, m.hdr.exch, m.hdr.flags] ++ (put32 m.hdr.mid ++ put32 L ++ chain)) i
            simp only [List.length_append, put64_length, Nat.reduceAdd] at this
            simp only [List.append_assoc] at this ⊢
            exact this
          have hb16 := hb 0
          have hb17 := hb 1
          have hb18 := hb 2
          have hb19 := hb 3
          simp only [Nat.reduceAdd, List.cons_append, List.nil_append, byteAt_cons_zero, byteAt_cons_succ] at hb16 hb17 hb18 hb19
          have hi : be64 (put64 m.hdr.ispi ++ put64 m.hdr.rspi ++ [firstPayloadType m.payloads, v, m.hdr.exch, m.hdr.flags] ++
              put32 m.hdr.mid ++ put32 L ++ chain) = m.hdr.ispi := by
            simp only [List.append_assoc]
            exact be64_put64 _ _
          obtain ⟨hvmaj, hvmin⟩ := version_nibbles m.hdr.major m.hdr.minor (by omega) (by omega)
          rw [hv] at hvmaj hvmin
          unfold Spec.parse
          rw [if_neg (by omega), hd24, beNat_put32, hL, if_neg (by rw [hlen]; simp), hd28, hd20, hd8, be64_put64, hi,
            beNat_put32, u32_ofNat_toNat]
          simp only [List.cons_append, List.nil_append, List.append_assoc] at hb16 hb17 hb18 hb19 ⊢
          rw [hb16, hb17, hb18, hb19, parseChain_encode m.payloads hd.2.2 chain hc _ (by len_omega), hvmaj, hvmin]

theorem put64_be64 (b : Bytes) (h : 8 ≤ b.length) : put64 (be64 b) = b.take 8 := by
  unfold be64
  exact put64_beNat _ (by rw [List.length_take]; omega)

/-- **strict, whole datagram** -/
theorem encode_parse (bs : Bytes) (m : Msg) (h : Spec.parse bs = some m) : Spec.encode [] m = .ok bs := by
  unfold Spec.parse at h
  peel h with h28
  peel h with hlen
  simp only [ne_eq, Decidable.not_not] at hlen
  split at h
  · simp at h
  · rename_i ps hpc
    simp only [Option.some.injEq] at h
    subst h
    obtain ⟨hchain, hfirst⟩ := encodePayloads_parse _ _ _ _ hpc
    have hv := (byteAt bs 17).toNat_lt
    have h4 : ((bs.drop 24).take 4).length = 4 := by rw [List.length_take, List.length_drop]; omega
    have h4' : ((bs.drop 20).take 4).length = 4 := by rw [List.length_take, List.length_drop]; omega
    have hlt := beNat_lt4 _ h4
    unfold Spec.encode
    simp only [hchain, Res.bind_ok, hfirst]
    unfold encodeHeader
    simp only
    rw [ofNat_toNat_u8 _ (by omega), ofNat_toNat_u8 _ (by omega), if_neg (by omega), if_neg (by omega),
      List.length_drop, if_neg (by omega)]
    have e1 : 16 * ((byteAt bs 17).toNat / 16) + (byteAt bs 17).toNat % 16 = (byteAt bs 17).toNat := by omega
    have e2 : 28 + (bs.length - 28) = beNat ((bs.drop 24).take 4) := by omega
    rw [e1, e2, u8_ofNat_toNat, put32_beNat _ h4, put32_beNat _ h4', put64_be64 _ (by omega),
      put64_be64 _ (by rw [List.length_drop]; omega)]
    simp only [Res.bind_ok]
    rw [← header_cut bs (by omega)]

end Ike.ParseLemmas
