import IkeModel.Spec.SkOpen
import IkeProofs.Lemmas.Sk
import IkeProofs.Lemmas.Parse
import IkeProofs.Lemmas.Cbc

/-! Lemmas about the independent receiver `Spec.skOpen` (IkeModel/Spec/SkOpen.lean): the header
reader on a header written field by field, and the opener on a datagram given by its pieces. -/

set_option linter.unusedVariables false
set_option linter.unusedSimpArgs false

namespace Ike
open Spec ParseLemmas

/-- the header reader on the octets of the header figure followed by anything -/
theorem readHeader_fields (i r : UInt64) (n v e f : UInt8) (mid L : UInt32) (rest : Bytes) :
    readHeader (put64 i ++ put64 r ++ [n, v, e, f] ++ put32 mid ++ put32 L ++ rest) =
      { ispi := i, rspi := r, major := UInt8.ofNat (v.toNat / 16), minor := UInt8.ofNat (v.toNat % 16),
        exch := e, flags := f, mid := mid, next := n, payloadBytes := rest } := by
  have hd28 : List.drop 28 (put64 i ++ put64 r ++ [n, v, e, f] ++ put32 mid ++ put32 L ++ rest) = rest :=
    drop_prefix_eq _ _ _ (by simp)
  have hd20 : List.take 4 (List.drop 20 (put64 i ++ put64 r ++ [n, v, e, f] ++ put32 mid ++ put32 L ++ rest)) =
      put32 mid := by
    simp only [List.append_assoc]
    rw [← List.append_assoc (put64 _), ← List.append_assoc (put64 _ ++ _),
      drop_prefix_eq _ _ _ (by simp), take_prefix_eq _ _ _ (by simp)]
  have hd8 : List.drop 8 (put64 i ++ put64 r ++ [n, v, e, f] ++ put32 mid ++ put32 L ++ rest) =
      put64 r ++ ([n, v, e, f] ++ put32 mid ++ put32 L ++ rest) := by
    simp only [List.append_assoc]
    rw [drop_prefix_eq _ _ _ (by simp)]
  have hb : ∀ j, byteAt (put64 i ++ put64 r ++ [n, v, e, f] ++ put32 mid ++ put32 L ++ rest) (16 + j) =
      byteAt ([n, v, e, f] ++ (put32 mid ++ put32 L ++ rest)) j := by
    intro j
    have := byteAt_append_right (put64 i ++ put64 r) ([n, v, e, f] ++ (put32 mid ++ put32 L ++ rest)) j
    simp only [List.length_append, put64_length, Nat.reduceAdd] at this
    simp only [List.append_assoc] at this ⊢
    exact this
  have hb16 := hb 0
  have hb17 := hb 1
  have hb18 := hb 2
  have hb19 := hb 3
  simp only [Nat.reduceAdd, List.cons_append, List.nil_append, byteAt_cons_zero, byteAt_cons_succ] at hb16 hb17 hb18 hb19
  have hi : be64 (put64 i ++ put64 r ++ [n, v, e, f] ++ put32 mid ++ put32 L ++ rest) = i := by
    simp only [List.append_assoc]
    exact be64_put64 _ _
  unfold readHeader
  rw [hd28, hd20, hd8, be64_put64, hi, beNat_put32, u32_ofNat_toNat]
  simp only [List.cons_append, List.nil_append, List.append_assoc] at hb16 hb17 hb18 hb19 ⊢
  rw [hb16, hb17, hb18, hb19]

/-- `Spec.parse` (the independent parser of C05) reads the header with `readHeader` -/
theorem parse_hdr_eq_readHeader (b : Bytes) (m : Msg) (h : Spec.parse b = some m) : m.hdr = readHeader b := by
  unfold Spec.parse at h
  split at h
  · cases h
  · split at h
    · cases h
    · split at h
      · cases h
      · simp only [Option.some.injEq] at h
        subst h
        rfl

/-- the last octet of `x ++ [c]` -/
theorem byteAt_snoc_last (x : Bytes) (c : UInt8) : byteAt (x ++ [c]) ((x ++ [c]).length - 1) = c := by
  have := byteAt_append_right x [c] 0
  simp only [Nat.add_zero, byteAt_cons_zero] at this
  rw [List.length_append, List.length_singleton, Nat.add_sub_cancel]
  exact this

/-- the opener on a datagram described by its cuts: header facts, the Encrypted payload's generic
header, `rest = IV ‖ ct ‖ checksum`, a right checksum and a ciphertext that CBC-decrypts to
`inner ‖ pad ‖ [|pad|]` -/
theorem skOpen_of_cuts (P : Prims) (k : SkParams) (msg : Bytes) (ft l0 l1 : UInt8) (iv ct icv inner pad : Bytes)
    (hiv : iv.length = 16) (hct : ct.length = inner.length + pad.length + 1)
    (hal : (inner.length + pad.length + 1) % 16 = 0) (hpad : pad.length ≤ 255)
    (hicvl : icv.length = k.icvLen)
    (hlen : msg.length = 48 + ct.length + k.icvLen)
    (hL : beNat ((msg.drop 24).take 4) = msg.length)
    (h16 : byteAt msg 16 = 46)
    (h28 : msg.drop 28 = ft :: 0 :: l0 :: l1 :: (iv ++ ct ++ icv))
    (hl : l0.toNat * 256 + l1.toNat = 20 + ct.length + k.icvLen)
    (hicv : msg.drop (msg.length - k.icvLen) = skExpectedIcv P k msg)
    (hdec : cbcDec (P.dec k.ke) iv ct = inner ++ pad ++ [UInt8.ofNat pad.length]) :
    skOpen P k msg = some (readHeader msg, ft, inner, pad) := by
  unfold skOpen
  rw [if_neg (by omega), if_neg (by omega), if_neg (by simp [h16]), h28]
  simp only
  have hrl : (iv ++ ct ++ icv).length = 16 + ct.length + k.icvLen := by
    simp only [List.length_append, hiv, hicvl]
  rw [if_neg (by simp), if_neg (by rw [hrl]; omega), if_neg (by simp [hicv])]
  have e1 : List.take 16 (iv ++ ct ++ icv) = iv := by
    rw [List.append_assoc]; exact take_prefix_eq _ _ _ hiv.symm
  have e2 : List.take ((iv ++ ct ++ icv).length - 16 - k.icvLen) (List.drop 16 (iv ++ ct ++ icv)) = ct := by
    rw [List.append_assoc, drop_prefix_eq _ _ _ hiv.symm, ← List.append_assoc, hrl]
    exact take_prefix_eq _ _ _ (by omega)
  rw [e1, e2, if_neg (by omega), hdec, byteAt_snoc_last, ofNat_toNat_u8 _ hpad]
  have hpl : (inner ++ pad ++ [UInt8.ofNat pad.length]).length = inner.length + pad.length + 1 := by
    simp only [List.length_append, List.length_singleton]
  rw [if_neg (by omega), hpl, show inner.length + pad.length + 1 - (pad.length + 1) = inner.length by omega]
  have e3 : List.take inner.length (inner ++ pad ++ [UInt8.ofNat pad.length]) = inner := by
    rw [List.append_assoc]; exact take_prefix_eq _ _ _ rfl
  have e4 : List.take pad.length (List.drop inner.length (inner ++ pad ++ [UInt8.ofNat pad.length])) = pad := by
    rw [List.append_assoc, drop_prefix_eq _ _ _ rfl]; exact take_prefix_eq _ _ _ rfl
  rw [e3, e4]

/-- a list of `n + 1` octets is its first `n` octets and its last one -/
theorem take_snoc_byteAt (y : Bytes) (n : Nat) (h : y.length = n + 1) : y = y.take n ++ [byteAt y n] := by
  induction y generalizing n with
  | nil => simp at h
  | cons a as ih =>
    cases n with
    | zero =>
      have : as = [] := List.eq_nil_of_length_eq_zero (by simpa using h)
      subst this; simp
    | succ n =>
      simp only [List.take_succ_cons, List.cons_append, byteAt_cons_succ, List.cons.injEq, true_and]
      exact ih n (by simpa using h)

theorem u8_ofNat_toNat (x : UInt8) : UInt8.ofNat x.toNat = x := by
  apply UInt8.toNat_inj.mp
  rw [ofNat_toNat_u8 _ (by have := x.toNat_lt; omega)]

/-- the cut of a plaintext into inner octets, padding and Pad Length puts it together again -/
theorem pad_cut (pt : Bytes) (hn : (byteAt pt (pt.length - 1)).toNat + 1 ≤ pt.length) :
    pt.take (pt.length - ((byteAt pt (pt.length - 1)).toNat + 1)) ++
      (pt.drop (pt.length - ((byteAt pt (pt.length - 1)).toNat + 1))).take (byteAt pt (pt.length - 1)).toNat ++
      [UInt8.ofNat ((pt.drop (pt.length - ((byteAt pt (pt.length - 1)).toNat + 1))).take
        (byteAt pt (pt.length - 1)).toNat).length] = pt ∧
    ((pt.drop (pt.length - ((byteAt pt (pt.length - 1)).toNat + 1))).take
        (byteAt pt (pt.length - 1)).toNat).length = (byteAt pt (pt.length - 1)).toNat := by
  generalize hnn : (byteAt pt (pt.length - 1)).toNat = n at *
  have hdl : (pt.drop (pt.length - (n + 1))).length = n + 1 := by rw [List.length_drop]; omega
  have htl : ((pt.drop (pt.length - (n + 1))).take n).length = n := by rw [List.length_take, hdl]; omega
  refine ⟨?_, htl⟩
  have hof : UInt8.ofNat n = byteAt pt (pt.length - 1) := by rw [← hnn, u8_ofNat_toNat]
  have hlast : byteAt pt (pt.length - 1) = byteAt (pt.drop (pt.length - (n + 1))) n := by
    rw [byteAt_drop]; congr 1; omega
  rw [htl, hof, hlast, List.append_assoc, ← take_snoc_byteAt _ n hdl, List.take_append_drop]

/-- **everything the opener accepts has the §3.14 layout** -/
theorem skOpen_some_inv (P : Prims) (k : SkParams) (msg : Bytes) (hd : Header) (ft : UInt8) (inner pad : Bytes)
    (h : skOpen P k msg = some (hd, ft, inner, pad)) :
    28 + 4 + 16 + 16 + k.icvLen ≤ msg.length ∧
    beNat ((msg.drop 24).take 4) = msg.length ∧ byteAt msg 16 = 46 ∧ byteAt msg 29 = 0 ∧
    (byteAt msg 30).toNat * 256 + (byteAt msg 31).toNat = msg.length - 28 ∧
    msg.drop (msg.length - k.icvLen) = skExpectedIcv P k msg ∧
    (msg.length - 48 - k.icvLen) % 16 = 0 ∧
    hd = readHeader msg ∧ ft = byteAt msg 28 ∧ pad.length ≤ 255 ∧
    inner ++ pad ++ [UInt8.ofNat pad.length] =
      cbcDec (P.dec k.ke) ((msg.drop 32).take 16) ((msg.drop 48).take (msg.length - 48 - k.icvLen)) := by
  unfold skOpen at h
  by_cases c1 : msg.length < 28 + 4 + 16 + 16 + k.icvLen
  · rw [if_pos c1] at h; cases h
  rw [if_neg c1] at h
  by_cases c2 : beNat ((msg.drop 24).take 4) ≠ msg.length
  · rw [if_pos c2] at h; cases h
  rw [if_neg c2] at h
  by_cases c3 : byteAt msg 16 ≠ 46
  · rw [if_pos c3] at h; cases h
  rw [if_neg c3] at h
  have hb : ∀ j, byteAt msg (28 + j) = byteAt (msg.drop 28) j := fun j => (byteAt_drop msg 28 j).symm
  have hb28 := hb 0
  have hb29 := hb 1
  have hb30 := hb 2
  have hb31 := hb 3
  have hd32 : msg.drop 32 = (msg.drop 28).drop 4 := by rw [List.drop_drop]
  have hd48 : msg.drop 48 = ((msg.drop 28).drop 4).drop 16 := by rw [List.drop_drop, List.drop_drop]
  have hdl : (msg.drop 28).length = msg.length - 28 := List.length_drop
  simp only [Nat.reduceAdd] at hb28 hb29 hb30 hb31
  rw [hb28, hb29, hb30, hb31, hd32, hd48]
  generalize msg.drop 28 = body at h hdl
  match body, h with
  | nx :: fl :: l0 :: l1 :: rest, h =>
    simp only at h
    simp only [List.length_cons] at hdl
    by_cases c4 : fl ≠ 0
    · rw [if_pos c4] at h; cases h
    rw [if_neg c4] at h
    by_cases c5 : l0.toNat * 256 + l1.toNat ≠ 4 + rest.length
    · rw [if_pos c5] at h; cases h
    rw [if_neg c5] at h
    by_cases c6 : msg.drop (msg.length - k.icvLen) ≠ skExpectedIcv P k msg
    · rw [if_pos c6] at h; cases h
    rw [if_neg c6] at h
    have hrl : rest.length - 16 - k.icvLen = msg.length - 48 - k.icvLen := by omega
    have hctl : ((rest.drop 16).take (rest.length - 16 - k.icvLen)).length = msg.length - 48 - k.icvLen := by
      rw [List.length_take, List.length_drop]; omega
    rw [hctl] at h
    by_cases c7 : (msg.length - 48 - k.icvLen) % 16 ≠ 0
    · rw [if_pos c7] at h; cases h
    rw [if_neg c7] at h
    rw [hrl] at h
    simp only [List.drop_succ_cons, List.drop_zero, byteAt_cons_zero, byteAt_cons_succ]
    generalize cbcDec (P.dec k.ke) (rest.take 16) ((rest.drop 16).take (msg.length - 48 - k.icvLen)) = pt at h
    by_cases c8 : pt.length < (byteAt pt (pt.length - 1)).toNat + 1
    · rw [if_pos c8] at h; cases h
    rw [if_neg c8] at h
    simp only [Option.some.injEq, Prod.mk.injEq] at h
    obtain ⟨e1, e2, e3, e4⟩ := h
    obtain ⟨p1, p2⟩ := pad_cut pt (by omega)
    subst e1 e2 e3 e4
    refine ⟨by omega, by simpa using c2, by simpa using c3, by simpa using c4, by simp at c5; omega,
      by simpa using c6, by simpa using c7, rfl, rfl, ?_, p1⟩
    rw [p2]
    have := (byteAt pt (pt.length - 1)).toNat_lt
    omega

/-- the RFC message cut after the fixed header -/
theorem skMessage_cut (P : Prims) (k : SkParams) (h : Header) (ft : UInt8) (inner iv pad : Bytes) :
    skMessage P k h ft inner iv pad =
      put64 h.ispi ++ put64 h.rspi ++ [(46 : UInt8), (h.major <<< 4) ||| (h.minor &&& 0x0F), h.exch, h.flags] ++ put32 h.mid ++
        put32 (UInt32.ofNat (skTotal P k inner iv pad)) ++
      (ft :: 0 :: UInt8.ofNat ((UInt16.ofNat (skTotal P k inner iv pad - 28)).toNat / 256) ::
        UInt8.ofNat ((UInt16.ofNat (skTotal P k inner iv pad - 28)).toNat % 256) ::
        (iv ++ skCt P k inner iv pad ++ skIcv P k h ft inner iv pad)) := by
  rw [skMessage_eq]
  unfold skSigned
  have : Facts.typeSK = 46 := rfl
  simp only [this, put16, List.append_assoc, List.cons_append, List.nil_append]

/-- **the independent opener on the RFC message** -/
theorem skOpen_skMessage (P : Prims) (hP : P.Lawful) (k : SkParams) (hicv : k.icvLen ≤ P.macLen k.hash)
    (h : Header) (hmaj : h.major.toNat < 16) (hmin : h.minor.toNat < 16) (ft : UInt8)
    (inner iv pad : Bytes) (hiv : iv.length = 16) (hpad : pad.length ≤ 255)
    (hal : (inner.length + pad.length + 1) % 16 = 0)
    (hfit : 4 + 16 + (inner.length + pad.length + 1) + k.icvLen ≤ 0xFFFF) :
    skOpen P k (skMessage P k h ft inner iv pad) = some (skHeader P k h ft inner iv pad, ft, inner, pad) := by
  have hctl := skCt_length P hP k inner iv pad hiv hal
  have hil := skIcv_length P hP k h ft inner iv pad hicv
  have hT : skTotal P k inner iv pad = 48 + (skCt P k inner iv pad).length + k.icvLen := by
    simp only [skTotal, hiv]
  have hsl := skSigned_length P k h ft inner iv pad
  have hml : (skMessage P k h ft inner iv pad).length = 48 + (skCt P k inner iv pad).length + k.icvLen := by
    rw [skMessage_eq, List.length_append, hsl, hil, hiv]
  have hcut := skMessage_cut P k h ft inner iv pad
  have hL : (UInt32.ofNat (skTotal P k inner iv pad)).toNat = skTotal P k inner iv pad :=
    ofNat_toNat_u32 _ (by omega)
  have hl : (UInt16.ofNat (skTotal P k inner iv pad - 28)).toNat = skTotal P k inner iv pad - 28 :=
    ofNat_toNat_u16 _ (by omega)
  have hrh := readHeader_fields h.ispi h.rspi 46 ((h.major <<< 4) ||| (h.minor &&& 0x0F)) h.exch h.flags h.mid
    (UInt32.ofNat (skTotal P k inner iv pad))
    (ft :: 0 :: UInt8.ofNat ((UInt16.ofNat (skTotal P k inner iv pad - 28)).toNat / 256) ::
        UInt8.ofNat ((UInt16.ofNat (skTotal P k inner iv pad - 28)).toNat % 256) ::
        (iv ++ skCt P k inner iv pad ++ skIcv P k h ft inner iv pad))
  rw [← hcut] at hrh
  have h24 : List.take 4 (List.drop 24 (skMessage P k h ft inner iv pad)) =
      put32 (UInt32.ofNat (skTotal P k inner iv pad)) := by
    rw [hcut]
    simp only [List.append_assoc]
    rw [← List.append_assoc (put64 _), ← List.append_assoc (put64 _ ++ _), ← List.append_assoc (put64 _ ++ _ ++ _),
      drop_prefix_eq _ _ _ (by simp), take_prefix_eq _ _ _ (by simp)]
  have hres := skOpen_of_cuts P k (skMessage P k h ft inner iv pad) ft
    (UInt8.ofNat ((UInt16.ofNat (skTotal P k inner iv pad - 28)).toNat / 256))
    (UInt8.ofNat ((UInt16.ofNat (skTotal P k inner iv pad - 28)).toNat % 256))
    iv (skCt P k inner iv pad) (skIcv P k h ft inner iv pad) inner pad hiv hctl hal hpad hil hml
    (by rw [h24, beNat_put32, hL, hT, hml])
    (by have := congrArg Header.next hrh; exact this)
    (by have := congrArg Header.payloadBytes hrh; exact this)
    (by rw [hl, ofNat_toNat_u8 _ (by omega), ofNat_toNat_u8 _ (by omega)]; omega)
    (by
      unfold skExpectedIcv
      rw [hml, skMessage_eq]
      rw [drop_prefix_eq _ _ _ (by rw [hsl, hiv]; omega), take_prefix_eq _ _ _ (by rw [hsl, hiv]; omega)]
      rfl)
    (sk_cbcDec_cbcEnc _ _ (hP.enc_len k.ke) (hP.dec_enc k.ke) iv _ hiv
      (by simp only [List.length_append, List.length_singleton]; omega))
  rw [hres, hrh]
  obtain ⟨hvmaj, hvmin⟩ := version_nibbles h.major h.minor hmaj hmin
  rw [version_octet' _ _ hmaj hmin, hvmaj, hvmin]
  have e1 : 4 + (skEnc P k h ft inner iv pad).length = skTotal P k inner iv pad - 28 := by
    simp only [skEnc, List.length_append, hil, skTotal]; omega
  simp only [skHeader]
  rw [e1]
  simp only [skEnc, put16, List.append_assoc, List.cons_append, List.nil_append]
  rfl

/-- the payload octets of the parsed header are the datagram after its first 28 octets -/
theorem skHeader_payloadBytes (P : Prims) (hP : P.Lawful) (k : SkParams) (hicv : k.icvLen ≤ P.macLen k.hash)
    (h : Header) (ft : UInt8) (inner iv pad : Bytes) :
    (skHeader P k h ft inner iv pad).payloadBytes = (skMessage P k h ft inner iv pad).drop 28 := by
  have hil := skIcv_length P hP k h ft inner iv pad hicv
  have e1 : 4 + (skEnc P k h ft inner iv pad).length = skTotal P k inner iv pad - 28 := by
    simp only [skEnc, List.length_append, hil, skTotal]; omega
  rw [skMessage_cut, drop_prefix_eq _ _ _ (by simp)]
  simp only [skHeader]
  rw [e1]
  simp only [skEnc, put16, List.append_assoc, List.cons_append, List.nil_append]

/-! ### the library's receiver on what the independent opener accepts -/

/-- a datagram of at least 28 octets whose Length field is its size is the marshalling of the
header read from it -/
theorem marshal_readHeader (b : Bytes) (h28 : 28 ≤ b.length) (hL : beNat ((b.drop 24).take 4) = b.length) :
    marshalHeader (readHeader b) = .ok b := by
  have hv := (byteAt b 17).toNat_lt
  have h4 : ((b.drop 24).take 4).length = 4 := by rw [List.length_take, List.length_drop]; omega
  have h4' : ((b.drop 20).take 4).length = 4 := by rw [List.length_take, List.length_drop]; omega
  have hlt := beNat_lt4 _ h4
  have hmaj : (UInt8.ofNat ((byteAt b 17).toNat / 16)).toNat = (byteAt b 17).toNat / 16 := ofNat_toNat_u8 _ (by omega)
  have hmin : (UInt8.ofNat ((byteAt b 17).toNat % 16)).toNat = (byteAt b 17).toNat % 16 := ofNat_toNat_u8 _ (by omega)
  have hver : (UInt8.ofNat ((byteAt b 17).toNat / 16) <<< 4) ||| (UInt8.ofNat ((byteAt b 17).toNat % 16) &&& 0x0F) =
      byteAt b 17 := by
    rw [version_octet' _ _ (by omega) (by omega), hmaj, hmin,
      show 16 * ((byteAt b 17).toNat / 16) + (byteAt b 17).toNat % 16 = (byteAt b 17).toNat by omega, u8_ofNat_toNat]
  unfold marshalHeader
  have e : Facts.ikeHeaderLen = 28 := rfl
  simp only [readHeader, e, List.length_drop]
  rw [if_neg (by omega), hver, show 28 + (b.length - 28) = beNat ((b.drop 24).take 4) by omega,
    put32_beNat _ h4, put32_beNat _ h4', put64_be64 _ (by omega), put64_be64 _ (by rw [List.length_drop]; omega),
    ← header_cut b h28]

theorem readHeader_version (b : Bytes) : (readHeader b).major.toNat < 16 ∧ (readHeader b).minor.toNat < 16 := by
  have hv := (byteAt b 17).toNat_lt
  constructor
  · show (UInt8.ofNat ((byteAt b 17).toNat / 16)).toNat < 16
    rw [ofNat_toNat_u8 _ (by omega)]; omega
  · show (UInt8.ofNat ((byteAt b 17).toNat % 16)).toNat < 16
    rw [ofNat_toNat_u8 _ (by omega)]; omega

/-- the library's header parser agrees with the independent header reader on such datagrams -/
theorem parseHeader_readHeader (b : Bytes) (h28 : 28 ≤ b.length) (hL : beNat ((b.drop 24).take 4) = b.length) :
    parseHeader b = .ok (readHeader b) :=
  rt_header _ _ (readHeader_version b).1 (readHeader_version b).2 (marshal_readHeader b h28 hL)

/-- **the library accepts what the independent opener accepts** -/
theorem unprotect_of_skOpen (P : Prims) (hP : P.Lawful) (sb : SAKey) (hw : sb.WF P) (rr : Bool) (k : SkParams)
    (hcl : sb.integInfo.outLen = k.icvLen) (halg : (sb.integObj (!rr)).alg = k.hash)
    (hka : (sb.integObj (!rr)).key = k.ka) (hke : (sb.encrObj (!rr)).key = k.ke)
    (msg : Bytes) (hd : Header) (ft : UInt8) (inner pad : Bytes)
    (h : skOpen P k msg = some (hd, ft, inner, pad)) (hdr : Option Header) (hhdr : hdr = none ∨ hdr = some hd) :
    unprotect P (some sb) rr hdr msg =
      (some (sb.setInteg (!rr) ⟨k.hash, k.ka, msg.take (msg.length - k.icvLen)⟩), 1,
       (do let ps ← decodeChain ft inner; Res.ok (⟨hd, ps⟩ : Msg))) := by
  obtain ⟨hlen, hL, h16, h29, hl, hicv, hal, hhd, hft, hpad, hpt⟩ := skOpen_some_inv P k msg hd ft inner pad h
  have hph := parseHeader_readHeader msg (by omega) hL
  -- the payload octets: the Encrypted payload's generic header and body
  have hb30 := (byteAt msg 30).toNat_lt
  have hb31 := (byteAt msg 31).toNat_lt
  have hencl : (msg.drop 32).length = msg.length - 32 := List.length_drop
  have hbody : msg.drop 28 = [ft, 0] ++ put16 (UInt16.ofNat (4 + (msg.drop 32).length)) ++ msg.drop 32 := by
    have e1 : msg.drop 28 = (msg.drop 28).take 4 ++ msg.drop 32 := by
      have := (List.take_append_drop 4 (msg.drop 28)).symm
      rwa [List.drop_drop] at this
    rw [take4_drop msg 28 (by omega)] at e1
    simp only [Nat.reduceAdd] at e1
    have e2 : (UInt16.ofNat (4 + (msg.drop 32).length)).toNat = msg.length - 28 := by
      rw [ofNat_toNat_u16 _ (by omega)]; omega
    unfold put16
    rw [e2, show (msg.length - 28) / 256 = (byteAt msg 30).toNat by omega,
      show (msg.length - 28) % 256 = (byteAt msg 31).toNat by omega, u8_ofNat_toNat, u8_ofNat_toNat,
      hft, ← h29]
    exact e1
  have hdecoded : unprotectDecoded none msg = .ok ⟨hd, [.sk ft (msg.drop 32)]⟩ := by
    show decodeMsg msg = _
    unfold decodeMsg
    rw [hph]
    simp only [Res.bind_ok]
    have hn : (readHeader msg).next = Facts.typeSK := h16
    have hpb : (readHeader msg).payloadBytes = msg.drop 28 := rfl
    rw [hn, hpb, hbody, decodeChain_sk ft _ (by omega), hhd]
    rfl
  have hdecoded' : unprotectDecoded hdr msg = .ok ⟨hd, [.sk ft (msg.drop 32)]⟩ := by
    rcases hhdr with rfl | rfl
    · exact hdecoded
    · rw [unprotectDecoded_hdr msg hd (by rw [hhd]; exact hph)]; exact hdecoded
  rw [unprotect_sk P sb rr hdr msg _ hdecoded' rfl,
    decryptMsg_eq P hP sb hw rr msg _ ft (msg.drop 32) rfl (by omega) (by omega)]
  simp only
  have hck : (msg.drop 32).drop ((msg.drop 32).length - sb.integInfo.outLen) = msg.drop (msg.length - k.icvLen) := by
    rw [List.drop_drop, hencl, hcl]; congr 1; omega
  unfold skExpectedIcv at hicv
  rw [hck, hcl, halg, hka, if_pos hicv]
  simp only
  -- the cipher call
  have hctl : ((msg.drop 32).take ((msg.drop 32).length - k.icvLen)).length = 16 + (msg.length - 48 - k.icvLen) := by
    rw [List.length_take, hencl]; omega
  have hivl : ((msg.drop 32).take 16).length = 16 := by rw [List.length_take, hencl]; omega
  have hct2 : ((msg.drop 48).take (msg.length - 48 - k.icvLen)).length = msg.length - 48 - k.icvLen := by
    rw [List.length_take, List.length_drop]; omega
  have e1 : ((msg.drop 32).take ((msg.drop 32).length - k.icvLen)).take 16 = (msg.drop 32).take 16 := by
    rw [List.take_take, hencl]; congr 1; omega
  have e2 : ((msg.drop 32).take ((msg.drop 32).length - k.icvLen)).drop 16 =
      (msg.drop 48).take (msg.length - 48 - k.icvLen) := by
    rw [List.drop_take, List.drop_drop, hencl]; congr 1; omega
  have hplain : cbcPlain P (sb.encrObj (!rr)) ((msg.drop 32).take ((msg.drop 32).length - k.icvLen)) =
      inner ++ pad ++ [UInt8.ofNat pad.length] := by
    unfold cbcPlain
    rw [e1, e2, hke, hpt]
  have hptl : inner.length + pad.length + 1 = msg.length - 48 - k.icvLen := by
    have := congrArg List.length hpt
    rw [cbcDec_length _ (hP.dec_len k.ke) _ _ hivl (by rw [hct2]; exact hal), hct2] at this
    simp only [List.length_append, List.length_singleton] at this
    exact this
  have hlast : lastPlainOctet P (sb.encrObj (!rr)) ((msg.drop 32).take ((msg.drop 32).length - k.icvLen)) =
      UInt8.ofNat pad.length := by
    unfold lastPlainOctet
    rw [hplain, byteAt_snoc_last]
  rw [cbcDecrypt_eq P hP, hlast, hplain, hctl, ofNat_toNat_u8 _ hpad, if_neg (by omega),
    show 16 + (msg.length - 48 - k.icvLen) - 16 - (pad.length + 1) = inner.length by omega,
    List.append_assoc, take_prefix_eq _ _ _ rfl]
  rfl

end Ike
