import IkeProofs.Lemmas.Bytes

/-! Lemmas for the key-derivation properties C07, C08, C16: the RFC stream
`Spec.prfPlus` written block by block, the model's `prfPlusLoop` against it
(for every state of the hash object), slicing of the key stream, and the
invariance of `Prf_d`'s key under the operations on an SA object. -/

set_option linter.unusedSimpArgs false

namespace Ike

/-! ### the RFC stream -/

namespace Spec

theorem blocksFrom_length (prf : PRF) (L : Nat) (hL : ∀ k d, (prf k d).length = L) (K S : Bytes) :
    ∀ (n i : Nat) (prev : Bytes), (blocksFrom prf K S n i prev).length = n * L := by
  intro n
  induction n with
  | zero => intro i prev; simp [blocksFrom]
  | succ n ih =>
    intro i prev
    simp only [blocksFrom, List.length_append, ih, hL, Nat.succ_mul]
    omega

theorem flatMap_congr' {α β : Type} (l : List α) (f g : α → List β) (h : ∀ a, f a = g a) :
    l.flatMap f = l.flatMap g := by
  have : f = g := funext h
  rw [this]

/-- `blocksFrom` started at block `i+1` with `prev = T i` is `T (i+1) | T (i+2) | …`. -/
theorem blocksFrom_eq_T (prf : PRF) (K S : Bytes) :
    ∀ (n i : Nat), blocksFrom prf K S n (i + 1) (T prf K S i)
      = (List.range n).flatMap (fun j => T prf K S (i + 1 + j)) := by
  intro n
  induction n with
  | zero => intro i; simp [blocksFrom]
  | succ n ih =>
    intro i
    have hT : prf K (T prf K S i ++ S ++ [UInt8.ofNat (i + 1)]) = T prf K S (i + 1) := rfl
    simp only [blocksFrom, hT, ih (i + 1), List.range_succ_eq_map, List.flatMap_cons, List.flatMap_map,
      Nat.add_zero]
    congr 1
    apply flatMap_congr'
    intro j
    simp only [Function.comp, Nat.succ_eq_add_one]
    congr 1
    omega

/-- `Spec.prfPlus` is literally `T1 | T2 | … | Tn` with the `T`s of RFC 7296 §2.13. -/
theorem prfPlus_eq_T (prf : PRF) (K S : Bytes) (n : Nat) :
    prfPlus prf K S n = (List.range n).flatMap (fun j => T prf K S (j + 1)) := by
  have h := blocksFrom_eq_T prf K S n 0
  simp only [T, Nat.zero_add] at h
  rw [prfPlus, h]
  apply flatMap_congr'
  intro j
  congr 1
  omega

theorem blocksFor_zero (L : Nat) : blocksFor 0 L = 0 := by
  unfold blocksFor
  by_cases h : L = 0
  · subst h; simp
  · rw [Nat.div_eq_of_lt (by omega)]

theorem blocksFor_step (r L : Nat) (hr : 0 < r) (hL : 0 < L) : blocksFor r L = blocksFor (r - L) L + 1 := by
  unfold blocksFor
  by_cases h : L ≤ r
  · have : r + L - 1 = (r - L + L - 1) + L := by omega
    rw [this, Nat.add_div_right _ hL]
  · have h0 : r - L = 0 := by omega
    rw [h0]
    have : r + L - 1 = (r - 1) + L := by omega
    rw [this, Nat.add_div_right _ hL, Nat.div_eq_of_lt (by omega), Nat.div_eq_of_lt (by omega)]

/-- enough blocks: `blocksFor n L` blocks of `L` octets cover `n` octets -/
theorem blocksFor_covers (n L : Nat) (hL : 0 < L) : n ≤ blocksFor n L * L := by
  unfold blocksFor
  have h1 := Nat.div_add_mod (n + L - 1) L
  have h2 := Nat.mod_lt (n + L - 1) hL
  rw [Nat.mul_comm] at h1
  omega

/-- … and no more than needed: the last block is used -/
theorem blocksFor_tight (n L : Nat) (hn : 0 < n) (hL : 0 < L) : (blocksFor n L - 1) * L < n := by
  unfold blocksFor
  have h1 := Nat.div_add_mod (n + L - 1) L
  have h2 := Nat.mod_lt (n + L - 1) hL
  rw [Nat.mul_comm] at h1
  have h3 : 0 < (n + L - 1) / L := Nat.div_pos (by omega) hL
  rw [Nat.sub_mul]
  omega

/-- within the RFC's range (at most `255·L` octets) at most 255 blocks are computed … -/
theorem blocksFor_le_255 (n L : Nat) (hL : 0 < L) (hn : n ≤ 255 * L) : blocksFor n L ≤ 255 := by
  unfold blocksFor
  have : (n + L - 1) / L < 256 := by
    rw [Nat.div_lt_iff_lt_mul hL]; omega
  omega

end Spec

/-! ### `lib.PrfPlus` on an arbitrary hash object -/

/-- The loop of `lib.PrfPlus`, from any intermediate state: as long as the fuel
covers the octets still missing, the stream grows by exactly the RFC blocks
`T i | T (i+1) | …` computed with the object's key, whatever the object's write
buffer held; key and algorithm of the object are unchanged. -/
theorem prfPlusLoop_spec (P : Prims) (hP : P.Lawful) (s : Bytes) (n a : Nat) (K : Bytes)
    (hL : 0 < P.macLen a) :
    ∀ (fuel : Nat) (h : HashObj) (i : Nat) (stream block : Bytes),
      h.alg = a → h.key = K → n ≤ stream.length + fuel * P.macLen a →
      (prfPlusLoop P s n fuel h i stream block).2
          = stream ++ Spec.blocksFrom (P.mac a) K s (Spec.blocksFor (n - stream.length) (P.macLen a)) i block
        ∧ (prfPlusLoop P s n fuel h i stream block).1.alg = a
        ∧ (prfPlusLoop P s n fuel h i stream block).1.key = K := by
  intro fuel
  induction fuel with
  | zero =>
    intro h i stream block ha hk hfuel
    have h0 : n - stream.length = 0 := by omega
    simp [prfPlusLoop, h0, Spec.blocksFor_zero, Spec.blocksFrom, ha, hk]
  | succ fuel ih =>
    intro h i stream block ha hk hfuel
    unfold prfPlusLoop
    by_cases hlt : stream.length < n
    · rw [if_pos hlt]
      simp only [HashObj.reset, HashObj.write, HashObj.sum, HashObj.size, List.nil_append, ha, hk]
      have hm : (P.mac a K (block ++ s ++ [UInt8.ofNat i])).length = P.macLen a := hP.mac_len _ _ _
      have hblock : List.drop ((stream ++ P.mac a K (block ++ s ++ [UInt8.ofNat i])).length - P.macLen a)
          (stream ++ P.mac a K (block ++ s ++ [UInt8.ofNat i])) = P.mac a K (block ++ s ++ [UInt8.ofNat i]) := by
        have : (stream ++ P.mac a K (block ++ s ++ [UInt8.ofNat i])).length - P.macLen a = stream.length := by
          rw [List.length_append, hm]; omega
        rw [this]; simp
      rw [hblock]
      have hfuel' : n ≤ (stream ++ P.mac a K (block ++ s ++ [UInt8.ofNat i])).length + fuel * P.macLen a := by
        rw [List.length_append, hm]; rw [Nat.succ_mul] at hfuel; omega
      obtain ⟨h1, h2, h3⟩ := ih ⟨a, K, block ++ s ++ [UInt8.ofNat i]⟩ (i + 1)
        (stream ++ P.mac a K (block ++ s ++ [UInt8.ofNat i])) (P.mac a K (block ++ s ++ [UInt8.ofNat i])) rfl rfl hfuel'
      refine ⟨?_, h2, h3⟩
      rw [h1, Spec.blocksFor_step (n - stream.length) _ (by omega) hL]
      have : n - (stream ++ P.mac a K (block ++ s ++ [UInt8.ofNat i])).length = n - stream.length - P.macLen a := by
        rw [List.length_append, hm]; omega
      rw [this]
      simp only [Spec.blocksFrom, List.append_assoc]
    · rw [if_neg hlt]
      have h0 : n - stream.length = 0 := by omega
      simp [h0, Spec.blocksFor_zero, Spec.blocksFrom, ha, hk]

/-- `lib.PrfPlus(prf, s, n)` on a hash object in ANY state (key `K`, arbitrary
pending buffer): returns the first `n` octets of the RFC stream prf+(K, s) and
leaves key and algorithm of the object unchanged. -/
theorem prfPlus_spec (P : Prims) (hP : P.Lawful) (h : HashObj) (s : Bytes) (n : Nat)
    (hL : 0 < P.macLen h.alg) :
    (prfPlus P h s n).2 = .ok (Spec.prfPlusN (P.mac h.alg) (P.macLen h.alg) h.key s n)
      ∧ (prfPlus P h s n).1.alg = h.alg ∧ (prfPlus P h s n).1.key = h.key := by
  have hfuel : n ≤ ([] : Bytes).length + (n + 1) * P.macLen h.alg := by
    have : n + 1 ≤ (n + 1) * P.macLen h.alg := Nat.le_mul_of_pos_right _ hL
    simp only [List.length_nil]; omega
  obtain ⟨h1, h2, h3⟩ := prfPlusLoop_spec P hP s n h.alg h.key hL (n + 1) h 1 [] [] rfl rfl hfuel
  unfold prfPlus
  simp only [List.length_nil, Nat.sub_zero, List.nil_append] at h1
  refine ⟨?_, h2, h3⟩
  show goTo (prfPlusLoop P s n (n + 1) h 1 [] []).2 n = _
  rw [h1, goTo_ok]
  · rfl
  · rw [Spec.blocksFrom_length _ _ (fun k d => hP.mac_len h.alg k d)]
    exact Spec.blocksFor_covers n _ hL

/-- the result of `PrfPlus` has exactly the requested length -/
theorem prfPlusN_length (prf : Spec.PRF) (L : Nat) (hlen : ∀ k d, (prf k d).length = L) (hL : 0 < L)
    (K S : Bytes) (n : Nat) : (Spec.prfPlusN prf L K S n).length = n := by
  unfold Spec.prfPlusN Spec.prfPlus
  rw [List.length_take, Spec.blocksFrom_length prf L hlen]
  have := Spec.blocksFor_covers n L hL
  omega

/-- `PrfPlus` does not look at the object's buffer: two objects with the same
algorithm and key give the same stream. -/
theorem prfPlus_ignores_buffer (P : Prims) (hP : P.Lawful) (h h' : HashObj) (s : Bytes) (n : Nat)
    (hL : 0 < P.macLen h.alg) (ha : h'.alg = h.alg) (hk : h'.key = h.key) :
    (prfPlus P h' s n).2 = (prfPlus P h s n).2 := by
  rw [(prfPlus_spec P hP h s n hL).1, (prfPlus_spec P hP h' s n (by rw [ha]; exact hL)).1, ha, hk]

/-! ### slicing the key stream -/

/-- the seven re-slicings of `GenerateKeyForIKESA` on a stream that is long enough -/
theorem sliceIkeKeys_ok (ks : Bytes) (lD lA lE : Nat)
    (hlen : lD + lA + lA + lE + lE + lD + lD ≤ ks.length) :
    sliceIkeKeys ks lD lA lE = .ok
      { d  := ks.take lD,
        ai := (ks.drop lD).take lA,
        ar := (ks.drop (lD + lA)).take lA,
        ei := (ks.drop (lD + lA + lA)).take lE,
        er := (ks.drop (lD + lA + lA + lE)).take lE,
        pi := (ks.drop (lD + lA + lA + lE + lE)).take lD,
        pr := (ks.drop (lD + lA + lA + lE + lE + lD)).take lD } := by
  unfold sliceIkeKeys
  rw [goTo_ok (by omega)]; simp only [Res.bind_ok]
  rw [goFrom_ok (by omega)]; simp only [Res.bind_ok]
  rw [goTo_ok (by simp only [List.length_drop]; omega)]; simp only [Res.bind_ok]
  rw [goFrom_ok (by simp only [List.length_drop]; omega)]; simp only [Res.bind_ok, List.drop_drop]
  rw [goTo_ok (by simp only [List.length_drop]; omega)]; simp only [Res.bind_ok]
  rw [goFrom_ok (by simp only [List.length_drop]; omega)]; simp only [Res.bind_ok, List.drop_drop]
  rw [goTo_ok (by simp only [List.length_drop]; omega)]; simp only [Res.bind_ok]
  rw [goFrom_ok (by simp only [List.length_drop]; omega)]; simp only [Res.bind_ok, List.drop_drop]
  rw [goTo_ok (by simp only [List.length_drop]; omega)]; simp only [Res.bind_ok]
  rw [goFrom_ok (by simp only [List.length_drop]; omega)]; simp only [Res.bind_ok, List.drop_drop]
  rw [goTo_ok (by simp only [List.length_drop]; omega)]; simp only [Res.bind_ok]
  rw [goFrom_ok (by simp only [List.length_drop]; omega)]; simp only [Res.bind_ok, List.drop_drop]
  rw [goTo_ok (by simp only [List.length_drop]; omega)]; simp only [Res.bind_ok]
  rfl

/-- the four re-slicings of `GenerateKeyForChildSA` (`ChildOps.childSplit`) -/
theorem childSplit_ok (ks : Bytes) (lE lA : Nat) (hlen : (lE + lA) * 2 ≤ ks.length) :
    childSplit lE lA ks = .ok
      { encr_i2r := ks.take lE,
        integ_i2r := (ks.drop lE).take lA,
        encr_r2i := (ks.drop (lE + lA)).take lE,
        integ_r2i := (ks.drop (lE + lA + lE)).take lA } := by
  unfold childSplit
  rw [goTo_ok (by omega)]; simp only [Res.bind_ok]
  rw [goFrom_ok (by omega)]; simp only [Res.bind_ok]
  rw [goTo_ok (by simp only [List.length_drop]; omega)]; simp only [Res.bind_ok]
  rw [goFrom_ok (by simp only [List.length_drop]; omega)]; simp only [Res.bind_ok, List.drop_drop]
  rw [goTo_ok (by simp only [List.length_drop]; omega)]; simp only [Res.bind_ok]
  rw [goFrom_ok (by simp only [List.length_drop]; omega)]; simp only [Res.bind_ok, List.drop_drop]
  rw [goTo_ok (by simp only [List.length_drop]; omega)]; simp only [Res.bind_ok]

/-- the same for `Keys.appendChildKeys` (fields are appended to) -/
theorem appendChildKeys_ok (c : ChildSAKey) (ks : Bytes) (lE lA : Nat) (hlen : (lE + lA) * 2 ≤ ks.length) :
    appendChildKeys c ks lE lA = .ok
      { c with i2rEncr := c.i2rEncr ++ ks.take lE,
               i2rInteg := c.i2rInteg ++ (ks.drop lE).take lA,
               r2iEncr := c.r2iEncr ++ (ks.drop (lE + lA)).take lE,
               r2iInteg := c.r2iInteg ++ (ks.drop (lE + lA + lE)).take lA } := by
  unfold appendChildKeys
  rw [goTo_ok (by omega)]; simp only [Res.bind_ok]
  rw [goFrom_ok (by omega)]; simp only [Res.bind_ok]
  rw [goTo_ok (by simp only [List.length_drop]; omega)]; simp only [Res.bind_ok]
  rw [goFrom_ok (by simp only [List.length_drop]; omega)]; simp only [Res.bind_ok, List.drop_drop]
  rw [goTo_ok (by simp only [List.length_drop]; omega)]; simp only [Res.bind_ok]
  rw [goFrom_ok (by simp only [List.length_drop]; omega)]; simp only [Res.bind_ok, List.drop_drop]
  rw [goTo_ok (by simp only [List.length_drop]; omega)]; simp only [Res.bind_ok]
  rfl

/-- the model's SPI encoder is the 8-octet big-endian string of the specification -/
theorem put64_eq_natToBytes (v : UInt64) : put64 v = natToBytes 8 v.toNat := by
  have hv := v.toNat_lt
  simp only [put64, put32, natToBytes, List.range, List.range.loop, List.map, List.cons_append, List.nil_append,
    UInt32.toNat_ofNat']
  simp only [List.cons.injEq, and_true]
  refine ⟨?_, ?_, ?_, ?_, ?_, ?_, ?_, ?_⟩ <;> congr 1 <;> omega

theorem concatNonceSpi_eq (nonce : Bytes) (spiI spiR : UInt64) :
    concatNonceSpi nonce spiI spiR = nonce ++ Spec.spiBytes spiI ++ Spec.spiBytes spiR := by
  simp only [concatNonceSpi, Spec.spiBytes, put64_eq_natToBytes]

/-! ### IKE SA keys -/

/-- RFC 7296 §2.14 for a prf whose output length `outLen` need not equal the
length `prfLen` of the keys taken for it (`Spec.ikeKeys` is the case `outLen = prfLen`,
which holds for the three HMAC PRFs). -/
def ikeKeysG (prf : Spec.PRF) (outLen prfLen integLen encrLen : Nat) (nonces gir : Bytes) (spiI spiR : UInt64) :
    Spec.IkeKeys :=
  let total := prfLen + integLen + integLen + encrLen + encrLen + prfLen + prfLen
  let s := Spec.prfPlusN prf outLen (Spec.skeyseed prf nonces gir)
    (nonces ++ Spec.spiBytes spiI ++ Spec.spiBytes spiR) total
  { d  := s.take prfLen,
    ai := (s.drop prfLen).take integLen,
    ar := (s.drop (prfLen + integLen)).take integLen,
    ei := (s.drop (prfLen + integLen + integLen)).take encrLen,
    er := (s.drop (prfLen + integLen + integLen + encrLen)).take encrLen,
    pi := (s.drop (prfLen + integLen + integLen + encrLen + encrLen)).take prfLen,
    pr := (s.drop (prfLen + integLen + integLen + encrLen + encrLen + prfLen)).take prfLen }

theorem ikeKeysG_eq_spec (prf : Spec.PRF) (prfLen integLen encrLen : Nat) (nonces gir : Bytes) (spiI spiR : UInt64) :
    ikeKeysG prf prfLen prfLen integLen encrLen nonces gir spiI spiR
      = Spec.ikeKeys prf prfLen integLen encrLen nonces gir spiI spiR := rfl

/-- the SA object `GenerateKeyForIKESA` builds around a key set -/
def SAKey.ofKeys (e : EncrInfo) (i : IntegInfo) (p : PrfInfo) (k : Spec.IkeKeys) : SAKey :=
  SAKey.fresh e i p k.d k.ai k.ar k.ei k.er k.pi k.pr

/-- total length of the IKE SA key stream for the SA's descriptors -/
def SAKey.keyTotal (sa : SAKey) : Nat :=
  sa.prfInfo.keyLen + sa.integInfo.keyLen + sa.integInfo.keyLen + sa.encrInfo.keyLen + sa.encrInfo.keyLen
    + sa.prfInfo.keyLen + sa.prfInfo.keyLen

/-- `GenerateKeyForIKESA` on ANY previous contents of the SA object: with
non-empty nonces and secret and a non-zero total key length it succeeds and
leaves exactly the object built from the RFC key set. -/
theorem genKeyForIKESA_ok (P : Prims) (hP : P.Lawful) (sa : SAKey) (nonce secret : Bytes) (spiI spiR : UInt64)
    (hL : 0 < P.macLen sa.prfInfo.hash) (hn : nonce.length ≠ 0) (hs : secret.length ≠ 0)
    (ht : 0 < sa.keyTotal) :
    genKeyForIKESA P sa nonce secret spiI spiR =
      (SAKey.ofKeys sa.encrInfo sa.integInfo sa.prfInfo
         (ikeKeysG (P.mac sa.prfInfo.hash) (P.macLen sa.prfInfo.hash) sa.prfInfo.keyLen sa.integInfo.keyLen
            sa.encrInfo.keyLen nonce secret spiI spiR), .ok ()) := by
  unfold genKeyForIKESA
  rw [if_neg hn, if_neg hs]
  simp only [PrfInfo.init, HashObj.write, HashObj.sum, List.nil_append, concatNonceSpi_eq]
  have hspec := (prfPlus_spec P hP ⟨sa.prfInfo.hash, P.mac sa.prfInfo.hash nonce secret, []⟩
    (nonce ++ Spec.spiBytes spiI ++ Spec.spiBytes spiR) sa.keyTotal hL).1
  simp only [SAKey.keyTotal] at hspec ht
  generalize hr : prfPlus P ⟨sa.prfInfo.hash, P.mac sa.prfInfo.hash nonce secret, []⟩
    (nonce ++ Spec.spiBytes spiI ++ Spec.spiBytes spiR) _ = r at hspec
  obtain ⟨h', res⟩ := r
  simp only at hspec
  subst hspec
  simp only
  have hlen := prfPlusN_length (P.mac sa.prfInfo.hash) (P.macLen sa.prfInfo.hash)
    (fun k d => hP.mac_len sa.prfInfo.hash k d) hL (P.mac sa.prfInfo.hash nonce secret)
    (nonce ++ Spec.spiBytes spiI ++ Spec.spiBytes spiR)
    (sa.prfInfo.keyLen + sa.integInfo.keyLen + sa.integInfo.keyLen + sa.encrInfo.keyLen + sa.encrInfo.keyLen
      + sa.prfInfo.keyLen + sa.prfInfo.keyLen)
  generalize hst : Spec.prfPlusN (P.mac sa.prfInfo.hash) (P.macLen sa.prfInfo.hash)
    (P.mac sa.prfInfo.hash nonce secret) (nonce ++ Spec.spiBytes spiI ++ Spec.spiBytes spiR) _ = st at hlen
  have hne : st.isEmpty = false := by
    cases st with
    | nil => simp at hlen; omega
    | cons _ _ => rfl
  rw [hne]
  simp only [Bool.false_eq_true, if_false]
  rw [sliceIkeKeys_ok st _ _ _ (by omega)]
  simp only [IntegInfo.init, newCrypto, List.length_take, List.length_drop]
  rw [if_pos (by omega), if_pos (by omega)]
  simp only
  rw [if_neg (by omega), if_neg (by omega)]
  simp only [SAKey.ofKeys, SAKey.fresh, ikeKeysG, Spec.skeyseed, hst]

/-- the refusals of `GenerateKeyForIKESA`: empty nonces, empty secret, or no key
octets to derive; the SA object is left as it was. -/
theorem genKeyForIKESA_err (P : Prims) (hP : P.Lawful) (sa : SAKey) (nonce secret : Bytes) (spiI spiR : UInt64)
    (hL : 0 < P.macLen sa.prfInfo.hash)
    (h : nonce.length = 0 ∨ secret.length = 0 ∨ sa.keyTotal = 0) :
    genKeyForIKESA P sa nonce secret spiI spiR = (sa, .err) := by
  unfold genKeyForIKESA
  by_cases hn : nonce.length = 0
  · rw [if_pos hn]
  rw [if_neg hn]
  by_cases hs : secret.length = 0
  · rw [if_pos hs]
  rw [if_neg hs]
  have ht : sa.keyTotal = 0 := by
    rcases h with h | h | h
    · exact absurd h hn
    · exact absurd h hs
    · exact h
  simp only [PrfInfo.init, HashObj.write, HashObj.sum, List.nil_append]
  have hspec := (prfPlus_spec P hP ⟨sa.prfInfo.hash, P.mac sa.prfInfo.hash nonce secret, []⟩
    (concatNonceSpi nonce spiI spiR) sa.keyTotal hL).1
  rw [ht] at hspec
  simp only [SAKey.keyTotal] at ht
  rw [ht]
  generalize prfPlus P ⟨sa.prfInfo.hash, P.mac sa.prfInfo.hash nonce secret, []⟩
    (concatNonceSpi nonce spiI spiR) 0 = r at hspec
  obtain ⟨h', res⟩ := r
  simp only [Spec.prfPlusN, List.take_zero] at hspec
  subst hspec
  simp

/-! ### Child SA keys -/

/-- the model's record for the specification's four keys -/
def ChildKeys.ofSpec (k : Spec.ChildKeys) : ChildKeys := ⟨k.ei, k.ai, k.er, k.ar⟩

/-- a stream returned by `PrfPlus` has the requested length (no assumption on the primitives) -/
theorem prfPlus_ok_length (P : Prims) (h : HashObj) (s : Bytes) (n : Nat) (ks : Bytes)
    (hok : (prfPlus P h s n).2 = .ok ks) : ks.length = n := by
  unfold prfPlus goTo at hok
  simp only at hok
  split at hok
  · injection hok with hok
    subst hok
    rw [List.length_take]; omega
  · cases hok

/-- the SA object after `GenerateKeyForChildSA`: only `Prf_d` can have changed -/
theorem childKeys_state (P : Prims) (sa : SAKey) (encrLen integLen : Nat) (nonce : Bytes) :
    (childKeys P sa encrLen integLen nonce).1
      = { sa with prf_d := (prfPlus P sa.prf_d nonce ((encrLen + integLen) * 2)).1 } := by
  unfold childKeys
  simp only
  generalize prfPlus P sa.prf_d nonce ((encrLen + integLen) * 2) = r
  obtain ⟨h', res⟩ := r
  cases res with
  | ok ks => simp only; split <;> rfl
  | err => rfl
  | fault => rfl

/-- `GenerateKeyForChildSA` against RFC 7296 §2.17, on an SA whose `Prf_d` object
is in ANY state: refusal when no key octets are requested, otherwise the four
consecutive slices of prf+(key of `Prf_d`, nonces). -/
theorem childKeys_spec (P : Prims) (hP : P.Lawful) (sa : SAKey) (encrLen integLen : Nat) (nonce : Bytes)
    (hL : 0 < P.macLen sa.prf_d.alg) :
    (childKeys P sa encrLen integLen nonce).2 =
      if (encrLen + integLen) * 2 = 0 then .err
      else .ok (ChildKeys.ofSpec
        (Spec.keymat (P.mac sa.prf_d.alg) (P.macLen sa.prf_d.alg) sa.prf_d.key nonce encrLen integLen)) := by
  unfold childKeys
  have hspec := (prfPlus_spec P hP sa.prf_d nonce ((encrLen + integLen) * 2) hL).1
  have hlen := prfPlusN_length (P.mac sa.prf_d.alg) (P.macLen sa.prf_d.alg)
    (fun k d => hP.mac_len sa.prf_d.alg k d) hL sa.prf_d.key nonce ((encrLen + integLen) * 2)
  simp only
  generalize prfPlus P sa.prf_d nonce ((encrLen + integLen) * 2) = r at hspec
  obtain ⟨h', res⟩ := r
  simp only at hspec
  subst hspec
  simp only
  by_cases h0 : (encrLen + integLen) * 2 = 0
  · rw [if_pos h0, if_pos h0]
  · rw [if_neg h0, if_neg h0]
    simp only
    rw [childSplit_ok _ _ _ (by omega)]
    simp only [ChildKeys.ofSpec, Spec.keymat, Nat.mul_comm 2]

theorem childKeys_prf_d (P : Prims) (hP : P.Lawful) (sa : SAKey) (encrLen integLen : Nat) (nonce : Bytes)
    (hL : 0 < P.macLen sa.prf_d.alg) :
    (childKeys P sa encrLen integLen nonce).1.prf_d.alg = sa.prf_d.alg
      ∧ (childKeys P sa encrLen integLen nonce).1.prf_d.key = sa.prf_d.key := by
  rw [childKeys_state]
  exact (prfPlus_spec P hP sa.prf_d nonce _ hL).2

/-- the outcome of a derivation depends on the SA object only through algorithm and key of `Prf_d` -/
theorem childKeys_congr (P : Prims) (hP : P.Lawful) (sa sa' : SAKey) (encrLen integLen : Nat) (nonce : Bytes)
    (hL : 0 < P.macLen sa.prf_d.alg) (ha : sa'.prf_d.alg = sa.prf_d.alg) (hk : sa'.prf_d.key = sa.prf_d.key) :
    (childKeys P sa' encrLen integLen nonce).2 = (childKeys P sa encrLen integLen nonce).2 := by
  rw [childKeys_spec P hP sa _ _ _ hL, childKeys_spec P hP sa' _ _ _ (by rw [ha]; exact hL), ha, hk]

/-- integrity key length read by `GenerateKeyForChildSA`: 0 when `IntegKInfo` is nil -/
def ChildSAKey.integLen (c : ChildSAKey) : Nat :=
  match c.integKeyLen with
  | some n => n
  | none => 0

/-- the `ChildSAKey` object after the four `append`s -/
def ChildSAKey.appendKeys (c : ChildSAKey) (k : ChildKeys) : ChildSAKey :=
  { c with i2rEncr := c.i2rEncr ++ k.encr_i2r, i2rInteg := c.i2rInteg ++ k.integ_i2r,
           r2iEncr := c.r2iEncr ++ k.encr_r2i, r2iInteg := c.r2iInteg ++ k.integ_r2i }

/-- The two models of `GenerateKeyForChildSA` (`Keys.genKeyForChildSA` on a
`ChildSAKey` object, `ChildOps.childKeys` returning the four keys) agree, for
all primitives: same SA object afterwards, same outcome, the keys appended to
the object's fields. -/
theorem genKeyForChildSA_eq_childKeys (P : Prims) (sa : SAKey) (c : ChildSAKey) (nonce : Bytes) :
    genKeyForChildSA P sa c nonce =
      ((childKeys P sa c.encrKeyLen c.integLen nonce).1,
       (childKeys P sa c.encrKeyLen c.integLen nonce).2 >>= fun k => .ok (c.appendKeys k)) := by
  have hlen := prfPlus_ok_length P sa.prf_d nonce ((c.encrKeyLen + c.integLen) * 2)
  have hI : genKeyForChildSA P sa c nonce =
      (match prfPlus P sa.prf_d nonce ((c.encrKeyLen + c.integLen) * 2) with
       | (h, .err) => ({ sa with prf_d := h }, .err)
       | (h, .fault) => ({ sa with prf_d := h }, .fault)
       | (h, .ok keyStream) =>
         if keyStream.isEmpty then ({ sa with prf_d := h }, .err)
         else ({ sa with prf_d := h }, appendChildKeys c keyStream c.encrKeyLen c.integLen)) := by
    obtain ⟨eL, iL, f1, f2, f3, f4⟩ := c
    cases iL <;> rfl
  rw [hI]
  unfold childKeys
  simp only
  generalize prfPlus P sa.prf_d nonce ((c.encrKeyLen + c.integLen) * 2) = r at hlen
  obtain ⟨h', res⟩ := r
  cases res with
  | err => rfl
  | fault => rfl
  | ok ks =>
    have hl := hlen ks rfl
    simp only
    by_cases h0 : (c.encrKeyLen + c.integLen) * 2 = 0
    · have : ks = [] := List.eq_nil_of_length_eq_zero (by omega)
      subst this
      rw [if_pos h0]; simp
    · have hne : ks.isEmpty = false := by
        cases ks with
        | nil => simp at hl; omega
        | cons _ _ => rfl
      rw [if_neg h0, hne]
      simp only [Bool.false_eq_true, if_false]
      rw [appendChildKeys_ok c ks _ _ (by omega), childSplit_ok ks _ _ (by omega)]
      rfl

/-! ### `Prf_d` under the other operations on the SA object -/

theorem calcIntegrity_prf_d (P : Prims) (sa : SAKey) (role : Bool) (d : Bytes) :
    (calcIntegrity P sa role d).1.prf_d = sa.prf_d := by
  unfold calcIntegrity
  split <;> rfl

theorem protect_prf_d (P : Prims) (sa : SAKey) (role : Bool) (r : Rand) (m : Msg) :
    (protect P sa role r m).1.prf_d = sa.prf_d := by
  have key : ∀ d sa1 res, calcIntegrity P sa role d = (sa1, res) → sa1.prf_d = sa.prf_d := by
    intro d sa1 res h
    have := calcIntegrity_prf_d P sa role d
    rw [h] at this; exact this
  unfold protect
  simp only
  repeat' split
  all_goals first
    | rfl
    | exact key _ _ _ ‹calcIntegrity P sa role _ = (_, _)›

theorem decryptMsg_prf_d (P : Prims) (sa : SAKey) (role : Bool) (msg : Bytes) (m : Msg) :
    (decryptMsg P sa role msg m).1.prf_d = sa.prf_d := by
  have key : ∀ d sa1 res, calcIntegrity P sa (!role) d = (sa1, res) → sa1.prf_d = sa.prf_d := by
    intro d sa1 res h
    have := calcIntegrity_prf_d P sa (!role) d
    rw [h] at this; exact this
  unfold decryptMsg
  simp only
  repeat' split
  all_goals first
    | rfl
    | exact key _ _ _ ‹calcIntegrity P sa (!role) _ = (_, _)›

theorem unprotect_some_prf_d (P : Prims) (sa : SAKey) (role : Bool) (hdr : Option Header) (msg : Bytes) :
    ∃ sa', (unprotect P (some sa) role hdr msg).1 = some sa' ∧ sa'.prf_d = sa.prf_d := by
  unfold unprotect
  simp only
  repeat' split
  all_goals first
    | exact ⟨sa, rfl, rfl⟩
    | exact ⟨_, rfl, decryptMsg_prf_d P _ role msg _⟩
    | skip

/-- every operation on the SA object leaves algorithm and key of `Prf_d` as they were -/
theorem saStep_prf_d (P : Prims) (hP : P.Lawful) (sa : SAKey) (op : SaOp) (hL : 0 < P.macLen sa.prf_d.alg) :
    (saStep P sa op).1.prf_d.alg = sa.prf_d.alg ∧ (saStep P sa op).1.prf_d.key = sa.prf_d.key := by
  cases op with
  | protect role rnd m =>
    have h := protect_prf_d P sa role { buf := rnd } m
    simp only [saStep]
    generalize protect P sa role { buf := rnd } m = r at h ⊢
    obtain ⟨sa', r', res⟩ := r
    simp only at h
    cases res <;> simp [h]
  | unprotect role withHdr bs =>
    have run : ∀ hd : Option Header,
        (match unprotect P (some sa) role hd bs with
          | (some sa', _, .ok m) => (sa', Res.ok (SaOut.msg m))
          | (some sa', _, .err) => (sa', .err)
          | (some sa', _, .fault) => (sa', .fault)
          | (none, _, .ok m) => (sa, .ok (.msg m))
          | (none, _, .err) => (sa, .err)
          | (none, _, .fault) => (sa, .fault)).1.prf_d = sa.prf_d := by
      intro hd
      obtain ⟨sa', h1, h2⟩ := unprotect_some_prf_d P sa role hd bs
      generalize unprotect P (some sa) role hd bs = r at h1
      obtain ⟨o, n, res⟩ := r
      simp only at h1
      subst h1
      cases res <;> exact h2
    simp only [saStep]
    by_cases hw : withHdr = true
    · rw [if_pos hw]
      cases parseHeader bs with
      | ok h => exact ⟨congrArg HashObj.alg (run (some h)), congrArg HashObj.key (run (some h))⟩
      | err => exact ⟨rfl, rfl⟩
      | fault => exact ⟨rfl, rfl⟩
    · rw [if_neg hw]
      exact ⟨congrArg HashObj.alg (run none), congrArg HashObj.key (run none)⟩
  | child e a n =>
    have h := childKeys_prf_d P hP sa e a n hL
    simp only [saStep]
    generalize childKeys P sa e a n = r at h ⊢
    obtain ⟨sa', res⟩ := r
    cases res <;> exact h

/-! ### histories -/

theorem saStep_child_snd (P : Prims) (sa : SAKey) (e a : Nat) (n : Bytes) :
    (saStep P sa (.child e a n)).2 = (childKeys P sa e a n).2 >>= fun k => .ok (.keys k) := by
  simp only [saStep]
  generalize childKeys P sa e a n = r
  obtain ⟨sa', res⟩ := r
  cases res <;> rfl

theorem saRun_cons (P : Prims) (sa : SAKey) (op : SaOp) (rest : List SaOp) :
    saRun P sa (op :: rest) = (saStep P sa op).2 :: saRun P (saStep P sa op).1 rest := by
  simp only [saRun]

/-- In a history of arbitrary operations on one SA object started in a state
`sa'` whose `Prf_d` has the algorithm and key of `sa0`'s, a Child SA derivation
at any position returns what it returns on `sa0`. -/
theorem saRun_child_at (P : Prims) (hP : P.Lawful) (sa0 : SAKey) (hL : 0 < P.macLen sa0.prf_d.alg) :
    ∀ (ops : List SaOp) (sa' : SAKey) (i : Nat) (e a : Nat) (n : Bytes),
      sa'.prf_d.alg = sa0.prf_d.alg → sa'.prf_d.key = sa0.prf_d.key →
      ops[i]? = some (.child e a n) →
      (saRun P sa' ops)[i]? = some (saStep P sa0 (.child e a n)).2 := by
  intro ops
  induction ops with
  | nil => intro sa' i e a n _ _ h; simp at h
  | cons op rest ih =>
    intro sa' i e a n ha hk h
    rw [saRun_cons]
    have hL' : 0 < P.macLen sa'.prf_d.alg := by rw [ha]; exact hL
    cases i with
    | zero =>
      simp only [List.getElem?_cons_zero, Option.some.injEq] at h ⊢
      subst h
      rw [saStep_child_snd, saStep_child_snd, childKeys_congr P hP sa0 sa' e a n hL ha hk]
    | succ i =>
      simp only [List.getElem?_cons_succ] at h ⊢
      obtain ⟨h1, h2⟩ := saStep_prf_d P hP sa' op hL'
      exact ih _ i e a n (h1.trans ha) (h2.trans hk) h

/-- a history consisting of Child SA derivations only: every outcome equals the
outcome on the untouched object -/
theorem saRun_children (P : Prims) (hP : P.Lawful) (sa0 : SAKey) (hL : 0 < P.macLen sa0.prf_d.alg) :
    ∀ (ds : List (Nat × Nat × Bytes)) (sa' : SAKey),
      sa'.prf_d.alg = sa0.prf_d.alg → sa'.prf_d.key = sa0.prf_d.key →
      saRun P sa' (ds.map fun d => .child d.1 d.2.1 d.2.2)
        = saRunFresh P sa0 (ds.map fun d => .child d.1 d.2.1 d.2.2) := by
  intro ds
  induction ds with
  | nil => intro sa' _ _; rfl
  | cons d rest ih =>
    intro sa' ha hk
    have hL' : 0 < P.macLen sa'.prf_d.alg := by rw [ha]; exact hL
    obtain ⟨h1, h2⟩ := saStep_prf_d P hP sa' (.child d.1 d.2.1 d.2.2) hL'
    simp only [List.map_cons, saRun_cons, saRunFresh]
    rw [saStep_child_snd, saStep_child_snd, childKeys_congr P hP sa0 sa' _ _ _ hL ha hk]
    congr 1
    exact ih _ (h1.trans ha) (h2.trans hk)

/-- a history of `GenerateKeyForChildSA` calls (the `Keys.genKeyForChildSA` model: one
`ChildSAKey` object and nonce string per call) on ONE IKE SA object -/
def childRun (P : Prims) : SAKey → List (ChildSAKey × Bytes) → List (Res ChildSAKey)
  | _, [] => []
  | sa, d :: rest => (genKeyForChildSA P sa d.1 d.2).2 :: childRun P (genKeyForChildSA P sa d.1 d.2).1 rest

theorem childRun_fresh (P : Prims) (hP : P.Lawful) (sa0 : SAKey) (hL : 0 < P.macLen sa0.prf_d.alg) :
    ∀ (ds : List (ChildSAKey × Bytes)) (sa' : SAKey),
      sa'.prf_d.alg = sa0.prf_d.alg → sa'.prf_d.key = sa0.prf_d.key →
      childRun P sa' ds = ds.map fun d => (genKeyForChildSA P sa0 d.1 d.2).2 := by
  intro ds
  induction ds with
  | nil => intro sa' _ _; rfl
  | cons d rest ih =>
    intro sa' ha hk
    have hL' : 0 < P.macLen sa'.prf_d.alg := by rw [ha]; exact hL
    obtain ⟨h1, h2⟩ := childKeys_prf_d P hP sa' d.1.encrKeyLen d.1.integLen d.2 hL'
    simp only [childRun, List.map_cons]
    rw [genKeyForChildSA_eq_childKeys P sa' d.1 d.2, genKeyForChildSA_eq_childKeys P sa0 d.1 d.2]
    simp only
    rw [childKeys_congr P hP sa0 sa' _ _ _ hL ha hk]
    congr 1
    exact ih _ (h1.trans ha) (h2.trans hk)

/-! ### EAP-AKA' PRF' -/

/-- the loop of `EapAkaPrimePRF` appends the RFC blocks `T (i+1) | T (i+2) | …` to `MK` -/
theorem akaPrfLoop_spec (P : Prims) (key sBase : Bytes) :
    ∀ (n i : Nat) (mk prev : Bytes),
      akaPrfLoop P key sBase n i mk prev = mk ++ Spec.blocksFrom (P.mac 2) key sBase n (i + 1) prev := by
  intro n
  induction n with
  | zero => intro i mk prev; simp [akaPrfLoop, Spec.blocksFrom]
  | succ n ih =>
    intro i mk prev
    simp only [akaPrfLoop, Spec.blocksFrom, ih, List.append_assoc]

/-- the model's record for the specification's five keys -/
def AkaKeys.ofSpec (k : Spec.AkaPrimeKeys) : AkaKeys := ⟨k.kEncr, k.kAut, k.kRe, k.msk, k.emsk⟩

theorem akaPrf_spec (P : Prims) (hP : P.Lawful) (h32 : P.macLen 2 = 32) (ik ck identity : Bytes)
    (hik : ik.length ≠ 0) (hck : ck.length ≠ 0) :
    akaPrf P ik ck identity = .ok (AkaKeys.ofSpec (Spec.akaPrimeKeys (P.mac 2) ik ck identity)) := by
  unfold akaPrf
  have hc : (ik.length = 0 || ck.length = 0) = false := by simp [hik, hck]
  rw [hc]
  simp only [Bool.false_eq_true, if_false, akaPrfLoop_spec, List.nil_append]
  have hlen : (Spec.blocksFrom (P.mac 2) (ik ++ ck) (akaLabel ++ identity) akaPrfRounds (0 + 1) []).length = 224 := by
    rw [Spec.blocksFrom_length _ 32 (fun k d => by rw [hP.mac_len, h32])]; rfl
  have hmk : Spec.prfPrime (P.mac 2) (ik ++ ck) (Spec.akaPrimeLabel ++ identity) 208
      = (Spec.blocksFrom (P.mac 2) (ik ++ ck) (akaLabel ++ identity) akaPrfRounds (0 + 1) []).take 208 := rfl
  simp only [AkaKeys.ofSpec, Spec.akaPrimeKeys, hmk]
  generalize Spec.blocksFrom (P.mac 2) (ik ++ ck) (akaLabel ++ identity) akaPrfRounds (0 + 1) [] = mk at hlen
  rw [if_neg (by omega)]
  rw [goSlice_ok (by omega) (by omega), goSlice_ok (by omega) (by omega), goSlice_ok (by omega) (by omega),
    goSlice_ok (by omega) (by omega), goSlice_ok (by omega) (by omega)]
  simp only [Res.bind_ok, Res.pure_eq, List.drop_take, List.take_take, List.drop_zero]
  rfl

/-! ### registry entries as descriptors, and a lawful instance of the primitives for the
non-vacuity examples -/

def EncrInfo.ofEntry (t : UInt16 × Nat) : EncrInfo := ⟨t.1, t.2⟩
def IntegInfo.ofEntry (t : UInt16 × Nat × Nat × Nat) : IntegInfo := ⟨t.1, t.2.1, t.2.2.1, t.2.2.2⟩
def PrfInfo.ofEntry (t : UInt16 × Nat × Nat × Nat) : PrfInfo := ⟨t.1, t.2.1, t.2.2.1, t.2.2.2⟩

/-- every registered PRF: preferred key length = output length, and it is positive -/
theorem prfTable_keyLen_eq_outLen :
    ∀ q ∈ Facts.prfTable, (PrfInfo.ofEntry q).keyLen = (PrfInfo.ofEntry q).outLen ∧ 0 < (PrfInfo.ofEntry q).outLen := by
  decide

/-- A toy instance of the primitives that satisfies the laws (NOT the real
algorithms): the "MAC" repeats the xor of all key and message octets, the block
"cipher" is the identity.  Used only to show that theorem hypotheses are satisfiable. -/
def Prims.toy : Prims where
  mac h k m := List.replicate (hashLen h) ((k ++ m).foldl (· ^^^ ·) (UInt8.ofNat h))
  macLen := hashLen
  enc _ b := b
  dec _ b := b

theorem Prims.toy_lawful : Prims.toy.Lawful where
  mac_len _ _ _ := by simp [Prims.toy]
  enc_len _ _ h := h
  dec_len _ _ h := h
  dec_enc _ _ _ := rfl

end Ike
