import IkeProofs.Lemmas.RoundTrip
import IkeProofs.Lemmas.Eap
import IkeProofs.Lemmas.NoFault

/-! Stability lemmas for C12: what the decoders return (their *image*) re-encodes
to octets that decode to the same value.  Per payload kind
`unmarshalX b = ok p → marshalX p = ok data → unmarshalX data = ok p`, the
payload chain with an Encrypted payload in last position, the header, and the
EAP packet (Identity / Notification / Nak / Expanded / EAP-AKA'). -/

set_option linter.unusedSimpArgs false
set_option linter.unusedVariables false

namespace Ike

/-! ### header -/

set_option maxRecDepth 100000 in
theorem u8_version_lt : ∀ x : Fin 256,
    (UInt8.ofNat x.val >>> 4).toNat < 16 ∧ (UInt8.ofNat x.val &&& 0x0F).toNat < 16 := by decide

theorem u8_version_lt' (v : UInt8) : (v >>> 4).toNat < 16 ∧ (v &&& 0x0F).toNat < 16 := by
  have := u8_version_lt ⟨v.toNat, v.toNat_lt⟩
  simpa using this

/-- a parsed header has both version nibbles below 16 -/
theorem parseHeader_version (b : Bytes) (h : Header) (hp : parseHeader b = .ok h) :
    h.major.toNat < 16 ∧ h.minor.toNat < 16 := by
  unfold parseHeader at hp
  have e : Facts.ikeHeaderLen = 28 := rfl
  rw [e] at hp
  revert hp
  split
  · simp
  · go_steps
    split
    · simp
    · go_steps
      intro hp
      simp only [Res.ok.injEq] at hp
      subst hp
      exact u8_version_lt' _


/-! ### payload chain with an Encrypted payload in last position -/

/-- an Encrypted payload may only be the last element -/
def SKLast : List Payload → Prop
  | [] => True
  | [_] => True
  | p :: q :: rest => p.isSK = false ∧ SKLast (q :: rest)

theorem typeCode_sk (p : Payload) (h : p.isSK = true) : (p.typeCode == Facts.typeSK) = true := by
  cases p <;> first | (simp only [Payload.typeCode]; decide) | (simp [Payload.isSK] at h)

/-- one container step on an encoded payload; an Encrypted payload must have nothing after it -/
theorem chainStep_encoded' (p : Payload) (data tl : Bytes) (nx : UInt8)
    (hu : unmarshalPayload p.typeCode nx data = .ok p) (hsk : p.isSK = true → tl = [])
    (hlen : 4 + data.length ≤ 0xFFFF) :
    chainStep p.typeCode ([nx, 0] ++ put16 (UInt16.ofNat (4 + data.length)) ++ data ++ tl)
      = .ok (some p, nx, 4 + data.length) := by
  have hl : (UInt16.ofNat (4 + data.length)).toNat = 4 + data.length := ofNat_toNat_u16 _ (by omega)
  generalize UInt16.ofNat (4 + data.length) = v at *
  unfold chainStep
  rw [if_neg (by len_omega)]
  go_steps
  have hpl : be16 (byteAt ([nx, 0] ++ put16 v ++ data ++ tl) 2) (byteAt ([nx, 0] ++ put16 v ++ data ++ tl) 3) = v := by
    simp [put16, be16_put]
  rw [hpl]
  have h4 : ¬ v < 4 := by
    simp only [UInt16.lt_iff_toNat_lt, hl]
    have : (4 : UInt16).toNat = 4 := rfl
    omega
  rw [if_neg h4, hl, if_neg (by len_omega)]
  go_steps
  rw [if_pos (knownType_typeCode p)]
  have hguard : ¬ ((p.typeCode == Facts.typeSK && decide (([nx, 0] ++ put16 v ++ data ++ tl).length ≠ 4 + data.length)) = true) := by
    cases hs : p.isSK with
    | false => rw [typeCode_ne_sk p hs]; simp
    | true =>
      have := hsk hs
      subst this
      simp
      omega
  rw [if_neg hguard]
  go_steps
  have hbody : List.drop 4 (List.take (4 + data.length) ([nx, 0] ++ put16 v ++ data ++ tl)) = data := by
    simp only [put16, List.cons_append, List.nil_append, List.append_assoc]
    rw [take_add_cons4]; simp
  have hnx : byteAt ([nx, 0] ++ put16 v ++ data ++ tl) 0 = nx := by simp
  rw [hbody, hnx, hu]
  simp

/-- chain round trip where every non-Encrypted payload round-trips and an Encrypted
payload, if any, is the last one: its own next-payload octet is written and read back -/
theorem rt_chain_sk (ps : List Payload) (bs : Bytes)
    (hrt : ∀ p ∈ ps, p.isSK = false → PayloadRT p) (hlast : SKLast ps)
    (h : encodeChain ps = .ok bs) : decodeChain (firstType ps) bs = .ok ps := by
  induction ps generalizing bs with
  | nil =>
    simp [encodeChain] at h; subst h
    unfold decodeChain; simp
  | cons p rest ih =>
    simp only [encodeChain] at h
    cases hm : marshalPayload p with
    | err => simp [hm] at h
    | fault => simp [hm] at h
    | ok data =>
      simp only [hm, Res.bind_ok] at h
      split at h
      · simp at h
      · rename_i hlen
        cases hr : encodeChain rest with
        | err => simp [hr] at h
        | fault => simp [hr] at h
        | ok tl =>
          simp only [hr, Res.bind_ok, Res.ok.injEq] at h
          subst h
          have hlast' : SKLast rest := by
            cases rest with
            | nil => trivial
            | cons q r => exact hlast.2
          have hskrest : p.isSK = true → rest = [] := by
            intro hs
            cases rest with
            | nil => rfl
            | cons q r => rw [hlast.1] at hs; cases hs
          have hu : unmarshalPayload p.typeCode (nextField p rest) data = .ok p := by
            cases hs : p.isSK with
            | false => exact hrt p (by simp) hs data _ hm
            | true =>
              have := hskrest hs
              subst this
              cases p with
              | sk n d =>
                simp only [marshalPayload, marshalSK] at hm
                split at hm
                · simp at hm
                · simp only [Res.ok.injEq] at hm
                  subst hm
                  simp only [Payload.typeCode, nextField]
                  unfold unmarshalPayload
                  rfl
              | _ => simp [Payload.isSK] at hs
          have htl : p.isSK = true → tl = [] := by
            intro hs
            rw [hskrest hs] at hr
            simpa [encodeChain] using hr.symm
          have hstep := chainStep_encoded' p data tl (nextField p rest) hu htl (by omega)
          show decodeChain p.typeCode _ = _
          rw [decodeChain]
          rw [dif_neg (by len_omega)]
          rw [hstep]
          simp only
          rw [dif_pos (by len_omega)]
          have hd : List.drop (4 + data.length) ([nextField p rest, 0] ++ put16 (UInt16.ofNat (4 + data.length)) ++ data ++ tl) = tl := by
            simp only [put16, List.cons_append, List.nil_append, List.append_assoc]
            rw [drop_add_cons4]; simp
          rw [hd]
          cases rest with
          | nil =>
            simp [encodeChain] at hr
            subst hr
            unfold decodeChain
            simp
          | cons q r =>
            have := ih tl (fun x hx => hrt x (by simp [hx])) hlast' hr
            simp only [nextField]
            simp only [firstType] at this
            rw [this]


/-! ### the decoders' images, kind by kind -/

theorem img_KE (b : Bytes) (p : Payload) (h : unmarshalKE b = .ok p) :
    ∃ g d, p = .ke g d ∧ 1 ≤ d.length := by
  unfold unmarshalKE at h
  split at h
  · simp at h
  · revert h; go_steps
    intro h
    simp only [Res.ok.injEq] at h
    exact ⟨_, _, h.symm, by len_omega⟩

theorem img_T4 (mk : UInt8 → Bytes → Payload) (b : Bytes) (p : Payload) (h : unmarshalT4 mk b = .ok p) :
    ∃ t d, p = mk t d ∧ 1 ≤ d.length := by
  unfold unmarshalT4 at h
  split at h
  · simp at h
  · revert h; go_steps
    intro h
    simp only [Res.ok.injEq] at h
    exact ⟨_, _, h.symm, by len_omega⟩

theorem img_T1 (mk : UInt8 → Bytes → Payload) (b : Bytes) (p : Payload) (h : unmarshalT1 mk b = .ok p) :
    ∃ t d, p = mk t d ∧ 1 ≤ d.length := by
  unfold unmarshalT1 at h
  split at h
  · simp at h
  · revert h; go_steps
    intro h
    simp only [Res.ok.injEq] at h
    exact ⟨_, _, h.symm, by len_omega⟩

theorem img_notify (b : Bytes) (p : Payload) (h : unmarshalNotify b = .ok p) :
    ∃ pr nt spi d, p = .notify pr nt spi d := by
  unfold unmarshalNotify at h
  split at h
  · simp only [Res.ok.injEq] at h; exact ⟨_, _, _, _, h.symm⟩
  · split at h
    · simp at h
    · revert h; go_steps
      split
      · simp
      · go_steps
        intro h
        simp only [Res.ok.injEq] at h
        exact ⟨_, _, _, _, h.symm⟩

theorem deleteSPIs_length (n : Nat) (b : Bytes) (l : List UInt32) (h : deleteSPIs n b = .ok l) :
    l.length = n := by
  induction n generalizing b l with
  | zero => simp [deleteSPIs] at h; subst h; rfl
  | succ n ih =>
    match b with
    | b0 :: b1 :: b2 :: b3 :: rest =>
      simp only [deleteSPIs] at h
      cases hr : deleteSPIs n rest with
      | ok l' =>
        rw [hr] at h
        simp only [Res.ok.injEq] at h
        subst h
        simp [ih rest l' hr]
      | err => rw [hr] at h; simp at h
      | fault => rw [hr] at h; simp at h
    | [] => simp [deleteSPIs] at h
    | [_] => simp [deleteSPIs] at h
    | [_, _] => simp [deleteSPIs] at h
    | [_, _, _] => simp [deleteSPIs] at h

theorem img_delete (b : Bytes) (p : Payload) (h : unmarshalDelete b = .ok p) :
    ∃ pr s n spis, p = .delete pr s n spis ∧ spis.length = n.toNat ∧ (n.toNat = 0 ∨ s = 4) := by
  unfold unmarshalDelete at h
  split at h
  · simp only [Res.ok.injEq] at h; exact ⟨0, 0, 0, [], h.symm, rfl, Or.inl rfl⟩
  · split at h
    · simp at h
    · revert h; go_steps
      split
      · simp
      · split
        · simp
        · rename_i hlen hg
          go_steps
          cases hd : deleteSPIs _ _ with
          | ok l =>
            simp only [Res.bind_ok, Res.ok.injEq]
            intro h
            refine ⟨_, _, _, _, h.symm, deleteSPIs_length _ _ _ hd, ?_⟩
            simp only [Bool.and_eq_true, decide_eq_true_eq, bne_iff_ne, ne_eq, not_and, Decidable.not_not] at hg
            generalize (be16 (byteAt b 2) (byteAt b 3)).toNat = k at *
            by_cases hz : k = 0
            · exact Or.inl hz
            · exact Or.inr (hg (by omega))
          | err => simp
          | fault => simp

/-- Delete as decoded: count = number of SPIs and (no SPI or SPI size 4) round-trips -/
theorem rt_delete_img (proto spiSize : UInt8) (num : UInt16) (spis : List UInt32) (bs : Bytes)
    (hlen : spis.length = num.toNat) (hdom : num.toNat = 0 ∨ spiSize = 4)
    (h : marshalDelete proto spiSize num spis = .ok bs) :
    unmarshalDelete bs = .ok (.delete proto spiSize num spis) := by
  rcases hdom with h0 | h4
  · have hn : num = 0 := UInt16.toNat_inj.mp (by rw [h0]; rfl)
    subst hn
    have hs : spis = [] := List.eq_nil_of_length_eq_zero (by rw [hlen]; rfl)
    subst hs
    unfold marshalDelete at h
    simp at h
    subst h
    unfold unmarshalDelete
    simp [goIndex, goU16, goFrom, be16, put16, deleteSPIs]
  · exact rt_delete proto spiSize num spis bs (Or.inr h4) h

theorem img_TS (mk : List TSel → Payload) (b : Bytes) (p : Payload) (h : unmarshalTS mk b = .ok p) :
    ∃ l, p = mk l := by
  unfold unmarshalTS at h
  split at h
  · simp only [Res.ok.injEq] at h; exact ⟨_, h.symm⟩
  · split at h
    · simp at h
    · revert h; go_steps
      cases hl : unmarshalTSels _ _ with
      | ok l => simp only [Res.bind_ok, Res.ok.injEq]; intro h; exact ⟨_, h.symm⟩
      | err => simp
      | fault => simp

theorem u16_and_7fff_lt (a : UInt16) : (a &&& 0x7fff).toNat < 32768 := by
  rw [UInt16.toNat_and]
  have : (0x7fff : UInt16).toNat = 32767 := rfl
  rw [this]
  have := @Nat.and_le_right a.toNat 32767
  omega

theorem parseCPAttr_type (d : Bytes) (a : CPAttr) (n : Nat) (h : parseCPAttr d = .ok (a, n)) :
    a.atype.toNat < 32768 := by
  unfold parseCPAttr at h
  obtain ⟨len, _, h⟩ := Res.bind_eq_ok h
  split at h
  · simp at h
  · obtain ⟨ty, _, h⟩ := Res.bind_eq_ok h
    obtain ⟨v, _, h⟩ := Res.bind_eq_ok h
    simp only [Res.ok.injEq, Prod.mk.injEq] at h
    rw [← h.1]
    exact u16_and_7fff_lt ty

theorem unmarshalCPAttrs_types (d : Bytes) (l : List CPAttr) (h : unmarshalCPAttrs d = .ok l) :
    (∀ a ∈ l, a.atype.toNat < 32768) ∧ (d.length ≠ 0 → l ≠ []) := by
  fun_induction unmarshalCPAttrs d generalizing l with
  | case1 d h0 => simp only [Res.ok.injEq] at h; subst h; exact ⟨by simp, fun hc => absurd h0 hc⟩
  | case2 => simp at h
  | case3 d h0 h4 a n hp hn rest hrest ih =>
    simp only [Res.ok.injEq] at h
    subst h
    refine ⟨?_, by simp⟩
    intro x hx
    simp only [List.mem_cons] at hx
    rcases hx with rfl | hx
    · exact parseCPAttr_type _ _ _ hp
    · exact (ih rest hrest).1 x hx
  | case4 => simp at h
  | case5 => simp at h
  | case6 => simp at h
  | case7 => simp at h
  | case8 => simp at h

theorem img_CP (b : Bytes) (p : Payload) (h : unmarshalCP b = .ok p) :
    ∃ ct attrs, p = .cp ct attrs ∧ attrs ≠ [] ∧ ∀ a ∈ attrs, a.atype.toNat < 32768 := by
  unfold unmarshalCP at h
  split at h
  · simp at h
  · revert h; go_steps
    cases hl : unmarshalCPAttrs _ with
    | ok l =>
      simp only [Res.bind_ok, Res.ok.injEq]
      intro h
      have := unmarshalCPAttrs_types _ _ hl
      exact ⟨_, _, h.symm, this.2 (by len_omega), this.1⟩
    | err => simp
    | fault => simp


/-! ### Security Association: the decoder's image -/

/-- what `parseTransform` can return: no attribute; a TV attribute; a TLV attribute whose
value may be EMPTY (the encoder refuses that one) -/
def Transform.Img (t : Transform) : Prop :=
  (t.present = false ∧ t.fmt = 0 ∧ t.atype = 0 ∧ t.aval = 0 ∧ t.vval = []) ∨
  (t.present = true ∧ t.fmt = 1 ∧ t.atype.toNat < 32768 ∧ t.vval = []) ∨
  (t.present = true ∧ t.fmt = 0 ∧ t.atype.toNat < 32768 ∧ t.aval = 0)

theorem u8_bit7_cases (x : UInt8) : ((x &&& 0x80) >>> 7) = 0 ∨ ((x &&& 0x80) >>> 7) = 1 := by
  rw [u8_bit7']
  have : x.toNat / 128 = 0 ∨ x.toNat / 128 = 1 := by have := x.toNat_lt; omega
  rcases this with h | h <;> rw [h]
  · exact Or.inl rfl
  · exact Or.inr rfl

theorem parseTransform_img (td : Bytes) (t : Transform) (n : Nat) (h : parseTransform td = .ok (t, n)) :
    t.Img := by
  unfold parseTransform at h
  obtain ⟨tl, _, h⟩ := Res.bind_eq_ok h
  split at h
  · simp at h
  · split at h
    · simp at h
    · obtain ⟨tt, _, h⟩ := Res.bind_eq_ok h
      obtain ⟨tid, _, h⟩ := Res.bind_eq_ok h
      split at h
      · split at h
        · simp at h
        · obtain ⟨b8, _, h⟩ := Res.bind_eq_ok h
          obtain ⟨ft, _, h⟩ := Res.bind_eq_ok h
          dsimp only at h
          split at h
          · rename_i hf
            obtain ⟨al, _, h⟩ := Res.bind_eq_ok h
            split at h
            · simp at h
            · obtain ⟨v, _, h⟩ := Res.bind_eq_ok h
              simp only [Res.ok.injEq, Prod.mk.injEq] at h
              rw [← h.1]
              refine Or.inr (Or.inr ⟨rfl, ?_, u16_and_7fff_lt ft, rfl⟩)
              simpa using hf
          · rename_i hf
            obtain ⟨av, _, h⟩ := Res.bind_eq_ok h
            simp only [Res.ok.injEq, Prod.mk.injEq] at h
            rw [← h.1]
            refine Or.inr (Or.inl ⟨rfl, ?_, u16_and_7fff_lt ft, rfl⟩)
            rcases u8_bit7_cases b8 with h0 | h1
            · exact absurd (by simp [h0]) hf
            · exact h1
      · simp only [Res.ok.injEq, Prod.mk.injEq] at h
        rw [← h.1]
        exact Or.inl ⟨rfl, rfl, rfl, rfl, rfl⟩

/-- a decoded transform that the encoder accepts lies in the encodable domain -/
theorem Transform.dom_of_img (t : Transform) (hi : t.Img) (a : Bytes) (hm : marshalAttr t = .ok a) : t.Dom := by
  rcases hi with h | h | ⟨h1, h2, h3, h4⟩
  · exact Or.inl h
  · exact Or.inr (Or.inl h)
  · refine Or.inr (Or.inr ⟨h1, h2, h3, h4, ?_⟩)
    intro hv
    unfold marshalAttr at hm
    simp [h1, h2, hv] at hm

theorem marshalTransform_attr (last : Bool) (t : Transform) (h : Bytes) (hm : marshalTransform last t = .ok h) :
    ∃ a, marshalAttr t = .ok a := by
  unfold marshalTransform at hm
  obtain ⟨a, ha, _⟩ := Res.bind_eq_ok hm
  exact ⟨a, ha⟩

theorem marshalTransforms_attr (ts : List Transform) (bs : Bytes) (hm : marshalTransforms ts = .ok bs) :
    ∀ t ∈ ts, ∃ a, marshalAttr t = .ok a := by
  induction ts generalizing bs with
  | nil => simp
  | cons t rest ih =>
    simp only [marshalTransforms] at hm
    obtain ⟨h, hh, hm⟩ := Res.bind_eq_ok hm
    obtain ⟨tl, hr, _⟩ := Res.bind_eq_ok hm
    intro x hx
    simp only [List.mem_cons] at hx
    rcases hx with rfl | hx
    · exact marshalTransform_attr _ _ _ hh
    · exact ih tl hr x hx

/-- decoder's image of a proposal: every transform filed under its own type, each in `Transform.Img` -/
def Proposal.Img (p : Proposal) : Prop :=
  (∀ t ∈ p.encr, t.ttype = Facts.ttEncr ∧ t.Img) ∧ (∀ t ∈ p.prf, t.ttype = Facts.ttPrf ∧ t.Img) ∧
  (∀ t ∈ p.integ, t.ttype = Facts.ttInteg ∧ t.Img) ∧ (∀ t ∈ p.dh, t.ttype = Facts.ttDh ∧ t.Img) ∧
  (∀ t ∈ p.esn, t.ttype = Facts.ttEsn ∧ t.Img)

theorem Proposal.file_img (p : Proposal) (t : Transform) (hp : p.Img) (ht : t.Img) : (p.file t).Img := by
  obtain ⟨h1, h2, h3, h4, h5⟩ := hp
  unfold Proposal.file
  split
  · rename_i hc
    refine ⟨?_, h2, h3, h4, h5⟩
    intro x hx
    simp only [List.mem_append, List.mem_singleton] at hx
    rcases hx with hx | rfl
    · exact h1 x hx
    · exact ⟨by simpa using hc, ht⟩
  · split
    · rename_i hc
      refine ⟨h1, ?_, h3, h4, h5⟩
      intro x hx
      simp only [List.mem_append, List.mem_singleton] at hx
      rcases hx with hx | rfl
      · exact h2 x hx
      · exact ⟨by simpa using hc, ht⟩
    · split
      · rename_i hc
        refine ⟨h1, h2, ?_, h4, h5⟩
        intro x hx
        simp only [List.mem_append, List.mem_singleton] at hx
        rcases hx with hx | rfl
        · exact h3 x hx
        · exact ⟨by simpa using hc, ht⟩
      · split
        · rename_i hc
          refine ⟨h1, h2, h3, ?_, h5⟩
          intro x hx
          simp only [List.mem_append, List.mem_singleton] at hx
          rcases hx with hx | rfl
          · exact h4 x hx
          · exact ⟨by simpa using hc, ht⟩
        · split
          · rename_i hc
            refine ⟨h1, h2, h3, h4, ?_⟩
            intro x hx
            simp only [List.mem_append, List.mem_singleton] at hx
            rcases hx with hx | rfl
            · exact h5 x hx
            · exact ⟨by simpa using hc, ht⟩
          · exact ⟨h1, h2, h3, h4, h5⟩

theorem unmarshalTransforms_img (td : Bytes) (p q : Proposal) (hp : p.Img)
    (h : unmarshalTransforms td p = .ok q) : q.Img := by
  fun_induction unmarshalTransforms td p with
  | case1 td p h0 => simp only [Res.ok.injEq] at h; exact h ▸ hp
  | case2 => simp at h
  | case3 td p h0 h8 t n hpt hn ih => exact ih (Proposal.file_img _ _ hp (parseTransform_img _ _ _ hpt)) h
  | case4 => simp at h
  | case5 => simp at h
  | case6 => simp at h

theorem parseProposal_img (b : Bytes) (p : Proposal) (n : Nat) (h : parseProposal b = .ok (p, n)) : p.Img := by
  unfold parseProposal at h
  obtain ⟨pl, _, h⟩ := Res.bind_eq_ok h
  split at h
  · simp at h
  · split at h
    · simp at h
    · obtain ⟨num, _, h⟩ := Res.bind_eq_ok h
      obtain ⟨proto, _, h⟩ := Res.bind_eq_ok h
      obtain ⟨s, _, h⟩ := Res.bind_eq_ok h
      dsimp only at h
      have key : ∀ spi, (do
            let td ← goSlice b (8 + s.toNat) pl.toNat
            let p ← unmarshalTransforms td ⟨num, proto, spi, [], [], [], [], []⟩
            Res.ok (p, pl.toNat)) = Res.ok (p, n) → p.Img := by
        intro spi h
        obtain ⟨td, _, h⟩ := Res.bind_eq_ok h
        obtain ⟨q, hq, h⟩ := Res.bind_eq_ok h
        simp only [Res.ok.injEq, Prod.mk.injEq] at h
        rw [← h.1]
        exact unmarshalTransforms_img _ _ _ (by simp [Proposal.Img]) hq
      split at h
      · split at h
        · simp at h
        · obtain ⟨spi, _, h⟩ := Res.bind_eq_ok h
          exact key spi h
      · exact key [] h

theorem unmarshalProposals_img (b : Bytes) (ps : List Proposal) (h : unmarshalProposals b = .ok ps) :
    ∀ p ∈ ps, p.Img := by
  fun_induction unmarshalProposals b generalizing ps with
  | case1 b h0 => simp only [Res.ok.injEq] at h; subst h; simp
  | case2 => simp at h
  | case3 b h0 h8 p n hp hn rest hrest ih =>
    simp only [Res.ok.injEq] at h
    subst h
    intro x hx
    simp only [List.mem_cons] at hx
    rcases hx with rfl | hx
    · exact parseProposal_img _ _ _ hp
    · exact ih rest hrest x hx
  | case4 => simp at h
  | case5 => simp at h
  | case6 => simp at h
  | case7 => simp at h
  | case8 => simp at h

/-- a decoded proposal that the encoder accepts lies in the encodable domain -/
theorem Proposal.dom_of_img (p : Proposal) (hi : p.Img) (last : Bool) (h : Bytes)
    (hm : marshalProposal last p = .ok h) : p.Dom := by
  unfold marshalProposal at hm
  split at hm
  · simp at hm
  · dsimp only at hm
    split at hm
    · simp at hm
    · split at hm
      · simp at hm
      · obtain ⟨td, htd, _⟩ := Res.bind_eq_ok hm
        have ha := marshalTransforms_attr _ _ htd
        have hmem : ∀ t, (t ∈ p.encr ∨ t ∈ p.prf ∨ t ∈ p.integ ∨ t ∈ p.dh ∨ t ∈ p.esn) → t ∈ p.transforms := by
          intro t ht
          simp only [Proposal.transforms, List.mem_append]
          rcases ht with ht | ht | ht | ht | ht <;> simp [ht]
        obtain ⟨h1, h2, h3, h4, h5⟩ := hi
        refine ⟨?_, ?_, ?_, ?_, ?_⟩
        · intro t ht
          obtain ⟨a, hat⟩ := ha t (hmem t (Or.inl ht))
          exact ⟨(h1 t ht).1, Transform.dom_of_img t (h1 t ht).2 a hat⟩
        · intro t ht
          obtain ⟨a, hat⟩ := ha t (hmem t (Or.inr (Or.inl ht)))
          exact ⟨(h2 t ht).1, Transform.dom_of_img t (h2 t ht).2 a hat⟩
        · intro t ht
          obtain ⟨a, hat⟩ := ha t (hmem t (Or.inr (Or.inr (Or.inl ht))))
          exact ⟨(h3 t ht).1, Transform.dom_of_img t (h3 t ht).2 a hat⟩
        · intro t ht
          obtain ⟨a, hat⟩ := ha t (hmem t (Or.inr (Or.inr (Or.inr (Or.inl ht)))))
          exact ⟨(h4 t ht).1, Transform.dom_of_img t (h4 t ht).2 a hat⟩
        · intro t ht
          obtain ⟨a, hat⟩ := ha t (hmem t (Or.inr (Or.inr (Or.inr (Or.inr ht)))))
          exact ⟨(h5 t ht).1, Transform.dom_of_img t (h5 t ht).2 a hat⟩

theorem marshalProposals_each (ps : List Proposal) (bs : Bytes) (hm : marshalProposals ps = .ok bs) :
    ∀ p ∈ ps, ∃ last h, marshalProposal last p = .ok h := by
  induction ps generalizing bs with
  | nil => simp
  | cons p rest ih =>
    simp only [marshalProposals] at hm
    obtain ⟨h, hh, hm⟩ := Res.bind_eq_ok hm
    obtain ⟨tl, hr, _⟩ := Res.bind_eq_ok hm
    intro x hx
    simp only [List.mem_cons] at hx
    rcases hx with rfl | hx
    · exact ⟨_, _, hh⟩
    · exact ih tl hr x hx

/-- SA: decode, encode, decode again gives the same proposals -/
theorem stable_SA (b : Bytes) (p : Payload) (h : unmarshalSA b = .ok p) :
    ∃ ps, p = .sa ps ∧ ∀ data, marshalSA ps = .ok data → unmarshalSA data = .ok (.sa ps) := by
  unfold unmarshalSA at h
  obtain ⟨ps, hps, h⟩ := Res.bind_eq_ok h
  simp only [Res.ok.injEq] at h
  refine ⟨ps, h.symm, ?_⟩
  intro data hm
  have himg := unmarshalProposals_img _ _ hps
  have hdom : ∀ q ∈ ps, q.Dom := by
    intro q hq
    obtain ⟨last, hh, hmq⟩ := marshalProposals_each ps data hm q hq
    exact Proposal.dom_of_img q (himg q hq) last hh hmq
  exact rt_SA ps data hdom hm


/-! ### EAP-AKA': every decoded attribute re-encodes to octets that decode to it -/

/-- the attribute is emitted as `type ‖ length ‖ body`, and the reader maps `body` back to it -/
def AkaAttrRT (x : AkaAttr) : Prop :=
  ∃ body, marshalAkaAttr x = x.atype :: x.length :: body ∧
    ∀ rest, parseAkaBody x.atype x.length (body ++ rest) = .ok (x, body.length)

/-- AT_RES / AT_KDF_INPUT with any length octet and bit count the reader accepts -/
theorem parse_marshal_padded' (t len : UInt8) (bits : UInt16) (v rest : Bytes)
    (ht : t = Facts.atRes ∨ t = Facts.atKdfInput) (hv : v.length = bits.toNat / 8)
    (hfit : v.length + 4 ≤ 4 * len.toNat) :
    marshalAkaAttr ⟨t, len, bits, v⟩ =
      t :: len :: (put16 bits ++ v ++ zeros (4 * len.toNat - 4 - v.length)) ∧
    parseAkaBody t len ((put16 bits ++ v ++ zeros (4 * len.toNat - 4 - v.length)) ++ rest) =
      .ok (⟨t, len, bits, v⟩, (put16 bits ++ v ++ zeros (4 * len.toNat - 4 - v.length)).length) := by
  constructor
  · rcases ht with rfl | rfl <;>
      simp [marshalAkaAttr, Facts.atKdf, Facts.atRes, Facts.atKdfInput]
  · have c1 : ¬ (t == Facts.atMac || t == Facts.atRand || t == Facts.atAutn) = true := by
      rcases ht with rfl | rfl <;> decide
    have c2 : (t == Facts.atKdfInput || t == Facts.atRes) = true := by
      rcases ht with rfl | rfl <;> decide
    unfold parseAkaBody
    rw [if_neg c1, if_pos c2, List.append_assoc, List.append_assoc, readN_append _ _ 2 rfl]
    dsimp only
    rw [be16_put16]
    have hlen := len.toNat_lt
    have hbits := bits.toNat_lt
    have hvl : (bits / 8).toNat = v.length := by
      rw [UInt16.toNat_div, hv]; rfl
    have htot : (len.toUInt16 * 4).toNat = len.toNat * 4 := by
      rw [UInt16.toNat_mul, UInt8.toNat_toUInt16]
      have : (4 : UInt16).toNat = 4 := rfl
      rw [this]; omega
    have hv4 : (bits / 8 + 4).toNat = v.length + 4 := by
      rw [UInt16.toNat_add, hvl]
      have : (4 : UInt16).toNat = 4 := rfl
      rw [this]; omega
    have hnlt : ¬ (len.toUInt16 * 4 < bits / 8 + 4) := by
      rw [UInt16.lt_iff_toNat_lt, htot, hv4]; omega
    rw [if_neg hnlt]
    have hpad : (len.toUInt16 * 4 - bits / 8 - 4).toNat = 4 * len.toNat - 4 - v.length := by
      rw [UInt16.toNat_sub, UInt16.toNat_sub, htot, hvl]
      have : (4 : UInt16).toNat = 4 := rfl
      rw [this]; omega
    rw [hvl, readN_append _ _ v.length rfl]
    dsimp only
    by_cases hp : len.toUInt16 * 4 - bits / 8 - 4 > 0
    · rw [if_pos hp, hpad, readN_append _ _ _ (by simp)]
      simp
      omega
    · rw [if_neg hp]
      have : 4 * len.toNat - 4 - v.length = 0 := by
        have : ¬ (0 < (len.toUInt16 * 4 - bits / 8 - 4).toNat) := by
          intro h; apply hp; rw [gt_iff_lt, UInt16.lt_iff_toNat_lt]; simpa using h
        omega
      simp [this]

/-- AT_KDF with any length octet: the value has `(4*len − 2) mod 256` octets and no reserved field -/
theorem parse_marshal_kdf' (len : UInt8) (v rest : Bytes) (hv : v.length = (4 * len - 1 - 1).toNat) :
    marshalAkaAttr ⟨Facts.atKdf, len, 0, v⟩ = Facts.atKdf :: len :: v ∧
    parseAkaBody Facts.atKdf len (v ++ rest) = .ok (⟨Facts.atKdf, len, 0, v⟩, v.length) := by
  constructor
  · simp [marshalAkaAttr, Facts.atKdf, Facts.atRes, Facts.atKdfInput]
  · unfold parseAkaBody
    rw [if_neg (by decide), if_neg (by decide), if_pos (by decide)]
    dsimp only
    rw [← hv, readN_append _ _ _ rfl]

/-- any other attribute type: reserved word kept, value of `4*len − 4` octets -/
theorem parse_marshal_other' (t len : UInt8) (res : UInt16) (v rest : Bytes)
    (c1 : ¬ (t == Facts.atMac || t == Facts.atRand || t == Facts.atAutn) = true)
    (c2 : ¬ (t == Facts.atKdfInput || t == Facts.atRes) = true)
    (c3 : ¬ (t == Facts.atKdf) = true)
    (hl : ¬ (len == 0) = true) (hv : v.length = 4 * len.toNat - 4) :
    marshalAkaAttr ⟨t, len, res, v⟩ = t :: len :: (put16 res ++ v) ∧
    parseAkaBody t len ((put16 res ++ v) ++ rest) = .ok (⟨t, len, res, v⟩, (put16 res ++ v).length) := by
  constructor
  · simp only [Bool.or_eq_true, not_or] at c2
    have c3' : (t != Facts.atKdf) = true := by simpa using c3
    have c2' : (t == Facts.atRes || t == Facts.atKdfInput) = false := by
      simp [c2.1, c2.2]
    simp [marshalAkaAttr, c3', c2']
  · unfold parseAkaBody
    rw [if_neg c1, if_neg c2, if_neg c3, if_neg hl, List.append_assoc, readN_append _ _ 2 rfl]
    dsimp only
    rw [readN_append _ _ _ hv.symm]
    simp [be16_put16]
    omega


theorem u8_or3_cases {t a b c : UInt8} (h : (t == a || t == b || t == c) = true) : t = a ∨ t = b ∨ t = c := by
  simpa [or_assoc] using h

/-- whatever the attribute reader returns re-encodes to `type ‖ length ‖ body` with `body`
read back to the same attribute; the emission is exactly as long as what was consumed -/
theorem parseAkaBody_stable (t len : UInt8) (r : Bytes) (a : AkaAttr) (n : Nat)
    (hp : parseAkaBody t len r = .ok (a, n)) : AkaAttrRT a ∧ (marshalAkaAttr a).length = 2 + n := by
  unfold parseAkaBody at hp
  split at hp
  · rename_i c1
    split at hp
    · simp at hp
    · rename_i h5
      have hlen5 : len = 5 := by simpa using h5
      split at hp
      · simp at hp
      · rename_i rs r1 h1
        split at hp
        · simp at hp
        · rename_i v r2 h2
          obtain ⟨b1, _, b3⟩ := readN_len h2
          have hv : v.length = 16 := by rw [b3]; simp; omega
          simp only [Res.ok.injEq, Prod.mk.injEq] at hp
          obtain ⟨rfl, rfl⟩ := hp
          subst hlen5
          have ht : t = Facts.atRand ∨ t = Facts.atAutn ∨ t = Facts.atMac := by
            rcases u8_or3_cases c1 with h | h | h <;> simp [h]
          refine ⟨⟨put16 0 ++ v, (parse_marshal_fixed16 t v [] ht hv).1,
            fun rest => (parse_marshal_fixed16 t v rest ht hv).2⟩, ?_⟩
          rw [(parse_marshal_fixed16 t v [] ht hv).1]
          simp [hv]
  · rename_i c1
    split at hp
    · rename_i c2
      split at hp
      · simp at hp
      · rename_i rs r1 h1
        simp only at hp
        split at hp
        · simp at hp
        · rename_i hfit
          split at hp
          · simp at hp
          · rename_i v r2 h2
            obtain ⟨b1, _, b3⟩ := readN_len h2
            generalize hbits : be16 (byteAt rs 0) (byteAt rs 1) = bits at *
            have hlen := len.toNat_lt
            have hbl := bits.toNat_lt
            have e4 : (4 : UInt16).toNat = 4 := rfl
            have hvl : (bits / 8).toNat = bits.toNat / 8 := by rw [UInt16.toNat_div]; rfl
            have hv : v.length = bits.toNat / 8 := by rw [b3]; simp; omega
            have htot : (len.toUInt16 * 4).toNat = len.toNat * 4 := by
              rw [UInt16.toNat_mul, UInt8.toNat_toUInt16, e4]; omega
            have hv4 : (bits / 8 + 4).toNat = bits.toNat / 8 + 4 := by
              rw [UInt16.toNat_add, hvl, e4]; omega
            have hfit' : v.length + 4 ≤ 4 * len.toNat := by
              rw [UInt16.lt_iff_toNat_lt, htot, hv4] at hfit; omega
            have hpad : (len.toUInt16 * 4 - bits / 8 - 4).toNat = 4 * len.toNat - 4 - v.length := by
              rw [UInt16.toNat_sub, UInt16.toNat_sub, htot, hvl, e4]; omega
            have ht : t = Facts.atRes ∨ t = Facts.atKdfInput := by
              have : t = Facts.atKdfInput ∨ t = Facts.atRes := by simpa using c2
              exact this.symm
            have key : a = ⟨t, len, bits, v⟩ → n = 4 * len.toNat - 2 →
                AkaAttrRT a ∧ (marshalAkaAttr a).length = 2 + n := by
              intro ha hn
              subst ha hn
              refine ⟨⟨_, (parse_marshal_padded' t len bits v [] ht hv hfit').1,
                fun rest => (parse_marshal_padded' t len bits v rest ht hv hfit').2⟩, ?_⟩
              rw [(parse_marshal_padded' t len bits v [] ht hv hfit').1]
              simp
              omega
            split at hp
            · rename_i hpos
              split at hp
              · simp at hp
              · simp only [Res.ok.injEq, Prod.mk.injEq] at hp
                refine key hp.1.symm ?_
                rw [← hp.2, hpad, hvl]; omega
            · rename_i hpos
              simp only [Res.ok.injEq, Prod.mk.injEq] at hp
              refine key hp.1.symm ?_
              have : ¬ (0 < (len.toUInt16 * 4 - bits / 8 - 4).toNat) := by
                intro h; apply hpos; rw [gt_iff_lt, UInt16.lt_iff_toNat_lt]; simpa using h
              rw [← hp.2, hvl]; omega
    · rename_i c2
      split at hp
      · rename_i c3
        have htk : t = Facts.atKdf := by simpa using c3
        subst htk
        dsimp only at hp
        split at hp
        · simp at hp
        · rename_i v r1 h1
          obtain ⟨b1, _, b3⟩ := readN_len h1
          have hv : v.length = (4 * len - 1 - 1).toNat := by rw [b3]; simp; omega
          simp only [Res.ok.injEq, Prod.mk.injEq] at hp
          obtain ⟨rfl, rfl⟩ := hp
          refine ⟨⟨v, (parse_marshal_kdf' len v [] hv).1, fun rest => (parse_marshal_kdf' len v rest hv).2⟩, ?_⟩
          rw [(parse_marshal_kdf' len v [] hv).1]
          simp [hv]
          omega
      · rename_i c3
        split at hp
        · simp at hp
        · rename_i hl0
          split at hp
          · simp at hp
          · rename_i rs r1 h1
            dsimp only at hp
            split at hp
            · simp at hp
            · rename_i v r2 h2
              obtain ⟨b1, _, b3⟩ := readN_len h2
              have hv : v.length = 4 * len.toNat - 4 := by rw [b3]; simp; omega
              simp only [Res.ok.injEq, Prod.mk.injEq] at hp
              obtain ⟨rfl, rfl⟩ := hp
              have hm := parse_marshal_other' t len (be16 (byteAt rs 0) (byteAt rs 1)) v [] c1 c2 c3 hl0 hv
              refine ⟨⟨_, hm.1, fun rest =>
                (parse_marshal_other' t len (be16 (byteAt rs 0) (byteAt rs 1)) v rest c1 c2 c3 hl0 hv).2⟩, ?_⟩
              rw [hm.1]
              simp [hv]
              omega


/-! ### EAP-AKA': the attribute loop and the packet -/

/-- decoding the emission of a sorted list of round-tripping attributes into an accumulator
that only holds smaller keys appends the list (`unmarshalAkaAttrs_marshal` for `AkaAttrRT`) -/
theorem unmarshalAkaAttrs_marshal' (l : List AkaAttr) (acc : List AkaAttr)
    (hs : AkaSorted l) (hb : ∀ x ∈ l, AkaAttrRT x)
    (hacc : ∀ y ∈ acc, ∀ x ∈ l, y.atype < x.atype) :
    unmarshalAkaAttrs (marshalAkaAttrs l) acc = .ok (acc ++ l) := by
  induction l generalizing acc with
  | nil => simp [marshalAkaAttrs, unmarshalAkaAttrs]
  | cons x rest ih =>
    unfold AkaSorted at hs
    rw [List.pairwise_cons] at hs
    obtain ⟨hx, hrest⟩ := hs
    obtain ⟨body, hm, hp⟩ := hb x (by simp)
    rw [marshalAkaAttrs, hm]
    simp only [List.cons_append]
    rw [unmarshalAkaAttrs_cons _ _ _ _ _ _ (hp _) (by simp)]
    rw [List.drop_left, akaInsert_append _ _ (fun y hy => hacc y hy x (by simp))]
    rw [ih (acc ++ [x]) hrest (fun z hz => hb z (by simp [hz]))]
    · simp
    · intro y hy z hz
      simp at hy
      rcases hy with hy | rfl
      · exact hacc y hy z (by simp [hz])
      · exact hx z hz

theorem marshalAkaAttrs_insert_length (l : List AkaAttr) (a : AkaAttr) :
    (marshalAkaAttrs (akaInsert l a)).length ≤ (marshalAkaAttrs l).length + (marshalAkaAttr a).length := by
  induction l with
  | nil => simp [akaInsert, marshalAkaAttrs]
  | cons x rest ih =>
    unfold akaInsert
    by_cases c1 : a.atype < x.atype
    · rw [if_pos c1]
      simp only [marshalAkaAttrs, List.length_append]; omega
    · rw [if_neg c1]
      by_cases c2 : (a.atype == x.atype) = true
      · rw [if_pos c2]
        simp only [marshalAkaAttrs, List.length_append]; omega
      · rw [if_neg c2]
        simp only [marshalAkaAttrs, List.length_append] at ih ⊢; omega

/-- the attribute loop: every returned attribute round-trips, and re-emitting the returned
list is not longer than what was there plus what was read (duplicates and a lone trailing
type octet are dropped, nothing grows) -/
theorem unmarshalAkaAttrs_img (r : Bytes) (acc l : List AkaAttr)
    (hacc : ∀ x ∈ acc, AkaAttrRT x) (h : unmarshalAkaAttrs r acc = .ok l) :
    (∀ x ∈ l, AkaAttrRT x) ∧ (marshalAkaAttrs l).length ≤ (marshalAkaAttrs acc).length + r.length := by
  fun_induction unmarshalAkaAttrs r acc with
  | case1 acc => simp only [Res.ok.injEq] at h; subst h; exact ⟨hacc, by simp⟩
  | case2 acc _ => simp only [Res.ok.injEq] at h; subst h; exact ⟨hacc, by simp⟩
  | case3 acc t len body a n hp hn ih =>
    obtain ⟨hrt, hsz⟩ := parseAkaBody_stable _ _ _ _ _ hp
    have hacc' : ∀ x ∈ akaInsert acc a, AkaAttrRT x := by
      intro x hx
      rcases akaInsert_mem hx with rfl | hx
      · exact hrt
      · exact hacc x hx
    obtain ⟨i1, i2⟩ := ih hacc' h
    refine ⟨i1, ?_⟩
    have := marshalAkaAttrs_insert_length acc a
    simp only [List.length_drop, List.length_cons] at i2 ⊢
    omega
  | case4 => simp at h
  | case5 => simp at h
  | case6 => simp at h

/-- `EapAkaPrime.Unmarshal`, `Marshal`, `Unmarshal`: same packet; the re-encoding is not longer -/
theorem stable_aka (raw bs : Bytes) (a : Aka) (h : unmarshalAka raw = .ok a) (hm : marshalAka a = .ok bs) :
    unmarshalAka bs = .ok a ∧ bs.length ≤ raw.length := by
  have hsorted := unmarshalAka_sorted raw a h
  unfold unmarshalAka at h
  split at h
  · simp at h
  · rename_i h4
    obtain ⟨c, _, h⟩ := Res.bind_eq_ok h
    split at h
    · simp at h
    · obtain ⟨st, _, h⟩ := Res.bind_eq_ok h
      obtain ⟨rs, _, h⟩ := Res.bind_eq_ok h
      obtain ⟨rest, hrest, h⟩ := Res.bind_eq_ok h
      obtain ⟨attrs, ha, h⟩ := Res.bind_eq_ok h
      simp only [Res.ok.injEq] at h
      subst h
      rw [goFrom_ok (by omega)] at hrest
      simp only [Res.ok.injEq] at hrest
      subst hrest
      obtain ⟨i1, i2⟩ := unmarshalAkaAttrs_img _ _ _ (by simp) ha
      have hbs := hm
      unfold marshalAka at hbs
      simp only [Res.ok.injEq] at hbs
      subst hbs
      dsimp only at *
      refine ⟨?_, ?_⟩
      · unfold unmarshalAka
        rw [if_neg (by len_omega)]
        go_steps
        have h0 : byteAt ([Facts.eapTypeAkaPrime, st] ++ put16 rs ++ marshalAkaAttrs attrs) 0
            = Facts.eapTypeAkaPrime := by simp
        rw [h0, if_neg (by decide)]
        go_steps
        have hd : List.drop 4 ([Facts.eapTypeAkaPrime, st] ++ put16 rs ++ marshalAkaAttrs attrs)
            = marshalAkaAttrs attrs := by simp [put16]
        rw [hd, unmarshalAkaAttrs_marshal' attrs [] hsorted i1 (by simp)]
        simp [put16, be16_put]
      · simp only [marshalAkaAttrs, List.length_nil, List.length_drop, Nat.zero_add] at i2
        len_omega


/-! ### the EAP packet -/

/-- the method dispatch of `EAP.Unmarshal` on the type-data `body` (non-empty) -/
def unmarshalEapData (body : Bytes) : Res EapData :=
  let ty := byteAt body 0
  if ty == Facts.eapTypeIdentity then unmarshalSimple Facts.eapTypeIdentity .identity body
  else if ty == Facts.eapTypeNotification then unmarshalSimple Facts.eapTypeNotification .notification body
  else if ty == Facts.eapTypeNak then unmarshalSimple Facts.eapTypeNak .nak body
  else if ty == Facts.eapTypeAkaPrime then (do let a ← unmarshalAka body; .ok (.aka a))
  else if ty == Facts.eapTypeExpanded then unmarshalExpanded body
  else .err

theorem res_ite_bind {α β : Type} (c : Prop) [Decidable c] (x y : Res α) (f : α → Res β) :
    (if c then x >>= f else y >>= f) = ((if c then x else y) >>= f) := by
  split <;> rfl

/-- what `EAP.Unmarshal` returns: no data, or the dispatch result on a non-empty type-data
of at most 65531 octets -/
theorem unmarshalEap_data (bs : Bytes) (e : Eap) (h : unmarshalEap bs = .ok e) :
    e.data = .none ∨ ∃ body, body ≠ [] ∧ 4 + body.length ≤ 65535 ∧ unmarshalEapData body = .ok e.data := by
  unfold unmarshalEap at h
  split at h
  · simp only [Res.ok.injEq] at h; subst h; exact Or.inl rfl
  · split at h
    · simp at h
    · revert h
      go_steps
      split
      · simp
      · split
        · simp
        · rename_i h0 h3 h4 hlen
          go_steps
          split
          · intro h; simp only [Res.ok.injEq] at h; subst h; exact Or.inl rfl
          · rename_i hne4
            have hpl := (be16 (byteAt bs 2) (byteAt bs (2 + 1))).toNat_lt
            have hlen' : bs.length = (be16 (byteAt bs 2) (byteAt bs (2 + 1))).toNat := by
              simpa using hlen
            have hgt : 4 < bs.length := by
              have h4' := u16_lt_toNat h4
              have e4 : (4 : UInt16).toNat = 4 := rfl
              have : (be16 (byteAt bs 2) (byteAt bs (2 + 1))).toNat ≠ 4 := by
                intro hc
                apply hne4
                have : be16 (byteAt bs 2) (byteAt bs (2 + 1)) = 4 := UInt16.toNat_inj.mp (by rw [hc]; rfl)
                simp [this]
              omega
            go_steps
            intro h
            simp only [res_ite_bind] at h
            obtain ⟨d, hd, h⟩ := Res.bind_eq_ok h
            simp only [Res.ok.injEq] at h
            subst h
            refine Or.inr ⟨List.drop 4 bs, ?_, by len_omega, ?_⟩
            · intro hc
              have := congrArg List.length hc
              simp only [List.length_drop, List.length_nil] at this
              omega
            · have hb : byteAt (List.drop 4 bs) 0 = byteAt bs 4 := by
                simp [byteAt]
              unfold unmarshalEapData
              dsimp only
              rw [hb]
              exact hd

theorem unmarshalSimple_stable (code : UInt8) (mk : Bytes → EapData) (body : Bytes) (d : EapData)
    (h : unmarshalSimple code mk body = .ok d) :
    ∃ dd, d = mk dd ∧ (1 ≤ dd.length →
      unmarshalSimple code mk ([code] ++ dd) = .ok (mk dd) ∧ ([code] ++ dd).length ≤ body.length) := by
  unfold unmarshalSimple at h
  split at h
  · rename_i hl
    revert h
    go_steps
    split
    · simp
    · go_steps
      intro h
      simp only [Res.ok.injEq] at h
      refine ⟨_, h.symm, fun hdd => ⟨rt_unmarshalSimple code mk _ hdd, by len_omega⟩⟩
  · simp only [Res.ok.injEq] at h
    exact ⟨[], h.symm, fun hdd => by simp at hdd⟩

theorem unmarshalExpanded_stable (body td : Bytes) (d : EapData) (hne : body ≠ [])
    (h : unmarshalExpanded body = .ok d) (hm : marshalEapData d = .ok td) :
    byteAt td 0 = Facts.eapTypeExpanded ∧ unmarshalExpanded td = .ok d ∧ td.length ≤ body.length := by
  unfold unmarshalExpanded at h
  split at h
  · rename_i h0
    exact absurd (List.eq_nil_of_length_eq_zero h0) hne
  · split at h
    · simp at h
    · rename_i h8
      revert h
      go_steps
      intro h
      have hv : ((be32 (byteAt body 0) (byteAt body 1) (byteAt body 2) (byteAt body 3)) &&& 0x00ffffff).toNat
          < 16777216 := by
        rw [u32_and_ffffff]; omega
      have key : ∀ dd : Bytes, dd.length + 8 ≤ body.length →
          d = .expanded ((be32 (byteAt body 0) (byteAt body 1) (byteAt body 2) (byteAt body 3)) &&& 0x00ffffff)
            (be32 (byteAt body 4) (byteAt body 5) (byteAt body 6) (byteAt body 7)) dd →
          byteAt td 0 = Facts.eapTypeExpanded ∧ unmarshalExpanded td = .ok d ∧ td.length ≤ body.length := by
        intro dd hdl hd
        subst hd
        simp only [marshalEapData, Res.ok.injEq] at hm
        subst hm
        obtain ⟨r1, r2⟩ := rt_eapData_expanded _ (be32 (byteAt body 4) (byteAt body 5) (byteAt body 6) (byteAt body 7)) dd hv
        refine ⟨r1, r2, ?_⟩
        len_omega
      split at h
      · simp only [Res.ok.injEq] at h
        exact key _ (by len_omega) h.symm
      · simp only [Res.ok.injEq] at h
        exact key _ (by len_omega) h.symm

/-- the method data: decode, encode, decode again gives the same value; the re-encoding is
non-empty and not longer than the input -/
theorem unmarshalEapData_stable (body td : Bytes) (d : EapData) (hne : body ≠ [])
    (h : unmarshalEapData body = .ok d) (hm : marshalEapData d = .ok td) :
    unmarshalEapData td = .ok d ∧ td.length ≤ body.length ∧ td ≠ [] := by
  unfold unmarshalEapData at h
  dsimp only at h
  by_cases c1 : (byteAt body 0 == Facts.eapTypeIdentity) = true
  · rw [if_pos c1] at h
    obtain ⟨dd, rfl, hk⟩ := unmarshalSimple_stable _ _ _ _ h
    simp only [marshalEapData] at hm
    split at hm
    · simp at hm
    · simp only [Res.ok.injEq] at hm
      subst hm
      obtain ⟨k1, k2⟩ := hk (by omega)
      refine ⟨?_, k2, by simp⟩
      unfold unmarshalEapData
      dsimp only
      have : byteAt ([Facts.eapTypeIdentity] ++ dd) 0 = Facts.eapTypeIdentity := by simp
      rw [this, if_pos (by decide)]
      exact k1
  rw [if_neg c1] at h
  by_cases c2 : (byteAt body 0 == Facts.eapTypeNotification) = true
  · rw [if_pos c2] at h
    obtain ⟨dd, rfl, hk⟩ := unmarshalSimple_stable _ _ _ _ h
    simp only [marshalEapData] at hm
    split at hm
    · simp at hm
    · simp only [Res.ok.injEq] at hm
      subst hm
      obtain ⟨k1, k2⟩ := hk (by omega)
      refine ⟨?_, k2, by simp⟩
      unfold unmarshalEapData
      dsimp only
      have : byteAt ([Facts.eapTypeNotification] ++ dd) 0 = Facts.eapTypeNotification := by simp
      rw [this, if_neg (by decide), if_pos (by decide)]
      exact k1
  rw [if_neg c2] at h
  by_cases c3 : (byteAt body 0 == Facts.eapTypeNak) = true
  · rw [if_pos c3] at h
    obtain ⟨dd, rfl, hk⟩ := unmarshalSimple_stable _ _ _ _ h
    simp only [marshalEapData] at hm
    split at hm
    · simp at hm
    · simp only [Res.ok.injEq] at hm
      subst hm
      obtain ⟨k1, k2⟩ := hk (by omega)
      refine ⟨?_, k2, by simp⟩
      unfold unmarshalEapData
      dsimp only
      have : byteAt ([Facts.eapTypeNak] ++ dd) 0 = Facts.eapTypeNak := by simp
      rw [this, if_neg (by decide), if_neg (by decide), if_pos (by decide)]
      exact k1
  rw [if_neg c3] at h
  by_cases c4 : (byteAt body 0 == Facts.eapTypeAkaPrime) = true
  · rw [if_pos c4] at h
    obtain ⟨a, ha, h⟩ := Res.bind_eq_ok h
    simp only [Res.ok.injEq] at h
    subst h
    simp only [marshalEapData] at hm
    obtain ⟨k1, k2⟩ := stable_aka body td a ha hm
    have hty : byteAt td 0 = Facts.eapTypeAkaPrime ∧ td ≠ [] := by
      unfold marshalAka at hm
      simp only [Res.ok.injEq] at hm; subst hm; simp
    refine ⟨?_, k2, hty.2⟩
    unfold unmarshalEapData
    dsimp only
    rw [hty.1, if_neg (by decide), if_neg (by decide), if_neg (by decide), if_pos (by decide), k1]
    rfl
  rw [if_neg c4] at h
  by_cases c5 : (byteAt body 0 == Facts.eapTypeExpanded) = true
  · rw [if_pos c5] at h
    obtain ⟨k0, k1, k2⟩ := unmarshalExpanded_stable body td d hne h hm
    refine ⟨?_, k2, ?_⟩
    · unfold unmarshalEapData
      dsimp only
      rw [k0, if_neg (by decide), if_neg (by decide), if_neg (by decide), if_neg (by decide), if_pos (by decide)]
      exact k1
    · intro hc
      subst hc
      revert k0
      decide
  rw [if_neg c5] at h
  simp at h

/-- `EAP.Unmarshal` of an emitted packet, given what the dispatch does on its type-data -/
theorem unmarshalEap_emitted (code ident : UInt8) (td : Bytes) (d : EapData)
    (hsz : 4 + td.length ≤ 65535)
    (hd : (td = [] ∧ d = .none) ∨ (td ≠ [] ∧ unmarshalEapData td = .ok d)) :
    unmarshalEap ([code, ident] ++ put16 (UInt16.ofNat (4 + td.length)) ++ td) = .ok ⟨code, ident, d⟩ := by
  have hl : (UInt16.ofNat (4 + td.length)).toNat = 4 + td.length := ofNat_toNat_u16 _ (by omega)
  generalize UInt16.ofNat (4 + td.length) = pl at *
  unfold unmarshalEap
  rw [if_neg (by len_omega), if_neg (by len_omega)]
  go_steps
  have hpl : be16 (byteAt ([code, ident] ++ put16 pl ++ td) 2) (byteAt ([code, ident] ++ put16 pl ++ td) (2 + 1)) = pl := by
    simp [put16, be16_put]
  rw [hpl]
  have c1 : ¬ pl < 4 := by
    rw [UInt16.lt_iff_toNat_lt, hl]
    have : (4 : UInt16).toNat = 4 := rfl
    omega
  rw [if_neg c1, if_neg (by rw [hl]; len_omega)]
  go_steps
  have hb0 : byteAt ([code, ident] ++ put16 pl ++ td) 0 = code := by simp
  have hb1 : byteAt ([code, ident] ++ put16 pl ++ td) 1 = ident := by simp
  rw [hb0, hb1]
  rcases hd with ⟨rfl, rfl⟩ | ⟨htd, hdd⟩
  · have : pl = 4 := by apply UInt16.toNat_inj.mp; rw [hl]; rfl
    rw [if_pos (by simp [this])]
  · have htl : 1 ≤ td.length := by
      cases td with
      | nil => exact absurd rfl htd
      | cons x xs => simp
    have c2 : ¬ (pl == 4) = true := by
      intro hh
      have : pl = 4 := by simpa using hh
      rw [this] at hl
      have : (4 : UInt16).toNat = 4 := rfl
      omega
    rw [if_neg c2]
    go_steps
    have hb4 : byteAt ([code, ident] ++ put16 pl ++ td) 4 = byteAt td 0 := by simp [put16]
    have hdrop : List.drop 4 ([code, ident] ++ put16 pl ++ td) = td := by simp [put16]
    rw [hb4, hdrop]
    unfold unmarshalEapData at hdd
    dsimp only at hdd
    simp only [res_ite_bind]
    rw [hdd]
    rfl

/-- **EAP stability**: `Unmarshal`, `Marshal`, `Unmarshal` returns the first decoded packet -/
theorem stable_eap (bs bs' : Bytes) (e : Eap) (h : unmarshalEap bs = .ok e) (hm : marshalEap e = .ok bs') :
    unmarshalEap bs' = .ok e := by
  obtain ⟨td, hmd, rfl⟩ := marshalEap_eq e bs' hm
  obtain ⟨code, ident, data⟩ := e
  dsimp only at *
  rcases unmarshalEap_data bs _ h with hnone | ⟨body, hne, hsz, hdd⟩
  · dsimp only at hnone
    subst hnone
    simp only [marshalEapData, Res.ok.injEq] at hmd
    subst hmd
    exact unmarshalEap_emitted code ident [] .none (by simp) (Or.inl ⟨rfl, rfl⟩)
  · dsimp only at hdd
    obtain ⟨k1, k2, k3⟩ := unmarshalEapData_stable body td data hne hdd hmd
    exact unmarshalEap_emitted code ident td data (by omega) (Or.inr ⟨k3, k1⟩)


/-! ### every decoded payload is stable -/

/-- what `unmarshalPayload` returns, for whatever type code: a payload filed under that type
which — unless it is an Encrypted payload — decodes back from its own re-encoding; an
Encrypted payload is exactly `(next octet, body)` -/
theorem unmarshalPayload_stable (t nx : UInt8) (body : Bytes) (p : Payload)
    (h : unmarshalPayload t nx body = .ok p) :
    p.typeCode = t ∧ (p.isSK = false → PayloadRT p) ∧ (p.isSK = true → p = .sk nx body) := by
  unfold unmarshalPayload at h
  by_cases h1 : (t == Facts.typeSA) = true
  · rw [if_pos h1] at h
    have ht : t = Facts.typeSA := by simpa using h1
    obtain ⟨ps, rfl, hrt⟩ := stable_SA body p h
    refine ⟨ht.symm, fun _ bs nx' hm => ?_, fun hs => by simp [Payload.isSK] at hs⟩
    have e : unmarshalPayload Facts.typeSA nx' bs = unmarshalSA bs := by unfold unmarshalPayload; rfl
    show unmarshalPayload Facts.typeSA nx' bs = _
    rw [e]
    exact hrt bs hm
  rw [if_neg h1] at h
  by_cases h2 : (t == Facts.typeKE) = true
  · rw [if_pos h2] at h
    have ht : t = Facts.typeKE := by simpa using h2
    obtain ⟨g, d, rfl, hd⟩ := img_KE body p h
    refine ⟨ht.symm, fun _ bs nx' hm => ?_, fun hs => by simp [Payload.isSK] at hs⟩
    have e : unmarshalPayload Facts.typeKE nx' bs = unmarshalKE bs := by unfold unmarshalPayload; rfl
    show unmarshalPayload Facts.typeKE nx' bs = _
    rw [e]
    exact rt_KE g d bs hd hm
  rw [if_neg h2] at h
  by_cases h3 : (t == Facts.typeIDi) = true
  · rw [if_pos h3] at h
    have ht : t = Facts.typeIDi := by simpa using h3
    obtain ⟨g, d, rfl, hd⟩ := img_T4 _ body p h
    refine ⟨ht.symm, fun _ bs nx' hm => ?_, fun hs => by simp [Payload.isSK] at hs⟩
    have e : unmarshalPayload Facts.typeIDi nx' bs = unmarshalT4 .idi bs := by unfold unmarshalPayload; rfl
    show unmarshalPayload Facts.typeIDi nx' bs = _
    rw [e]
    exact rt_T4 .idi g d bs hd hm
  rw [if_neg h3] at h
  by_cases h4 : (t == Facts.typeIDr) = true
  · rw [if_pos h4] at h
    have ht : t = Facts.typeIDr := by simpa using h4
    obtain ⟨g, d, rfl, hd⟩ := img_T4 _ body p h
    refine ⟨ht.symm, fun _ bs nx' hm => ?_, fun hs => by simp [Payload.isSK] at hs⟩
    have e : unmarshalPayload Facts.typeIDr nx' bs = unmarshalT4 .idr bs := by unfold unmarshalPayload; rfl
    show unmarshalPayload Facts.typeIDr nx' bs = _
    rw [e]
    exact rt_T4 .idr g d bs hd hm
  rw [if_neg h4] at h
  by_cases h5 : (t == Facts.typeCERT) = true
  · rw [if_pos h5] at h
    have ht : t = Facts.typeCERT := by simpa using h5
    obtain ⟨g, d, rfl, hd⟩ := img_T1 _ body p h
    refine ⟨ht.symm, fun _ bs nx' hm => ?_, fun hs => by simp [Payload.isSK] at hs⟩
    have e : unmarshalPayload Facts.typeCERT nx' bs = unmarshalT1 .cert bs := by unfold unmarshalPayload; rfl
    show unmarshalPayload Facts.typeCERT nx' bs = _
    rw [e]
    exact rt_T1 .cert g d bs hd hm
  rw [if_neg h5] at h
  by_cases h6 : (t == Facts.typeCERTreq) = true
  · rw [if_pos h6] at h
    have ht : t = Facts.typeCERTreq := by simpa using h6
    obtain ⟨g, d, rfl, hd⟩ := img_T1 _ body p h
    refine ⟨ht.symm, fun _ bs nx' hm => ?_, fun hs => by simp [Payload.isSK] at hs⟩
    have e : unmarshalPayload Facts.typeCERTreq nx' bs = unmarshalT1 .certreq bs := by unfold unmarshalPayload; rfl
    show unmarshalPayload Facts.typeCERTreq nx' bs = _
    rw [e]
    exact rt_T1 .certreq g d bs hd hm
  rw [if_neg h6] at h
  by_cases h7 : (t == Facts.typeAUTH) = true
  · rw [if_pos h7] at h
    have ht : t = Facts.typeAUTH := by simpa using h7
    obtain ⟨g, d, rfl, hd⟩ := img_T4 _ body p h
    refine ⟨ht.symm, fun _ bs nx' hm => ?_, fun hs => by simp [Payload.isSK] at hs⟩
    have e : unmarshalPayload Facts.typeAUTH nx' bs = unmarshalT4 .auth bs := by unfold unmarshalPayload; rfl
    show unmarshalPayload Facts.typeAUTH nx' bs = _
    rw [e]
    exact rt_T4 .auth g d bs hd hm
  rw [if_neg h7] at h
  by_cases h8 : (t == Facts.typeNiNr) = true
  · rw [if_pos h8] at h
    have ht : t = Facts.typeNiNr := by simpa using h8
    simp only [Res.ok.injEq] at h
    subst h
    refine ⟨ht.symm, fun _ bs nx' hm => ?_, fun hs => by simp [Payload.isSK] at hs⟩
    simp only [marshalPayload, marshalRaw, Res.ok.injEq] at hm
    subst hm
    show unmarshalPayload Facts.typeNiNr nx' body = _
    unfold unmarshalPayload; rfl
  rw [if_neg h8] at h
  by_cases h9 : (t == Facts.typeN) = true
  · rw [if_pos h9] at h
    have ht : t = Facts.typeN := by simpa using h9
    obtain ⟨pr, nt, spi, d, rfl⟩ := img_notify body p h
    refine ⟨ht.symm, fun _ bs nx' hm => ?_, fun hs => by simp [Payload.isSK] at hs⟩
    have e : unmarshalPayload Facts.typeN nx' bs = unmarshalNotify bs := by unfold unmarshalPayload; rfl
    show unmarshalPayload Facts.typeN nx' bs = _
    rw [e]
    exact rt_notify pr nt spi d bs hm
  rw [if_neg h9] at h
  by_cases h10 : (t == Facts.typeD) = true
  · rw [if_pos h10] at h
    have ht : t = Facts.typeD := by simpa using h10
    obtain ⟨pr, s, n, spis, rfl, hl, hdom⟩ := img_delete body p h
    refine ⟨ht.symm, fun _ bs nx' hm => ?_, fun hs => by simp [Payload.isSK] at hs⟩
    have e : unmarshalPayload Facts.typeD nx' bs = unmarshalDelete bs := by unfold unmarshalPayload; rfl
    show unmarshalPayload Facts.typeD nx' bs = _
    rw [e]
    exact rt_delete_img pr s n spis bs hl hdom hm
  rw [if_neg h10] at h
  by_cases h11 : (t == Facts.typeV) = true
  · rw [if_pos h11] at h
    have ht : t = Facts.typeV := by simpa using h11
    simp only [Res.ok.injEq] at h
    subst h
    refine ⟨ht.symm, fun _ bs nx' hm => ?_, fun hs => by simp [Payload.isSK] at hs⟩
    simp only [marshalPayload, marshalRaw, Res.ok.injEq] at hm
    subst hm
    show unmarshalPayload Facts.typeV nx' body = _
    unfold unmarshalPayload; rfl
  rw [if_neg h11] at h
  by_cases h12 : (t == Facts.typeTSi) = true
  · rw [if_pos h12] at h
    have ht : t = Facts.typeTSi := by simpa using h12
    obtain ⟨l, rfl⟩ := img_TS _ body p h
    refine ⟨ht.symm, fun _ bs nx' hm => ?_, fun hs => by simp [Payload.isSK] at hs⟩
    have e : unmarshalPayload Facts.typeTSi nx' bs = unmarshalTS .tsi bs := by unfold unmarshalPayload; rfl
    show unmarshalPayload Facts.typeTSi nx' bs = _
    rw [e]
    exact rt_TS .tsi l bs hm
  rw [if_neg h12] at h
  by_cases h13 : (t == Facts.typeTSr) = true
  · rw [if_pos h13] at h
    have ht : t = Facts.typeTSr := by simpa using h13
    obtain ⟨l, rfl⟩ := img_TS _ body p h
    refine ⟨ht.symm, fun _ bs nx' hm => ?_, fun hs => by simp [Payload.isSK] at hs⟩
    have e : unmarshalPayload Facts.typeTSr nx' bs = unmarshalTS .tsr bs := by unfold unmarshalPayload; rfl
    show unmarshalPayload Facts.typeTSr nx' bs = _
    rw [e]
    exact rt_TS .tsr l bs hm
  rw [if_neg h13] at h
  by_cases h14 : (t == Facts.typeSK) = true
  · rw [if_pos h14] at h
    have ht : t = Facts.typeSK := by simpa using h14
    simp only [Res.ok.injEq] at h
    subst h
    exact ⟨ht.symm, fun hs => by simp [Payload.isSK] at hs, fun _ => rfl⟩
  rw [if_neg h14] at h
  by_cases h15 : (t == Facts.typeCP) = true
  · rw [if_pos h15] at h
    have ht : t = Facts.typeCP := by simpa using h15
    obtain ⟨ct, attrs, rfl, hne, hty⟩ := img_CP body p h
    refine ⟨ht.symm, fun _ bs nx' hm => ?_, fun hs => by simp [Payload.isSK] at hs⟩
    have e : unmarshalPayload Facts.typeCP nx' bs = unmarshalCP bs := by unfold unmarshalPayload; rfl
    show unmarshalPayload Facts.typeCP nx' bs = _
    rw [e]
    exact rt_CP ct attrs bs hne hty hm
  rw [if_neg h15] at h
  by_cases h16 : (t == Facts.typeEAP) = true
  · rw [if_pos h16] at h
    have ht : t = Facts.typeEAP := by simpa using h16
    obtain ⟨e, he, h⟩ := Res.bind_eq_ok h
    simp only [Res.ok.injEq] at h
    subst h
    refine ⟨ht.symm, fun _ bs nx' hm => ?_, fun hs => by simp [Payload.isSK] at hs⟩
    have e' : unmarshalPayload Facts.typeEAP nx' bs = (do let e ← unmarshalEap bs; .ok (.eap e)) := by
      unfold unmarshalPayload; rfl
    show unmarshalPayload Facts.typeEAP nx' bs = _
    rw [e', stable_eap body bs e he hm]
    rfl
  rw [if_neg h16] at h
  simp at h

/-- one container step: a decoded payload is stable, and an Encrypted payload consumes the
whole remaining container and carries the generic header's next-payload octet -/
theorem chainStep_stable (t : UInt8) (b : Bytes) (p : Payload) (nx : UInt8) (n : Nat)
    (h : chainStep t b = .ok (some p, nx, n)) :
    p.typeCode = t ∧ (p.isSK = false → PayloadRT p) ∧ (p.isSK = true → n = b.length ∧ ∃ d, p = .sk nx d) := by
  unfold chainStep at h
  split at h
  · simp at h
  · revert h
    go_steps
    split
    · simp
    · rename_i h4
      have h4' := u16_lt_toNat h4
      have e4 : (4 : UInt16).toNat = 4 := rfl
      split
      · simp
      · go_steps
        split
        · split
          · simp
          · rename_i hg
            go_steps
            cases hu : unmarshalPayload _ _ _ with
            | ok q =>
              simp only [Res.bind_ok, Res.ok.injEq, Prod.mk.injEq, Option.some.injEq]
              rintro ⟨rfl, rfl, rfl⟩
              obtain ⟨k1, k2, k3⟩ := unmarshalPayload_stable _ _ _ _ hu
              refine ⟨k1, k2, fun hs => ⟨?_, _, k3 hs⟩⟩
              have htk : (t == Facts.typeSK) = true := by rw [← k1]; exact typeCode_sk _ hs
              simp only [htk, Bool.true_and, decide_eq_true_eq, ne_eq, Decidable.not_not] at hg
              exact hg.symm
            | err => simp
            | fault => simp
        · split <;> simp

/-- the decoded list: an Encrypted payload can only be its last element; every other element
decodes back from its own re-encoding -/
theorem decodeChain_stable (t : UInt8) (b : Bytes) (ps : List Payload) (h : decodeChain t b = .ok ps) :
    (∀ p ∈ ps, p.isSK = false → PayloadRT p) ∧ SKLast ps := by
  fun_induction decodeChain t b generalizing ps with
  | case1 => simp only [Res.ok.injEq] at h; subst h; exact ⟨by simp, trivial⟩
  | case2 t b h0 op nx n hp hn rest hrest ih =>
    simp only [Res.ok.injEq] at h
    subst h
    obtain ⟨i1, i2⟩ := ih rest hrest
    cases op with
    | none => exact ⟨i1, i2⟩
    | some p =>
      obtain ⟨k1, k2, k3⟩ := chainStep_stable _ _ _ _ _ hp
      refine ⟨?_, ?_⟩
      · intro x hx
        simp only [List.mem_cons] at hx
        rcases hx with rfl | hx
        · exact k2
        · exact i1 x hx
      · cases rest with
        | nil => trivial
        | cons q r =>
          refine ⟨?_, i2⟩
          cases hs : p.isSK with
          | false => rfl
          | true =>
            exfalso
            obtain ⟨hnb, _⟩ := k3 hs
            rw [hnb] at hrest
            rw [decodeChain, dif_pos (by simp)] at hrest
            simp at hrest
  | case3 => simp at h
  | case4 => simp at h
  | case5 => simp at h
  | case6 => simp at h
  | case7 => simp at h


/-! ### whole messages -/

/-- message round trip when an Encrypted payload may close the chain (`rt_msg` with
`rt_chain_sk`): decoding the datagram returns exactly the header as updated by `Encode`
and the same payload list -/
theorem rt_msg_sk (m : Msg) (bs : Bytes) (h' : Header)
    (hmaj : m.hdr.major.toNat < 16) (hmin : m.hdr.minor.toNat < 16)
    (hrt : ∀ p ∈ m.payloads, p.isSK = false → PayloadRT p) (hlast : SKLast m.payloads)
    (h : encodeMsg m = .ok (bs, h')) :
    decodeMsg bs = .ok ⟨h', m.payloads⟩ ∧
      h'.ispi = m.hdr.ispi ∧ h'.rspi = m.hdr.rspi ∧ h'.major = m.hdr.major ∧
      h'.minor = m.hdr.minor ∧ h'.exch = m.hdr.exch ∧ h'.flags = m.hdr.flags ∧
      h'.mid = m.hdr.mid := by
  unfold encodeMsg at h
  cases hc : encodeChain m.payloads with
  | err => simp [hc] at h
  | fault => simp [hc] at h
  | ok pb =>
    simp only [hc, Res.bind_ok] at h
    cases hm : marshalHeader { m.hdr with next := firstType m.payloads, payloadBytes := pb } with
    | err => simp [hm] at h
    | fault => simp [hm] at h
    | ok out =>
      simp [hm] at h
      obtain ⟨rfl, rfl⟩ := h
      have hp := rt_header _ _ (by simpa using hmaj) (by simpa using hmin) hm
      refine ⟨?_, rfl, rfl, rfl, rfl, rfl, rfl, rfl⟩
      unfold decodeMsg
      rw [hp]
      simp only [Res.bind_ok]
      rw [rt_chain_sk m.payloads pb hrt hlast hc]
      simp

/-- what `decodeMsg` returns: version nibbles below 16, every non-Encrypted payload stable,
an Encrypted payload only in last position -/
theorem decodeMsg_stable (bs : Bytes) (m : Msg) (h : decodeMsg bs = .ok m) :
    m.hdr.major.toNat < 16 ∧ m.hdr.minor.toNat < 16 ∧
    (∀ p ∈ m.payloads, p.isSK = false → PayloadRT p) ∧ SKLast m.payloads := by
  unfold decodeMsg at h
  obtain ⟨hd, hhd, h⟩ := Res.bind_eq_ok h
  obtain ⟨ps, hps, h⟩ := Res.bind_eq_ok h
  simp only [Res.ok.injEq] at h
  subst h
  obtain ⟨v1, v2⟩ := parseHeader_version bs hd hhd
  obtain ⟨c1, c2⟩ := decodeChain_stable _ _ _ hps
  exact ⟨v1, v2, c1, c2⟩

/-- `encodeMsg` reads only the payload list and the seven stored header fields -/
theorem encodeMsg_congr (m m' : Msg) (hp : m'.payloads = m.payloads)
    (h1 : m'.hdr.ispi = m.hdr.ispi) (h2 : m'.hdr.rspi = m.hdr.rspi) (h3 : m'.hdr.major = m.hdr.major)
    (h4 : m'.hdr.minor = m.hdr.minor) (h5 : m'.hdr.exch = m.hdr.exch) (h6 : m'.hdr.flags = m.hdr.flags)
    (h7 : m'.hdr.mid = m.hdr.mid) : encodeMsg m' = encodeMsg m := by
  obtain ⟨⟨a1, a2, a3, a4, a5, a6, a7, a8, a9⟩, ps⟩ := m
  obtain ⟨⟨b1, b2, b3, b4, b5, b6, b7, b8, b9⟩, ps'⟩ := m'
  simp only at hp h1 h2 h3 h4 h5 h6 h7
  subst hp h1 h2 h3 h4 h5 h6 h7
  rfl

end Ike
