import IkeProofs.Lemmas.NoFault
import IkeProofs.Lemmas.RoundTrip

/-! Lemmas about the protected (SK) message path: `calcIntegrity` in closed form,
the history-independence relation `SAKey.Sim` (C17), the inversion of
`unprotect` / `decryptMsg` (C02), CBC inverse and padding removal, and the
closed form of `protect` (C01 / C06). -/

set_option linter.unusedVariables false
set_option linter.unusedSimpArgs false

namespace Ike

/-! ### the integrity object of one direction -/

/-- the integrity object `calculateIntegrity(…, role, …)` uses: `Integ_i` for the initiator -/
def SAKey.integObj (sa : SAKey) (role : Bool) : HashObj := if role then sa.integ_i else sa.integ_r

/-- store `h` as the integrity object of direction `role` -/
def SAKey.setInteg (sa : SAKey) (role : Bool) (h : HashObj) : SAKey :=
  if role then { sa with integ_i := h } else { sa with integ_r := h }

/-- the cipher object `encryptPayload(…, role, …)` uses: `Encr_i` for the initiator -/
def SAKey.encrObj (sa : SAKey) (role : Bool) : CipherObj := if role then sa.encr_i else sa.encr_r

/-- `calculateIntegrity` in closed form: the object of direction `role` ends up holding exactly
`data` (Reset, then Write), and the result is the truncated MAC of `data` alone —
whatever the object's buffer held before. -/
theorem calcIntegrity_eq (P : Prims) (sa : SAKey) (role : Bool) (d : Bytes) :
    calcIntegrity P sa role d =
      (sa.setInteg role ⟨(sa.integObj role).alg, (sa.integObj role).key, d⟩,
       goTo (P.mac (sa.integObj role).alg (sa.integObj role).key d) sa.integInfo.outLen) := by
  cases role <;>
    simp [calcIntegrity, SAKey.setInteg, SAKey.integObj, HashObj.reset, HashObj.write, HashObj.sum]

theorem WF_integObj (P : Prims) (sa : SAKey) (hw : sa.WF P) (role : Bool) :
    sa.integInfo.outLen ≤ P.macLen (sa.integObj role).alg := by
  cases role
  · exact hw.2
  · exact hw.1

/-- under well-formedness the truncation never faults -/
theorem calcIntegrity_ok (P : Prims) (hP : P.Lawful) (sa : SAKey) (hw : sa.WF P) (role : Bool) (d : Bytes) :
    calcIntegrity P sa role d =
      (sa.setInteg role ⟨(sa.integObj role).alg, (sa.integObj role).key, d⟩,
       .ok ((P.mac (sa.integObj role).alg (sa.integObj role).key d).take sa.integInfo.outLen)) := by
  rw [calcIntegrity_eq, goTo_ok]
  rw [hP.mac_len]; exact WF_integObj P sa hw role

@[simp] theorem setInteg_integInfo (sa : SAKey) (role : Bool) (h : HashObj) :
    (sa.setInteg role h).integInfo = sa.integInfo := by cases role <;> rfl
@[simp] theorem setInteg_encr_i (sa : SAKey) (role : Bool) (h : HashObj) :
    (sa.setInteg role h).encr_i = sa.encr_i := by cases role <;> rfl
@[simp] theorem setInteg_encr_r (sa : SAKey) (role : Bool) (h : HashObj) :
    (sa.setInteg role h).encr_r = sa.encr_r := by cases role <;> rfl

/-! ### history independence: the relation `≈` -/

/-- two hash objects made by `hmac.New` with the same hash and key; write buffers arbitrary -/
def HashObj.Sim (a b : HashObj) : Prop := a.alg = b.alg ∧ a.key = b.key

/-- `sa ≈ sb`: same descriptors, same seven keys, cipher objects equal, each hash
object has the same algorithm and key — the write buffers of the five hash
objects are unconstrained. -/
structure SAKey.Sim (a b : SAKey) : Prop where
  encrInfo  : a.encrInfo = b.encrInfo
  integInfo : a.integInfo = b.integInfo
  prfInfo   : a.prfInfo = b.prfInfo
  prf_d   : a.prf_d.Sim b.prf_d
  integ_i : a.integ_i.Sim b.integ_i
  integ_r : a.integ_r.Sim b.integ_r
  encr_i  : a.encr_i = b.encr_i
  encr_r  : a.encr_r = b.encr_r
  prf_i   : a.prf_i.Sim b.prf_i
  prf_r   : a.prf_r.Sim b.prf_r
  sk_d  : a.sk_d = b.sk_d
  sk_ai : a.sk_ai = b.sk_ai
  sk_ar : a.sk_ar = b.sk_ar
  sk_ei : a.sk_ei = b.sk_ei
  sk_er : a.sk_er = b.sk_er
  sk_pi : a.sk_pi = b.sk_pi
  sk_pr : a.sk_pr = b.sk_pr

infix:50 " ≈ₛ " => SAKey.Sim

theorem HashObj.Sim.refl (a : HashObj) : a.Sim a := ⟨rfl, rfl⟩
theorem HashObj.Sim.symm {a b : HashObj} (h : a.Sim b) : b.Sim a := ⟨h.1.symm, h.2.symm⟩
theorem HashObj.Sim.trans {a b c : HashObj} (h : a.Sim b) (g : b.Sim c) : a.Sim c :=
  ⟨h.1.trans g.1, h.2.trans g.2⟩

theorem SAKey.Sim.refl (a : SAKey) : a ≈ₛ a :=
  ⟨rfl, rfl, rfl, .refl _, .refl _, .refl _, rfl, rfl, .refl _, .refl _, rfl, rfl, rfl, rfl, rfl, rfl, rfl⟩

theorem SAKey.Sim.symm {a b : SAKey} (h : a ≈ₛ b) : b ≈ₛ a :=
  ⟨h.encrInfo.symm, h.integInfo.symm, h.prfInfo.symm, h.prf_d.symm, h.integ_i.symm, h.integ_r.symm,
   h.encr_i.symm, h.encr_r.symm, h.prf_i.symm, h.prf_r.symm, h.sk_d.symm, h.sk_ai.symm, h.sk_ar.symm,
   h.sk_ei.symm, h.sk_er.symm, h.sk_pi.symm, h.sk_pr.symm⟩

theorem SAKey.Sim.trans {a b c : SAKey} (h : a ≈ₛ b) (g : b ≈ₛ c) : a ≈ₛ c :=
  ⟨h.encrInfo.trans g.encrInfo, h.integInfo.trans g.integInfo, h.prfInfo.trans g.prfInfo,
   h.prf_d.trans g.prf_d, h.integ_i.trans g.integ_i, h.integ_r.trans g.integ_r,
   h.encr_i.trans g.encr_i, h.encr_r.trans g.encr_r, h.prf_i.trans g.prf_i, h.prf_r.trans g.prf_r,
   h.sk_d.trans g.sk_d, h.sk_ai.trans g.sk_ai, h.sk_ar.trans g.sk_ar, h.sk_ei.trans g.sk_ei,
   h.sk_er.trans g.sk_er, h.sk_pi.trans g.sk_pi, h.sk_pr.trans g.sk_pr⟩

theorem SAKey.Sim.integObj {a b : SAKey} (h : a ≈ₛ b) (role : Bool) : (a.integObj role).Sim (b.integObj role) := by
  cases role
  · exact h.integ_r
  · exact h.integ_i

/-- replacing the integrity object of one direction by related objects keeps the relation -/
theorem SAKey.Sim.setInteg {a b : SAKey} (h : a ≈ₛ b) (role : Bool) (x y : HashObj) (hxy : x.Sim y) :
    a.setInteg role x ≈ₛ b.setInteg role y := by
  cases role
  · exact ⟨h.encrInfo, h.integInfo, h.prfInfo, h.prf_d, h.integ_i, hxy, h.encr_i, h.encr_r, h.prf_i, h.prf_r,
      h.sk_d, h.sk_ai, h.sk_ar, h.sk_ei, h.sk_er, h.sk_pi, h.sk_pr⟩
  · exact ⟨h.encrInfo, h.integInfo, h.prfInfo, h.prf_d, hxy, h.integ_r, h.encr_i, h.encr_r, h.prf_i, h.prf_r,
      h.sk_d, h.sk_ai, h.sk_ar, h.sk_ei, h.sk_er, h.sk_pi, h.sk_pr⟩

/-- a state is related to itself with the integrity object of one direction overwritten
by an object of the same hash and key -/
theorem SAKey.Sim.setInteg_self (a : SAKey) (role : Bool) (x : HashObj) (hx : x.Sim (a.integObj role)) :
    a.setInteg role x ≈ₛ a := by
  cases role
  · exact ⟨rfl, rfl, rfl, .refl _, .refl _, hx, rfl, rfl, .refl _, .refl _, rfl, rfl, rfl, rfl, rfl, rfl, rfl⟩
  · exact ⟨rfl, rfl, rfl, .refl _, hx, .refl _, rfl, rfl, .refl _, .refl _, rfl, rfl, rfl, rfl, rfl, rfl, rfl⟩

/-- `calculateIntegrity` on related states: equal results, related states -/
theorem calcIntegrity_sim (P : Prims) {a b : SAKey} (h : a ≈ₛ b) (role : Bool) (d : Bytes) :
    (calcIntegrity P a role d).2 = (calcIntegrity P b role d).2 ∧
    (calcIntegrity P a role d).1 ≈ₛ (calcIntegrity P b role d).1 := by
  rw [calcIntegrity_eq, calcIntegrity_eq]
  obtain ⟨e1, e2⟩ := h.integObj role
  refine ⟨?_, ?_⟩
  · simp only [e1, e2, h.integInfo]
  · exact h.setInteg role _ _ ⟨e1, e2⟩

/-- `calculateIntegrity` keeps the state in its `≈` class -/
theorem calcIntegrity_sim_self (P : Prims) (a : SAKey) (role : Bool) (d : Bytes) :
    (calcIntegrity P a role d).1 ≈ₛ a := by
  rw [calcIntegrity_eq]
  exact SAKey.Sim.setInteg_self a role _ ⟨rfl, rfl⟩

theorem encryptPayload_sim (P : Prims) {a b : SAKey} (h : a ≈ₛ b) (role : Bool) (r : Rand) (pl : Bytes) :
    encryptPayload P a role r pl = encryptPayload P b role r pl := by
  unfold encryptPayload; rw [h.encr_i, h.encr_r]

theorem decryptPayload_sim (P : Prims) {a b : SAKey} (h : a ≈ₛ b) (role : Bool) (ct : Bytes) :
    decryptPayload P a role ct = decryptPayload P b role ct := by
  unfold decryptPayload; rw [h.encr_i, h.encr_r]

/-- `EncodeEncrypt` on related states: equal outputs (random source, result), related states -/
theorem protect_sim (P : Prims) {a b : SAKey} (h : a ≈ₛ b) (role : Bool) (r : Rand) (m : Msg) :
    (protect P a role r m).2 = (protect P b role r m).2 ∧
    (protect P a role r m).1 ≈ₛ (protect P b role r m).1 := by
  unfold protect
  simp only [calcIntegrity_eq, encryptPayload_sim P h, h.integInfo]
  obtain ⟨e1, e2⟩ := h.integObj role
  rw [e1, e2]
  cases encodeChain m.payloads with
  | err => exact ⟨rfl, h⟩
  | fault => exact ⟨rfl, h⟩
  | ok plain =>
    simp only
    cases encryptPayload P b role r plain with
    | mk r1 res =>
      cases res with
      | err => exact ⟨rfl, h⟩
      | fault => exact ⟨rfl, h⟩
      | ok ct =>
        simp only
        cases encodeMsg { hdr := m.hdr, payloads := [Payload.sk (firstType m.payloads) (ct ++ zeros b.integInfo.outLen)] } with
        | err => exact ⟨rfl, h⟩
        | fault => exact ⟨rfl, h⟩
        | ok dh =>
          obtain ⟨data, h1⟩ := dh
          simp only
          by_cases hl : data.length < b.integInfo.outLen
          · rw [if_pos hl, if_pos hl]; exact ⟨rfl, h⟩
          · rw [if_neg hl, if_neg hl]
            have hs := h.setInteg role ⟨(b.integObj role).alg, (b.integObj role).key, List.take (List.length data - b.integInfo.outLen) data⟩ _ (HashObj.Sim.refl _)
            cases goTo (P.mac (b.integObj role).alg (b.integObj role).key
                      (List.take (List.length data - b.integInfo.outLen) data)) b.integInfo.outLen with
            | err => exact ⟨rfl, hs⟩
            | fault => exact ⟨rfl, hs⟩
            | ok checksum =>
              simp only
              cases encodeMsg { hdr := h1, payloads := [Payload.sk (firstType m.payloads) (setTail (ct ++ zeros b.integInfo.outLen) b.integInfo.outLen checksum)] } with
              | err => exact ⟨rfl, hs⟩
              | fault => exact ⟨rfl, hs⟩
              | ok oh => exact ⟨rfl, hs⟩

/-- `decryptMsg` on related states: equal outputs (Decrypt count, result), related states -/
theorem decryptMsg_sim (P : Prims) {a b : SAKey} (h : a ≈ₛ b) (role : Bool) (msg : Bytes) (m : Msg) :
    (decryptMsg P a role msg m).2 = (decryptMsg P b role msg m).2 ∧
    (decryptMsg P a role msg m).1 ≈ₛ (decryptMsg P b role msg m).1 := by
  unfold decryptMsg
  simp only [calcIntegrity_eq, h.integInfo]
  obtain ⟨e1, e2⟩ := h.integObj (!role)
  rw [e1, e2]
  cases lastSK m.payloads none with
  | err => exact ⟨rfl, h⟩
  | fault => exact ⟨rfl, h⟩
  | ok o =>
    cases o with
    | none => exact ⟨rfl, h⟩
    | some x =>
      obtain ⟨next, encData⟩ := x
      simp only
      by_cases h1 : encData.length < b.integInfo.outLen
      · rw [if_pos h1, if_pos h1]; exact ⟨rfl, h⟩
      · rw [if_neg h1, if_neg h1]
        by_cases h2 : msg.length < b.integInfo.outLen
        · rw [if_pos h2, if_pos h2]; exact ⟨rfl, h⟩
        · rw [if_neg h2, if_neg h2]
          have hs := h.setInteg (!role) ⟨(b.integObj (!role)).alg, (b.integObj (!role)).key, List.take (msg.length - b.integInfo.outLen) msg⟩ _ (HashObj.Sim.refl _)
          cases goTo (P.mac (b.integObj (!role)).alg (b.integObj (!role)).key
                      (List.take (msg.length - b.integInfo.outLen) msg)) b.integInfo.outLen with
          | err => exact ⟨rfl, hs⟩
          | fault => exact ⟨rfl, hs⟩
          | ok expect =>
            simp only
            rw [decryptPayload_sim P hs]
            split
            · exact ⟨rfl, hs⟩
            · cases decryptPayload P _ role _ with
              | err => exact ⟨rfl, hs⟩
              | fault => exact ⟨rfl, hs⟩
              | ok plain =>
                simp only
                cases decodeChain next plain with
                | err => exact ⟨rfl, hs⟩
                | fault => exact ⟨rfl, hs⟩
                | ok ps => exact ⟨rfl, hs⟩


/-! ### `unprotect` decomposed -/

/-- the datagram as `DecodeDecrypt` decodes it before looking at any key -/
def unprotectDecoded (hdr : Option Header) (msg : Bytes) : Res Msg :=
  match hdr with
  | none => decodeMsg msg
  | some h => do
    let body ← goFrom msg Facts.ikeHeaderLen
    let ps ← decodeChain h.next body
    .ok ⟨h, ps⟩

/-- does the decoded message present an Encrypted payload first? -/
def Msg.firstIsSK (m : Msg) : Bool :=
  match m.payloads with
  | [] => false
  | p :: _ => p.typeCode == Facts.typeSK

/-- `unprotect` with a key, decomposed: decode; if the first payload is SK run `decryptMsg`. -/
theorem unprotect_some_eq (P : Prims) (k : SAKey) (role : Bool) (hdr : Option Header) (msg : Bytes) :
    unprotect P (some k) role hdr msg =
      match unprotectDecoded hdr msg with
      | .err => (some k, 0, .err)
      | .fault => (some k, 0, .fault)
      | .ok m =>
        if m.firstIsSK then
          (some (decryptMsg P k role msg m).1, (decryptMsg P k role msg m).2.1, (decryptMsg P k role msg m).2.2)
        else if m.payloads = [] ∧ m.hdr.next = Facts.typeSK then (some k, 0, .err)
        else (some k, 0, .ok m) := by
  unfold unprotect unprotectDecoded
  simp only
  cases hdr with
  | none =>
    simp only
    cases decodeMsg msg with
    | err => rfl
    | fault => rfl
    | ok m =>
      obtain ⟨hd, ps⟩ := m
      cases ps with
      | nil => simp [Msg.firstIsSK]
      | cons p rest =>
        simp only
        by_cases hp : (p.typeCode == Facts.typeSK) = true
        · rw [if_pos hp, if_pos (show Msg.firstIsSK ⟨hd, p :: rest⟩ = true from hp)]
        · rw [if_neg hp, if_neg (show ¬ Msg.firstIsSK ⟨hd, p :: rest⟩ = true from hp), if_neg (by simp)]
  | some h =>
    simp only
    cases (do let body ← goFrom msg Facts.ikeHeaderLen; let ps ← decodeChain h.next body; Res.ok (⟨h, ps⟩ : Msg)) with
    | err => rfl
    | fault => rfl
    | ok m =>
      obtain ⟨hd, ps⟩ := m
      cases ps with
      | nil => simp [Msg.firstIsSK]
      | cons p rest =>
        simp only
        by_cases hp : (p.typeCode == Facts.typeSK) = true
        · rw [if_pos hp, if_pos (show Msg.firstIsSK ⟨hd, p :: rest⟩ = true from hp)]
        · rw [if_neg hp, if_neg (show ¬ Msg.firstIsSK ⟨hd, p :: rest⟩ = true from hp), if_neg (by simp)]


/-- `DecodeDecrypt` on related states: equal outputs (Decrypt count, result), related states -/
theorem unprotect_sim (P : Prims) {a b : SAKey} (h : a ≈ₛ b) (role : Bool) (hdr : Option Header) (msg : Bytes) :
    ∃ a' b' n r, unprotect P (some a) role hdr msg = (some a', n, r) ∧
      unprotect P (some b) role hdr msg = (some b', n, r) ∧ a' ≈ₛ b' := by
  rw [unprotect_some_eq, unprotect_some_eq]
  cases unprotectDecoded hdr msg with
  | err => exact ⟨a, b, 0, .err, rfl, rfl, h⟩
  | fault => exact ⟨a, b, 0, .fault, rfl, rfl, h⟩
  | ok m =>
    simp only
    by_cases h1 : m.firstIsSK = true
    · rw [if_pos h1, if_pos h1]
      obtain ⟨e, s⟩ := decryptMsg_sim P h role msg m
      exact ⟨_, _, _, _, rfl, by rw [e], s⟩
    · rw [if_neg h1, if_neg h1]
      split
      · exact ⟨a, b, 0, .err, rfl, rfl, h⟩
      · exact ⟨a, b, 0, .ok m, rfl, rfl, h⟩

theorem HashObj.Sim.reset_write {x y : HashObj} (h : x.Sim y) (d : Bytes) :
    (x.reset).write d = (y.reset).write d := by
  obtain ⟨ax, kx, bx⟩ := x
  obtain ⟨ay, ky, b_y⟩ := y
  obtain ⟨e1, e2⟩ := h
  simp only at e1 e2
  subst e1 e2
  rfl

theorem HashObj.Sim.reset_write_self (x : HashObj) (d : Bytes) : ((x.reset).write d).Sim x := ⟨rfl, rfl⟩

/-- `PrfPlus` loop on related hash objects: equal streams, related objects -/
theorem prfPlusLoop_sim (P : Prims) (s : Bytes) (n : Nat) (fuel : Nat) (x y : HashObj) (h : x.Sim y)
    (i : Nat) (stream block : Bytes) :
    (prfPlusLoop P s n fuel x i stream block).2 = (prfPlusLoop P s n fuel y i stream block).2 ∧
    (prfPlusLoop P s n fuel x i stream block).1.Sim (prfPlusLoop P s n fuel y i stream block).1 := by
  induction fuel generalizing x y i stream block with
  | zero => exact ⟨rfl, h⟩
  | succ f ih =>
    unfold prfPlusLoop
    by_cases hc : stream.length < n
    · rw [if_pos hc, if_pos hc]
      simp only
      rw [h.reset_write]
      exact ⟨rfl, HashObj.Sim.refl _⟩
    · rw [if_neg hc, if_neg hc]
      exact ⟨rfl, h⟩

theorem prfPlus_sim (P : Prims) (x y : HashObj) (h : x.Sim y) (s : Bytes) (n : Nat) :
    (prfPlus P x s n).2 = (prfPlus P y s n).2 ∧ (prfPlus P x s n).1.Sim (prfPlus P y s n).1 := by
  unfold prfPlus
  obtain ⟨e, g⟩ := prfPlusLoop_sim P s n (n + 1) x y h 1 [] []
  simp only
  exact ⟨by rw [e], g⟩

theorem SAKey.Sim.setPrfD {a b : SAKey} (h : a ≈ₛ b) (x y : HashObj) (hxy : x.Sim y) :
    { a with prf_d := x } ≈ₛ { b with prf_d := y } :=
  ⟨h.encrInfo, h.integInfo, h.prfInfo, hxy, h.integ_i, h.integ_r, h.encr_i, h.encr_r, h.prf_i, h.prf_r,
      h.sk_d, h.sk_ai, h.sk_ar, h.sk_ei, h.sk_er, h.sk_pi, h.sk_pr⟩

/-- `GenerateKeyForChildSA` on related IKE SA states: equal keys / error, related states -/
theorem childKeys_sim (P : Prims) {a b : SAKey} (h : a ≈ₛ b) (el il : Nat) (nonce : Bytes) :
    (childKeys P a el il nonce).2 = (childKeys P b el il nonce).2 ∧
    (childKeys P a el il nonce).1 ≈ₛ (childKeys P b el il nonce).1 := by
  unfold childKeys
  obtain ⟨e, g⟩ := prfPlus_sim P a.prf_d b.prf_d h.prf_d nonce ((el + il) * 2)
  simp only
  cases ha : prfPlus P a.prf_d nonce ((el + il) * 2) with
  | mk xa ra =>
    cases hb : prfPlus P b.prf_d nonce ((el + il) * 2) with
    | mk xb rb =>
      rw [ha, hb] at e g
      simp only at e g
      subst e
      have hs := h.setPrfD xa xb g
      cases ra with
      | err => exact ⟨rfl, hs⟩
      | fault => exact ⟨rfl, hs⟩
      | ok ks =>
        simp only
        split
        · exact ⟨rfl, hs⟩
        · exact ⟨rfl, hs⟩


/-- one SA operation on related states: equal outcome, related states -/
theorem saStep_sim (P : Prims) {a b : SAKey} (h : a ≈ₛ b) (op : SaOp) :
    (saStep P a op).2 = (saStep P b op).2 ∧ (saStep P a op).1 ≈ₛ (saStep P b op).1 := by
  cases op with
  | protect role rnd m =>
    simp only [saStep]
    obtain ⟨e, s⟩ := protect_sim P h role { buf := rnd } m
    cases ha : protect P a role { buf := rnd } m with
    | mk a' ra =>
      cases hb : protect P b role { buf := rnd } m with
      | mk b' rb =>
        rw [ha, hb] at e s
        simp only at e s
        subst e
        obtain ⟨r', res⟩ := ra
        cases res with
        | err => exact ⟨rfl, s⟩
        | fault => exact ⟨rfl, s⟩
        | ok x => exact ⟨rfl, s⟩
  | unprotect role withHdr bs =>
    simp only [saStep]
    have key : ∀ hd : Option Header,
        (match unprotect P (some a) role hd bs with
          | (some sa', _, .ok m) => (sa', Res.ok (SaOut.msg m))
          | (some sa', _, .err) => (sa', .err)
          | (some sa', _, .fault) => (sa', .fault)
          | (none, _, .ok m) => (a, .ok (.msg m))
          | (none, _, .err) => (a, .err)
          | (none, _, .fault) => (a, .fault)).2 =
        (match unprotect P (some b) role hd bs with
          | (some sa', _, .ok m) => (sa', Res.ok (SaOut.msg m))
          | (some sa', _, .err) => (sa', .err)
          | (some sa', _, .fault) => (sa', .fault)
          | (none, _, .ok m) => (b, .ok (.msg m))
          | (none, _, .err) => (b, .err)
          | (none, _, .fault) => (b, .fault)).2 ∧
        (match unprotect P (some a) role hd bs with
          | (some sa', _, .ok m) => (sa', Res.ok (SaOut.msg m))
          | (some sa', _, .err) => (sa', .err)
          | (some sa', _, .fault) => (sa', .fault)
          | (none, _, .ok m) => (a, .ok (.msg m))
          | (none, _, .err) => (a, .err)
          | (none, _, .fault) => (a, .fault)).1 ≈ₛ
        (match unprotect P (some b) role hd bs with
          | (some sa', _, .ok m) => (sa', Res.ok (SaOut.msg m))
          | (some sa', _, .err) => (sa', .err)
          | (some sa', _, .fault) => (sa', .fault)
          | (none, _, .ok m) => (b, .ok (.msg m))
          | (none, _, .err) => (b, .err)
          | (none, _, .fault) => (b, .fault)).1 := by
      intro hd
      obtain ⟨a', b', n, r, ea, eb, s⟩ := unprotect_sim P h role hd bs
      rw [ea, eb]
      cases r with
      | err => exact ⟨rfl, s⟩
      | fault => exact ⟨rfl, s⟩
      | ok m => exact ⟨rfl, s⟩
    cases withHdr with
    | false => exact key none
    | true =>
      simp only [if_true]
      cases parseHeader bs with
      | err => exact ⟨rfl, h⟩
      | fault => exact ⟨rfl, h⟩
      | ok hd => exact key (some hd)
  | child el il nonce =>
    simp only [saStep]
    obtain ⟨e, s⟩ := childKeys_sim P h el il nonce
    cases ha : childKeys P a el il nonce with
    | mk a' ra =>
      cases hb : childKeys P b el il nonce with
      | mk b' rb =>
        rw [ha, hb] at e s
        simp only at e s
        subst e
        cases ra with
        | err => exact ⟨rfl, s⟩
        | fault => exact ⟨rfl, s⟩
        | ok x => exact ⟨rfl, s⟩


/-- `EncodeEncrypt` keeps the state in its `≈` class -/
theorem protect_sim_self (P : Prims) (a : SAKey) (role : Bool) (r : Rand) (m : Msg) :
    (protect P a role r m).1 ≈ₛ a := by
  unfold protect
  simp only [calcIntegrity_eq]
  have hs : ∀ d, a.setInteg role ⟨(a.integObj role).alg, (a.integObj role).key, d⟩ ≈ₛ a :=
    fun d => SAKey.Sim.setInteg_self a role _ ⟨rfl, rfl⟩
  cases encodeChain m.payloads with
  | err => exact .refl _
  | fault => exact .refl _
  | ok plain =>
    simp only
    cases encryptPayload P a role r plain with
    | mk r1 res =>
      cases res with
      | err => exact .refl _
      | fault => exact .refl _
      | ok ct =>
        simp only
        cases encodeMsg { hdr := m.hdr, payloads := [Payload.sk (firstType m.payloads) (ct ++ zeros a.integInfo.outLen)] } with
        | err => exact .refl _
        | fault => exact .refl _
        | ok dh =>
          obtain ⟨data, h1⟩ := dh
          simp only
          split
          · exact .refl _
          · cases goTo (P.mac (a.integObj role).alg (a.integObj role).key
                      (List.take (List.length data - a.integInfo.outLen) data)) a.integInfo.outLen with
            | err => exact hs _
            | fault => exact hs _
            | ok checksum =>
              simp only
              cases encodeMsg { hdr := h1, payloads := [Payload.sk (firstType m.payloads) (setTail (ct ++ zeros a.integInfo.outLen) a.integInfo.outLen checksum)] } with
              | err => exact hs _
              | fault => exact hs _
              | ok oh => exact hs _

/-- `decryptMsg` keeps the state in its `≈` class -/
theorem decryptMsg_sim_self (P : Prims) (a : SAKey) (role : Bool) (msg : Bytes) (m : Msg) :
    (decryptMsg P a role msg m).1 ≈ₛ a := by
  unfold decryptMsg
  simp only [calcIntegrity_eq]
  have hs : ∀ d, a.setInteg (!role) ⟨(a.integObj (!role)).alg, (a.integObj (!role)).key, d⟩ ≈ₛ a :=
    fun d => SAKey.Sim.setInteg_self a (!role) _ ⟨rfl, rfl⟩
  cases lastSK m.payloads none with
  | err => exact .refl _
  | fault => exact .refl _
  | ok o =>
    cases o with
    | none => exact .refl _
    | some x =>
      obtain ⟨next, encData⟩ := x
      simp only
      split
      · exact .refl _
      · split
        · exact .refl _
        · cases goTo (P.mac (a.integObj (!role)).alg (a.integObj (!role)).key
                      (List.take (msg.length - a.integInfo.outLen) msg)) a.integInfo.outLen with
          | err => exact hs _
          | fault => exact hs _
          | ok expect =>
            simp only
            split
            · exact hs _
            · cases decryptPayload P _ role _ with
              | err => exact hs _
              | fault => exact hs _
              | ok plain =>
                simp only
                cases decodeChain next plain with
                | err => exact hs _
                | fault => exact hs _
                | ok ps => exact hs _

/-- `DecodeDecrypt` keeps the state in its `≈` class -/
theorem unprotect_sim_self (P : Prims) (a : SAKey) (role : Bool) (hdr : Option Header) (msg : Bytes) :
    ∃ a', (unprotect P (some a) role hdr msg).1 = some a' ∧ a' ≈ₛ a := by
  rw [unprotect_some_eq]
  cases unprotectDecoded hdr msg with
  | err => exact ⟨a, rfl, .refl _⟩
  | fault => exact ⟨a, rfl, .refl _⟩
  | ok m =>
    simp only
    split
    · exact ⟨_, rfl, decryptMsg_sim_self P a role msg m⟩
    · split
      · exact ⟨a, rfl, .refl _⟩
      · exact ⟨a, rfl, .refl _⟩

theorem prfPlusLoop_sim_self (P : Prims) (s : Bytes) (n : Nat) (fuel : Nat) (x : HashObj)
    (i : Nat) (stream block : Bytes) : (prfPlusLoop P s n fuel x i stream block).1.Sim x := by
  induction fuel generalizing x i stream block with
  | zero => exact .refl _
  | succ f ih =>
    unfold prfPlusLoop
    by_cases hc : stream.length < n
    · rw [if_pos hc]
      simp only
      exact (ih _ _ _ _).trans (HashObj.Sim.reset_write_self x _)
    · rw [if_neg hc]
      exact .refl _

theorem SAKey.Sim.setPrfD_self (a : SAKey) (x : HashObj) (hx : x.Sim a.prf_d) :
    { a with prf_d := x } ≈ₛ a :=
  ⟨rfl, rfl, rfl, hx, .refl _, .refl _, rfl, rfl, .refl _, .refl _, rfl, rfl, rfl, rfl, rfl, rfl, rfl⟩

/-- `GenerateKeyForChildSA` keeps the IKE SA state in its `≈` class -/
theorem childKeys_sim_self (P : Prims) (a : SAKey) (el il : Nat) (nonce : Bytes) :
    (childKeys P a el il nonce).1 ≈ₛ a := by
  unfold childKeys
  have g : (prfPlus P a.prf_d nonce ((el + il) * 2)).1.Sim a.prf_d := by
    unfold prfPlus
    exact prfPlusLoop_sim_self P nonce _ _ a.prf_d 1 [] []
  simp only
  cases ha : prfPlus P a.prf_d nonce ((el + il) * 2) with
  | mk xa ra =>
    rw [ha] at g
    have hs := SAKey.Sim.setPrfD_self a xa g
    cases ra with
    | err => exact hs
    | fault => exact hs
    | ok ks =>
      simp only
      split
      · exact hs
      · exact hs

/-- no SA operation leaves the `≈` class of the state it started from -/
theorem saStep_sim_self (P : Prims) (a : SAKey) (op : SaOp) : (saStep P a op).1 ≈ₛ a := by
  cases op with
  | protect role rnd m =>
    simp only [saStep]
    have s := protect_sim_self P a role { buf := rnd } m
    cases ha : protect P a role { buf := rnd } m with
    | mk a' ra =>
      rw [ha] at s
      obtain ⟨r', res⟩ := ra
      cases res with
      | err => exact s
      | fault => exact s
      | ok x => exact s
  | unprotect role withHdr bs =>
    simp only [saStep]
    have key : ∀ hd : Option Header,
        (match unprotect P (some a) role hd bs with
          | (some sa', _, .ok m) => (sa', Res.ok (SaOut.msg m))
          | (some sa', _, .err) => (sa', .err)
          | (some sa', _, .fault) => (sa', .fault)
          | (none, _, .ok m) => (a, .ok (.msg m))
          | (none, _, .err) => (a, .err)
          | (none, _, .fault) => (a, .fault)).1 ≈ₛ a := by
      intro hd
      obtain ⟨a', ea, s⟩ := unprotect_sim_self P a role hd bs
      cases hu : unprotect P (some a) role hd bs with
      | mk o nr =>
        rw [hu] at ea
        simp only at ea
        subst ea
        obtain ⟨n, r⟩ := nr
        cases r with
        | err => exact s
        | fault => exact s
        | ok m => exact s
    cases withHdr with
    | false => exact key none
    | true =>
      simp only [if_true]
      cases parseHeader bs with
      | err => exact .refl _
      | fault => exact .refl _
      | ok hd => exact key (some hd)
  | child el il nonce =>
    simp only [saStep]
    have s := childKeys_sim_self P a el il nonce
    cases ha : childKeys P a el il nonce with
    | mk a' ra =>
      rw [ha] at s
      cases ra with
      | err => exact s
      | fault => exact s
      | ok x => exact s


/-! ### `decryptMsg` in closed form; inversion (C02) -/

theorem decryptPayload_eq (P : Prims) (sa : SAKey) (role : Bool) (ct : Bytes) :
    decryptPayload P sa role ct = cbcDecrypt P (sa.encrObj (!role)) ct := by
  cases role <;> rfl

theorem encryptPayload_eq (P : Prims) (sa : SAKey) (role : Bool) (r : Rand) (pl : Bytes) :
    encryptPayload P sa role r pl = cbcEncrypt P (sa.encrObj role) r pl := by
  cases role <;> rfl

@[simp] theorem setInteg_encrObj (sa : SAKey) (role r2 : Bool) (h : HashObj) :
    (sa.setInteg role h).encrObj r2 = sa.encrObj r2 := by cases role <;> rfl

theorem sk_bytesEq_iff (a b : Bytes) : bytesEq a b = true ↔ a = b := by
  unfold bytesEq; simp

/-- `decryptMsg` in closed form once the payload scan found an SK body at least as long as
the checksum: the integrity object of the PEER's direction (`!role`) is left holding the
signed octets; the cipher is called (count 1) exactly when the received tail equals the
truncated MAC, under the peer-direction key, of every octet before the last `cl`. -/
theorem decryptMsg_eq (P : Prims) (hP : P.Lawful) (sa : SAKey) (hw : sa.WF P) (role : Bool)
    (msg : Bytes) (m : Msg) (next : UInt8) (encData : Bytes)
    (hl : lastSK m.payloads none = .ok (some (next, encData)))
    (h1 : sa.integInfo.outLen ≤ encData.length) (h2 : sa.integInfo.outLen ≤ msg.length) :
    decryptMsg P sa role msg m =
      (sa.setInteg (!role) ⟨(sa.integObj (!role)).alg, (sa.integObj (!role)).key,
          msg.take (msg.length - sa.integInfo.outLen)⟩,
       if encData.drop (encData.length - sa.integInfo.outLen) =
           (P.mac (sa.integObj (!role)).alg (sa.integObj (!role)).key
              (msg.take (msg.length - sa.integInfo.outLen))).take sa.integInfo.outLen
       then (1, do
          let plain ← cbcDecrypt P (sa.encrObj (!role)) (encData.take (encData.length - sa.integInfo.outLen))
          let ps ← decodeChain next plain
          .ok ⟨m.hdr, ps⟩)
       else (0, .err)) := by
  unfold decryptMsg
  rw [hl]
  simp only
  rw [if_neg (by omega), if_neg (by omega), calcIntegrity_ok P hP sa hw]
  simp only
  by_cases hc : encData.drop (encData.length - sa.integInfo.outLen) =
           (P.mac (sa.integObj (!role)).alg (sa.integObj (!role)).key
              (msg.take (msg.length - sa.integInfo.outLen))).take sa.integInfo.outLen
  · rw [if_pos hc, if_neg (by rw [(sk_bytesEq_iff _ _).mpr hc]; simp)]
    rw [decryptPayload_eq, setInteg_encrObj]
    cases cbcDecrypt P (sa.encrObj (!role)) (encData.take (encData.length - sa.integInfo.outLen)) with
    | err => rfl
    | fault => rfl
    | ok plain =>
      simp only [Res.bind_ok]
      cases decodeChain next plain with
      | err => rfl
      | fault => rfl
      | ok ps => rfl
  · rw [if_neg hc, if_pos]
    have : bytesEq (encData.drop (encData.length - sa.integInfo.outLen)) ((P.mac (sa.integObj (!role)).alg (sa.integObj (!role)).key
              (msg.take (msg.length - sa.integInfo.outLen))).take sa.integInfo.outLen) = false := by
      cases hb : bytesEq _ _
      · rfl
      · exact absurd ((sk_bytesEq_iff _ _).mp hb) hc
    rw [this]; rfl

/-- every way `decryptMsg` can call the cipher or succeed goes through the checksum comparison -/
theorem decryptMsg_inv (P : Prims) (hP : P.Lawful) (sa : SAKey) (hw : sa.WF P) (role : Bool)
    (msg : Bytes) (m : Msg)
    (h : (decryptMsg P sa role msg m).2.1 ≠ 0 ∨ ∃ m', (decryptMsg P sa role msg m).2.2 = .ok m') :
    ∃ next encData, lastSK m.payloads none = .ok (some (next, encData)) ∧
      sa.integInfo.outLen ≤ encData.length ∧ sa.integInfo.outLen ≤ msg.length ∧
      encData.drop (encData.length - sa.integInfo.outLen) =
           (P.mac (sa.integObj (!role)).alg (sa.integObj (!role)).key
              (msg.take (msg.length - sa.integInfo.outLen))).take sa.integInfo.outLen := by
  cases hl : lastSK m.payloads none with
  | err => unfold decryptMsg at h; rw [hl] at h; simp at h
  | fault => unfold decryptMsg at h; rw [hl] at h; simp at h
  | ok o =>
    cases o with
    | none => unfold decryptMsg at h; rw [hl] at h; simp at h
    | some x =>
      obtain ⟨next, encData⟩ := x
      by_cases h1 : encData.length < sa.integInfo.outLen
      · unfold decryptMsg at h; rw [hl] at h; simp only at h; rw [if_pos h1] at h; simp at h
      · by_cases h2 : msg.length < sa.integInfo.outLen
        · unfold decryptMsg at h; rw [hl] at h; simp only at h; rw [if_neg h1, if_pos h2] at h; simp at h
        · rw [decryptMsg_eq P hP sa hw role msg m next encData hl (by omega) (by omega)] at h
          refine ⟨next, encData, rfl, by omega, by omega, ?_⟩
          simp only at h
          split at h
          · assumption
          · simp at h


/-- `unprotect`, any key argument, decomposed: decode; if the first payload is SK go to
`decryptMsg` (error without a key); otherwise return the decoded message untouched. -/
theorem unprotect_eq (P : Prims) (sa : Option SAKey) (role : Bool) (hdr : Option Header) (msg : Bytes) :
    unprotect P sa role hdr msg =
      match unprotectDecoded hdr msg with
      | .err => (sa, 0, .err)
      | .fault => (sa, 0, .fault)
      | .ok m =>
        if m.firstIsSK then
          match sa with
          | none => (none, 0, .err)
          | some k =>
            (some (decryptMsg P k role msg m).1, (decryptMsg P k role msg m).2.1, (decryptMsg P k role msg m).2.2)
        else if m.payloads = [] ∧ m.hdr.next = Facts.typeSK then (sa, 0, .err)
        else (sa, 0, .ok m) := by
  cases sa with
  | some k => exact unprotect_some_eq P k role hdr msg
  | none =>
    unfold unprotect unprotectDecoded
    simp only
    cases hdr with
    | none =>
      simp only
      cases decodeMsg msg with
      | err => rfl
      | fault => rfl
      | ok m =>
        obtain ⟨hd, ps⟩ := m
        cases ps with
        | nil => simp [Msg.firstIsSK]
        | cons p rest =>
          simp only
          by_cases hp : (p.typeCode == Facts.typeSK) = true
          · rw [if_pos hp, if_pos (show Msg.firstIsSK ⟨hd, p :: rest⟩ = true from hp)]
          · rw [if_neg hp, if_neg (show ¬ Msg.firstIsSK ⟨hd, p :: rest⟩ = true from hp), if_neg (by simp)]
    | some h =>
      simp only
      cases (do let body ← goFrom msg Facts.ikeHeaderLen; let ps ← decodeChain h.next body; Res.ok (⟨h, ps⟩ : Msg)) with
      | err => rfl
      | fault => rfl
      | ok m =>
        obtain ⟨hd, ps⟩ := m
        cases ps with
        | nil => simp [Msg.firstIsSK]
        | cons p rest =>
          simp only
          by_cases hp : (p.typeCode == Facts.typeSK) = true
          · rw [if_pos hp, if_pos (show Msg.firstIsSK ⟨hd, p :: rest⟩ = true from hp)]
          · rw [if_neg hp, if_neg (show ¬ Msg.firstIsSK ⟨hd, p :: rest⟩ = true from hp), if_neg (by simp)]

/-- the `decryptMsg` branch is taken exactly when the datagram decodes and presents SK first -/
theorem unprotect_sk (P : Prims) (k : SAKey) (role : Bool) (hdr : Option Header) (msg : Bytes) (d : Msg)
    (hd : unprotectDecoded hdr msg = .ok d) (hsk : d.firstIsSK = true) :
    unprotect P (some k) role hdr msg =
      (some (decryptMsg P k role msg d).1, (decryptMsg P k role msg d).2.1, (decryptMsg P k role msg d).2.2) := by
  rw [unprotect_eq, hd]; simp only; rw [if_pos hsk]

theorem unprotect_not_sk (P : Prims) (sa : Option SAKey) (role : Bool) (hdr : Option Header) (msg : Bytes) (d : Msg)
    (hd : unprotectDecoded hdr msg = .ok d) (hsk : d.firstIsSK = false) :
    unprotect P sa role hdr msg =
      (sa, 0, if d.payloads = [] ∧ d.hdr.next = Facts.typeSK then .err else .ok d) := by
  rw [unprotect_eq, hd]; simp only; rw [if_neg (by simp [hsk])]
  split <;> rfl

theorem unprotect_undecodable (P : Prims) (sa : Option SAKey) (role : Bool) (hdr : Option Header) (msg : Bytes)
    (hd : ∀ d, unprotectDecoded hdr msg ≠ .ok d) :
    (unprotect P sa role hdr msg).1 = sa ∧ (unprotect P sa role hdr msg).2.1 = 0 ∧
      ∀ m, (unprotect P sa role hdr msg).2.2 ≠ .ok m := by
  rw [unprotect_eq]
  cases h : unprotectDecoded hdr msg with
  | err => simp
  | fault => simp
  | ok d => exact absurd h (hd d)

theorem lastSK_firstIsSK (hd : Header) (ps : List Payload) (x : UInt8 × Bytes)
    (h : lastSK ps none = .ok (some x)) : Msg.firstIsSK ⟨hd, ps⟩ = true := by
  cases ps with
  | nil => simp [lastSK] at h
  | cons p rest => cases p <;> simp [lastSK] at h <;> rfl

/-- with the header parsed from the same octets, the two calling modes decode alike -/
theorem unprotectDecoded_hdr (msg : Bytes) (h : Header) (hh : parseHeader msg = .ok h) :
    unprotectDecoded (some h) msg = unprotectDecoded none msg := by
  obtain ⟨e1, e2⟩ := parseHeader_payloadBytes _ _ hh
  unfold unprotectDecoded
  simp only
  unfold decodeMsg
  rw [hh, show Facts.ikeHeaderLen = 28 from rfl, goFrom_ok (by omega)]
  simp only [Res.bind_ok, e1]


/-! ### CBC inverse, padding removal -/

theorem sk_xorBytes_cancel (a b : Bytes) (h : a.length ≤ b.length) : xorBytes (xorBytes a b) b = a := by
  induction a generalizing b with
  | nil => cases b <;> simp [xorBytes]
  | cons x xs ih =>
    cases b with
    | nil => simp at h
    | cons y ys =>
      simp only [xorBytes, List.cons.injEq]
      refine ⟨?_, ih ys (by simpa using h)⟩
      rw [UInt8.xor_assoc, UInt8.xor_self, UInt8.xor_zero]

/-- CBC decryption inverts CBC encryption (own copy; any block function pair with `D ∘ E = id`
on 16-octet blocks) -/
theorem sk_cbcDec_cbcEnc (E D : Bytes → Bytes) (hE : ∀ b, b.length = 16 → (E b).length = 16)
    (hDE : ∀ b, b.length = 16 → D (E b) = b) (iv x : Bytes) (hiv : iv.length = 16)
    (hx : x.length % 16 = 0) : cbcDec D iv (cbcEnc E iv x) = x := by
  fun_induction cbcEnc E iv x with
  | case1 prev pt hlt =>
    have : pt = [] := by
      cases pt with
      | nil => rfl
      | cons a as => simp at hlt hx; omega
    subst this
    unfold cbcDec; simp
  | case2 prev pt hge c ih =>
    have hxl : (xorBytes (pt.take 16) prev).length = 16 := by
      rw [xorBytes_length]; simp; omega
    have hc : c.length = 16 := hE _ hxl
    rw [cbcDec, dif_neg (by simp; omega)]
    simp only
    have ht : List.take 16 (c ++ cbcEnc E c (List.drop 16 pt)) = c := by
      rw [← hc]; simp
    have hd : List.drop 16 (c ++ cbcEnc E c (List.drop 16 pt)) = cbcEnc E c (List.drop 16 pt) := by
      rw [← hc]; simp
    rw [ht, hd, ih hc (by simp; omega)]
    show xorBytes (D (E (xorBytes (pt.take 16) prev))) prev ++ _ = _
    rw [hDE _ hxl, sk_xorBytes_cancel _ _ (by simp; omega), List.take_append_drop]


/-- `Decrypt` on `IV ‖ CBC(IV, inner ‖ pad ‖ [|pad|])` returns `inner`, for ANY pad octets -/
theorem sk_cbcDecrypt_spec (P : Prims) (hP : P.Lawful) (c : CipherObj) (iv inner pad : Bytes)
    (hiv : iv.length = 16) (hpad : pad.length ≤ 255) (hal : (inner.length + pad.length + 1) % 16 = 0) :
    cbcDecrypt P c (iv ++ cbcEnc (P.enc c.key) iv (inner ++ pad ++ [UInt8.ofNat pad.length])) = .ok inner := by
  have hptl : (inner ++ pad ++ [UInt8.ofNat pad.length]).length = inner.length + pad.length + 1 := by simp; omega
  generalize hpt : inner ++ pad ++ [UInt8.ofNat pad.length] = pt at hptl
  have hel : (cbcEnc (P.enc c.key) iv pt).length = pt.length :=
    cbcEnc_length _ (hP.enc_len c.key) iv pt hiv (by omega)
  have hdec : cbcDec (P.dec c.key) iv (cbcEnc (P.enc c.key) iv pt) = pt :=
    sk_cbcDec_cbcEnc _ _ (hP.enc_len c.key) (hP.dec_enc c.key) iv pt hiv (by omega)
  generalize hem : cbcEnc (P.enc c.key) iv pt = em at hel hdec
  have hpos : 16 ≤ pt.length := by omega
  have hcl : (iv ++ em).length = 16 + pt.length := by rw [List.length_append, hiv, hel]
  unfold cbcDecrypt
  rw [if_neg (by omega), goTo_ok (by omega), goFrom_ok (by omega)]
  simp only [Res.bind_ok]
  have e1 : List.take 16 (iv ++ em) = iv := by rw [← hiv]; simp
  have e2 : List.drop 16 (iv ++ em) = em := by rw [← hiv]; simp
  have h0 : em.length ≠ 0 := by omega
  have h16 : em.length % 16 = 0 := by omega
  rw [e1, e2, if_neg (by simp [h0, h16]), hdec, goIndex_ok (by omega)]
  simp only [Res.bind_ok]
  have hlast : byteAt pt (pt.length - 1) = UInt8.ofNat pad.length := by
    rw [hptl, ← hpt]
    have := byteAt_append_right (inner ++ pad) [UInt8.ofNat pad.length] 0
    simp only [List.length_append, Nat.add_zero] at this
    rw [show inner.length + pad.length + 1 - 1 = inner.length + pad.length by omega, this]
    simp
  rw [hlast, ofNat_toNat_u8 _ hpad, if_neg (by omega), goTo_ok (by omega)]
  rw [hptl, ← hpt, show inner.length + pad.length + 1 - (pad.length + 1) = inner.length by omega]
  simp


/-! ### the outer SK payload -/

theorem unmarshalPayload_typeSK (nx : UInt8) (body : Bytes) :
    unmarshalPayload Facts.typeSK nx body = .ok (.sk nx body) := rfl

/-- one container step over an encoded Encrypted payload -/
theorem chainStep_sk (ft : UInt8) (enc tl : Bytes) (hlen : 4 + enc.length ≤ 0xFFFF) (htl : tl.length = 0) :
    chainStep Facts.typeSK ([ft, 0] ++ put16 (UInt16.ofNat (4 + enc.length)) ++ enc ++ tl)
      = .ok (some (.sk ft enc), ft, 4 + enc.length) := by
  have hl : (UInt16.ofNat (4 + enc.length)).toNat = 4 + enc.length := ofNat_toNat_u16 _ (by omega)
  generalize UInt16.ofNat (4 + enc.length) = v at *
  unfold chainStep
  rw [if_neg (by len_omega)]
  go_steps
  have hpl : be16 (byteAt ([ft, 0] ++ put16 v ++ enc ++ tl) 2) (byteAt ([ft, 0] ++ put16 v ++ enc ++ tl) 3) = v := by
    simp [put16, be16_put]
  rw [hpl]
  have h4 : ¬ v < 4 := by
    simp only [UInt16.lt_iff_toNat_lt, hl]
    have : (4 : UInt16).toNat = 4 := rfl
    omega
  rw [if_neg h4, hl, if_neg (by len_omega)]
  go_steps
  rw [if_pos (by decide)]
  go_steps
  have hbody : List.drop 4 (List.take (4 + enc.length) ([ft, 0] ++ put16 v ++ enc ++ tl)) = enc := by
    simp only [put16, List.cons_append, List.nil_append, List.append_assoc]
    rw [take_add_cons4]; simp
  have hnx : byteAt ([ft, 0] ++ put16 v ++ enc ++ tl) 0 = ft := by simp
  rw [hbody, hnx, unmarshalPayload_typeSK]
  simp
  omega

/-- a container holding exactly one Encrypted payload decodes to it -/
theorem decodeChain_sk (ft : UInt8) (enc : Bytes) (hlen : 4 + enc.length ≤ 0xFFFF) :
    decodeChain Facts.typeSK ([ft, 0] ++ put16 (UInt16.ofNat (4 + enc.length)) ++ enc) = .ok [.sk ft enc] := by
  have hstep := chainStep_sk ft enc [] hlen rfl
  rw [List.append_nil] at hstep
  rw [decodeChain, dif_neg (by len_omega), hstep]
  simp only
  rw [dif_pos (by len_omega)]
  have hd : List.drop (4 + enc.length) ([ft, 0] ++ put16 (UInt16.ofNat (4 + enc.length)) ++ enc) = [] := by
    apply List.drop_eq_nil_of_le; len_omega
  rw [hd, decodeChain]
  simp


/-! ### the RFC message (`Spec.skMessage`) taken apart -/

namespace Spec

/-- the ciphertext blocks of the RFC message -/
def skCt (P : Prims) (k : SkParams) (inner iv pad : Bytes) : Bytes :=
  cbcEnc (P.enc k.ke) iv (inner ++ pad ++ [UInt8.ofNat pad.length])

/-- the total length the RFC message states in its header -/
def skTotal (P : Prims) (k : SkParams) (inner iv pad : Bytes) : Nat :=
  28 + 4 + iv.length + (skCt P k inner iv pad).length + k.icvLen

/-- everything before the checksum -/
def skSigned (P : Prims) (k : SkParams) (h : Header) (ft : UInt8) (inner iv pad : Bytes) : Bytes :=
  (put64 h.ispi ++ put64 h.rspi ++
    [Facts.typeSK, (h.major <<< 4) ||| (h.minor &&& 0x0F), h.exch, h.flags] ++ put32 h.mid ++
    put32 (UInt32.ofNat (skTotal P k inner iv pad))) ++
  ([ft, 0] ++ put16 (UInt16.ofNat (skTotal P k inner iv pad - 28))) ++ iv ++ skCt P k inner iv pad

def skIcv (P : Prims) (k : SkParams) (h : Header) (ft : UInt8) (inner iv pad : Bytes) : Bytes :=
  (P.mac k.hash k.ka (skSigned P k h ft inner iv pad)).take k.icvLen

theorem skMessage_eq (P : Prims) (k : SkParams) (h : Header) (ft : UInt8) (inner iv pad : Bytes) :
    skMessage P k h ft inner iv pad = skSigned P k h ft inner iv pad ++ skIcv P k h ft inner iv pad := rfl

theorem skCt_length (P : Prims) (hP : P.Lawful) (k : SkParams) (inner iv pad : Bytes)
    (hiv : iv.length = 16) (hal : (inner.length + pad.length + 1) % 16 = 0) :
    (skCt P k inner iv pad).length = inner.length + pad.length + 1 := by
  unfold skCt
  rw [cbcEnc_length _ (hP.enc_len k.ke) iv _ hiv (by simp; omega)]
  simp; omega

theorem skIcv_length (P : Prims) (hP : P.Lawful) (k : SkParams) (h : Header) (ft : UInt8) (inner iv pad : Bytes)
    (hicv : k.icvLen ≤ P.macLen k.hash) : (skIcv P k h ft inner iv pad).length = k.icvLen := by
  unfold skIcv
  rw [List.length_take, hP.mac_len]; omega

theorem skSigned_length (P : Prims) (k : SkParams) (h : Header) (ft : UInt8) (inner iv pad : Bytes) :
    (skSigned P k h ft inner iv pad).length = 32 + iv.length + (skCt P k inner iv pad).length := by
  unfold skSigned; simp; omega

/-- the body of the Encrypted payload: `IV ‖ ciphertext ‖ checksum` -/
def skEnc (P : Prims) (k : SkParams) (h : Header) (ft : UInt8) (inner iv pad : Bytes) : Bytes :=
  iv ++ skCt P k inner iv pad ++ skIcv P k h ft inner iv pad

/-- the header a receiver parses from the RFC message -/
def skHeader (P : Prims) (k : SkParams) (h : Header) (ft : UInt8) (inner iv pad : Bytes) : Header :=
  { h with
    next := Facts.typeSK
    payloadBytes := [ft, 0] ++ put16 (UInt16.ofNat (4 + (skEnc P k h ft inner iv pad).length)) ++ skEnc P k h ft inner iv pad }

end Spec

open Spec in
/-- the RFC message is the header marshalling of: first payload SK, payload octets
`SK generic header ‖ IV ‖ ciphertext ‖ checksum` -/
theorem skMessage_marshal (P : Prims) (hP : P.Lawful) (k : Spec.SkParams) (h : Header) (ft : UInt8)
    (inner iv pad : Bytes) (hicv : k.icvLen ≤ P.macLen k.hash)
    (htot : skTotal P k inner iv pad ≤ 0xFFFFFFFF) :
    marshalHeader (skHeader P k h ft inner iv pad) = .ok (Spec.skMessage P k h ft inner iv pad) := by
  have hil := skIcv_length P hP k h ft inner iv pad hicv
  have e1 : 4 + (skEnc P k h ft inner iv pad).length = skTotal P k inner iv pad - 28 := by
    simp only [skEnc, List.length_append, hil, skTotal]; omega
  unfold marshalHeader
  have e2 : Facts.ikeHeaderLen + (skHeader P k h ft inner iv pad).payloadBytes.length = skTotal P k inner iv pad := by
    have : Facts.ikeHeaderLen = 28 := rfl
    simp only [skHeader, skEnc, List.length_append, hil, skTotal, this, put16_length, List.length_cons, List.length_nil]; omega
  simp only
  rw [e2, if_neg (by omega), skMessage_eq]
  simp only [skHeader, e1]
  unfold skSigned skEnc
  simp only [List.append_assoc]


open Spec

/-- a receiver parses the RFC message's header -/
theorem skMessage_parseHeader (P : Prims) (hP : P.Lawful) (k : SkParams) (h : Header) (ft : UInt8)
    (inner iv pad : Bytes) (hicv : k.icvLen ≤ P.macLen k.hash)
    (hmaj : h.major.toNat < 16) (hmin : h.minor.toNat < 16)
    (htot : skTotal P k inner iv pad ≤ 0xFFFFFFFF) :
    parseHeader (skMessage P k h ft inner iv pad) = .ok (skHeader P k h ft inner iv pad) :=
  rt_header _ _ hmaj hmin (skMessage_marshal P hP k h ft inner iv pad hicv htot)

/-- … and decodes it to the single Encrypted payload -/
theorem skMessage_decodeMsg (P : Prims) (hP : P.Lawful) (k : SkParams) (h : Header) (ft : UInt8)
    (inner iv pad : Bytes) (hicv : k.icvLen ≤ P.macLen k.hash)
    (hmaj : h.major.toNat < 16) (hmin : h.minor.toNat < 16)
    (hfit : 4 + (skEnc P k h ft inner iv pad).length ≤ 0xFFFF) :
    decodeMsg (skMessage P k h ft inner iv pad) =
      .ok ⟨skHeader P k h ft inner iv pad, [.sk ft (skEnc P k h ft inner iv pad)]⟩ := by
  have hil := skIcv_length P hP k h ft inner iv pad hicv
  have htot : skTotal P k inner iv pad ≤ 0xFFFFFFFF := by
    simp only [skEnc, List.length_append, hil] at hfit
    simp only [skTotal]; omega
  unfold decodeMsg
  rw [skMessage_parseHeader P hP k h ft inner iv pad hicv hmaj hmin htot]
  simp only [Res.bind_ok]
  show (decodeChain Facts.typeSK ([ft, 0] ++ put16 (UInt16.ofNat (4 + (skEnc P k h ft inner iv pad).length)) ++ skEnc P k h ft inner iv pad) >>= _) = _
  rw [decodeChain_sk ft _ hfit]
  rfl

/-- `DecodeDecrypt` on the RFC message (either header mode): checksum accepted, cipher called
once, result is the decoding of `inner`; the receiver's peer-direction integrity object is left
holding the signed octets. -/
theorem unprotect_spec (P : Prims) (hP : P.Lawful) (sb : SAKey) (hw : sb.WF P) (rr : Bool) (k : SkParams)
    (hcl : sb.integInfo.outLen = k.icvLen) (halg : (sb.integObj (!rr)).alg = k.hash)
    (hka : (sb.integObj (!rr)).key = k.ka) (hke : (sb.encrObj (!rr)).key = k.ke)
    (h : Header) (hmaj : h.major.toNat < 16) (hmin : h.minor.toNat < 16) (ft : UInt8)
    (inner iv pad : Bytes) (hiv : iv.length = 16) (hpad : pad.length ≤ 255)
    (hal : (inner.length + pad.length + 1) % 16 = 0)
    (hfit : 4 + 16 + (inner.length + pad.length + 1) + k.icvLen ≤ 0xFFFF)
    (hdr : Option Header) (hhdr : hdr = none ∨ hdr = some (skHeader P k h ft inner iv pad)) :
    unprotect P (some sb) rr hdr (skMessage P k h ft inner iv pad) =
      (some (sb.setInteg (!rr) ⟨k.hash, k.ka, skSigned P k h ft inner iv pad⟩), 1,
       do let ps ← decodeChain ft inner
          .ok ⟨skHeader P k h ft inner iv pad, ps⟩) := by
  have hicv : k.icvLen ≤ P.macLen k.hash := by
    rw [← hcl, ← halg]; exact WF_integObj P sb hw (!rr)
  have hil := skIcv_length P hP k h ft inner iv pad hicv
  have hctl := skCt_length P hP k inner iv pad hiv hal
  have hsl := skSigned_length P k h ft inner iv pad
  have hencl : (skEnc P k h ft inner iv pad).length = 16 + (inner.length + pad.length + 1) + k.icvLen := by
    simp only [skEnc, List.length_append, hil, hctl, hiv]
  have hdm := skMessage_decodeMsg P hP k h ft inner iv pad hicv hmaj hmin (by omega)
  have hph := skMessage_parseHeader P hP k h ft inner iv pad hicv hmaj hmin (by simp only [skTotal, hctl, hiv]; omega)
  have hdec : unprotectDecoded hdr (skMessage P k h ft inner iv pad) =
      .ok ⟨skHeader P k h ft inner iv pad, [.sk ft (skEnc P k h ft inner iv pad)]⟩ := by
    cases hhdr with
    | inl e => rw [e]; exact hdm
    | inr e => rw [e, unprotectDecoded_hdr _ _ hph]; exact hdm
  rw [unprotect_sk P sb rr hdr _ _ hdec rfl]
  have hml : (skMessage P k h ft inner iv pad).length = 32 + 16 + (inner.length + pad.length + 1) + k.icvLen := by
    rw [skMessage_eq, List.length_append, hsl, hil, hctl, hiv]
  rw [decryptMsg_eq P hP sb hw rr _ _ ft (skEnc P k h ft inner iv pad) rfl (by omega) (by omega)]
  rw [hcl, halg, hka]
  have e1 : List.drop ((skEnc P k h ft inner iv pad).length - k.icvLen) (skEnc P k h ft inner iv pad)
      = skIcv P k h ft inner iv pad := by
    rw [hencl]; unfold skEnc
    exact drop_prefix_eq _ _ _ (by simp only [List.length_append, hctl, hiv]; omega)
  have e2 : List.take ((skEnc P k h ft inner iv pad).length - k.icvLen) (skEnc P k h ft inner iv pad)
      = iv ++ skCt P k inner iv pad := by
    rw [hencl]; unfold skEnc
    exact take_prefix_eq _ _ _ (by simp only [List.length_append, hctl, hiv]; omega)
  have e3 : List.take ((skMessage P k h ft inner iv pad).length - k.icvLen) (skMessage P k h ft inner iv pad)
      = skSigned P k h ft inner iv pad := by
    rw [hml, skMessage_eq]
    exact take_prefix_eq _ _ _ (by rw [hsl, hctl, hiv]; omega)
  have hic : skIcv P k h ft inner iv pad = List.take k.icvLen (P.mac k.hash k.ka (skSigned P k h ft inner iv pad)) := rfl
  rw [e1, e2, e3, if_pos hic]
  have e4 : cbcDecrypt P (sb.encrObj (!rr)) (iv ++ skCt P k inner iv pad) = .ok inner := by
    unfold skCt; rw [← hke]
    exact sk_cbcDecrypt_spec P hP _ iv inner pad hiv hpad hal
  rw [e4]
  rfl


/-! ### `protect` in closed form -/

theorem sk_cyc_length (buf : Bytes) (pos n : Nat) : (cyc buf pos n).length = n := by
  induction n generalizing pos with
  | zero => rfl
  | succ n ih => simp [cyc, ih]

/-- a successful draw returns exactly the requested number of octets -/
theorem Rand.sk_draw_ok_length (r r' : Rand) (n : Nat) (out : Bytes) (h : r.draw n = (r', .ok out)) :
    out.length = n := by
  unfold Rand.draw at h
  split at h
  · simp at h
  · simp only [Prod.mk.injEq, Res.ok.injEq] at h
    rw [← h.2]; exact sk_cyc_length _ _ _

/-- `Encrypt` in closed form when both draws succeed -/
theorem sk_cbcEncrypt_eq (P : Prims) (c : CipherObj) (r r1 r2 : Rand) (inner padDraw iv : Bytes)
    (hd1 : r.draw (16 - inner.length % 16) = (r1, .ok padDraw)) (hd2 : r1.draw 16 = (r2, .ok iv)) :
    cbcEncrypt P c r inner =
      (r2, .ok (iv ++ cbcEnc (P.enc c.key) iv
        (inner ++ padDraw.take (16 - inner.length % 16 - 1) ++
          [UInt8.ofNat (padDraw.take (16 - inner.length % 16 - 1)).length]))) := by
  have hl := Rand.sk_draw_ok_length _ _ _ _ hd1
  unfold cbcEncrypt pkcs7Pad
  simp only [hd1, hd2]
  rw [List.length_take, hl, Nat.min_eq_left (by omega)]

/-- `copy(checksumField, checksum)` over a placeholder of the checksum's length -/
theorem setTail_append (ct z c : Bytes) (hz : z.length = c.length) :
    setTail (ct ++ z) c.length c = ct ++ c := by
  unfold setTail
  have e1 : (ct ++ z).length - c.length = ct.length := by simp; omega
  rw [e1, List.take_of_length_le (Nat.le_refl _)]
  simp [hz]

/-- `IKEMessage.Encode` of a message holding one Encrypted payload -/
theorem encodeMsg_sk (h : Header) (ft : UInt8) (enc : Bytes) (hne : enc.length ≠ 0)
    (hfit : 4 + enc.length ≤ 0xFFFF) :
    encodeMsg ⟨h, [.sk ft enc]⟩ =
      (do let bs ← marshalHeader { h with next := Facts.typeSK, payloadBytes := [ft, 0] ++ put16 (UInt16.ofNat (4 + enc.length)) ++ enc }
          .ok (bs, { h with next := Facts.typeSK, payloadBytes := [ft, 0] ++ put16 (UInt16.ofNat (4 + enc.length)) ++ enc })) := by
  unfold encodeMsg
  simp only [encodeChain, marshalPayload, marshalSK, if_neg hne, Res.bind_ok, nextField, firstType, Payload.typeCode]
  rw [if_neg (by omega)]
  simp only [Res.bind_ok, List.append_nil]

theorem encodeMsg_sk_too_long (h : Header) (ft : UInt8) (enc : Bytes) (hfit : ¬ 4 + enc.length ≤ 0xFFFF) :
    encodeMsg ⟨h, [.sk ft enc]⟩ = .err := by
  unfold encodeMsg
  simp only [encodeChain, marshalPayload, marshalSK]
  rw [if_neg (by omega)]
  simp only [Res.bind_ok]
  rw [if_pos (by omega)]
  rfl

/-- header marshalling over `SK generic header ‖ IV ‖ ciphertext ‖ tail` for any tail of checksum length -/
theorem sk_marshal_tail (P : Prims) (k : SkParams) (h : Header) (ft : UInt8)
    (inner iv pad tail : Bytes) (htl : tail.length = k.icvLen)
    (htot : skTotal P k inner iv pad ≤ 0xFFFFFFFF) :
    marshalHeader { h with next := Facts.typeSK, payloadBytes := [ft, 0] ++ put16 (UInt16.ofNat (4 + (iv ++ skCt P k inner iv pad ++ tail).length)) ++ (iv ++ skCt P k inner iv pad ++ tail) }
      = .ok (skSigned P k h ft inner iv pad ++ tail) := by
  have e1 : 4 + (iv ++ skCt P k inner iv pad ++ tail).length = skTotal P k inner iv pad - 28 := by
    simp only [List.length_append, htl, skTotal]; omega
  unfold marshalHeader
  simp only
  rw [e1]
  have e2 : Facts.ikeHeaderLen + ([ft, 0] ++ put16 (UInt16.ofNat (skTotal P k inner iv pad - 28)) ++ (iv ++ skCt P k inner iv pad ++ tail)).length = skTotal P k inner iv pad := by
    have : Facts.ikeHeaderLen = 28 := rfl
    simp only [List.length_append, htl, skTotal, this, put16_length, List.length_cons, List.length_nil]; omega
  rw [e2, if_neg (by omega)]
  unfold skSigned
  simp only [List.append_assoc]


/-- the parameters of the RFC message a sender `sa` acting as `role` uses: its own direction's
cipher key, integrity key and hash, and the SA's checksum length -/
def SAKey.skParams (sa : SAKey) (role : Bool) : SkParams :=
  ⟨(sa.encrObj role).key, (sa.integObj role).key, (sa.integObj role).alg, sa.integInfo.outLen⟩

/-- `EncodeEncrypt` in closed form, given the inner encoding and the two random draws:
either the SK payload does not fit the 16-bit payload length (error, nothing written), or
the datagram is the RFC 7296 §3.14 message and the sender-direction integrity object is left
holding the signed octets. -/
theorem protect_spec (P : Prims) (hP : P.Lawful) (sa : SAKey) (hw : sa.WF P) (role : Bool)
    (r r1 r2 : Rand) (m : Msg) (inner padDraw iv : Bytes)
    (henc : encodeChain m.payloads = .ok inner)
    (hd1 : r.draw (16 - inner.length % 16) = (r1, .ok padDraw)) (hd2 : r1.draw 16 = (r2, .ok iv)) :
    protect P sa role r m =
      if 4 + (16 + (inner.length + (16 - inner.length % 16)) + sa.integInfo.outLen) ≤ 0xFFFF then
        (sa.setInteg role ⟨(sa.integObj role).alg, (sa.integObj role).key,
            skSigned P (sa.skParams role) m.hdr (firstType m.payloads) inner iv (padDraw.take (16 - inner.length % 16 - 1))⟩,
         r2,
         .ok (skMessage P (sa.skParams role) m.hdr (firstType m.payloads) inner iv (padDraw.take (16 - inner.length % 16 - 1)),
              ⟨skHeader P (sa.skParams role) m.hdr (firstType m.payloads) inner iv (padDraw.take (16 - inner.length % 16 - 1)),
               [.sk (firstType m.payloads)
                  (skEnc P (sa.skParams role) m.hdr (firstType m.payloads) inner iv (padDraw.take (16 - inner.length % 16 - 1)))]⟩))
      else (sa, r2, .err) := by
  have hpl := Rand.sk_draw_ok_length _ _ _ _ hd1
  have hiv := Rand.sk_draw_ok_length _ _ _ _ hd2
  generalize hpad : padDraw.take (16 - inner.length % 16 - 1) = pad
  have hpadl : pad.length = 16 - inner.length % 16 - 1 := by
    rw [← hpad, List.length_take, hpl]; omega
  have hal : (inner.length + pad.length + 1) % 16 = 0 := by omega
  generalize hk : sa.skParams role = k
  have hke : k.ke = (sa.encrObj role).key := by rw [← hk]; rfl
  have hka : k.ka = (sa.integObj role).key := by rw [← hk]; rfl
  have hhash : k.hash = (sa.integObj role).alg := by rw [← hk]; rfl
  have hcl : k.icvLen = sa.integInfo.outLen := by rw [← hk]; rfl
  have hicv : k.icvLen ≤ P.macLen k.hash := by rw [hcl, hhash]; exact WF_integObj P sa hw role
  have hctl := skCt_length P hP k inner iv pad hiv hal
  unfold protect
  rw [henc]
  simp only
  rw [encryptPayload_eq, sk_cbcEncrypt_eq P _ r r1 r2 inner padDraw iv hd1 hd2, hpad]
  simp only
  have hct : cbcEnc (P.enc (sa.encrObj role).key) iv (inner ++ pad ++ [UInt8.ofNat pad.length]) = skCt P k inner iv pad := by
    unfold skCt; rw [hke]
  rw [hct, ← hcl]
  by_cases hfit : 4 + (16 + (inner.length + (16 - inner.length % 16)) + k.icvLen) ≤ 0xFFFF
  · rw [if_pos hfit]
    have htot : skTotal P k inner iv pad ≤ 0xFFFFFFFF := by simp only [skTotal, hctl, hiv]; omega
    rw [encodeMsg_sk _ _ _ (by simp only [List.length_append, zeros_length, hiv]; omega)
          (by simp only [List.length_append, zeros_length, hctl, hiv]; omega),
        sk_marshal_tail P k m.hdr (firstType m.payloads) inner iv pad (zeros k.icvLen) (by simp) htot]
    simp only [Res.bind_ok]
    have hsl := skSigned_length P k m.hdr (firstType m.payloads) inner iv pad
    have hil := skIcv_length P hP k m.hdr (firstType m.payloads) inner iv pad hicv
    rw [if_neg (by simp only [List.length_append, zeros_length]; omega)]
    have eT : List.take ((skSigned P k m.hdr (firstType m.payloads) inner iv pad ++ zeros k.icvLen).length - k.icvLen)
        (skSigned P k m.hdr (firstType m.payloads) inner iv pad ++ zeros k.icvLen)
        = skSigned P k m.hdr (firstType m.payloads) inner iv pad :=
      take_prefix_eq _ _ _ (by simp only [List.length_append, zeros_length]; omega)
    rw [eT, calcIntegrity_ok P hP sa hw]
    simp only
    have eI : List.take sa.integInfo.outLen (P.mac (sa.integObj role).alg (sa.integObj role).key
        (skSigned P k m.hdr (firstType m.payloads) inner iv pad)) = skIcv P k m.hdr (firstType m.payloads) inner iv pad := by
      unfold skIcv; rw [hhash, hka, hcl]
    rw [eI]
    have eS := setTail_append (iv ++ skCt P k inner iv pad) (zeros k.icvLen)
      (skIcv P k m.hdr (firstType m.payloads) inner iv pad) (by rw [hil]; simp)
    rw [hil] at eS
    rw [eS, encodeMsg_sk _ _ _ (by simp only [List.length_append, hiv]; omega)
          (by simp only [List.length_append, hil, hctl, hiv]; omega)]
    simp only
    rw [sk_marshal_tail P k m.hdr (firstType m.payloads) inner iv pad _ hil htot]
    rfl
  · rw [if_neg hfit, encodeMsg_sk_too_long _ _ _ (by simp only [List.length_append, zeros_length, hctl, hiv]; omega)]


/-- a successful `EncodeEncrypt` encoded the inner payloads and made its two draws -/
theorem protect_ok_inv (P : Prims) (sa sa' : SAKey) (role : Bool) (r r' : Rand) (m : Msg) (out : Bytes × Msg)
    (h : protect P sa role r m = (sa', r', .ok out)) :
    ∃ inner padDraw iv r1 r2, encodeChain m.payloads = .ok inner ∧
      r.draw (16 - inner.length % 16) = (r1, .ok padDraw) ∧ r1.draw 16 = (r2, .ok iv) := by
  unfold protect at h
  cases henc : encodeChain m.payloads with
  | err => rw [henc] at h; simp at h
  | fault => rw [henc] at h; simp at h
  | ok inner =>
    rw [henc] at h
    simp only at h
    rw [encryptPayload_eq] at h
    unfold cbcEncrypt pkcs7Pad at h
    dsimp only at h
    cases hd1 : r.draw (16 - inner.length % 16) with
    | mk r1 res1 =>
      rw [hd1] at h
      cases res1 with
      | err => simp at h
      | fault => simp at h
      | ok padDraw =>
        simp only at h
        cases hd2 : r1.draw 16 with
        | mk r2 res2 =>
          rw [hd2] at h
          cases res2 with
          | err => simp at h
          | fault => simp at h
          | ok iv => exact ⟨inner, padDraw, iv, r1, r2, rfl, hd1, hd2⟩

/-- a random source that does not fail: both draws succeed, with the octets read cyclically -/
theorem Rand.sk_draw_of_not_fail (r : Rand) (n : Nat) (hf : r.failAt = none) :
    r.draw n = ({ r with reads := r.reads + 1, pos := r.pos + n }, .ok (cyc r.buf r.pos n)) := by
  unfold Rand.draw; rw [hf]; simp


/-- the RFC message with its checksum replaced by ANY octets of the same length still decodes to
a single Encrypted payload ending where the datagram ends -/
theorem skTail_decodeMsg (P : Prims) (hP : P.Lawful) (k : SkParams) (h : Header) (ft : UInt8)
    (inner iv pad tail : Bytes) (htl : tail.length = k.icvLen)
    (hmaj : h.major.toNat < 16) (hmin : h.minor.toNat < 16)
    (hfit : 4 + (iv ++ skCt P k inner iv pad ++ tail).length ≤ 0xFFFF) :
    decodeMsg (skSigned P k h ft inner iv pad ++ tail) =
      .ok ⟨{ h with next := Facts.typeSK, payloadBytes := [ft, 0] ++ put16 (UInt16.ofNat (4 + (iv ++ skCt P k inner iv pad ++ tail).length)) ++ (iv ++ skCt P k inner iv pad ++ tail) },
           [.sk ft (iv ++ skCt P k inner iv pad ++ tail)]⟩ := by
  have htot : skTotal P k inner iv pad ≤ 0xFFFFFFFF := by
    simp only [List.length_append, htl] at hfit
    simp only [skTotal]; omega
  have hm := sk_marshal_tail P k h ft inner iv pad tail htl htot
  have hp := rt_header _ _ (by simpa using hmaj) (by simpa using hmin) hm
  unfold decodeMsg
  rw [hp]
  simp only [Res.bind_ok]
  rw [decodeChain_sk ft _ hfit]
  rfl

/-- a datagram that agrees with the RFC message except within the checksum is rejected before
the cipher is called (either header mode) -/
theorem unprotect_spec_flip (P : Prims) (hP : P.Lawful) (sb : SAKey) (hw : sb.WF P) (rr : Bool) (k : SkParams)
    (hcl : sb.integInfo.outLen = k.icvLen) (halg : (sb.integObj (!rr)).alg = k.hash)
    (hka : (sb.integObj (!rr)).key = k.ka)
    (h : Header) (hmaj : h.major.toNat < 16) (hmin : h.minor.toNat < 16) (ft : UInt8)
    (inner iv pad : Bytes) (hiv : iv.length = 16)
    (hal : (inner.length + pad.length + 1) % 16 = 0)
    (hfit : 4 + 16 + (inner.length + pad.length + 1) + k.icvLen ≤ 0xFFFF)
    (bs' : Bytes) (hlen : bs'.length = (skMessage P k h ft inner iv pad).length)
    (hpre : bs'.take (bs'.length - k.icvLen) =
      (skMessage P k h ft inner iv pad).take ((skMessage P k h ft inner iv pad).length - k.icvLen))
    (hne : bs' ≠ skMessage P k h ft inner iv pad)
    (hdr : Option Header) (hhdr : hdr = none ∨ ∃ hd, hdr = some hd ∧ parseHeader bs' = .ok hd) :
    (unprotect P (some sb) rr hdr bs').2 = (0, .err) := by
  have hicv : k.icvLen ≤ P.macLen k.hash := by
    rw [← hcl, ← halg]; exact WF_integObj P sb hw (!rr)
  have hil := skIcv_length P hP k h ft inner iv pad hicv
  have hctl := skCt_length P hP k inner iv pad hiv hal
  have hsl := skSigned_length P k h ft inner iv pad
  have hml : (skMessage P k h ft inner iv pad).length = 32 + 16 + (inner.length + pad.length + 1) + k.icvLen := by
    rw [skMessage_eq, List.length_append, hsl, hil, hctl, hiv]
  have e3 : List.take ((skMessage P k h ft inner iv pad).length - k.icvLen) (skMessage P k h ft inner iv pad)
      = skSigned P k h ft inner iv pad := by
    rw [hml, skMessage_eq]
    exact take_prefix_eq _ _ _ (by rw [hsl, hctl, hiv]; omega)
  rw [e3] at hpre
  generalize htail : bs'.drop (bs'.length - k.icvLen) = tail
  have hbs' : bs' = skSigned P k h ft inner iv pad ++ tail := by
    rw [← hpre, ← htail, List.take_append_drop]
  have htl : tail.length = k.icvLen := by
    rw [← htail, List.length_drop, hlen, hml]; omega
  have hnt : tail ≠ skIcv P k h ft inner iv pad := by
    intro e; apply hne; rw [hbs', e, skMessage_eq]
  have hencl : (iv ++ skCt P k inner iv pad ++ tail).length = 16 + (inner.length + pad.length + 1) + k.icvLen := by
    simp only [List.length_append, htl, hctl, hiv]
  have hdm := skTail_decodeMsg P hP k h ft inner iv pad tail htl hmaj hmin (by omega)
  rw [← hbs'] at hdm
  have hdec : unprotectDecoded hdr bs' = decodeMsg bs' := by
    cases hhdr with
    | inl e => rw [e]; rfl
    | inr e => obtain ⟨hd, e1, e2⟩ := e; rw [e1, unprotectDecoded_hdr _ _ e2]; rfl
  rw [hdm] at hdec
  rw [unprotect_sk P sb rr hdr _ _ hdec rfl]
  rw [decryptMsg_eq P hP sb hw rr _ _ ft (iv ++ skCt P k inner iv pad ++ tail) rfl (by omega) (by rw [hlen, hml]; omega)]
  rw [hcl, halg, hka]
  have e1 : List.drop ((iv ++ skCt P k inner iv pad ++ tail).length - k.icvLen) (iv ++ skCt P k inner iv pad ++ tail)
      = tail := by
    rw [hencl]
    exact drop_prefix_eq _ _ _ (by simp only [List.length_append, hctl, hiv]; omega)
  have e2 : List.take (bs'.length - k.icvLen) bs' = skSigned P k h ft inner iv pad := hpre
  have hnt' : ¬ tail = List.take k.icvLen (P.mac k.hash k.ka (skSigned P k h ft inner iv pad)) := hnt
  rw [e1, e2, if_neg hnt']


/-! ### concrete values for the non-vacuity examples of C01 / C02 / C06 -/

/-- a toy lawful instance of the primitives (examples only) -/
def Prims.skToy : Prims where
  mac _ k m := (k ++ m ++ List.replicate 12 0).take 12
  macLen _ := 12
  enc _ b := b.reverse
  dec _ b := b.reverse

theorem Prims.skToy_lawful : Prims.skToy.Lawful :=
  ⟨by intro h k m; simp [Prims.skToy]; omega, by intro k b h; simp [Prims.skToy, h],
   by intro k b h; simp [Prims.skToy, h], by intro k b h; simp [Prims.skToy]⟩

namespace SkEx

def sa : SAKey := SAKey.fresh ⟨12, 16⟩ ⟨2, 20, 12, 1⟩ ⟨2, 20, 20, 1⟩ [1] [2] [3] [4] [5] [6] [7]
/-- a holder of other keys -/
def sb : SAKey := SAKey.fresh ⟨12, 16⟩ ⟨2, 20, 12, 1⟩ ⟨2, 20, 20, 1⟩ [11] [12] [13] [14] [15] [16] [17]
def msg : Msg :=
  ⟨{ ispi := 1, rspi := 2, major := 2, minor := 0, exch := 37, flags := 8, mid := 5 }, [.nonce [1, 2, 3], .vendor [9]]⟩
def rnd : Rand := { buf := [7, 8, 9] }

/-- `protect Prims.skToy sa true rnd msg` (initiator → responder) -/
def bs : Bytes :=
  [0, 0, 0, 0, 0, 0, 0, 1, 0, 0, 0, 0, 0, 0, 0, 2, 46, 32, 37, 8, 0, 0, 0, 5, 0, 0, 0, 76, 40, 0, 0, 48, 8, 9, 7, 8, 9,
   7, 8, 9, 7, 8, 9, 7, 8, 9, 7, 8, 11, 14, 1, 15, 14, 12, 8, 7, 9, 11, 5, 8, 15, 7, 9, 35, 2, 0, 0, 0, 0, 0, 0, 0, 1,
   0, 0, 0]

/-- the body of its Encrypted payload -/
def enc : Bytes := bs.drop 32

/-- the decoded form of `bs` before any key is applied -/
def dec : Msg :=
  ⟨{ ispi := 1, rspi := 2, major := 2, minor := 0, exch := 37, flags := 8, mid := 5, next := 46, payloadBytes := bs.drop 28 },
   [.sk 40 enc]⟩

theorem sa_wf : sa.WF Prims.skToy := by unfold SAKey.WF; decide
theorem sb_wf : sb.WF Prims.skToy := by unfold SAKey.WF; decide

theorem msg_rt : ∀ p ∈ msg.payloads, PayloadRT p ∧ p.isSK = false := by
  intro p hp
  simp only [msg, List.mem_cons, List.not_mem_nil, or_false] at hp
  rcases hp with rfl | rfl <;> refine ⟨?_, rfl⟩ <;> intro b nx h <;>
    simp only [marshalPayload, marshalRaw, Res.ok.injEq] at h <;> subst h <;> rfl

theorem protect_bs : (protect Prims.skToy sa true rnd msg).2.2.map Prod.fst = .ok bs := by decide +kernel
theorem protect_bs_full : ∃ sa' r' mo, protect Prims.skToy sa true rnd msg = (sa', r', .ok (bs, mo)) := by
  have hp := protect_bs
  cases h : protect Prims.skToy sa true rnd msg with
  | mk sa' x =>
    obtain ⟨r', res⟩ := x
    rw [h] at hp
    cases res with
    | err => cases hp
    | fault => cases hp
    | ok o =>
      obtain ⟨b, mo⟩ := o
      have hb : b = bs := by cases hp; rfl
      subst hb
      exact ⟨sa', r', mo, rfl⟩
theorem decoded_bs : unprotectDecoded none bs = .ok dec := by decide +kernel
theorem accepted_bs : (unprotect Prims.skToy (some sa) false none bs).2.2 = .ok ⟨dec.hdr, msg.payloads⟩ := by
  decide +kernel

end SkEx

end Ike
