import IkeProofs.Lemmas.Parse
import IkeProofs.Lemmas.EapParse
import IkeModel.Spec.ParseFull

/-! Lemmas for C05 / C12, fully independent parser `Spec.parseFull` (IkeModel/Spec/ParseFull.lean).

`IkeModel/Spec/ParseFull.lean` repeats the EAP-free definitions of `IkeModel/Spec/Parse.lean` in
the namespace `Spec.Full` (it may not import that file, which imports the model of the library's
EAP codec) and takes the EAP step of the three remaining definitions as a parameter.  Here:

* every copy is equal to its original (`parseAttr_eq` … `parseCP_eq`), and with the trusted step
  `Spec.parseEAP` as parameter the three parametrised definitions ARE `Spec.parseBody`,
  `Spec.parseChain`, `Spec.parse` (`parseBody_eq_with`, `parseChain_eq_with`, `parse_eq_parseWith`);
* the parser depends on the EAP step under payload type 48 only (`parseBodyWith_48`,
  `parseBodyWith_ne48`), hence a result transfers from one step to another whenever the steps
  agree on the EAP payloads of the result (`parseBodyWith_transfer`, `parseChainWith_transfer`,
  `parseWith_transfer`) — this is what lets the 1500 lines of `Lemmas/Parse.lean` be reused
  unchanged instead of being proved a second time;
* every EAP payload of a result was produced by the EAP step (`parseChainWith_eap_inv`);
* the two instances: `Spec.parseFull` refines `Spec.parse` (`parseFull_refines`), and
  `Spec.parse` with all EAP payloads in `DomEap` is `Spec.parseFull` (`parse_to_parseFull`). -/

set_option linter.unusedSimpArgs false
set_option linter.unusedVariables false

namespace Ike.ParseFullLemmas
open Spec ParseLemmas

/-! ### the copies are the originals -/

theorem parseAttr_eq : @Full.parseAttr = @parseAttr := rfl
theorem ofType_eq : @Full.ofType = @ofType := rfl
theorem parseKE_eq : @Full.parseKE = @parseKE := rfl
theorem parseTypeRes3_eq : @Full.parseTypeRes3 = @parseTypeRes3 := rfl
theorem parseCert_eq : @Full.parseCert = @parseCert := rfl
theorem parseNotify_eq : @Full.parseNotify = @parseNotify := rfl

theorem read32s_eq (b : Bytes) : Full.read32s b = read32s b := by
  fun_induction read32s b with
  | case1 a b c d rest ih => rw [Full.read32s, ih]
  | case2 x h => rw [Full.read32s]; exact h

theorem parseDelete_eq (b : Bytes) : Full.parseDelete b = parseDelete b := by
  unfold Full.parseDelete parseDelete
  split
  · simp only [read32s_eq]
  · rename_i h
    split
    · exact absurd rfl (h _ _ _ _ _)
    · rfl

theorem parseTransforms_eq (fuel : Nat) (b : Bytes) : Full.parseTransforms fuel b = parseTransforms fuel b := by
  induction fuel generalizing b with
  | zero => rfl
  | succ f ih =>
    unfold Full.parseTransforms parseTransforms
    split
    · rfl
    · simp only [ih, parseAttr_eq]; rfl
    · rename_i h1 h2
      split
      · exact absurd rfl h1
      · exact absurd rfl (h2 _ _ _ _ _ _ _ _ _)
      · rfl

theorem parseProposals_eq (fuel : Nat) (b : Bytes) : Full.parseProposals fuel b = parseProposals fuel b := by
  induction fuel generalizing b with
  | zero => rfl
  | succ f ih =>
    unfold Full.parseProposals parseProposals
    split
    · rfl
    · simp only [ih, parseTransforms_eq, ofType_eq]; rfl
    · rename_i h1 h2
      split
      · exact absurd rfl h1
      · exact absurd rfl (h2 _ _ _ _ _ _ _ _ _)
      · rfl

theorem parseSelectors_eq (fuel : Nat) (b : Bytes) : Full.parseSelectors fuel b = parseSelectors fuel b := by
  induction fuel generalizing b with
  | zero => rfl
  | succ f ih =>
    unfold Full.parseSelectors parseSelectors
    split
    · rfl
    · simp only [ih]; rfl
    · rename_i h1 h2
      split
      · exact absurd rfl h1
      · exact absurd rfl (h2 _ _ _ _ _ _ _ _ _)
      · rfl

theorem parseTS_eq (mk : List TSel → Payload) (b : Bytes) : Full.parseTS mk b = parseTS mk b := by
  unfold Full.parseTS parseTS
  split
  · simp only [parseSelectors_eq]; rfl
  · rename_i h
    split
    · exact absurd rfl (h _ _ _ _ _)
    · rfl

theorem parseCPAttrs_eq (fuel : Nat) (b : Bytes) : Full.parseCPAttrs fuel b = parseCPAttrs fuel b := by
  induction fuel generalizing b with
  | zero => rfl
  | succ f ih =>
    unfold Full.parseCPAttrs parseCPAttrs
    split
    · rfl
    · simp only [ih]; rfl
    · rename_i h1 h2
      split
      · exact absurd rfl h1
      · exact absurd rfl (h2 _ _ _ _ _)
      · rfl

theorem parseCP_eq (b : Bytes) : Full.parseCP b = parseCP b := by
  unfold Full.parseCP parseCP
  split
  · simp only [parseCPAttrs_eq]; rfl
  · rename_i h
    split
    · exact absurd rfl (h _ _ _ _ _)
    · rfl

/-- with the trusted step as parameter, the parametrised body parser is `Spec.parseBody` -/
theorem parseBody_eq_with (t : UInt8) (b : Bytes) : parseBody t b = Full.parseBodyWith parseEAP t b := by
  unfold Full.parseBodyWith parseBody
  simp only [parseProposals_eq, parseKE_eq, parseTypeRes3_eq, parseCert_eq, parseNotify_eq, parseDelete_eq,
    parseTS_eq, parseCP_eq]

/-- with the trusted step as parameter, the parametrised chain parser is `Spec.parseChain` -/
theorem parseChain_eq_with (fuel : Nat) (t : UInt8) (b : Bytes) :
    parseChain fuel t b = Full.parseChainWith parseEAP fuel t b := by
  induction fuel generalizing t b with
  | zero => rfl
  | succ f ih =>
    unfold Full.parseChainWith parseChain
    by_cases ht : t = 0
    · rw [if_pos ht, if_pos ht]
    · rw [if_neg ht, if_neg ht]
      split
      · simp only [ih, parseBody_eq_with]; rfl
      · rename_i h
        split
        · exact absurd rfl (h _ _ _ _ _)
        · rfl

/-- **the two developments are tied**: `Spec.parse` (IkeModel/Spec/Parse.lean) is the parametrised
parser of IkeModel/Spec/ParseFull.lean with the trusted step `Spec.parseEAP` as parameter;
`Spec.parseFull` is the same parser with the independent `Spec.parseEapPayload`. -/
theorem parse_eq_parseWith : Spec.parse = Full.parseWith Spec.parseEAP := by
  funext b
  unfold Full.parseWith Spec.parse
  simp only [parseChain_eq_with]
  rfl

/-! ### the EAP step matters under type 48 only -/

theorem parseBodyWith_48 (s : Bytes → Option Payload) (b : Bytes) : Full.parseBodyWith s 48 b = s b := by
  unfold Full.parseBodyWith
  rw [if_neg (by decide), if_neg (by decide), if_neg (by decide), if_neg (by decide), if_neg (by decide),
    if_neg (by decide), if_neg (by decide), if_neg (by decide), if_neg (by decide), if_neg (by decide),
    if_neg (by decide), if_neg (by decide), if_neg (by decide), if_neg (by decide), if_pos rfl]

theorem parseBodyWith_ne48 (s s' : Bytes → Option Payload) (t : UInt8) (b : Bytes) (h : t ≠ 48) :
    Full.parseBodyWith s t b = Full.parseBodyWith s' t b := by
  unfold Full.parseBodyWith
  rw [if_neg h, if_neg h]

/-- a result moves from step `s1` to step `s2` when `s2` reads what `s1` read — required only for
results with the property `Q` -/
theorem parseBodyWith_transfer (s1 s2 : Bytes → Option Payload) (Q : Payload → Prop)
    (hs : ∀ b p, s1 b = some p → Q p → s2 b = some p)
    (t : UInt8) (b : Bytes) (p : Payload) (h : Full.parseBodyWith s1 t b = some p) (hq : Q p) :
    Full.parseBodyWith s2 t b = some p := by
  by_cases ht : t = 48
  · subst ht
    rw [parseBodyWith_48] at h ⊢
    exact hs b p h hq
  · rw [parseBodyWith_ne48 s2 s1 t b ht]; exact h

theorem parseChainWith_transfer (s1 s2 : Bytes → Option Payload) (Q : Payload → Prop)
    (hs : ∀ b p, s1 b = some p → Q p → s2 b = some p)
    (fuel : Nat) (t : UInt8) (b : Bytes) (ps : List Payload)
    (h : Full.parseChainWith s1 fuel t b = some ps) (hq : ∀ p ∈ ps, Q p) :
    Full.parseChainWith s2 fuel t b = some ps := by
  induction fuel generalizing t b ps with
  | zero => simp [Full.parseChainWith] at h
  | succ f ih =>
    unfold Full.parseChainWith at h ⊢
    by_cases ht : t = 0
    · rw [if_pos ht] at h ⊢; exact h
    · rw [if_neg ht] at h ⊢
      split at h
      · rename_i nx fl l0 l1 rest
        dsimp only at h ⊢
        peel h with hfl
        peel h with hlen
        rw [if_neg hfl, if_neg hlen]
        split at h
        · rename_i p ps' hpb hpc
          simp only [Option.some.injEq] at h
          subst h
          rw [parseBodyWith_transfer s1 s2 Q hs _ _ _ hpb (hq p (by simp)),
            ih _ _ _ hpc (fun q hq' => hq q (by simp [hq']))]
        · simp at h
      · simp at h

theorem parseWith_transfer (s1 s2 : Bytes → Option Payload) (Q : Payload → Prop)
    (hs : ∀ b p, s1 b = some p → Q p → s2 b = some p)
    (bs : Bytes) (m : Msg) (h : Full.parseWith s1 bs = some m) (hq : ∀ p ∈ m.payloads, Q p) :
    Full.parseWith s2 bs = some m := by
  unfold Full.parseWith at h ⊢
  peel h with h28
  peel h with hlen
  rw [if_neg h28, if_neg hlen]
  split at h
  · simp at h
  · rename_i ps hpc
    simp only [Option.some.injEq] at h
    subst h
    rw [parseChainWith_transfer s1 s2 Q hs _ _ _ _ hpc hq]

/-! ### every EAP payload of a result comes from the EAP step -/

theorem parseBodyWith_eap_inv (s : Bytes → Option Payload) (t : UInt8) (b : Bytes) (e : Eap)
    (h : Full.parseBodyWith s t b = some (.eap e)) : s b = some (.eap e) := by
  by_cases ht : t = 48
  · subst ht; rw [parseBodyWith_48] at h; exact h
  · rw [parseBodyWith_ne48 s parseEAP t b ht, ← parseBody_eq_with] at h
    exact absurd (encodeBody_parse t b _ h).2.symm ht

theorem parseChainWith_eap_inv (s : Bytes → Option Payload) (fuel : Nat) (t : UInt8) (b : Bytes)
    (ps : List Payload) (h : Full.parseChainWith s fuel t b = some ps) (e : Eap) (he : .eap e ∈ ps) :
    ∃ b', s b' = some (.eap e) := by
  induction fuel generalizing t b ps with
  | zero => simp [Full.parseChainWith] at h
  | succ f ih =>
    unfold Full.parseChainWith at h
    by_cases ht : t = 0
    · rw [if_pos ht] at h
      by_cases hb : b = []
      · rw [if_pos hb] at h
        simp only [Option.some.injEq] at h
        subst h
        simp at he
      · rw [if_neg hb] at h; simp at h
    · rw [if_neg ht] at h
      split at h
      · rename_i nx fl l0 l1 rest
        dsimp only at h
        peel h with hfl
        peel h with hlen
        split at h
        · rename_i p ps' hpb hpc
          simp only [Option.some.injEq] at h
          subst h
          rcases List.mem_cons.mp he with he' | he'
          · subst he'
            exact ⟨_, parseBodyWith_eap_inv s _ _ e hpb⟩
          · exact ih _ _ _ hpc he'
        · simp at h
      · simp at h

theorem parseWith_eap_inv (s : Bytes → Option Payload) (bs : Bytes) (m : Msg)
    (h : Full.parseWith s bs = some m) (e : Eap) (he : .eap e ∈ m.payloads) :
    ∃ b', s b' = some (.eap e) := by
  unfold Full.parseWith at h
  peel h with h28
  peel h with hlen
  split at h
  · simp at h
  · rename_i ps hpc
    simp only [Option.some.injEq] at h
    subst h
    exact parseChainWith_eap_inv s _ _ _ _ hpc e he

/-! ### the two EAP steps -/

/-- the independent step refines the trusted one -/
theorem eapStep_refines (b : Bytes) (p : Payload) (h : parseEapPayload b = some p) : parseEAP b = some p := by
  unfold parseEapPayload at h
  cases hp : parseEap b with
  | none => rw [hp] at h; simp at h
  | some e =>
    rw [hp] at h
    simp only [Option.map_some, Option.some.injEq] at h
    subst h
    obtain ⟨hd, hm⟩ := parseEap_sound hp
    unfold parseEAP
    rw [rt_eap_payload e b hd hm]
    dsimp only
    rw [if_pos hm]

/-- the trusted step, on a result that is an EAP packet of the domain of C14, is the independent one -/
theorem eapStep_dom (b : Bytes) (p : Payload) (h : parseEAP b = some p) (hd : ∀ e, p = .eap e → DomEap e) :
    parseEapPayload b = some p := by
  obtain ⟨e, rfl, hm⟩ := encodeEAP_parse b p h
  unfold parseEapPayload
  rw [parseEap_complete (hd e rfl) hm]
  rfl

/-- **refinement**: whatever the fully independent parser accepts, `Spec.parse` accepts, same result -/
theorem parseFull_refines (bs : Bytes) (m : Msg) (h : Spec.parseFull bs = some m) : Spec.parse bs = some m := by
  rw [parse_eq_parseWith]
  exact parseWith_transfer parseEapPayload parseEAP (fun _ => True) (fun b p hp _ => eapStep_refines b p hp)
    bs m h (fun _ _ => trivial)

/-- **converse on the domain**: a result of `Spec.parse` whose EAP packets lie in the domain of C14
is the result of the fully independent parser -/
theorem parse_to_parseFull (bs : Bytes) (m : Msg) (h : Spec.parse bs = some m)
    (hd : ∀ e, .eap e ∈ m.payloads → DomEap e) : Spec.parseFull bs = some m := by
  rw [parse_eq_parseWith] at h
  exact parseWith_transfer parseEAP parseEapPayload (fun p => ∀ e, p = .eap e → DomEap e) eapStep_dom bs m h
    (fun p hp e he => hd e (he ▸ hp))

/-- every EAP packet the fully independent parser returns is a packet of the domain of C14 -/
theorem parseFull_eap_dom (bs : Bytes) (m : Msg) (h : Spec.parseFull bs = some m) (e : Eap)
    (he : .eap e ∈ m.payloads) : DomEap e := by
  obtain ⟨b', hb⟩ := parseWith_eap_inv parseEapPayload bs m h e he
  unfold parseEapPayload at hb
  cases hp : parseEap b' with
  | none => rw [hp] at hb; simp at hb
  | some e' =>
    rw [hp] at hb
    simp only [Option.map_some, Option.some.injEq, Payload.eap.injEq] at hb
    subst hb
    exact (parseEap_sound hp).1

end Ike.ParseFullLemmas
